(** Monitor soundness, C04 / C05 — the model side, pool tasks: how the events emitted in one step
    relate to the task records.  Same method as PMonSound_ev.v (pilot), with a finer invariant:

    [Inv5 n V s ov]: the view [V] = (live workers, callbacks in flight, task table) is
    consistent with the task records of [s]:
      - the live list has no duplicates and lists EXACTLY the tasks whose worker is live,
      - every task inside a cancel / end callback is listed as such,
      - the task table has one entry per started task, with the task's request and element,
      - every EvStart of this step names the request and element of its task,
      - every request number is below [n].
    [ov = Some (a, vc, r, el)] overrides class and identity of the task [a] that is executing. *)
From TP Require Import PMon PInv_R_base PInv_R_tr PMonSound_trk PMonSound_C45_trk.

Inductive wclass := WNew | WLive | WCan | WEnd | WNone.

Definition cls5 (p : ppc) : wclass :=
  match p with
  | PCreated => WNew
  | PUStart | PWaitGate | PUResume | PUCancelled => WLive
  | PUCancelCb | PWaitCcb => WCan
  | PUEndCb | PWaitEcb => WEnd
  | PDone => WNone
  end.

Definition ovr := option (nat * wclass * nat * nat).

Definition cls_rec5 (s : state) (u : nat) : option wclass :=
  option_map (fun x => cls5 (p_pc x)) (get_p s u).

Definition id_rec (s : state) (u : nat) : option (nat * nat) :=
  option_map (fun x => (p_req x, p_el x)) (get_p s u).

Definition cls_at5 (s : state) (ov : ovr) (u : nat) : option wclass :=
  match ov with
  | Some (a, vc, _, _) => if Nat.eqb u a then Some vc else cls_rec5 s u
  | None => cls_rec5 s u
  end.

Definition id_at (s : state) (ov : ovr) (u : nat) : option (nat * nat) :=
  match ov with
  | Some (a, _, r, el) => if Nat.eqb u a then Some (r, el) else id_rec s u
  | None => id_rec s u
  end.

Definition Inv5 (n : nat) (V : view5) (s : state) (ov : ovr) : Prop :=
  NoDup (v_live V) /\
  (forall u, In u (v_live V) <-> cls_at5 s ov u = Some WLive) /\
  (forall u, cls_at5 s ov u = Some WCan -> In (u, KCancel) (v_cbs V)) /\
  (forall u, cls_at5 s ov u = Some WEnd -> In (u, KEnd) (v_cbs V)) /\
  (forall a vc r el, ov = Some (a, vc, r, el) -> a < length (ptasks s)) /\
  NoDup (map fst (v_task V)) /\
  (forall u r el, In (u, (r, el)) (v_task V) ->
             id_at s ov u = Some (r, el) /\ cls_at5 s ov u <> Some WNew) /\
  (forall u, In u (v_live V) -> exists r el, In (u, (r, el)) (v_task V)) /\
  (forall u r el, In (EvStart u r el) (evs s) -> id_at s ov u = Some (r, el)) /\
  (forall u r el, id_at s ov u = Some (r, el) -> r < n).

Definition Q5 (n : nat) (V0 : view5) (ov : ovr) (s : state) : Prop :=
  Inv5 n (fold_left (vev5 n) (evs s) V0) s ov.

(** ** basic *)
Ltac split10 :=
  split; [|split; [|split; [|split; [|split; [|split; [|split; [|split; [|split]]]]]]]].

Lemma Q5_eq n V0 ov s s' :
  ptasks s' = ptasks s -> evs s' = evs s -> Q5 n V0 ov s -> Q5 n V0 ov s'.
Proof.
  unfold Q5, Inv5. intros Ep Ee (H1 & H2 & H3 & H4 & H5 & H6 & H7 & H8 & H9 & H10).
  assert (Hc : forall u, cls_at5 s' ov u = cls_at5 s ov u)
    by (intros; unfold cls_at5, cls_rec5, get_p; rewrite Ep; reflexivity).
  assert (Hi : forall u, id_at s' ov u = id_at s ov u)
    by (intros; unfold id_at, id_rec, get_p; rewrite Ep; reflexivity).
  rewrite Ee. split10; auto.
  - intros u. rewrite Hc. auto.
  - intros u. rewrite Hc. auto.
  - intros u. rewrite Hc. auto.
  - intros a vc r el E. rewrite Ep. eauto.
  - intros u r el Hin. rewrite Hc, Hi. auto.
  - intros u r el Hin. rewrite Hi. apply H9. exact Hin.
  - intros u r el. rewrite Hi. apply H10.
Qed.

Lemma Q5_sched n V0 ov s h : Q5 n V0 ov s -> Q5 n V0 ov (sched s h).
Proof. apply Q5_eq; unfold sched; destruct (is_ready s h); reflexivity. Qed.

Lemma Q5_fold {A} (f : state -> A -> state) n V0 ov :
  (forall s x, Q5 n V0 ov s -> Q5 n V0 ov (f s x)) ->
  forall l s, Q5 n V0 ov s -> Q5 n V0 ov (fold_left f l s).
Proof. intros Hf. induction l as [|x l IH]; simpl; intros s H; auto. Qed.

Lemma Q5_sched_cbs n V0 ov s r : Q5 n V0 ov s -> Q5 n V0 ov (sched_cbs s r).
Proof. intros H. unfold sched_cbs. apply Q5_fold; auto. intros; apply Q5_sched; auto. Qed.

Lemma Q5_put_m n V0 ov s m x : Q5 n V0 ov s -> Q5 n V0 ov (put_m s m x).
Proof. apply Q5_eq; reflexivity. Qed.
Lemma Q5_put_d n V0 ov s m x : Q5 n V0 ov s -> Q5 n V0 ov (put_d s m x).
Proof. apply Q5_eq; reflexivity. Qed.
Lemma Q5_set_ctl n V0 ov s c : Q5 n V0 ov s -> Q5 n V0 ov (set_ctl s c).
Proof. apply Q5_eq; reflexivity. Qed.
Lemma Q5_set_res n V0 ov s r : Q5 n V0 ov s -> Q5 n V0 ov (set_res s r).
Proof. apply Q5_eq; reflexivity. Qed.
Lemma Q5_set_groups n V0 ov s r : Q5 n V0 ov s -> Q5 n V0 ov (set_groups s r).
Proof. apply Q5_eq; reflexivity. Qed.
Lemma Q5_set_start_calls n V0 ov s r : Q5 n V0 ov s -> Q5 n V0 ov (set_start_calls s r).
Proof. apply Q5_eq; reflexivity. Qed.

Definition other_ev (e : event) : bool :=
  match e with EvCancelled _ | EvPull _ _ | EvDriverDone _ _ => true | _ => false end.

Lemma evs_emit_fold5 n V0 s e :
  fold_left (vev5 n) (evs (emit s e)) V0 = vev5 n (fold_left (vev5 n) (evs s) V0) e.
Proof. unfold emit. cbn [evs set_evs]. rewrite fold_left_app. reflexivity. Qed.

Lemma Q5_emit_other n V0 ov s e : other_ev e = true -> Q5 n V0 ov s -> Q5 n V0 ov (emit s e).
Proof.
  intros He H. unfold Q5 in *. rewrite evs_emit_fold5.
  replace (vev5 n (fold_left (vev5 n) (evs s) V0) e) with (fold_left (vev5 n) (evs s) V0)
    by (destruct e; simpl in *; congruence).
  destruct H as (H1 & H2 & H3 & H4 & H5 & H6 & H7 & H8 & H9 & H10).
  split10; auto.
  intros u r el Hin. unfold emit in Hin. cbn [evs set_evs] in Hin.
  apply in_app_iff in Hin. destruct Hin as [Hin|[E|[]]]; [apply H9; exact Hin|].
  subst e. discriminate He.
Qed.

(** records *)
Lemma cls_rec5_put_neq s t x u : u <> t -> cls_rec5 (put_p s t x) u = cls_rec5 s u.
Proof. intros H. unfold cls_rec5. rewrite get_p_put_p_neq; auto. Qed.
Lemma id_rec_put_neq s t x u : u <> t -> id_rec (put_p s t x) u = id_rec s u.
Proof. intros H. unfold id_rec. rewrite get_p_put_p_neq; auto. Qed.

(** transfer along pointwise-equal classes / identities *)
Lemma Inv5_ext n V s ov s' ov' :
  (forall u, cls_at5 s' ov' u = cls_at5 s ov u) ->
  (forall u, id_at s' ov' u = id_at s ov u) ->
  evs s' = evs s ->
  (forall a vc r el, ov' = Some (a, vc, r, el) -> a < length (ptasks s')) ->
  Inv5 n V s ov -> Inv5 n V s' ov'.
Proof.
  intros Hc Hi Ee Hov (H1 & H2 & H3 & H4 & H5 & H6 & H7 & H8 & H9 & H10).
  split10; auto.
  - intros u. rewrite Hc. auto.
  - intros u. rewrite Hc. auto.
  - intros u. rewrite Hc. auto.
  - intros u r el Hin. rewrite Hc, Hi. auto.
  - intros u r el Hin. rewrite Hi. apply H9. rewrite <- Ee. exact Hin.
  - intros u r el. rewrite Hi. apply H10.
Qed.

Lemma Q5_put_p_active n V0 a vc r el s x :
  Q5 n V0 (Some (a, vc, r, el)) s -> Q5 n V0 (Some (a, vc, r, el)) (put_p s a x).
Proof.
  intros H. unfold Q5 in *. change (evs (put_p s a x)) with (evs s).
  eapply Inv5_ext; [| | | |exact H]; auto.
  - intros u. unfold cls_at5. destruct (Nat.eqb_spec u a); auto. apply cls_rec5_put_neq; auto.
  - intros u. unfold id_at. destruct (Nat.eqb_spec u a); auto. apply id_rec_put_neq; auto.
  - intros a' vc' r' el' [= <- <- <- <-]. unfold put_p; cbn. rewrite upd_length.
    destruct H as (_ & _ & _ & _ & H5 & _). eapply H5; eauto.
Qed.

Lemma Q5_put_p_same n V0 ov s t x x' :
  Q5 n V0 ov s -> get_p s t = Some x -> cls5 (p_pc x') = cls5 (p_pc x) ->
  p_req x' = p_req x -> p_el x' = p_el x -> Q5 n V0 ov (put_p s t x').
Proof.
  intros H Hx Hc Hr He. unfold Q5 in *. change (evs (put_p s t x')) with (evs s).
  assert (Hcr : forall u, cls_rec5 (put_p s t x') u = cls_rec5 s u).
  { intros u. destruct (Nat.eq_dec u t) as [->|Hne]; [|apply cls_rec5_put_neq; auto].
    unfold cls_rec5. rewrite get_p_put_p_eq by (eapply get_p_lt; eauto). rewrite Hx. simpl.
    congruence. }
  assert (Hir : forall u, id_rec (put_p s t x') u = id_rec s u).
  { intros u. destruct (Nat.eq_dec u t) as [->|Hne]; [|apply id_rec_put_neq; auto].
    unfold id_rec. rewrite get_p_put_p_eq by (eapply get_p_lt; eauto). rewrite Hx. simpl.
    congruence. }
  eapply Inv5_ext; [| | | |exact H]; auto.
  - intros u. unfold cls_at5. destruct ov as [[[[a vc] r] el]|]; auto. destruct (Nat.eqb u a); auto.
  - intros u. unfold id_at. destruct ov as [[[[a vc] r] el]|]; auto. destruct (Nat.eqb u a); auto.
  - intros a vc r el E. unfold put_p; cbn. rewrite upd_length.
    destruct H as (_ & _ & _ & _ & H5 & _). eapply H5; eauto.
Qed.

(** opening / closing the override *)
Lemma Q5_open n V0 s a x :
  Q5 n V0 None s -> get_p s a = Some x ->
  Q5 n V0 (Some (a, cls5 (p_pc x), p_req x, p_el x)) s.
Proof.
  intros H Hx. unfold Q5 in *. eapply Inv5_ext; [| | | |exact H]; auto.
  - intros u. unfold cls_at5. destruct (Nat.eqb_spec u a) as [->|]; auto.
    unfold cls_rec5. rewrite Hx. reflexivity.
  - intros u. unfold id_at. destruct (Nat.eqb_spec u a) as [->|]; auto.
    unfold id_rec. rewrite Hx. reflexivity.
  - intros a' vc' r' el' [= <- <- <- <-]. eapply get_p_lt; eauto.
Qed.

Lemma Q5_close n V0 s a vc r el x :
  Q5 n V0 (Some (a, vc, r, el)) s -> get_p s a = Some x ->
  cls5 (p_pc x) = vc -> p_req x = r -> p_el x = el -> Q5 n V0 None s.
Proof.
  intros H Hx Hv Hr He. unfold Q5 in *. eapply Inv5_ext; [| | | |exact H]; auto.
  - intros u. unfold cls_at5. destruct (Nat.eqb_spec u a) as [->|]; auto.
    unfold cls_rec5. rewrite Hx. simpl. congruence.
  - intros u. unfold id_at. destruct (Nat.eqb_spec u a) as [->|]; auto.
    unfold id_rec. rewrite Hx. simpl. congruence.
  - intros a' vc' r' el' E. discriminate.
Qed.

Lemma Q5_put_close n V0 s a vc r el x :
  Q5 n V0 (Some (a, vc, r, el)) s ->
  cls5 (p_pc x) = vc -> p_req x = r -> p_el x = el -> Q5 n V0 None (put_p s a x).
Proof.
  intros H Hv Hr He. pose proof H as (_ & _ & _ & _ & H5 & _).
  eapply Q5_close with (a := a) (x := x); [apply Q5_put_p_active; exact H| | | |]; auto.
  apply get_p_put_p_eq. eapply H5; eauto.
Qed.

(** dropping a class that is not "live" (extra callback entries are harmless) *)
Lemma Q5_drop n V0 s a vc r el :
  Q5 n V0 (Some (a, vc, r, el)) s -> vc <> WLive -> Q5 n V0 (Some (a, WNone, r, el)) s.
Proof.
  intros (H1 & H2 & H3 & H4 & H5 & H6 & H7 & H8 & H9 & H10) Hv. unfold Q5.
  assert (Ho : forall u, u <> a -> cls_at5 s (Some (a, WNone, r, el)) u = cls_at5 s (Some (a, vc, r, el)) u).
  { intros u Hne. unfold cls_at5. destruct (Nat.eqb_spec u a); [contradiction|reflexivity]. }
  assert (Ha : forall c, cls_at5 s (Some (a, c, r, el)) a = Some c).
  { intros c. unfold cls_at5. rewrite Nat.eqb_refl. reflexivity. }
  split10; auto.
  - intros u. destruct (Nat.eq_dec u a) as [->|Hne].
    + rewrite Ha. split; [|discriminate]. intros Hin. apply H2 in Hin. rewrite Ha in Hin. congruence.
    + rewrite Ho; auto.
  - intros u Hu. destruct (Nat.eq_dec u a) as [->|Hne]; [rewrite Ha in Hu; discriminate|].
    apply H3. rewrite <- Ho; auto.
  - intros u Hu. destruct (Nat.eq_dec u a) as [->|Hne]; [rewrite Ha in Hu; discriminate|].
    apply H4. rewrite <- Ho; auto.
  - intros a' vc' r' el' [= <- <- <- <-]. eapply H5; eauto.
  - intros u r' el' Hin. destruct (H7 _ _ _ Hin) as [A B]. split; [exact A|].
    destruct (Nat.eq_dec u a) as [->|Hne]; [rewrite Ha; discriminate|rewrite Ho; auto].
Qed.

(** ** events of the executing task *)
Lemma In_removeall5 t l u : In u (removeall t l) <-> u <> t /\ In u l.
Proof.
  unfold removeall. rewrite filter_In. destruct (Nat.eqb_spec t u); simpl; intuition congruence.
Qed.

Lemma In_emit s e e' : In e' (evs (emit s e)) <-> In e' (evs s) \/ e' = e.
Proof.
  unfold emit. cbn [evs set_evs]. rewrite in_app_iff. simpl. intuition.
Qed.

Lemma cls_at5_self s a r el c : cls_at5 s (Some (a, c, r, el)) a = Some c.
Proof. unfold cls_at5. rewrite Nat.eqb_refl. reflexivity. Qed.

Lemma cls_at5_other s a r el c c' u :
  u <> a -> cls_at5 s (Some (a, c, r, el)) u = cls_at5 s (Some (a, c', r, el)) u.
Proof. intros Hne. unfold cls_at5. destruct (Nat.eqb_spec u a); [contradiction|reflexivity]. Qed.

Lemma v_live_mk l c t : v_live (l, c, t) = l. Proof. reflexivity. Qed.
Lemma v_cbs_mk l c t : v_cbs (l, c, t) = c. Proof. reflexivity. Qed.
Lemma v_task_mk l c t : v_task (l, c, t) = t. Proof. reflexivity. Qed.

Ltac vmk := unfold Inv5; rewrite ?v_live_mk, ?v_cbs_mk, ?v_task_mk.

Lemma Q5_exit n V0 s a r el :
  Q5 n V0 (Some (a, WLive, r, el)) s -> Q5 n V0 (Some (a, WNone, r, el)) (emit s (EvExit a)).
Proof.
  intros (H1 & H2 & H3 & H4 & H5 & H6 & H7 & H8 & H9 & H10). unfold Q5.
  rewrite evs_emit_fold5. set (V := fold_left (vev5 n) (evs s) V0) in *.
  unfold vev5. vmk.
  change (cls_at5 (emit s (EvExit a))) with (cls_at5 s).
  change (id_at (emit s (EvExit a))) with (id_at s).
  split10; auto.
  - apply NoDup_filter. exact H1.
  - intros u. rewrite In_removeall5. destruct (Nat.eq_dec u a) as [->|Hne].
    + rewrite cls_at5_self. split; [intros [E _]; congruence|discriminate].
    + rewrite (cls_at5_other s a r el WNone WLive u Hne). rewrite <- H2. tauto.
  - intros u Hu. destruct (Nat.eq_dec u a) as [->|Hne]; [rewrite cls_at5_self in Hu; discriminate|].
    apply H3. rewrite (cls_at5_other s a r el WLive WNone u Hne). exact Hu.
  - intros u Hu. destruct (Nat.eq_dec u a) as [->|Hne]; [rewrite cls_at5_self in Hu; discriminate|].
    apply H4. rewrite (cls_at5_other s a r el WLive WNone u Hne). exact Hu.
  - intros a' vc' r' el' [= <- <- <- <-]. eapply H5; eauto.
  - intros u r' el' Hin. destruct (H7 _ _ _ Hin) as [A B]. split; [exact A|].
    destruct (Nat.eq_dec u a) as [->|Hne]; [rewrite cls_at5_self; discriminate|].
    rewrite (cls_at5_other s a r el WNone WLive u Hne). exact B.
  - intros u Hu. apply In_removeall5 in Hu. apply H8. tauto.
  - intros u r' el' Hin. apply In_emit in Hin. destruct Hin as [Hin|E]; [|discriminate].
    apply H9. exact Hin.
Qed.

Lemma Q5_start n V0 s a r el :
  Q5 n V0 (Some (a, WNew, r, el)) s ->
  Q5 n V0 (Some (a, WLive, r, el)) (emit s (EvStart a r el)).
Proof.
  intros (H1 & H2 & H3 & H4 & H5 & H6 & H7 & H8 & H9 & H10). unfold Q5.
  rewrite evs_emit_fold5. set (V := fold_left (vev5 n) (evs s) V0) in *.
  assert (Hid : id_at s (Some (a, WNew, r, el)) a = Some (r, el))
    by (unfold id_at; rewrite Nat.eqb_refl; reflexivity).
  assert (Hlt : Nat.ltb r n = true) by (apply Nat.ltb_lt; eapply H10; eauto).
  unfold vev5. rewrite Hlt. vmk.
  change (cls_at5 (emit s (EvStart a r el))) with (cls_at5 s).
  change (id_at (emit s (EvStart a r el))) with (id_at s).
  assert (Hna : ~ In a (v_live V)).
  { intros Hin. apply H2 in Hin. rewrite cls_at5_self in Hin. discriminate. }
  assert (Hnt : forall r' el', ~ In (a, (r', el')) (v_task V)).
  { intros r' el' Hin. destruct (H7 _ _ _ Hin) as [_ B]. apply B. apply cls_at5_self. }
  split10; auto.
  - constructor; auto.
  - intros u. cbn [In]. destruct (Nat.eq_dec u a) as [->|Hne].
    + rewrite cls_at5_self. split; auto.
    + rewrite (cls_at5_other s a r el WLive WNew u Hne). rewrite <- H2.
      split; [intros [E|E]; [congruence|exact E]|auto].
  - intros u Hu. destruct (Nat.eq_dec u a) as [->|Hne]; [rewrite cls_at5_self in Hu; discriminate|].
    apply H3. rewrite (cls_at5_other s a r el WNew WLive u Hne). exact Hu.
  - intros u Hu. destruct (Nat.eq_dec u a) as [->|Hne]; [rewrite cls_at5_self in Hu; discriminate|].
    apply H4. rewrite (cls_at5_other s a r el WNew WLive u Hne). exact Hu.
  - intros a' vc' r' el' [= <- <- <- <-]. eapply H5; eauto.
  - cbn [map fst]. constructor; auto. intros Hin. apply in_map_iff in Hin.
    destruct Hin as [[u [r' el']] [E Hin]]. simpl in E. subst u. eapply Hnt; eauto.
  - intros u r' el' [E|Hin].
    + inversion E; subst. split; [exact Hid|rewrite cls_at5_self; discriminate].
    + destruct (H7 _ _ _ Hin) as [A B]. split; [exact A|].
      destruct (Nat.eq_dec u a) as [->|Hne]; [rewrite cls_at5_self; discriminate|].
      rewrite (cls_at5_other s a r el WLive WNew u Hne). exact B.
  - intros u [<-|Hu]; [exists r, el; left; reflexivity|].
    destruct (H8 u Hu) as (r' & el' & Hin). exists r', el'. right. exact Hin.
  - intros u r' el' Hin. apply In_emit in Hin. destruct Hin as [Hin|E]; [apply H9; exact Hin|].
    inversion E; subst. exact Hid.
Qed.

Definition kcls5 (k : cbkind) : wclass := match k with KCancel => WCan | KEnd => WEnd end.

Lemma cbk_eqb_eq5 a b : cbk_eqb a b = true <-> a = b.
Proof. destruct a, b; simpl; split; congruence. Qed.

Lemma In_del_cb5 l t k u k' :
  In (u, k') (del_cb l t k) <-> In (u, k') l /\ ~ (u = t /\ k' = k).
Proof.
  unfold del_cb. rewrite filter_In. simpl.
  destruct (Nat.eqb_spec u t) as [->|Hne]; simpl.
  - destruct (cbk_eqb k' k) eqn:Hk; simpl.
    + apply cbk_eqb_eq5 in Hk. subst. intuition congruence.
    + assert (k' <> k) by (intros ->; destruct k; discriminate). intuition.
  - intuition.
Qed.

Lemma Q5_cbbegin n V0 s a r el k cl :
  Q5 n V0 (Some (a, WNone, r, el)) s ->
  Q5 n V0 (Some (a, kcls5 k, r, el)) (emit s (EvCbBegin k a cl)).
Proof.
  intros (H1 & H2 & H3 & H4 & H5 & H6 & H7 & H8 & H9 & H10). unfold Q5.
  rewrite evs_emit_fold5. set (V := fold_left (vev5 n) (evs s) V0) in *.
  unfold vev5. vmk.
  change (cls_at5 (emit s (EvCbBegin k a cl))) with (cls_at5 s).
  change (id_at (emit s (EvCbBegin k a cl))) with (id_at s).
  assert (Hk : kcls5 k <> WLive /\ kcls5 k <> WNew) by (destruct k; split; discriminate).
  split10; auto.
  - intros u. destruct (Nat.eq_dec u a) as [->|Hne].
    + rewrite cls_at5_self. split; [|intros E; inversion E; tauto].
      intros Hin. apply H2 in Hin. rewrite cls_at5_self in Hin. discriminate.
    + rewrite (cls_at5_other s a r el (kcls5 k) WNone u Hne). apply H2.
  - intros u Hu. destruct (Nat.eq_dec u a) as [->|Hne].
    + rewrite cls_at5_self in Hu. destruct k; [discriminate|]. left. reflexivity.
    + right. apply H3. rewrite (cls_at5_other s a r el WNone (kcls5 k) u Hne). exact Hu.
  - intros u Hu. destruct (Nat.eq_dec u a) as [->|Hne].
    + rewrite cls_at5_self in Hu. destruct k; [|discriminate]. left. reflexivity.
    + right. apply H4. rewrite (cls_at5_other s a r el WNone (kcls5 k) u Hne). exact Hu.
  - intros a' vc' r' el' [= <- <- <- <-]. eapply H5; eauto.
  - intros u r' el' Hin. destruct (H7 _ _ _ Hin) as [A B]. split; [exact A|].
    destruct (Nat.eq_dec u a) as [->|Hne]; [rewrite cls_at5_self; intros E; inversion E; tauto|].
    rewrite (cls_at5_other s a r el (kcls5 k) WNone u Hne). exact B.
  - intros u r' el' Hin. apply In_emit in Hin. destruct Hin as [Hin|E]; [|discriminate].
    apply H9. exact Hin.
Qed.

Lemma Q5_cbdel n V0 s a vc r el e k :
  Q5 n V0 (Some (a, vc, r, el)) s -> vc <> WLive ->
  (forall V, vev5 n V e = (v_live V, del_cb (v_cbs V) a k, v_task V)) ->
  (forall u r' el', e <> EvStart u r' el') ->
  Q5 n V0 (Some (a, WNone, r, el)) (emit s e).
Proof.
  intros (H1 & H2 & H3 & H4 & H5 & H6 & H7 & H8 & H9 & H10) Hvc He Hns. unfold Q5.
  rewrite evs_emit_fold5. set (V := fold_left (vev5 n) (evs s) V0) in *.
  rewrite He. vmk.
  change (cls_at5 (emit s e)) with (cls_at5 s). change (id_at (emit s e)) with (id_at s).
  split10; auto.
  - intros u. destruct (Nat.eq_dec u a) as [->|Hne].
    + rewrite cls_at5_self. split; [|discriminate].
      intros Hin. apply H2 in Hin. rewrite cls_at5_self in Hin. congruence.
    + rewrite (cls_at5_other s a r el WNone vc u Hne). apply H2.
  - intros u Hu. destruct (Nat.eq_dec u a) as [->|Hne]; [rewrite cls_at5_self in Hu; discriminate|].
    apply In_del_cb5. split; [|intros [? _]; contradiction].
    apply H3. rewrite (cls_at5_other s a r el vc WNone u Hne). exact Hu.
  - intros u Hu. destruct (Nat.eq_dec u a) as [->|Hne]; [rewrite cls_at5_self in Hu; discriminate|].
    apply In_del_cb5. split; [|intros [? _]; contradiction].
    apply H4. rewrite (cls_at5_other s a r el vc WNone u Hne). exact Hu.
  - intros a' vc' r' el' [= <- <- <- <-]. eapply H5; eauto.
  - intros u r' el' Hin. destruct (H7 _ _ _ Hin) as [A B]. split; [exact A|].
    destruct (Nat.eq_dec u a) as [->|Hne]; [rewrite cls_at5_self; discriminate|].
    rewrite (cls_at5_other s a r el WNone vc u Hne). exact B.
  - intros u r' el' Hin. apply In_emit in Hin. destruct Hin as [Hin|E]; [apply H9; exact Hin|].
    exfalso. eapply Hns; eauto.
Qed.

Lemma Q5_cbend n V0 s a vc r el k b :
  Q5 n V0 (Some (a, vc, r, el)) s -> vc <> WLive ->
  Q5 n V0 (Some (a, WNone, r, el)) (emit s (EvCbEnd k a b)).
Proof. intros H Hv. eapply Q5_cbdel with (k := k); eauto; try discriminate. Qed.

Lemma Q5_cbint n V0 s a vc r el k :
  Q5 n V0 (Some (a, vc, r, el)) s -> vc <> WLive ->
  Q5 n V0 (Some (a, WNone, r, el)) (emit s (EvCbInterrupted k a)).
Proof. intros H Hv. eapply Q5_cbdel with (k := k); eauto; try discriminate. Qed.

(** ** semaphore *)
Lemma Q5_wake_next n V0 ov s : Q5 n V0 ov s -> Q5 n V0 ov (wake_next s).
Proof.
  intros H. unfold wake_next. destruct (first_pending s (sem_waiters s)); auto.
  destruct (get_m s n0); auto. apply Q5_sched. exact H.
Qed.

Lemma Q5_sem_release n V0 ov s : Q5 n V0 ov s -> Q5 n V0 ov (sem_release s).
Proof. intros H. unfold sem_release. apply Q5_wake_next. exact H. Qed.

Lemma Q5_map_release n V0 ov s m : Q5 n V0 ov s -> Q5 n V0 ov (map_release s m).
Proof.
  intros H. unfold map_release. destruct (get_m s m) as [x|]; auto.
  destruct (m_pc x); try exact H. destruct (m_fw x) as [[| | |]|]; try exact H.
  apply Q5_sched. exact H.
Qed.

(** ** pool tasks *)
Lemma Q5_finish_p n V0 s t r el x :
  Q5 n V0 (Some (t, WNone, r, el)) s -> p_req x = r -> p_el x = el ->
  Q5 n V0 None (finish_p s t x).
Proof.
  intros H Hr He. unfold finish_p. apply Q5_set_ctl, Q5_sched_cbs.
  apply Q5_put_close with (vc := WNone) (r := r) (el := el); auto.
Qed.

Lemma Q5_suspend_p n V0 s t r el x pc :
  Q5 n V0 (Some (t, cls5 pc, r, el)) s -> p_req x = r -> p_el x = el ->
  Q5 n V0 None (suspend_p s t x pc).
Proof.
  intros H Hr He. unfold suspend_p. destruct (p_mc x).
  - apply Q5_set_ctl, Q5_sched. eapply Q5_put_close; eauto.
  - apply Q5_set_ctl. eapply Q5_put_close; eauto.
Qed.

Lemma Q5_user_cb n V0 s t r el x k cl c :
  Q5 n V0 (Some (t, WNone, r, el)) s -> cls5 (p_pc x) = kcls5 k -> p_req x = r -> p_el x = el ->
  Q5 n V0 None (set_ctl (emit (put_p s t x) (EvCbBegin k t cl)) c).
Proof.
  intros H Hc Hr He. apply Q5_set_ctl.
  eapply Q5_close with (a := t) (x := x); [apply Q5_cbbegin, Q5_put_p_active; exact H| | | |]; auto.
  change (get_p (put_p s t x) t = Some x). apply get_p_put_p_eq.
  destruct H as (_ & _ & _ & _ & H5 & _). eapply H5; eauto.
Qed.

Lemma Q5_user_start n V0 s t r el x c :
  Q5 n V0 (Some (t, WNew, r, el)) s -> cls5 (p_pc x) = WLive -> p_req x = r -> p_el x = el ->
  Q5 n V0 None (set_ctl (emit (put_p s t x) (EvStart t r el)) c).
Proof.
  intros H Hc Hr He. apply Q5_set_ctl.
  eapply Q5_close with (a := t) (x := x); [apply Q5_start, Q5_put_p_active; exact H| | | |]; auto.
  change (get_p (put_p s t x) t = Some x). apply get_p_put_p_eq.
  destruct H as (_ & _ & _ & _ & H5 & _). eapply H5; eauto.
Qed.

Lemma Q5_moved n V0 s1 t r el x :
  Q5 n V0 (Some (t, WNone, r, el)) s1 -> p_req x = r -> p_el x = el ->
  Q5 n V0 None (let s2 := set_t_ended s1 (dict_add (t_ended s1) t) in
     let s3 := sem_release s2 in
     let x := set_p_nrel x (S (p_nrel x)) in
     let s4 := if p_ismap x then map_release s3 (p_req x) else s3 in
     match p_ecb x with
     | CbNone => finish_p s4 t x
     | _ =>
        set_ctl (emit (put_p s4 t (set_p_pc (set_p_necb x (S (p_necb x))) PUEndCb))
                      (EvCbBegin KEnd t (classify s4 t)))
                (CUser (TP t))
     end).
Proof.
  intros H Hr He. cbv zeta.
  set (s3 := sem_release (set_t_ended s1 (dict_add (t_ended s1) t))).
  assert (H3 : Q5 n V0 (Some (t, WNone, r, el)) s3) by (apply Q5_sem_release; exact H).
  set (x1 := set_p_nrel x (S (p_nrel x))).
  set (s4 := if p_ismap x1 then map_release s3 (p_req x1) else s3).
  assert (H4 : Q5 n V0 (Some (t, WNone, r, el)) s4).
  { unfold s4. destruct (p_ismap x1); auto. apply Q5_map_release; auto. }
  clearbody s4. clear H3. clearbody s3.
  destruct (p_ecb x1).
  - apply Q5_finish_p with (r := r) (el := el); auto.
  - apply Q5_user_cb with (r := r) (el := el); auto.
  - apply Q5_user_cb with (r := r) (el := el); auto.
Qed.

Lemma Q5_enter_end n V0 s t r el x :
  Q5 n V0 (Some (t, WNone, r, el)) s -> p_req x = r -> p_el x = el ->
  Q5 n V0 None (enter_end s t x).
Proof.
  intros H Hr He. unfold enter_end.
  destruct (mem t (t_running s)); [|destruct (mem t (t_cancelled s))].
  - apply Q5_moved with (r := r) (el := el); auto.
  - apply Q5_moved with (r := r) (el := el); auto.
  - apply Q5_finish_p with (r := r) (el := el); auto.
Qed.

Lemma Q5_enter_cancel n V0 s t r el x :
  Q5 n V0 (Some (t, WNone, r, el)) s -> p_req x = r -> p_el x = el ->
  Q5 n V0 None (enter_cancel s t x).
Proof.
  intros H Hr He. unfold enter_cancel.
  destruct (mem t (t_running s)).
  - destruct (p_ccb x).
    + apply Q5_enter_end with (r := r) (el := el); auto.
    + apply Q5_user_cb with (r := r) (el := el); auto.
    + apply Q5_user_cb with (r := r) (el := el); auto.
  - apply Q5_enter_end with (r := r) (el := el); auto.
Qed.

Ltac q5e r el := first
  [ apply Q5_enter_end with (r := r) (el := el)
  | apply Q5_enter_cancel with (r := r) (el := el)
  | apply Q5_finish_p with (r := r) (el := el)
  | apply Q5_suspend_p with (r := r) (el := el) ].

Lemma Q5_continue_p n V0 s t : Q5 n V0 None s -> Q5 n V0 None (continue_p s t).
Proof.
  intros H. unfold continue_p.
  destruct (get_p s t) as [x|] eqn:Hx; auto.
  pose proof (Q5_open n V0 s t x H Hx) as Ho.
  set (r := p_req x) in *. set (el := p_el x) in *.
  destruct (p_pc x) eqn:Hpc; auto; simpl cls5 in Ho.
  - (* PUStart *)
    destruct (w_first (p_w x)).
    + q5e r el; auto.
    + q5e r el; auto. apply Q5_exit. exact Ho.
    + q5e r el; auto. apply Q5_exit. exact Ho.
  - destruct (p_fin x); q5e r el; auto; apply Q5_exit; exact Ho.
  - destruct (w_cancel (p_w x)); q5e r el; auto; apply Q5_exit; exact Ho.
  - (* PUCancelCb *)
    destruct (p_ccb x) as [|b|slow b].
    + q5e r el; auto. eapply Q5_drop; eauto. discriminate.
    + q5e r el; [eapply Q5_cbend; eauto; discriminate| |]; unfold cb_raise; destruct b; auto.
    + destruct slow.
      * q5e r el; auto.
      * q5e r el; [eapply Q5_cbend; eauto; discriminate| |]; unfold cb_raise; destruct b; auto.
  - (* PUEndCb *)
    destruct (p_ecb x) as [|b|slow b].
    + q5e r el; auto. eapply Q5_drop; eauto. discriminate.
    + q5e r el; [eapply Q5_cbend; eauto; discriminate| |]; unfold cb_raise; destruct b; auto.
    + destruct slow.
      * q5e r el; auto.
      * q5e r el; [eapply Q5_cbend; eauto; discriminate| |]; unfold cb_raise; destruct b; auto.
Qed.

Lemma Q5_run_p n V0 s t : Q5 n V0 None s -> Q5 n V0 None (run_p s t).
Proof.
  intros H. unfold run_p.
  destruct (get_p s t) as [x0|] eqn:Hx; auto.
  pose proof (Q5_open n V0 s t x0 H Hx) as Ho.
  set (r := p_req x0) in *. set (el := p_el x0) in *.
  set (x := set_p_mc (set_p_fw x0 None) false).
  destruct (p_pc x0) eqn:Hpc; auto; simpl cls5 in Ho.
  - (* PCreated *)
    assert (Hd : Q5 n V0 (Some (t, WNone, r, el)) s) by (eapply Q5_drop; eauto; discriminate).
    destruct (task_input (p_mc x0) (p_fw x0)).
    + destruct (p_unst x).
      * apply Q5_user_start; auto.
      * apply Q5_user_start; auto.
      * q5e r el; auto.
    + q5e r el; auto.
    + q5e r el; auto.
  - (* PWaitGate *)
    destruct (task_input (p_mc x0) (p_fw x0)).
    + apply Q5_set_ctl. eapply Q5_put_close; eauto.
    + apply Q5_set_ctl, Q5_emit_other; [reflexivity|]. eapply Q5_put_close; eauto.
    + apply Q5_set_ctl, Q5_emit_other; [reflexivity|]. eapply Q5_put_close; eauto.
  - (* PWaitCcb *)
    destruct (task_input (p_mc x0) (p_fw x0)); q5e r el;
      try (eapply Q5_cbend; eauto; discriminate); try (eapply Q5_cbint; eauto; discriminate);
      unfold cb_raise; try destruct (cb_raises _); auto.
  - (* PWaitEcb *)
    destruct (task_input (p_mc x0) (p_fw x0)); q5e r el;
      try (eapply Q5_cbend; eauto; discriminate); try (eapply Q5_cbint; eauto; discriminate);
      unfold cb_raise; try destruct (cb_raises _); auto.
Qed.

(** ** spawners *)
Lemma Q5_finish_m n V0 ov s m x e : Q5 n V0 ov s -> Q5 n V0 ov (finish_m s m x e).
Proof. intros H. unfold finish_m. apply Q5_set_ctl, Q5_sched_cbs, Q5_put_m. exact H. Qed.

Lemma Q5_suspend_m n V0 ov s m x pc : Q5 n V0 ov s -> Q5 n V0 ov (suspend_m s m x pc).
Proof.
  intros H. unfold suspend_m. destruct (m_mc x).
  - apply Q5_set_ctl, Q5_sched, Q5_put_m. exact H.
  - exact H.
Qed.

Lemma Q5_to_iter n V0 ov s m : Q5 n V0 ov s -> Q5 n V0 ov (to_iter s m).
Proof.
  intros H. unfold to_iter. destruct (get_m s m); [|exact H].
  apply Q5_set_ctl, Q5_emit_other; [reflexivity|]. exact H.
Qed.

Lemma Q5_register n V0 s m x : Q5 n V0 None s -> m < n -> Q5 n V0 None (register s m x).
Proof.
  intros (H1 & H2 & H3 & H4 & H5 & H6 & H7 & H8 & H9 & H10) Hm.
  unfold register. apply Q5_put_m, Q5_sched.
  unfold Q5. cbn [evs set_t_running set_ptasks set_num_started set_groups].
  match goal with |- Inv5 _ _ ?s' None => set (s1 := s') end.
  assert (Hg : forall u, get_p s1 u = get_p s u \/
                         (get_p s u = None /\ exists y, get_p s1 u = Some y /\
                            p_pc y = PCreated /\ p_req y = m)).
  { intros u. unfold s1, get_p. cbn [ptasks set_t_running set_ptasks].
    destruct (lt_eq_lt_dec u (length (ptasks s))) as [[Hlt|Heq]|Hgt].
    - left. rewrite nth_error_app1; auto.
    - right. subst u. rewrite nth_error_snoc_eq. split.
      + apply nth_error_None; auto.
      + eexists. split; [reflexivity|]. split; reflexivity.
    - left.
      assert (Hn : nth_error (ptasks s) u = None) by (apply nth_error_None; lia).
      rewrite Hn. apply nth_error_None. rewrite app_length. simpl. lia. }
  assert (Hc : forall u, cls_rec5 s1 u = cls_rec5 s u \/
                         (cls_rec5 s1 u = Some WNew /\ cls_rec5 s u = None)).
  { intros u. unfold cls_rec5. destruct (Hg u) as [E|(E & y & Ey & Hpc & _)].
    - left. rewrite E. reflexivity.
    - right. rewrite E, Ey. simpl. rewrite Hpc. auto. }
  assert (Hi : forall u, id_rec s1 u = id_rec s u \/
                         (id_rec s u = None /\ exists el, id_rec s1 u = Some (m, el))).
  { intros u. unfold id_rec. destruct (Hg u) as [E|(E & y & Ey & _ & Hr)].
    - left. rewrite E. reflexivity.
    - right. rewrite E, Ey. simpl. rewrite Hr. eauto. }
  unfold Inv5, cls_at5, id_at in *.
  split10; auto.
  - intros u. rewrite H2. destruct (Hc u) as [E|[E1 E2]].
    + rewrite E. reflexivity.
    + rewrite E1, E2. split; discriminate.
  - intros u Hu. apply H3. destruct (Hc u) as [E|[E1 E2]]; congruence.
  - intros u Hu. apply H4. destruct (Hc u) as [E|[E1 E2]]; congruence.
  - intros a vc r el E. discriminate.
  - intros u r el Hin. destruct (H7 _ _ _ Hin) as [A B].
    destruct (Hi u) as [E|[E _]]; [|congruence]. rewrite E. split; auto.
    destruct (Hc u) as [E'|[_ E2]]; [rewrite E'; auto|].
    unfold id_rec in A. unfold cls_rec5 in E2. destruct (get_p s u); discriminate.
  - intros u r el Hin. specialize (H9 _ _ _ Hin).
    destruct (Hi u) as [E|[E _]]; congruence.
  - intros u r el Hu. destruct (Hi u) as [E|[_ [el' E]]].
    + eapply H10. rewrite <- E. exact Hu.
    + rewrite E in Hu. inversion Hu; subst. exact Hm.
Qed.

Lemma get_m_lt5 s m x : get_m s m = Some x -> m < length (mtasks s).
Proof. unfold get_m. intros H. apply nth_error_Some. congruence. Qed.

Lemma Q5_apply_loop n V0 rem : forall s m,
  m < n -> Q5 n V0 None s -> Q5 n V0 None (apply_loop rem s m).
Proof.
  induction rem as [|r IH]; intros s m Hm H; simpl.
  - destruct (get_m s m); auto. apply Q5_finish_m; auto.
  - destruct (get_m s m) as [x|]; auto.
    destruct (nth (m_idx x) (m_bad x) false).
    + apply IH; auto.
    + unfold try_start. destruct (closed s).
      * apply Q5_finish_m; auto.
      * destruct (sem_locked s).
        -- apply Q5_suspend_m. exact H.
        -- apply IH; auto. apply Q5_register; auto.
Qed.

Lemma Q5_spawn_next n V0 s m : m < n -> Q5 n V0 None s -> Q5 n V0 None (spawn_next s m).
Proof.
  intros Hm H. unfold spawn_next. destruct (get_m s m) as [x|]; auto.
  destruct (m_kind x); [apply Q5_apply_loop|apply Q5_to_iter|apply Q5_apply_loop]; auto.
Qed.

Lemma Q5_start_then_next n V0 s m x :
  m < n -> Q5 n V0 None s -> Q5 n V0 None (start_then_next s m x).
Proof.
  intros Hm H. unfold start_then_next, try_start.
  destruct (closed s).
  - apply Q5_finish_m; auto.
  - destruct (sem_locked s).
    + apply Q5_suspend_m. exact H.
    + apply Q5_spawn_next; auto. apply Q5_register; auto.
Qed.

Lemma Q5_continue_m n V0 s m :
  m < n -> Q5 n V0 None s -> Q5 n V0 None (continue_m s m).
Proof.
  intros Hm H. unfold continue_m. destruct (get_m s m) as [x|]; auto.
  destruct (m_pc x); auto.
  destruct (nth_error (m_els x) (m_idx x)) as [e|].
  - destruct (e_bad e).
    + apply Q5_to_iter. exact H.
    + destruct (m_mapval x).
      * apply Q5_suspend_m; auto.
      * apply Q5_start_then_next; auto.
  - apply Q5_finish_m; auto.
Qed.

Lemma Q5_run_m n V0 s m : m < n -> Q5 n V0 None s -> Q5 n V0 None (run_m s m).
Proof.
  intros Hm H. unfold run_m. destruct (get_m s m) as [x0|]; auto.
  destruct (m_pc x0); auto.
  - destruct (task_input (m_mc x0) (m_fw x0)).
    + apply Q5_spawn_next; auto.
    + apply Q5_finish_m; auto.
    + apply Q5_finish_m; auto.
  - destruct (task_input (m_mc x0) (m_fw x0)).
    + apply Q5_start_then_next; auto.
    + apply Q5_finish_m; auto.
    + apply Q5_finish_m; auto.
  - set (x := set_m_mc (set_m_fw x0 None) false).
    set (s1 := put_m (set_sem_waiters s (remove1 m (sem_waiters s))) m x).
    assert (H1 : Q5 n V0 None s1) by exact H.
    clearbody s1.
    destruct (task_input (m_mc x0) (m_fw x0)).
    + apply Q5_spawn_next; auto. apply Q5_register; auto.
      destruct (ninf_pos (sem_value s1)); auto. apply Q5_wake_next; auto.
    + apply Q5_finish_m.
      destruct (match m_fw x0 with Some FCancelled => true | _ => false end); auto.
      apply Q5_sem_release; auto.
    + apply Q5_finish_m.
      destruct (match m_fw x0 with Some FCancelled => true | _ => false end); auto.
      apply Q5_sem_release; auto.
Qed.

(** ** drivers *)
Lemma Q5_finish_d n V0 ov s d x e : Q5 n V0 ov s -> Q5 n V0 ov (finish_d s d x e).
Proof.
  intros H. unfold finish_d. apply Q5_set_ctl, Q5_emit_other; [reflexivity|]. exact H.
Qed.

Lemma Q5_wake_closed n V0 ov l : forall s, Q5 n V0 ov s -> Q5 n V0 ov (wake_closed s l).
Proof.
  induction l as [|d l IH]; simpl; intros s H; auto.
  apply IH. destruct (get_d s d) as [x|]; auto.
  destruct (fut_pending (d_fw x)); auto. apply Q5_sched. exact H.
Qed.

Lemma Q5_after_g2 n V0 ov s d x outer : Q5 n V0 ov s -> Q5 n V0 ov (after_g2 s d x outer).
Proof.
  intros H. unfold after_g2.
  destruct outer; try (apply Q5_finish_d; exact H);
    (destruct (d_kind x); [apply Q5_finish_d; exact H| |apply Q5_finish_d; exact H]);
    apply Q5_finish_d, Q5_wake_closed; exact H.
Qed.

Lemma Q5_start_g2 n V0 ov s d x cs re : Q5 n V0 ov s -> Q5 n V0 ov (start_g2 s d x cs re).
Proof.
  intros H. unfold start_g2. destruct (make_gather s (map TP cs) re) as [g outer].
  destruct outer; try (apply Q5_after_g2; exact H). exact H.
Qed.

Lemma Q5_after_g1 n V0 ov s d x outer : Q5 n V0 ov s -> Q5 n V0 ov (after_g1 s d x outer).
Proof.
  intros H. unfold after_g1. destruct (d_kind x) as [re|re|].
  - destruct outer as [| |[]|]; try (apply Q5_finish_d; exact H); apply Q5_start_g2; exact H.
  - destruct (if re then None else first_exception s
        (match d_g1 x with Some g => g_children g | None => [] end)).
    + apply Q5_finish_d; exact H.
    + apply Q5_start_g2; exact H.
  - apply Q5_finish_d; exact H.
Qed.

Lemma Q5_start_g1 n V0 ov s d x cs re : Q5 n V0 ov s -> Q5 n V0 ov (start_g1 s d x cs re).
Proof.
  intros H. unfold start_g1. destruct (make_gather s (map TM cs) re) as [g outer].
  destruct outer; try (apply Q5_after_g1; exact H). exact H.
Qed.

Lemma Q5_run_d n V0 ov s d : Q5 n V0 ov s -> Q5 n V0 ov (run_d s d).
Proof.
  intros H. unfold run_d. destruct (get_d s d) as [x0|]; auto.
  destruct (d_pc x0); auto.
  - cbn [d_kind set_d_fw]. destruct (d_kind x0) as [re|re|].
    + destruct (pop_ended s (gmeta s)) as [gm ended]. apply Q5_start_g1. exact H.
    + apply Q5_start_g1. exact H.
    + destruct (closed s); [apply Q5_finish_d|]; exact H.
  - apply Q5_after_g1; auto.
  - apply Q5_after_g2; auto.
  - apply Q5_finish_d. exact H.
Qed.

Lemma Q5_run_g n V0 ov s d c : Q5 n V0 ov s -> Q5 n V0 ov (run_g s d c).
Proof.
  intros H. unfold run_g. destruct (get_d s d) as [x|]; auto.
  destruct (tref_final s c) as [o|]; auto.
  destruct (match c with TM _ => true | _ => false end);
    (match goal with |- Q5 _ _ _ (match ?g with Some _ => _ | None => _ end) =>
       destruct g as [g0|]; auto end;
     match goal with |- Q5 _ _ _ (match ?f with Some _ => _ | None => _ end) =>
       destruct f as [[| | |]|]; try exact H end;
     match goal with |- Q5 _ _ _ (let '(_, _) := ?p in _) => destruct p as [nfin outer] end;
     destruct outer; try exact H; apply Q5_sched; exact H).
Qed.

(** ** operations *)
Lemma Q5_know n V0 ov s g : Q5 n V0 ov s -> Q5 n V0 ov (know s g).
Proof. intros H. unfold know. destruct (existsb (gname_eqb g) (known s)); exact H. Qed.

Lemma Q5_cancel_m n V0 ov s m : Q5 n V0 ov s -> Q5 n V0 ov (cancel_m s m).
Proof.
  intros H. unfold cancel_m. destruct (get_m s m) as [x|]; auto.
  destruct (m_final x); auto.
  destruct (is_current s (TM m)); (destruct (fut_pending (m_fw x)); [apply Q5_sched|]; exact H).
Qed.

Lemma Q5_cancel_p n V0 ov s t : Q5 n V0 ov s -> Q5 n V0 ov (cancel_p s t).
Proof.
  intros H. unfold cancel_p. destruct (get_p s t) as [x|] eqn:Hx; auto.
  destruct (p_unst x); try (eapply Q5_put_p_same; eauto; reflexivity).
  destruct (p_final x); auto.
  set (s1 := if is_current s (TP t) && final_segment x then set_taint_self s true else s).
  assert (H1 : Q5 n V0 ov s1)
    by (unfold s1; destruct (is_current s (TP t) && final_segment x); exact H).
  assert (Hx1 : get_p s1 t = Some x)
    by (unfold s1; destruct (is_current s (TP t) && final_segment x); exact Hx).
  clearbody s1.
  destruct (fut_pending (p_fw x)).
  - apply Q5_sched. eapply Q5_put_p_same; eauto; reflexivity.
  - eapply Q5_put_p_same; eauto; reflexivity.
Qed.

Lemma Q5_do_cancel n V0 ov s ids : Q5 n V0 ov s -> Q5 n V0 ov (do_cancel s ids).
Proof.
  intros H. unfold do_cancel. destruct (first_lookup_err s ids); [exact H|].
  apply Q5_fold; auto. intros; apply Q5_cancel_p; auto.
Qed.

Lemma Q5_cancel_group_metas n V0 ov s g :
  Q5 n V0 ov s -> Q5 n V0 ov (cancel_group_metas s g).
Proof.
  intros H. unfold cancel_group_metas. destruct (glookup g (gmeta s)) as [ms|]; auto.
  match goal with |- Q5 _ _ _ (set_meta_cancelled ?s' _) => change (Q5 n V0 ov s') end.
  apply Q5_fold; [intros; apply Q5_cancel_m; auto|]. exact H.
Qed.

Lemma Q5_cancel_group_body n V0 ov s g ids :
  Q5 n V0 ov s -> Q5 n V0 ov (cancel_group_body s g ids).
Proof.
  intros H. unfold cancel_group_body. apply Q5_fold.
  - intros s' t H'. destruct (mem t (t_running s')); auto. apply Q5_cancel_p; auto.
  - change (Q5 n V0 ov (cancel_group_metas s g)). apply Q5_cancel_group_metas; auto.
Qed.

Lemma Q5_cancel_all_groups n V0 ov gs : forall s,
  Q5 n V0 ov s -> Q5 n V0 ov (cancel_all_groups s gs).
Proof.
  induction gs as [|[g ids] gs IH]; simpl; intros s H; auto.
  apply IH. apply Q5_cancel_group_body; auto.
Qed.

Lemma Q5_new_meta n V0 ov s x : Q5 n V0 ov s -> Q5 n V0 ov (new_meta s x).
Proof. intros H. unfold new_meta. apply Q5_sched. exact H. Qed.

Lemma Q5_do_op n V0 ov s o : Q5 n V0 ov s -> Q5 n V0 ov (do_op s o).
Proof.
  intros H. destruct o; unfold do_op; cbv zeta.
  - set (s1 := match g with Some g0 => know s g0 | None => s end).
    assert (H1 : Q5 n V0 ov s1) by (unfold s1; destruct g; [apply Q5_know|]; exact H).
    clearbody s1.
    destruct (check_start s1 noncoro); [exact H1|].
    match goal with |- Q5 _ _ _ (if ?c then _ else _) => destruct c end; [exact H1|].
    apply Q5_set_res, Q5_new_meta, Q5_set_groups, Q5_know; exact H1.
  - set (s1 := match g with Some g0 => know s g0 | None => s end).
    assert (H1 : Q5 n V0 ov s1) by (unfold s1; destruct g; [apply Q5_know|]; exact H).
    clearbody s1.
    destruct (check_start s1 noncoro); [exact H1|].
    destruct (nc =? 0); [exact H1|].
    match goal with |- Q5 _ _ _ (if ?c then _ else _) => destruct c end; [exact H1|].
    apply Q5_set_res, Q5_new_meta, Q5_set_groups, Q5_know; exact H1.
  - destruct (check_start s false); [exact H|].
    apply Q5_set_res, Q5_new_meta, Q5_set_groups, Q5_set_start_calls, Q5_know; exact H.
  - apply Q5_do_cancel; auto.
  - pose proof (Q5_know n V0 ov s g H) as H1.
    destruct (glookup g (groups (know s g))); [|exact H1].
    apply Q5_cancel_group_body. exact H1.
  - apply Q5_cancel_all_groups. exact H.
  - match goal with |- Q5 _ _ _ (match res ?s' with _ => _ end) =>
      assert (H1 : Q5 n V0 ov s') by (apply Q5_do_cancel; exact H);
      destruct (res s'); exact H1 end.
  - match goal with |- Q5 _ _ _ (match res ?s' with _ => _ end) =>
      assert (H1 : Q5 n V0 ov s') by (apply Q5_do_cancel; exact H);
      destruct (res s'); exact H1 end.
  - exact H.
  - destruct (0 <? n_gac s); exact H.
  - destruct v; exact H.
  - match goal with |- Q5 _ _ _ (set_res ?s' _) => change (Q5 n V0 ov s') end.
    apply Q5_fold; auto. intros; apply Q5_know; auto.
  - apply Q5_sched. destruct k; exact H.
  - destruct (get_p s tid) as [x|] eqn:Hx; [|exact H].
    apply Q5_sched. eapply Q5_put_p_same; eauto; reflexivity.
  - destruct (get_p s tid) as [x|] eqn:Hx; [|exact H].
    apply Q5_sched. eapply Q5_put_p_same; eauto; reflexivity.
Qed.


(** ** one step *)
Theorem Inv5_step n V s l :
  Inv5 n V s None -> length (mtasks s) <= n ->
  Inv5 n (fold_left (vev5 n) (evs (step s l)) V) (step s l) None.
Proof.
  intros H0 Hn. change (Q5 n V None (step s l)). unfold step.
  set (s1 := set_res (set_evs s []) RNone).
  assert (H : Q5 n V None s1).
  { destruct H0 as (H1 & H2 & H3 & H4 & H5 & H6 & H7 & H8 & H9 & H10).
    unfold Q5, s1. cbn [evs set_res set_evs fold_left]. unfold Inv5. split10; auto.
    intros u r el []. }
  assert (Hn1 : length (mtasks s1) <= n) by exact Hn.
  clearbody s1.
  destruct (negb (enabled s1 l)); [exact H|].
  destruct l as [h| |o].
  - assert (H2 : Q5 n V None (unsched s1 h)) by exact H.
    destruct h as [[t|m|d]|d c]; simpl run_handle.
    + apply Q5_run_p; auto.
    + destruct (get_m (unsched s1 (HT (TM m))) m) as [x|] eqn:Hx.
      * apply Q5_run_m; auto. apply get_m_lt5 in Hx. change (mtasks (unsched s1 (HT (TM m)))) with (mtasks s1) in Hx. lia.
      * unfold run_m. rewrite Hx. exact H2.
    + apply Q5_run_d; auto.
    + apply Q5_run_g; auto.
  - destruct (ctl s1) as [|[t|m|d]]; auto.
    + apply Q5_continue_p; auto.
    + destruct (get_m s1 m) as [x|] eqn:Hx.
      * apply Q5_continue_m; auto. apply get_m_lt5 in Hx. lia.
      * unfold continue_m. rewrite Hx. exact H.
  - apply Q5_do_op; auto.
Qed.

Lemma get_p_init5 c u : get_p (init c) u = None.
Proof. unfold get_p. cbn. destruct u; reflexivity. Qed.

Lemma Inv5_init n c : Inv5 n ([], [], []) (init c) None.
Proof.
  unfold Inv5, cls_at5, id_at, cls_rec5, id_rec, v_live, v_cbs, v_task. cbn [fst snd map].
  split10.
  - constructor.
  - intros u. rewrite get_p_init5. simpl. split; [intros []|discriminate].
  - intros u. rewrite get_p_init5. discriminate.
  - intros u. rewrite get_p_init5. discriminate.
  - intros; discriminate.
  - constructor.
  - intros u r el [].
  - intros u [].
  - intros u r el [].
  - intros u r el. rewrite get_p_init5. discriminate.
Qed.
