(** C06, second half: a worker observes CancelledError only because a cancellation operation
    targeted it.  [cancel_marked], [keeps] are defined in PStep_C06_rec.v, [targets] in
    PStep_C06_ops.v (re-exported).  All four statements hold as given. *)
From TP Require Import PInv PInv_P_base PInv_P_view PInv_P_inv PInv_P_tok PInv_P_tok2
  PInv_P_leaf PInv_P_chain PInv_P_step PInv_P_ed PInv_P PSpecStep
  PStep_C_ev PStep_C_rel PStep_C_run PStep_C_drv PStep_C.
From TP Require Export PStep_C06_rec PStep_C06_ops.

(** ** who logs CancelledError in a step *)
Lemma step_cancelled s l t :
  WF s -> Extra_P s -> In (EvCancelled t) (evs (step s l)) ->
  exists x0, get_p s t = Some x0 /\ p_pc x0 = PWaitGate /\
             task_input (p_mc x0) (p_fw x0) <> InOk /\
             pview (step s l) = vput (pview s) t (set_p_pc (rx x0) PUCancelled).
Proof.
  intros W EP. pose proof (wf1 _ W) as HI1.
  unfold step. fold (pre s). destruct (negb (enabled (pre s) l)) eqn:En; [intros []|].
  apply negb_false_iff in En.
  destruct l as [h| |o].
  - apply enabled_run in En.
    assert (HI2 : I1 (unsched (pre s) h)) by (eapply I1_pv; [|exact HI1]; reflexivity).
    destruct h as [[t0|m|d]|d c]; cbn [run_handle].
    + intros He. apply (evc_run_p (unsched (pre s) (HT (TP t0))) t0 t HI2 eq_refl) in He.
      destruct He as (-> & x0 & a & b & c & e). exists x0. repeat split; auto.
    + intros He. apply op_run_m in He. destruct He as [[]|(m' & k' & He)]. discriminate.
    + destruct (get_d s d) as [x0|] eqn:Hx.
      * destruct (run_d_shape s d x0 W EP En Hx) as [[_ [_ Hc]]|[[_ Hc]|(snap & outer & Hf & _)]].
        -- intros He. apply Hc in He. destruct He as [[]|(o & He & _)]. discriminate.
        -- intros He. apply Hc in He. destruct He as [[]|(o & He & _)]. discriminate.
        -- destruct Hf as (_ & _ & Hc). rewrite Hc. simpl. intros [He|[]]. discriminate.
      * rewrite run_d_none by exact Hx. intros [].
    + rewrite ev_run_g. intros [].
  - assert (HI2 : I1 (pre s)) by (eapply I1_pv; [|exact HI1]; reflexivity).
    destruct (ctl (pre s)) as [|[t0|m|d]]; try (intros []).
    + intros He. exfalso. exact (evc_continue_p (pre s) t0 t HI2 eq_refl He).
    + intros He. apply op_continue_m in He. destruct He as [[]|(m' & k' & He)]. discriminate.
  - rewrite ev_do_op. intros [].
Qed.

Lemma input_not_ok mc fw :
  task_input mc fw <> InOk -> (forall e, fw <> Some (FExc e)) -> fw = Some FCancelled \/ mc = true.
Proof.
  destruct mc; auto. destruct fw as [[| |e|]|]; cbn; intros H1 H2; auto; try congruence.
Qed.

Theorem C06_no_spurious : forall s l t, WF s -> Extra_P s -> clean (step s l) ->
  In (EvCancelled t) (evs (step s l)) ->
  exists x, get_p s t = Some x /\ p_pc x = PWaitGate /\
            (p_fw x = Some FCancelled \/ p_mc x = true).
Proof.
  intros s l t W EP _ He. destruct (step_cancelled s l t W EP He) as (x0 & a & b & c & _).
  exists x0. repeat split; auto. apply input_not_ok; auto.
  destruct EP as [[Hfw _] _]. apply (Hfw t x0 a).
Qed.

Theorem C06_mark_consumed : forall s l t x', WF s -> Extra_P s -> clean (step s l) ->
  In (EvCancelled t) (evs (step s l)) -> get_p (step s l) t = Some x' -> ~ cancel_marked x'.
Proof.
  intros s l t x' W EP _ He Hx'.
  destruct (step_cancelled s l t W EP He) as (x0 & a & b & _ & Hv).
  change (vget (pview (step s l)) t = Some x') in Hx'. rewrite Hv in Hx'.
  apply vget_vput in Hx'. destruct Hx' as [[Hne _]|[_ ->]]; [congruence|].
  assert (Hu : p_unst x0 = UNone).
  { pose proof (I2_unst _ (wf2 _ W) t x0 a) as Hi. destruct (p_unst x0); auto;
      exfalso; assert (p_pc x0 = PCreated) by (apply Hi; discriminate); congruence. }
  unfold cancel_marked, rx. cbn. rewrite Hu. intuition discriminate.
Qed.

(** ** how task records change in a step *)
Lemma step_records s l t x x' :
  WF s -> Extra_P s -> get_p s t = Some x -> get_p (step s l) t = Some x' ->
  keeps x x' \/ targets s l t.
Proof.
  intros W EP Hx.
  assert (Hsame : forall s', get_p s' t = get_p s t -> get_p s' t = Some x' ->
                             keeps x x' \/ targets s l t).
  { intros s' E H. left. assert (x' = x) by congruence. subst. apply keeps_refl. }
  unfold step. fold (pre s). destruct (negb (enabled (pre s) l)) eqn:En; [now apply Hsame|].
  destruct l as [h| |o].
  - destruct h as [[t0|m|d]|d c]; cbn [run_handle].
    + intros H. apply rec_run_p in H. destruct H as [H|(-> & x0 & H0 & Hk)].
      * change (get_p s t = Some x') in H. left. assert (x' = x) by congruence. subst.
        apply keeps_refl.
      * change (get_p s t0 = Some x0) in H0. left. assert (x0 = x) by congruence. now subst.
    + intros H.
      pose proof (Q_run_m _ (MR_Qpv _) (MR_Qreg _) (unsched (pre s) (HT (TM m))) m
                          (MR_refl _)) as [_ Hm].
      apply Hm in H. change (get_p (unsched (pre s) (HT (TM m))) t) with (get_p s t) in H.
      destruct H as [H|[H _]]; [|congruence].
      left. assert (x' = x) by congruence. subst. apply keeps_refl.
    + apply Hsame. unfold get_p. now rewrite SP_run_d.
    + apply Hsame. apply pv_get_p. rewrite pc_run_g. reflexivity.
  - destruct (ctl (pre s)) as [|[t0|m|d]]; try (now apply Hsame).
    + intros H. apply rec_continue_p in H. destruct H as [H|(-> & x0 & H0 & Hk)].
      * change (get_p s t = Some x') in H. left. assert (x' = x) by congruence. subst.
        apply keeps_refl.
      * change (get_p s t0 = Some x0) in H0. left. assert (x0 = x) by congruence. now subst.
    + intros H.
      pose proof (Q_continue_m _ (MR_Qpv _) (MR_Qreg _) (pre s) m (MR_refl _)) as [_ Hm].
      apply Hm in H. change (get_p (pre s) t) with (get_p s t) in H.
      destruct H as [H|[H _]]; [|congruence].
      left. assert (x' = x) by congruence. subst. apply keeps_refl.
  - intros H. exact (op_keeps (pre s) o t x x' Hx H).
Qed.

Theorem C06_marked_only_by_cancel : forall s l t x x', WF s -> Extra_P s -> clean (step s l) ->
  get_p s t = Some x -> get_p (step s l) t = Some x' ->
  ~ cancel_marked x -> cancel_marked x' -> targets s l t.
Proof.
  intros s l t x x' W EP _ Hx Hx' Hn Hm.
  destruct (step_records s l t x x' W EP Hx Hx') as [Hk|Ht]; auto.
  exfalso. exact (Hk Hn Hm).
Qed.

Lemma get_None_len s s' t :
  length (ptasks s') = length (ptasks s) -> get_p s t = None -> get_p s' t = None.
Proof. unfold get_p. rewrite !nth_error_None. lia. Qed.

Theorem C06_new_unmarked : forall s l t x', WF s -> Extra_P s -> clean (step s l) ->
  get_p s t = None -> get_p (step s l) t = Some x' -> ~ cancel_marked x'.
Proof.
  intros s l t x' _ _ _ Hn.
  assert (Hsame : forall s', length (ptasks s') = length (ptasks s) ->
                             get_p s' t = Some x' -> ~ cancel_marked x').
  { intros s' E H. rewrite (get_None_len s s' t E Hn) in H. discriminate. }
  unfold step. fold (pre s). destruct (negb (enabled (pre s) l)) eqn:En; [now apply Hsame|].
  destruct l as [h| |o].
  - destruct h as [[t0|m|d]|d c]; cbn [run_handle].
    + intros H. apply rec_run_p in H. destruct H as [H|(-> & x0 & H0 & Hk)].
      * change (get_p s t = Some x') in H. congruence.
      * change (get_p s t0 = Some x0) in H0. congruence.
    + intros H.
      pose proof (Q_run_m _ (MR_Qpv _) (MR_Qreg _) (unsched (pre s) (HT (TM m))) m
                          (MR_refl _)) as [_ Hm].
      apply Hm in H. change (get_p (unsched (pre s) (HT (TM m))) t) with (get_p s t) in H.
      destruct H as [H|[_ H]]; [congruence|exact H].
    + apply Hsame. now rewrite SP_run_d.
    + apply Hsame. apply (PL_pc (unsched (pre s) (HG d c))), pc_run_g.
  - destruct (ctl (pre s)) as [|[t0|m|d]]; try (now apply Hsame).
    + intros H. apply rec_continue_p in H. destruct H as [H|(-> & x0 & H0 & Hk)].
      * change (get_p s t = Some x') in H. congruence.
      * change (get_p s t0 = Some x0) in H0. congruence.
    + intros H.
      pose proof (Q_continue_m _ (MR_Qpv _) (MR_Qreg _) (pre s) m (MR_refl _)) as [_ Hm].
      apply Hm in H. change (get_p (pre s) t) with (get_p s t) in H.
      destruct H as [H|[_ H]]; [congruence|exact H].
  - apply Hsame. apply (PL_do_op (pre s) o).
Qed.

