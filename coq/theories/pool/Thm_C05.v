(** C05 — map family: element-wise, ordered, bounded, lazy, work-conserving.  Property theorem only. *)
From TP Require Import PSpec PRun PWF PProps_B PProps_B_inv PExamples.

Theorem C05 : forall c tr, clean (run c tr) -> C05_spec (run c tr).
Proof.
  intros c tr Hc. destruct (WFx_run c tr Hc). apply C05_of_WFx; assumption.
Qed.

(** Non-vacuity: a map call with num_concurrent = 1 that skipped a bad element and now waits for
    its own slot with one task live. *)
Example C05_example :
  let s := run cfg2 tr_map in
  clean s /\ live_of s 0 = 1 /\ map m_nc (mtasks s) = [1] /\ map pulled (mtasks s) = [3] /\
  tasks_of s 0 = 1.
Proof. vm_compute. repeat split; reflexivity. Qed.

(** Monitor soundness: the extracted monitor for C05 (all five clauses) never rejects a stream of the model (P-iter). *)
From TP Require PMonSound_C05 PObs PMon.
Theorem mon_sound : forall c tr, clean (run c tr) -> taint_iter (run c tr) = false -> PMon.ok_C05 c (PObs.observe c tr) = true.
Proof. exact PMonSound_C05.mon_C05_sound. Qed.

Print Assumptions C05.
Print Assumptions mon_sound.
