(** Per-task invariant [tok] (clauses of I2, IH and the extras) on views. *)
From TP Require Import PInv PInv_P_base PInv_P_view PInv_P_inv.

Definition treg (R C E : list nat) (u : nat) (pc : ppc) : Prop :=
  (running_pc pc = true <-> In u R) /\ (cancel_pc pc = true <-> In u C) /\
  (endcb_pc pc = true -> In u E) /\ (In u E -> endcb_pc pc = true \/ pc = PDone).

Definition tmisc (x : ptask) : Prop :=
  (p_final x = None <-> p_pc x <> PDone) /\ (p_unst x = UNone <-> p_pc x <> PCreated) /\
  (p_pc x = PCreated -> p_mc x = false) /\ counts_ok x /\ ~ internal_exn (p_exc x) /\
  (forall e, p_fw x <> Some (FExc e)).

Lemma ppc_eq_dec (a b : ppc) : {a = b} + {a <> b}.
Proof. decide equality. Qed.

Lemma final_iff x : (p_final x <> None <-> p_pc x = PDone) <-> (p_final x = None <-> p_pc x <> PDone).
Proof.
  destruct (p_final x); destruct (ppc_eq_dec (p_pc x) PDone); intuition congruence.
Qed.

Lemma unst_iff x :
  (p_unst x <> UNone <-> p_pc x = PCreated) <-> (p_unst x = UNone <-> p_pc x <> PCreated).
Proof.
  destruct (p_unst x); destruct (ppc_eq_dec (p_pc x) PCreated); intuition congruence.
Qed.

Definition tlate (ts : bool) (x : ptask) : Prop :=
  ts = false -> not_cancelled_late x /\ p_exc x <> Some ECancelled /\
                (p_pc x = PUStart -> w_first (p_w x) <> WSuspend -> p_mc x = false).

Definition tok R C E ts u x : Prop := treg R C E u (p_pc x) /\ tmisc x /\ tlate ts x.

Definition TOKv (v : pv) : Prop :=
  forall u x, vget v u = Some x -> tok (vR v) (vC v) (vE v) (vts v) u x.
Definition TOKex (t : nat) (v : pv) : Prop :=
  forall u x, u <> t -> vget v u = Some x -> tok (vR v) (vC v) (vE v) (vts v) u x.

(** The extra per-task facts (not in WF). *)
Definition ExtraT (s : state) : Prop :=
  (forall t x, get_p s t = Some x -> forall e, p_fw x <> Some (FExc e)) /\
  (taint_self s = false -> forall t x, get_p s t = Some x ->
     p_exc x <> Some ECancelled /\
     (p_pc x = PUStart -> w_first (p_w x) <> WSuspend -> p_mc x = false)).

Lemma TOK_intro s : I2 s -> IH s -> ExtraT s -> TOKv (pview s).
Proof.
  intros [a b c d e f g] [h i j] [k l] u x Hx. change (get_p s u = Some x) in Hx.
  unfold tok, treg, tmisc, tlate; cbn [vR vC vE vts pview].
  pose proof (a _ _ Hx). pose proof (b _ _ Hx). pose proof (c _ _ Hx). pose proof (d _ _ Hx).
  pose proof (proj1 (final_iff x) (e _ _ Hx)). pose proof (proj1 (unst_iff x) (f _ _ Hx)).
  pose proof (g _ _ Hx). pose proof (h _ _ Hx).
  pose proof (i _ _ Hx). pose proof (k _ _ Hx).
  assert (taint_self s = false -> not_cancelled_late x) by (intros; eapply j; eauto).
  assert (taint_self s = false -> p_exc x <> Some ECancelled /\
     (p_pc x = PUStart -> w_first (p_w x) <> WSuspend -> p_mc x = false))
    by (intros; eapply l; eauto).
  tauto.
Qed.

Lemma TOK_elim s : TOKv (pview s) -> I2 s /\ IH s /\ ExtraT s.
Proof.
  intros H.
  assert (H' : forall u x, get_p s u = Some x ->
               tok (t_running s) (t_cancelled s) (t_ended s) (taint_self s) u x) by exact H.
  clear H. unfold tok, treg, tmisc, tlate in H'.
  split; [|split]; [constructor|constructor|split]; intros;
    match goal with
    | Hx : get_p s _ = Some _ |- _ => pose proof (H' _ _ Hx) as HH
    end; try (apply final_iff); try (apply unst_iff); try tauto. apply HH.
Qed.

(** ** Extensionality *)
Lemma treg_ext R C E R' C' E' u pc :
  (In u R' <-> In u R) -> (In u C' <-> In u C) -> (In u E' <-> In u E) ->
  treg R C E u pc -> treg R' C' E' u pc.
Proof. unfold treg. intros -> -> ->. auto. Qed.

Lemma tlate_mono ts ts' x : (ts' = false -> ts = false) -> tlate ts x -> tlate ts' x.
Proof. unfold tlate. auto. Qed.

Lemma TOK_vput v t x' :
  TOKex t v -> tok (vR v) (vC v) (vE v) (vts v) t x' -> TOKv (vput v t x').
Proof.
  intros Hex Ht u x. unfold vget, vput. cbn [vpts vR vC vE vts].
  rewrite nth_error_upd. destruct (Nat.eqb_spec t u) as [->|Hne].
  - destruct (Nat.ltb u _); [|discriminate]. intros [= <-]. auto.
  - intros H. apply Hex; auto.
Qed.

Lemma TOKv_ex v t : TOKv v -> TOKex t v.
Proof. intros H u x _. apply H. Qed.

Lemma TOKex_ext t v v' :
  TOKex t v -> vpts v' = vpts v ->
  (forall u, u <> t -> (In u (vR v') <-> In u (vR v)) /\ (In u (vC v') <-> In u (vC v)) /\
                       (In u (vE v') <-> In u (vE v))) ->
  (vts v' = false -> vts v = false) -> TOKex t v'.
Proof.
  intros H e1 e2 e3 u x Hne Hx. unfold vget in Hx. rewrite e1 in Hx.
  destruct (H u x Hne Hx) as (a & b & c). destruct (e2 u Hne) as (r1 & r2 & r3).
  split; [|split]; auto.
  - eapply treg_ext; eauto.
  - eapply tlate_mono; eauto.
Qed.

(** ** Per-task facts *)
Lemma final_of_false e : final_of e false = OCancelled -> e = Some ECancelled.
Proof. destruct e as [[]|]; cbn; congruence. Qed.

Definition cond_fin (ts : bool) (x : ptask) : Prop :=
  p_unst x = UNone /\ p_nstart x <= 1 /\ p_nccb x <= has_cb (p_ccb x) /\
  p_necb x = has_cb (p_ecb x) /\ p_nrel x = 1 /\ ~ internal_exn (p_exc x) /\
  (ts = false -> p_mc x = false /\ p_exc x <> Some ECancelled).

Definition cond_end (ts : bool) (x : ptask) : Prop :=
  p_unst x = UNone /\ p_final x = None /\ p_fw x = None /\ p_nstart x <= 1 /\
  p_nccb x <= has_cb (p_ccb x) /\ p_necb x = 0 /\ p_nrel x = 0 /\ ~ internal_exn (p_exc x) /\
  (ts = false -> p_mc x = false /\ p_exc x <> Some ECancelled).

Definition cond_cancel (ts : bool) (x : ptask) : Prop := cond_end ts x /\ p_nccb x = 0.

Lemma has_cb_le1 c : has_cb c <= 1.
Proof. destruct c; cbn; lia. Qed.

Ltac tleaf :=
  try congruence; try lia; try discriminate;
  try (match goal with |- context [has_cb ?c] => pose proof (has_cb_le1 c); lia end);
  try (subst; cbn; reflexivity);
  try (exfalso;
       match goal with
       | H : forall e, _ = Some (FExc e) -> False |- _ => eapply H; reflexivity
       end);
  try (subst;
       match goal with
       | H : final_of _ false = OCancelled |- _ => apply final_of_false in H; congruence
       | H : Some (final_of _ false) = Some OCancelled |- _ =>
           injection H as H; apply final_of_false in H; congruence
       end).

Ltac eqnorm :=
  repeat match goal with
  | H : context [?a = ?b] |- _ =>
      let Hr := fresh in
      assert (Hr : (a = b) <-> False) by (split; [discriminate | tauto]);
      rewrite Hr in *; clear Hr
  | |- context [?a = ?b] =>
      let Hr := fresh in
      assert (Hr : (a = b) <-> False) by (split; [discriminate | tauto]);
      rewrite Hr in *; clear Hr
  | H : context [?a = ?a] |- _ =>
      let Hr := fresh in
      assert (Hr : (a = a) <-> True) by (split; [tauto | reflexivity]);
      rewrite Hr in *; clear Hr
  | |- context [?a = ?a] =>
      let Hr := fresh in
      assert (Hr : (a = a) <-> True) by (split; [tauto | reflexivity]);
      rewrite Hr in *; clear Hr
  end.

Ltac tsolve :=
  unfold cond_cancel, tok, treg, tmisc, tlate, cond_fin, cond_end, counts_ok, not_cancelled_late,
    internal_exn, fin_x, end_x in *;
  cbn in *; eqnorm; intuition tleaf.

Lemma tok_fin_x R C E ts t x :
  cond_fin ts x -> ~ In t R -> ~ In t C -> tok R C E ts t (fin_x x).
Proof.
  intros H nr nc. destruct x. tsolve.
Qed.

Ltac dx x :=
  destruct x as [xreq xel xgroup xw xecb xccb xismap xpc xfw xmc xexc xfin xfinal xunst
                 xnstart xnccb xnecb xnrel].

Lemma tok_end_x R C E ts t x :
  cond_end ts x -> ~ In t R -> ~ In t C -> In t E -> tok R C E ts t (end_x x).
Proof.
  intros H nr nc ie. dx x. unfold end_x. cbn [p_ecb set_p_nrel]. destruct xecb; tsolve.
Qed.

Lemma tok_ccb R C E ts t x :
  cond_cancel ts x -> p_ccb x <> CbNone -> ~ In t R -> In t C -> ~ In t E ->
  tok R C E ts t (set_p_pc (set_p_nccb x (S (p_nccb x))) PUCancelCb).
Proof.
  intros H hc nr ic ne. dx x. cbn in hc. destruct xccb; tsolve.
Qed.

(** ** Moves between registries *)
Lemma moveRE_mem v t : I1v v -> In t (vR v) ->
  ~ In t (vR (moveRE v t)) /\ ~ In t (vC (moveRE v t)) /\ In t (vE (moveRE v t)).
Proof.
  intros H Hin. destruct (I1v_parts _ H) as (nr & _ & _ & hr & _). cbn. repeat split.
  - apply NoDup_remove1_notin; auto.
  - apply hr; auto.
  - apply In_dict_add; auto.
Qed.

Lemma moveCE_mem v t : I1v v -> In t (vC v) ->
  ~ In t (vR (moveCE v t)) /\ ~ In t (vC (moveCE v t)) /\ In t (vE (moveCE v t)).
Proof.
  intros H Hin. destruct (I1v_parts _ H) as (_ & nc & _ & _ & hc & _). cbn. repeat split.
  - apply hc; auto.
  - apply NoDup_remove1_notin; auto.
  - apply In_dict_add; auto.
Qed.

Lemma moveRC_mem v t : I1v v -> In t (vR v) ->
  ~ In t (vR (moveRC v t)) /\ In t (vC (moveRC v t)) /\ ~ In t (vE (moveRC v t)).
Proof.
  intros H Hin. destruct (I1v_parts _ H) as (nr & _ & _ & hr & _). cbn. repeat split.
  - apply NoDup_remove1_notin; auto.
  - apply In_dict_add; auto.
  - apply hr; auto.
Qed.

Lemma TOKex_moveRE v t : I1v v -> TOKex t v -> TOKex t (moveRE v t).
Proof.
  intros H Hex. destruct (I1v_parts _ H) as (nr & _). eapply TOKex_ext; eauto. cbn.
  intros u Hne. rewrite In_remove1_iff, In_dict_add by auto. tauto.
Qed.

Lemma TOKex_moveCE v t : I1v v -> TOKex t v -> TOKex t (moveCE v t).
Proof.
  intros H Hex. destruct (I1v_parts _ H) as (_ & nc & _). eapply TOKex_ext; eauto. cbn.
  intros u Hne. rewrite In_remove1_iff, In_dict_add by auto. tauto.
Qed.

Lemma TOKex_moveRC v t : I1v v -> TOKex t v -> TOKex t (moveRC v t).
Proof.
  intros H Hex. destruct (I1v_parts _ H) as (nr & _). eapply TOKex_ext; eauto. cbn.
  intros u Hne. rewrite In_remove1_iff, In_dict_add by auto. tauto.
Qed.

Lemma TOK_enter_end v t x :
  I1v v -> TOKex t v -> In t (vR v) \/ In t (vC v) -> cond_end (vts v) x ->
  TOKv (enter_end_v v t x).
Proof.
  intros H Hex Hin Hc. unfold enter_end_v.
  destruct (mem t (vR v)) eqn:E1; [|destruct (mem t (vC v)) eqn:E2].
  - apply mem_In in E1. change (TOKv (vput (moveRE v t) t (end_x x))).
    apply TOK_vput; [apply TOKex_moveRE; auto|].
    destruct (moveRE_mem _ _ H E1) as (a & b & c). apply tok_end_x; auto.
  - apply mem_In in E2. change (TOKv (vput (moveCE v t) t (end_x x))).
    apply TOK_vput; [apply TOKex_moveCE; auto|].
    destruct (moveCE_mem _ _ H E2) as (a & b & c). apply tok_end_x; auto.
  - apply mem_false_In in E1, E2. tauto.
Qed.

Lemma TOK_enter_cancel v t x :
  I1v v -> TOKex t v -> In t (vR v) -> cond_cancel (vts v) x -> TOKv (enter_cancel_v v t x).
Proof.
  intros H Hex Hin Hc. unfold enter_cancel_v.
  destruct (mem t (vR v)) eqn:E1; [|apply mem_false_In in E1; tauto].
  change (mkpv (remove1 t (vR v)) (dict_add (vC v) t) (vE v) (vns v) (vpts v) (vnf v) (vts v)
               (vds v) (vtu v)) with (moveRC v t). cbv zeta.
  destruct (moveRC_mem _ _ H Hin) as (a & b & c).
  pose proof (TOKex_moveRC _ _ H Hex) as Hex1. pose proof (I1v_moveRC _ _ H Hin) as H1.
  destruct (p_ccb x) eqn:Ec.
  - apply TOK_enter_end; auto. apply Hc.
  - apply TOK_vput; auto. apply tok_ccb; auto. congruence.
  - apply TOK_vput; auto. apply tok_ccb; auto. congruence.
Qed.

(** ** register *)
Lemma TOK_register v m y : I1v v -> TOKv v -> TOKv (register_v v m y).
Proof.
  intros H Hk u x. destruct H as (a & b & c & d).
  unfold vget, register_v. cbn [vpts vR vC vE vts]. rewrite nth_error_snoc.
  assert (Hn : forall l, (forall t, In t l -> In t (vregs v)) -> ~ In (vns v) l).
  { intros l Hl Hi. apply Hl, b in Hi. lia. }
  destruct (Nat.ltb_spec u (length (vpts v))) as [Hlt|Hge].
  - intros Hx. destruct (Hk u x Hx) as (r & mi & la). split; [|split]; auto.
    eapply treg_ext; eauto; try tauto. rewrite In_dict_add.
    split; [intros [?|?]; [auto|lia]|auto].
  - destruct (Nat.eqb_spec u (length (vpts v))) as [->|]; [|discriminate].
    intros [= <-]. rewrite <- c.
    assert (~ In (vns v) (vC v)) by (apply Hn; unfold vregs; intros; rewrite !in_app_iff; auto).
    assert (~ In (vns v) (vE v)) by (apply Hn; unfold vregs; intros; rewrite !in_app_iff; auto).
    assert (In (vns v) (dict_add (vR v) (vns v))) by (apply In_dict_add; auto).
    unfold new_pt. tsolve.
Qed.

