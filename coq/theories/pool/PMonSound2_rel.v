(** Monitor soundness for C02 / C03 — gluing lemmas: monotonicity of the invariant, facts about
    task records derived from WF, one step of the model against one step of the monitor. *)
From TP Require Import PSpec PMon PRun PWF PProps_A PInv_R_base PMonSound_trk PMonSound_C01
  PMonSound2_def PMonSound2_tk PMonSound2_trk PMonSound2_ev PMonSound2_op PMonSound2_lbl.

(** ** the view and the property-2 flag do not depend on the target list *)
Lemma avrun_TG RI TG TG' es : forall V,
  fst (avrun RI TG es V) = fst (avrun RI TG' es V).
Proof.
  induction es as [|e es IH]; intros V; simpl; auto.
  specialize (IH (avev (length RI) V e)).
  destruct (avrun RI TG es (avev (length RI) V e)) as [[V1 a1] b1].
  destruct (avrun RI TG' es (avev (length RI) V e)) as [[V2 a2] b2].
  simpl in *. congruence.
Qed.

(** ** monotonicity *)
Lemma matches_app RI ex g : matches RI g -> matches (RI ++ ex) g.
Proof.
  intros (ri & H & R). exists ri. split; auto. rewrite nth_error_app1; auto.
  apply nth_error_Some. congruence.
Qed.

Lemma taskok_mono RI ex TG TG' V u o :
  incl TG TG' -> taskok RI TG V u o -> taskok (RI ++ ex) TG' V u o.
Proof.
  intros Hi. unfold taskok. destruct o as [g|]; auto.
  intros (H1 & H2 & H3 & H4 & H5 & H6 & H7 & H8 & H9 & H10 & H11 & H12 & H13 & H14).
  assert (M : s_ns g <> 0 -> matches (RI ++ ex) g)
    by (intros H; apply matches_app; apply H3; auto).
  assert (D : s_def g = true -> In u TG') by (intros H; apply Hi; auto).
  intuition.
Qed.

(** the status after an operation: same core, possibly newly deferred *)
Lemma taskok_core RI TG V u x x' :
  core_of x' = core_of x -> (is_def (p_unst x') = true -> In u TG) ->
  taskok RI TG V u (Some (st_of x)) -> taskok RI TG V u (Some (st_of x')).
Proof.
  intros Hc Hd. unfold core_of in Hc. injection Hc as E1 E2 E3 E4 E5 E6 E7 E8 E9.
  unfold taskok, matches, st_of; cbn.
  rewrite E1, E2, E3, E4, E5, E6, E7, E8, E9. intuition.
Qed.

(** ** facts about task records, from WF *)
Lemma matches_of_WF s RI x t :
  WF s -> map imm_m (mtasks s) = RI -> get_p s t = Some x -> matches RI (st_of x).
Proof.
  intros W HM Hx. destruct (IR_req s (wfr s W) t x Hx) as (y & Hy & Hm).
  destruct Hm as (M1 & M2 & M3 & M4 & M5).
  exists (imm_m y). cbn. split.
  - rewrite <- HM, nth_error_map. unfold get_m in Hy. rewrite Hy. reflexivity.
  - split; [symmetry; exact M1|]. split; [symmetry; exact M2|].
    unfold i_wof; cbn. destruct (m_kind y).
    + symmetry. tauto.
    + destruct M5 as (e & He & _ & Hw). rewrite He. symmetry. exact Hw.
    + symmetry. tauto.
Qed.

Lemma pfacts_of_WF s RI :
  WF s -> map imm_m (mtasks s) = RI -> pfacts RI False s.
Proof.
  intros W HM t x Hx. split; [apply (IH_counts s (wfh s W) t x Hx)|].
  split; [eapply matches_of_WF; eauto|]. split; [|intros []].
  intros Hpc. apply (I2_run s (wf2 s W) t x Hx). destruct Hpc as [-> | ->]; reflexivity.
Qed.

(** ** operation steps preserve the invariant (with a larger target list) *)
Lemma nth_core_eq s s' u :
  map core_of (ptasks s') = map core_of (ptasks s) ->
  match get_p s u, get_p s' u with
  | Some x, Some x' => core_of x' = core_of x
  | None, None => True
  | _, _ => False
  end.
Proof.
  intros H. unfold get_p.
  assert (E : nth_error (map core_of (ptasks s')) u = nth_error (map core_of (ptasks s)) u)
    by (rewrite H; reflexivity).
  rewrite !nth_error_map in E.
  destruct (nth_error (ptasks s) u), (nth_error (ptasks s') u); simpl in E; try discriminate; auto.
  congruence.
Qed.

Lemma InvA_op RI TG TG' ex V s s' :
  InvA RI TG V s None ->
  map core_of (ptasks s') = map core_of (ptasks s) ->
  incl TG TG' ->
  (forall u x', get_p s' u = Some x' -> is_def (p_unst x') = true -> In u TG') ->
  InvA (RI ++ ex) TG' V s' None.
Proof.
  intros (N & T & L) Hc Hi Hd. split; [exact N|]. split; [|intros a g E; discriminate E].
  intros u. specialize (T u). unfold st_at in *.
  pose proof (nth_core_eq s s' u Hc) as Hu.
  destruct (get_p s u) as [x|] eqn:Hx, (get_p s' u) as [x'|] eqn:Hx'; try contradiction.
  - cbn [option_map] in *.
    eapply taskok_core with (x := x); [exact Hu|intros Hdf; eapply Hd; eauto|].
    apply taskok_mono with (TG := TG); auto.
  - cbn [option_map] in *. apply taskok_mono with (TG := TG); auto.
Qed.
