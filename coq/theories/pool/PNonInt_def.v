(** C12 as a two-run property: the erasure functions.  [erase_*] replace every failing piece of
    user code (a raising worker, a raising callback) by one that succeeds, and forget the user
    exceptions stored in task records.  Driver records are left alone: with
    return_exceptions=True drivers, a driver's state never depends on a user exception at all
    (this is stronger than erasing their outcomes). *)
From TP Require Export PObs.

Definition erase_w (w : wspec) : wspec :=
  {| w_first := match w_first w with WRaise => WReturn | f => f end; w_cancel := w_cancel w |}.

Definition erase_cb (c : cbspec) : cbspec :=
  match c with
  | CbNone => CbNone
  | CbSync _ => CbSync false
  | CbAsync slow _ => CbAsync slow false
  end.

Definition erase_fin (h : fin_how) : fin_how := FinReturn.

Definition erase_exc (e : option exn) : option exn :=
  match e with Some (EUser _ _) => None | _ => e end.

Definition erase_outcome (o : outcome) : outcome :=
  match o with OExc (EUser _ _) => OResult | _ => o end.

Definition erase_elem (e : elem) : elem := {| e_bad := e_bad e; e_w := erase_w (e_w e) |}.

Definition erase_ptask (x : ptask) : ptask :=
  mk_ptask (p_req x) (p_el x) (p_group x) (erase_w (p_w x)) (erase_cb (p_ecb x))
           (erase_cb (p_ccb x)) (p_ismap x) (p_pc x) (p_fw x) (p_mc x) (erase_exc (p_exc x))
           FinReturn (option_map erase_outcome (p_final x)) (p_unst x) (p_nstart x) (p_nccb x)
           (p_necb x) (p_nrel x).

Definition erase_mtask (x : mtask) : mtask :=
  mk_mtask (m_kind x) (m_group x) (m_num x) (m_bad x) (map erase_elem (m_els x))
           (erase_w (m_w x)) (erase_cb (m_ecb x)) (erase_cb (m_ccb x)) (m_pc x) (m_idx x)
           (m_fw x) (m_mc x) (m_final x) (m_mapval x) (m_holds x) (m_ncreated x) (m_dead x)
           (m_nc x).

Definition erase_event (e : event) : event :=
  match e with
  | EvCbEnd k t _ => EvCbEnd k t false
  | _ => e
  end.

Definition erase_cfg (c : config) : config :=
  {| cf_size := cf_size c; cf_kind := cf_kind c; cf_bad := cf_bad c; cf_w := erase_w (cf_w c);
     cf_ecb := erase_cb (cf_ecb c); cf_ccb := erase_cb (cf_ccb c) |}.

Definition erase_op (o : op) : op :=
  match o with
  | OpApply num bad noncoro w ecb ccb g =>
      OpApply num bad noncoro (erase_w w) (erase_cb ecb) (erase_cb ccb) g
  | OpMap stars els nc noncoro ecb ccb g =>
      OpMap stars (map erase_elem els) nc noncoro (erase_cb ecb) (erase_cb ccb) g
  | OpFinish t _ => OpFinish t FinReturn
  | _ => o
  end.

Definition erase_label (l : label) : label :=
  match l with LOp o => LOp (erase_op o) | _ => l end.

Definition erase_state (s : state) : state :=
  mk_state (erase_cfg (cfg s)) (num_started s) (locked s) (closed s) (t_running s)
           (t_cancelled s) (t_ended s) (sem_value s) (sem_waiters s) (groups s) (gmeta s)
           (meta_cancelled s) (start_calls s) (map erase_ptask (ptasks s))
           (map erase_mtask (mtasks s)) (dtasks s) (closed_waiters s) (ready s) (ctl s)
           (map erase_event (evs s)) (res s) (known s) (cap s) (n_forgotten s) (taint_self s)
           (taint_iter s) (taint_size s) (taint_unlock s) (n_gac s).

Definition erase_obs (o : obs) : obs :=
  {| o_label := erase_label (o_label o); o_enabled := o_enabled o; o_ctl := o_ctl o;
     o_nr := o_nr o; o_nc := o_nc o; o_ne := o_ne o; o_full := o_full o;
     o_locked := o_locked o; o_size := o_size o; o_ready_empty := o_ready_empty o;
     o_res := o_res o; o_groups := o_groups o; o_events := map erase_event (o_events o) |}.

(** the restriction: drivers gather with return_exceptions=True *)
Definition re_only (l : label) : Prop :=
  match l with
  | LOp (OpDriver (DFlush false)) | LOp (OpDriver (DGatherClose false)) => False
  | _ => True
  end.
