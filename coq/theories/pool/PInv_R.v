(** Layer I5 of the invariant WF: ready handles agree with task states; the current task.

    [I5] is not inductive relative to [WF] alone: nothing in [WF] constrains [d_fw] of a driver
    that is not waiting, nor the members of [closed_waiters], so [wake_closed] (run at the end of
    gather_and_close) could "wake" a finished driver whose [d_fw] is (unreachably) still Pending.
    The extra clause [Extra_R] (PInv_R_base.v) closes the gap:

      Extra_R s := forall d x, get_d s d = Some x -> d_fw x = Some FPending ->
                               d_pc x = DWaitG1 \/ d_pc x = DWaitG2 \/ d_pc x = DWaitClosed.

    Main results:  I5_init, Extra_R_init, I5_step, Extra_R_step. *)
From TP Require Import PInv PInv_R_base PInv_R_tr PInv_R_run PInv_R_op.

Lemma J_init c : J (init c) E0.
Proof.
  split; [|reflexivity]. unfold init; cbn. constructor; cbn.
  - constructor.
  - intros h [].
  - intros [|t] x Hx; discriminate.
  - intros [|t] x Hx; discriminate.
  - intros [|t] x Hx; discriminate.
  - exact I.
Qed.

Lemma Pre_unsched s r :
  J s E0 -> ctl s = CIdle -> In (HT r) (ready s) -> Pre (unsched s (HT r)) r.
Proof.
  intros H Hc Hin. split; [|split; [|split]].
  - apply J_unsched.
    + eapply J_mono; [|exact H]. intros q [].
    + intros q [= <-]. reflexivity.
  - rewrite ready_unsched_In. tauto.
  - pose proof (J_range (proj1 H) _ Hin) as Hr. destruct r; exact Hr.
  - left. exact Hc.
Qed.

Lemma E0_not q : ~ E0 q.
Proof. intros []. Qed.

Lemma J_step_run s h :
  J s E0 -> ctl s = CIdle -> In h (ready s) -> J (run_handle (unsched s h) h) E0.
Proof.
  intros H Hc Hin. destruct h as [[t|m|d]|d c]; simpl run_handle.
  - (* run_p *)
    apply J_run_p.
    + apply Pre_unsched; auto.
    + intros x Hx. change (get_p s t = Some x) in Hx.
      pose proof (J_ok_at (TP t) H (E0_not _) x Hx) as (H1 & H2 & H3).
      apply H1 in Hin. tauto.
  - (* run_m *)
    apply J_run_m.
    + apply Pre_unsched; auto.
    + intros x Hx. change (get_m s m = Some x) in Hx.
      pose proof (J_ok_at (TM m) H (E0_not _) x Hx) as (H1 & H2 & H3 & H4 & H5).
      apply H1 in Hin. split; [tauto|].
      destruct (m_final x) eqn:Hf; auto. exfalso.
      assert (Hd : m_pc x = MDone) by (apply H5; congruence).
      destruct Hin as [?|[[?|?] _]]; congruence.
  - (* run_d *)
    apply J_run_d.
    + apply Pre_unsched; auto.
    + intros x Hx. change (get_d s d = Some x) in Hx.
      pose proof (J_ok_at (TD d) H (E0_not _) x Hx) as (H1 & H2 & H3).
      apply H1 in Hin. unfold dwaiting in *. split; [tauto|]. split.
      * intros Hf. destruct Hin as [Hn|[_ Hn]]; [|auto].
        apply H3 in Hf. destruct Hf as [?|[?|?]]; congruence.
      * destruct (d_final x) eqn:Hf; auto. exfalso.
        assert (Hd : d_pc x = DDone) by (apply H2; congruence).
        destruct Hin as [?|[[?|[?|?]] _]]; congruence.
  - (* run_g *)
    apply J_run_g. apply J_unsched; auto. intros r Hr; discriminate.
Qed.

Lemma J_step_go_p s t : J s E0 -> ctl s = CUser (TP t) -> J (continue_p s t) E0.
Proof.
  intros H Hc.
  assert (Hfacts : forall x, get_p s t = Some x ->
            ~ In (HT (TP t)) (ready s) /\ p_fw x = None).
  { intros x Hx.
    pose proof (J_ok_at (TP t) H (E0_not _) x Hx) as (H1 & H2 & H3).
    assert (Hu : p_user (p_pc x) = true) by (apply H3; auto).
    split.
    - intros Hin. apply H1 in Hin.
      destruct (p_pc x); simpl in *; destruct Hin as [?|[? _]]; congruence.
    - destruct (p_fw x) eqn:Hf; auto. exfalso.
      assert (Hw : p_waiting (p_pc x) = true) by (apply H2; congruence).
      destruct (p_pc x); simpl in *; congruence. }
  pose proof (J_c (proj1 H)) as Hok. rewrite Hc in Hok. simpl in Hok.
  destruct (lt_get_p _ _ Hok) as [x Hx].
  apply J_continue_p; auto.
  - split; [|split; [|split]].
    + eapply J_mono; [|exact H]. intros q [].
    + apply (Hfacts x Hx).
    + exact Hok.
    + right. exact Hc.
  - intros y Hy. apply (Hfacts y Hy).
Qed.

Lemma J_step_go_m s m : J s E0 -> ctl s = CUser (TM m) -> J (continue_m s m) E0.
Proof.
  intros H Hc.
  assert (Hfacts : forall x, get_m s m = Some x ->
            ~ In (HT (TM m)) (ready s) /\ m_fw x = None /\ m_final x = None).
  { intros x Hx.
    pose proof (J_ok_at (TM m) H (E0_not _) x Hx) as (H1 & H2 & H3 & H4 & H5).
    assert (Hu : m_pc x = MAtIter) by (apply H3; auto).
    split; [|split].
    - intros Hin. apply H1 in Hin. destruct Hin as [?|[[?|?] _]]; congruence.
    - destruct (m_fw x) eqn:Hf; auto. exfalso.
      assert (Hw : m_pc x = MWaitPool \/ m_pc x = MWaitMap) by (apply H2; congruence).
      destruct Hw; congruence.
    - destruct (m_final x) eqn:Hf; auto. exfalso.
      assert (Hd : m_pc x = MDone) by (apply H5; congruence). congruence. }
  pose proof (J_c (proj1 H)) as Hok. rewrite Hc in Hok. simpl in Hok.
  destruct (lt_get_m _ _ Hok) as [x Hx].
  apply J_continue_m; auto.
  - split; [|split; [|split]].
    + eapply J_mono; [|exact H]. intros q [].
    + apply (Hfacts x Hx).
    + exact Hok.
    + right. exact Hc.
  - intros y Hy. apply (Hfacts y Hy).
Qed.

Lemma J_step s l : J s E0 -> J (step s l) E0.
Proof.
  intros H0. unfold step.
  set (s1 := set_res (set_evs s []) RNone).
  assert (H : J s1 E0) by exact H0.
  clearbody s1. clear H0 s.
  destruct (negb (enabled s1 l)) eqn:Hen; [exact H|].
  apply negb_false_iff in Hen.
  destruct l as [h| |o].
  - simpl in Hen. destruct (ctl s1) eqn:Hc; [|discriminate].
    apply is_ready_In in Hen. apply J_step_run; auto.
  - simpl in Hen. destruct (ctl s1) as [|[t|m|d]] eqn:Hc; try discriminate.
    + apply J_step_go_p; auto.
    + apply J_step_go_m; auto.
    + exact H.
  - apply J_do_op; auto.
Qed.

(** ** The deliverables *)
Lemma I5_init : forall c, I5 (init c).
Proof. intros c. apply I5_of_J, J_init. Qed.

Lemma Extra_R_init : forall c, Extra_R (init c).
Proof. intros c. apply Extra_of_J, J_init. Qed.

Lemma J_of_WF s : WF s -> Extra_R s -> J s E0.
Proof.
  intros W X. destruct W as [w1 w2 wh w3 w4 w5 wm wg wr wgr].
  apply J_of_I5; auto. destruct w1 as [_ _ Hlen _]. exact Hlen.
Qed.

Lemma I5_step : forall s l, WF s -> Extra_R s -> clean (step s l) -> I5 (step s l).
Proof. intros s l W X _. apply I5_of_J, J_step, J_of_WF; auto. Qed.

Lemma Extra_R_step : forall s l, WF s -> Extra_R s -> clean (step s l) -> Extra_R (step s l).
Proof. intros s l W X _. apply Extra_of_J, J_step, J_of_WF; auto. Qed.

(** The same, packaged for the final assembly: the strengthened layer is preserved. *)
Definition I5x (s : state) : Prop := I5 s /\ Extra_R s.

Lemma I5x_init : forall c, I5x (init c).
Proof. intros c. split; [apply I5_init|apply Extra_R_init]. Qed.

Lemma I5x_step : forall s l, WF s -> Extra_R s -> clean (step s l) -> I5x (step s l).
Proof. intros s l W X C. split; [apply I5_step|apply Extra_R_step]; auto. Qed.
