(** Monitor soundness, C06 — the model side. *)
From TP Require Import PInv PInv_P_base PInv_P_view PInv_P_inv PInv_P_tok PInv_P_leaf
  PInv_P_chain PInv_P_step PInv_P PSpecStep PStep_C_ev PStep_C_rel PStep_C_run PStep_C_drv PStep_C
  PStep_C06 PMon PMonSound_kn.
From TP Require Import PInv_P_tok2 PStep_A_inv.

(** ** results of the cancellation operations *)
Lemma res_sched s h : res (sched s h) = res s.
Proof. unfold sched. destruct (is_ready s h); reflexivity. Qed.

Lemma res_cancel_p s t : res (cancel_p s t) = res s.
Proof. unfold cancel_p. repeat (first [reflexivity | rewrite res_sched | dmatch]). Qed.

Lemma res_fold_cancel ids : forall s, res (fold_left cancel_p ids s) = res s.
Proof. induction ids; simpl; intros; auto. now rewrite IHids, res_cancel_p. Qed.

(** [do_cancel] from a state whose result register is empty *)
Lemma do_cancel_cases s ids :
  res s = RNone ->
  (exists e, first_lookup_err s ids = Some e /\ do_cancel s ids = set_res s (RErr e)) \/
  (first_lookup_err s ids = None /\ do_cancel s ids = fold_left cancel_p ids s /\
   res (do_cancel s ids) = RNone).
Proof.
  intros Hr. unfold do_cancel. destruct (first_lookup_err s ids) as [e|] eqn:E.
  - left. eauto.
  - right. repeat split. now rewrite res_fold_cancel.
Qed.

(** ** [same_public] of two observations of states that agree on the public fields *)
Lemma geqb_refl g : gname_eqb g g = true.
Proof. destruct (geqb_spec g g); congruence. Qed.

Lemma glook_map {A} (f : gname -> A) ks g :
  In g ks -> glook g (map (fun h => (h, f h)) ks) = Some (f g).
Proof.
  induction ks as [|h r IH]; simpl; [tauto|].
  destruct (geqb_spec g h) as [->|Hne]; auto. intros [H|H]; [congruence|auto].
Qed.

Lemma glook_map_none {A} (f : gname -> A) ks g :
  ~ In g ks -> glook g (map (fun h => (h, f h)) ks) = None.
Proof.
  induction ks as [|h r IH]; simpl; auto.
  destruct (geqb_spec g h) as [->|Hne]; [tauto|]. intros H. apply IH. tauto.
Qed.

Lemma forallb_mem_refl l : forallb (fun t => mem t l) l = true.
Proof. apply forallb_forall. intros t H. now apply mem_In. Qed.

Lemma ninf_eqb_refl v : ninf_eqb v v = true.
Proof. destruct v; simpl; auto. apply Nat.eqb_refl. Qed.

Lemma same_public_same s s' l l' en en' :
  t_running s' = t_running s -> t_cancelled s' = t_cancelled s -> t_ended s' = t_ended s ->
  sem_locked s' = sem_locked s -> locked s' = locked s -> sem_value s' = sem_value s ->
  ready s' = ready s -> groups s' = groups s -> known s' = known s -> evs s' = [] ->
  same_public (obs_of s l en) (obs_of s' l' en') = true.
Proof.
  intros a b c d e f g h i j. unfold same_public, obs_of.
  cbn [o_nr o_nc o_ne o_full o_locked o_size o_ready_empty o_events o_groups].
  rewrite a, b, c, d, e, f, g, h, i, j.
  rewrite !Nat.eqb_refl, !eqb_reflx, ninf_eqb_refl. cbn [andb].
  apply forallb_forall. intros [g0 v] Hin. cbn [fst snd].
  apply in_map_iff in Hin. destruct Hin as (g1 & Heq & Hin). injection Heq as <- <-.
  rewrite (glook_map (fun g => glookup g (groups s)) (known s) g1 Hin).
  destruct (glookup g1 (groups s)); auto.
  rewrite Nat.eqb_refl, forallb_mem_refl. reflexivity.
Qed.

(** ** events only accumulate inside enter_end / enter_cancel *)
Lemma ev_incl_enter_end s t x : incl (evs s) (evs (enter_end s t x)).
Proof.
  unfold enter_end.
  assert (Hm : forall s1, evs s1 = evs s ->
     incl (evs s)
       (evs (let s2 := set_t_ended s1 (dict_add (t_ended s1) t) in
             let s3 := sem_release s2 in
             let x0 := set_p_nrel x (S (p_nrel x)) in
             let s4 := if p_ismap x0 then map_release s3 (p_req x0) else s3 in
             match p_ecb x0 with
             | CbNone => finish_p s4 t x0
             | _ => set_ctl (emit (put_p s4 t (set_p_pc (set_p_necb x0 (S (p_necb x0))) PUEndCb))
                                  (EvCbBegin KEnd t (classify s4 t))) (CUser (TP t))
             end))).
  { intros s1 E. cbv zeta.
    destruct (moved_facts (set_t_ended s1 (dict_add (t_ended s1) t))
                          (p_ismap (set_p_nrel x (S (p_nrel x))))
                          (p_req (set_p_nrel x (S (p_nrel x))))) as (He & _).
    cbv zeta in He. change (evs (set_t_ended s1 (dict_add (t_ended s1) t))) with (evs s1) in He.
    rewrite E in He.
    destruct (p_ecb _); [rewrite ev_finish_p, He; apply incl_refl|..];
      cbn [evs set_ctl emit set_evs put_p set_ptasks]; rewrite He; apply incl_appl, incl_refl. }
  destruct (mem t (t_running s)); [|destruct (mem t (t_cancelled s))].
  - apply Hm. reflexivity.
  - apply Hm. reflexivity.
  - rewrite ev_finish_p. apply incl_refl.
Qed.

Lemma ev_incl_enter_cancel s t x : incl (evs s) (evs (enter_cancel s t x)).
Proof.
  unfold enter_cancel. destruct (mem t (t_running s)).
  - cbv zeta. destruct (p_ccb x).
    + eapply incl_tran; [|apply ev_incl_enter_end]. apply incl_refl.
    + cbn [evs set_ctl emit set_evs put_p set_ptasks]. apply incl_appl, incl_refl.
    + cbn [evs set_ctl emit set_evs put_p set_ptasks]. apply incl_appl, incl_refl.
  - apply ev_incl_enter_end.
Qed.

(** ** who exits *)
Lemma evx_run_p s t t' : I1 s -> evs s = [] -> ~ In (EvExit t') (evs (run_p s t)).
Proof.
  intros H E0. apply I1_iff in H. unfold run_p.
  destruct (get_p s t) as [x0|] eqn:Ex; [|rewrite E0; intros []].
  cbv zeta. destruct (p_pc x0) eqn:Epc; try (rewrite E0; intros []).
  - destruct (task_input _ _); [destruct (p_unst _) eqn:Eu|..]; intros He; evc E0 He.
  - destruct (task_input _ _) eqn:Ei; intros He; evc E0 He.
  - destruct (task_input _ _); intros He; evc E0 He.
  - destruct (task_input _ _); intros He; evc E0 He.
Qed.

Definition exit_pc (x : ptask) : Prop :=
  p_pc x = PUResume \/ p_pc x = PUCancelled \/
  (p_pc x = PUStart /\ w_first (p_w x) <> WSuspend).

Lemma evx_continue_p s t t' :
  I1 s -> evs s = [] -> In (EvExit t') (evs (continue_p s t)) ->
  t' = t /\ exists x, get_p s t = Some x /\ exit_pc x.
Proof.
  intros H E0. apply I1_iff in H. unfold continue_p, exit_pc.
  destruct (get_p s t) as [x0|] eqn:Ex; [|rewrite E0; intros []].
  destruct (p_pc x0) eqn:Epc; try (rewrite E0; intros []).
  - destruct (w_first (p_w x0)) eqn:Ew; intros He; evc E0 He;
      match goal with H : EvExit _ = EvExit _ |- _ => injection H as <- end;
      (split; [reflexivity|]); exists x0; (split; [reflexivity|]); right; right; split; congruence.
  - destruct (p_fin x0); intros He; evc E0 He;
      match goal with H : EvExit _ = EvExit _ |- _ => injection H as <- end;
      (split; [reflexivity|]); exists x0; (split; [reflexivity|]); auto.
  - destruct (w_cancel (p_w x0)) eqn:Ew; intros He; evc E0 He;
      match goal with H : EvExit _ = EvExit _ |- _ => injection H as <- end;
      (split; [reflexivity|]); exists x0; (split; [reflexivity|]); auto.
  - destruct (p_ccb x0) as [|r|sl r]; [| |destruct sl]; intros He; evc E0 He.
  - destruct (p_ecb x0) as [|r|sl r]; [| |destruct sl]; intros He; evc E0 He.
Qed.

(** ** an outstanding mark on a live worker persists until it is delivered *)
Definition live_pc (p : ppc) : Prop :=
  p = PUStart \/ p = PWaitGate \/ p = PUResume \/ p = PUCancelled.

Lemma run_p_keep s t x :
  evs s = [] -> get_p s t = Some x -> live_pc (p_pc x) -> cancel_marked x -> p_unst x = UNone ->
  In (EvCancelled t) (evs (run_p s t)) \/ run_p s t = s.
Proof.
  intros E0 Hx Hl Hm Hu. unfold run_p. rewrite Hx. cbv zeta.
  destruct Hl as [Hp|[Hp|[Hp|Hp]]]; rewrite Hp; auto.
  left. unfold cancel_marked in Hm. rewrite Hu in Hm.
  assert (Hi : task_input (p_mc x) (p_fw x) <> InOk).
  { unfold task_input. destruct (p_mc x); [discriminate|].
    destruct Hm as [Hm|[Hm|Hm]]; try discriminate. rewrite Hm. discriminate. }
  destruct (task_input _ _); [congruence|..];
    cbn [evs set_ctl emit set_evs put_p set_ptasks]; rewrite E0; simpl; auto.
Qed.

Lemma continue_p_keep s t x :
  evs s = [] -> get_p s t = Some x -> live_pc (p_pc x) -> cancel_marked x -> pfwc x ->
  In (EvExit t) (evs (continue_p s t)) \/
  (forall y, get_p (continue_p s t) t = Some y -> cancel_marked y).
Proof.
  intros E0 Hx Hl Hm Hf. unfold continue_p. rewrite Hx.
  assert (Hexit : forall s0 : state, In (EvExit t) (evs s0) ->
            (forall x', In (EvExit t) (evs (enter_end s0 t x'))) /\
            (forall x', In (EvExit t) (evs (enter_cancel s0 t x')))).
  { intros s0 Hin. split; intros x'; [apply ev_incl_enter_end|apply ev_incl_enter_cancel]; auto. }
  assert (He : In (EvExit t) (evs (emit s (EvExit t)))).
  { cbn [evs emit set_evs]. rewrite in_app_iff. simpl. auto. }
  destruct (Hexit _ He) as [H1 H2].
  destruct Hl as [Hp|[Hp|[Hp|Hp]]]; rewrite Hp.
  - destruct (w_first (p_w x)); auto. right. intros y Hy.
    change (vget (pview (suspend_p s t x PWaitGate)) t = Some y) in Hy.
    rewrite pv_suspend_p in Hy. unfold suspend_v in Hy. apply vget_vput in Hy.
    destruct Hy as [[Hne _]|[_ ->]]; [congruence|].
    unfold pfwc in Hf. rewrite Hp in Hf. cbn in Hf.
    assert (Hfw : p_fw x = None) by (destruct (p_fw x); auto; exfalso;
      assert (false = true) by (apply Hf; discriminate); discriminate).
    unfold cancel_marked, suspend_x in *. rewrite Hfw in Hm.
    destruct (p_mc x); cbn; intuition discriminate.
  - right. intros y Hy. assert (y = x) by congruence. now subst.
  - destruct (p_fin x); auto.
  - destruct (w_cancel (p_w x)); auto.
Qed.

(** ** cancellation marks live workers *)
Definition LV (s : state) (t : nat) : Prop :=
  exists x, get_p s t = Some x /\ p_unst x = UNone /\ p_final x = None.
Definition ML (s : state) (t : nat) : Prop :=
  exists x, get_p s t = Some x /\ p_unst x = UNone /\ p_final x = None /\ cancel_marked x.

Lemma ML_LV s t : ML s t -> LV s t.
Proof. intros (x & a & b & c & _). exists x. auto. Qed.

Lemma cancel_x_marked x : cancel_marked (cancel_x x).
Proof.
  unfold cancel_marked, cancel_x. destruct (fut_pending (p_fw x)); cbn; auto.
Qed.

Lemma cancel_x_keeps_marked x : cancel_marked x -> cancel_marked (cancel_x x).
Proof. intros _. apply cancel_x_marked. Qed.

Lemma cancel_p_marks s t : LV s t -> ML (cancel_p s t) t.
Proof.
  intros (x & Hx & Hu & Hf).
  assert (Hg : get_p (cancel_p s t) t = Some (cancel_x x)).
  { change (vget (pview (cancel_p s t)) t = Some (cancel_x x)).
    rewrite pv_cancel_p. unfold cancel_p_v. change (vget (pview s) t) with (get_p s t).
    rewrite Hx, Hu, Hf. unfold vget, vput. cbn [vpts]. apply nth_error_upd_eq.
    apply nth_error_Some. unfold get_p in Hx. cbn [vpts pview]. congruence. }
  exists (cancel_x x). split; [exact Hg|].
  rewrite cancel_x_unst, cancel_x_final. repeat split; auto. apply cancel_x_marked.
Qed.

Lemma cancel_p_ML s u t : ML s t -> ML (cancel_p s u) t.
Proof.
  intros H. destruct (Nat.eq_dec u t) as [->|Hne].
  - apply cancel_p_marks. now apply ML_LV.
  - destruct H as (x & Hx & r). exists x. split; auto.
    rewrite get_cancel_p_other; auto.
Qed.

Lemma cancel_p_LV s u t : LV s t -> LV (cancel_p s u) t.
Proof.
  intros H. destruct (Nat.eq_dec u t) as [->|Hne].
  - apply ML_LV. now apply cancel_p_marks.
  - destruct H as (x & Hx & r). exists x. split; auto.
    rewrite get_cancel_p_other; auto.
Qed.

Lemma fold_cancel_ML ids : forall s t, ML s t -> ML (fold_left cancel_p ids s) t.
Proof. induction ids; simpl; intros; auto. apply IHids. now apply cancel_p_ML. Qed.

Lemma fold_cancel_marks ids : forall s t,
  LV s t -> In t ids -> ML (fold_left cancel_p ids s) t.
Proof.
  induction ids as [|u r IH]; simpl; intros s t Hl Hin; [tauto|]. destruct Hin as [->|Hin].
  - apply fold_cancel_ML. now apply cancel_p_marks.
  - apply IH; auto. now apply cancel_p_LV.
Qed.

Definition cif (s : state) (t : nat) : state := if mem t (t_running s) then cancel_p s t else s.

Lemma running_cif s u : t_running (cif s u) = t_running s.
Proof. unfold cif. destruct (mem u (t_running s)); auto. apply running_cancel_p. Qed.

Lemma fold_cif_ML ids : forall s t, ML s t -> ML (fold_left cif ids s) t.
Proof.
  induction ids; simpl; intros; auto. apply IHids. unfold cif.
  destruct (mem a (t_running s)); auto. now apply cancel_p_ML.
Qed.

Lemma fold_cif_marks ids : forall s t,
  LV s t -> In t (t_running s) -> In t ids -> ML (fold_left cif ids s) t.
Proof.
  induction ids as [|u r IH]; simpl; intros s t Hl Hr Hin; [tauto|]. destruct Hin as [->|Hin].
  - apply fold_cif_ML. unfold cif. apply mem_In in Hr. rewrite Hr. now apply cancel_p_marks.
  - apply IH; auto.
    + unfold cif. destruct (mem u (t_running s)); auto. now apply cancel_p_LV.
    + now rewrite running_cif.
Qed.

Lemma LV_pv s s' t : pview s' = pview s -> LV s t -> LV s' t.
Proof. intros E (x & Hx & r). exists x. split; auto. rewrite (get_pv _ _ _ E). exact Hx. Qed.

Lemma ML_pv s s' t : pview s' = pview s -> ML s t -> ML s' t.
Proof. intros E (x & Hx & r). exists x. split; auto. rewrite (get_pv _ _ _ E). exact Hx. Qed.

Lemma pv_group_prefix s g : pview (mark_dead (cancel_group_metas s g) g) = pview s.
Proof. rewrite pv_mark_dead. apply pv_cancel_group_metas. Qed.

Lemma cgb_ML s g ids t : ML s t -> ML (cancel_group_body s g ids) t.
Proof.
  intros H. unfold cancel_group_body. apply (fold_cif_ML ids).
  eapply ML_pv; [apply pv_group_prefix|exact H].
Qed.

Lemma cgb_LV s g ids t : LV s t -> LV (cancel_group_body s g ids) t.
Proof.
  intros H. unfold cancel_group_body.
  assert (Hg : forall l s0, LV s0 t -> LV (fold_left cif l s0) t).
  { induction l; simpl; intros; auto. apply IHl. unfold cif.
    destruct (mem a (t_running s0)); auto. now apply cancel_p_LV. }
  apply (Hg ids). eapply LV_pv; [apply pv_group_prefix|exact H].
Qed.

Lemma cgb_marks s g ids t :
  LV s t -> In t (t_running s) -> In t ids -> ML (cancel_group_body s g ids) t.
Proof.
  intros Hl Hr Hi. unfold cancel_group_body. apply (fold_cif_marks ids); auto.
  - eapply LV_pv; [apply pv_group_prefix|exact Hl].
  - change (In t (vR (pview (mark_dead (cancel_group_metas s g) g)))).
    rewrite pv_group_prefix. exact Hr.
Qed.

Lemma cgb_running s g ids : t_running (cancel_group_body s g ids) = t_running s.
Proof. apply (R3_cancel_group_body s g ids). Qed.

Lemma cag_ML gs : forall s t, ML s t -> ML (cancel_all_groups s gs) t.
Proof.
  induction gs as [|[g ids] r IH]; simpl; intros; auto. apply IH. now apply cgb_ML.
Qed.

Lemma cag_marks gs : forall s t,
  LV s t -> In t (t_running s) -> In t (concat (map snd gs)) -> ML (cancel_all_groups s gs) t.
Proof.
  induction gs as [|[g ids] r IH]; simpl; intros s t Hl Hr Hi; [tauto|].
  rewrite in_app_iff in Hi. destruct Hi as [Hi|Hi].
  - apply cag_ML. now apply cgb_marks.
  - apply IH; auto.
    + now apply cgb_LV.
    + now rewrite cgb_running.
Qed.

(** ** the ids a label cancels, read off the model *)
Definition mtids (s : state) (l : label) (s' : state) : list nat :=
  match l with
  | LOp (OpCancel ids) => match res s' with RNone => ids | _ => [] end
  | LOp (OpCancelGroup g) =>
      match res s' with
      | RNone => match glookup g (groups s) with Some ids => ids | None => [] end
      | _ => []
      end
  | LOp OpCancelAll => concat (map snd (groups s))
  | LOp (OpStop _) | LOp OpStopAll => match res s' with RIds ids => ids | _ => [] end
  | _ => []
  end.

Lemma res_cancel_m s m : res (cancel_m s m) = res s.
Proof. unfold cancel_m. repeat (first [reflexivity | rewrite res_sched | dmatch]). Qed.

Lemma res_fold {A} (f : state -> A -> state) :
  (forall s a, res (f s a) = res s) -> forall l s, res (fold_left f l s) = res s.
Proof. intros H l. induction l; simpl; intros; auto. now rewrite IHl, H. Qed.

Lemma res_cif s t : res (cif s t) = res s.
Proof. unfold cif. destruct (mem _ _); auto. apply res_cancel_p. Qed.

Lemma res_cancel_group_body s g ids : res (cancel_group_body s g ids) = res s.
Proof.
  unfold cancel_group_body. change (res (fold_left cif ids (mark_dead (cancel_group_metas s g) g)) = res s).
  rewrite (res_fold _ res_cif). cbn [res mark_dead set_mtasks].
  unfold cancel_group_metas. destruct (glookup _ _); auto.
  cbn [res set_meta_cancelled]. now rewrite (res_fold _ res_cancel_m).
Qed.

Lemma first_lookup_err_Some s ids e :
  first_lookup_err s ids = Some e -> exists t, In t ids /\ ~ In t (t_running s).
Proof.
  induction ids as [|u r IH]; simpl; [discriminate|].
  unfold lookup_err at 1. destruct (mem u (t_running s)) eqn:E.
  - intros H. destruct (IH H) as (t & a & b). eauto.
  - intros _. exists u. split; auto. now apply mem_false_In.
Qed.

Lemma In_concat_snd_rev' (gs : list (gname * list nat)) u :
  In u (concat (map snd gs)) -> In u (concat (map snd (rev gs))).
Proof. intros H. apply In_concat_snd_rev. now rewrite rev_involutive. Qed.

(** the step of a cancellation operation, unfolded *)
Lemma step_op s o : op_enabled (pre s) o = true -> step s (LOp o) = do_op (pre s) o.
Proof. intros H. unfold step. fold (pre s). cbn [enabled]. rewrite H. reflexivity. Qed.

Lemma step_disabled s l : enabled (pre s) l = false -> step s l = pre s.
Proof. intros H. unfold step. fold (pre s). rewrite H. reflexivity. Qed.

Lemma firstn_rev_all l : firstn_rev (length l) l = rev l.
Proof. unfold firstn_rev. rewrite <- (rev_length l). apply firstn_all. Qed.

(** a failed cancel() changes nothing *)
Lemma cancel_failed s ids e :
  res (step s (LOp (OpCancel ids))) = RErr e ->
  step s (LOp (OpCancel ids)) = set_res (pre s) (RErr e) /\
  exists t, In t ids /\ ~ In t (t_running s).
Proof.
  rewrite step_op by reflexivity. unfold do_op.
  destruct (do_cancel_cases (pre s) ids eq_refl) as [(e' & Hf & Hd)|(Hf & Hd & Hr)].
  - rewrite Hd. cbn [res set_res]. intros [= <-]. split; auto.
    apply (first_lookup_err_Some (pre s) ids e' Hf).
  - rewrite Hr. discriminate.
Qed.

Lemma cancel_res s ids :
  res (step s (LOp (OpCancel ids))) = RNone \/ exists e, res (step s (LOp (OpCancel ids))) = RErr e.
Proof.
  rewrite step_op by reflexivity. unfold do_op.
  destruct (do_cancel_cases (pre s) ids eq_refl) as [(e' & Hf & Hd)|(Hf & Hd & Hr)]; auto.
  right. exists e'. now rewrite Hd.
Qed.

(** the shape of stop() *)
Lemma stop_shape s1 ids :
  res s1 = RNone ->
  let s2 := match res (do_cancel s1 ids) with
            | RErr _ => do_cancel s1 ids | _ => set_res (do_cancel s1 ids) (RIds ids) end in
  (exists e, s2 = set_res s1 (RErr e)) \/
  (first_lookup_err s1 ids = None /\ s2 = set_res (fold_left cancel_p ids s1) (RIds ids)).
Proof.
  intros Hr. cbv zeta.
  destruct (do_cancel_cases s1 ids Hr) as [(e' & Hf & Hd)|(Hf & Hd & Hr')].
  - left. exists e'. rewrite Hd. reflexivity.
  - right. split; auto. rewrite Hr', Hd. reflexivity.
Qed.

Lemma marked_dec x : {cancel_marked x} + {~ cancel_marked x}.
Proof.
  unfold cancel_marked.
  destruct (p_unst x); try (left; auto; fail);
  destruct (p_fw x) as [[| |e|]|]; try (left; auto; fail);
  destruct (p_mc x); try (left; auto; fail);
  right; intuition discriminate.
Qed.

Lemma res_know s g : res (know s g) = res s.
Proof. unfold know. destruct (existsb _ _); reflexivity. Qed.

(** the state after a successful cancel_group *)
Lemma cancel_group_shape s g :
  match glookup g (groups s) with
  | Some ids =>
      step s (LOp (OpCancelGroup g)) =
        cancel_group_body (set_groups (know (pre s) g) (gremove g (groups s))) g ids /\
      res (step s (LOp (OpCancelGroup g))) = RNone
  | None => step s (LOp (OpCancelGroup g)) = set_res (know (pre s) g) (RErr ErrGroupNotFound)
  end.
Proof.
  rewrite step_op by reflexivity. unfold do_op. rewrite groups_know.
  change (groups (pre s)) with (groups s).
  destruct (glookup g (groups s)) as [ids|]; auto. split; auto.
  rewrite res_cancel_group_body. cbn [res set_groups]. now rewrite res_know.
Qed.

(** a mark appears only on the ids the label cancels *)
Lemma step_marks s l t x' :
  WF s -> Extra_P s -> clean (step s l) ->
  get_p (step s l) t = Some x' -> cancel_marked x' ->
  (exists x, get_p s t = Some x /\ cancel_marked x) \/ In t (mtids s l (step s l)).
Proof.
  intros W EP Hc Hx' Hm.
  destruct (get_p s t) as [x|] eqn:Hx.
  2:{ exfalso. exact (C06_new_unmarked s l t x' W EP Hc Hx Hx' Hm). }
  destruct (marked_dec x) as [Hmx|Hnx]; [left; eauto|].
  destruct (step_records s l t x x' W EP Hx Hx') as [Hk|Ht]; [exfalso; exact (Hk Hnx Hm)|].
  assert (Hsame : get_p (step s l) t = get_p s t -> False).
  { intros E. rewrite E, Hx in Hx'. injection Hx' as <-. auto. }
  right. destruct l as [h| |o]; try contradiction. destruct o; try contradiction; cbn [targets] in Ht.
  - (* cancel *)
    cbn [mtids]. destruct (cancel_res s ids) as [Hr|(e & Hr)]; [now rewrite Hr|].
    exfalso. apply Hsame. destruct (cancel_failed s ids e Hr) as [E _]. now rewrite E.
  - (* cancel_group *)
    destruct Ht as (ids & Hg & Hin). pose proof (cancel_group_shape s g) as Hs.
    rewrite Hg in Hs. destruct Hs as [_ Hr]. cbn [mtids]. now rewrite Hr, Hg.
  - exact Ht.
  - (* stop *)
    destruct n as [n|]; [|contradiction].
    destruct (op_enabled (pre s) (OpStop (Some n))) eqn:En;
      [|exfalso; apply Hsame; rewrite (step_disabled s (LOp _) En); reflexivity].
    assert (Es : step s (LOp (OpStop (Some n))) = do_op (pre s) (OpStop (Some n)))
      by (apply step_op; exact En).
    rewrite Es in *. unfold do_op in *.
    destruct (stop_shape (pre s) (firstn_rev n (t_running (pre s))) eq_refl) as [(e & E)|(_ & E)];
      cbv zeta in E; rewrite E in *.
    + exfalso. apply Hsame. reflexivity.
    + cbn [mtids res set_res]. exact Ht.
  - destruct (op_enabled (pre s) OpStopAll) eqn:En;
      [|exfalso; apply Hsame; rewrite (step_disabled s (LOp _) En); reflexivity].
    assert (Es : step s (LOp OpStopAll) = do_op (pre s) OpStopAll) by (apply step_op; exact En).
    rewrite Es in *. unfold do_op in *.
    destruct (stop_shape (pre s) (firstn_rev (length (t_running (pre s))) (t_running (pre s)))
                         eq_refl) as [(e & E)|(_ & E)]; cbv zeta in E; rewrite E in *.
    + exfalso. apply Hsame. reflexivity.
    + cbn [mtids res set_res]. rewrite firstn_rev_all. apply -> in_rev. exact Ht.
Qed.

(** every live worker the label cancels is marked afterwards *)
Lemma step_targets_marked s l t :
  enabled (pre s) l = true -> In t (mtids s l (step s l)) -> LV s t -> In t (t_running s) ->
  ML (step s l) t.
Proof.
  intros En Hin Hl Hr. destruct l as [h| |o]; try contradiction.
  destruct o; try contradiction; cbn [mtids] in Hin.
  - destruct (cancel_res s ids) as [Hres|(e & Hres)]; rewrite Hres in Hin; [|contradiction].
    revert Hres. rewrite step_op by reflexivity. unfold do_op.
    destruct (do_cancel_cases (pre s) ids eq_refl) as [(e' & Hf & Hd)|(Hf & Hd & _)];
      rewrite Hd; [discriminate|]. intros _. apply fold_cancel_marks; auto.
  - pose proof (cancel_group_shape s g) as Hs.
    destruct (glookup g (groups s)) as [ids|] eqn:Hg.
    + destruct Hs as [E Hres]. rewrite Hres in Hin. rewrite E. apply cgb_marks; auto.
      eapply LV_pv; [|exact Hl]. transitivity (pview (know (pre s) g)); [reflexivity|].
      rewrite pv_know. reflexivity.
      change (In t (vR (pview (know (pre s) g)))). rewrite pv_know. exact Hr.
    + rewrite Hs in Hin. cbn in Hin. contradiction.
  - rewrite step_op by reflexivity. unfold do_op.
    apply cag_marks; auto. now apply In_concat_snd_rev'.
  - assert (Es : step s (LOp (OpStop n)) = do_op (pre s) (OpStop n)) by (apply step_op; exact En).
    rewrite Es in *. unfold do_op in *.
    destruct (stop_shape (pre s)
                (match n with Some k => firstn_rev k (t_running (pre s)) | None => [] end) eq_refl)
      as [(e & E)|(_ & E)]; cbv zeta in E; rewrite E in *.
    + cbn in Hin. contradiction.
    + cbn [res set_res] in Hin. eapply ML_pv with (s := fold_left cancel_p _ (pre s)); [reflexivity|].
      apply fold_cancel_marks; auto.
  - assert (Es : step s (LOp OpStopAll) = do_op (pre s) OpStopAll) by (apply step_op; exact En).
    rewrite Es in *. unfold do_op in *.
    destruct (stop_shape (pre s) (firstn_rev (length (t_running (pre s))) (t_running (pre s)))
                         eq_refl) as [(e & E)|(_ & E)]; cbv zeta in E; rewrite E in *.
    + cbn in Hin. contradiction.
    + cbn [res set_res] in Hin. eapply ML_pv with (s := fold_left cancel_p _ (pre s)); [reflexivity|].
      apply fold_cancel_marks; auto.
Qed.

(** an outstanding mark on a live worker stays until the worker logs CancelledError (it cannot
    exit before) *)
Lemma ML_get s t y : ML s t -> get_p s t = Some y -> cancel_marked y.
Proof. intros (x & Hx & _ & _ & Hm) Hy. congruence. Qed.

Lemma step_keeps_mark s l t x :
  WF s -> Extra_P s -> PStep_A_inv.Extra_A s ->
  get_p s t = Some x -> live_pc (p_pc x) -> cancel_marked x ->
  ~ In (EvCancelled t) (evs (step s l)) -> ~ In (EvExit t) (evs (step s l)) ->
  forall y, get_p (step s l) t = Some y -> cancel_marked y.
Proof.
  intros W EP XA Hx Hl Hm Hnc Hne y.
  assert (Hu : p_unst x = UNone).
  { pose proof (I2_unst _ (wf2 _ W) t x Hx) as Hi. destruct (p_unst x); auto; exfalso;
      assert (p_pc x = PCreated) by (apply Hi; discriminate);
      destruct Hl as [H0|[H0|[H0|H0]]]; congruence. }
  assert (Hfin : p_final x = None).
  { pose proof (I2_final _ (wf2 _ W) t x Hx) as Hi. destruct (p_final x); auto; exfalso;
      assert (p_pc x = PDone) by (apply Hi; discriminate);
      destruct Hl as [H0|[H0|[H0|H0]]]; congruence. }
  assert (HML : ML (pre s) t) by (exists x; auto).
  assert (Hsame : forall s', get_p s' t = get_p s t -> get_p s' t = Some y -> cancel_marked y).
  { intros s' E H. assert (y = x) by congruence. now subst. }
  revert Hnc Hne. unfold step. fold (pre s).
  destruct (negb (enabled (pre s) l)) eqn:En; [intros _ _; now apply Hsame|].
  apply negb_false_iff in En.
  destruct l as [h| |o].
  - destruct h as [[t0|m|d]|d c]; cbn [run_handle]; intros Hnc Hne.
    + destruct (Nat.eq_dec t0 t) as [->|Hn0].
      * destruct (run_p_keep (unsched (pre s) (HT (TP t))) t x eq_refl Hx Hl Hm Hu) as [H|H];
          [contradiction|]. rewrite H. now apply Hsame.
      * intros H. apply rec_run_p in H. destruct H as [H|(E & _)]; [|congruence].
        now apply (Hsame s).
    + intros H.
      pose proof (Q_run_m _ (MR_Qpv _) (MR_Qreg _) (unsched (pre s) (HT (TM m))) m
                          (MR_refl _)) as [_ Hmr].
      apply Hmr in H. change (get_p (unsched (pre s) (HT (TM m))) t) with (get_p s t) in H.
      destruct H as [H|[H _]]; [|congruence]. now apply (Hsame s).
    + apply Hsame. unfold get_p. now rewrite SP_run_d.
    + apply Hsame. apply pv_get_p. rewrite pc_run_g. reflexivity.
  - destruct (ctl (pre s)) as [|[t0|m|d]]; intros Hnc Hne; try (now apply Hsame).
    + destruct (Nat.eq_dec t0 t) as [->|Hn0].
      * destruct (continue_p_keep (pre s) t x eq_refl Hx Hl Hm) as [H|H];
          [apply (I5_pfw _ (wf5 _ W) t x Hx)|contradiction|apply H].
      * intros H. apply rec_continue_p in H. destruct H as [H|(E & _)]; [|congruence].
        now apply (Hsame s).
    + intros H.
      pose proof (Q_continue_m _ (MR_Qpv _) (MR_Qreg _) (pre s) m (MR_refl _)) as [_ Hmr].
      apply Hmr in H. change (get_p (pre s) t) with (get_p s t) in H.
      destruct H as [H|[H _]]; [|congruence]. now apply (Hsame s).
  - intros _ _. destruct (op_other o) eqn:Eo.
    { apply Hsame. transitivity (get_p (pre s) t); [|reflexivity].
      apply pv_get_p, pc_do_op_other, Eo. }
    destruct o; try discriminate; unfold do_op.
    + apply ML_get. unfold do_cancel. destruct (first_lookup_err _ _); auto.
      now apply fold_cancel_ML.
    + rewrite groups_know. apply ML_get. destruct (glookup g (groups (pre s))).
      * apply cgb_ML. eapply ML_pv; [|exact HML].
        transitivity (pview (know (pre s) g)); [reflexivity|apply pv_know].
      * eapply ML_pv; [|exact HML]. rewrite pv_set_res. apply pv_know.
    + apply ML_get. apply cag_ML. exact HML.
    + apply ML_get.
      destruct (stop_shape (pre s)
                  (match n with Some k => firstn_rev k (t_running (pre s)) | None => [] end) eq_refl)
        as [(e & E)|(_ & E)]; cbv zeta in E; rewrite E.
      * exact HML.
      * eapply ML_pv with (s := fold_left cancel_p _ (pre s)); [reflexivity|].
        now apply fold_cancel_ML.
    + apply ML_get.
      destruct (stop_shape (pre s) (firstn_rev (length (t_running (pre s))) (t_running (pre s)))
                           eq_refl) as [(e & E)|(_ & E)]; cbv zeta in E; rewrite E.
      * exact HML.
      * eapply ML_pv with (s := fold_left cancel_p _ (pre s)); [reflexivity|].
        now apply fold_cancel_ML.
    + (* OpFinish: not enabled on a marked task *)
      destruct (Nat.eq_dec tid t) as [->|Hn0].
      * exfalso. cbn [enabled op_enabled] in En. change (get_p (pre s) t) with (get_p s t) in En.
        rewrite Hx in En. destruct (p_pc x); try discriminate.
        unfold cancel_marked in Hm. rewrite Hu in Hm.
        destruct Hm as [Hm|[Hm|Hm]]; [discriminate|rewrite Hm in En; discriminate|].
        apply (XA t x Hx Hm). destruct (p_fw x) as [[]|]; try discriminate. reflexivity.
      * destruct (get_p (pre s) tid) as [z|]; [|now apply Hsame].
        intros H.
        change (vget (pview (sched (put_p (pre s) tid (set_p_fin (set_p_fw z (Some FOk)) h))
                                   (HT (TP tid)))) t = Some y) in H.
        rewrite pv_sched, pv_put_p in H. apply vget_vput in H.
        destruct H as [[_ H]|[E _]]; [|congruence]. now apply (Hsame s).
    + destruct (Nat.eq_dec tid t) as [->|Hn0].
      * exfalso. cbn [enabled op_enabled] in En. change (get_p (pre s) t) with (get_p s t) in En.
        rewrite Hx in En. destruct Hl as [H0|[H0|[H0|H0]]]; rewrite H0 in En; discriminate.
      * destruct (get_p (pre s) tid) as [z|]; [|now apply Hsame].
        intros H.
        change (vget (pview (sched (put_p (pre s) tid (set_p_fw z (Some FOk))) (HT (TP tid)))) t
                = Some y) in H.
        rewrite pv_sched, pv_put_p in H. apply vget_vput in H.
        destruct H as [[_ H]|[E _]]; [|congruence]. now apply (Hsame s).
Qed.
