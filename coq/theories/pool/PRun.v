(** Runs: [run] unfolds step by step; [cfg] is constant; the ghost taint flags are monotone (each
    is only ever set to [true]); induction principles over clean runs. *)
From TP Require Import PInv.

(** ** [N s0 s]: relative to [s0], [s] has the same configuration and at least the same taints *)
Definition N (s0 s : state) : Prop :=
  cfg s = cfg s0 /\
  (taint_self s0 = true -> taint_self s = true) /\
  (taint_iter s0 = true -> taint_iter s = true) /\
  (taint_size s0 = true -> taint_size s = true) /\
  (taint_unlock s0 = true -> taint_unlock s = true).

Lemma N_refl s : N s s.
Proof. unfold N. repeat split; auto. Qed.

Lemma N_sched s0 s h : N s0 s -> N s0 (sched s h).
Proof. intros H. unfold sched. destruct (is_ready s h); exact H. Qed.

Lemma N_fold {A} (f : state -> A -> state) s0 :
  (forall s x, N s0 s -> N s0 (f s x)) -> forall l s, N s0 s -> N s0 (fold_left f l s).
Proof. intros Hf. induction l as [|x l IH]; simpl; intros s H; auto. Qed.

Lemma N_sched_cbs s0 s r : N s0 s -> N s0 (sched_cbs s r).
Proof. intros H. unfold sched_cbs. apply N_fold; auto. intros; apply N_sched; auto. Qed.

Lemma N_put_p s0 s t x : N s0 s -> N s0 (put_p s t x).
Proof. exact (fun H => H). Qed.
Lemma N_put_m s0 s t x : N s0 s -> N s0 (put_m s t x).
Proof. exact (fun H => H). Qed.
Lemma N_put_d s0 s t x : N s0 s -> N s0 (put_d s t x).
Proof. exact (fun H => H). Qed.
Lemma N_set_ctl s0 s c : N s0 s -> N s0 (set_ctl s c).
Proof. exact (fun H => H). Qed.
Lemma N_emit s0 s e : N s0 s -> N s0 (emit s e).
Proof. exact (fun H => H). Qed.
Lemma N_set_res s0 s r : N s0 s -> N s0 (set_res s r).
Proof. exact (fun H => H). Qed.
Lemma N_set_groups s0 s r : N s0 s -> N s0 (set_groups s r).
Proof. exact (fun H => H). Qed.
Lemma N_set_start_calls s0 s r : N s0 s -> N s0 (set_start_calls s r).
Proof. exact (fun H => H). Qed.

Lemma N_taint_self s0 s : N s0 s -> N s0 (set_taint_self s true).
Proof. intros (a & b & c & d & e). unfold N; cbn. repeat split; auto. Qed.
Lemma N_taint_iter s0 s : N s0 s -> N s0 (set_taint_iter s true).
Proof. intros (a & b & c & d & e). unfold N; cbn. repeat split; auto. Qed.
Lemma N_taint_size s0 s : N s0 s -> N s0 (set_taint_size s true).
Proof. intros (a & b & c & d & e). unfold N; cbn. repeat split; auto. Qed.
Lemma N_taint_unlock s0 s : N s0 s -> N s0 (set_taint_unlock s true).
Proof. intros (a & b & c & d & e). unfold N; cbn. repeat split; auto. Qed.

(** ** semaphore *)
Lemma N_wake_next s0 s : N s0 s -> N s0 (wake_next s).
Proof.
  intros H. unfold wake_next. destruct (first_pending s (sem_waiters s)); auto.
  destruct (get_m s n); auto. apply N_sched. exact H.
Qed.

Lemma N_sem_release s0 s : N s0 s -> N s0 (sem_release s).
Proof. intros H. unfold sem_release. apply N_wake_next. exact H. Qed.

Lemma N_map_release s0 s m : N s0 s -> N s0 (map_release s m).
Proof.
  intros H. unfold map_release. destruct (get_m s m) as [x|]; auto.
  destruct (m_pc x); try exact H. destruct (m_fw x) as [[| | |]|]; try exact H.
  apply N_sched. exact H.
Qed.

(** ** pool tasks *)
Lemma N_finish_p s0 s t x : N s0 s -> N s0 (finish_p s t x).
Proof. intros H. unfold finish_p. apply N_set_ctl, N_sched_cbs, N_put_p. exact H. Qed.

Lemma N_suspend_p s0 s t x pc : N s0 s -> N s0 (suspend_p s t x pc).
Proof.
  intros H. unfold suspend_p. destruct (p_mc x).
  - apply N_set_ctl, N_sched, N_put_p. exact H.
  - exact H.
Qed.

Lemma N_moved s0 s1 t x :
  N s0 s1 ->
  N s0 (let s2 := set_t_ended s1 (dict_add (t_ended s1) t) in
     let s3 := sem_release s2 in
     let x := set_p_nrel x (S (p_nrel x)) in
     let s4 := if p_ismap x then map_release s3 (p_req x) else s3 in
     match p_ecb x with
     | CbNone => finish_p s4 t x
     | _ =>
        set_ctl (emit (put_p s4 t (set_p_pc (set_p_necb x (S (p_necb x))) PUEndCb))
                      (EvCbBegin KEnd t (classify s4 t)))
                (CUser (TP t))
     end).
Proof.
  intros H. cbv zeta.
  set (s3 := sem_release (set_t_ended s1 (dict_add (t_ended s1) t))).
  assert (H3 : N s0 s3) by (apply N_sem_release; exact H).
  set (x1 := set_p_nrel x (S (p_nrel x))).
  set (s4 := if p_ismap x1 then map_release s3 (p_req x1) else s3).
  assert (H4 : N s0 s4).
  { unfold s4. destruct (p_ismap x1); auto. apply N_map_release; auto. }
  clearbody s4. clear H3. clearbody s3.
  destruct (p_ecb x1).
  - apply N_finish_p; auto.
  - apply N_set_ctl, N_emit, N_put_p; auto.
  - apply N_set_ctl, N_emit, N_put_p; auto.
Qed.

Lemma N_enter_end s0 s t x : N s0 s -> N s0 (enter_end s t x).
Proof.
  intros H. unfold enter_end.
  destruct (mem t (t_running s)); [|destruct (mem t (t_cancelled s))].
  - apply N_moved. exact H.
  - apply N_moved. exact H.
  - apply N_finish_p; auto.
Qed.

Lemma N_enter_cancel s0 s t x : N s0 s -> N s0 (enter_cancel s t x).
Proof.
  intros H. unfold enter_cancel.
  destruct (mem t (t_running s)).
  - destruct (p_ccb x).
    + apply N_enter_end. exact H.
    + apply N_set_ctl, N_emit, N_put_p. exact H.
    + apply N_set_ctl, N_emit, N_put_p. exact H.
  - apply N_enter_end; auto.
Qed.

Lemma N_continue_p s0 s t : N s0 s -> N s0 (continue_p s t).
Proof.
  intros H. unfold continue_p.
  destruct (get_p s t) as [x|]; auto.
  destruct (p_pc x); auto.
  - destruct (w_first (p_w x)).
    + apply N_suspend_p; auto.
    + apply N_enter_end. exact H.
    + apply N_enter_end. exact H.
  - destruct (p_fin x); apply N_enter_end; exact H.
  - destruct (w_cancel (p_w x)); [apply N_enter_cancel|apply N_enter_end]; exact H.
  - destruct (p_ccb x) as [|r|slow r].
    + apply N_enter_end; auto.
    + apply N_enter_end; exact H.
    + destruct slow.
      * apply N_suspend_p; auto.
      * apply N_enter_end; exact H.
  - destruct (p_ecb x) as [|r|slow r].
    + apply N_finish_p; auto.
    + apply N_finish_p; exact H.
    + destruct slow.
      * apply N_suspend_p; auto.
      * apply N_finish_p; exact H.
Qed.

Lemma N_run_p s0 s t : N s0 s -> N s0 (run_p s t).
Proof.
  intros H. unfold run_p.
  destruct (get_p s t) as [x0|]; auto.
  set (x := set_p_mc (set_p_fw x0 None) false).
  destruct (p_pc x0); auto.
  - destruct (task_input (p_mc x0) (p_fw x0)).
    + destruct (p_unst x).
      * exact H.
      * exact H.
      * apply N_enter_cancel; auto.
    + apply N_finish_p; auto.
    + apply N_finish_p; auto.
  - destruct (task_input (p_mc x0) (p_fw x0)); exact H.
  - destruct (task_input (p_mc x0) (p_fw x0)); apply N_enter_end; exact H.
  - destruct (task_input (p_mc x0) (p_fw x0)); apply N_finish_p; exact H.
Qed.

(** ** spawners *)
Lemma N_finish_m s0 s m x e : N s0 s -> N s0 (finish_m s m x e).
Proof. intros H. unfold finish_m. apply N_set_ctl, N_sched_cbs, N_put_m. exact H. Qed.

Lemma N_suspend_m s0 s m x pc : N s0 s -> N s0 (suspend_m s m x pc).
Proof.
  intros H. unfold suspend_m. destruct (m_mc x).
  - apply N_set_ctl, N_sched, N_put_m. exact H.
  - exact H.
Qed.

Lemma N_to_iter s0 s m : N s0 s -> N s0 (to_iter s m).
Proof. intros H. unfold to_iter. destruct (get_m s m); exact H. Qed.

Lemma N_register s0 s m x : N s0 s -> N s0 (register s m x).
Proof. intros H. unfold register. apply N_put_m, N_sched. exact H. Qed.

Lemma N_apply_loop s0 rem : forall s m, N s0 s -> N s0 (apply_loop rem s m).
Proof.
  induction rem as [|r IH]; intros s m H; simpl.
  - destruct (get_m s m); auto. apply N_finish_m; auto.
  - destruct (get_m s m) as [x|]; auto.
    destruct (nth (m_idx x) (m_bad x) false).
    + apply IH. exact H.
    + unfold try_start. destruct (closed s).
      * apply N_finish_m; auto.
      * destruct (sem_locked s).
        -- apply N_suspend_m. exact H.
        -- apply IH. apply N_register. exact H.
Qed.

Lemma N_spawn_next s0 s m : N s0 s -> N s0 (spawn_next s m).
Proof.
  intros H. unfold spawn_next. destruct (get_m s m) as [x|]; auto.
  destruct (m_kind x); [apply N_apply_loop|apply N_to_iter|apply N_apply_loop]; auto.
Qed.

Lemma N_start_then_next s0 s m x : N s0 s -> N s0 (start_then_next s m x).
Proof.
  intros H. unfold start_then_next, try_start.
  destruct (closed s).
  - apply N_finish_m; auto.
  - destruct (sem_locked s).
    + apply N_suspend_m. exact H.
    + apply N_spawn_next, N_register. exact H.
Qed.

Lemma N_continue_m s0 s m : N s0 s -> N s0 (continue_m s m).
Proof.
  intros H. unfold continue_m. destruct (get_m s m) as [x|]; auto.
  destruct (m_pc x); auto.
  destruct (nth_error (m_els x) (m_idx x)) as [e|].
  - destruct (e_bad e).
    + apply N_to_iter. exact H.
    + destruct (m_mapval x).
      * apply N_suspend_m; auto.
      * apply N_start_then_next; auto.
  - apply N_finish_m; auto.
Qed.

Lemma N_run_m s0 s m : N s0 s -> N s0 (run_m s m).
Proof.
  intros H. unfold run_m. destruct (get_m s m) as [x0|]; auto.
  destruct (m_pc x0); auto.
  - destruct (task_input (m_mc x0) (m_fw x0)).
    + apply N_spawn_next. exact H.
    + apply N_finish_m; auto.
    + apply N_finish_m; auto.
  - destruct (task_input (m_mc x0) (m_fw x0)).
    + apply N_start_then_next; auto.
    + apply N_finish_m; auto.
    + apply N_finish_m; auto.
  - set (x := set_m_mc (set_m_fw x0 None) false).
    set (s1 := put_m (set_sem_waiters s (remove1 m (sem_waiters s))) m x).
    assert (H1 : N s0 s1) by exact H.
    clearbody s1.
    destruct (task_input (m_mc x0) (m_fw x0)).
    + apply N_spawn_next, N_register.
      destruct (ninf_pos (sem_value s1)); auto. apply N_wake_next; auto.
    + apply N_finish_m.
      destruct (match m_fw x0 with Some FCancelled => true | _ => false end); auto.
      apply N_sem_release; auto.
    + apply N_finish_m.
      destruct (match m_fw x0 with Some FCancelled => true | _ => false end); auto.
      apply N_sem_release; auto.
Qed.

(** ** drivers *)
Lemma N_finish_d s0 s d x e : N s0 s -> N s0 (finish_d s d x e).
Proof. exact (fun H => H). Qed.

Lemma N_wake_closed s0 l : forall s, N s0 s -> N s0 (wake_closed s l).
Proof.
  induction l as [|d l IH]; simpl; intros s H; auto.
  apply IH. destruct (get_d s d) as [x|]; auto.
  destruct (fut_pending (d_fw x)); auto. apply N_sched. exact H.
Qed.

Lemma N_after_g2 s0 s d x outer : N s0 s -> N s0 (after_g2 s d x outer).
Proof.
  intros H. unfold after_g2.
  destruct outer; try exact H; (destruct (d_kind x); [exact H| |exact H]);
    apply N_finish_d, N_wake_closed; exact H.
Qed.

Lemma N_start_g2 s0 s d x cs re : N s0 s -> N s0 (start_g2 s d x cs re).
Proof.
  intros H. unfold start_g2. destruct (make_gather s (map TP cs) re) as [g outer].
  destruct outer; try (apply N_after_g2; exact H). exact H.
Qed.

Lemma N_after_g1 s0 s d x outer : N s0 s -> N s0 (after_g1 s d x outer).
Proof.
  intros H. unfold after_g1. destruct (d_kind x) as [re|re|].
  - destruct outer as [| |[]|]; try exact H; apply N_start_g2; exact H.
  - destruct (if re then None else first_exception s
        (match d_g1 x with Some g => g_children g | None => [] end)).
    + exact H.
    + apply N_start_g2; exact H.
  - exact H.
Qed.

Lemma N_start_g1 s0 s d x cs re : N s0 s -> N s0 (start_g1 s d x cs re).
Proof.
  intros H. unfold start_g1. destruct (make_gather s (map TM cs) re) as [g outer].
  destruct outer; try (apply N_after_g1; exact H). exact H.
Qed.

Lemma N_run_d s0 s d : N s0 s -> N s0 (run_d s d).
Proof.
  intros H. unfold run_d. destruct (get_d s d) as [x0|]; auto.
  destruct (d_pc x0); auto.
  - cbn [d_kind set_d_fw]. destruct (d_kind x0) as [re|re|].
    + destruct (pop_ended s (gmeta s)) as [gm ended]. apply N_start_g1. exact H.
    + apply N_start_g1. exact H.
    + destruct (closed s); exact H.
  - apply N_after_g1; auto.
  - apply N_after_g2; auto.
Qed.

Lemma N_run_g s0 s d c : N s0 s -> N s0 (run_g s d c).
Proof.
  intros H. unfold run_g. destruct (get_d s d) as [x|]; auto.
  destruct (tref_final s c) as [o|]; auto.
  destruct (match c with TM _ => true | _ => false end);
    (match goal with |- N s0 (match ?g with Some _ => _ | None => _ end) =>
       destruct g as [g0|]; auto end;
     match goal with |- N s0 (match ?f with Some _ => _ | None => _ end) =>
       destruct f as [[| | |]|]; try exact H end;
     match goal with |- N s0 (let '(_, _) := ?p in _) => destruct p as [nfin outer] end;
     destruct outer; try exact H; apply N_sched; exact H).
Qed.

(** ** operations *)
Lemma N_know s0 s g : N s0 s -> N s0 (know s g).
Proof. intros H. unfold know. destruct (existsb (gname_eqb g) (known s)); exact H. Qed.

Lemma N_cancel_m s0 s m : N s0 s -> N s0 (cancel_m s m).
Proof.
  intros H. unfold cancel_m. destruct (get_m s m) as [x|]; auto.
  destruct (m_final x); auto.
  set (s1 := if is_current s (TM m) then set_taint_iter s true else s).
  assert (H1 : N s0 s1)
    by (unfold s1; destruct (is_current s (TM m)); [apply N_taint_iter|]; exact H).
  clearbody s1.
  destruct (fut_pending (m_fw x)); [apply N_sched|]; exact H1.
Qed.

Lemma N_cancel_p s0 s t : N s0 s -> N s0 (cancel_p s t).
Proof.
  intros H. unfold cancel_p. destruct (get_p s t) as [x|]; auto.
  destruct (p_unst x); try exact H.
  destruct (p_final x); auto.
  set (s1 := if is_current s (TP t) && final_segment x then set_taint_self s true else s).
  assert (H1 : N s0 s1)
    by (unfold s1; destruct (is_current s (TP t) && final_segment x);
        [apply N_taint_self|]; exact H).
  clearbody s1.
  destruct (fut_pending (p_fw x)); [apply N_sched|]; exact H1.
Qed.

Lemma N_do_cancel s0 s ids : N s0 s -> N s0 (do_cancel s ids).
Proof.
  intros H. unfold do_cancel. destruct (first_lookup_err s ids); [exact H|].
  apply N_fold; auto. intros; apply N_cancel_p; auto.
Qed.

Lemma N_cancel_group_metas s0 s g : N s0 s -> N s0 (cancel_group_metas s g).
Proof.
  intros H. unfold cancel_group_metas. destruct (glookup g (gmeta s)) as [ms|]; auto.
  match goal with |- N s0 (set_meta_cancelled ?s' _) => change (N s0 s') end.
  apply N_fold; [intros; apply N_cancel_m; auto|]. exact H.
Qed.

Lemma N_cancel_group_body s0 s g ids : N s0 s -> N s0 (cancel_group_body s g ids).
Proof.
  intros H. unfold cancel_group_body. apply N_fold.
  - intros s' t H'. destruct (mem t (t_running s')); auto. apply N_cancel_p; auto.
  - change (N s0 (cancel_group_metas s g)). apply N_cancel_group_metas; auto.
Qed.

Lemma N_cancel_all_groups s0 gs : forall s, N s0 s -> N s0 (cancel_all_groups s gs).
Proof.
  induction gs as [|[g ids] gs IH]; simpl; intros s H; auto.
  apply IH. apply N_cancel_group_body; auto.
Qed.

Lemma N_new_meta s0 s x : N s0 s -> N s0 (new_meta s x).
Proof. intros H. unfold new_meta. apply N_sched. exact H. Qed.

Lemma N_do_op s0 s o : N s0 s -> N s0 (do_op s o).
Proof.
  intros H. destruct o; unfold do_op; cbv zeta.
  - set (s1 := match g with Some g0 => know s g0 | None => s end).
    assert (H1 : N s0 s1) by (unfold s1; destruct g; [apply N_know|]; exact H).
    clearbody s1.
    destruct (check_start s1 noncoro); [exact H1|].
    match goal with |- N s0 (if ?c then _ else _) => destruct c end; [exact H1|].
    apply N_set_res, N_new_meta, N_set_groups, N_know; exact H1.
  - set (s1 := match g with Some g0 => know s g0 | None => s end).
    assert (H1 : N s0 s1) by (unfold s1; destruct g; [apply N_know|]; exact H).
    clearbody s1.
    destruct (check_start s1 noncoro); [exact H1|].
    destruct (nc =? 0); [exact H1|].
    match goal with |- N s0 (if ?c then _ else _) => destruct c end; [exact H1|].
    apply N_set_res, N_new_meta, N_set_groups, N_know; exact H1.
  - destruct (check_start s false); [exact H|].
    apply N_set_res, N_new_meta, N_set_groups, N_set_start_calls, N_know; exact H.
  - apply N_do_cancel; auto.
  - pose proof (N_know s0 s g H) as H1.
    destruct (glookup g (groups (know s g))); [|exact H1].
    apply N_cancel_group_body. exact H1.
  - apply N_cancel_all_groups. exact H.
  - match goal with |- N s0 (match res ?s' with _ => _ end) =>
      assert (H1 : N s0 s') by (apply N_do_cancel; exact H); destruct (res s'); exact H1 end.
  - match goal with |- N s0 (match res ?s' with _ => _ end) =>
      assert (H1 : N s0 s') by (apply N_do_cancel; exact H); destruct (res s'); exact H1 end.
  - exact H.
  - destruct (0 <? n_gac s).
    + change (N s0 (set_taint_unlock s true)). apply N_taint_unlock. exact H.
    + exact H.
  - destruct v as [v|]; [|exact H].
    apply N_taint_size. exact H.
  - match goal with |- N s0 (set_res ?s' _) => change (N s0 s') end.
    apply N_fold; auto. intros; apply N_know; auto.
  - apply N_sched. destruct k; exact H.
  - destruct (get_p s tid) as [x|]; [|exact H]. apply N_sched. exact H.
  - destruct (get_p s tid) as [x|]; [|exact H]. apply N_sched. exact H.
Qed.

Lemma N_step s l : N s (step s l).
Proof.
  pose proof (N_refl s) as H0. revert H0. generalize s at 1 3 as s0. intros s0 H0.
  unfold step.
  set (s1 := set_res (set_evs s []) RNone).
  assert (H : N s0 s1) by exact H0.
  clearbody s1. clear H0.
  destruct (negb (enabled s1 l)); [exact H|].
  destruct l as [h| |o].
  - assert (H2 : N s0 (unsched s1 h)) by exact H.
    destruct h as [[t|m|d]|d c]; simpl run_handle.
    + apply N_run_p; auto.
    + apply N_run_m; auto.
    + apply N_run_d; auto.
    + apply N_run_g; auto.
  - destruct (ctl s1) as [|[t|m|d]]; auto.
    + apply N_continue_p; auto.
    + apply N_continue_m; auto.
  - apply N_do_op; auto.
Qed.

(** ** The deliverables *)
Lemma run_snoc : forall c tr l, run c (tr ++ [l]) = step (run c tr) l.
Proof. intros c tr l. unfold run. rewrite fold_left_app. reflexivity. Qed.

Lemma run_app c tr1 tr2 : run c (tr1 ++ tr2) = fold_left step tr2 (run c tr1).
Proof. unfold run. apply fold_left_app. Qed.

Lemma cfg_step : forall s l, cfg (step s l) = cfg s.
Proof. intros s l. apply (N_step s l). Qed.

Lemma cfg_run : forall c tr, cfg (run c tr) = c.
Proof.
  intros c tr. induction tr as [|l tr IH] using rev_ind; [reflexivity|].
  rewrite run_snoc, cfg_step. exact IH.
Qed.

Lemma not_true_false b : (b = true -> False) -> b = false.
Proof. destruct b; auto. intros H; exfalso; auto. Qed.

Lemma taint_mono (f : state -> bool) s s' : (f s = true -> f s' = true) -> f s' = false -> f s = false.
Proof. intros H Hf. destruct (f s); auto. rewrite H in Hf; auto. Qed.

Lemma clean_step_inv' : forall s l, clean (step s l) -> clean s.
Proof.
  unfold clean. intros s l. apply (taint_mono taint_unlock). apply (N_step s l).
Qed.

Lemma taint_size_step_inv : forall s l, taint_size (step s l) = false -> taint_size s = false.
Proof. intros s l. apply (taint_mono taint_size). apply (N_step s l). Qed.

Lemma taint_self_step_inv' : forall s l, taint_self (step s l) = false -> taint_self s = false.
Proof. intros s l. apply (taint_mono taint_self). apply (N_step s l). Qed.

Lemma taint_iter_step_inv : forall s l, taint_iter (step s l) = false -> taint_iter s = false.
Proof. intros s l. apply (taint_mono taint_iter). apply (N_step s l). Qed.

Lemma clean_fold_inv tr : forall s, clean (fold_left step tr s) -> clean s.
Proof.
  induction tr as [|l tr IH]; simpl; intros s H; auto.
  apply IH in H. eapply clean_step_inv'; eauto.
Qed.

Lemma clean_run_prefix : forall c tr1 tr2, clean (run c (tr1 ++ tr2)) -> clean (run c tr1).
Proof. intros c tr1 tr2 H. rewrite run_app in H. eapply clean_fold_inv; eauto. Qed.

(** the same for the other flags along a run *)
Lemma taint_fold_inv (f : state -> bool) :
  (forall s l, f (step s l) = false -> f s = false) ->
  forall tr s, f (fold_left step tr s) = false -> f s = false.
Proof.
  intros Hf. induction tr as [|l tr IH]; simpl; intros s H; auto.
  apply IH in H. eapply Hf; eauto.
Qed.

Lemma taint_size_run_prefix c tr1 tr2 :
  taint_size (run c (tr1 ++ tr2)) = false -> taint_size (run c tr1) = false.
Proof. rewrite run_app. apply (taint_fold_inv taint_size taint_size_step_inv). Qed.
Lemma taint_self_run_prefix c tr1 tr2 :
  taint_self (run c (tr1 ++ tr2)) = false -> taint_self (run c tr1) = false.
Proof. rewrite run_app. apply (taint_fold_inv taint_self taint_self_step_inv'). Qed.
Lemma taint_iter_run_prefix c tr1 tr2 :
  taint_iter (run c (tr1 ++ tr2)) = false -> taint_iter (run c tr1) = false.
Proof. rewrite run_app. apply (taint_fold_inv taint_iter taint_iter_step_inv). Qed.

Theorem inv_run : forall (P : state -> Prop),
  (forall c, P (init c)) ->
  (forall s l, P s -> clean (step s l) -> P (step s l)) ->
  forall c tr, clean (run c tr) -> P (run c tr).
Proof.
  intros P Hi Hs c tr. induction tr as [|l tr IH] using rev_ind; intros Hc.
  - apply Hi.
  - rewrite run_snoc in *. apply Hs; auto. apply IH. eapply clean_step_inv'; eauto.
Qed.

Theorem inv_run_step : forall (P : state -> Prop) (Q : state -> label -> Prop),
  (forall c, P (init c)) ->
  (forall s l, P s -> clean (step s l) -> P (step s l)) ->
  (forall s l, P s -> clean (step s l) -> Q s l) ->
  forall c tr l, clean (run c (tr ++ [l])) -> Q (run c tr) l.
Proof.
  intros P Q Hi Hs HQ c tr l Hc. rewrite run_snoc in Hc.
  apply HQ; auto. apply inv_run; auto. eapply clean_step_inv'; eauto.
Qed.
