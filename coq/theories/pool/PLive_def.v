(** Eventual completion (liveness under a cooperative environment) — definitions.

    A *cooperative* label is an internal move of the event loop ([LRun h], [LGo]) or one of the two
    harness gates by which user code finishes what it has begun: [LOp (OpFinish t how)] (the worker
    of task [t], suspended at its gate, returns or raises) and [LOp (OpReleaseCb t)] (the slow async
    end / cancel callback of task [t] completes).  A cooperative environment issues no new request,
    no cancellation, no lock / unlock, no size change, no flush.

    A *cooperative run* from [s] is a list of cooperative labels each of which is enabled in the
    state where it fires (same shape as [internal_run]).

    [at_rest] is the predicate of PRest.v — literally the hypothesis of [C04_complete_at_rest]:
    the loop is idle, no handle is ready, no task is inside a callback, no task is filed as
    running.  It does not mention drivers (an [until_closed()] caller on a pool that is never
    closed legitimately waits for ever) nor spawners (that they are finished is a *consequence*,
    [C04_nothing_stranded], when the pool size is not 0).

    The termination measure [mu2 = mu + 2 * psi] extends the measure [mu] of the progress theorem
    by the number [psi] of gate openings the environment may still be asked for:

      - a pool task counts the number of suspensions on a harness gate that are still ahead of it
        on the longest path of the wrapper (worker gate, slow cancel callback, slow end callback:
        3 for a task that has not passed its worker's first line, ... 0 once it is done), where a
        gate it is currently waiting at counts only while the future is still pending;
      - a spawner pre-pays 3 for each task it may still create ([Rm] remaining iterations; while
        it is suspended inside an iteration the task of that iteration is counted apart, so that
        truncated subtraction does the case [Rm = 0] and no invariant is needed).

    Opening a gate makes one handle ready ([mu] grows by 1) and takes one unit from [psi]; an
    internal move takes at least 1 from [mu] and never increases [psi]. *)
From TP Require Export PLive_pot PRest.

Unset Implicit Arguments.

Definition coop (l : label) : bool :=
  match l with
  | LRun _ | LGo => true
  | LOp (OpFinish _ _) | LOp (OpReleaseCb _) => true
  | LOp _ => false
  end.

(** The k-th label of [tr] is cooperative and enabled in the state reached by the first k labels. *)
Definition coop_run (s : state) (tr : list label) : Prop :=
  forall k l, nth_error tr k = Some l ->
    coop l = true /\ enabled (fold_left step (firstn k tr) s) l = true.

(** The same, by recursion on the trace (equivalence: [coop_run_crun], PLive_run.v). *)
Fixpoint crun (s : state) (tr : list label) : Prop :=
  match tr with
  | [] => True
  | l :: tr' => coop l = true /\ enabled s l = true /\ crun (step s l) tr'
  end.

(** no cooperative label is enabled *)
Definition stuck (s : state) : Prop := forall l, coop l = true -> enabled s l = false.
