(** Drivers: run_d. *)
From Coq Require Import Permutation.
From TP Require Export PInv_G_C3.

Definition gath_ok (X : dtask) : Prop :=
  (forall g, d_g1 X = Some g ->
     (forall c, In c (g_cb g) -> In c (g_children g)) /\
     (forall c, In c (g_children g) -> exists m, c = TM m)) /\
  (forall g, d_g2 X = Some g ->
     (forall c, In c (g_cb g) -> In c (g_children g)) /\
     (forall c, In c (g_children g) -> exists t, c = TP t)).

Lemma gath_ok_of s d x : INV s -> get_d s d = Some x -> gath_ok x.
Proof.
  intros [_ [_ X]] H. split; intros g E.
  - eapply (X_gath1 _ X); eauto.
  - eapply (X_gath2 _ X); eauto.
Qed.

Lemma finish_d_INV s0 d x0 X exc :
  INV s0 -> get_d s0 d = Some x0 -> d_kind X = d_kind x0 ->
  (forall c, hg_child x0 c -> hg_child X c) -> gath_ok X ->
  ~ In d (closed_waiters s0) ->
  INV (finish_d s0 d X exc).
Proof.
  intros I Hx Ek Hhg [GA1 GA2] Hcw. unfold finish_d.
  eapply put_d_emit_INV; eauto; [|tauto].
  destruct I as [M [G X']].
  constructor; cbn; try discriminate; auto.
  - intros c Hc. split; [eapply (IG_hg _ G); eauto|].
    destruct (X_hg _ X' d c Hc) as [y [Hy Hch]]. rewrite Hx in Hy. inversion Hy; subst y.
    apply Hhg in Hch. destruct c; cbn in *; auto.
  - intros re E. rewrite Ek in E. eapply (IG_ngac _ G); eauto.
Qed.

(** flush forgets the tasks it gathered *)
Lemma INV_forget s0 (e' c' : list nat) n :
  INV s0 -> (forall t, In t e' -> In t (t_ended s0)) -> (forall t, In t c' -> In t (t_cancelled s0)) ->
  INV (set_n_forgotten (set_t_cancelled (set_t_ended s0 e') c') n).
Proof.
  intros I He Hc. apply (pres_small s0); auto; try reflexivity.
  - intros t. unfold regs. cbn. rewrite !in_app_iff. intuition.
  - destruct I as [M _]. destruct M; constructor; assumption.
Qed.

(** gather_and_close closes the pool *)
Definition close_regs (s0 : state) (n : nat) : state :=
  set_closed (set_n_forgotten (set_t_running (set_t_cancelled (set_t_ended s0 []) []) []) n) true.

Lemma INV_close s0 n :
  INV s0 -> (forall m y, get_m s0 m = Some y -> m_final y = None -> m_dead y = true) ->
  (forall m, ctl s0 <> CUser (TM m)) ->
  INV (close_regs s0 n).
Proof.
  intros [M [G X]] HD HC. unfold close_regs.
  apply INV_of_Dcl.
  - destruct M; constructor; assumption.
  - exact (X_dead _ X).
  - intros d x Hx. change (get_d s0 d = Some x) in Hx.
    apply (Dcl_transfer s0 _ d x (Dcl_of s0 d x G X Hx)); try reflexivity.
    + intros t [].
    + intros k H; exact H.
  - intros d c H. destruct (X_hg _ X d c H) as [x [Hx _]]. eauto.
  - reflexivity.
  - intros _. exact HC.
  - intros _. exact HD.
  - apply (X_cwnd _ X).
  - apply (X_cw _ X).
Qed.

(** waking the until_closed waiters *)
Lemma Dcl_set_fw s0 d x f :
  Dcl s0 d x -> d_pc x = DWaitClosed -> Dcl s0 d (set_d_fw x f).
Proof.
  intros D P. constructor; cbn; try (rewrite P; discriminate);
    try (intros; rewrite P in *; discriminate).
  - apply (D_hg _ _ _ D).
  - apply (D_ngac _ _ _ D).
  - apply (D_gath1 _ _ _ D).
  - apply (D_gath2 _ _ _ D).
Qed.

Lemma wake_closed_ok ds : forall s0,
  INV s0 -> (forall d, In d ds -> In d (closed_waiters s0)) ->
  INV (wake_closed s0 ds) /\ vP (wake_closed s0 ds) = vP s0 /\
  ctl (wake_closed s0 ds) = ctl s0 /\
  length (dtasks (wake_closed s0 ds)) = length (dtasks s0) /\
  (forall d c, In (HG d c) (ready (wake_closed s0 ds)) <-> In (HG d c) (ready s0)) /\
  (forall d x, get_d s0 d = Some x -> d_pc x <> DWaitClosed -> get_d (wake_closed s0 ds) d = Some x).
Proof.
  induction ds as [|d t IH]; simpl; intros s0 I Hin.
  - split; [exact I|]. split; [reflexivity|]. split; [reflexivity|]. split; [reflexivity|].
    split; [intros; tauto|auto].
  - set (s1 := match get_d s0 d with
               | Some x => if fut_pending (d_fw x)
                           then sched (put_d s0 d (set_d_fw x (Some FOk))) (HT (TD d)) else s0
               | None => s0 end).
    assert (K : INV s1 /\ vP s1 = vP s0 /\ ctl s1 = ctl s0 /\
                length (dtasks s1) = length (dtasks s0) /\
                (forall d' c, In (HG d' c) (ready s1) <-> In (HG d' c) (ready s0)) /\
                (forall d' x, get_d s0 d' = Some x -> d_pc x <> DWaitClosed -> get_d s1 d' = Some x)).
    { assert (K0 : INV s0 /\ vP s0 = vP s0 /\ ctl s0 = ctl s0 /\
                length (dtasks s0) = length (dtasks s0) /\
                (forall d' c, In (HG d' c) (ready s0) <-> In (HG d' c) (ready s0)) /\
                (forall d' x, get_d s0 d' = Some x -> d_pc x <> DWaitClosed -> get_d s0 d' = Some x)).
      { split; [exact I|]. split; [reflexivity|]. split; [reflexivity|]. split; [reflexivity|].
        split; [intros; tauto|auto]. }
      subst s1. destruct (get_d s0 d) as [x|] eqn:Hx; [|exact K0].
      destruct (fut_pending (d_fw x)); [|exact K0]. clear K0.
      destruct I as [M [G X]].
      destruct (X_cw _ X d (Hin d (or_introl eq_refl))) as [y [Hy Hp]].
      rewrite Hx in Hy. inversion Hy; subst y.
      destruct (sched_form (put_d s0 d (set_d_fw x (Some FOk))) (HT (TD d))) as [l EL].
      pose proof (sched_ready_In (put_d s0 d (set_d_fw x (Some FOk))) (HT (TD d))) as HS.
      split; [|rewrite EL in *; split; [reflexivity|split; [reflexivity|split; [|split]]]].
      - apply (put_d_sched_INV s0 d x (set_d_fw x (Some FOk)) (conj M (conj G X)) Hx).
        + apply Dcl_set_fw; auto. apply Dcl_of; auto.
        + intros _. exact Hp.
      - cbn. apply upd_length.
      - intros d' c. cbn [ready set_ready] in HS. rewrite HS.
        split; auto. intros [H|H]; auto. discriminate.
      - intros d' x' Hx' Hp'.
        change (get_d (set_ready (put_d s0 d (set_d_fw x (Some FOk))) l) d')
          with (get_d (put_d s0 d (set_d_fw x (Some FOk))) d').
        rewrite get_d_put_d. destruct (Nat.eqb_spec d d') as [->|]; auto. congruence. }
    destruct K as [I1 [V1 [C1 [L1 [R1 G1]]]]].
    destruct (vP_inv _ _ V1) as [_ [_ [_ [_ [_ [_ [_ [_ Ecw]]]]]]]].
    destruct (IH s1 I1) as [I2 [V2 [C2 [L2 [R2 G2]]]]].
    { intros d' H. rewrite Ecw. auto. }
    split; auto. split; [congruence|]. split; [congruence|]. split; [congruence|]. split.
    + intros d' c. rewrite R2. apply R1.
    + intros d' x Hx Hp. apply G2; auto.
Qed.

(** *** the stages of a driver *)
Record dctx (s0 : state) (d : nat) (x0 X : dtask) : Prop := {
  c_inv : INV s0;
  c_get : get_d s0 d = Some x0;
  c_kind : d_kind X = d_kind x0;
  c_hgm : forall c, hg_child x0 c -> hg_child X c;
  c_gath : gath_ok X;
  c_cw : ~ In d (closed_waiters s0);
  c_ctl : ctl s0 = CIdle;
  c_pc : d_pc x0 <> DWaitClosed;
  c_nd : NoDup (regs s0)
}.

Definition all_dead (s0 : state) : Prop :=
  forall m y, get_m s0 m = Some y -> m_final y = None -> m_dead y = true.

Lemma after_g2_INV s0 d x0 X outer :
  dctx s0 d x0 X ->
  (forall re, d_kind x0 = DGatherClose re -> all_dead s0) ->
  INV (after_g2 s0 d X outer).
Proof.
  intros [I Hx Ek Hhg Hga Hcw Hctl Hpc Hnd] HDEAD. unfold after_g2.
  assert (FIN : forall exc, INV (finish_d s0 d X exc)) by (intros; eapply finish_d_INV; eauto).
  destruct outer; auto.
  - (* FPending *)
    destruct (d_kind X) eqn:K; auto; try (eapply finish_d_INV; eauto; congruence).
    + apply (finish_d_INV _ d x0 X None); auto; try congruence.
      apply INV_forget; auto; intros t Ht; apply filter_In in Ht; tauto.
    + set (n := length (t_ended s0) + length (t_cancelled s0) + length (t_running s0)).
      fold (close_regs s0 (n_forgotten s0 + n)).
      assert (I1 : INV (close_regs s0 (n_forgotten s0 + n))).
      { apply INV_close; auto. apply (HDEAD re). congruence. rewrite Hctl. discriminate. }
      destruct (wake_closed_ok (closed_waiters (close_regs s0 (n_forgotten s0 + n))) _ I1)
        as [I2 [V2 [C2 [L2 [R2 G2]]]]]; [auto|].
      destruct (vP_inv _ _ V2) as [_ [_ [_ [_ [_ [_ [_ [_ Ecw]]]]]]]].
      apply (finish_d_INV _ d x0 X None); auto; try congruence.
      rewrite Ecw. exact Hcw.
  - (* FOk *)
    destruct (d_kind X) eqn:K; auto; try (eapply finish_d_INV; eauto; congruence).
    + apply (finish_d_INV _ d x0 X None); auto; try congruence.
      apply INV_forget; auto; intros t Ht; apply filter_In in Ht; tauto.
    + set (n := length (t_ended s0) + length (t_cancelled s0) + length (t_running s0)).
      fold (close_regs s0 (n_forgotten s0 + n)).
      assert (I1 : INV (close_regs s0 (n_forgotten s0 + n))).
      { apply INV_close; auto. apply (HDEAD re). congruence. rewrite Hctl. discriminate. }
      destruct (wake_closed_ok (closed_waiters (close_regs s0 (n_forgotten s0 + n))) _ I1)
        as [I2 [V2 [C2 [L2 [R2 G2]]]]]; [auto|].
      destruct (vP_inv _ _ V2) as [_ [_ [_ [_ [_ [_ [_ [_ Ecw]]]]]]]].
      apply (finish_d_INV _ d x0 X None); auto; try congruence.
      rewrite Ecw. exact Hcw.
Qed.

Lemma NoDup_map_TP cs : NoDup cs -> NoDup (map TP cs).
Proof. apply NoDup_map_inj. intros x y H. inversion H; auto. Qed.

Lemma NoDup_map_TM cs : NoDup cs -> NoDup (map TM cs).
Proof. apply NoDup_map_inj. intros x y H. inversion H; auto. Qed.

Lemma start_g2_INV s0 d x0 X cs re :
  dctx s0 d x0 X -> d_g2 x0 = None -> NoDup cs ->
  (forall re', d_kind x0 = DGatherClose re' ->
     locked s0 = true /\ all_dead s0 /\ (forall t, In t (regs s0) -> In t cs)) ->
  INV (start_g2 s0 d X cs re).
Proof.
  intros C G2N Hnd HGC. pose proof C as [I Hx Ek Hhg Hga Hcw Hctl Hpc Hndr].
  unfold start_g2. destruct (make_gather s0 (map TP cs) re) as [g outer] eqn:MG.
  destruct (make_gather_spec _ _ _ _ _ MG) as [A [B [Cb [D [E F]]]]].
  set (X2 := set_d_snap (set_d_g2 X (Some g)) cs).
  assert (NOHG : forall t, ~ In (HG d (TP t)) (ready s0)).
  { intros t H. destruct I as [_ [_ X']]. destruct (X_hg _ X' d (TP t) H) as [y [Hy [g0 [Eg _]]]].
    rewrite Hx in Hy. inversion Hy; subst y. congruence. }
  assert (GA2 : gath_ok X2).
  { destruct Hga as [G1 G2]. split; [exact G1|]. subst X2. cbn. intros g0 E0. inversion E0; subst g0.
    split.
    - intros c Hc. apply Cb in Hc. rewrite A. tauto.
    - rewrite A. intros c Hc. apply in_map_iff in Hc. destruct Hc as [t [<- _]]. eauto. }
  assert (HG2 : forall c, hg_child x0 c -> hg_child X2 c).
  { intros c Hc. pose proof (Hhg c Hc) as Hc'. destruct c; cbn in *; auto.
    destruct Hc as [g0 [E0 _]]. congruence. }
  assert (C2 : dctx s0 d x0 X2).
  { constructor; auto. }
  assert (AFT : INV (after_g2 s0 d X2 outer)).
  { apply (after_g2_INV s0 d x0 X2 outer C2). intros re' K. apply (HGC re' K). }
  destruct outer; auto.
  (* pending *)
  apply (put_d_INV s0 d x0); auto; [|intros H; contradiction].
  destruct I as [M [G X']]. destruct Hga as [G1 G2].
  constructor; cbn; try discriminate; auto.
  - intros _ _ g0 E0. inversion E0; subst g0. eapply gather_ok_new; eauto.
    + apply NoDup_map_TP; auto.
    + intros c Hc. apply in_map_iff in Hc. destruct Hc as [t [<- _]]. apply NOHG.
  - intros _. exists g. split; auto.
  - intros c Hc. split; [eapply (IG_hg _ G); eauto|].
    destruct (X_hg _ X' d c Hc) as [y [Hy Hch]]. rewrite Hx in Hy. inversion Hy; subst y.
    apply HG2 in Hch. exact Hch.
  - intros re' K. rewrite Ek in K. eapply (IG_ngac _ G); eauto.
  - intros re' K _. rewrite Ek in K. destruct (HGC re' K) as [L [Dd R]]. auto.
  - intros re' _ _ m. rewrite Hctl. discriminate.
  - destruct GA2 as [_ GA2]. apply GA2.
Qed.

Lemma regs_parts s0 : NoDup (regs s0) ->
  NoDup (t_ended s0) /\ NoDup (t_ended s0 ++ t_cancelled s0 ++ t_running s0).
Proof.
  unfold regs. intros H. split.
  - apply NoDup_app_iff in H. destruct H as [_ [H _]]. apply NoDup_app_iff in H. tauto.
  - eapply Permutation_NoDup; [|exact H].
    eapply Permutation_trans; [apply Permutation_app_comm|].
    rewrite (app_assoc (t_ended s0)). apply Permutation_app_tail. apply Permutation_app_comm.
Qed.

Lemma after_g1_INV s0 d x0 X outer :
  dctx s0 d x0 X -> d_g2 x0 = None ->
  (forall re', d_kind x0 = DGatherClose re' -> locked s0 = true /\ all_dead s0) ->
  INV (after_g1 s0 d X outer).
Proof.
  intros C G2N HGC. pose proof C as [I Hx Ek Hhg Hga Hcw Hctl Hpc Hndr].
  destruct (regs_parts _ Hndr) as [N1 N2].
  unfold after_g1.
  assert (FIN : forall exc, INV (finish_d s0 d X exc)) by (intros; eapply finish_d_INV; eauto).
  destruct (d_kind X) eqn:K; auto.
  - (* flush *)
    assert (GO : INV (start_g2 (set_meta_cancelled s0 []) d X
                   (dict_merge (t_ended (set_meta_cancelled s0 [])) (t_cancelled (set_meta_cancelled s0 []))) re)).
    { apply (start_g2_INV _ d x0 X); auto.
      - constructor; auto; try congruence. apply INV_clear_mc; auto.
      - unfold dict_merge. apply fold_dict_add_NoDup. exact N1.
      - intros re' K'. congruence. }
    destruct outer as [| |e|]; auto. destruct e; auto.
  - (* gather_and_close *)
    destruct (if re then None else first_exception s0 match d_g1 X with Some g => g_children g | None => [] end); auto.
    destruct (HGC re) as [L Dd]; [congruence|].
    apply (start_g2_INV _ d x0 X); auto.
    + constructor; auto; try congruence. apply INV_clear_gmeta; auto.
    + intros re' K'. split; [exact L|split; [exact Dd|]].
      intros t. unfold regs. cbn. rewrite !in_app_iff. tauto.
Qed.

Lemma start_g1_INV s0 d x0 X cs re :
  dctx s0 d x0 X -> d_g1 x0 = None -> d_g2 x0 = None -> d_g2 X = None -> NoDup cs ->
  (forall re', d_kind x0 = DGatherClose re' ->
     re = true /\ locked s0 = true /\
     (forall m y, get_m s0 m = Some y -> m_final y = None -> m_dead y = false -> In m cs)) ->
  INV (start_g1 s0 d X cs re).
Proof.
  intros C G1N G2N G2X Hnd HGC. pose proof C as [I Hx Ek Hhg Hga Hcw Hctl Hpc Hndr].
  unfold start_g1. destruct (make_gather s0 (map TM cs) re) as [g outer] eqn:MG.
  destruct (make_gather_spec _ _ _ _ _ MG) as [A [B [Cb [D [E F]]]]].
  set (X1 := set_d_g1 X (Some g)).
  assert (NOHG : forall c, ~ In (HG d c) (ready s0)).
  { intros c H. destruct I as [_ [_ X']]. destruct (X_hg _ X' d c H) as [y [Hy Hch]].
    rewrite Hx in Hy. inversion Hy; subst y. destruct c; cbn in Hch; auto;
      destruct Hch as [g0 [Eg _]]; congruence. }
  assert (GA1 : gath_ok X1).
  { destruct Hga as [G1 G2]. split; [|exact G2]. subst X1. cbn. intros g0 E0. inversion E0; subst g0.
    split.
    - intros c Hc. apply Cb in Hc. rewrite A. tauto.
    - rewrite A. intros c Hc. apply in_map_iff in Hc. destruct Hc as [t [<- _]]. eauto. }
  assert (HG1 : forall c, hg_child x0 c -> hg_child X1 c).
  { intros c Hc. destruct c; cbn in *; auto; destruct Hc as [g0 [E0 _]]; congruence. }
  assert (C1 : dctx s0 d x0 X1) by (constructor; auto).
  assert (AFT : outer <> FPending -> INV (after_g1 s0 d X1 outer)).
  { intros NP. apply (after_g1_INV s0 d x0 X1 outer C1 G2N). intros re' K.
    destruct (HGC re' K) as [Re [L Hin]]. split; auto.
    intros m y Hy Hf. destruct (m_dead y) eqn:Dd; auto. exfalso.
    destruct (F Re) as [->| ->]; [congruence|].
    assert (Hd : tref_done s0 (TM m) = true).
    { apply E; auto. apply in_map. eapply Hin; eauto. }
    rewrite (tref_done_get_m _ _ _ Hy), Hf in Hd. discriminate. }
  destruct outer; try (apply AFT; discriminate).
  (* pending *)
  apply (put_d_INV s0 d x0); auto; [|intros H; contradiction].
  destruct I as [M [G X']]. destruct Hga as [G1 G2].
  constructor; cbn; try discriminate; auto.
  - intros _ _ g0 E0. inversion E0; subst g0. eapply gather_ok_new; eauto.
    + apply NoDup_map_TM; auto.
  - intros c Hc. destruct (NOHG c Hc).
  - intros re' g0 K _ E0. inversion E0; subst g0. rewrite Ek in K.
    destruct (HGC re' K) as [Re [L Hin]]. split; auto.
    intros m y Hy Hf Hd. rewrite A. apply in_map. eapply Hin; eauto.
  - intros re' K. rewrite Ek in K. eapply (IG_ngac _ G); eauto.
  - intros re' K _. rewrite Ek in K. destruct (HGC re' K) as [Re [L Hin]]. split; auto.
    intros g0 E0. inversion E0; subst g0. congruence.
  - destruct GA1 as [GA1 _]. apply GA1.
Qed.

Lemma INV_cw_remove s0 d : INV s0 -> INV (set_closed_waiters s0 (remove1 d (closed_waiters s0))).
Proof.
  intros [M [G X]]. split; [|split].
  - destruct M; constructor; assumption.
  - destruct G; constructor; assumption.
  - constructor; try (destruct X; assumption).
    + cbn. apply NoDup_remove1. apply (X_cwnd _ X).
    + cbn [closed_waiters set_closed_waiters]. intros d' H. apply In_remove1 in H.
      apply (X_cw _ X d' H).
Qed.

Lemma step_run_d s d :
  WF s -> Extra_G s -> ctl s = CIdle -> In (HT (TD d)) (ready s) ->
  INV (run_d (unsched s (HT (TD d))) d).
Proof.
  intros W X Hctl Hrd. set (s0 := unsched s (HT (TD d))).
  assert (I0 : INV s0) by (apply (pres_relA s s0 W X); apply unsched_ht_relA).
  unfold run_d. destruct (get_d s0 d) as [x0|] eqn:Hx; [|exact I0].
  change (get_d s d = Some x0) in Hx.
  set (Xr := set_d_fw x0 None).
  assert (Hnd : NoDup (regs s0)) by apply (I1_nodup _ (wf1 _ W)).
  assert (GA : gath_ok Xr) by (apply (gath_ok_of s0 d x0 I0); exact Hx).
  assert (CTX : d_pc x0 <> DWaitClosed -> dctx s0 d x0 Xr).
  { intros Hpc. constructor; auto.
    intros H. destruct (X_cw _ X d H) as [y [Hy Hp]]. rewrite Hx in Hy. inversion Hy; subst y. auto. }
  pose proof (wfg _ W) as G. pose proof (wfm _ W) as M.
  destruct (d_pc x0) eqn:PC.
  - (* DNotStarted *)
    destruct (X_none1 _ X d x0 Hx PC) as [G1N G2N].
    assert (C : dctx s0 d x0 Xr) by (apply CTX; discriminate).
    change (d_kind Xr) with (d_kind x0). destruct (d_kind x0) eqn:K.
    + destruct (pop_ended s0 (gmeta s0)) as [gm ended] eqn:PE.
      assert (Egm : gm = fst (pop_ended s0 (gmeta s0))) by (rewrite PE; reflexivity).
      assert (Een : ended = filter (is_done_m s0) (gvals (gmeta s0))).
      { rewrite <- pop_ended_snd, PE. reflexivity. }
      apply (start_g1_INV _ d x0 Xr); auto.
      * destruct C. constructor; auto. subst gm. apply INV_pop_ended; auto.
      * subst ended. apply NoDup_app_filter. apply (IM_nodup _ M).
      * intros re' K'. congruence.
    + apply (start_g1_INV _ d x0 Xr); auto.
      * destruct C. constructor; auto. apply INV_set_locked; auto.
      * apply (IM_nodup _ M).
      * intros re' _. split; [reflexivity|split; [reflexivity|]].
        intros m y Hy Hf Hd. change (get_m s m = Some y) in Hy.
        destruct (IM_reg _ M m y Hy Hf Hd) as [ms [Hl Hin]].
        apply in_or_app. right. eapply glookup_In_gvals; eauto.
    + destruct (closed s0) eqn:CL.
      * destruct C. eapply finish_d_INV; eauto.
      * assert (NCW : ~ In d (closed_waiters s)).
        { intros H. destruct (X_cw _ X d H) as [y [Hy Hp]]. rewrite Hx in Hy. inversion Hy; subst y. congruence. }
        assert (LT : Nat.ltb d (length (dtasks s)) = true).
        { apply Nat.ltb_lt. unfold get_d in Hx. eapply nth_error_lt; eauto. }
        set (X' := set_d_fw (set_d_pc Xr DWaitClosed) (Some FPending)).
        assert (GD : forall d', get_d (set_ctl (put_d (set_closed_waiters s0 (closed_waiters s0 ++ [d])) d X') CIdle) d'
                       = if Nat.eqb d d' then Some X' else get_d s d').
        { intros d'. change (get_d (set_ctl (put_d (set_closed_waiters s0 (closed_waiters s0 ++ [d])) d X') CIdle) d')
            with (get_d (put_d (set_closed_waiters s0 (closed_waiters s0 ++ [d])) d X') d').
          rewrite get_d_put_d.
          change (length (dtasks (set_closed_waiters s0 (closed_waiters s0 ++ [d])))) with (length (dtasks s)).
          rewrite LT. reflexivity. }
        apply (driver_frame s0 _ d I0); try reflexivity.
        -- intros d' Hne. rewrite GD. destruct (Nat.eqb_spec d d'); [congruence|reflexivity].
        -- intros c H. exact H.
        -- intros k H. discriminate H.
        -- cbn. apply NoDup_app_iff. repeat split.
           ++ apply (X_cwnd _ X).
           ++ constructor; [simpl; tauto|constructor].
           ++ intros y Hy [<-|[]]. auto.
        -- intros d'. cbn [closed_waiters set_ctl put_d set_dtasks set_closed_waiters].
           rewrite in_app_iff. intros [H|[<-|[]]]; rewrite GD.
           ++ destruct (X_cw _ X d' H) as [y [Hy Hp]].
              destruct (Nat.eqb_spec d d') as [->|]; [tauto|eauto].
           ++ rewrite Nat.eqb_refl. exists X'. split; reflexivity.
        -- intros y. rewrite GD, Nat.eqb_refl. intros E; inversion E; subst y.
           constructor; cbn; try discriminate; auto.
           ++ intros c Hc. change (In (HG d c) (ready s0)) in Hc.
              destruct I0 as [_ [_ X0]]. destruct (X_hg _ X0 d c Hc) as [y [Hy Hch]].
              change (get_d s d = Some y) in Hy. rewrite Hx in Hy. inversion Hy; subst y.
              destruct c; cbn in Hch; try contradiction; destruct Hch as [g0 [E0 _]]; congruence.
           ++ intros re' K'. eapply (IG_ngac _ G); eauto.
           ++ rewrite G1N. discriminate.
           ++ rewrite G2N. discriminate.
        -- intros c _. rewrite GD, Nat.eqb_refl. eauto.
  - (* DWaitG1 *)
    assert (C : dctx s0 d x0 Xr) by (apply CTX; discriminate).
    apply (after_g1_INV s0 d x0 Xr _ C (X_none2 _ X d x0 Hx PC)).
    intros re K.
    destruct (d_g1 x0) as [g|] eqn:Eg; [|destruct (IG_has1 _ G d x0 Hx PC Eg)].
    destruct (IG_gac1 _ G d x0 re g Hx K PC Eg) as [L Hin].
    split; [exact L|].
    destruct (X_gac1 _ X d x0 re Hx K PC) as [FW _].
    assert (FOK : d_fw x0 = Some FOk).
    { destruct FW as [FW|FW]; auto. exfalso.
      apply (I5_d _ (wf5 _ W) d x0 Hx) in Hrd. destruct Hrd as [H|[_ H]]; congruence. }
    intros m y Hy Hf. change (get_m s m = Some y) in Hy.
    destruct (m_dead y) eqn:Dd; auto. exfalso.
    pose proof (IG_ok1 _ G d x0 g Hx PC FOK Eg (TM m) (Hin m y Hy Hf Dd)) as Hd.
    rewrite (tref_done_get_m _ _ _ Hy), Hf in Hd. discriminate.
  - (* DWaitG2 *)
    assert (C : dctx s0 d x0 Xr) by (apply CTX; discriminate).
    apply (after_g2_INV s0 d x0 Xr _ C).
    intros re K. destruct (IG_gac2 _ G d x0 re Hx K PC) as [_ [B _]]. exact B.
  - (* DWaitClosed *)
    apply (finish_d_INV _ d x0 Xr None); auto.
    + apply INV_cw_remove; auto.
    + cbn. apply NoDup_remove1_notin. apply (X_cwnd _ X).
  - exact I0.
Qed.
