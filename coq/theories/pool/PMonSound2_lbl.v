(** Monitor soundness for C02 / C03 — the tracker side of [on_label] and of one whole
    [mon_step]. *)
From TP Require Import PMon PMonSound_trk PMonSound2_def PMonSound2_trk PMonSound2_op.

Definition lbl_extra (c : config) (o : obs) : list rimm :=
  if o_enabled o then
    match o_label o with LOp op => extra_imm c op (o_res o) | _ => [] end
  else [].

Definition lblsame (c : config) (o : obs) (k k' : trk) : Prop :=
  aview_of k' = aview_of k /\ k_prev k' = k_prev k /\
  map imm_req (k_reqs k') = map imm_req (k_reqs k) ++ lbl_extra c o /\
  incl (k_target k) (k_target k').

Lemma incl_app_r_self {A} (l l' : list A) : incl l (l' ++ l).
Proof. intros x H. apply in_or_app. auto. Qed.

Lemma target_props k ids :
  aview_of (target k ids) = aview_of k /\ k_prev (target k ids) = k_prev k /\
  k_reqs (target k ids) = k_reqs k /\ k_target (target k ids) = ids ++ k_target k.
Proof. unfold target, aview_of; cbn. auto. Qed.

Lemma on_label_same c k o : lblsame c o k (fst (on_label c k o)).
Proof.
  unfold lblsame, lbl_extra, on_label. destruct (o_enabled o); simpl negb; cbv iota.
  2:{ simpl. rewrite app_nil_r. repeat split; auto; try apply incl_refl. }
  assert (Hrefl : aview_of k = aview_of k /\ k_prev k = k_prev k /\
                  map imm_req (k_reqs k) = map imm_req (k_reqs k) ++ [] /\
                  incl (k_target k) (k_target k))
    by (rewrite app_nil_r; repeat split; auto; apply incl_refl).
  destruct (o_label o) as [h| |op]; try exact Hrefl.
  destruct op; unfold extra_imm; cbn [spawn_imm].
  - unfold on_spawn. destruct (o_res o); cbn [fst is_rname]; try exact Hrefl.
    unfold new_req, aview_of; cbn. rewrite map_app. repeat split; auto; try apply incl_refl.
  - unfold on_spawn. destruct (o_res o); cbn [fst is_rname]; try exact Hrefl.
    unfold new_req, aview_of; cbn. rewrite map_app. repeat split; auto; try apply incl_refl.
  - unfold on_spawn. destruct (o_res o); cbn [fst is_rname]; try exact Hrefl.
    unfold new_req, aview_of; cbn. rewrite map_app. repeat split; auto; try apply incl_refl.
  - destruct (o_res o); cbn [fst]; try exact Hrefl.
    destruct (target_props k ids) as (A & B & C & D). rewrite A, B, C, D, app_nil_r.
    repeat split; auto; try apply incl_app_r_self.
  - destruct (o_res o); cbn [fst]; try exact Hrefl.
    match goal with |- context [target ?k' ?ids] =>
      destruct (target_props k' ids) as (A & B & C & D); rewrite A, B, C, D end.
    rewrite app_nil_r. unfold kill_group, aview_of; cbn. rewrite map_map.
    repeat split; auto.
    + apply map_ext. intros x. destruct (gname_eqb g (r_group x)); reflexivity.
    + apply incl_app_r_self.
  - cbn [fst].
    match goal with |- context [target ?k' ?ids] =>
      destruct (target_props k' ids) as (A & B & C & D); rewrite A, B, C, D end.
    rewrite app_nil_r. unfold kill_all, aview_of; cbn. rewrite map_map.
    repeat split; auto; try apply incl_app_r_self.
  - destruct (o_res o); cbn [fst]; try exact Hrefl.
    destruct (target_props k l) as (A & B & C & D). rewrite A, B, C, D, app_nil_r.
    repeat split; auto; try apply incl_app_r_self.
  - destruct (o_res o); cbn [fst]; try exact Hrefl.
    destruct (target_props k l) as (A & B & C & D). rewrite A, B, C, D, app_nil_r.
    repeat split; auto; try apply incl_app_r_self.
  - exact Hrefl.
  - exact Hrefl.
  - destruct v; cbn [fst]; try exact Hrefl;
      unfold aview_of; cbn; rewrite app_nil_r; repeat split; auto; try apply incl_refl.
  - exact Hrefl.
  - destruct k0; cbn [fst]; try exact Hrefl;
      unfold aview_of; cbn; rewrite app_nil_r; repeat split; auto; try apply incl_refl.
  - destruct h; cbn [fst]; try exact Hrefl;
      unfold aview_of; cbn; rewrite app_nil_r; repeat split; auto; try apply incl_refl.
  - exact Hrefl.
Qed.

(** no clause of property 2 or 3 comes from [on_label] *)
Definition p23 (f : clause -> bool) : Prop :=
  forall cl, f cl = true -> clause_prop cl = 2 \/ clause_prop cl = 3.

Ltac ncf23 Hf :=
  repeat first
    [ apply NCf_nil
    | apply NCf_app
    | apply NCf_fails; let H := fresh in intros H; apply Hf in H; destruct H as [H|H]; discriminate H
    | apply NCf_one; match goal with |- ?f ?c = false =>
        let E := fresh in destruct (f c) eqn:E; [apply Hf in E; destruct E as [E|E]; discriminate E|reflexivity] end
    | apply NCf_filter_sub ].

Lemma NCf_on_spawn f k o first noncoro nc_bad g meth mk :
  p23 f -> NCf f (snd (on_spawn k o first noncoro nc_bad g meth mk)).
Proof. intros Hf. unfold on_spawn. destruct (o_res o); cbn [snd]; ncf23 Hf. Qed.

Lemma NCf_on_label f c k o : p23 f -> NCf f (snd (on_label c k o)).
Proof.
  intros Hf. unfold on_label. destruct (negb (o_enabled o)); [apply NCf_nil|].
  destruct (o_label o) as [h| |op]; try apply NCf_nil.
  destruct op; try (cbn [snd]; ncf23 Hf; fail).
  - apply NCf_on_spawn; auto.
  - apply NCf_on_spawn; auto.
  - match goal with |- context [on_spawn ?a1 ?a2 ?a3 ?a4 ?a5 ?a6 ?a7 ?a8] =>
      pose proof (NCf_on_spawn f a1 a2 a3 a4 a5 a6 a7 a8 Hf) as Hs;
      destruct (on_spawn a1 a2 a3 a4 a5 a6 a7 a8) as [k1 cs] end.
    simpl in Hs. destruct (o_res o); cbn [snd]; auto. ncf23 Hf. exact Hs.
  - destruct (o_res o); cbn [snd]; ncf23 Hf.
  - destruct (o_res o); cbn [snd]; ncf23 Hf.
  - destruct (o_res o); cbn [snd]; ncf23 Hf.
  - destruct (o_res o); cbn [snd]; ncf23 Hf.
  - destruct v; cbn [snd]; ncf23 Hf.
Qed.

Lemma p23_p2 : p23 is_p2.
Proof. intros cl H. left. apply Nat.eqb_eq. exact H. Qed.
Lemma p23_p3 : p23 is_p3.
Proof. intros cl H. right. apply Nat.eqb_eq. exact H. Qed.
Lemma p23_p3' : p23 is_p3'.
Proof. intros cl H. unfold is_p3' in H. apply andb_true_iff in H. apply p23_p3. tauto. Qed.
Lemma p23_cls : p23 is_cls.
Proof. intros cl H. right. destruct cl; try discriminate H; reflexivity. Qed.

(** ** the state clauses of properties 2 and 3 *)
Definition c02_part (k : trk) (o : obs) : list clause :=
  fails (negb (quiet k o) || Nat.eqb (o_nr o) (length (k_live k))) C02_idle_running_in_flight
  ++ fails (negb (quiet k o) || Nat.eqb (o_nc o) 0) C02_idle_none_cancelled
  ++ fails (negb (quiet k o) ||
            forallb (fun t => match req_of k t with
                              | Some (_, _, x) => cb_is_none (r_ecb x) || mem t (k_ecb k)
                              | None => true end) (k_exited k)) C02_end_cb_by_idle.

Definition c03_part (k : trk) (o : obs) : list clause :=
  fails (match k_prev k with
         | Some p =>
             Nat.leb (o_nr p + o_nc p + o_ne p) (o_nr o + o_nc o + o_ne o)
             || existsb (fun e => match e with EvDriverDone _ _ => true | _ => false end)
                        (o_events o)
         | None => true end) C03_forget_only_by_flush.

Lemma state_clauses_23 c k o :
  exists pre rest,
    state_clauses c k o = pre ++ c02_part k o ++ c03_part k o ++ rest /\
    (forall f, p23 f -> NCf f pre) /\ (forall f, p23 f -> NCf f rest).
Proof.
  unfold state_clauses, c02_part, c03_part. cbv zeta.
  match goal with |- exists pre rest, ?X0 ++ ?f1 ++ ?f2 ++ ?f3 ++ ?f4 ++ ?R = _ /\ _ =>
    exists X0, R end.
  split.
  - rewrite <- !app_assoc. reflexivity.
  - split; intros f Hf.
    + destruct (negb (k_setsize k)); ncf23 Hf.
    + ncf23 Hf.
      * apply NCf_flat_map. intros [r x]. destruct (r_kind x); ncf23 Hf;
          try (destruct (group_ids o (r_group x)); ncf23 Hf; destruct (r_dead x); ncf23 Hf).
      * destruct (k_setsize k); ncf23 Hf.
Qed.

Lemma NCf_c02_p3 k o : NCf is_p3 (c02_part k o).
Proof. unfold c02_part. ncf. Qed.
Lemma NCf_c03_p2 k o : NCf is_p2 (c03_part k o).
Proof. unfold c03_part. ncf. Qed.

(** ** one monitor step *)
Lemma filter_app_nil {A} (f : A -> bool) a b : filter f a = [] -> filter f (a ++ b) = filter f b.
Proof. intros H. rewrite filter_app, H. reflexivity. Qed.

Definition nrs1 (k : trk) (e : event) : trk :=
  match e with
  | EvStart t _ _ =>
      match req_of k t with
      | Some (_, el, x) =>
          let w := match r_kind x with
                   | MMap _ => match nth_error (r_els x) el with Some e => e_w e | None => r_w x end
                   | _ => r_w x end in
          match w_first w with
          | WRaise => set_k_raised k ((t, SWorker) :: k_raised k)
          | _ => k
          end
      | None => k
      end
  | _ => k
  end.

Lemma nrs_fold k es : note_raising_starts k es = fold_left nrs1 es k.
Proof. reflexivity. Qed.

Lemma nrs1_same k e : aview_of (nrs1 k e) = aview_of k /\ same_rest k (nrs1 k e).
Proof.
  unfold nrs1. destruct e; try (split; [reflexivity|apply same_rest_refl]).
  destruct (req_of k tid) as [[[r0 el0] x0]|]; try (split; [reflexivity|apply same_rest_refl]).
  cbv zeta. destruct (w_first _); split; try reflexivity; try apply same_rest_refl.
  unfold same_rest; cbn; auto.
Qed.

Lemma nrs_same es : forall k,
  aview_of (note_raising_starts k es) = aview_of k /\ same_rest k (note_raising_starts k es).
Proof.
  induction es as [|e es IH]; intros k; rewrite nrs_fold; simpl.
  - split; [reflexivity|apply same_rest_refl].
  - rewrite <- nrs_fold. destruct (IH (nrs1 k e)) as [A B]. destruct (nrs1_same k e) as [C D].
    split; [congruence|]. eapply same_rest_trans; eauto.
Qed.

Lemma mon_step_23 c k o :
  let k1 := fst (on_label c k o) in
  let RI := map imm_req (k_reqs k1) in
  let r := avrun RI (k_target k1) (o_events o) (aview_of k1) in
  exists kk,
    aview_of kk = fst (fst r) /\ same_rest k1 kk /\
    aview_of (fst (mon_step c k o)) = aview_of kk /\
    map imm_req (k_reqs (fst (mon_step c k o))) = RI /\
    k_target (fst (mon_step c k o)) = k_target k1 /\
    k_prev (fst (mon_step c k o)) = Some o /\
    (snd (fst r) = true ->
     filter is_p2 (snd (mon_step c k o)) = filter is_p2 (c02_part kk o)) /\
    (snd r = true -> Forall class_ok (o_events o) ->
     filter is_p3 (snd (mon_step c k o)) = filter is_p3 (c03_part kk o)).
Proof.
  cbv zeta. unfold mon_step.
  pose proof (NCf_on_label is_p2 c k o p23_p2) as L2.
  pose proof (NCf_on_label is_p3 c k o p23_p3) as L3.
  destruct (on_label c k o) as [k1 c1]. simpl fst in *. simpl snd in *.
  pose proof (on_events_sound (o_events o) k1 o) as E. cbv zeta in E.
  destruct E as (E1 & E2 & E3 & E4 & E5).
  destruct (on_events k1 o (o_events o)) as [k2 c2]. simpl fst in *. simpl snd in *.
  set (k3 := note_raising_starts k2 (o_events o)) in *.
  assert (N : aview_of k3 = aview_of k2 /\ same_rest k2 k3) by (apply nrs_same).
  destruct N as [N1 N2].
  exists (set_k_nids k3 (k_nids k)).
  assert (SR : same_rest k1 (set_k_nids k3 (k_nids k))).
  { eapply same_rest_trans; [exact E2|]. eapply same_rest_trans; [exact N2|].
    unfold same_rest; cbn; auto. }
  split; [|split; [exact SR|]].
  { change (aview_of k3 = fst (fst (avrun (map imm_req (k_reqs k1)) (k_target k1) (o_events o) (aview_of k1)))).
    rewrite N1. exact E1. }
  destruct SR as (S1 & S2 & S3).
  split; [reflexivity|]. split; [exact S1|]. split; [exact S2|]. split; [reflexivity|].
  destruct (state_clauses_23 c (set_k_nids k3 (k_nids k)) o) as (pre & rest & Hs & Hpre & Hrest).
  simpl snd. rewrite Hs. split.
  - intros Ha. specialize (E3 Ha).
    rewrite (filter_app_nil is_p2 c1) by (apply NCf_filter_nil; exact L2).
    rewrite (filter_app_nil is_p2 c2) by (apply NCf_filter_nil; exact E3).
    rewrite (filter_app_nil is_p2 pre) by (apply NCf_filter_nil, Hpre, p23_p2).
    rewrite !filter_app.
    rewrite (NCf_filter_nil is_p2 (c03_part _ o)) by apply NCf_c03_p2.
    rewrite (NCf_filter_nil is_p2 rest) by (apply Hrest, p23_p2).
    rewrite app_nil_r. reflexivity.
  - intros Hb Hcls. specialize (E4 Hb). specialize (E5 Hcls).
    assert (E45 : NCf is_p3 c2).
    { intros cl Hin. destruct (is_cls cl) eqn:Hc.
      - pose proof (E5 cl Hin). congruence.
      - pose proof (E4 cl Hin) as H4. unfold is_p3' in H4. rewrite Hc in H4.
        rewrite andb_true_r in H4. exact H4. }
    rewrite (filter_app_nil is_p3 c1) by (apply NCf_filter_nil; exact L3).
    rewrite (filter_app_nil is_p3 c2) by (apply NCf_filter_nil; exact E45).
    rewrite (filter_app_nil is_p3 pre) by (apply NCf_filter_nil, Hpre, p23_p3).
    rewrite (filter_app_nil is_p3 (c02_part _ o)) by (apply NCf_filter_nil, NCf_c02_p3).
    rewrite filter_app.
    rewrite (NCf_filter_nil is_p3 rest) by (apply Hrest, p23_p3).
    rewrite app_nil_r. reflexivity.
Qed.
