(** M1 — the properties C01..C15 as ONE monitor over public observations.

    [mon_step] folds a *tracker* (pure bookkeeping derived from labels, results and events) over
    the observation stream and returns the clauses violated by each observation; [ok_Cxx] = no
    clause of property Cxx is ever violated.  The same extracted functions are evaluated on the
    model's stream (theorems) and on the implementation's stream (search oracle).  Nothing here
    mentions the model's internal state. *)
From TP Require Export PObs.

Inductive clause :=
(* C01 *) | C01_bound_running | C01_bound_live | C01_inf_not_full | C01_full_iff
(* C02 *) | C02_idle_running_in_flight | C02_idle_none_cancelled | C02_end_cb_once
          | C02_end_cb_by_idle
(* C03 *) | C03_cancel_counts | C03_end_counts | C03_cancel_once | C03_end_once
          | C03_cancel_before_end | C03_cancel_iff | C03_after_exit | C03_cb_completes
          | C03_forget_only_by_flush
(* C04 *) | C04_at_most_num | C04_args | C04_idle_progress
(* C05 *) | C05_pull_consecutive | C05_lazy | C05_elem | C05_bound | C05_work_conserving
(* C06 *) | C06_delivered | C06_no_spurious | C06_error_class | C06_nothing_on_error
(* C07 *) | C07_forgotten | C07_no_late_start | C07_no_late_pull | C07_unknown_no_change
(* C08 *) | C08_no_live | C08_empty | C08_requests_complete | C08_returns_normally
          | C08_until_not_early | C08_until_released | C08_closed_after
(* C09 *) | C09_no_trace | C09_error_class | C09_lock_state
(* C10 *) | C10_partition | C10_member | C10_name_fresh | C10_get_ids
(* C11 *) | C11_dense | C11_cb_id
(* C12 *) | C12_provenance | C12_re_never_raises | C12_no_cancelled_driver
(* C13 *) | C13_not_forgotten_live | C13_forgotten_finished | C13_inflight_kept
          | C13_re_never_raises
(* C14 *) | C14_count | C14_lifo | C14_most_recent
(* C15 *) | C15_getter_eq_max | C15_limit_enforced | C15_increase_wakes | C15_negative_rejected.

Definition clause_prop (c : clause) : nat :=
  match c with
  | C01_bound_running | C01_bound_live | C01_inf_not_full | C01_full_iff => 1
  | C02_idle_running_in_flight | C02_idle_none_cancelled | C02_end_cb_once
  | C02_end_cb_by_idle => 2
  | C03_cancel_counts | C03_end_counts | C03_cancel_once | C03_end_once | C03_cancel_before_end
  | C03_cancel_iff | C03_after_exit | C03_cb_completes | C03_forget_only_by_flush => 3
  | C04_at_most_num | C04_args | C04_idle_progress => 4
  | C05_pull_consecutive | C05_lazy | C05_elem | C05_bound | C05_work_conserving => 5
  | C06_delivered | C06_no_spurious | C06_error_class | C06_nothing_on_error => 6
  | C07_forgotten | C07_no_late_start | C07_no_late_pull | C07_unknown_no_change => 7
  | C08_no_live | C08_empty | C08_requests_complete | C08_returns_normally
  | C08_until_not_early | C08_until_released | C08_closed_after => 8
  | C09_no_trace | C09_error_class | C09_lock_state => 9
  | C10_partition | C10_member | C10_name_fresh | C10_get_ids => 10
  | C11_dense | C11_cb_id => 11
  | C12_provenance | C12_re_never_raises | C12_no_cancelled_driver => 12
  | C13_not_forgotten_live | C13_forgotten_finished | C13_inflight_kept
  | C13_re_never_raises => 13
  | C14_count | C14_lifo | C14_most_recent => 14
  | C15_getter_eq_max | C15_limit_enforced | C15_increase_wakes | C15_negative_rejected => 15
  end.

(** ** The tracker *)
Record req := {
  r_kind : mkind; r_num : nat; r_bad : list bool; r_els : list elem; r_nc : nat; r_w : wspec;
  r_ecb : cbspec; r_ccb : cbspec; r_group : gname;
  r_dead : bool;            (* its group was cancelled *)
  r_started : list nat;     (* element / invocation indices of the workers started so far *)
  r_pulls : nat;            (* number of times the argument iterator was advanced *)
  r_before_gac : bool       (* accepted before the first gather_and_close request *)
}.

(** [v_quiet]: the pool was at a quiet idle point when the driver was requested (then every task
    filed as ended had finished); [v_ne]: [k_etotal] at that moment. *)
Record drv := { v_kind : dkind; v_done : option outcome; v_quiet : bool; v_ne : nat }.

Record trk := {
  k_reqs : list req;
  k_task : list (nat * (nat * nat));   (* tid -> (request, element) — from EvStart *)
  k_live : list nat;                   (* workers started and not exited *)
  k_exited : list nat;
  k_cancelled : list nat;              (* workers that observed CancelledError *)
  k_cbs : list (nat * cbkind);         (* callbacks in flight *)
  k_ccb : list nat;                    (* tids whose cancel callback began *)
  k_ccd : list nat;                    (* ... completed *)
  k_ecb : list nat;                    (* tids whose end callback began *)
  k_target : list nat;                 (* tids targeted by an accepted cancellation *)
  k_expect : list nat;                 (* live workers that must observe CancelledError next *)
  k_raised : list (nat * site);        (* user exceptions raised so far *)
  k_nids : nat;                        (* number of distinct task ids seen: they are 0..n-1 *)
  k_drvs : list drv;
  k_gac_req : bool;                    (* a gather_and_close was requested *)
  k_closed : bool;                     (* a gather_and_close completed normally *)
  k_nstart : nat;                      (* accepted start() calls *)
  k_size : ninf;                       (* configured maximum (C15) *)
  k_setsize : bool;                    (* pool_size was assigned *)
  k_etotal : nat;                      (* cumulative number of tasks that entered 'ended' *)
  k_prev : option obs                  (* the previous observation *)
}.

Definition trk_init (c : config) : trk :=
  {| k_reqs := []; k_task := []; k_live := []; k_exited := []; k_cancelled := []; k_cbs := [];
     k_ccb := []; k_ccd := []; k_ecb := []; k_target := []; k_expect := []; k_raised := [];
     k_nids := 0; k_drvs := []; k_gac_req := false; k_closed := false; k_nstart := 0;
     k_size := cf_size c; k_setsize := false; k_etotal := 0; k_prev := None |}.

(** ** helpers *)
Fixpoint assoc {A} (n : nat) (l : list (nat * A)) : option A :=
  match l with
  | [] => None
  | (k, v) :: t => if Nat.eqb n k then Some v else assoc n t
  end.

Definition cbk_eqb (a b : cbkind) : bool :=
  match a, b with KEnd, KEnd | KCancel, KCancel => true | _, _ => false end.

Definition has_cb (l : list (nat * cbkind)) (t : nat) (k : cbkind) : bool :=
  existsb (fun p => Nat.eqb (fst p) t && cbk_eqb (snd p) k) l.

Definition del_cb (l : list (nat * cbkind)) (t : nat) (k : cbkind) : list (nat * cbkind) :=
  filter (fun p => negb (Nat.eqb (fst p) t && cbk_eqb (snd p) k)) l.

Fixpoint glook {A} (g : gname) (l : list (gname * A)) : option A :=
  match l with
  | [] => None
  | (h, v) :: t => if gname_eqb g h then Some v else glook g t
  end.

(** ids of group [g] in an observation: [None] = unknown to the observer or not found *)
Definition group_ids (o : obs) (g : gname) : option (list nat) :=
  match glook g (o_groups o) with Some (Some ids) => Some ids | _ => None end.

Definition group_live (o : obs) (g : gname) : bool :=
  match group_ids o g with Some _ => true | None => false end.

Definition all_ids (o : obs) : list nat :=
  flat_map (fun p => match snd p with Some ids => ids | None => [] end) (o_groups o).

Definition quiet (k : trk) (o : obs) : bool :=
  match o_ctl o with OIdle => o_ready_empty o && match k_cbs k with [] => true | _ => false end
                | _ => false end.

Definition cb_is_none (c : cbspec) : bool := match c with CbNone => true | _ => false end.

Definition upd_req (k : trk) (r : nat) (f : req -> req) : list req :=
  match nth_error (k_reqs k) r with
  | Some x => upd (k_reqs k) r (f x)
  | None => k_reqs k
  end.

Definition req_of (k : trk) (t : nat) : option (nat * nat * req) :=
  match assoc t (k_task k) with
  | Some (r, el) => match nth_error (k_reqs k) r with Some x => Some (r, el, x) | None => None end
  | None => None
  end.

Definition count_bad (els : list elem) (n : nat) : nat := count e_bad (firstn n els).

Definition live_of_req (k : trk) (r : nat) : nat :=
  count (fun t => match assoc t (k_task k) with Some (r', _) => Nat.eqb r r' | None => false end)
        (k_live k).

Definition is_map_kind (m : mkind) : bool := match m with MMap _ => true | _ => false end.

(** one task per invocation index below [num] whose call does not raise *)
Definition expected_created (x : req) : nat := ngood (r_bad x) (r_num x).

(** with-setters for [trk] (written out; the record is small enough) *)
Definition k_with (k : trk) reqs task live exited cancelled cbs ccb ccd ecb target expect raised
           nids drvs : trk :=
  {| k_reqs := reqs; k_task := task; k_live := live; k_exited := exited;
     k_cancelled := cancelled; k_cbs := cbs; k_ccb := ccb; k_ccd := ccd; k_ecb := ecb;
     k_target := target; k_expect := expect; k_raised := raised; k_nids := nids; k_drvs := drvs;
     k_gac_req := k_gac_req k; k_closed := k_closed k; k_nstart := k_nstart k;
     k_size := k_size k; k_setsize := k_setsize k; k_etotal := k_etotal k; k_prev := k_prev k |}.

Definition set_k_reqs k v := k_with k v (k_task k) (k_live k) (k_exited k) (k_cancelled k)
  (k_cbs k) (k_ccb k) (k_ccd k) (k_ecb k) (k_target k) (k_expect k) (k_raised k) (k_nids k)
  (k_drvs k).
Definition set_k_target k v := k_with k (k_reqs k) (k_task k) (k_live k) (k_exited k)
  (k_cancelled k) (k_cbs k) (k_ccb k) (k_ccd k) (k_ecb k) v (k_expect k) (k_raised k) (k_nids k)
  (k_drvs k).
Definition set_k_expect k v := k_with k (k_reqs k) (k_task k) (k_live k) (k_exited k)
  (k_cancelled k) (k_cbs k) (k_ccb k) (k_ccd k) (k_ecb k) (k_target k) v (k_raised k) (k_nids k)
  (k_drvs k).
Definition set_k_raised k v := k_with k (k_reqs k) (k_task k) (k_live k) (k_exited k)
  (k_cancelled k) (k_cbs k) (k_ccb k) (k_ccd k) (k_ecb k) (k_target k) (k_expect k) v (k_nids k)
  (k_drvs k).
Definition set_k_nids k v := k_with k (k_reqs k) (k_task k) (k_live k) (k_exited k)
  (k_cancelled k) (k_cbs k) (k_ccb k) (k_ccd k) (k_ecb k) (k_target k) (k_expect k) (k_raised k) v
  (k_drvs k).
Definition set_k_drvs k v := k_with k (k_reqs k) (k_task k) (k_live k) (k_exited k)
  (k_cancelled k) (k_cbs k) (k_ccb k) (k_ccd k) (k_ecb k) (k_target k) (k_expect k) (k_raised k)
  (k_nids k) v.
Definition set_k_flags (k : trk) gac_req closed nstart size setsize : trk :=
  {| k_reqs := k_reqs k; k_task := k_task k; k_live := k_live k; k_exited := k_exited k;
     k_cancelled := k_cancelled k; k_cbs := k_cbs k; k_ccb := k_ccb k; k_ccd := k_ccd k;
     k_ecb := k_ecb k; k_target := k_target k; k_expect := k_expect k; k_raised := k_raised k;
     k_nids := k_nids k; k_drvs := k_drvs k; k_gac_req := gac_req; k_closed := closed;
     k_nstart := nstart; k_size := size; k_setsize := setsize; k_etotal := k_etotal k;
     k_prev := k_prev k |}.
Definition set_k_prev (k : trk) (o : obs) : trk :=
  {| k_reqs := k_reqs k; k_task := k_task k; k_live := k_live k; k_exited := k_exited k;
     k_cancelled := k_cancelled k; k_cbs := k_cbs k; k_ccb := k_ccb k; k_ccd := k_ccd k;
     k_ecb := k_ecb k; k_target := k_target k; k_expect := k_expect k; k_raised := k_raised k;
     k_nids := k_nids k; k_drvs := k_drvs k; k_gac_req := k_gac_req k; k_closed := k_closed k;
     k_nstart := k_nstart k; k_size := k_size k; k_setsize := k_setsize k;
     k_etotal := k_etotal k + (match k_prev k with
                               | Some p => o_ne o - o_ne p
                               | None => o_ne o end);
     k_prev := Some o |}.

Definition fails (b : bool) (c : clause) : list clause := if b then [] else [c].

(** ** Events *)
Definition site_of (k : cbkind) : site := match k with KEnd => SEndCb | KCancel => SCancelCb end.

Definition on_event (k : trk) (o : obs) (e : event) : trk * list clause :=
  match e with
  | EvStart t r el =>
      match nth_error (k_reqs k) r with
      | None => (k, [C04_args])
      | Some x =>
          let dup := mem el (r_started x) in
          let elem_ok :=
            match r_kind x with
            | MMap _ =>
                match nth_error (r_els x) el with
                | Some e => negb (e_bad e) && Nat.ltb el (r_pulls x)
                | None => false
                end
            | _ => Nat.ltb el (r_num x) && negb (nth el (r_bad x) false)
            end in
          let in_group :=
            match group_ids o (r_group x) with
            | Some ids => mem t ids
            | None => true          (* the group was cancelled meanwhile *)
            end in
          let k1 := k_with k (upd (k_reqs k) r
                      {| r_kind := r_kind x; r_num := r_num x; r_bad := r_bad x; r_els := r_els x;
                         r_nc := r_nc x; r_w := r_w x; r_ecb := r_ecb x; r_ccb := r_ccb x;
                         r_group := r_group x; r_dead := r_dead x;
                         r_started := el :: r_started x; r_pulls := r_pulls x;
                         r_before_gac := r_before_gac x |})
                    ((t, (r, el)) :: k_task k) (t :: k_live k) (k_exited k) (k_cancelled k)
                    (k_cbs k) (k_ccb k) (k_ccd k) (k_ecb k) (k_target k) (k_expect k)
                    (k_raised k) (k_nids k) (k_drvs k) in
          (k1,
           fails (negb dup && elem_ok) (if is_map_kind (r_kind x) then C05_elem else C04_args)
           ++ fails (negb (r_dead x)) C07_no_late_start
           ++ fails in_group C10_member
           ++ fails (negb (mem t (k_live k)) && negb (mem t (k_exited k))) C11_dense)
      end
  | EvCancelled t =>
      (k_with k (k_reqs k) (k_task k) (k_live k) (k_exited k) (t :: k_cancelled k) (k_cbs k)
              (k_ccb k) (k_ccd k) (k_ecb k) (k_target k) (removeall t (k_expect k)) (k_raised k)
              (k_nids k) (k_drvs k),
       fails (mem t (k_target k)) C06_no_spurious)
  | EvExit t =>
      (k_with k (k_reqs k) (k_task k) (removeall t (k_live k)) (t :: k_exited k) (k_cancelled k)
              (k_cbs k) (k_ccb k) (k_ccd k) (k_ecb k) (k_target k) (removeall t (k_expect k))
              (k_raised k) (k_nids k) (k_drvs k),
       (* a targeted live worker must have observed CancelledError before it exits *)
       fails (negb (mem t (k_expect k))) C06_delivered)
  | EvCbBegin KCancel t cl =>
      let started := match assoc t (k_task k) with Some _ => true | None => false end in
      let propagates :=
        match req_of k t with
        | Some (_, el, x) =>
            let w := match r_kind x with
                     | MMap _ => match nth_error (r_els x) el with Some e => e_w e | None => r_w x end
                     | _ => r_w x end in
            match w_cancel w with WPropagate => true | WSwallow => false end
        | None => true
        end in
      (k_with k (k_reqs k) (k_task k) (k_live k) (k_exited k) (k_cancelled k)
              ((t, KCancel) :: k_cbs k) (t :: k_ccb k) (k_ccd k) (k_ecb k) (k_target k)
              (k_expect k) (k_raised k) (k_nids k) (k_drvs k),
       fails (match cl with ClCancelled => true | _ => false end) C03_cancel_counts
       ++ fails (negb (mem t (k_ccb k))) C03_cancel_once
       ++ fails (negb (mem t (k_ecb k))) C03_cancel_before_end
       ++ fails (negb (mem t (k_live k))) C03_after_exit
       ++ fails (if started then mem t (k_cancelled k) && propagates else mem t (k_target k))
                C03_cancel_iff)
  | EvCbBegin KEnd t cl =>
      let need_cancel_cb :=
        match req_of k t with
        | Some (_, el, x) =>
            let w := match r_kind x with
                     | MMap _ => match nth_error (r_els x) el with Some e => e_w e | None => r_w x end
                     | _ => r_w x end in
            mem t (k_cancelled k)
            && match w_cancel w with WPropagate => true | WSwallow => false end
            && negb (cb_is_none (r_ccb x))
        | None => false
        end in
      (k_with k (k_reqs k) (k_task k) (k_live k) (k_exited k) (k_cancelled k)
              ((t, KEnd) :: k_cbs k) (k_ccb k) (k_ccd k) (t :: k_ecb k) (k_target k)
              (k_expect k) (k_raised k) (k_nids k) (k_drvs k),
       fails (match cl with ClEnded => true | _ => false end) C03_end_counts
       ++ fails (negb (mem t (k_ecb k))) C03_end_once
       ++ fails (negb (mem t (k_ecb k))) C02_end_cb_once
       ++ fails (negb (has_cb (k_cbs k) t KCancel)) C03_cancel_before_end
       ++ fails (negb (mem t (k_live k))) C03_after_exit
       ++ fails (implb need_cancel_cb (mem t (k_ccd k))) C03_cancel_iff)
  | EvCbEnd kd t raised =>
      (k_with k (k_reqs k) (k_task k) (k_live k) (k_exited k) (k_cancelled k)
              (del_cb (k_cbs k) t kd) (k_ccb k)
              (match kd with KCancel => t :: k_ccd k | KEnd => k_ccd k end) (k_ecb k)
              (k_target k) (k_expect k)
              (if raised then (t, site_of kd) :: k_raised k else k_raised k) (k_nids k)
              (k_drvs k),
       fails (has_cb (k_cbs k) t kd) C11_cb_id)
  | EvCbInterrupted kd t =>
      (k_with k (k_reqs k) (k_task k) (k_live k) (k_exited k) (k_cancelled k)
              (del_cb (k_cbs k) t kd) (k_ccb k) (k_ccd k) (k_ecb k) (k_target k) (k_expect k)
              (k_raised k) (k_nids k) (k_drvs k),
       [C03_cb_completes])
  | EvPull r n =>
      match nth_error (k_reqs k) r with
      | None => (k, [C05_pull_consecutive])
      | Some x =>
          let lazy_ok :=
            match group_ids o (r_group x) with
            | Some ids =>
                if r_dead x then true
                else Nat.eqb (length ids + count_bad (r_els x) n) n
            | None => true
            end in
          (set_k_reqs k (upd (k_reqs k) r
             {| r_kind := r_kind x; r_num := r_num x; r_bad := r_bad x; r_els := r_els x;
                r_nc := r_nc x; r_w := r_w x; r_ecb := r_ecb x; r_ccb := r_ccb x;
                r_group := r_group x; r_dead := r_dead x; r_started := r_started x;
                r_pulls := S (r_pulls x); r_before_gac := r_before_gac x |}),
           fails (Nat.eqb n (r_pulls x) && Nat.leb n (length (r_els x))) C05_pull_consecutive
           ++ fails lazy_ok C05_lazy
           ++ fails (negb (r_dead x)) C07_no_late_pull)
      end
  | EvDriverDone d oc =>
      match nth_error (k_drvs k) d with
      | None => (k, [C12_provenance])
      | Some v =>
          let k1 := set_k_drvs k (upd (k_drvs k) d
                      {| v_kind := v_kind v; v_done := Some oc; v_quiet := v_quiet v;
                         v_ne := v_ne v |}) in
          let prov :=
            match oc with
            | OExc (EUser t st) =>
                existsb (fun p => Nat.eqb (fst p) t && site_eqb (snd p) st) (k_raised k)
            | OExc _ => false
            | _ => true
            end in
          let re := match v_kind v with DFlush b | DGatherClose b => b | DUntilClosed => false end in
          let common :=
            fails prov C12_provenance
            ++ fails (match oc, v_kind v with
                      | OCancelled, _ => false
                      | _, _ => true end) C12_no_cancelled_driver
            ++ fails (negb re || match oc with OResult => true | _ => false end)
                     (match v_kind v with DFlush _ => C13_re_never_raises
                                     | _ => C12_re_never_raises end) in
          match v_kind v, oc with
          | DGatherClose _, OResult =>
              let complete (x : req) : bool :=
                negb (r_before_gac x) || r_dead x ||
                match r_kind x with
                | MMap _ => Nat.eqb (r_pulls x) (S (length (r_els x)))
                | _ => match group_ids o (r_group x) with
                       | Some ids => Nat.eqb (length ids) (expected_created x)
                       | None => true
                       end
                end in
              (set_k_flags k1 (k_gac_req k1) true (k_nstart k1) (k_size k1) (k_setsize k1),
               common
               ++ fails (match k_live k with [] => true | _ => false end) C08_no_live
               ++ fails (Nat.eqb (o_nr o + o_nc o + o_ne o) 0) C08_empty
               ++ fails (forallb complete (k_reqs k)) C08_requests_complete)
          | DGatherClose _, _ =>
              (k1, common
                   ++ fails (match k_raised k with [] => false | _ => true end)
                            C08_returns_normally)
          | DUntilClosed, _ =>
              (k1, common ++ fails (k_closed k) C08_until_not_early)
          | DFlush _, OResult =>
              let '(pnr, pnc, pne) := match k_prev k with
                                      | Some p => (o_nr p, o_nc p, o_ne p)
                                      | None => (0, 0, 0) end in
              (k1, common
                   ++ fails (Nat.eqb (o_nr o) pnr && Nat.eqb (o_nc o) pnc) C13_not_forgotten_live
                   ++ fails (negb (v_quiet v) || Nat.leb (o_ne o + v_ne v) (k_etotal k))
                            C13_forgotten_finished
                   ++ fails (Nat.leb (count (fun p => cbk_eqb (snd p) KEnd) (k_cbs k)) (o_ne o))
                            C13_inflight_kept)
          | DFlush _, _ => (k1, common)
          end
      end
  end.

Fixpoint on_events (k : trk) (o : obs) (es : list event) : trk * list clause :=
  match es with
  | [] => (k, [])
  | e :: t =>
      let '(k1, c1) := on_event k o e in
      let '(k2, c2) := on_events k1 o t in
      (k2, c1 ++ c2)
  end.

(** ** Labels: requests accepted, cancellations issued, rejected requests *)
Definition new_req (k : trk) kind num bad els nc w ecb ccb g : trk :=
  set_k_reqs k (k_reqs k ++
    [{| r_kind := kind; r_num := num; r_bad := bad; r_els := els; r_nc := nc; r_w := w;
        r_ecb := ecb; r_ccb := ccb; r_group := g; r_dead := false; r_started := [];
        r_pulls := 0; r_before_gac := negb (k_gac_req k) |}]).

Definition kill_group (k : trk) (g : gname) : trk :=
  set_k_reqs k (map (fun x =>
    if gname_eqb g (r_group x)
    then {| r_kind := r_kind x; r_num := r_num x; r_bad := r_bad x; r_els := r_els x;
            r_nc := r_nc x; r_w := r_w x; r_ecb := r_ecb x; r_ccb := r_ccb x;
            r_group := r_group x; r_dead := true; r_started := r_started x;
            r_pulls := r_pulls x; r_before_gac := r_before_gac x |}
    else x) (k_reqs k)).

Definition kill_all (k : trk) : trk :=
  set_k_reqs k (map (fun x =>
    {| r_kind := r_kind x; r_num := r_num x; r_bad := r_bad x; r_els := r_els x;
       r_nc := r_nc x; r_w := r_w x; r_ecb := r_ecb x; r_ccb := r_ccb x;
       r_group := r_group x; r_dead := true; r_started := r_started x;
       r_pulls := r_pulls x; r_before_gac := r_before_gac x |}) (k_reqs k)).

Definition target (k : trk) (ids : list nat) : trk :=
  set_k_expect (set_k_target k (ids ++ k_target k))
               (filter (fun t => mem t (k_live k)) ids ++ k_expect k).

(** the least index [i] such that [GGen meth i] is not a live group of observation [p] *)
Fixpoint least_free (p : obs) (meth fuel i : nat) : nat :=
  match fuel with
  | O => i
  | S f => if group_live p (GGen meth i) then least_free p meth f (S i) else i
  end.

Definition same_public (p o : obs) : bool :=
  Nat.eqb (o_nr p) (o_nr o) && Nat.eqb (o_nc p) (o_nc o) && Nat.eqb (o_ne p) (o_ne o)
  && Bool.eqb (o_full p) (o_full o) && Bool.eqb (o_locked p) (o_locked o)
  && ninf_eqb (o_size p) (o_size o) && Bool.eqb (o_ready_empty p) (o_ready_empty o)
  && match o_events o with [] => true | _ => false end
  && forallb (fun pg => match glook (fst pg) (o_groups o) with
                        | Some v => match snd pg, v with
                                    | None, None => true
                                    | Some a, Some b => Nat.eqb (length a) (length b)
                                                        && forallb (fun t => mem t b) a
                                    | _, _ => false
                                    end
                        | None => false
                        end) (o_groups p).

Definition prev_or (k : trk) (o : obs) : obs := match k_prev k with Some p => p | None => o end.

Definition expected_spawn_err (k : trk) (p : obs) (noncoro : bool) (nc_bad : bool)
           (g : option gname) : option errclass :=
  if noncoro then Some ErrNotCoroutineFunction
  else if k_closed k then Some ErrPoolIsClosed
  else if o_locked p then Some ErrPoolIsLocked
  else if nc_bad then Some ErrValueError
  else match g with
       | Some n => if group_live p n then Some ErrGroupExists else None
       | None => None
       end.

Definition err_eqb (a b : errclass) : bool :=
  match a, b with
  | ErrNotCoroutineFunction, ErrNotCoroutineFunction | ErrPoolIsClosed, ErrPoolIsClosed
  | ErrPoolIsLocked, ErrPoolIsLocked | ErrValueError, ErrValueError
  | ErrGroupExists, ErrGroupExists | ErrGroupNotFound, ErrGroupNotFound
  | ErrTaskNotFound, ErrTaskNotFound | ErrAlreadyCancelled, ErrAlreadyCancelled
  | ErrAlreadyEnded, ErrAlreadyEnded => true
  | _, _ => false
  end.

Fixpoint decreasing (l : list nat) : bool :=
  match l with
  | a :: ((b :: _) as t) => Nat.ltb b a && decreasing t
  | _ => true
  end.

(** A spawn request: check the result against the expected error (C09) or the expected name
    (C10), and that a rejected request leaves no trace (C09). *)
Definition on_spawn (k : trk) (o : obs) (first_obs : bool) (noncoro nc_bad : bool)
           (g : option gname) (meth : nat) (mk : gname -> trk) : trk * list clause :=
  let p := prev_or k o in
  let exp := if first_obs then None else expected_spawn_err k p noncoro nc_bad g in
  match o_res o with
  | RName n =>
      let fresh :=
        match g with
        | Some u => gname_eqb u n
        | None =>
            if first_obs then true
            else gname_eqb n (GGen meth (least_free p meth (S (length (o_groups p))) 0))
        end in
      (mk n,
       fails (match exp with None => true | Some _ => false end) C09_error_class
       ++ fails (if first_obs then true
                 else match exp with Some _ => true | None => negb (group_live p n) end)
                C10_name_fresh
       ++ fails fresh C10_name_fresh
       ++ fails (group_live o n) C10_member
       ++ fails (negb (k_closed k)) C08_closed_after)
  | RErr e =>
      (k,
       fails (if first_obs then true
              else match exp with Some x => err_eqb x e | None => false end) C09_error_class
       ++ fails (if first_obs then true else same_public p o) C09_no_trace)
  | _ => (k, [C09_error_class])
  end.

Definition on_label (c : config) (k : trk) (o : obs) : trk * list clause :=
  if negb (o_enabled o) then (k, []) else
  let first := match k_prev k with None => true | Some _ => false end in
  let p := prev_or k o in
  match o_label o with
  | LOp (OpApply num bad noncoro w ecb ccb g) =>
      on_spawn k o first noncoro false g 0
               (fun n => new_req k MApply num bad [] 0 w ecb ccb n)
  | LOp (OpMap stars els nc noncoro ecb ccb g) =>
      on_spawn k o first noncoro (Nat.eqb nc 0) g (S stars)
               (fun n => new_req k (MMap stars) 0 [] els nc default_w ecb ccb n)
  | LOp (OpStart num) =>
      let '(k1, cs) := on_spawn k o first false false None 0
                         (fun n => new_req k MStart num (cf_bad c) [] 0 (cf_w c) (cf_ecb c) (cf_ccb c) n) in
      match o_res o with
      | RName n =>
          (set_k_flags k1 (k_gac_req k1) (k_closed k1) (S (k_nstart k1)) (k_size k1)
                       (k_setsize k1),
           (* the generic freshness test is for '<method>-<func>-group-<i>' names; start() uses
              its own counter *)
           filter (fun c => match c with C10_name_fresh => false | _ => true end) cs
           ++ fails (gname_eqb n (GStart (k_nstart k))) C10_name_fresh)
      | _ => (k1, cs)
      end
  | LOp (OpCancel ids) =>
      match o_res o with
      | RNone => (target k ids, [])
      | RErr e =>
          (k, fails (negb (forallb (fun t => mem t (k_live k)) ids)
                     || match ids with [] => true | _ => false end) C06_error_class
              ++ fails (if first then true else same_public p o) C06_nothing_on_error)
      | _ => (k, [C06_error_class])
      end
  | LOp (OpCancelGroup g) =>
      match o_res o with
      | RNone =>
          let ids := match group_ids p g with Some l => l | None => [] end in
          (target (kill_group k g) ids,
           fails (negb (group_live o g)) C07_forgotten
           ++ fails (if first then false else group_live p g) C07_unknown_no_change)
      | RErr e =>
          (k, fails (err_eqb e ErrGroupNotFound && (first || negb (group_live p g)))
                    C07_unknown_no_change
              ++ fails (if first then true else same_public p o) C07_unknown_no_change)
      | _ => (k, [C07_forgotten])
      end
  | LOp OpCancelAll =>
      (target (kill_all k) (all_ids p),
       fails (forallb (fun pg => match snd pg with None => true | Some _ => false end)
                      (o_groups o)) C07_forgotten)
  | LOp (OpStop n) =>
      match o_res o with
      | RIds ids =>
          let want := match n with Some v => Nat.min v (o_nr p) | None => 0 end in
          (target k ids,
           fails (first || Nat.eqb (length ids) want) C14_count
           ++ fails (decreasing ids) C14_lifo
           ++ fails (forallb (fun t => mem t ids ||
                                forallb (fun i => Nat.ltb t i) ids) (k_live k))
                    C14_most_recent)
      | _ => (k, [C14_count])
      end
  | LOp OpStopAll =>
      match o_res o with
      | RIds ids =>
          (target k ids,
           fails (first || Nat.eqb (length ids) (o_nr p)) C14_count
           ++ fails (decreasing ids) C14_lifo
           ++ fails (forallb (fun t => mem t ids) (k_live k)) C14_most_recent)
      | _ => (k, [C14_count])
      end
  | LOp OpLock => (k, fails (o_locked o) C09_lock_state)
  | LOp OpUnlock => (k, fails (negb (o_locked o)) C09_lock_state)
  | LOp (OpSetSize None) =>
      (k, fails (match o_res o with RErr ErrValueError => true | _ => false end)
                C15_negative_rejected
          ++ fails (first || same_public p o) C15_negative_rejected
          ++ fails (first || same_public p o) C09_no_trace)
  | LOp (OpSetSize (Some v)) =>
      (set_k_flags k (k_gac_req k) (k_closed k) (k_nstart k) v true,
       fails (match o_res o with RNone => true | _ => false end) C15_negative_rejected)
  | LOp (OpGetGroupIds gs) =>
      let want :=
        (fix go (l : list gname) (acc : list nat) : option (list nat) :=
           match l with
           | [] => Some acc
           | g :: t => match group_ids o g with
                       | Some ids => go t (ids ++ acc)
                       | None => None
                       end
           end) gs [] in
      (k, fails (match want, o_res o with
                 | Some w, RIds ids => forallb (fun t => mem t ids) w
                                       && forallb (fun t => mem t w) ids
                 | None, RErr ErrGroupNotFound => true
                 | _, _ => false
                 end) C10_get_ids)
  | LOp (OpDriver kd) =>
      let q := if first then true else quiet k p in
      let k1 := set_k_drvs k (k_drvs k ++
                  [{| v_kind := kd; v_done := None; v_quiet := q; v_ne := k_etotal k |}]) in
      (match kd with
       | DGatherClose _ =>
           set_k_flags k1 true (k_closed k1) (k_nstart k1) (k_size k1) (k_setsize k1)
       | _ => k1
       end, [])
  | LOp (OpFinish t h) =>
      (match h with FinRaise => set_k_raised k ((t, SWorker) :: k_raised k) | FinReturn => k end,
       [])
  | _ => (k, [])
  end.

(** user exceptions raised by workers that raise at once are known from the request *)
Definition note_raising_starts (k : trk) (es : list event) : trk :=
  fold_left (fun k e =>
    match e with
    | EvStart t _ _ =>
        match req_of k t with
        | Some (_, el, x) =>
            let w := match r_kind x with
                     | MMap _ => match nth_error (r_els x) el with Some e => e_w e | None => r_w x end
                     | _ => r_w x end in
            match w_first w with
            | WRaise => set_k_raised k ((t, SWorker) :: k_raised k)
            | _ => k
            end
        | None => k
        end
    | _ => k
    end) es k.

(** ** State clauses, checked after every observation *)
Definition sorted_new_ids (k : trk) (o : obs) : list nat :=
  let seen := all_ids o ++
              flat_map (fun e => match e with EvStart t _ _ => [t] | _ => [] end) (o_events o) in
  filter (fun t => Nat.leb (k_nids k) t) seen.

Fixpoint pairwise_disjoint (l : list (list nat)) : bool :=
  match l with
  | [] => true
  | a :: t => forallb (fun b => forallb (fun x => negb (mem x b)) a) t && pairwise_disjoint t
  end.

Definition state_clauses (c : config) (k : trk) (o : obs) : list clause :=
  let q := quiet k o in
  let size := cf_size c in
  let sz_fixed := negb (k_setsize k) in
  (* C01 *)
  (if sz_fixed then
     fails (ninf_geb size (o_nr o)) C01_bound_running
     ++ fails (ninf_geb size (length (k_live k))) C01_bound_live
     ++ fails (match size with Inf => negb (o_full o) | _ => true end) C01_inf_not_full
     ++ fails (negb q || Bool.eqb (o_full o) (ninf_eqb size (Fin (o_nr o)))) C01_full_iff
   else [])
  (* C02 *)
  ++ fails (negb q || Nat.eqb (o_nr o) (length (k_live k))) C02_idle_running_in_flight
  ++ fails (negb q || Nat.eqb (o_nc o) 0) C02_idle_none_cancelled
  ++ fails (negb q ||
            forallb (fun t => match req_of k t with
                              | Some (_, _, x) => cb_is_none (r_ecb x) || mem t (k_ecb k)
                              | None => true end) (k_exited k)) C02_end_cb_by_idle
  (* C03 *)
  ++ fails (match k_prev k with
            | Some p =>
                Nat.leb (o_nr p + o_nc p + o_ne p) (o_nr o + o_nc o + o_ne o)
                || existsb (fun e => match e with EvDriverDone _ _ => true | _ => false end)
                           (o_events o)
            | None => true end) C03_forget_only_by_flush
  (* C04 / C05: per request *)
  ++ flat_map (fun rx =>
       let '(r, x) := rx in
       let created := match group_ids o (r_group x) with Some ids => Some (length ids)
                                                     | None => None end in
       match r_kind x with
       | MMap _ =>
           fails (Nat.leb (live_of_req k r) (r_nc x)) C05_bound
           ++ fails (negb q || r_dead x || o_full o || k_closed k
                     || Nat.ltb (length (r_els x)) (r_pulls x)
                     || Nat.eqb (live_of_req k r) (r_nc x)) C05_work_conserving
       | _ =>
           match created with
           | Some n =>
               if r_dead x then [] else
               fails (Nat.leb n (expected_created x)) C04_at_most_num
               ++ fails (negb q || o_full o || Nat.eqb n (expected_created x))
                        C04_idle_progress
           | None => []
           end
       end) (combine (seq 0 (length (k_reqs k))) (k_reqs k))
  (* C06: at a quiet idle point no targeted live worker is still waiting for its CancelledError *)
  ++ fails (negb q || match k_expect k with [] => true | _ => false end) C06_delivered
  (* C08 *)
  ++ fails (negb q || negb (k_closed k) ||
            forallb (fun v => match v_kind v, v_done v with
                              | DUntilClosed, None => false
                              | _, _ => true end) (k_drvs k)) C08_until_released
  (* C10 *)
  ++ fails (pairwise_disjoint
              (flat_map (fun p => match snd p with Some ids => [ids] | None => [] end)
                        (o_groups o))) C10_partition
  (* C11 *)
  ++ (let news := sorted_new_ids k o in
      fails (forallb (fun t => Nat.ltb t (k_nids k + length (nodup Nat.eq_dec news))) news)
            C11_dense)
  (* C15: the getter reports the configured maximum; once pool_size was assigned, a task is
     only admitted while the running count stays within the new limit, and at a quiet idle point
     no accepted apply/start request is left waiting for room below the limit *)
  ++ fails (ninf_eqb (o_size o) (k_size k)) C15_getter_eq_max
  ++ (if k_setsize k then
        fails (match k_prev k with
               | Some p => negb (Nat.ltb (o_nr p) (o_nr o)) || ninf_geb (k_size k) (o_nr o)
               | None => true end) C15_limit_enforced
        ++ fails (negb q || k_closed k || ninf_geb (Fin (o_nr o)) 0 &&
                  (match k_size k with
                   | Fin v => Nat.leb v (o_nr o)
                   | Inf => false end
                   || forallb (fun x =>
                        is_map_kind (r_kind x) || r_dead x ||
                        match group_ids o (r_group x) with
                        | Some ids => Nat.eqb (length ids) (expected_created x)
                        | None => true
                        end) (k_reqs k))) C15_increase_wakes
      else []).

Definition mon_step (c : config) (k : trk) (o : obs) : trk * list clause :=
  let '(k1, c1) := on_label c k o in
  let '(k2, c2) := on_events k1 o (o_events o) in
  let k3 := note_raising_starts k2 (o_events o) in
  let k4 := set_k_nids k3 (k_nids k3 + length (nodup Nat.eq_dec (sorted_new_ids k3 o))) in
  let c3 := state_clauses c (set_k_nids k3 (k_nids k)) o in
  (set_k_prev k4 o, c1 ++ c2 ++ c3).

(** First violated clause of property [pid] (with the index of the observation). *)
Fixpoint mon_run (c : config) (pid : nat) (k : trk) (i : nat) (os : list obs)
  : option (nat * clause) :=
  match os with
  | [] => None
  | o :: t =>
      let '(k', cs) := mon_step c k o in
      match filter (fun cl => Nat.eqb (clause_prop cl) pid) cs with
      | cl :: _ => Some (i, cl)
      | [] => mon_run c pid k' (S i) t
      end
  end.

Definition ok_prop (pid : nat) (c : config) (os : list obs) : bool :=
  match mon_run c pid (trk_init c) 0 os with None => true | Some _ => false end.

Definition ok_C01 := ok_prop 1.   Definition ok_C02 := ok_prop 2.   Definition ok_C03 := ok_prop 3.
Definition ok_C04 := ok_prop 4.   Definition ok_C05 := ok_prop 5.   Definition ok_C06 := ok_prop 6.
Definition ok_C07 := ok_prop 7.   Definition ok_C08 := ok_prop 8.   Definition ok_C09 := ok_prop 9.
Definition ok_C10 := ok_prop 10.  Definition ok_C11 := ok_prop 11.  Definition ok_C12 := ok_prop 12.
Definition ok_C13 := ok_prop 13.  Definition ok_C14 := ok_prop 14.  Definition ok_C15 := ok_prop 15.
