(** M1 — several pools in one event loop.  Pools share nothing but the loop and the class-level
    list [BaseTaskPool._pools] that gives every pool its index (pool.py:83-89, 113-119): the
    world is a list of independent pool states; a label addresses one pool. *)
From TP Require Export PSpec PRun.

Definition world := list state.

(** [_add_pool]: the new pool's index is the number of pools created before it *)
Definition add_pool (w : world) (c : config) : world * nat := (w ++ [init c], length w).

Definition wstep (w : world) (il : nat * label) : world :=
  match nth_error w (fst il) with
  | Some s => upd w (fst il) (step s (snd il))
  | None => w
  end.

Definition wrun (w : world) (tr : list (nat * label)) : world := fold_left wstep tr w.

(** the default name of an unnamed pool: '<ClassName>-<index>' (rendered by the harness) *)
Definition default_name (c : config) (idx : nat) : pkind * nat := (cf_kind c, idx).

Lemma wstep_length w il : length (wstep w il) = length w.
Proof. unfold wstep. destruct (nth_error w (fst il)); [apply upd_length|reflexivity]. Qed.

(** a step of pool [i] leaves every other pool untouched *)
Lemma wstep_other w i l j : j <> i -> nth_error (wstep w (i, l)) j = nth_error w j.
Proof.
  intros H. unfold wstep. cbn [fst snd]. destruct (nth_error w i); [|reflexivity].
  apply nth_error_upd_neq. congruence.
Qed.

Lemma wstep_same w i l s : nth_error w i = Some s -> nth_error (wstep w (i, l)) i = Some (step s l).
Proof.
  intros H. unfold wstep. cbn [fst snd]. rewrite H. apply nth_error_upd_eq.
  apply nth_error_Some. congruence.
Qed.

(** the labels addressed to pool [i], in order *)
Fixpoint proj (i : nat) (tr : list (nat * label)) : list label :=
  match tr with
  | [] => []
  | (j, l) :: t => if Nat.eqb i j then l :: proj i t else proj i t
  end.

(** Independence: what pool [i] is after any interleaved run of the world depends only on the
    labels addressed to it — so each pool numbers its tasks on its own (C11 for that pool). *)
Theorem wrun_proj : forall tr w i s, nth_error w i = Some s ->
  nth_error (wrun w tr) i = Some (fold_left step (proj i tr) s).
Proof.
  induction tr as [|[j l] t IH]; intros w i s H; cbn [wrun fold_left proj]; [exact H|].
  destruct (Nat.eqb_spec i j) as [->|Hne].
  - cbn [fold_left]. apply IH. apply wstep_same. exact H.
  - apply IH. rewrite wstep_other by congruence. exact H.
Qed.

(** pools created one after the other get pairwise distinct indices, hence distinct default names *)
Fixpoint add_pools (w : world) (cs : list config) : world * list nat :=
  match cs with
  | [] => (w, [])
  | c :: r => let '(w1, i) := add_pool w c in
              let '(w2, is) := add_pools w1 r in (w2, i :: is)
  end.

Lemma add_pools_indices cs : forall w, snd (add_pools w cs) = seq (length w) (length cs).
Proof.
  induction cs as [|c r IH]; intros w; cbn [add_pools]; [reflexivity|].
  unfold add_pool. destruct (add_pools (w ++ [init c]) r) as [w2 is] eqn:E. cbn [snd seq length].
  f_equal. specialize (IH (w ++ [init c])). rewrite E in IH. cbn [snd] in IH. rewrite IH.
  rewrite app_length. cbn [length]. f_equal. lia.
Qed.

Theorem pool_indices_distinct w cs : NoDup (snd (add_pools w cs)).
Proof. rewrite add_pools_indices. apply seq_NoDup. Qed.
