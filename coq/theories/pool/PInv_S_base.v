(** Layer S (I3 + I4: the pool semaphore) — base definitions: the "semaphore view" of a state, the
    frame relation, and the intermediate invariant [J]. *)
From TP Require Import PInv.
From Coq Require Import Lia.
Import ListNotations.

(** ** list utilities *)
Lemma count_ext {A} (p q : A -> bool) l :
  (forall x, In x l -> p x = q x) -> count p l = count q l.
Proof.
  induction l as [|h t IH]; simpl; intros H; auto.
  rewrite (H h), IH; auto.
Qed.

Lemma count_upd1 (p q : nat -> bool) l m :
  NoDup l -> In m l -> p m = false -> q m = true ->
  (forall x, x <> m -> p x = q x) -> count q l = S (count p l).
Proof.
  induction 1 as [|h t Hn Hd IH]; simpl; intros Hin Hp Hq He; [tauto|].
  destruct Hin as [->|Hin].
  - rewrite Hp, Hq. simpl. f_equal. apply count_ext. intros x Hx. symmetry; apply He.
    intro; subst; tauto.
  - rewrite <- (He h) by (intro; subst; tauto). rewrite IH by auto. lia.
Qed.

Lemma count_remove1 (p : nat -> bool) m l :
  In m l -> count p l = count p (remove1 m l) + (if p m then 1 else 0).
Proof.
  induction l as [|h t IH]; simpl; [tauto|].
  destruct (Nat.eqb_spec m h) as [->|Hne].
  - intros _. lia.
  - intros [H|H]; [congruence|]. simpl. rewrite IH; auto. lia.
Qed.

Lemma tref_eqb_eq a b : tref_eqb a b = true -> a = b.
Proof.
  destruct a, b; simpl; intros H; try discriminate; apply Nat.eqb_eq in H; congruence.
Qed.

Lemma hid_eqb_eq a b : hid_eqb a b = true -> a = b.
Proof.
  destruct a, b; simpl; intros H; try discriminate.
  - apply tref_eqb_eq in H. congruence.
  - apply andb_true_iff in H. destruct H as [H1 H2]. apply Nat.eqb_eq in H1.
    apply tref_eqb_eq in H2. congruence.
Qed.

Lemma is_ready_In s h : is_ready s h = true -> In h (ready s).
Proof.
  unfold is_ready. rewrite existsb_exists. intros [x [Hin Heq]].
  apply hid_eqb_eq in Heq. subst; auto.
Qed.

(** ** the view *)
Definition mview (s : state) (m : nat) : option (mpc * option fut) :=
  match get_m s m with Some x => Some (m_pc x, m_fw x) | None => None end.

Definition dfw_ok (s : state) : Prop :=
  forall d x, get_d s d = Some x -> d_pc x = DWaitG2 -> d_fw x <> None.

Lemma m_fw_of_mview s m :
  m_fw_of s m = match mview s m with Some (_, f) => f | None => None end.
Proof. unfold m_fw_of, mview. destruct (get_m s m); auto. Qed.

(** [framex o s s']: [s'] has the same semaphore view as [s], except possibly for the record of
    spawner [m] when [o = Some m]. *)
Record framex (o : option nat) (s s' : state) : Prop := {
  fr_val : sem_value s' = sem_value s;
  fr_wait : sem_waiters s' = sem_waiters s;
  fr_cap : cap s' = cap s;
  fr_ts : taint_size s' = taint_size s;
  fr_cfg : cfg s' = cfg s;
  fr_run : t_running s' = t_running s;
  fr_can : t_cancelled s' = t_cancelled s;
  fr_num : num_started s' = num_started s;
  fr_mv : forall m, o <> Some m -> mview s' m = mview s m;
  fr_d : dfw_ok s -> dfw_ok s'
}.

Arguments fr_val {o s s'}. Arguments fr_wait {o s s'}. Arguments fr_cap {o s s'}.
Arguments fr_ts {o s s'}. Arguments fr_cfg {o s s'}. Arguments fr_run {o s s'}.
Arguments fr_can {o s s'}. Arguments fr_num {o s s'}. Arguments fr_mv {o s s'}.
Arguments fr_d {o s s'}.

Lemma framex_refl o s : framex o s s.
Proof. constructor; auto. Qed.

Lemma framex_trans o s1 s2 s3 : framex o s1 s2 -> framex o s2 s3 -> framex o s1 s3.
Proof.
  intros [] []; constructor; try congruence; auto.
  intros m Hm. rewrite fr_mv1, fr_mv0; auto.
Qed.

Lemma framex_weaken m s s' : framex None s s' -> framex (Some m) s s'.
Proof.
  intros []; constructor; auto. intros; apply fr_mv0; congruence.
Qed.

Lemma framex_any o s s' : framex None s s' -> framex o s s'.
Proof.
  intros []; constructor; auto. intros; apply fr_mv0; congruence.
Qed.

Ltac frx :=
  let H := fresh in
  intros H; destruct H; constructor;
  unfold mview, get_m, dfw_ok, get_d in *; cbn; auto.

Lemma fx_set_res o s0 s v : framex o s0 s -> framex o s0 (set_res s v). Proof. frx. Qed.
Lemma fx_set_evs o s0 s v : framex o s0 s -> framex o s0 (set_evs s v). Proof. frx. Qed.
Lemma fx_set_ctl o s0 s v : framex o s0 s -> framex o s0 (set_ctl s v). Proof. frx. Qed.
Lemma fx_set_ready o s0 s v : framex o s0 s -> framex o s0 (set_ready s v). Proof. frx. Qed.
Lemma fx_set_groups o s0 s v : framex o s0 s -> framex o s0 (set_groups s v). Proof. frx. Qed.
Lemma fx_set_known o s0 s v : framex o s0 s -> framex o s0 (set_known s v). Proof. frx. Qed.
Lemma fx_set_gmeta o s0 s v : framex o s0 s -> framex o s0 (set_gmeta s v). Proof. frx. Qed.
Lemma fx_set_meta_cancelled o s0 s v : framex o s0 s -> framex o s0 (set_meta_cancelled s v).
Proof. frx. Qed.
Lemma fx_set_start_calls o s0 s v : framex o s0 s -> framex o s0 (set_start_calls s v).
Proof. frx. Qed.
Lemma fx_set_locked o s0 s v : framex o s0 s -> framex o s0 (set_locked s v). Proof. frx. Qed.
Lemma fx_set_closed o s0 s v : framex o s0 s -> framex o s0 (set_closed s v). Proof. frx. Qed.
Lemma fx_set_closed_waiters o s0 s v : framex o s0 s -> framex o s0 (set_closed_waiters s v).
Proof. frx. Qed.
Lemma fx_set_n_forgotten o s0 s v : framex o s0 s -> framex o s0 (set_n_forgotten s v).
Proof. frx. Qed.
Lemma fx_set_taint_self o s0 s v : framex o s0 s -> framex o s0 (set_taint_self s v).
Proof. frx. Qed.
Lemma fx_set_taint_iter o s0 s v : framex o s0 s -> framex o s0 (set_taint_iter s v).
Proof. frx. Qed.
Lemma fx_set_taint_unlock o s0 s v : framex o s0 s -> framex o s0 (set_taint_unlock s v).
Proof. frx. Qed.
Lemma fx_set_n_gac o s0 s v : framex o s0 s -> framex o s0 (set_n_gac s v). Proof. frx. Qed.
Lemma fx_set_ptasks o s0 s v : framex o s0 s -> framex o s0 (set_ptasks s v). Proof. frx. Qed.
Lemma fx_set_t_ended o s0 s v : framex o s0 s -> framex o s0 (set_t_ended s v). Proof. frx. Qed.

Lemma fx_emit o s0 s e : framex o s0 s -> framex o s0 (emit s e).
Proof. unfold emit. apply fx_set_evs. Qed.
Lemma fx_sched o s0 s h : framex o s0 s -> framex o s0 (sched s h).
Proof. unfold sched. destruct (is_ready s h); auto. apply fx_set_ready. Qed.
Lemma fx_unsched o s0 s h : framex o s0 s -> framex o s0 (unsched s h).
Proof. unfold unsched. apply fx_set_ready. Qed.
Lemma fx_put_p o s0 s t x : framex o s0 s -> framex o s0 (put_p s t x).
Proof. unfold put_p. apply fx_set_ptasks. Qed.
Lemma fx_know o s0 s g : framex o s0 s -> framex o s0 (know s g).
Proof. unfold know. destruct (existsb _ _); auto. apply fx_set_known. Qed.

Lemma fx_put_d o s0 s d x :
  (d_pc x = DWaitG2 -> d_fw x <> None) -> framex o s0 s -> framex o s0 (put_d s d x).
Proof.
  intros Hx H; destruct H; constructor; unfold put_d; cbn; auto.
  intros Hd. specialize (fr_d0 Hd). unfold dfw_ok, get_d in *. cbn.
  intros d' x'. rewrite nth_error_upd.
  destruct (Nat.eqb d d').
  - destruct (Nat.ltb d (length (dtasks s))); [|discriminate].
    intros E; inversion E; subst; auto.
  - apply fr_d0.
Qed.

Lemma fx_put_m m s0 s x : framex (Some m) s0 s -> framex (Some m) s0 (put_m s m x).
Proof.
  intros H; destruct H; constructor; unfold put_m; cbn; auto.
  intros m' Hm. rewrite <- fr_mv0 by auto. unfold mview, get_m. cbn.
  rewrite nth_error_upd_neq; auto; congruence.
Qed.

Lemma fx_fold_sched o s0 l : forall s, framex o s0 s -> framex o s0 (fold_left sched l s).
Proof. induction l; simpl; intros; auto. apply IHl. apply fx_sched; auto. Qed.

Lemma fx_sched_cbs o s0 s r : framex o s0 s -> framex o s0 (sched_cbs s r).
Proof. unfold sched_cbs. apply fx_fold_sched. Qed.

#[export] Hint Resolve framex_refl fx_set_res fx_set_evs fx_set_ctl fx_set_ready fx_set_groups
  fx_set_known fx_set_gmeta fx_set_meta_cancelled fx_set_start_calls fx_set_locked fx_set_closed
  fx_set_closed_waiters fx_set_n_forgotten fx_set_taint_self fx_set_taint_iter
  fx_set_taint_unlock fx_set_n_gac fx_set_ptasks fx_set_t_ended fx_emit fx_sched fx_unsched
  fx_put_p fx_know fx_put_m fx_fold_sched fx_sched_cbs : fx.

Lemma fx_finish_p o s0 s t x : framex o s0 s -> framex o s0 (finish_p s t x).
Proof. unfold finish_p. auto with fx. Qed.

Lemma fx_suspend_p o s0 s t x pc : framex o s0 s -> framex o s0 (suspend_p s t x pc).
Proof. unfold suspend_p. destruct (p_mc x); auto 10 with fx. Qed.

Lemma fx_finish_d o s0 s d x e : framex o s0 s -> framex o s0 (finish_d s d x e).
Proof.
  unfold finish_d. intros. apply fx_set_ctl, fx_emit, fx_put_d; auto. cbn. discriminate.
Qed.

Lemma fx_cancel_p o s0 s t : framex o s0 s -> framex o s0 (cancel_p s t).
Proof.
  unfold cancel_p. intros.
  destruct (get_p s t); auto. destruct (p_unst p); auto with fx.
  destruct (p_final p); auto.
  destruct (is_current s (TP t) && final_segment p); destruct (fut_pending (p_fw p));
    auto 10 with fx.
Qed.

Lemma fx_fold_cancel_p o s0 l : forall s, framex o s0 s -> framex o s0 (fold_left cancel_p l s).
Proof. induction l; simpl; intros; auto. apply IHl. apply fx_cancel_p; auto. Qed.

Lemma fx_wake_closed o s0 l : forall s, framex o s0 s -> framex o s0 (wake_closed s l).
Proof.
  induction l; simpl; intros; auto. apply IHl.
  destruct (get_d s a) eqn:E; auto. destruct (fut_pending (d_fw d)); auto.
  apply fx_sched, fx_put_d; auto. cbn. discriminate.
Qed.

#[export] Hint Resolve fx_finish_p fx_suspend_p fx_finish_d fx_cancel_p fx_fold_cancel_p
  fx_wake_closed : fx.

(** ** the intermediate invariant *)
Definition slots_k (s : state) (k : nat) : Prop :=
  match sem_value s, cap s with
  | Fin v, Fin c => c = v + in_use s + k
  | Inf, Inf => True
  | _, _ => False
  end.

Definition wake_ok (s : state) : Prop :=
  taint_size s = false ->
  forall m, In m (sem_waiters s) -> m_fw_of s m = Some FPending ->
            sem_value s = Fin 0 \/
            exists m', In m' (sem_waiters s) /\ m_fw_of s m' = Some FOk.

Record Jw (s : state) (ex : option nat) (k : nat) : Prop := {
  Jn : NoDup (sem_waiters s);
  Ji1 : forall m, In m (sem_waiters s) ->
                  ex <> Some m /\ exists f, mview s m = Some (MWaitPool, f) /\ waiting_fut f;
  Ji2 : forall m f, mview s m = Some (MWaitPool, f) -> ex <> Some m -> In m (sem_waiters s);
  Jmap : forall m f, mview s m = Some (MWaitMap, f) -> ex <> Some m -> waiting_fut f;
  Jsl : slots_k s k;
  Jcap : taint_size s = false -> cap s = cf_size (cfg s);
  Jinf : taint_size s = false -> sem_value s = Inf -> sem_waiters s = [];
  Jlt : forall t, In t (t_running s) -> t < num_started s;
  Jd : dfw_ok s
}.

Arguments Jn {s ex k}. Arguments Ji1 {s ex k}. Arguments Ji2 {s ex k}. Arguments Jmap {s ex k}.
Arguments Jsl {s ex k}. Arguments Jcap {s ex k}. Arguments Jinf {s ex k}. Arguments Jlt {s ex k}.
Arguments Jd {s ex k}.

Definition J (s : state) (ex : option nat) (k : nat) : Prop := Jw s ex k /\ wake_ok s.

Lemma m_fw_of_framex o s s' m : framex o s s' -> o <> Some m -> m_fw_of s' m = m_fw_of s m.
Proof. intros F H. rewrite !m_fw_of_mview. rewrite (fr_mv F); auto. Qed.

Lemma in_use_framex o s s' :
  framex o s s' -> (forall m, In m (sem_waiters s) -> o <> Some m) -> in_use s' = in_use s.
Proof.
  intros F H. unfold in_use. rewrite (fr_run F), (fr_can F), (fr_wait F). f_equal.
  apply count_ext. intros m Hm. rewrite (m_fw_of_framex _ _ _ m F); auto.
Qed.

Lemma Jw_framex o s s' ex k :
  framex o s s' -> (forall m, o = Some m -> ex = Some m) -> Jw s ex k -> Jw s' ex k.
Proof.
  intros F Ho H.
  assert (Hw : forall m, In m (sem_waiters s) -> o <> Some m).
  { intros m Hm E. apply (Ji1 H) in Hm. destruct Hm as [Hm _]. apply Hm. auto. }
  assert (Hx : forall m, ex <> Some m -> o <> Some m).
  { intros m Hm E. apply Hm. auto. }
  constructor.
  - rewrite (fr_wait F). apply (Jn H).
  - rewrite (fr_wait F). intros m Hm. rewrite (fr_mv F) by auto. apply (Ji1 H); auto.
  - rewrite (fr_wait F). intros m f Hm He. rewrite (fr_mv F) in Hm by auto. eapply (Ji2 H); eauto.
  - intros m f Hm He. rewrite (fr_mv F) in Hm by auto. eapply (Jmap H); eauto.
  - unfold slots_k. rewrite (fr_val F), (fr_cap F), (in_use_framex _ _ _ F Hw). apply (Jsl H).
  - rewrite (fr_ts F), (fr_cap F), (fr_cfg F). apply (Jcap H).
  - rewrite (fr_ts F), (fr_val F), (fr_wait F). apply (Jinf H).
  - rewrite (fr_run F), (fr_num F). apply (Jlt H).
  - apply (fr_d F), (Jd H).
Qed.

Lemma wake_ok_framex o s s' :
  framex o s s' -> (forall m, In m (sem_waiters s) -> o <> Some m) -> wake_ok s -> wake_ok s'.
Proof.
  intros F Hw H. unfold wake_ok. rewrite (fr_ts F), (fr_wait F), (fr_val F).
  intros Ht m Hm Hf. rewrite (m_fw_of_framex _ _ _ m F) in Hf by auto.
  destruct (H Ht m Hm Hf) as [|[m' [H1 H2]]]; auto.
  right. exists m'. split; auto. rewrite (m_fw_of_framex _ _ _ m' F); auto.
Qed.

Lemma J_framex o s s' ex k :
  framex o s s' -> (forall m, o = Some m -> ex = Some m) -> J s ex k -> J s' ex k.
Proof.
  intros F Ho [H W]. split.
  - eapply Jw_framex; eauto.
  - eapply wake_ok_framex; eauto.
    intros m Hm E. apply (Ji1 H) in Hm. destruct Hm as [Hm _]. apply Hm. auto.
Qed.

Lemma J_frame s s' ex k : framex None s s' -> J s ex k -> J s' ex k.
Proof. intros F. eapply J_framex; eauto. discriminate. Qed.

Lemma J_framem s s' m k : framex (Some m) s s' -> J s (Some m) k -> J s' (Some m) k.
Proof. intros F. eapply J_framex; eauto. Qed.

Lemma Jw_framem s s' m k : framex (Some m) s s' -> Jw s (Some m) k -> Jw s' (Some m) k.
Proof. intros F. eapply Jw_framex; eauto. Qed.

(** adding / dropping the exception *)
Lemma Jw_add_ex s m k : Jw s None k -> ~ In m (sem_waiters s) -> Jw s (Some m) k.
Proof.
  intros H Hn. constructor; try apply H.
  - intros m' Hm. split; [intros E; inversion E; subst; tauto|]. apply (Ji1 H); auto.
  - intros m' f Hv _. eapply (Ji2 H); eauto. discriminate.
  - intros m' f Hv _. eapply (Jmap H); eauto. discriminate.
Qed.

Lemma J_add_ex s m k : J s None k -> ~ In m (sem_waiters s) -> J s (Some m) k.
Proof. intros [H W] Hn. split; auto. apply Jw_add_ex; auto. Qed.

Lemma Jw_drop_ex s m k :
  Jw s (Some m) k ->
  (forall pc f, mview s m = Some (pc, f) -> pc <> MWaitPool /\ (pc = MWaitMap -> waiting_fut f)) ->
  Jw s None k.
Proof.
  intros H Hm. constructor; try apply H.
  - intros m' Hi. split; [discriminate|]. apply (Ji1 H); auto.
  - intros m' f Hv _. destruct (Nat.eq_dec m' m) as [->|Hne].
    + apply Hm in Hv. destruct Hv; congruence.
    + eapply (Ji2 H); eauto. congruence.
  - intros m' f Hv _. destruct (Nat.eq_dec m' m) as [->|Hne].
    + apply Hm in Hv. destruct Hv; auto.
    + eapply (Jmap H); eauto. congruence.
Qed.

Lemma J_drop_ex s m k :
  J s (Some m) k ->
  (forall pc f, mview s m = Some (pc, f) -> pc <> MWaitPool /\ (pc = MWaitMap -> waiting_fut f)) ->
  J s None k.
Proof. intros [H W] Hm. split; auto. eapply Jw_drop_ex; eauto. Qed.

Lemma J_ex_notin s m k : Jw s (Some m) k -> ~ In m (sem_waiters s).
Proof. intros H Hi. apply (Ji1 H) in Hi. destruct Hi as [Hi _]. congruence. Qed.

(** view of [put_m] *)
Lemma mview_put_m_eq s m x x0 :
  get_m s m = Some x0 -> mview (put_m s m x) m = Some (m_pc x, m_fw x).
Proof.
  intros H. unfold mview, get_m, put_m in *. cbn.
  rewrite nth_error_upd_eq; auto. apply nth_error_Some. congruence.
Qed.

Lemma mview_put_m_neq s m m' x : m <> m' -> mview (put_m s m x) m' = mview s m'.
Proof.
  intros H. unfold mview, get_m, put_m. cbn. rewrite nth_error_upd_neq; auto.
Qed.

Lemma mview_put_m_none s m x m' : get_m s m = None -> mview (put_m s m x) m' = mview s m'.
Proof.
  intros H. unfold mview, get_m, put_m in *. cbn. rewrite upd_out; auto.
  apply nth_error_None; auto.
Qed.

Lemma mview_put_m_cur s m x pc f :
  mview (put_m s m x) m = Some (pc, f) -> pc = m_pc x /\ f = m_fw x.
Proof.
  unfold mview, get_m, put_m. cbn. rewrite nth_error_upd, Nat.eqb_refl.
  destruct (Nat.ltb m (length (mtasks s))); [|discriminate].
  intros E; inversion E; auto.
Qed.

(** [put_m] at the exception, ending with an unconstrained program counter *)
Lemma J_put_done s m x k :
  J s (Some m) k -> m_pc x <> MWaitPool -> (m_pc x = MWaitMap -> waiting_fut (m_fw x)) ->
  J (put_m s m x) None k.
Proof.
  intros H Hp Hf. apply J_drop_ex with (m := m).
  - eapply J_framem; eauto. apply fx_put_m, framex_refl.
  - intros pc f Hv. apply mview_put_m_cur in Hv. destruct Hv; subst. auto.
Qed.
