(** C08 — gather_and_close waits for everything, then closes for good.  Property theorems only. *)
From TP Require Import PSpecStep PRun PWF PStep_D PProps_B PProps_B_inv PExamples.

Theorem C08 : forall c tr, clean (run c tr) -> C08_spec (run c tr).
Proof. intros c tr Hc. destruct (WFx_run c tr Hc). apply C08_of_WF; assumption. Qed.

(** When gather_and_close() has returned normally, every request accepted before (group not
    cancelled; its spawner is finished by C08_spec.c08_closed_metas) has made exactly the
    invocations it was asked for, and no task is held. *)
Theorem C08_requests_complete : forall c tr d x re, clean (run c tr) -> taint_iter (run c tr) = false ->
  get_d (run c tr) d = Some x -> d_kind x = DGatherClose re -> d_final x = Some OResult ->
  let s := run c tr in
  regs s = [] /\
  forall m y, get_m s m = Some y -> m_dead y = false ->
    m_final y = Some OResult /\
    match m_kind y with
    | MMap _ => m_idx y = length (m_els y)
    | _ => tasks_of s m = (if m_bad y then 0 else m_num y)
    end.
Proof.
  intros c tr d x re Hc Hti Hx Hk Hf s. subst s.
  pose proof (WFx_run c tr Hc) as X. destruct X.
  pose proof (C08_of_WF _ x_wf x_d) as S8.
  pose proof (c08_gac_done _ S8 d x re Hx Hk Hf) as Hclosed.
  split; [exact (c08_closed_empty _ S8 Hclosed)|].
  intros m y Hy Hnd.
  destruct (c08_closed_metas _ S8 Hclosed m y Hy) as [Hfin|Hdead]; [|congruence].
  pose proof (IR_final _ (wfr _ x_wf) m y Hy) as HF. unfold req_final_ok in HF.
  pose proof (IR_progress _ (wfr _ x_wf) m y Hy) as HP. unfold req_progress in HP.
  pose proof (IR_ncreated _ (wfr _ x_wf) m y Hy) as HN.
  destruct (m_final y) as [[|e|]|] eqn:E; try congruence.
  - split; [reflexivity|].
    destruct HF as [HF|[HF|HF]]; try congruence.
    destruct (m_kind y); try exact HF.
    + destruct HP as [_ HP]. rewrite <- HN, HP. destruct (m_bad y); [reflexivity|exact HF].
    + destruct HP as [_ HP]. rewrite <- HN, HP. destruct (m_bad y); [reflexivity|exact HF].
  - destruct HF.
  - destruct HF as [HF|HF]; congruence.
Qed.

Example C08_example :
  let s := run cfg2 tr_close in
  clean s /\ closed s = true /\ regs s = [] /\ map d_final (dtasks s) = [Some OResult; Some OResult] /\
  res (step s (LOp (OpApply 1 false false w_sp CbNone CbNone None))) = RErr ErrPoolIsClosed.
Proof. vm_compute. repeat split; reflexivity. Qed.

Print Assumptions C08.
Print Assumptions C08_requests_complete.
