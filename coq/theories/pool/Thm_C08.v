(** C08 — gather_and_close waits for everything, then closes for good.  Property theorems only. *)
From TP Require Import PSpecStep PRun PWF PStep_D PProps_B PProps_B_inv PExamples.
From TP Require PProps_C08rc.

Theorem C08 : forall c tr, clean (run c tr) -> C08_spec (run c tr).
Proof. intros c tr Hc. destruct (WFx_run c tr Hc). apply C08_of_WF; assumption. Qed.

(** When gather_and_close() has returned normally, every request accepted before (group not
    cancelled; its spawner is finished by C08_spec.c08_closed_metas) has made exactly the
    invocations it was asked for, and no task is held. *)
Theorem C08_requests_complete : forall c tr d x re, clean (run c tr) -> taint_iter (run c tr) = false ->
  get_d (run c tr) d = Some x -> d_kind x = DGatherClose re -> d_final x = Some OResult ->
  let s := run c tr in
  regs s = [] /\
  forall m y, get_m s m = Some y -> m_dead y = false ->
    m_final y = Some OResult /\
    match m_kind y with
    | MMap _ => m_idx y = length (m_els y)
    | _ => tasks_of s m = ngood (m_bad y) (m_num y)
    end.
Proof. exact PProps_C08rc.C08_requests_complete_holds. Qed.

Example C08_example :
  let s := run cfg2 tr_close in
  clean s /\ closed s = true /\ regs s = [] /\ map d_final (dtasks s) = [Some OResult; Some OResult] /\
  res (step s (LOp (OpApply 1 [] false w_sp CbNone CbNone None))) = RErr ErrPoolIsClosed.
Proof. vm_compute. repeat split; reflexivity. Qed.

(** Monitor soundness: the extracted monitor for C08 (all seven clauses) never rejects a stream of the model (P-iter, P-self: both shown necessary in PMonSound8_cex.v). *)
From TP Require PMonSound8_C08 PObs PMon.
Theorem mon_sound : forall c tr, clean (run c tr) -> taint_iter (run c tr) = false -> taint_self (run c tr) = false -> PMon.ok_C08 c (PObs.observe c tr) = true.
Proof. exact PMonSound8_C08.mon_C08_sound. Qed.

(** EVENTUALLY: gather_and_close() does return.  Under a cooperative environment (PLive_def.coop:
    no further request or cancellation; every waiting worker may finish, every slow callback
    complete; internal steps in any order), pool size not 0 and pool_size not reassigned, in the
    final state of EVERY maximal cooperative run a pending gather_and_close() has returned - with
    OResult, or (return_exceptions=False only) with an exception raised by a pool task's user code
    - and when it returned normally the pool is closed, holds no task, every spawner has finished
    and every until_closed() waiter has returned.  (PLiveDrv.v also shows: with size 0 or after a
    pool_size assignment it can wait for ever - the D6 lost wake-up - and after a raising
    gather_and_close(False) the pool stays locked but open.) *)
From TP Require PLive_def PLiveDrv_stuck PLiveDrv.
Theorem C08_eventually_closes : forall c tr0 d x re,
  clean (run c tr0) -> taint_size (run c tr0) = false -> cf_size c <> Fin 0 ->
  get_d (run c tr0) d = Some x -> d_kind x = DGatherClose re ->
  forall tr, PLive_def.coop_run (run c tr0) tr ->
  (forall l, ~ PLive_def.coop_run (run c tr0) (tr ++ [l])) ->
  let s' := run c (tr0 ++ tr) in
  exists x', get_d s' d = Some x' /\ d_kind x' = DGatherClose re /\ PLiveDrv_stuck.drv_done x' /\
    (re = true \/ d_final x' = Some OResult ->
       d_final x' = Some OResult /\ closed s' = true /\ regs s' = [] /\
       (forall t y, get_p s' t = Some y -> p_pc y = PDone) /\
       (forall m y, get_m s' m = Some y -> m_final y <> None) /\
       (forall d' y, get_d s' d' = Some y -> d_kind y = DUntilClosed ->
                     PLiveDrv_stuck.drv_done y /\ d_final y = Some OResult)).
Proof.
  intros c tr0 d x re Hc Hts Hsz G K tr Hr Hmax s'.
  destruct (PLiveDrv.C08_eventually_closes c tr0 d x re Hc Hts Hsz G K tr Hr Hmax)
    as (x' & A & B & C & _ & E).
  exists x'. split; [exact A|]. split; [exact B|]. split; [exact C|exact E].
Qed.

(** until_closed() returns in a maximal cooperative run iff the pool ends closed *)
Theorem C08_until_closed_eventually : forall c tr0 d x,
  clean (run c tr0) ->
  get_d (run c tr0) d = Some x -> d_kind x = DUntilClosed ->
  forall tr, PLive_def.coop_run (run c tr0) tr ->
  (forall l, ~ PLive_def.coop_run (run c tr0) (tr ++ [l])) ->
  exists x', get_d (run c (tr0 ++ tr)) d = Some x' /\ d_kind x' = DUntilClosed /\
             (PLiveDrv_stuck.drv_done x' <-> closed (run c (tr0 ++ tr)) = true).
Proof. exact PLiveDrv.until_closed_eventually_returns. Qed.

Print Assumptions C08.
Print Assumptions C08_requests_complete.
Print Assumptions mon_sound.
Print Assumptions C08_eventually_closes.
Print Assumptions C08_until_closed_eventually.
