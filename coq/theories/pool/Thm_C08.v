(** C08 — gather_and_close waits for everything, then closes for good.  Property theorems only. *)
From TP Require Import PSpecStep PRun PWF PStep_D PProps_B PProps_B_inv PExamples.
From TP Require PProps_C08rc.

Theorem C08 : forall c tr, clean (run c tr) -> C08_spec (run c tr).
Proof. intros c tr Hc. destruct (WFx_run c tr Hc). apply C08_of_WF; assumption. Qed.

(** When gather_and_close() has returned normally, every request accepted before (group not
    cancelled; its spawner is finished by C08_spec.c08_closed_metas) has made exactly the
    invocations it was asked for, and no task is held. *)
Theorem C08_requests_complete : forall c tr d x re, clean (run c tr) -> taint_iter (run c tr) = false ->
  get_d (run c tr) d = Some x -> d_kind x = DGatherClose re -> d_final x = Some OResult ->
  let s := run c tr in
  regs s = [] /\
  forall m y, get_m s m = Some y -> m_dead y = false ->
    m_final y = Some OResult /\
    match m_kind y with
    | MMap _ => m_idx y = length (m_els y)
    | _ => tasks_of s m = ngood (m_bad y) (m_num y)
    end.
Proof. exact PProps_C08rc.C08_requests_complete_holds. Qed.

Example C08_example :
  let s := run cfg2 tr_close in
  clean s /\ closed s = true /\ regs s = [] /\ map d_final (dtasks s) = [Some OResult; Some OResult] /\
  res (step s (LOp (OpApply 1 [] false w_sp CbNone CbNone None))) = RErr ErrPoolIsClosed.
Proof. vm_compute. repeat split; reflexivity. Qed.

(** Monitor soundness: the extracted monitor for C08 (all seven clauses) never rejects a stream of the model (P-iter, P-self: both shown necessary in PMonSound8_cex.v). *)
From TP Require PMonSound8_C08 PObs PMon.
Theorem mon_sound : forall c tr, clean (run c tr) -> taint_iter (run c tr) = false -> taint_self (run c tr) = false -> PMon.ok_C08 c (PObs.observe c tr) = true.
Proof. exact PMonSound8_C08.mon_C08_sound. Qed.

Print Assumptions C08.
Print Assumptions C08_requests_complete.
Print Assumptions mon_sound.
