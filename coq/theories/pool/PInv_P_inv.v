(** View-level invariants (I1v, tok/TOKv) and their preservation by the view-level functions. *)
From TP Require Import PInv PInv_P_base PInv_P_view.
From Coq Require Import Permutation.

(** ** I1 on views *)
Definition I1v (v : pv) : Prop :=
  NoDup (vregs v) /\ (forall t, In t (vregs v) -> t < vns v) /\
  vns v = length (vpts v) /\ vns v = length (vregs v) + vnf v.

Lemma I1_iff s : I1 s <-> I1v (pview s).
Proof.
  split.
  - intros [a b c d]. repeat split; auto.
  - intros (a & b & c & d). constructor; auto.
Qed.

Lemma I1v_core v : I1v (vcore v) <-> I1v v.
Proof. reflexivity. Qed.

Lemma I1v_perm v v' :
  I1v v -> Permutation (vregs v') (vregs v) -> vns v' = vns v ->
  length (vpts v') = length (vpts v) -> vnf v' = vnf v -> I1v v'.
Proof.
  intros (a & b & c & d) P e1 e2 e3. repeat split.
  - eapply Permutation_NoDup; [apply Permutation_sym; eauto|auto].
  - intros t H. rewrite e1. apply b. eapply Permutation_in; eauto.
  - congruence.
  - rewrite e1, e3, (Permutation_length P). auto.
Qed.

Lemma I1v_vput v t x : I1v v -> I1v (vput v t x).
Proof.
  intros H. eapply I1v_perm; eauto. unfold vput; cbn. apply upd_length.
Qed.

Lemma perm_move1 A B t : In t A -> Permutation (remove1 t A ++ B ++ [t]) (A ++ B).
Proof.
  intros H. rewrite app_assoc.
  eapply perm_trans; [apply Permutation_sym, Permutation_cons_append|].
  apply Permutation_sym. change (t :: remove1 t A ++ B) with ((t :: remove1 t A) ++ B).
  apply Permutation_app_tail. apply Perm_remove1; auto.
Qed.

Lemma I1v_parts v : I1v v ->
  NoDup (vR v) /\ NoDup (vC v) /\ NoDup (vE v) /\
  (forall t, In t (vR v) -> ~ In t (vC v) /\ ~ In t (vE v)) /\
  (forall t, In t (vC v) -> ~ In t (vR v) /\ ~ In t (vE v)) /\
  (forall t, In t (vE v) -> ~ In t (vR v) /\ ~ In t (vC v)).
Proof.
  intros (a & _). unfold vregs in a.
  pose proof (NoDup_app_l _ _ a) as nr. pose proof (NoDup_app_r _ _ a) as nce.
  pose proof (NoDup_app_l _ _ nce) as nc. pose proof (NoDup_app_r _ _ nce) as ne.
  repeat split; auto; intros H1;
    try (eapply (NoDup_app_disj _ _ t a); eauto; rewrite in_app_iff; auto; fail);
    try (eapply (NoDup_app_disj _ _ t nce); eauto; fail).
Qed.

Definition moveRE v t := mkpv (remove1 t (vR v)) (vC v) (dict_add (vE v) t) (vns v) (vpts v) (vnf v) (vts v) (vds v) (vtu v).
Definition moveCE v t := mkpv (vR v) (remove1 t (vC v)) (dict_add (vE v) t) (vns v) (vpts v) (vnf v) (vts v) (vds v) (vtu v).
Definition moveRC v t := mkpv (remove1 t (vR v)) (dict_add (vC v) t) (vE v) (vns v) (vpts v) (vnf v) (vts v) (vds v) (vtu v).

Lemma I1v_moveRE v t : I1v v -> In t (vR v) -> I1v (moveRE v t).
Proof.
  intros H Hin. destruct (I1v_parts _ H) as (_ & _ & _ & hr & _).
  eapply I1v_perm; eauto. unfold vregs, moveRE; cbn.
  rewrite dict_add_notin by (apply hr; auto).
  rewrite (app_assoc (vC v)). apply perm_move1; auto.
Qed.

Lemma I1v_moveCE v t : I1v v -> In t (vC v) -> I1v (moveCE v t).
Proof.
  intros H Hin. destruct (I1v_parts _ H) as (_ & _ & _ & _ & hc & _).
  eapply I1v_perm; eauto. unfold vregs, moveCE; cbn.
  rewrite dict_add_notin by (apply hc; auto).
  apply Permutation_app_head. apply perm_move1; auto.
Qed.

Lemma I1v_moveRC v t : I1v v -> In t (vR v) -> I1v (moveRC v t).
Proof.
  intros H Hin. destruct (I1v_parts _ H) as (_ & _ & _ & hr & _).
  eapply I1v_perm; eauto. unfold vregs, moveRC; cbn.
  rewrite dict_add_notin by (apply hr; auto).
  rewrite <- (app_assoc (vC v)). simpl. rewrite app_assoc.
  eapply perm_trans; [apply Permutation_sym, Permutation_middle|].
  rewrite <- app_assoc.
  apply Permutation_sym.
  change (t :: remove1 t (vR v) ++ vC v ++ vE v) with ((t :: remove1 t (vR v)) ++ vC v ++ vE v).
  apply Permutation_app_tail. apply Perm_remove1; auto.
Qed.

Lemma I1v_enter_end v t x : I1v v -> I1v (enter_end_v v t x).
Proof.
  intros H. unfold enter_end_v.
  destruct (mem t (vR v)) eqn:E1; [|destruct (mem t (vC v)) eqn:E2].
  - apply I1v_vput. apply (I1v_moveRE _ _ H). now apply mem_In.
  - apply I1v_vput. apply (I1v_moveCE _ _ H). now apply mem_In.
  - now apply I1v_vput.
Qed.

Lemma I1v_enter_cancel v t x : I1v v -> I1v (enter_cancel_v v t x).
Proof.
  intros H. unfold enter_cancel_v.
  destruct (mem t (vR v)) eqn:E1.
  - apply mem_In in E1. pose proof (I1v_moveRC _ _ H E1) as H1.
    destruct (p_ccb x); [apply I1v_enter_end|apply I1v_vput..]; exact H1.
  - now apply I1v_enter_end.
Qed.

Lemma I1v_register v m x : I1v v -> I1v (register_v v m x).
Proof.
  intros (a & b & c & d). unfold register_v, I1v, vregs in *; cbn.
  assert (Hn : ~ In (vns v) (vR v ++ vC v ++ vE v)) by (intros H; apply b in H; lia).
  rewrite dict_add_notin by (intros H; apply Hn; rewrite in_app_iff; auto).
  repeat split.
  - rewrite <- app_assoc. simpl.
    eapply Permutation_NoDup; [apply Permutation_middle|]. constructor; auto.
  - intros t Ht.
    assert (In t (vR v ++ vC v ++ vE v) \/ t = vns v) as [H| ->]; [|apply b in H; lia|lia].
    rewrite !in_app_iff in *. simpl in Ht.
    destruct Ht as [[H|[H|[]]]|[H|H]]; auto.
  - rewrite app_length. simpl. lia.
  - rewrite !app_length in *. simpl. lia.
Qed.

Lemma I1v_cancel_p v cur t : I1v v -> I1v (cancel_p_v v cur t).
Proof.
  intros H. unfold cancel_p_v. destruct (vget v t); auto. destruct (p_unst p); auto.
  - destruct (p_final p); auto. eapply I1v_perm; eauto. cbn. apply upd_length.
  - now apply I1v_vput.
  - now apply I1v_vput.
Qed.

Lemma NoDup_app_sub {A} (a a' b b' : list A) :
  (forall x, In x a' -> In x a) -> (forall x, In x b' -> In x b) ->
  NoDup a' -> NoDup b' -> NoDup (a ++ b) -> NoDup (a' ++ b').
Proof.
  intros ha hb na nb nab. apply NoDup_app_intro; auto.
  intros x h1 h2. eapply (NoDup_app_disj _ _ x nab); auto.
Qed.

Lemma I1v_after_g2 v k snap outer : I1v v -> I1v (after_g2_v v k snap outer).
Proof.
  intros H. unfold after_g2_v.
  assert (Hf : I1v (mkpv (vR v) (filter (not_in snap) (vC v)) (filter (not_in snap) (vE v))
                     (vns v) (vpts v)
                     (vnf v + ((length (vE v) - length (filter (not_in snap) (vE v))) +
                               (length (vC v) - length (filter (not_in snap) (vC v)))))
                     (vts v) (vds v) (vtu v))).
  { destruct H as (a & b & c & d). unfold I1v, vregs in *; cbn. repeat split; auto.
    - pose proof (NoDup_app_l _ _ a) as nr. pose proof (NoDup_app_r _ _ a) as nce.
      pose proof (NoDup_app_l _ _ nce) as nc. pose proof (NoDup_app_r _ _ nce) as ne.
      eapply (NoDup_app_sub (vR v) (vR v) (vC v ++ vE v)); eauto.
      + intros x. rewrite !in_app_iff, !filter_In. tauto.
      + eapply (NoDup_app_sub (vC v) _ (vE v)); eauto using NoDup_filter;
          intros x; rewrite filter_In; tauto.
    - intros t Ht. apply b. rewrite !in_app_iff, !filter_In in *. tauto.
    - rewrite !app_length in *.
      pose proof (filter_length_le (not_in snap) (vE v)).
      pose proof (filter_length_le (not_in snap) (vC v)). lia. }
  assert (Hg : I1v (mkpv [] [] [] (vns v) (vpts v)
                     (vnf v + (length (vE v) + length (vC v) + length (vR v))) (vts v) (vds v) (vtu v))).
  { destruct H as (a & b & c & d). unfold I1v, vregs in *; cbn. repeat split; auto.
    - constructor.
    - intros t [].
    - rewrite !app_length in *. lia. }
  destruct outer; auto; destruct k; auto.
Qed.
