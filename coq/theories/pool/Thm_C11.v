(** C11 — Task ids are dense, ordered, never reused.  Property theorems only. *)
From TP Require Import PSpec PRun PWF PProps_B PInv_P PExamples.

Theorem C11 : forall c tr, clean (run c tr) -> C11_spec (run c tr).
Proof. intros c tr Hc. apply C11_of_WF. apply WF_run. exact Hc. Qed.

(** ids are never reused: the number of ids issued equals tasks filed plus tasks forgotten, so
    flushing does not lower the next id *)
Theorem C11_never_reused : forall c tr, clean (run c tr) ->
  num_started (run c tr) = length (regs (run c tr)) + n_forgotten (run c tr).
Proof. intros c tr Hc. exact (I1_forgotten _ (wf1 _ (WF_run c tr Hc))). Qed.

Example C11_example :
  let s := run cfg2 tr_cancel in clean s /\ num_started s = 3 /\ n_forgotten s = 1 /\ regs s = [1; 2].
Proof. vm_compute. repeat split; reflexivity. Qed.

(** Monitor soundness: the extracted monitor for C11 (both clauses) never rejects a stream of the model. *)
From TP Require PMonSound11_C11 PObs PMon.
Theorem mon_sound : forall c tr, clean (run c tr) -> PMon.ok_C11 c (PObs.observe c tr) = true.
Proof. exact PMonSound11_C11.mon_C11_sound. Qed.

Print Assumptions C11.
Print Assumptions C11_never_reused.
Print Assumptions mon_sound.
