(** Erasure commutes with the drivers, provided every gather has return_exceptions=True. *)
From TP Require Export PNonInt_sem.

Local Notation E := erase_state.

Definition er_out (r : tref) (o : outcome) : outcome :=
  match r with TP _ => erase_outcome o | _ => o end.

Lemma E_tref_final s r : tref_final (E s) r = option_map (er_out r) (tref_final s r).
Proof.
  destruct r as [t|m|d]; simpl; autorewrite with er.
  - destruct (get_p s t); reflexivity.
  - destruct (get_m s m) as [x|]; simpl; auto. destruct (m_final x); reflexivity.
  - destruct (get_d s d) as [x|]; simpl; auto. destruct (d_final x); reflexivity.
Qed.

Lemma gather_cb_re n o o' nfin outer : gather_cb true n o nfin outer = gather_cb true n o' nfin outer.
Proof. unfold gather_cb. destruct outer; reflexivity. Qed.

Lemma E_gather_eager s cs n : forall nfin outer cbs,
  gather_eager (E s) cs true n nfin outer cbs = gather_eager s cs true n nfin outer cbs.
Proof.
  induction cs as [|c t IH]; intros nfin outer cbs; simpl; auto.
  rewrite E_tref_final. destruct (tref_final s c) as [o|]; simpl option_map; cbv iota; auto.
  rewrite (gather_cb_re n (er_out c o) o).
  destruct (gather_cb true n o nfin outer). apply IH.
Qed.

Lemma E_make_gather s cs : make_gather (E s) cs true = make_gather s cs true.
Proof. unfold make_gather. destruct cs; auto. rewrite E_gather_eager. reflexivity. Qed.

Lemma make_gather_re s cs re : g_re (fst (make_gather s cs re)) = re.
Proof.
  unfold make_gather. destruct cs; auto.
  destruct (gather_eager s (t :: cs) re (length (t :: cs)) 0 FPending []) as [[a b] c].
  reflexivity.
Qed.

Lemma E_is_done_m s m : is_done_m (E s) m = is_done_m s m.
Proof. unfold is_done_m. rewrite E_tref_final. destruct (tref_final s (TM m)); reflexivity. Qed.

Lemma filter_ext' {A} (f g : A -> bool) l : (forall a, f a = g a) -> filter f l = filter g l.
Proof. intros H. induction l; simpl; auto. rewrite H, IHl. reflexivity. Qed.

Lemma E_pop_ended s l : pop_ended (E s) l = pop_ended s l.
Proof.
  induction l as [|[g ms] t IH]; simpl; auto. rewrite IH.
  rewrite (filter_ext' (is_done_m (E s)) (is_done_m s)) by (apply E_is_done_m).
  rewrite (filter_ext' (fun m => negb (is_done_m (E s) m)) (fun m => negb (is_done_m s m)))
    by (intros; rewrite E_is_done_m; reflexivity).
  reflexivity.
Qed.

Lemma E_wake_closed ds : forall s, E (wake_closed s ds) = wake_closed (E s) ds.
Proof.
  induction ds as [|d t IH]; intros s; simpl; auto.
  rewrite E_get_d. destruct (get_d s d) as [x|]; auto.
  destruct (fut_pending (d_fw x)); auto. rewrite IH. autorewrite with er. reflexivity.
Qed.

Lemma E_after_g2 s d x outer : E (after_g2 s d x outer) = after_g2 (E s) d x outer.
Proof.
  unfold after_g2.
  destruct outer; try (autorewrite with er; reflexivity);
    (destruct (d_kind x); autorewrite with er; try reflexivity;
     rewrite E_wake_closed; reflexivity).
Qed.

Lemma E_start_g2 s d x cs : E (start_g2 s d x cs true) = start_g2 (E s) d x cs true.
Proof.
  unfold start_g2. rewrite E_make_gather.
  destruct (make_gather s (map TP cs) true) as [g outer].
  destruct outer; try apply E_after_g2. autorewrite with er. reflexivity.
Qed.

(** ** The driver restriction *)
Definition kind_ok (k : dkind) : Prop := k <> DFlush false /\ k <> DGatherClose false.

Definition dt_ok (x : dtask) : Prop :=
  kind_ok (d_kind x) /\
  (forall g, d_g1 x = Some g -> g_re g = true) /\
  (forall g, d_g2 x = Some g -> g_re g = true).

Definition re_drivers (s : state) : Prop := forall d x, get_d s d = Some x -> dt_ok x.

Lemma kind_ok_flush re : kind_ok (DFlush re) -> re = true.
Proof. intros [H _]. destruct re; auto; exfalso; apply H; reflexivity. Qed.

Lemma kind_ok_gac re : kind_ok (DGatherClose re) -> re = true.
Proof. intros [_ H]. destruct re; auto; exfalso; apply H; reflexivity. Qed.

Lemma E_after_g1 s d x outer :
  kind_ok (d_kind x) -> E (after_g1 s d x outer) = after_g1 (E s) d x outer.
Proof.
  intros Hk. unfold after_g1. destruct (d_kind x) eqn:Hkx.
  - apply kind_ok_flush in Hk. subst re.
    assert (Hgo : E (start_g2 (set_meta_cancelled s []) d x
                       (dict_merge (t_ended (set_meta_cancelled s []))
                                   (t_cancelled (set_meta_cancelled s []))) true) =
                  start_g2 (set_meta_cancelled (E s) []) d x
                       (dict_merge (t_ended (set_meta_cancelled (E s) []))
                                   (t_cancelled (set_meta_cancelled (E s) []))) true).
    { rewrite E_start_g2. reflexivity. }
    destruct outer as [| |e|]; auto.
    destruct e; auto; autorewrite with er; reflexivity.
  - apply kind_ok_gac in Hk. subst re. cbv iota. rewrite E_start_g2. reflexivity.
  - autorewrite with er. reflexivity.
Qed.

Lemma E_start_g1 s d x cs :
  kind_ok (d_kind x) -> E (start_g1 s d x cs true) = start_g1 (E s) d x cs true.
Proof.
  intros Hk. unfold start_g1. rewrite E_make_gather.
  destruct (make_gather s (map TM cs) true) as [g outer].
  destruct outer; try (apply E_after_g1; exact Hk). autorewrite with er. reflexivity.
Qed.

Lemma E_run_d s d : re_drivers s -> E (run_d s d) = run_d (E s) d.
Proof.
  intros HR. unfold run_d. rewrite E_get_d.
  destruct (get_d s d) as [x0|] eqn:Hx; auto.
  destruct (HR d x0 Hx) as (Hk & _ & _).
  destruct (d_pc x0); auto.
  - cbn [d_kind set_d_fw]. destruct (d_kind x0) eqn:Hkx.
    + apply kind_ok_flush in Hk. subst re. rewrite Ep_gmeta, E_pop_ended.
      destruct (pop_ended s (gmeta s)) as [gm ended].
      rewrite E_start_g1 by (cbn; rewrite Hkx; split; discriminate). reflexivity.
    + rewrite E_start_g1 by (cbn; rewrite Hkx; exact Hk). reflexivity.
    + rewrite Ep_closed. destruct (closed s); autorewrite with er; reflexivity.
  - apply E_after_g1. exact Hk.
  - apply E_after_g2.
  - autorewrite with er. reflexivity.
Qed.

Lemma E_run_g s d c : re_drivers s -> E (run_g s d c) = run_g (E s) d c.
Proof.
  intros HR. unfold run_g. rewrite E_get_d, E_tref_final.
  destruct (get_d s d) as [x|] eqn:Hx; auto.
  destruct (HR d x Hx) as (_ & H1 & H2).
  destruct (tref_final s c) as [o|]; simpl option_map; cbv iota; auto.
  set (phase1 := match c with TM _ => true | _ => false end).
  assert (Hre : forall g, (if phase1 then d_g1 x else d_g2 x) = Some g -> g_re g = true).
  { intros g. destruct phase1; auto. }
  destruct (if phase1 then d_g1 x else d_g2 x) as [g|]; auto.
  rewrite (Hre g eq_refl).
  destruct (if match d_pc x, phase1 with
               | DWaitG1, true | DWaitG2, false => true | _, _ => false end
            then d_fw x else None) as [[| | |]|]; try reflexivity.
  rewrite (gather_cb_re (length (g_children g)) (er_out c o) o).
  destruct (gather_cb true (length (g_children g)) o (g_nfin g) FPending) as [nfin outer].
  destruct outer; autorewrite with er; reflexivity.
Qed.
