(** C12 / C08 — [Extra_D] along the driver chain (run_d, run_g) and OpDriver. *)
From TP Require Import PSpecStep PInv_P_base PStep_D_base.
From TP Require PInv_P_chain.
From Coq Require Import Lia.
Import ListNotations.

(** spawners never fail (IR_final) *)
Definition MNE (s : state) : Prop := forall m y e, get_m s m = Some y -> m_final y <> Some (OExc e).

Definition DTx (s : state) (d : nat) : Prop :=
  forall d' x', d' <> d -> get_d s d' = Some x' -> dt_ok s d' x'.

(** result of a driver step relative to its start *)
Definition DR (s s' : state) : Prop :=
  ptasks s' = ptasks s /\ mtasks s' = mtasks s /\ DT s' /\ CM s'.

(** ** gathers *)
Definition child_fail (s : state) (cs : list tref) (e : exn) : Prop :=
  exists c o, In c cs /\ tref_final s c = Some o /\ (o = OExc e \/ (o = OCancelled /\ e = ECancelled)).

Definition good_outer (s : state) (cs : list tref) (re : bool) (outer : fut) : Prop :=
  outer <> FCancelled /\ forall e, outer = FExc e -> re = false /\ child_fail s cs e.

Lemma mg_cb_notpending re n o nfin outer :
  outer <> FPending -> snd (gather_cb re n o nfin outer) = outer.
Proof. destruct outer; cbn; congruence. Qed.

Lemma mg_cb_pending s cs re n o nfin c :
  In c cs -> tref_final s c = Some o ->
  good_outer s cs re (snd (gather_cb re n o nfin FPending)).
Proof.
  intros Hc Hf. unfold gather_cb.
  destruct re; cbn [snd].
  - split; [destruct (Nat.eqb _ _); discriminate|]. intros e E. destruct (Nat.eqb _ _); discriminate.
  - destruct o as [|e0|]; cbn [snd].
    + split; [destruct (Nat.eqb _ _); discriminate|]. intros e E. destruct (Nat.eqb _ _); discriminate.
    + split; [discriminate|]. intros e E. inversion E; subst. split; auto.
      exists c, (OExc e). auto.
    + split; [discriminate|]. intros e E. inversion E; subst. split; auto.
      exists c, OCancelled. auto.
Qed.

Lemma mg_eager s all re n : forall cs nfin outer cbs,
  (forall c, In c cs -> In c all) -> good_outer s all re outer ->
  good_outer s all re (snd (fst (gather_eager s cs re n nfin outer cbs))).
Proof.
  induction cs as [|c t IH]; intros nfin outer cbs Hin Hg; cbn [gather_eager]; auto.
  destruct (tref_final s c) as [o|] eqn:F.
  - destruct (gather_cb re n o nfin outer) as [nf' out'] eqn:E.
    apply IH; [intros; apply Hin; right; auto|].
    assert (out' = snd (gather_cb re n o nfin outer)) by (rewrite E; auto). subst out'.
    destruct outer; try (rewrite mg_cb_notpending by discriminate; exact Hg).
    eapply mg_cb_pending; eauto. apply Hin. left; auto.
  - apply IH; auto. intros; apply Hin; right; auto.
Qed.

Lemma mg_make s cs re g outer :
  make_gather s cs re = (g, outer) -> g_re g = re /\ good_outer s cs re outer.
Proof.
  unfold make_gather. destruct cs as [|c0 t].
  - intros E; inversion E; subst. split; auto. split; [discriminate|]. intros e X; discriminate.
  - pose proof (mg_eager s (c0 :: t) re (length (c0 :: t)) (c0 :: t) 0 FPending []
                  (fun c H => H)) as B.
    destruct (gather_eager s (c0 :: t) re (length (c0 :: t)) 0 FPending []) as [[nf out] cb].
    intros E; inversion E; subst. split; auto. apply B.
    split; [discriminate|]. intros e X; discriminate.
Qed.

Lemma final_of_exc e' e : final_of (Some e') false = OExc e -> e' = e.
Proof. destruct e'; simpl; intros H; inversion H; auto. Qed.

Lemma final_of_canc e' : final_of (Some e') false = OCancelled -> e' = ECancelled.
Proof. destruct e'; simpl; intros H; inversion H; auto. Qed.

(** the exception a gather fails with comes from a pool task, unless the child is a (cancelled)
    spawner *)
Lemma child_src s c o e :
  DT s -> MNE s -> tref_final s c = Some o ->
  (o = OExc e \/ (o = OCancelled /\ e = ECancelled)) ->
  ((exists m, c = TM m) /\ e = ECancelled) \/ tsrc s e.
Proof.
  intros HD HM F Ho. destruct c as [t|m|d]; simpl in F.
  - right. destruct (get_p s t) as [y|] eqn:G; [|discriminate].
    exists t, y. split; auto. destruct Ho as [->|[-> ->]]; auto.
  - left. split; [eauto|]. destruct (get_m s m) as [y|] eqn:G; [|discriminate].
    destruct Ho as [->|[-> ->]]; auto. exfalso. eapply HM; eauto.
  - right. destruct (get_d s d) as [x|] eqn:G; [|discriminate].
    destruct (dfin (HD d x G) o F) as [->|[_ [e' [E S]]]].
    + destruct Ho as [?|[? _]]; discriminate.
    + destruct Ho as [->|[-> ->]].
      * symmetry in E. apply final_of_exc in E. subst. auto.
      * symmetry in E. apply final_of_canc in E. subst. auto.
Qed.

Lemma first_exception_src s cs e :
  first_exception s cs = Some e -> exists c, In c cs /\ tref_final s c = Some (OExc e).
Proof.
  induction cs as [|c t IH]; simpl; [discriminate|].
  destruct (tref_final s c) as [[| e0 |]|] eqn:F; intros H;
    try (destruct (IH H) as [c' [Hi Hf]]; exists c'; auto).
  inversion H; subst. exists c. auto.
Qed.

(** ** DT under record updates *)
Lemma DT_same s s' :
  dtasks s' = dtasks s -> closed s' = closed s -> closed_waiters s' = closed_waiters s ->
  ptasks s' = ptasks s -> DT s -> DT s'.
Proof.
  intros Ed Ec Ew Ep H d x G. unfold get_d in G. rewrite Ed in G.
  eapply dt_ok_ext; [exact Ec|rewrite Ew; auto|rewrite Ep; apply pext_refl|]. apply H. exact G.
Qed.

Lemma DTx_same s s' d0 :
  dtasks s' = dtasks s -> closed s' = closed s ->
  (forall d, d <> d0 -> In d (closed_waiters s) -> In d (closed_waiters s')) ->
  ptasks s' = ptasks s -> DTx s d0 -> DTx s' d0.
Proof.
  intros Ed Ec Ew Ep H d x Hne G. unfold get_d in G. rewrite Ed in G.
  eapply dt_ok_ext; [exact Ec|apply Ew; auto|rewrite Ep; apply pext_refl|]. apply H; auto.
Qed.

Lemma DT_DTx s d : DT s -> DTx s d.
Proof. intros H d' x' _ G. apply H; auto. Qed.

Lemma DT_put_d s d x' : DTx s d -> dt_ok s d x' -> DT (put_d s d x').
Proof.
  intros H Hx d' x G. unfold get_d, put_d in G. cbn in G. rewrite nth_error_upd in G.
  destruct (Nat.eqb_spec d d') as [<-|Hne].
  - destruct (Nat.ltb d (length (dtasks s))); [|discriminate]. inversion G; subst.
    eapply dt_ok_ext; [..|exact Hx]; auto. apply pext_refl.
  - eapply dt_ok_ext; [..|apply (H d' x)]; auto. apply pext_refl.
Qed.

Lemma CM_same s s' : mtasks s' = mtasks s -> closed s' = closed s -> CM s -> CM s'.
Proof.
  intros Em Ec H C m y G. rewrite Ec in C. unfold get_m in G. rewrite Em in G. apply (H C m y G).
Qed.

Ltac dtk :=
  constructor;
  cbn [d_pc d_fw d_kind d_final d_g1 d_g2 d_snap set_d_pc set_d_fw set_d_final set_d_g1 set_d_g2
       set_d_snap];
  try (intros; discriminate); try (intros [?|?]; discriminate).

(** *** finish_d *)
Lemma DR_finish_d s0 s d x exc :
  ptasks s = ptasks s0 -> mtasks s = mtasks s0 -> DTx s d -> CM s ->
  (forall g re, d_g1 x = Some g -> d_kind x = DGatherClose re -> g_re g = true) ->
  (forall g, d_g2 x = Some g -> kind_re (d_kind x) = Some (g_re g)) ->
  (forall e, exc = Some e -> kind_re (d_kind x) = Some false /\ tsrc s e) ->
  (forall re, d_kind x = DGatherClose re -> exc = None -> closed s = true) ->
  (d_kind x = DUntilClosed -> closed s = true) ->
  DR s0 (finish_d s d x exc).
Proof.
  intros Ep Em HD HC G1 G2 He Hg Hu. unfold finish_d. cbv zeta.
  split; [exact Ep|split; [exact Em|split]].
  - apply (DT_same (put_d s d (set_d_final (set_d_pc (set_d_fw x None) DDone)
                                            (Some (final_of exc false))))); try reflexivity.
    apply DT_put_d; auto. dtk; auto.
    + intros o E. inversion E; subst. destruct exc as [e|]; [|left; reflexivity].
      right. destruct (He e eq_refl). split; auto. exists e. auto.
    + intros re K E. inversion E. destruct exc as [e|]; [|eauto].
      destruct e; simpl in H0; discriminate.
  - eapply CM_same; [| |exact HC]; reflexivity.
Qed.

(** *** wake_closed *)
Lemma wake_closed_frame ds : forall s,
  ptasks (wake_closed s ds) = ptasks s /\ mtasks (wake_closed s ds) = mtasks s /\
  closed (wake_closed s ds) = closed s /\ closed_waiters (wake_closed s ds) = closed_waiters s.
Proof.
  induction ds as [|a t IH]; intros s; simpl; auto.
  destruct (IH (match get_d s a with
                | Some x => if fut_pending (d_fw x)
                            then sched (put_d s a (set_d_fw x (Some FOk))) (HT (TD a)) else s
                | None => s end)) as [E1 [E2 [E3 E4]]].
  rewrite E1, E2, E3, E4.
  destruct (get_d s a) as [x|]; auto. destruct (fut_pending (d_fw x)); auto.
  unfold sched. destruct (is_ready _ _); auto.
Qed.

Definition woken (x x' : dtask) : Prop :=
  x' = x \/ (fut_pending (d_fw x) = true /\ x' = set_d_fw x (Some FOk)).

Lemma wake_closed_get ds : forall s d x',
  get_d (wake_closed s ds) d = Some x' ->
  exists x, get_d s d = Some x /\ woken x x' /\ (In d ds -> fut_pending (d_fw x') = false).
Proof.
  induction ds as [|a t IH]; intros s d x' G; simpl in G.
  - exists x'. split; auto. split; [left; auto|intros []].
  - apply IH in G. destruct G as [x1 [G1 [W1 B1]]].
    destruct (get_d s a) as [xa|] eqn:Ga.
    2:{ exists x1. split; auto. split; auto. intros [<-|Hi]; auto. congruence. }
    destruct (fut_pending (d_fw xa)) eqn:Pa.
    + assert (G1' : get_d (put_d s a (set_d_fw xa (Some FOk))) d = Some x1).
      { revert G1. unfold sched. destruct (is_ready _ _); auto. }
      unfold get_d, put_d in G1'. cbn in G1'. rewrite nth_error_upd in G1'.
      destruct (Nat.eqb_spec a d) as [<-|Hne].
      * assert (Hlt : a < length (dtasks s)) by (apply nth_error_Some; unfold get_d in Ga; congruence).
        apply Nat.ltb_lt in Hlt. rewrite Hlt in G1'. inversion G1'; subst x1.
        exists xa. split; auto.
        assert (x' = set_d_fw xa (Some FOk)).
        { destruct W1 as [->|[P _]]; auto. discriminate. }
        subst x'. split; [right; auto|]. intros _. reflexivity.
      * exists x1. split; auto. split; auto. intros [E|Hi]; [congruence|auto].
    + exists x1. split; auto. split; auto. intros [<-|Hi]; auto.
      assert (x1 = xa) by congruence. subst x1.
      destruct W1 as [->|[P _]]; auto. congruence.
Qed.

(** closing the pool: every until_closed() waiter is released *)
Lemma DTx_close s s2 d0 :
  dtasks s2 = dtasks s -> closed s2 = true -> closed_waiters s2 = closed_waiters s ->
  ptasks s2 = ptasks s -> DTx s d0 -> DTx (wake_closed s2 (closed_waiters s2)) d0.
Proof.
  intros Ed Ec Ew Ep H d x' Hne G.
  destruct (wake_closed_frame (closed_waiters s2) s2) as [F1 [F2 [F3 F4]]].
  destruct (wake_closed_get _ _ _ _ G) as [x [Gx [W B]]].
  unfold get_d in Gx. rewrite Ed in Gx. pose proof (H d x Hne Gx) as Hx.
  assert (T : forall e, tsrc s e -> tsrc (wake_closed s2 (closed_waiters s2)) e).
  { intros e. apply tsrc_ext. rewrite F1, Ep. apply pext_refl. }
  assert (Cl : closed (wake_closed s2 (closed_waiters s2)) = true) by congruence.
  destruct W as [->|[P ->]].
  - constructor; try apply Hx; auto.
    + intros e Pc F. destruct (df_e2 Hx e Pc F). auto.
    + intros o F. destruct (dfin Hx o F) as [|[Hk [e [Ho Hs]]]]; auto.
      right. split; auto. exists e. auto.
    + intros Pc. destruct (dwc Hx Pc) as [Hi Hc]. split; [rewrite F4, Ew; exact Hi|].
      right. split; [exact Cl|].
      destruct Hc as [[_ Hf]|[_ Hf]]; auto.
      rewrite Ew in B. specialize (B Hi). rewrite Hf in B. discriminate.
  - dtk; try apply Hx; auto.
    + intros o F. destruct (dfin Hx o F) as [|[Hk [e [Ho Hs]]]]; auto.
      right. split; auto. exists e. auto.
    + intros Pc. destruct (dwc Hx Pc) as [Hi Hc]. split; [rewrite F4, Ew; exact Hi|]. auto.
Qed.

(** *** after_g2 *)
Lemma DR_after_g2 s0 s d x outer :
  ptasks s = ptasks s0 -> mtasks s = mtasks s0 -> DTx s d -> CM s ->
  d_final x = None ->
  (forall g re, d_g1 x = Some g -> d_kind x = DGatherClose re -> g_re g = true) ->
  (forall g, d_g2 x = Some g -> kind_re (d_kind x) = Some (g_re g)) ->
  d_kind x <> DUntilClosed ->
  outer <> FCancelled ->
  (forall e, outer = FExc e -> kind_re (d_kind x) = Some false /\ tsrc s e) ->
  (forall re, d_kind x = DGatherClose re -> (forall e, outer <> FExc e) -> MP s) ->
  DR s0 (after_g2 s d x outer).
Proof.
  intros Ep Em HD HC Hf G1 G2 Hk Hnc He Hmp. unfold after_g2.
  assert (Main : (forall e, outer <> FExc e) ->
    DR s0 (match d_kind x with
       | DFlush _ =>
           let snap := d_snap x in
           let e' := filter (not_in snap) (t_ended s) in
           let c' := filter (not_in snap) (t_cancelled s) in
           let n := (length (t_ended s) - length e') + (length (t_cancelled s) - length c') in
           let s := set_n_forgotten (set_t_cancelled (set_t_ended s e') c') (n_forgotten s + n) in
           finish_d s d x None
       | DGatherClose _ =>
           let n := length (t_ended s) + length (t_cancelled s) + length (t_running s) in
           let s := set_n_forgotten
                      (set_t_running (set_t_cancelled (set_t_ended s []) []) [])
                      (n_forgotten s + n) in
           let s := set_closed s true in
           let s := wake_closed s (closed_waiters s) in
           finish_d s d x None
       | DUntilClosed => finish_d s d x None
       end)).
  { intros Hne. cbv zeta. destruct (d_kind x) eqn:K; [| |congruence].
    - apply DR_finish_d; rewrite ?K; auto; try discriminate;
        try (eapply DTx_same; [..|exact HD]; auto); try (eapply CM_same; [..|exact HC]; auto).
    - set (s2 := set_closed
                   (set_n_forgotten (set_t_running (set_t_cancelled (set_t_ended s []) []) [])
                      (n_forgotten s + (length (t_ended s) + length (t_cancelled s) +
                                        length (t_running s)))) true).
      destruct (wake_closed_frame (closed_waiters s2) s2) as [F1 [F2 [F3 F4]]].
      apply DR_finish_d; rewrite ?K; auto; try discriminate.
      + rewrite F1. exact Ep.
      + rewrite F2. exact Em.
      + apply (DTx_close s s2 d); auto.
      + intros _ m y G. unfold get_m in G. rewrite F2 in G. apply (Hmp re eq_refl Hne m y G). }
  destruct outer as [| |e|]; try (apply Main; intros e0; discriminate).
  - destruct (He e eq_refl) as [Hk' Hs].
    apply DR_finish_d; auto; try discriminate.
    intros e' X. inversion X; subst. auto.
  - congruence.
Qed.

(** *** start_g2 *)
Lemma DR_start_g2 s0 s d x cs re :
  ptasks s = ptasks s0 -> mtasks s = mtasks s0 -> DT s -> CM s -> MNE s ->
  d_final x = None ->
  (forall g re, d_g1 x = Some g -> d_kind x = DGatherClose re -> g_re g = true) ->
  kind_re (d_kind x) = Some re ->
  (forall re', d_kind x = DGatherClose re' -> MP s) ->
  DR s0 (start_g2 s d x cs re).
Proof.
  intros Ep Em HD HC HM Hf G1 Hk Hmp. unfold start_g2.
  destruct (make_gather s (map TP cs) re) as [g outer] eqn:E.
  destruct (mg_make _ _ _ _ _ E) as [Hre [Hnc Hex]].
  assert (Hku : d_kind x <> DUntilClosed) by (intros X; rewrite X in Hk; discriminate).
  assert (B : outer <> FPending ->
              DR s0 (after_g2 s d (set_d_snap (set_d_g2 x (Some g)) cs) outer)).
  { intros _. apply DR_after_g2; auto using DT_DTx.
    - cbn. intros g' X. inversion X; subst. congruence.
    - cbn. intros e X. destruct (Hex e X) as [-> [c [o [Hc [Hfc Ho]]]]]. split; auto.
      destruct (child_src s c o e HD HM Hfc Ho) as [[[m ->] _]|]; auto.
      apply in_map_iff in Hc. destruct Hc as [t [X' _]]. discriminate.
    - cbn. intros re' K _. eauto. }
  destruct outer; try (apply B; discriminate).
  split; [exact Ep|split; [exact Em|split]].
  - apply (DT_same (put_d s d (set_d_fw (set_d_pc (set_d_snap (set_d_g2 x (Some g)) cs) DWaitG2)
                                         (Some FPending)))); try reflexivity.
    apply DT_put_d; auto using DT_DTx. dtk; auto.
    + intros g' X. inversion X; subst. congruence.
    + intros o X. congruence.
    + intros re' _ X. congruence.
  - eapply CM_same; [| |exact HC]; reflexivity.
Qed.

(** *** after_g1 *)
Lemma DR_after_g1 s0 s d x outer :
  ptasks s = ptasks s0 -> mtasks s = mtasks s0 -> DT s -> CM s -> MNE s ->
  d_final x = None ->
  (forall g re, d_g1 x = Some g -> d_kind x = DGatherClose re -> g_re g = true) ->
  (forall g, d_g2 x = Some g -> kind_re (d_kind x) = Some (g_re g)) ->
  d_kind x <> DUntilClosed ->
  (forall e, outer = FExc e -> e = ECancelled) ->
  (forall re', d_kind x = DGatherClose re' -> MP s) ->
  DR s0 (after_g1 s d x outer).
Proof.
  intros Ep Em HD HC HM Hf G1 G2 Hku Hex Hmp. unfold after_g1.
  destruct (d_kind x) eqn:K; [| |congruence].
  - assert (B : DR s0 (start_g2 (set_meta_cancelled s []) d x
                         (dict_merge (t_ended (set_meta_cancelled s []))
                                     (t_cancelled (set_meta_cancelled s []))) re)).
    { apply DR_start_g2; rewrite ?K; auto; try (intros; discriminate);
        try (eapply DT_same; [..|exact HD]; auto); try (eapply CM_same; [..|exact HC]; auto). }
    cbv zeta beta.
    destruct outer as [| |e|]; auto. destruct e; auto; specialize (Hex _ eq_refl); discriminate.
  - destruct (if re then None else first_exception s _) as [e|] eqn:FE.
    + destruct re; [discriminate|].
      apply first_exception_src in FE. destruct FE as [c [Hc Hfc]].
      assert (Hs : tsrc s e).
      { destruct (child_src s c (OExc e) e HD HM Hfc (or_introl eq_refl)) as [[[m ->] _]|]; auto.
        exfalso. simpl in Hfc. destruct (get_m s m) as [y|] eqn:Gm; [|discriminate].
        eapply HM; eauto. }
      apply DR_finish_d; rewrite ?K; auto using DT_DTx; try discriminate.
      intros e' X. inversion X; subst. auto.
    + cbv zeta. apply DR_start_g2; rewrite ?K; auto;
        try (eapply DT_same; [..|exact HD]; auto); try (eapply CM_same; [..|exact HC]; auto).
Qed.

(** *** start_g1 *)
Lemma DR_start_g1 s0 s d x cs re :
  ptasks s = ptasks s0 -> mtasks s = mtasks s0 -> DT s -> CM s -> MNE s ->
  d_final x = None ->
  (forall g, d_g2 x = Some g -> kind_re (d_kind x) = Some (g_re g)) ->
  d_kind x <> DUntilClosed ->
  (forall re', d_kind x = DGatherClose re' -> re = true) ->
  (forall re', d_kind x = DGatherClose re' ->
     forall m y, get_m s m = Some y -> m_final y = None -> m_dead y = false -> In m cs) ->
  DR s0 (start_g1 s d x cs re).
Proof.
  intros Ep Em HD HC HM Hf G2 Hku Hre Hcov. unfold start_g1.
  destruct (make_gather s (map TM cs) re) as [g outer] eqn:E.
  destruct (mg_make _ _ _ _ _ E) as [Hgre [Hnc Hex]].
  assert (G1 : forall g' re', d_g1 (set_d_g1 x (Some g)) = Some g' ->
                 d_kind (set_d_g1 x (Some g)) = DGatherClose re' -> g_re g' = true).
  { cbn. intros g' re' X K. inversion X; subst. eauto. }
  assert (B : outer <> FPending -> DR s0 (after_g1 s d (set_d_g1 x (Some g)) outer)).
  { intros Hnp. apply DR_after_g1; auto.
    - intros e X. destruct (Hex e X) as [_ [c [o [Hc [Hfc Ho]]]]].
      apply in_map_iff in Hc. destruct Hc as [m [<- _]].
      destruct (child_src s (TM m) o e HD HM Hfc Ho) as [[_ ?]|[t [y [Gy _]]]]; auto.
      simpl in Hfc. destruct (get_m s m) as [ym|] eqn:Gm; [|discriminate].
      destruct Ho as [->|[_ ->]]; auto. exfalso. eapply HM; eauto.
    - cbn. intros re' K m y G.
      assert (re = true) by eauto. subst re.
      assert (Ho : outer = FOk).
      { destruct outer as [| |e|]; try congruence. destruct (Hex e eq_refl). congruence. }
      subst outer.
      unfold Pm. destruct (m_final y) eqn:Fy; [left; discriminate|].
      destruct (m_dead y) eqn:Dy; [right; auto|].
      exfalso. pose proof (Hcov re' K m y G Fy Dy) as Hi.
      apply (PInv_P_chain.make_gather_ok _ _ _ _ E (TM m)); [apply in_map; auto|].
      simpl. rewrite G. auto. }
  destruct outer; try (apply B; discriminate).
  split; [exact Ep|split; [exact Em|split]].
  - apply (DT_same (put_d s d (set_d_fw (set_d_pc (set_d_g1 x (Some g)) DWaitG1)
                                         (Some FPending)))); try reflexivity.
    apply DT_put_d; auto using DT_DTx. dtk; auto.
    + intros o X. congruence.
    + intros re' _ X. congruence.
  - eapply CM_same; [| |exact HC]; reflexivity.
Qed.
