(** Erasure: base calculus — projections, setters, record access (all by computation). *)
From TP Require Export PNonInt_def.

Local Notation E := erase_state.

Lemma map_upd {A B} (f : A -> B) l n x : map f (upd l n x) = upd (map f l) n (f x).
Proof. revert n; induction l as [|h t IH]; intros [|n]; simpl; auto. rewrite IH. reflexivity. Qed.

(** ** Projections of an erased state *)
Lemma Ep_cfg s : cfg (E s) = erase_cfg (cfg s). Proof. reflexivity. Qed.
Lemma Ep_num_started s : num_started (E s) = num_started s. Proof. reflexivity. Qed.
Lemma Ep_locked s : locked (E s) = locked s. Proof. reflexivity. Qed.
Lemma Ep_closed s : closed (E s) = closed s. Proof. reflexivity. Qed.
Lemma Ep_t_running s : t_running (E s) = t_running s. Proof. reflexivity. Qed.
Lemma Ep_t_cancelled s : t_cancelled (E s) = t_cancelled s. Proof. reflexivity. Qed.
Lemma Ep_t_ended s : t_ended (E s) = t_ended s. Proof. reflexivity. Qed.
Lemma Ep_sem_value s : sem_value (E s) = sem_value s. Proof. reflexivity. Qed.
Lemma Ep_sem_waiters s : sem_waiters (E s) = sem_waiters s. Proof. reflexivity. Qed.
Lemma Ep_groups s : groups (E s) = groups s. Proof. reflexivity. Qed.
Lemma Ep_gmeta s : gmeta (E s) = gmeta s. Proof. reflexivity. Qed.
Lemma Ep_meta_cancelled s : meta_cancelled (E s) = meta_cancelled s. Proof. reflexivity. Qed.
Lemma Ep_start_calls s : start_calls (E s) = start_calls s. Proof. reflexivity. Qed.
Lemma Ep_ptasks s : ptasks (E s) = map erase_ptask (ptasks s). Proof. reflexivity. Qed.
Lemma Ep_mtasks s : mtasks (E s) = map erase_mtask (mtasks s). Proof. reflexivity. Qed.
Lemma Ep_dtasks s : dtasks (E s) = dtasks s. Proof. reflexivity. Qed.
Lemma Ep_closed_waiters s : closed_waiters (E s) = closed_waiters s. Proof. reflexivity. Qed.
Lemma Ep_ready s : ready (E s) = ready s. Proof. reflexivity. Qed.
Lemma Ep_ctl s : ctl (E s) = ctl s. Proof. reflexivity. Qed.
Lemma Ep_evs s : evs (E s) = map erase_event (evs s). Proof. reflexivity. Qed.
Lemma Ep_res s : res (E s) = res s. Proof. reflexivity. Qed.
Lemma Ep_known s : known (E s) = known s. Proof. reflexivity. Qed.
Lemma Ep_cap s : cap (E s) = cap s. Proof. reflexivity. Qed.
Lemma Ep_n_forgotten s : n_forgotten (E s) = n_forgotten s. Proof. reflexivity. Qed.
Lemma Ep_taint_self s : taint_self (E s) = taint_self s. Proof. reflexivity. Qed.
Lemma Ep_taint_iter s : taint_iter (E s) = taint_iter s. Proof. reflexivity. Qed.
Lemma Ep_taint_size s : taint_size (E s) = taint_size s. Proof. reflexivity. Qed.
Lemma Ep_taint_unlock s : taint_unlock (E s) = taint_unlock s. Proof. reflexivity. Qed.
Lemma Ep_n_gac s : n_gac (E s) = n_gac s. Proof. reflexivity. Qed.

(** ** Setters commute with erasure *)
Lemma Es_num_started s v : E (set_num_started s v) = set_num_started (E s) v. Proof. reflexivity. Qed.
Lemma Es_locked s v : E (set_locked s v) = set_locked (E s) v. Proof. reflexivity. Qed.
Lemma Es_closed s v : E (set_closed s v) = set_closed (E s) v. Proof. reflexivity. Qed.
Lemma Es_t_running s v : E (set_t_running s v) = set_t_running (E s) v. Proof. reflexivity. Qed.
Lemma Es_t_cancelled s v : E (set_t_cancelled s v) = set_t_cancelled (E s) v. Proof. reflexivity. Qed.
Lemma Es_t_ended s v : E (set_t_ended s v) = set_t_ended (E s) v. Proof. reflexivity. Qed.
Lemma Es_sem_value s v : E (set_sem_value s v) = set_sem_value (E s) v. Proof. reflexivity. Qed.
Lemma Es_sem_waiters s v : E (set_sem_waiters s v) = set_sem_waiters (E s) v. Proof. reflexivity. Qed.
Lemma Es_groups s v : E (set_groups s v) = set_groups (E s) v. Proof. reflexivity. Qed.
Lemma Es_gmeta s v : E (set_gmeta s v) = set_gmeta (E s) v. Proof. reflexivity. Qed.
Lemma Es_meta_cancelled s v : E (set_meta_cancelled s v) = set_meta_cancelled (E s) v. Proof. reflexivity. Qed.
Lemma Es_start_calls s v : E (set_start_calls s v) = set_start_calls (E s) v. Proof. reflexivity. Qed.
Lemma Es_ptasks s v : E (set_ptasks s v) = set_ptasks (E s) (map erase_ptask v). Proof. reflexivity. Qed.
Lemma Es_mtasks s v : E (set_mtasks s v) = set_mtasks (E s) (map erase_mtask v). Proof. reflexivity. Qed.
Lemma Es_dtasks s v : E (set_dtasks s v) = set_dtasks (E s) v. Proof. reflexivity. Qed.
Lemma Es_closed_waiters s v : E (set_closed_waiters s v) = set_closed_waiters (E s) v. Proof. reflexivity. Qed.
Lemma Es_ready s v : E (set_ready s v) = set_ready (E s) v. Proof. reflexivity. Qed.
Lemma Es_ctl s v : E (set_ctl s v) = set_ctl (E s) v. Proof. reflexivity. Qed.
Lemma Es_evs s v : E (set_evs s v) = set_evs (E s) (map erase_event v). Proof. reflexivity. Qed.
Lemma Es_res s v : E (set_res s v) = set_res (E s) v. Proof. reflexivity. Qed.
Lemma Es_known s v : E (set_known s v) = set_known (E s) v. Proof. reflexivity. Qed.
Lemma Es_cap s v : E (set_cap s v) = set_cap (E s) v. Proof. reflexivity. Qed.
Lemma Es_n_forgotten s v : E (set_n_forgotten s v) = set_n_forgotten (E s) v. Proof. reflexivity. Qed.
Lemma Es_taint_self s v : E (set_taint_self s v) = set_taint_self (E s) v. Proof. reflexivity. Qed.
Lemma Es_taint_iter s v : E (set_taint_iter s v) = set_taint_iter (E s) v. Proof. reflexivity. Qed.
Lemma Es_taint_size s v : E (set_taint_size s v) = set_taint_size (E s) v. Proof. reflexivity. Qed.
Lemma Es_taint_unlock s v : E (set_taint_unlock s v) = set_taint_unlock (E s) v. Proof. reflexivity. Qed.
Lemma Es_n_gac s v : E (set_n_gac s v) = set_n_gac (E s) v. Proof. reflexivity. Qed.

#[export] Hint Rewrite Ep_cfg Ep_num_started Ep_locked Ep_closed Ep_t_running Ep_t_cancelled Ep_t_ended Ep_sem_value Ep_sem_waiters Ep_groups Ep_gmeta Ep_meta_cancelled Ep_start_calls Ep_ptasks Ep_mtasks Ep_dtasks Ep_closed_waiters Ep_ready Ep_ctl Ep_evs Ep_res Ep_known Ep_cap Ep_n_forgotten Ep_taint_self Ep_taint_iter Ep_taint_size Ep_taint_unlock Ep_n_gac Es_num_started Es_locked Es_closed Es_t_running Es_t_cancelled Es_t_ended Es_sem_value Es_sem_waiters Es_groups Es_gmeta Es_meta_cancelled Es_start_calls Es_ptasks Es_mtasks Es_dtasks Es_closed_waiters Es_ready Es_ctl Es_evs Es_res Es_known Es_cap Es_n_forgotten Es_taint_self Es_taint_iter Es_taint_size Es_taint_unlock Es_n_gac : er.

(** ** Projections of erased records *)
Lemma Ex_p_req x : p_req (erase_ptask x) = p_req x. Proof. reflexivity. Qed.
Lemma Ex_p_el x : p_el (erase_ptask x) = p_el x. Proof. reflexivity. Qed.
Lemma Ex_p_group x : p_group (erase_ptask x) = p_group x. Proof. reflexivity. Qed.
Lemma Ex_p_ismap x : p_ismap (erase_ptask x) = p_ismap x. Proof. reflexivity. Qed.
Lemma Ex_p_pc x : p_pc (erase_ptask x) = p_pc x. Proof. reflexivity. Qed.
Lemma Ex_p_fw x : p_fw (erase_ptask x) = p_fw x. Proof. reflexivity. Qed.
Lemma Ex_p_mc x : p_mc (erase_ptask x) = p_mc x. Proof. reflexivity. Qed.
Lemma Ex_p_unst x : p_unst (erase_ptask x) = p_unst x. Proof. reflexivity. Qed.
Lemma Ex_p_nstart x : p_nstart (erase_ptask x) = p_nstart x. Proof. reflexivity. Qed.
Lemma Ex_p_nccb x : p_nccb (erase_ptask x) = p_nccb x. Proof. reflexivity. Qed.
Lemma Ex_p_necb x : p_necb (erase_ptask x) = p_necb x. Proof. reflexivity. Qed.
Lemma Ex_p_nrel x : p_nrel (erase_ptask x) = p_nrel x. Proof. reflexivity. Qed.
Lemma Ex_p_w x : p_w (erase_ptask x) = erase_w (p_w x). Proof. reflexivity. Qed.
Lemma Ex_p_ecb x : p_ecb (erase_ptask x) = erase_cb (p_ecb x). Proof. reflexivity. Qed.
Lemma Ex_p_ccb x : p_ccb (erase_ptask x) = erase_cb (p_ccb x). Proof. reflexivity. Qed.
Lemma Ex_p_fin x : p_fin (erase_ptask x) = FinReturn. Proof. reflexivity. Qed.
Lemma Ex_p_exc x : p_exc (erase_ptask x) = erase_exc (p_exc x). Proof. reflexivity. Qed.
Lemma Ex_p_final x : p_final (erase_ptask x) = option_map erase_outcome (p_final x). Proof. reflexivity. Qed.
Lemma Ey_m_kind x : m_kind (erase_mtask x) = m_kind x. Proof. reflexivity. Qed.
Lemma Ey_m_group x : m_group (erase_mtask x) = m_group x. Proof. reflexivity. Qed.
Lemma Ey_m_num x : m_num (erase_mtask x) = m_num x. Proof. reflexivity. Qed.
Lemma Ey_m_bad x : m_bad (erase_mtask x) = m_bad x. Proof. reflexivity. Qed.
Lemma Ey_m_pc x : m_pc (erase_mtask x) = m_pc x. Proof. reflexivity. Qed.
Lemma Ey_m_idx x : m_idx (erase_mtask x) = m_idx x. Proof. reflexivity. Qed.
Lemma Ey_m_fw x : m_fw (erase_mtask x) = m_fw x. Proof. reflexivity. Qed.
Lemma Ey_m_mc x : m_mc (erase_mtask x) = m_mc x. Proof. reflexivity. Qed.
Lemma Ey_m_final x : m_final (erase_mtask x) = m_final x. Proof. reflexivity. Qed.
Lemma Ey_m_mapval x : m_mapval (erase_mtask x) = m_mapval x. Proof. reflexivity. Qed.
Lemma Ey_m_holds x : m_holds (erase_mtask x) = m_holds x. Proof. reflexivity. Qed.
Lemma Ey_m_ncreated x : m_ncreated (erase_mtask x) = m_ncreated x. Proof. reflexivity. Qed.
Lemma Ey_m_dead x : m_dead (erase_mtask x) = m_dead x. Proof. reflexivity. Qed.
Lemma Ey_m_nc x : m_nc (erase_mtask x) = m_nc x. Proof. reflexivity. Qed.
Lemma Ey_m_els x : m_els (erase_mtask x) = map erase_elem (m_els x). Proof. reflexivity. Qed.
Lemma Ey_m_w x : m_w (erase_mtask x) = erase_w (m_w x). Proof. reflexivity. Qed.
Lemma Ey_m_ecb x : m_ecb (erase_mtask x) = erase_cb (m_ecb x). Proof. reflexivity. Qed.
Lemma Ey_m_ccb x : m_ccb (erase_mtask x) = erase_cb (m_ccb x). Proof. reflexivity. Qed.
Lemma Exs_p_pc x v : erase_ptask (set_p_pc x v) = set_p_pc (erase_ptask x) v. Proof. reflexivity. Qed.
Lemma Exs_p_fw x v : erase_ptask (set_p_fw x v) = set_p_fw (erase_ptask x) v. Proof. reflexivity. Qed.
Lemma Exs_p_mc x v : erase_ptask (set_p_mc x v) = set_p_mc (erase_ptask x) v. Proof. reflexivity. Qed.
Lemma Exs_p_unst x v : erase_ptask (set_p_unst x v) = set_p_unst (erase_ptask x) v. Proof. reflexivity. Qed.
Lemma Exs_p_nstart x v : erase_ptask (set_p_nstart x v) = set_p_nstart (erase_ptask x) v. Proof. reflexivity. Qed.
Lemma Exs_p_nccb x v : erase_ptask (set_p_nccb x v) = set_p_nccb (erase_ptask x) v. Proof. reflexivity. Qed.
Lemma Exs_p_necb x v : erase_ptask (set_p_necb x v) = set_p_necb (erase_ptask x) v. Proof. reflexivity. Qed.
Lemma Exs_p_nrel x v : erase_ptask (set_p_nrel x v) = set_p_nrel (erase_ptask x) v. Proof. reflexivity. Qed.
Lemma Exs_p_exc x v : erase_ptask (set_p_exc x v) = set_p_exc (erase_ptask x) (erase_exc v). Proof. reflexivity. Qed.
Lemma Exs_p_final x v : erase_ptask (set_p_final x v) = set_p_final (erase_ptask x) (option_map erase_outcome v). Proof. reflexivity. Qed.
Lemma Exs_p_fin x v : erase_ptask (set_p_fin x v) = set_p_fin (erase_ptask x) FinReturn. Proof. reflexivity. Qed.
Lemma Eys_m_pc x v : erase_mtask (set_m_pc x v) = set_m_pc (erase_mtask x) v. Proof. reflexivity. Qed.
Lemma Eys_m_idx x v : erase_mtask (set_m_idx x v) = set_m_idx (erase_mtask x) v. Proof. reflexivity. Qed.
Lemma Eys_m_fw x v : erase_mtask (set_m_fw x v) = set_m_fw (erase_mtask x) v. Proof. reflexivity. Qed.
Lemma Eys_m_mc x v : erase_mtask (set_m_mc x v) = set_m_mc (erase_mtask x) v. Proof. reflexivity. Qed.
Lemma Eys_m_final x v : erase_mtask (set_m_final x v) = set_m_final (erase_mtask x) v. Proof. reflexivity. Qed.
Lemma Eys_m_mapval x v : erase_mtask (set_m_mapval x v) = set_m_mapval (erase_mtask x) v. Proof. reflexivity. Qed.
Lemma Eys_m_holds x v : erase_mtask (set_m_holds x v) = set_m_holds (erase_mtask x) v. Proof. reflexivity. Qed.
Lemma Eys_m_ncreated x v : erase_mtask (set_m_ncreated x v) = set_m_ncreated (erase_mtask x) v. Proof. reflexivity. Qed.
Lemma Eys_m_dead x v : erase_mtask (set_m_dead x v) = set_m_dead (erase_mtask x) v. Proof. reflexivity. Qed.

#[export] Hint Rewrite Ex_p_req Ex_p_el Ex_p_group Ex_p_ismap Ex_p_pc Ex_p_fw Ex_p_mc Ex_p_unst Ex_p_nstart Ex_p_nccb Ex_p_necb Ex_p_nrel Ex_p_w Ex_p_ecb Ex_p_ccb Ex_p_fin Ex_p_exc Ex_p_final Ey_m_kind Ey_m_group Ey_m_num Ey_m_bad Ey_m_pc Ey_m_idx Ey_m_fw Ey_m_mc Ey_m_final Ey_m_mapval Ey_m_holds Ey_m_ncreated Ey_m_dead Ey_m_nc Ey_m_els Ey_m_w Ey_m_ecb Ey_m_ccb Exs_p_pc Exs_p_fw Exs_p_mc Exs_p_unst Exs_p_nstart Exs_p_nccb Exs_p_necb Exs_p_nrel Exs_p_exc Exs_p_final Exs_p_fin Eys_m_pc Eys_m_idx Eys_m_fw Eys_m_mc Eys_m_final Eys_m_mapval Eys_m_holds Eys_m_ncreated Eys_m_dead : er.

(** ** Access *)
Lemma E_get_p s t : get_p (E s) t = option_map erase_ptask (get_p s t).
Proof. unfold get_p. cbn. apply nth_error_map. Qed.
Lemma E_get_m s m : get_m (E s) m = option_map erase_mtask (get_m s m).
Proof. unfold get_m. cbn. apply nth_error_map. Qed.
Lemma E_get_d s d : get_d (E s) d = get_d s d.
Proof. reflexivity. Qed.

Lemma E_put_p s t x : E (put_p s t x) = put_p (E s) t (erase_ptask x).
Proof. unfold put_p. rewrite Es_ptasks, map_upd. reflexivity. Qed.
Lemma E_put_m s m x : E (put_m s m x) = put_m (E s) m (erase_mtask x).
Proof. unfold put_m. rewrite Es_mtasks, map_upd. reflexivity. Qed.
Lemma E_put_d s d x : E (put_d s d x) = put_d (E s) d x.
Proof. reflexivity. Qed.

Lemma E_emit s e : E (emit s e) = emit (E s) (erase_event e).
Proof. unfold emit. rewrite Es_evs, map_app. reflexivity. Qed.

Lemma E_is_ready s h : is_ready (E s) h = is_ready s h.
Proof. reflexivity. Qed.

Lemma E_sched s h : E (sched s h) = sched (E s) h.
Proof. unfold sched. rewrite E_is_ready. destruct (is_ready s h); reflexivity. Qed.

Lemma E_unsched s h : E (unsched s h) = unsched (E s) h.
Proof. reflexivity. Qed.

Lemma E_know s g : E (know s g) = know (E s) g.
Proof. unfold know. rewrite Ep_known. destruct (existsb _ _); reflexivity. Qed.

Lemma E_fold {A} (f : state -> A -> state) :
  (forall s a, E (f s a) = f (E s) a) -> forall l s, E (fold_left f l s) = fold_left f l (E s).
Proof. intros Hf l. induction l; simpl; intros; auto. rewrite IHl, Hf. reflexivity. Qed.

#[export] Hint Rewrite E_get_p E_get_m E_get_d E_put_p E_put_m E_put_d E_emit E_is_ready E_sched
  E_unsched E_know : er.

