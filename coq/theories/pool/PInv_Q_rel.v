(** Releasing the pool slot of a task ([_task_ending]): effect on the request bookkeeping. *)
From TP Require Export PInv_Q_wsim.
Set Implicit Arguments. Unset Strict Implicit.

Definition mrel (y : mtask) : mtask :=
  match m_pc y, m_fw y with
  | MWaitMap, Some FPending => set_m_fw y (Some FOk)
  | _, _ => set_m_mapval y (S (m_mapval y))
  end.

Lemma map_release_mtasks s m :
  mtasks (map_release s m) =
  match get_m s m with Some y => upd (mtasks s) m (mrel y) | None => mtasks s end.
Proof.
  unfold map_release, mrel. destruct (get_m s m) as [y|]; auto.
  destruct (m_pc y); try reflexivity. destruct (m_fw y) as [[]|]; try reflexivity.
  rewrite sched_mtasks. reflexivity.
Qed.

Lemma mrel_msimw y : msimw y (mrel y).
Proof.
  unfold mrel. destruct (m_pc y); try (unfold msimw, mimm; cbn; tauto).
  destruct (m_fw y) as [[]|]; unfold msimw, mimm; cbn; tauto.
Qed.

Lemma mrel_sum y :
  m_mapval (mrel y) + b2n (m_holds (mrel y)) + mterm (mrel y) =
  S (m_mapval y + b2n (m_holds y) + mterm y).
Proof.
  unfold mrel, mterm. destruct (m_pc y) eqn:E; cbn; rewrite ?E; try lia.
  destruct (m_fw y) as [[]|] eqn:F; cbn; rewrite ?E, ?F; lia.
Qed.

Lemma mrel_kind y : m_kind (mrel y) = m_kind y /\ m_nc (mrel y) = m_nc y.
Proof.
  unfold mrel. destruct (m_pc y); auto. destruct (m_fw y) as [[]|]; auto.
Qed.

Lemma mapsem_alt s m y :
  mapsem_ok s m y <->
  match m_kind y with
  | MMap _ => m_mapval y + b2n (m_holds y) + unreleased_of s m + mterm y = m_nc y
  | _ => m_mapval y = 0 /\ m_holds y = false /\ m_nc y = 0
  end.
Proof. reflexivity. Qed.

Definition unrel_p (m : nat) (x : ptask) : bool := Nat.eqb (p_req x) m && Nat.eqb (p_nrel x) 0.

Lemma unreleased_upd s t x0 x' m :
  get_p s t = Some x0 -> p_nrel x0 = 0 -> p_req x' = p_req x0 -> p_nrel x' = 1 ->
  count (unrel_p m) (upd (ptasks s) t x') + (if Nat.eqb (p_req x0) m then 1 else 0) =
  unreleased_of s m.
Proof.
  intros H N R N'. pose proof (@count_upd _ (unrel_p m) (ptasks s) t x0 x' H) as C.
  assert (unrel_p m x0 = Nat.eqb (p_req x0) m) as E1
    by (unfold unrel_p; rewrite N; simpl; apply andb_true_r).
  assert (unrel_p m x' = false) as E2 by (unfold unrel_p; rewrite N'; apply andb_false_r).
  rewrite E1, E2 in C. unfold unreleased_of. fold (unrel_p m).
  destruct (Nat.eqb (p_req x0) m); lia.
Qed.

Lemma unreleased_count s m : unreleased_of s m = count (unrel_p m) (ptasks s).
Proof. reflexivity. Qed.

Lemma IR_release s s' t x0 x' :
  IR s -> get_p s t = Some x0 -> p_nrel x0 = 0 -> pimm x0 x' -> p_nrel x' = 1 ->
  ptasks s' = upd (ptasks s) t x' ->
  mtasks s' = (if p_ismap x0 then mtasks (map_release s (p_req x0)) else mtasks s) ->
  groups s' = groups s -> num_started s' = num_started s -> taint_iter s' = taint_iter s ->
  IR s' /\ wsim s s'.
Proof.
  intros HIR Hx N0 Pi N1 Ep Em Eg En Et.
  destruct (IR_req _ HIR _ _ Hx) as [y [Hy My]].
  assert (p_ismap x0 = is_map y) as Hism by apply My.
  assert (wsim s s') as Hw.
  { constructor; auto; try congruence.
    - rewrite Ep. apply Forall2_upd_self; [apply pimm_refl|].
      unfold get_p in Hx. intros z Hz. congruence.
    - rewrite Em. destruct (p_ismap x0); [|apply Forall2_refl; apply msimw_refl].
      rewrite map_release_mtasks, Hy. apply Forall2_upd_self; [apply msimw_refl|].
      unfold get_m in Hy. intros z Hz. replace z with y by congruence. apply mrel_msimw. }
  split; auto. apply IR_split. split.
  { eapply wsim_IR5; eauto. apply IR_split; auto. }
  intros m y' Hy'.
  assert (Hun : unreleased_of s' m + (if Nat.eqb (p_req x0) m then 1 else 0) = unreleased_of s m).
  { rewrite (unreleased_count s'), Ep. apply unreleased_upd; auto. apply Pi. }
  unfold get_m in Hy'. rewrite Em in Hy'.
  destruct (p_ismap x0) eqn:Him.
  - rewrite map_release_mtasks, Hy in Hy'.
    destruct (Nat.eq_dec (p_req x0) m) as [<-|Hne].
    + rewrite (nth_error_upd_same _ Hy) in Hy'. inversion Hy'; subst y'. clear Hy'.
      pose proof (IR_mapsem _ HIR _ _ Hy) as Hms. rewrite mapsem_alt in *.
      destruct (mrel_kind y) as [K1 K2]. rewrite K1, K2.
      rewrite Nat.eqb_refl in Hun. unfold is_map in Hism.
      destruct (m_kind y); try discriminate. pose proof (mrel_sum y). lia.
    + rewrite nth_error_upd_neq in Hy' by auto.
      pose proof (IR_mapsem _ HIR _ _ Hy') as Hms. rewrite mapsem_alt in *.
      apply Nat.eqb_neq in Hne. rewrite Hne in Hun.
      destruct (m_kind y'); auto. lia.
  - pose proof (IR_mapsem _ HIR _ _ Hy') as Hms. rewrite mapsem_alt in *.
    destruct (Nat.eqb_spec (p_req x0) m) as [<-|Hne].
    + unfold get_m in Hy. replace y' with y in * by congruence.
      unfold is_map in Hism. destruct (m_kind y); auto. discriminate.
    + destruct (m_kind y'); auto. lia.
Qed.
