(** The driver chain: shape of the result of [run_d] (registries and events). *)
From TP Require Import PInv PInv_P_base PInv_P_view PInv_P_inv PInv_P_tok PInv_P_tok2
  PInv_P_chain PInv_P_step PSpecStep PStep_C_ev PStep_C_rel.

Definition out_of (outer : fut) : outcome :=
  match outer with
  | FExc e => final_of (Some e) false
  | FCancelled => OCancelled
  | _ => OResult
  end.

Lemma ev_wake_closed ds : forall s, evs (wake_closed s ds) = evs s.
Proof.
  induction ds as [|d r IH]; simpl; intros s; auto. rewrite IH.
  destruct (get_d s d); auto. destruct (fut_pending _); auto. now rewrite ev_sched.
Qed.

Lemma ev_finish_d s d x e :
  evs (finish_d s d x e) = evs s ++ [EvDriverDone d (final_of e false)].
Proof. reflexivity. Qed.

Lemma ev_after_g2 s d x outer :
  evs (after_g2 s d x outer) = evs s ++ [EvDriverDone d (out_of outer)].
Proof.
  unfold after_g2. destruct outer; try reflexivity; destruct (d_kind x); try reflexivity.
  all: rewrite ev_finish_d; rewrite ev_wake_closed; reflexivity.
Qed.

Definition dsame (s : state) (d : nat) (P : outcome -> Prop) (s' : state) : Prop :=
  pcore s' = pcore s /\
  forall e, In e (evs s') -> In e (evs s) \/ exists o, e = EvDriverDone d o /\ P o.

Definition dfin (s : state) (d : nat) (k : dkind) (snap : list nat) (outer : fut) (s' : state)
  : Prop :=
  ag2pre (pview s) k snap outer /\ pcore s' = vcore (after_g2_v (pview s) k snap outer) /\
  evs s' = evs s ++ [EvDriverDone d (out_of outer)].

Definition nfl (k : dkind) (o : outcome) : Prop := o = OResult -> forall re, k <> DFlush re.

Definition dres (s : state) (d : nat) (k : dkind) (cover : list nat -> Prop) (s' : state)
  : Prop :=
  dsame s d (nfl k) s' \/ exists snap outer, dfin s d k snap outer s' /\ cover snap.

Lemma dres_mono s d k (c1 c2 : list nat -> Prop) s' :
  (forall l, c1 l -> c2 l) -> dres s d k c1 s' -> dres s d k c2 s'.
Proof. intros H [H1|(snap & outer & H1 & H2)]; [now left|right; eauto]. Qed.

Lemma finish_d_same s d x e (P : outcome -> Prop) :
  P (final_of e false) -> dsame s d P (finish_d s d x e).
Proof.
  intros H. split; [apply pc_finish_d|]. intros ev. rewrite ev_finish_d, in_app_iff. simpl.
  intros [?|[<-|[]]]; eauto.
Qed.

Lemma nfl_notflush k o : (forall re, k <> DFlush re) -> nfl k o.
Proof. intros H _. exact H. Qed.

Lemma nfl_exc k e : e <> ECancelled -> nfl k (final_of (Some e) false).
Proof. intros H. destruct e; try congruence; intros H1; discriminate. Qed.

Lemma start_g2_res s d x cs re (cover : list nat -> Prop) :
  cover cs ->
  (forall re', d_kind x = DGatherClose re' -> forall t, In t (regs s) -> In t cs) ->
  dres s d (d_kind x) cover (start_g2 s d x cs re).
Proof.
  intros Hc Hg. unfold start_g2.
  destruct (make_gather s (map TP cs) re) as [g outer] eqn:E.
  assert (Hfin : forall o, (o = FOk -> outer = FOk) -> o <> FPending ->
            dres s d (d_kind x) cover (after_g2 s d (set_d_snap (set_d_g2 x (Some g)) cs) o)).
  { intros o Ho Hnp. right. exists cs, o. split; auto. split; [|split].
    - intros h1 h2.
      destruct o as [| |e|]; [congruence| |exfalso; eapply h1; reflexivity|congruence].
      specialize (Ho eq_refl). subst outer. split.
      + intros t Ht.
        pose proof (make_gather_ok _ _ _ _ E (TP t) (in_map TP _ _ Ht)) as Hf.
        cbn in Hf. change (vget (pview s) t) with (get_p s t).
        destruct (get_p s t) as [y|]; [eauto|congruence].
      + exact Hg.
    - rewrite pc_after_g2. reflexivity.
    - apply ev_after_g2. }
  destruct outer.
  - left. split; [reflexivity|]. intros e H. left. exact H.
  - apply Hfin; auto. discriminate.
  - apply Hfin; [discriminate|discriminate].
  - apply Hfin; [discriminate|discriminate].
Qed.

Definition cover_eager (s : state) (k : dkind) (snap : list nat) : Prop :=
  forall re, k = DFlush re -> forall t, In t (t_ended s) \/ In t (t_cancelled s) -> In t snap.

Lemma In_fold_dict_add b : forall a t, In t (fold_left dict_add b a) <-> In t a \/ In t b.
Proof.
  induction b as [|h r IH]; simpl; intros a t; [tauto|].
  rewrite IH, In_dict_add. intuition.
Qed.

Lemma after_g1_res s d x outer :
  dres s d (d_kind x) (cover_eager s (d_kind x)) (after_g1 s d x outer).
Proof.
  unfold after_g1. destruct (d_kind x) eqn:Ek.
  - assert (Hgo : dres s d (DFlush re) (cover_eager s (DFlush re))
                    (start_g2 (set_meta_cancelled s []) d x
                       (dict_merge (t_ended (set_meta_cancelled s []))
                                   (t_cancelled (set_meta_cancelled s []))) re)).
    { rewrite <- Ek.
      apply (start_g2_res (set_meta_cancelled s []) d x _ re (cover_eager s (d_kind x))).
      - intros re' _ t Ht. unfold dict_merge. apply In_fold_dict_add. exact Ht.
      - intros re'. rewrite Ek. discriminate. }
    destruct outer as [| |e|]; auto. destruct e; auto;
      left; apply finish_d_same; apply nfl_exc; discriminate.
  - destruct (if re then None else _).
    + left. apply finish_d_same, nfl_notflush. discriminate.
    + rewrite <- Ek.
      apply (start_g2_res (set_gmeta (set_meta_cancelled s []) []) d x _ re
                          (cover_eager s (d_kind x))).
      * intros re'. rewrite Ek. discriminate.
      * intros _ _ t. unfold regs. cbn. rewrite !in_app_iff. tauto.
  - left. apply finish_d_same, nfl_notflush. discriminate.
Qed.

Lemma start_g1_res s d x cs re :
  dres s d (d_kind x) (cover_eager s (d_kind x)) (start_g1 s d x cs re).
Proof.
  unfold start_g1. destruct (make_gather s (map TM cs) re) as [g outer].
  destruct outer; try apply (after_g1_res s d (set_d_g1 x (Some g))).
  left. split; [reflexivity|]. intros e H. left. exact H.
Qed.

(** the extra fact needed for the second clause of C13: only until_closed waits for closing *)
Definition Extra_C (s : state) : Prop :=
  forall d x, get_d s d = Some x -> d_pc x = DWaitClosed -> d_kind x = DUntilClosed.

Lemma run_d_res s d x0 :
  get_d s d = Some x0 ->
  (d_pc x0 = DWaitG2 ->
   ag2pre_s s (set_d_fw x0 None) (match d_fw x0 with Some f => f | None => FOk end)) ->
  (d_pc x0 = DWaitClosed /\ dsame s d (fun _ => True) (run_d s d)) \/
  dres s d (d_kind x0)
       (fun snap => (d_pc x0 = DWaitG2 /\ snap = d_snap x0) \/ cover_eager s (d_kind x0) snap)
       (run_d s d).
Proof.
  intros Hx Hp. unfold run_d. rewrite Hx.
  destruct (d_pc x0) eqn:Epc.
  - (* DNotStarted *)
    right. change (d_kind (set_d_fw x0 None)) with (d_kind x0).
    eapply dres_mono; [intros l H; right; exact H|].
    destruct (d_kind x0) eqn:Ek.
    + destruct (pop_ended s (gmeta s)) as [gm ended]. rewrite <- Ek.
      apply (start_g1_res (set_gmeta s gm) d (set_d_fw x0 None)).
    + rewrite <- Ek. apply (start_g1_res (set_locked s true) d (set_d_fw x0 None)).
    + destruct (closed s).
      * left. apply finish_d_same, nfl_notflush. discriminate.
      * left. split; [reflexivity|]. intros e H. left. exact H.
  - (* DWaitG1 *)
    right. eapply dres_mono; [intros l H; right; exact H|].
    apply (after_g1_res s d (set_d_fw x0 None)).
  - (* DWaitG2 *)
    right. right. exists (d_snap x0), (match d_fw x0 with Some f => f | None => FOk end).
    split; [|left; auto]. split; [|split].
    + exact (Hp eq_refl).
    + rewrite pc_after_g2. reflexivity.
    + apply ev_after_g2.
  - (* DWaitClosed *)
    left. split; auto.
    apply (finish_d_same (set_closed_waiters s (remove1 d (closed_waiters s)))). exact I.
  - right. left. split; [reflexivity|]. intros e H. left. exact H.
Qed.
