(** Extra invariant, part 6: drivers and gather callbacks (gmeta, closed, dtasks). *)
From TP Require Export PInv_Q_x5.
Set Implicit Arguments. Unset Strict Implicit.

Lemma run_g_gmeta s d c : gmeta (run_g s d c) = gmeta s.
Proof. unfold run_g; brute. Qed.
Lemma run_g_closed s d c : closed (run_g s d c) = closed s.
Proof. unfold run_g; brute. Qed.

Lemma after_g2_gmeta s d x o : gmeta (after_g2 s d x o) = gmeta s.
Proof. unfold after_g2; brute. Qed.
Lemma start_g2_gmeta s d x cs re : gmeta (start_g2 s d x cs re) = gmeta s.
Proof. unfold start_g2; brute; apply after_g2_gmeta. Qed.

Definition gsub (l' l : list (gname * list nat)) : Prop :=
  forall g ms', In (g, ms') l' -> exists ms, In (g, ms) l /\ incl ms' ms.

Lemma gsub_refl l : gsub l l.
Proof. intros g ms H. exists ms. split; auto. apply incl_refl. Qed.
Lemma gsub_nil l : gsub [] l.
Proof. intros g ms []. Qed.
Lemma gsub_trans a b c : gsub a b -> gsub b c -> gsub a c.
Proof.
  intros H1 H2 g ms Hi. destruct (H1 _ _ Hi) as [ms1 [A B]]. destruct (H2 _ _ A) as [ms2 [C D]].
  exists ms2. split; auto. eapply incl_tran; eauto.
Qed.

Lemma after_g1_gsub s d x o : gsub (gmeta (after_g1 s d x o)) (gmeta s).
Proof.
  unfold after_g1. destruct (d_kind x).
  - destruct o as [| |[]|]; autorewrite with fr; try rewrite start_g2_gmeta; cbn; apply gsub_refl.
  - destruct (if re then None else _); autorewrite with fr; try apply gsub_refl.
    rewrite start_g2_gmeta. cbn. apply gsub_nil.
  - autorewrite with fr. apply gsub_refl.
Qed.

Lemma start_g1_gsub s d x cs re : gsub (gmeta (start_g1 s d x cs re)) (gmeta s).
Proof.
  unfold start_g1. destruct (make_gather s (map TM cs) re) as [g o].
  destruct o; try apply after_g1_gsub. cbn. autorewrite with fr. apply gsub_refl.
Qed.

Lemma pop_ended_gsub s l : gsub (fst (pop_ended s l)) l.
Proof.
  induction l as [|[g ms] t IH]; simpl; [apply gsub_nil|].
  destruct (pop_ended s t) as [l' e']. simpl in *.
  assert (H : gsub ((g, filter (fun m => negb (is_done_m s m)) ms) :: l') ((g, ms) :: t)).
  { intros g0 ms0 [E|E].
    - inversion E; subst. exists ms. split; [left; auto|]. intros a Ha.
      apply filter_In in Ha. tauto.
    - destruct (IH _ _ E) as [ms1 [A B]]. exists ms1. split; [right; auto|auto]. }
  destruct (filter (fun m => negb (is_done_m s m)) ms) eqn:F; auto.
  intros g0 ms0 Hi. destruct (IH _ _ Hi) as [ms1 [A B]]. exists ms1. split; [right; auto|auto].
Qed.

Lemma run_d_gsub s d : gsub (gmeta (run_d s d)) (gmeta s).
Proof.
  unfold run_d. destruct (get_d s d) as [x0|]; [|apply gsub_refl]. cbv zeta.
  destruct (d_pc x0).
  - cbn [d_kind set_d_fw]. destruct (d_kind x0).
    + pose proof (@pop_ended_gsub s (gmeta s)) as H.
      destruct (pop_ended s (gmeta s)) as [gm ended]. simpl in H.
      eapply gsub_trans; [apply start_g1_gsub|]. cbn. exact H.
    + eapply gsub_trans; [apply start_g1_gsub|]. cbn. apply gsub_refl.
    + destruct (closed s); autorewrite with fr; cbn; apply gsub_refl.
  - apply after_g1_gsub.
  - rewrite after_g2_gmeta. apply gsub_refl.
  - autorewrite with fr. cbn. apply gsub_refl.
  - apply gsub_refl.
Qed.

Lemma xfile_gsub s s' :
  mtasks s' = mtasks s -> gsub (gmeta s') (gmeta s) -> xfile s -> xfile s'.
Proof.
  intros Em Hg H g ms' m Hi Hm. destruct (Hg _ _ Hi) as [ms [A B]].
  unfold get_m. rewrite Em. apply (H _ _ _ A (B _ Hm)).
Qed.

(** ** xgac *)
Lemma get_d_upd s s' d x' :
  dtasks s' = upd (dtasks s) d x' ->
  forall d' y', get_d s' d' = Some y' -> (d' = d /\ y' = x') \/ (d' <> d /\ get_d s d' = Some y').
Proof.
  intros E d' y' H. unfold get_d in *. rewrite E, nth_error_upd in H.
  destruct (Nat.eqb_spec d d') as [->|Ne].
  - destruct (d' <? length (dtasks s)); [|discriminate]. inversion H; auto.
  - right. split; auto.
Qed.

Lemma xgac_upd s s' d x' :
  xgac s -> xgac_ok x' -> dtasks s' = upd (dtasks s) d x' -> xgac s'.
Proof.
  intros H Hx E d' y' Hy'. destruct (get_d_upd E Hy') as [[_ ->]|[_ Hy]]; auto. apply (H _ _ Hy).
Qed.

Lemma gather_cb_true n o nfin :
  gather_cb true n o nfin FPending = (S nfin, if Nat.eqb (S nfin) n then FOk else FPending).
Proof. reflexivity. Qed.

Ltac gleaf H Hok :=
  first
  [ exact H
  | eapply xgac_upd;
      [exact H | | first [rewrite sched_dtasks|idtac]; unfold put_d; cbn; reflexivity];
    let re := fresh "re" in let Hk := fresh "Hk" in let Hp := fresh "Hp" in
    intros re Hk Hp; cbn in Hk, Hp; try congruence;
    let Hf := fresh "Hf" in let Hre := fresh "Hre" in
    first [destruct (Hok re Hk Hp) as [Hf Hre] | destruct (Hok re Hk eq_refl) as [Hf Hre]];
    cbn; split; auto; try solve [destruct Hf as [Hf|Hf]; discriminate Hf];
    try solve [match goal with E : d_fw _ = _ |- _ => rewrite E; auto end] ].

Lemma xgac_run_g_other s d c :
  (forall m, c <> TM m) -> xgac s -> xgac (run_g s d c).
Proof.
  intros Hc H. unfold run_g.
  destruct (get_d s d) as [x|] eqn:Hx; [|exact H].
  destruct (tref_final s c) as [o|]; [|exact H].
  pose proof (H _ _ Hx) as Hok. unfold xgac_ok in Hok.
  destruct c as [t|m|d0]; [|exfalso; eapply Hc; eauto|];
    (destruct (d_g2 x) as [g|] eqn:Hg; [|exact H]);
    (destruct (d_pc x) eqn:Hpc; cbn -[gather_cb];
     try (destruct (d_fw x) as [[]|] eqn:Hfw);
     try (destruct (gather_cb (g_re g) (length (g_children g)) o (g_nfin g) FPending)
            as [nfin outer]; destruct outer);
     gleaf H Hok).
Qed.

Ltac gleaf1 H Hok Hg :=
  first
  [ exact H
  | eapply xgac_upd;
      [exact H | | first [rewrite sched_dtasks|idtac]; unfold put_d; cbn; reflexivity];
    let re := fresh "re" in let Hk := fresh "Hk" in let Hp := fresh "Hp" in
    intros re Hk Hp; cbn in Hk, Hp; try congruence;
    let Hf := fresh "Hf" in let Hre := fresh "Hre" in
    first [destruct (Hok re Hk Hp) as [Hf Hre] | destruct (Hok re Hk eq_refl) as [Hf Hre]];
    let Hreg := fresh "Hreg" in
    first [pose proof (Hre _ Hg) as Hreg | pose proof (Hre _ eq_refl) as Hreg];
    try match goal with E : gather_cb _ _ _ _ _ = _ |- _ =>
          let E1 := fresh "E1" in let E2 := fresh "E2" in
          rewrite Hreg, gather_cb_true in E; injection E as E1 E2 end;
    cbn; split;
    [ try solve [auto]; try solve [destruct Hf as [Hf|Hf]; discriminate Hf];
      try solve [match goal with E : d_fw _ = _ |- _ => rewrite E; auto end];
      try solve [match goal with E : (if ?b then _ else _) = _ |- _ =>
                   destruct b; discriminate E end]
    | let g0 := fresh "g0" in let E0 := fresh "E0" in
      intros g0 E0; inversion E0; subst; cbn; auto ] ].

Lemma xgac_run_g_meta s d m : xgac s -> xgac (run_g s d (TM m)).
Proof.
  intros H. unfold run_g.
  destruct (get_d s d) as [x|] eqn:Hx; [|exact H].
  destruct (tref_final s (TM m)) as [o|]; [|exact H].
  pose proof (H _ _ Hx) as Hok. unfold xgac_ok in Hok.
  destruct (d_g1 x) as [g|] eqn:Hg; [|exact H].
  destruct (d_pc x) eqn:Hpc; cbn -[gather_cb];
    try (destruct (d_fw x) as [[]|] eqn:Hfw);
    try (destruct (gather_cb (g_re g) (length (g_children g)) o (g_nfin g) FPending)
           as [nfin outer] eqn:Hcb; destruct outer);
    gleaf1 H Hok Hg.
Qed.

Lemma xgac_run_g s d c : xgac s -> xgac (run_g s d c).
Proof.
  intros H. destruct c as [t|m|d0].
  - apply xgac_run_g_other; auto. discriminate.
  - apply xgac_run_g_meta; auto.
  - apply xgac_run_g_other; auto. discriminate.
Qed.

Lemma Extra_run_g s s1 d c :
  Extra_IR s -> mtasks s1 = mtasks s -> gmeta s1 = gmeta s -> dtasks s1 = dtasks s ->
  closed s1 = closed s -> taint_iter s1 = taint_iter s -> Extra_IR (run_g s1 d c).
Proof.
  intros HX Em Eg Ed Ec Et. destruct (Extra_parts HX) as [A [B C]].
  apply Extra_of_parts.
  - eapply XS_same; [| | |exact A].
    + rewrite run_g_mtasks; auto.
    + rewrite run_g_taint_iter. congruence.
    + rewrite run_g_closed; auto.
  - eapply xfile_same; [| |exact B].
    + rewrite run_g_mtasks; auto.
    + rewrite run_g_gmeta; auto.
  - apply xgac_run_g. eapply xgac_same; eauto.
Qed.


