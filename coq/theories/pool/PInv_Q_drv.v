(** Drivers and gather callbacks do not touch the fields read by IR / IGr. *)
From TP Require Export PInv_Q_ssim.
Set Implicit Arguments. Unset Strict Implicit.

Ltac brute :=
  repeat (first [ progress (autorewrite with fr) | progress cbn
                | match goal with |- context [match ?x with _ => _ end] => destruct x eqn:? end ]);
  try reflexivity.

Lemma after_g2_ptasks s d x o : ptasks (after_g2 s d x o) = ptasks s.
Proof. unfold after_g2; brute. Qed.
Lemma after_g2_mtasks s d x o : mtasks (after_g2 s d x o) = mtasks s.
Proof. unfold after_g2; brute. Qed.
Lemma after_g2_groups s d x o : groups (after_g2 s d x o) = groups s.
Proof. unfold after_g2; brute. Qed.
Lemma after_g2_num_started s d x o : num_started (after_g2 s d x o) = num_started s.
Proof. unfold after_g2; brute. Qed.
Lemma after_g2_taint_iter s d x o : taint_iter (after_g2 s d x o) = taint_iter s.
Proof. unfold after_g2; brute. Qed.
#[export] Hint Rewrite after_g2_ptasks after_g2_mtasks after_g2_groups after_g2_num_started after_g2_taint_iter : fr.
Global Arguments after_g2 : simpl never.

Lemma start_g2_ptasks s d x cs re : ptasks (start_g2 s d x cs re) = ptasks s.
Proof. unfold start_g2; brute. Qed.
Lemma start_g2_mtasks s d x cs re : mtasks (start_g2 s d x cs re) = mtasks s.
Proof. unfold start_g2; brute. Qed.
Lemma start_g2_groups s d x cs re : groups (start_g2 s d x cs re) = groups s.
Proof. unfold start_g2; brute. Qed.
Lemma start_g2_num_started s d x cs re : num_started (start_g2 s d x cs re) = num_started s.
Proof. unfold start_g2; brute. Qed.
Lemma start_g2_taint_iter s d x cs re : taint_iter (start_g2 s d x cs re) = taint_iter s.
Proof. unfold start_g2; brute. Qed.
#[export] Hint Rewrite start_g2_ptasks start_g2_mtasks start_g2_groups start_g2_num_started start_g2_taint_iter : fr.
Global Arguments start_g2 : simpl never.

Lemma after_g1_ptasks s d x o : ptasks (after_g1 s d x o) = ptasks s.
Proof. unfold after_g1; brute. Qed.
Lemma after_g1_mtasks s d x o : mtasks (after_g1 s d x o) = mtasks s.
Proof. unfold after_g1; brute. Qed.
Lemma after_g1_groups s d x o : groups (after_g1 s d x o) = groups s.
Proof. unfold after_g1; brute. Qed.
Lemma after_g1_num_started s d x o : num_started (after_g1 s d x o) = num_started s.
Proof. unfold after_g1; brute. Qed.
Lemma after_g1_taint_iter s d x o : taint_iter (after_g1 s d x o) = taint_iter s.
Proof. unfold after_g1; brute. Qed.
#[export] Hint Rewrite after_g1_ptasks after_g1_mtasks after_g1_groups after_g1_num_started after_g1_taint_iter : fr.
Global Arguments after_g1 : simpl never.

Lemma start_g1_ptasks s d x cs re : ptasks (start_g1 s d x cs re) = ptasks s.
Proof. unfold start_g1; brute. Qed.
Lemma start_g1_mtasks s d x cs re : mtasks (start_g1 s d x cs re) = mtasks s.
Proof. unfold start_g1; brute. Qed.
Lemma start_g1_groups s d x cs re : groups (start_g1 s d x cs re) = groups s.
Proof. unfold start_g1; brute. Qed.
Lemma start_g1_num_started s d x cs re : num_started (start_g1 s d x cs re) = num_started s.
Proof. unfold start_g1; brute. Qed.
Lemma start_g1_taint_iter s d x cs re : taint_iter (start_g1 s d x cs re) = taint_iter s.
Proof. unfold start_g1; brute. Qed.
#[export] Hint Rewrite start_g1_ptasks start_g1_mtasks start_g1_groups start_g1_num_started start_g1_taint_iter : fr.
Global Arguments start_g1 : simpl never.

Lemma run_d_ptasks s d : ptasks (run_d s d) = ptasks s.
Proof. unfold run_d; brute. Qed.
Lemma run_d_mtasks s d : mtasks (run_d s d) = mtasks s.
Proof. unfold run_d; brute. Qed.
Lemma run_d_groups s d : groups (run_d s d) = groups s.
Proof. unfold run_d; brute. Qed.
Lemma run_d_num_started s d : num_started (run_d s d) = num_started s.
Proof. unfold run_d; brute. Qed.
Lemma run_d_taint_iter s d : taint_iter (run_d s d) = taint_iter s.
Proof. unfold run_d; brute. Qed.
#[export] Hint Rewrite run_d_ptasks run_d_mtasks run_d_groups run_d_num_started run_d_taint_iter : fr.
Global Arguments run_d : simpl never.

Lemma run_g_ptasks s d c : ptasks (run_g s d c) = ptasks s.
Proof. unfold run_g; brute. Qed.
Lemma run_g_mtasks s d c : mtasks (run_g s d c) = mtasks s.
Proof. unfold run_g; brute. Qed.
Lemma run_g_groups s d c : groups (run_g s d c) = groups s.
Proof. unfold run_g; brute. Qed.
Lemma run_g_num_started s d c : num_started (run_g s d c) = num_started s.
Proof. unfold run_g; brute. Qed.
Lemma run_g_taint_iter s d c : taint_iter (run_g s d c) = taint_iter s.
Proof. unfold run_g; brute. Qed.
#[export] Hint Rewrite run_g_ptasks run_g_mtasks run_g_groups run_g_num_started run_g_taint_iter : fr.
Global Arguments run_g : simpl never.

Lemma run_d_ssim s d : ssim s (run_d s d).
Proof. apply ssim_ceq; autorewrite with fr; auto. Qed.
Lemma run_g_ssim s d c : ssim s (run_g s d c).
Proof. apply ssim_ceq; autorewrite with fr; auto. Qed.

