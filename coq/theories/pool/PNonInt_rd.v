(** The driver restriction [re_drivers] is an invariant of runs whose labels are [re_only]. *)
From TP Require Import PInv PInv_P_base PInv_P_view PInv_P_chain PInv_P_ed.
From TP Require Export PNonInt_d.

Lemma RD_same s s' : dtasks s' = dtasks s -> re_drivers s -> re_drivers s'.
Proof. intros Eq H d x. unfold get_d. rewrite Eq. apply H. Qed.

Lemma RD_pv s s' : pview s' = pview s -> re_drivers s -> re_drivers s'.
Proof. intros Eq. apply RD_same. change (vds (pview s') = vds (pview s)). now rewrite Eq. Qed.

Lemma RD_Qpv : Qpv re_drivers.
Proof. intros s s'. apply RD_pv. Qed.

Lemma RD_Qreg : Qreg re_drivers.
Proof.
  intros s m x. apply RD_same. change (vds (pview (register s m x)) = vds (pview s)).
  rewrite pv_register. reflexivity.
Qed.

Lemma RD_put_d s d x : re_drivers s -> dt_ok x -> re_drivers (put_d s d x).
Proof.
  intros H Hx d' x'. unfold get_d, put_d. cbn [dtasks set_dtasks]. rewrite nth_error_upd.
  destruct (Nat.eqb d d').
  - destruct (Nat.ltb _ _); [|discriminate]. intros [= <-]. auto.
  - apply H.
Qed.

Lemma RD_sched s h : re_drivers s -> re_drivers (sched s h).
Proof. apply RD_pv, pv_sched. Qed.

Lemma RD_finish_d s d x e : re_drivers s -> dt_ok x -> re_drivers (finish_d s d x e).
Proof.
  intros H Hx. unfold finish_d. eapply RD_same with (s := put_d s d _); [reflexivity|].
  apply RD_put_d; auto.
Qed.

Lemma RD_wake_closed ds : forall s, re_drivers s -> re_drivers (wake_closed s ds).
Proof.
  induction ds as [|d r IH]; simpl; intros s H; auto. apply IH.
  destruct (get_d s d) as [x|] eqn:Hx; auto. destruct (fut_pending _); auto.
  apply RD_sched, RD_put_d; auto. exact (H d x Hx).
Qed.

Lemma RD_after_g2 s d x outer : re_drivers s -> dt_ok x -> re_drivers (after_g2 s d x outer).
Proof.
  intros H Hx. unfold after_g2.
  destruct outer; try (now apply RD_finish_d); destruct (d_kind x); try (now apply RD_finish_d);
    apply RD_finish_d; auto; try apply RD_wake_closed; (eapply RD_same; [|exact H]; reflexivity).
Qed.

Lemma dt_ok_g2 x g cs : dt_ok x -> g_re g = true -> dt_ok (set_d_snap (set_d_g2 x (Some g)) cs).
Proof.
  intros (Hk & H1 & H2) Hg. split; [exact Hk|]. split; [exact H1|].
  cbn. intros g' [= <-]. exact Hg.
Qed.

Lemma dt_ok_g1 x g : dt_ok x -> g_re g = true -> dt_ok (set_d_g1 x (Some g)).
Proof.
  intros (Hk & H1 & H2) Hg. split; [exact Hk|]. split; [|exact H2].
  cbn. intros g' [= <-]. exact Hg.
Qed.

Lemma RD_start_g2 s d x cs :
  re_drivers s -> dt_ok x -> re_drivers (start_g2 s d x cs true).
Proof.
  intros H Hx. unfold start_g2.
  pose proof (make_gather_re s (map TP cs) true) as Hre.
  destruct (make_gather s (map TP cs) true) as [g outer]. cbn [fst] in Hre.
  pose proof (dt_ok_g2 x g cs Hx Hre) as Hx'.
  destruct outer; try (now apply RD_after_g2).
  eapply RD_same with (s := put_d s d _); [reflexivity|]. apply RD_put_d; auto.
Qed.

Lemma RD_after_g1 s d x outer : re_drivers s -> dt_ok x -> re_drivers (after_g1 s d x outer).
Proof.
  intros H Hx. unfold after_g1. destruct Hx as (Hk & H1 & H2).
  destruct (d_kind x) eqn:Hkx.
  - apply kind_ok_flush in Hk. subst re.
    assert (Hgo : forall cs, re_drivers (start_g2 (set_meta_cancelled s []) d x cs true)).
    { intros cs. apply RD_start_g2; [eapply RD_same; [|exact H]; reflexivity|].
      split; [rewrite Hkx; split; discriminate|auto]. }
    assert (Hx : dt_ok x) by (split; [rewrite Hkx; split; discriminate|auto]).
    destruct outer as [| |e|]; auto. destruct e; auto using RD_finish_d.
  - pose proof Hk as Hk'. apply kind_ok_gac in Hk. subst re. cbv iota.
    apply RD_start_g2; [eapply RD_same; [|exact H]; reflexivity|].
    split; [rewrite Hkx; exact Hk'|auto].
  - apply RD_finish_d; auto. split; [rewrite Hkx; split; discriminate|auto].
Qed.

Lemma RD_start_g1 s d x cs :
  re_drivers s -> dt_ok x -> re_drivers (start_g1 s d x cs true).
Proof.
  intros H Hx. unfold start_g1.
  pose proof (make_gather_re s (map TM cs) true) as Hre.
  destruct (make_gather s (map TM cs) true) as [g outer]. cbn [fst] in Hre.
  pose proof (dt_ok_g1 x g Hx Hre) as Hx'.
  destruct outer; try (now apply RD_after_g1).
  eapply RD_same with (s := put_d s d _); [reflexivity|]. apply RD_put_d; auto.
Qed.

Lemma RD_run_d s d : re_drivers s -> re_drivers (run_d s d).
Proof.
  intros H. unfold run_d. destruct (get_d s d) as [x0|] eqn:Hx; auto.
  pose proof (H d x0 Hx) as Hx0.
  assert (Hok : dt_ok (set_d_fw x0 None)) by exact Hx0.
  destruct Hx0 as (Hk & _ & _).
  destruct (d_pc x0); auto.
  - cbn [d_kind set_d_fw] in *. destruct (d_kind x0) eqn:Hkx.
    + apply kind_ok_flush in Hk. subst re.
      destruct (pop_ended s (gmeta s)) as [gm ended].
      apply RD_start_g1; auto.
    + apply RD_start_g1; auto.
    + destruct (closed s); [apply RD_finish_d; auto|].
      eapply RD_same with (s := put_d (set_closed_waiters s _) d _); [reflexivity|].
      apply RD_put_d; [eapply RD_same; [|exact H]; reflexivity|exact Hok].
  - apply RD_after_g1; auto.
  - apply RD_after_g2; auto.
  - apply RD_finish_d; auto.
Qed.

Lemma RD_run_g s d c : re_drivers s -> re_drivers (run_g s d c).
Proof.
  intros H. unfold run_g. destruct (get_d s d) as [x|] eqn:Hx; auto.
  pose proof (H d x Hx) as (Hk & H1 & H2).
  destruct (tref_final s c) as [o|]; auto.
  set (phase1 := match c with TM _ => true | _ => false end).
  assert (Hset : forall g g', (if phase1 then d_g1 x else d_g2 x) = Some g -> g_re g' = g_re g ->
            dt_ok (if phase1 then set_d_g1 x (Some g') else set_d_g2 x (Some g'))).
  { intros g g' Hg Hre. destruct phase1.
    - split; [exact Hk|]. split; [|exact H2]. cbn. intros g0 [= <-]. rewrite Hre. auto.
    - split; [exact Hk|]. split; [exact H1|]. cbn. intros g0 [= <-]. rewrite Hre. auto. }
  destruct (if phase1 then d_g1 x else d_g2 x) as [g|] eqn:Hg; auto.
  destruct (if match d_pc x, phase1 with
               | DWaitG1, true | DWaitG2, false => true | _, _ => false end
            then d_fw x else None) as [[| | |]|];
    try (apply RD_put_d; auto; apply (Hset g); auto; fail).
  destruct (gather_cb _ _ _ _ _) as [nfin outer].
  assert (Hok : dt_ok (if phase1 then set_d_g1 x (Some (set_g_nfin g nfin))
                       else set_d_g2 x (Some (set_g_nfin g nfin)))) by (apply (Hset g); auto).
  destruct outer; try apply RD_sched; apply RD_put_d; auto.
Qed.

(** pool tasks and spawners do not touch the driver records *)
Lemma RD_run_p s t : re_drivers s -> re_drivers (run_p s t).
Proof. apply RD_same, dt_run_p. Qed.

Lemma RD_continue_p s t : re_drivers s -> re_drivers (continue_p s t).
Proof. apply RD_same, dt_continue_p. Qed.

Lemma RD_run_m s m : re_drivers s -> re_drivers (run_m s m).
Proof. apply (Q_run_m re_drivers RD_Qpv RD_Qreg). Qed.

Lemma RD_continue_m s m : re_drivers s -> re_drivers (continue_m s m).
Proof. apply (Q_continue_m re_drivers RD_Qpv RD_Qreg). Qed.

(** operations *)
Lemma RD_fold {A} (f : state -> A -> state) :
  (forall s a, re_drivers s -> re_drivers (f s a)) ->
  forall l s, re_drivers s -> re_drivers (fold_left f l s).
Proof. intros Hf l. induction l; simpl; intros; auto. Qed.

Lemma RD_cancel_p s t : re_drivers s -> re_drivers (cancel_p s t).
Proof. apply RD_same, dt_cancel_p. Qed.

Lemma RD_do_cancel s ids : re_drivers s -> re_drivers (do_cancel s ids).
Proof.
  intros H. unfold do_cancel. destruct (first_lookup_err s ids).
  - eapply RD_same; [|exact H]. reflexivity.
  - apply RD_fold; auto. intros; apply RD_cancel_p; auto.
Qed.

Lemma RD_cancel_group_body s g ids : re_drivers s -> re_drivers (cancel_group_body s g ids).
Proof.
  intros H. unfold cancel_group_body. apply RD_fold.
  - intros s0 t H0. destruct (mem t (t_running s0)); auto. apply RD_cancel_p; auto.
  - eapply RD_pv; [|exact H]. rewrite pv_mark_dead. apply pv_cancel_group_metas.
Qed.

Lemma RD_cancel_all_groups gs : forall s, re_drivers s -> re_drivers (cancel_all_groups s gs).
Proof.
  induction gs as [|[g ids] r IH]; simpl; intros s H; auto.
  apply IH. now apply RD_cancel_group_body.
Qed.

Lemma RD_know s g : re_drivers s -> re_drivers (know s g).
Proof. apply RD_pv, pv_know. Qed.

Lemma RD_set_res s r : re_drivers s -> re_drivers (set_res s r).
Proof. apply RD_same. reflexivity. Qed.

Lemma RD_new_meta s x : re_drivers s -> re_drivers (new_meta s x).
Proof. apply RD_pv, pv_new_meta. Qed.

Lemma RD_do_op s o : re_only (LOp o) -> re_drivers s -> re_drivers (do_op s o).
Proof.
  intros Hro H. destruct o; unfold do_op.
  - set (s1 := match g with Some g0 => know s g0 | None => s end).
    assert (H1 : re_drivers s1) by (unfold s1; destruct g; auto; apply RD_know; auto).
    clearbody s1.
    destruct (check_start s1 noncoro); [apply RD_set_res; auto|].
    destruct (ghas _ (groups s1)); [apply RD_set_res; auto|].
    apply RD_set_res, RD_new_meta. eapply RD_same; [reflexivity|]. apply RD_know; auto.
  - set (s1 := match g with Some g0 => know s g0 | None => s end).
    assert (H1 : re_drivers s1) by (unfold s1; destruct g; auto; apply RD_know; auto).
    clearbody s1.
    destruct (check_start s1 noncoro); [apply RD_set_res; auto|].
    destruct (Nat.eqb nc 0); [apply RD_set_res; auto|].
    destruct (ghas _ (groups s1)); [apply RD_set_res; auto|].
    apply RD_set_res, RD_new_meta. eapply RD_same; [reflexivity|]. apply RD_know; auto.
  - destruct (check_start s false); [apply RD_set_res; auto|].
    apply RD_set_res, RD_new_meta. eapply RD_same; [reflexivity|].
    eapply RD_same; [reflexivity|]. apply RD_know; auto.
  - apply RD_do_cancel; auto.
  - pose proof (RD_know s g H) as H1.
    destruct (glookup g (groups (know s g))).
    + apply RD_cancel_group_body. eapply RD_same; [|exact H1]. reflexivity.
    + apply RD_set_res; auto.
  - apply RD_cancel_all_groups. eapply RD_same; [|exact H]. reflexivity.
  - pose proof (RD_do_cancel s
      (match n with Some k => firstn_rev k (t_running s) | None => [] end) H) as H1.
    destruct (res _); auto; apply RD_set_res; auto.
  - pose proof (RD_do_cancel s (firstn_rev (length (t_running s)) (t_running s)) H) as H1.
    destruct (res _); auto; apply RD_set_res; auto.
  - eapply RD_same; [|exact H]. reflexivity.
  - eapply RD_same with (s := s); auto. destruct (Nat.ltb 0 (n_gac s)); reflexivity.
  - destruct v; [|apply RD_set_res; auto]. eapply RD_same; [|exact H]. reflexivity.
  - apply RD_set_res, RD_fold; auto. intros; apply RD_know; auto.
  - (* OpDriver *)
    apply RD_sched.
    assert (Hk : kind_ok k) by (destruct k as [[]|[]|]; simpl in Hro; try contradiction;
                                 split; discriminate).
    intros d x. unfold get_d. cbn [dtasks set_dtasks].
    assert (Hd : dtasks (match k with DGatherClose _ => set_n_gac s (S (n_gac s)) | _ => s end)
                 = dtasks s) by (destruct k; reflexivity).
    rewrite Hd. intros Hx.
    destruct (Nat.lt_ge_cases d (length (dtasks s))) as [Hl|Hl].
    + rewrite nth_error_app1 in Hx by auto. apply (H d x Hx).
    + rewrite nth_error_app2 in Hx by auto.
      destruct (d - length (dtasks s)) as [|[|j]]; try discriminate Hx.
      injection Hx as <-. split; [exact Hk|]. split; cbn; discriminate.
  - destruct (get_p s tid); auto. apply RD_sched. eapply RD_same; [|exact H]. reflexivity.
  - destruct (get_p s tid); auto. apply RD_sched. eapply RD_same; [|exact H]. reflexivity.
Qed.

Lemma re_drivers_init c : re_drivers (init c).
Proof. intros [|d] x H; discriminate H. Qed.

Lemma re_drivers_step s l : re_drivers s -> re_only l -> re_drivers (step s l).
Proof.
  intros H0 Hro. unfold step.
  set (s1 := set_res (set_evs s []) RNone).
  assert (H : re_drivers s1) by exact H0. clearbody s1.
  destruct (negb (enabled s1 l)); auto.
  destruct l as [h| |o].
  - assert (Hu : re_drivers (unsched s1 h)) by exact H.
    destruct h as [[t|m|d]|d c]; simpl.
    + apply RD_run_p; auto.
    + apply RD_run_m; auto.
    + apply RD_run_d; auto.
    + apply RD_run_g; auto.
  - destruct (ctl s1) as [|[t|m|d]]; auto.
    + apply RD_continue_p; auto.
    + apply RD_continue_m; auto.
  - apply RD_do_op; auto.
Qed.
