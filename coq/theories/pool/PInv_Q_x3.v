(** Extra invariant, part 3: OpDriver and new requests. *)
From TP Require Export PInv_Q_x2.
Set Implicit Arguments. Unset Strict Implicit.

Lemma XS_same s s' :
  mtasks s' = mtasks s -> (taint_iter s = true -> taint_iter s' = true) ->
  closed s' = closed s -> XS s -> XS s'.
Proof.
  intros A B C H. eapply XS_F2; eauto. rewrite A. apply Forall2_refl. apply qsim_refl.
Qed.

Lemma xfile_same s s' : mtasks s' = mtasks s -> gmeta s' = gmeta s -> xfile s -> xfile s'.
Proof.
  intros A B H. eapply xfile_F2; eauto. rewrite A. apply Forall2_refl. apply qsim_refl.
Qed.

Lemma Extra_driver s k : Extra_IR s -> Extra_IR (do_op s (OpDriver k)).
Proof.
  intros HX. destruct (Extra_parts HX) as [A [B C]]. cbn [do_op].
  set (s1 := match k with DGatherClose _ => set_n_gac s (S (n_gac s)) | _ => s end).
  assert (E : mtasks s1 = mtasks s /\ gmeta s1 = gmeta s /\ dtasks s1 = dtasks s /\
              closed s1 = closed s /\ taint_iter s1 = taint_iter s)
    by (unfold s1; destruct k; auto 10).
  destruct E as [E1 [E2 [E3 [E4 E5]]]]. clearbody s1.
  apply Extra_of_parts.
  - eapply XS_same; [| | |exact A]; autorewrite with fr; cbn; congruence.
  - eapply xfile_same; [| |exact B]; autorewrite with fr; cbn; congruence.
  - intros d x Hd. unfold get_d in Hd. rewrite sched_dtasks in Hd. cbn in Hd.
    rewrite E3 in Hd. apply nth_error_snoc_inv in Hd. destruct Hd as [Hd|[_ ->]].
    + apply (C _ _ Hd).
    + intros re _ Hpc. cbn in Hpc. discriminate.
Qed.

(** new requests *)
Lemma In_gadd g ms g0 x l :
  In (g, ms) (gadd g0 x l) ->
  In (g, ms) l \/ (g = g0 /\ forall m, In m ms -> m = x \/ exists v, In (g0, v) l /\ In m v).
Proof.
  induction l as [|[h w] t IH]; simpl.
  - intros [H|[]]. inversion H; subst. right. split; auto. intros m [<-|[]]. auto.
  - destruct (gname_eqb_spec g0 h) as [->|Ne]; simpl.
    + intros [H|H]; auto. inversion H; subst. right. split; auto.
      intros m Hm. apply In_dict_add in Hm. destruct Hm as [Hm| ->]; eauto.
    + intros [H|H]; auto. destruct (IH H) as [H'|[E H']]; auto.
      right. split; auto. intros m Hm. destruct (H' _ Hm) as [->|[v [Hv Hmv]]]; eauto.
Qed.

Lemma check_start_closed s b : check_start s b = None -> closed s = false.
Proof.
  unfold check_start. destruct b; [discriminate|]. destruct (closed s); auto. discriminate.
Qed.

Lemma Extra_new_meta s s0 x r :
  Extra_IR s -> closed s = false ->
  m_pc x = MNotStarted -> m_mc x = false -> m_fw x = None -> m_dead x = false ->
  mtasks s0 = mtasks s -> gmeta s0 = gmeta s -> dtasks s0 = dtasks s -> closed s0 = closed s ->
  taint_iter s0 = taint_iter s ->
  Extra_IR (set_res (new_meta s0 x) r).
Proof.
  intros HX Hcl Hpc Hmc Hfw Hd Em Eg Ed Ec Et.
  destruct (Extra_parts HX) as [A [B C]].
  assert (Fm : mtasks (set_res (new_meta s0 x) r) = mtasks s ++ [x])
    by (unfold new_meta; cbn; autorewrite with fr; cbn; congruence).
  assert (Fg : gmeta (set_res (new_meta s0 x) r) = gadd (m_group x) (length (mtasks s)) (gmeta s))
    by (unfold new_meta; cbn; autorewrite with fr; cbn; congruence).
  assert (Fd : dtasks (set_res (new_meta s0 x) r) = dtasks s)
    by (unfold new_meta; cbn; autorewrite with fr; cbn; congruence).
  assert (Fc : closed (set_res (new_meta s0 x) r) = false)
    by (unfold new_meta; cbn; autorewrite with fr; cbn; congruence).
  assert (Ft : taint_iter (set_res (new_meta s0 x) r) = taint_iter s)
    by (unfold new_meta; cbn; autorewrite with fr; cbn; congruence).
  set (s' := set_res (new_meta s0 x) r) in *. clearbody s'.
  apply Extra_of_parts.
  - intros m y Hy. unfold get_m in Hy. rewrite Fm in Hy.
    apply nth_error_snoc_inv in Hy. destruct Hy as [Hy|[_ ->]].
    + destruct (A _ _ Hy) as [P [Q1 [Q2 Q3]]]. unfold xs_ok. rewrite Ft, Fc.
      split; [|split; [|split]]; auto. discriminate.
    + unfold xs_ok, xpc, cancelled. rewrite Hpc, Hmc, Hfw, Hd, Fc.
      split; [|split; [|split]]; try (intros; discriminate).
      * repeat split; intros; discriminate.
      * intros _ [E|E]; discriminate.
  - intros g ms m Hi Hm. rewrite Fg in Hi. unfold get_m. rewrite Fm.
    destruct (In_gadd Hi) as [H|[-> H]].
    + destruct (B _ _ _ H Hm) as [y [Hy Hg]]. exists y. split; auto.
      apply nth_error_snoc_l; auto.
    + destruct (H _ Hm) as [->|[v [Hv Hmv]]].
      * exists x. split; auto. rewrite nth_error_app2, Nat.sub_diag; auto.
      * destruct (B _ _ _ Hv Hmv) as [y [Hy Hg]]. exists y. split; auto.
        apply nth_error_snoc_l; auto.
  - eapply xgac_same; eauto.
Qed.

Lemma know_opt_fields2 s (og : option gname) :
  let s1 := match og with Some g => know s g | None => s end in
  mtasks s1 = mtasks s /\ gmeta s1 = gmeta s /\ dtasks s1 = dtasks s /\
  closed s1 = closed s /\ taint_iter s1 = taint_iter s /\ locked s1 = locked s.
Proof. destruct og; cbn; autorewrite with fr; auto 10. unfold know. destruct (existsb _ _); auto 10. Qed.

Lemma check_start_eq s s1 b :
  closed s1 = closed s -> locked s1 = locked s -> check_start s1 b = check_start s b.
Proof. unfold check_start. intros -> ->. auto. Qed.

Ltac xnew HX Hc A B C D E :=
  eapply Extra_new_meta; [exact HX | exact Hc | reflexivity | reflexivity | reflexivity
                         | reflexivity | ..];
  cbn; autorewrite with fr; cbn; autorewrite with fr; auto.

Lemma Extra_op_apply s num bad noncoro w ecb ccb og :
  Extra_IR s -> Extra_IR (do_op s (OpApply num bad noncoro w ecb ccb og)).
Proof.
  intros HX. cbn [do_op].
  destruct (know_opt_fields2 s og) as [A [B [C [D [E F]]]]]. cbv zeta in A, B, C, D, E, F.
  set (s1 := match og with Some g => know s g | None => s end) in *. clearbody s1.
  assert (PQ s s1) as Hpq by (constructor; try congruence; rewrite A; apply Forall2_refl, qsim_refl).
  destruct (check_start s1 noncoro) eqn:Hcs.
  { eapply Extra_PQ; eauto. pq. }
  rewrite (check_start_eq noncoro D F) in Hcs. pose proof (check_start_closed Hcs) as Hc.
  set (g := match og with Some g => g | None => gen_name s1 0 end). clearbody g.
  destruct (ghas g (groups s1)).
  { eapply Extra_PQ; eauto. pq. }
  xnew HX Hc A B C D E.
Qed.

Lemma Extra_op_map s stars els nc noncoro ecb ccb og :
  Extra_IR s -> Extra_IR (do_op s (OpMap stars els nc noncoro ecb ccb og)).
Proof.
  intros HX. cbn [do_op].
  destruct (know_opt_fields2 s og) as [A [B [C [D [E F]]]]]. cbv zeta in A, B, C, D, E, F.
  set (s1 := match og with Some g => know s g | None => s end) in *. clearbody s1.
  assert (PQ s s1) as Hpq by (constructor; try congruence; rewrite A; apply Forall2_refl, qsim_refl).
  set (g := match og with Some g => g | None => gen_name s1 (meth_of_stars stars) end).
  clearbody g.
  destruct (check_start s1 noncoro) eqn:Hcs.
  { eapply Extra_PQ; eauto. pq. }
  rewrite (check_start_eq noncoro D F) in Hcs. pose proof (check_start_closed Hcs) as Hc.
  destruct (nc =? 0).
  { eapply Extra_PQ; eauto. pq. }
  destruct (ghas g (groups s1)).
  { eapply Extra_PQ; eauto. pq. }
  xnew HX Hc A B C D E.
Qed.

Lemma Extra_op_start s num : Extra_IR s -> Extra_IR (do_op s (OpStart num)).
Proof.
  intros HX. cbn [do_op].
  destruct (check_start s false) eqn:Hcs.
  { eapply Extra_PQ; eauto. pq. }
  pose proof (check_start_closed Hcs) as Hc.
  eapply Extra_new_meta; [exact HX | exact Hc | reflexivity | reflexivity | reflexivity
                         | reflexivity | ..];
  cbn; autorewrite with fr; cbn; autorewrite with fr; auto.
Qed.
