(** Per-task leaf facts for run_p / continue_p / OpFinish / OpReleaseCb. *)
From TP Require Import PInv PInv_P_base PInv_P_view PInv_P_inv PInv_P_tok.

Definition pfwc (x : ptask) : Prop := p_waiting (p_pc x) = true <-> p_fw x <> None.
Definition rx (x0 : ptask) : ptask := set_p_mc (set_p_fw x0 None) false.

Ltac leaf x :=
  dx x; unfold pfwc, rx, cb_raise, suspend_x, task_input in *; cbn in *; subst; tsolve.

Lemma L_created R C E ts t x :
  tok R C E ts t x -> pfwc x -> p_pc x = PCreated ->
  p_mc x = false /\ p_fw x = None /\ In t R.
Proof. intros H H1 H2. destruct (p_fw x) eqn:Ef; leaf x. Qed.

Lemma L_created_def R C E ts t x :
  tok R C E ts t x -> p_pc x = PCreated -> cond_cancel ts (set_p_unst (rx x) UNone).
Proof. intros H H2. leaf x. Qed.

Lemma L_created_start R C E ts t x :
  tok R C E ts t x -> p_pc x = PCreated ->
  tok R C E ts t (set_p_nstart (set_p_pc (set_p_unst (rx x) UNone) PUStart) (S (p_nstart (rx x)))).
Proof. intros H H2. leaf x. Qed.

Lemma L_gate_ok R C E ts t x :
  tok R C E ts t x -> p_pc x = PWaitGate -> tok R C E ts t (set_p_pc (rx x) PUResume).
Proof. intros H H2. leaf x. Qed.

Lemma L_gate_can R C E ts t x :
  tok R C E ts t x -> p_pc x = PWaitGate -> tok R C E ts t (set_p_pc (rx x) PUCancelled).
Proof. intros H H2. leaf x. Qed.

Lemma L_late_input R C E ts t x :
  tok R C E ts t x -> p_pc x = PWaitCcb \/ p_pc x = PWaitEcb -> ts = false ->
  task_input (p_mc x) (p_fw x) = InOk.
Proof.
  intros H H2 H3. destruct (p_fw x) as [[| |e|]|] eqn:Ef; try (destruct e); destruct H2; leaf x.
Qed.

Lemma L_ccb_ok R C E ts t x r :
  tok R C E ts t x -> p_pc x = PWaitCcb ->
  In t C /\ cond_end ts (cb_raise (rx x) r SCancelCb t).
Proof. intros H H2. destruct r; leaf x. Qed.

Lemma L_ccb_int R C E t x :
  tok R C E true t x -> p_pc x = PWaitCcb ->
  cond_end true (set_p_exc (rx x) (Some ECancelled)).
Proof. intros H H2. leaf x. Qed.

Lemma L_ecb_ok R C E ts t x r :
  tok R C E ts t x -> p_pc x = PWaitEcb ->
  ~ In t R /\ ~ In t C /\ cond_fin ts (cb_raise (rx x) r SEndCb t).
Proof. intros H H2. destruct r; leaf x. Qed.

Lemma L_ecb_int R C E t x :
  tok R C E true t x -> p_pc x = PWaitEcb ->
  cond_fin true (set_p_exc (rx x) (Some ECancelled)).
Proof. intros H H2. leaf x. Qed.

(** continue_p *)
Lemma L_ustart_susp R C E ts t x :
  tok R C E ts t x -> pfwc x -> p_pc x = PUStart -> w_first (p_w x) = WSuspend ->
  tok R C E ts t (suspend_x x PWaitGate).
Proof. intros H H1 H2 H3. destruct (p_fw x) eqn:Ef; destruct (p_mc x) eqn:Em; leaf x. Qed.

Lemma L_ustart_end R C E ts t x :
  tok R C E ts t x -> pfwc x -> p_pc x = PUStart -> w_first (p_w x) <> WSuspend ->
  In t R /\ cond_end ts x /\ cond_end ts (set_p_exc x (Some (EUser t SWorker))).
Proof. intros H H1 H2 H3. destruct (p_fw x) eqn:Ef; leaf x. Qed.

Lemma L_uresume R C E ts t x :
  tok R C E ts t x -> pfwc x -> p_pc x = PUResume ->
  In t R /\ cond_end ts x /\ cond_end ts (set_p_exc x (Some (EUser t SWorker))).
Proof. intros H H1 H2. destruct (p_fw x) eqn:Ef; leaf x. Qed.

Lemma L_ucancelled R C E ts t x :
  tok R C E ts t x -> pfwc x -> p_pc x = PUCancelled ->
  In t R /\ cond_cancel ts x /\ cond_end ts x.
Proof. intros H H1 H2. destruct (p_fw x) eqn:Ef; leaf x. Qed.
