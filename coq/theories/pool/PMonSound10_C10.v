(** Monitor soundness for C10: on the model's own observation stream (clean run) the executable
    monitor of PMon.v never reports a violated clause of property C10 (groups partition the
    tasks; names are fresh). *)
From TP Require Import PInv PInv_P PInv_Q PSpec PMon PRun PWF.
From TP Require Import PMonSound_trk PMonSound_gen PMonSound_kn PMonSound_C06_mod PMonSound_C06.
From TP Require Import PMonSound_C45_trk PMonSound_C45_sc PMonSound_C45_lab PMonSound_C45_mir.
From TP Require Import PMonSound10_trk PMonSound10_free PMonSound10_known PMonSound10_lab
  PMonSound10_gmdef PMonSound10_gms PMonSound10_evg.

(** ** the relation between the model state and the tracker after the same prefix *)
Definition RR10 (c : config) (s : state) (k : trk) : Prop :=
  (exists tr0, s = run c tr0) /\ prev_rel c s k /\ k_nstart k = start_calls s /\
  MIR (k_reqs k) s.

Lemma RR10_init c : RR10 c (init c) (trk_init c).
Proof.
  split; [exists []; reflexivity|]. split; [left; split; reflexivity|]. split; [reflexivity|].
  split; [reflexivity|]. intros r x y H. destruct r; discriminate H.
Qed.

(** ** the label clauses *)
Lemma lcl10_nil c s k l :
  prev_rel c s k -> k_nstart k = start_calls s -> KN s -> NoDup (map fst (groups s)) ->
  KN (step s l) ->
  lcl10 k (obs_of (step s l) l (enabled (pre s) l)) = [].
Proof.
  intros HP Hn HK Hnd HK'. unfold lcl10. cbn [o_enabled o_label obs_of].
  destruct (enabled (pre s) l) eqn:En; [|reflexivity]. cbn [negb]. cbv zeta.
  destruct l as [h| |op]; auto.
  destruct op as [num bad noncoro w ecb ccb og|stars els nc noncoro ecb ccb og|num|ids|g| |n| | |
                 |v|gs|kd|tid fh|tid]; auto.
  - (* apply *)
    apply (spawn_cl10_nil c s k _ _ _ noncoro false og 0 HP HK Hnd HK'). intros n.
    rewrite (step_op s _ En). intros Hr.
    destruct (apply_name (pre s) num bad noncoro w ecb ccb og n Hr) as (A & B & C).
    split; [exact A|]. split; [exact B|]. rewrite C. apply ghas_gensure_self.
  - (* map *)
    apply (spawn_cl10_nil c s k _ _ _ noncoro (Nat.eqb nc 0) og (S stars) HP HK Hnd HK').
    intros n. rewrite (step_op s _ En). intros Hr.
    destruct (map_name (pre s) stars els nc noncoro ecb ccb og n Hr) as (A & B & C).
    split; [exact A|]. split; [exact B|]. rewrite C. apply ghas_gensure_self.
  - (* start *)
    unfold start_cl10. cbn [o_res obs_of].
    destruct (res (step s (LOp (OpStart num)))) as [|n|ids|e] eqn:Hr; auto.
    rewrite group_live_obs by exact HK'.
    rewrite (step_op s _ En) in Hr |- *.
    destruct (start_name (pre s) num n Hr) as (A & B & _).
    rewrite B, ghas_gensure_self, Hn, A. cbn [fails app].
    change (start_calls (pre s)) with (start_calls s). rewrite geqb_refl. reflexivity.
  - (* get_group_ids *)
    rewrite (getids_ok_obs _ _ _ (groups (fold_left know gs (pre s))) gs HK'); [reflexivity| |].
    + rewrite (step_op s _ En), get_ids_shape. reflexivity.
    + rewrite (step_op s _ En), get_ids_shape. reflexivity.
Qed.

(** the number of accepted start() calls *)
Lemma nstart_step s k l :
  k_nstart k = start_calls s ->
  nstart_lab k (obs_of (step s l) l (enabled (pre s) l)) = start_calls (step s l).
Proof.
  intros Hn. unfold nstart_lab. cbn [o_enabled o_label o_res obs_of].
  destruct (enabled (pre s) l) eqn:En; cbn [negb].
  2:{ rewrite (step_disabled s l En). exact Hn. }
  destruct l as [h| |op]; try (rewrite sc_step by (intros; discriminate); exact Hn).
  destruct op as [num bad noncoro w ecb ccb og|stars els nc noncoro ecb ccb og|num|ids|g| |n| | |
                 |v|gs|kd|tid fh|tid];
    try (rewrite sc_step by (intros; discriminate); exact Hn).
  rewrite (step_op s _ En).
  destruct (res (do_op (pre s) (OpStart num))) as [|n|ids|e] eqn:Hr.
  - rewrite start_noname by (intros n; rewrite Hr; discriminate). exact Hn.
  - destruct (start_name (pre s) num n Hr) as (_ & _ & C). rewrite C, Hn. reflexivity.
  - rewrite start_noname by (intros n; rewrite Hr; discriminate). exact Hn.
  - rewrite start_noname by (intros n; rewrite Hr; discriminate). exact Hn.
Qed.

(** ** one step *)
Lemma mon_step_sound10 c s k l :
  RR10 c s k -> clean (step s l) ->
  let o := obs_of (step s l) l (enabled (set_res (set_evs s []) RNone) l) in
  fp 10 (snd (mon_step c k o)) = [] /\ RR10 c (step s l) (fst (mon_step c k o)).
Proof.
  intros ((tr0 & Hs) & HP & Hn & HM) Hc o. fold (pre s) in o.
  assert (Hcfg : cfg s = c) by (rewrite Hs; apply cfg_run).
  assert (Hrun : step s l = run c (tr0 ++ [l])) by (rewrite run_snoc, Hs; reflexivity).
  assert (Hc0 : clean s) by (eapply clean_step_inv'; eauto).
  assert (X : WFx s) by (rewrite Hs; apply WFx_run; rewrite <- Hs; exact Hc0).
  assert (X' : WFx (step s l)) by (rewrite Hrun; apply WFx_run; rewrite <- Hrun; exact Hc).
  pose proof (x_wf _ X) as W. pose proof (x_wf _ X') as W'.
  assert (HK : KN s) by (rewrite Hs; apply KN_run).
  assert (HK' : KN (step s l)) by (apply KN_step; exact HK).
  assert (HG : GMx s) by (rewrite Hs; apply GMx_run; rewrite <- Hs; exact Hc0).
  pose proof (IGr_keys _ (wfgr _ W)) as Hnd.
  destruct (mon_step_10 c k o) as (F & P1 & N1 & R1). cbv zeta in F, R1.
  set (rs1 := lab_reqs c (k_reqs k) (negb (k_gac_req k)) o) in *.
  assert (HM1 : MIR rs1 (step s l))
    by (apply (MIR_label c s l (k_reqs k) (negb (k_gac_req k)) X Hcfg HM)).
  split.
  - rewrite F.
    pose proof (lcl10_nil c s k l HP Hn HK Hnd HK') as L. fold o in L. rewrite L. cbn [app].
    assert (Pt : part10 o = true).
    { apply part10_obs.
      - rewrite Hrun. apply known_nodup_run.
      - apply (IGr_keys _ (wfgr _ W')).
      - apply (IGr_disj _ (wfgr _ W')). }
    rewrite Pt. cbn [fails]. rewrite app_nil_r.
    apply ecls10_nil.
    intros t r el x Hin Hx. change (o_events o) with (evs (step s l)) in Hin.
    unfold in_group10. destruct (group_ids o (r_group x)) as [ids|] eqn:Hg; [|reflexivity].
    apply mem_In. destruct HM1 as [HL1 HM1].
    destruct (@get_m_ex (step s l) r) as [y' Hy'].
    { rewrite <- HL1. apply nth_error_Some. congruence. }
    destruct (HM1 _ _ _ Hx Hy') as (_ & _ & _ & _ & _ & Eg & _).
    unfold o in Hg. rewrite group_ids_obs in Hg by exact HK'. rewrite Eg in Hg.
    apply (start_in_group s l t r el W (x_p _ X) HG Hin y' ids Hy' Hg).
  - split; [exists (tr0 ++ [l]); exact Hrun|]. split; [|split].
    + right. eexists. eexists. exact P1.
    + rewrite N1. apply nstart_step. exact Hn.
    + rewrite R1. apply MIR_events. exact HM1.
Qed.

(** ** whole runs *)
Lemma mon_run_sound10 c : forall tr s k i,
  RR10 c s k -> clean (fold_left step tr s) -> mon_run c 10 k i (observe_from s tr) = None.
Proof.
  induction tr as [|l tr IH]; intros s k i HR Hc; simpl; auto.
  simpl in Hc.
  assert (Hc1 : clean (step s l)) by (eapply clean_fold_inv; eauto).
  destruct (mon_step_sound10 c s k l HR Hc1) as [Hf HR'].
  cbv zeta in Hf, HR'.
  destruct (mon_step c k _) as [k' cs]. simpl in Hf, HR'. unfold fp in Hf. rewrite Hf.
  apply IH; auto.
Qed.

Theorem mon_C10_sound : forall c tr,
  clean (run c tr) -> PMon.ok_C10 c (PObs.observe c tr) = true.
Proof.
  intros c tr Hc. unfold ok_C10, ok_prop, observe.
  rewrite (mon_run_sound10 c tr (init c) (trk_init c) 0); auto. apply RR10_init.
Qed.

Print Assumptions mon_C10_sound.
