(** Preservation of the layers IM and IG of the invariant WF (PInv.v), together with the extra
    invariant Extra_G they need (PInv_G_Rel.v). *)
From TP Require Export PInv_G_C4.

Lemma nth_error_nil_None {A} n : nth_error (@nil A) n = None.
Proof. destruct n; reflexivity. Qed.

Lemma IM_init c : IM (init c).
Proof.
  constructor; unfold get_m; cbn; try (intros m x H; rewrite nth_error_nil_None in H; discriminate).
  - intros m [].
  - constructor.
  - constructor.
  - intros _ m x H. rewrite nth_error_nil_None in H. discriminate.
Qed.

Lemma IG_init c : IG (init c).
Proof.
  constructor; unfold get_d; cbn;
    try (intros d x g H; rewrite nth_error_nil_None in H; discriminate);
    try (intros d x H; rewrite nth_error_nil_None in H; discriminate);
    try (intros d x re g H; rewrite nth_error_nil_None in H; discriminate);
    try (intros d x re H; rewrite nth_error_nil_None in H; discriminate).
  - intros d c0 [].
  - discriminate.
Qed.

Lemma Extra_G_init c : Extra_G (init c).
Proof.
  constructor; unfold get_d, get_m; cbn;
    try (intros d x g H; rewrite nth_error_nil_None in H; discriminate);
    try (intros d x H; rewrite nth_error_nil_None in H; discriminate);
    try (intros d x re H; rewrite nth_error_nil_None in H; discriminate).
  - intros _ m. discriminate.
  - intros d c0 [].
  - constructor.
  - intros d [].
Qed.

Lemma is_ready_In s h : is_ready s h = true -> In h (ready s).
Proof. unfold is_ready. apply existsb_hid_In. Qed.

Theorem step_INV s l : WF s -> Extra_G s -> clean (step s l) -> INV (step s l).
Proof.
  intros W0 X0. unfold step. fold (reset s).
  pose proof (WF_reset _ W0) as W. pose proof (Extra_reset _ X0) as X.
  set (s1 := reset s) in *. clearbody s1.
  destruct (negb (enabled s1 l)) eqn:EN; [intros _; apply INV_of_WF; auto|].
  apply negb_false_iff in EN.
  destruct l as [h| |o]; cbn [enabled] in EN.
  - (* LRun *)
    intros _. destruct (ctl s1) eqn:Hctl; [|discriminate].
    apply is_ready_In in EN.
    destruct h as [[t|m|d]|d c]; cbn [run_handle].
    + apply step_run_p; auto.
    + apply step_run_m; auto.
    + apply step_run_d; auto.
    + apply step_run_g; auto.
  - (* LGo *)
    intros _. destruct (ctl s1) as [|[t|m|d]] eqn:Hctl.
    + apply INV_of_WF; auto.
    + apply step_continue_p; auto.
    + apply step_continue_m; auto.
    + apply INV_of_WF; auto.
  - (* LOp *)
    destruct o; intros CL.
    + apply op_apply_INV; auto.
    + apply op_map_INV; auto.
    + apply op_start_INV; auto.
    + apply op_cancel_INV; auto.
    + apply op_cancelgroup_INV; auto.
    + apply op_cancelall_INV; auto.
    + apply op_stop_INV; auto.
    + apply op_stopall_INV; auto.
    + apply op_lock_INV; auto.
    + apply op_unlock_INV; auto.
    + apply op_setsize_INV; auto.
    + apply op_getids_INV; auto.
    + apply op_driver_INV; auto.
    + apply op_finish_INV; auto.
    + apply op_releasecb_INV; auto.
Qed.

(** The deliverables.  [Extra_G] is the additional invariant (see PInv_G_Rel.v): it holds
    initially and is preserved under the same hypotheses. *)
Lemma IM_step s l : WF s -> Extra_G s -> clean (step s l) -> IM (step s l).
Proof. intros W X C. apply (step_INV s l W X C). Qed.

Lemma IG_step s l : WF s -> Extra_G s -> clean (step s l) -> IG (step s l).
Proof. intros W X C. apply (step_INV s l W X C). Qed.

Lemma Extra_G_step s l : WF s -> Extra_G s -> clean (step s l) -> Extra_G (step s l).
Proof. intros W X C. apply (step_INV s l W X C). Qed.

