(** Monitor soundness, C10 — the model side of the [EvStart] clause, part 1: where an [EvStart]
    of a step comes from.  (This file must not depend on PInv_Q, which makes [emit] opaque to
    [cbn].) *)
From TP Require Import PInv.
From TP Require Import PInv_P_base PInv_P_view PInv_P_inv PInv_P_tok PInv_P_tok2 PInv_P_leaf
  PInv_P_chain PInv_P_step PInv_P_ed PInv_P PSpecStep PStep_C_ev PStep_C_rel PStep_C_run
  PStep_C_drv PStep_C PStep_C06_rec.

(** ** who emits [EvStart] *)
Lemma evst_run_p s t t' r el :
  I1 s -> evs s = [] -> In (EvStart t' r el) (evs (run_p s t)) ->
  t' = t /\ exists x0, get_p s t = Some x0 /\ p_pc x0 = PCreated /\ p_unst x0 <> UDeferred /\
                      p_req x0 = r.
Proof.
  intros H E0. apply I1_iff in H. unfold run_p.
  destruct (get_p s t) as [x0|] eqn:Ex; [|rewrite E0; intros []].
  cbv zeta. destruct (p_pc x0) eqn:Epc; try (rewrite E0; intros []).
  - destruct (task_input _ _); [destruct (p_unst _) eqn:Eu|..]; intros He; evc E0 He.
    + match goal with Hs : EvStart _ _ _ = EvStart _ _ _ |- _ => injection Hs as <- <- _ end.
      split; auto. exists x0. cbn in Eu. repeat split; auto. congruence.
    + match goal with Hs : EvStart _ _ _ = EvStart _ _ _ |- _ => injection Hs as <- <- _ end.
      split; auto. exists x0. cbn in Eu. repeat split; auto. congruence.
  - destruct (task_input _ _); intros He; evc E0 He.
  - destruct (task_input _ _); intros He; evc E0 He.
  - destruct (task_input _ _); intros He; evc E0 He.
Qed.

Lemma evst_continue_p s t t' r el :
  I1 s -> evs s = [] -> ~ In (EvStart t' r el) (evs (continue_p s t)).
Proof.
  intros H E0. apply I1_iff in H. unfold continue_p.
  destruct (get_p s t) as [x0|] eqn:Ex; [|rewrite E0; intros []].
  destruct (p_pc x0) eqn:Epc; try (rewrite E0; intros []).
  - destruct (w_first (p_w x0)); intros He; evc E0 He.
  - destruct (p_fin x0); intros He; evc E0 He.
  - destruct (w_cancel (p_w x0)) eqn:Ew; intros He; evc E0 He.
  - destruct (p_ccb x0) as [|rs|sl rs]; [| |destruct sl]; intros He; evc E0 He.
  - destruct (p_ecb x0) as [|rs|sl rs]; [| |destruct sl]; intros He; evc E0 He.
Qed.

Lemma start_origin s l t r el :
  WF s -> Extra_P s -> In (EvStart t r el) (evs (step s l)) ->
  l = LRun (HT (TP t)) /\ enabled (pre s) l = true /\
  exists x0, get_p s t = Some x0 /\ p_pc x0 = PCreated /\ p_unst x0 <> UDeferred /\ p_req x0 = r.
Proof.
  intros W EP. pose proof (wf1 _ W) as HI1.
  unfold step. fold (pre s). destruct (negb (enabled (pre s) l)) eqn:En; [intros []|].
  apply negb_false_iff in En.
  destruct l as [h| |o].
  - pose proof En as Hen. apply enabled_run in En.
    assert (HI2 : I1 (unsched (pre s) h)) by (eapply I1_pv; [|exact HI1]; reflexivity).
    destruct h as [[t0|m|d]|d c]; cbn [run_handle].
    + intros He. apply (evst_run_p (unsched (pre s) (HT (TP t0))) t0 _ _ _ HI2 eq_refl) in He.
      destruct He as [-> He]. split; [reflexivity|]. split; [exact Hen|exact He].
    + intros He. apply op_run_m in He. destruct He as [[]|(m' & k' & He)]. discriminate.
    + destruct (get_d s d) as [x0|] eqn:Hx.
      * destruct (run_d_shape s d x0 W EP En Hx) as [[_ [_ Hc]]|[[_ Hc]|(snap & outer & Hf & _)]].
        -- intros He. apply Hc in He. destruct He as [[]|(o & He & _)]. discriminate.
        -- intros He. apply Hc in He. destruct He as [[]|(o & He & _)]. discriminate.
        -- destruct Hf as (_ & _ & Hc). rewrite Hc. simpl. intros [He|[]]. discriminate.
      * rewrite run_d_none by exact Hx. intros [].
    + rewrite ev_run_g. intros [].
  - assert (HI2 : I1 (pre s)) by (eapply I1_pv; [|exact HI1]; reflexivity).
    destruct (ctl (pre s)) as [|[t0|m|d]]; try (intros []).
    + intros He. exfalso. exact (evst_continue_p (pre s) t0 _ _ _ HI2 eq_refl He).
    + intros He. apply op_continue_m in He. destruct He as [[]|(m' & k' & He)]. discriminate.
  - rewrite ev_do_op. intros [].
Qed.

