(** Monitor soundness for C03 — cancellation targets: every task whose start was deferred by a
    cancellation ([p_unst = UDeferred]) is listed in the tracker's [k_target].

    Model side: which tasks an operation can newly defer ([cids]).
    Tracker side: [on_label] adds at least those ids to [k_target]; for group cancellations this
    uses the previous observation and the fact that every live group name is known ([KN]). *)
From TP Require Import PInv PMon PInv_R_base PInv_R_tr PStep_A PMonSound2_def PMonSound3_kn.

(** ** the model side *)
Definition DF (P0 : nat -> Prop) (D : list nat) (r0 : result) (s : state) : Prop :=
  (forall u x', get_p s u = Some x' -> p_unst x' = UDeferred -> P0 u \/ In u D) /\ res s = r0.

Lemma DF_eq P0 D r0 s s' : ptasks s' = ptasks s -> res s' = res s -> DF P0 D r0 s -> DF P0 D r0 s'.
Proof. unfold DF, get_p. intros -> ->. auto. Qed.

Lemma DF_sched P0 D r0 s h : DF P0 D r0 s -> DF P0 D r0 (sched s h).
Proof. apply DF_eq; unfold sched; destruct (is_ready s h); reflexivity. Qed.

Lemma DF_fold {A} (f : state -> A -> state) P0 D r0 (Q : A -> Prop) :
  (forall s x, Q x -> DF P0 D r0 s -> DF P0 D r0 (f s x)) ->
  forall l s, (forall x, In x l -> Q x) -> DF P0 D r0 s -> DF P0 D r0 (fold_left f l s).
Proof.
  intros Hf. induction l as [|x l IH]; simpl; intros s Hq H; [exact H|].
  apply IH; [intros y Hy; apply Hq; auto|apply Hf; [apply Hq; auto|exact H]].
Qed.

Lemma DF_put_p P0 D r0 s t x x' :
  DF P0 D r0 s -> get_p s t = Some x -> (p_unst x' = UDeferred -> p_unst x = UDeferred \/ In t D) ->
  DF P0 D r0 (put_p s t x').
Proof.
  intros [H1 H2] Hx Hu. split; [|exact H2]. intros u y Hy Hd.
  destruct (Nat.eq_dec t u) as [->|Hne].
  - rewrite get_p_put_p_eq in Hy by (eapply get_p_lt; eauto). injection Hy as <-.
    destruct (Hu Hd) as [Hd'|Hin]; auto. apply (H1 u x Hx Hd').
  - rewrite get_p_put_p_neq in Hy by auto. apply (H1 u y Hy Hd).
Qed.

Lemma DF_cancel_m P0 D r0 s m : DF P0 D r0 s -> DF P0 D r0 (cancel_m s m).
Proof.
  intros H. unfold cancel_m. destruct (get_m s m) as [x|]; auto.
  destruct (m_final x); auto.
  destruct (is_current s (TM m)); (destruct (fut_pending (m_fw x)); [apply DF_sched|]; exact H).
Qed.

Lemma DF_cancel_p P0 D r0 s t : In t D -> DF P0 D r0 s -> DF P0 D r0 (cancel_p s t).
Proof.
  intros Ht H. unfold cancel_p. destruct (get_p s t) as [x|] eqn:Hx; auto.
  destruct (p_unst x) eqn:Hu; try (eapply DF_put_p; eauto; fail).
  destruct (p_final x); auto.
  set (s1 := if is_current s (TP t) && final_segment x then set_taint_self s true else s).
  assert (H1 : DF P0 D r0 s1)
    by (unfold s1; destruct (is_current s (TP t) && final_segment x); exact H).
  assert (Hx1 : get_p s1 t = Some x)
    by (unfold s1; destruct (is_current s (TP t) && final_segment x); exact Hx).
  clearbody s1.
  destruct (fut_pending (p_fw x)).
  - apply DF_sched. eapply DF_put_p; eauto.
  - eapply DF_put_p; eauto.
Qed.

Lemma DF_cancel_group_metas P0 D r0 s g : DF P0 D r0 s -> DF P0 D r0 (cancel_group_metas s g).
Proof.
  intros H. unfold cancel_group_metas. destruct (glookup g (gmeta s)) as [ms|]; auto.
  match goal with |- DF _ _ _ (set_meta_cancelled ?s' _) => change (DF P0 D r0 s') end.
  apply (DF_fold cancel_m P0 D r0 (fun _ => True)); auto. intros; apply DF_cancel_m; auto.
Qed.

Lemma DF_cancel_group_body P0 D r0 s g ids :
  incl ids D -> DF P0 D r0 s -> DF P0 D r0 (cancel_group_body s g ids).
Proof.
  intros Hi H. unfold cancel_group_body.
  apply (DF_fold _ P0 D r0 (fun t => In t D)).
  - intros s' t Ht H'. destruct (mem t (t_running s')); auto. apply DF_cancel_p; auto.
  - exact Hi.
  - change (DF P0 D r0 (cancel_group_metas s g)). apply DF_cancel_group_metas; auto.
Qed.

Lemma DF_cancel_all_groups P0 D r0 gs : forall s,
  (forall g ids, In (g, ids) gs -> incl ids D) ->
  DF P0 D r0 s -> DF P0 D r0 (cancel_all_groups s gs).
Proof.
  induction gs as [|[g ids] gs IH]; simpl; intros s Hi H; auto.
  apply IH; [intros g' ids' Hin; apply (Hi g' ids'); auto|].
  apply DF_cancel_group_body; auto. apply (Hi g ids). auto.
Qed.

Definition cids (s1 : state) (o : op) (r : result) : list nat :=
  match o with
  | OpCancel ids => match r with RNone => ids | _ => [] end
  | OpStop _ | OpStopAll => match r with RIds ids => ids | _ => [] end
  | OpCancelGroup g =>
      match r with
      | RNone => match glookup g (groups s1) with Some ids => ids | None => [] end
      | _ => []
      end
  | OpCancelAll => concat (map snd (groups s1))
  | _ => []
  end.

Definition P0_of (s : state) (u : nat) : Prop :=
  exists x, get_p s u = Some x /\ p_unst x = UDeferred.

Lemma DF_start s : res s = RNone -> forall D, DF (P0_of s) D RNone s.
Proof. intros Hr D. split; auto. intros u x Hx Hd. left. exists x. auto. Qed.

Lemma DF_weak P0 D r0 s : DF P0 D r0 s -> DF P0 D r0 s.
Proof. auto. Qed.

Lemma groups_know s g : groups (know s g) = groups s.
Proof. unfold know. destruct (existsb (gname_eqb g) (known s)); reflexivity. Qed.

Lemma DF_know P0 D r0 s g : DF P0 D r0 s -> DF P0 D r0 (know s g).
Proof. intros H. unfold know. destruct (existsb (gname_eqb g) (known s)); exact H. Qed.

Lemma do_cancel_DF s ids :
  res s = RNone ->
  let s' := do_cancel s ids in
  (forall u x', get_p s' u = Some x' -> p_unst x' = UDeferred ->
     P0_of s u \/ (res s' = RNone /\ In u ids)) /\
  (res s' = RNone \/ exists e, res s' = RErr e).
Proof.
  intros Hr. cbv zeta. unfold do_cancel. destruct (first_lookup_err s ids) as [e|].
  - split; [|right; exists e; reflexivity]. intros u x Hx Hd. left. exists x. auto.
  - assert (H : DF (P0_of s) ids RNone (fold_left cancel_p ids s)).
    { apply (DF_fold cancel_p (P0_of s) ids RNone (fun t => In t ids)); auto.
      - intros s' t Ht H'. apply DF_cancel_p; auto.
      - apply DF_start. exact Hr. }
    destruct H as [H1 H2]. split; [|left; exact H2].
    intros u x Hx Hd. destruct (H1 u x Hx Hd); auto.
Qed.

Lemma In_concat_snd {A B} (l : list (A * list B)) g ids u :
  In (g, ids) l -> In u ids -> In u (concat (map snd l)).
Proof.
  intros H Hu. apply in_concat. exists ids. split; auto.
  apply in_map_iff. exists (g, ids). auto.
Qed.

Lemma ptasks_fold_know gs : forall s, ptasks (fold_left know gs s) = ptasks s.
Proof.
  induction gs as [|g gs IH]; simpl; intros s; auto.
  rewrite IH. unfold know. destruct (existsb _ _); reflexivity.
Qed.

Theorem do_op_deferred s o :
  res s = RNone ->
  forall u x', get_p (do_op s o) u = Some x' -> p_unst x' = UDeferred ->
    P0_of s u \/ In u (cids s o (res (do_op s o))).
Proof.
  intros Hr.
  assert (Hsame : forall s', ptasks s' = ptasks s ->
            forall u x', get_p s' u = Some x' -> p_unst x' = UDeferred -> P0_of s u \/ False).
  { intros s' Hp u x' Hx Hd. left. exists x'. unfold get_p in *. rewrite <- Hp. auto. }
  assert (Hl : forall s' D, ptasks s' = ptasks s ->
            forall u x', get_p s' u = Some x' -> p_unst x' = UDeferred -> P0_of s u \/ In u D).
  { intros s' D Hp u x' Hx Hd. destruct (Hsame s' Hp u x' Hx Hd) as [?|[]]. auto. }
  destruct o; unfold do_op; cbv zeta.
  - set (s1 := match g with Some g0 => know s g0 | None => s end).
    assert (Hp1 : ptasks s1 = ptasks s)
      by (unfold s1; destruct g; auto; unfold know; destruct (existsb _ _); reflexivity).
    clearbody s1.
    destruct (check_start s1 noncoro); [apply Hl; exact Hp1|].
    match goal with |- context [if ?c then _ else _] => destruct c end; [apply Hl; exact Hp1|].
    apply Hl. unfold new_meta. cbn [ptasks set_res]. rewrite ptasks_sched. cbn.
    unfold know. destruct (existsb _ _); exact Hp1.
  - set (s1 := match g with Some g0 => know s g0 | None => s end).
    assert (Hp1 : ptasks s1 = ptasks s)
      by (unfold s1; destruct g; auto; unfold know; destruct (existsb _ _); reflexivity).
    clearbody s1.
    destruct (check_start s1 noncoro); [apply Hl; exact Hp1|].
    destruct (nc =? 0); [apply Hl; exact Hp1|].
    match goal with |- context [if ?c then _ else _] => destruct c end; [apply Hl; exact Hp1|].
    apply Hl. unfold new_meta. cbn [ptasks set_res]. rewrite ptasks_sched. cbn.
    unfold know. destruct (existsb _ _); exact Hp1.
  - destruct (check_start s false); [apply Hl; reflexivity|].
    apply Hl. unfold new_meta. cbn [ptasks set_res]. rewrite ptasks_sched. cbn.
    unfold know. destruct (existsb _ _); reflexivity.
  - (* OpCancel *)
    destruct (do_cancel_DF s ids Hr) as [H1 H2]. cbv zeta in H1, H2.
    intros u x Hx Hd. destruct (H1 u x Hx Hd) as [?|[Hres Hin]]; auto.
    right. unfold cids. rewrite Hres. exact Hin.
  - (* OpCancelGroup *)
    rewrite groups_know. destruct (glookup g (groups s)) as [ids|] eqn:Hg.
    + assert (H : DF (P0_of s) ids RNone
                (cancel_group_body (set_groups (know s g) (gremove g (groups s))) g ids)).
      { apply DF_cancel_group_body; [apply incl_refl|].
        change (DF (P0_of s) ids RNone (know s g)). apply DF_know. apply DF_start. exact Hr. }
      destruct H as [H1 H2]. unfold cids. rewrite H2, Hg. exact H1.
    + apply Hl. cbn. unfold know. destruct (existsb _ _); reflexivity.
  - (* OpCancelAll *)
    assert (H : DF (P0_of s) (concat (map snd (groups s))) RNone
                (cancel_all_groups (set_groups s []) (rev (groups s)))).
    { apply DF_cancel_all_groups.
      - intros g ids Hin u Hu. apply in_rev in Hin. eapply In_concat_snd; eauto.
      - change (DF (P0_of s) (concat (map snd (groups s))) RNone s). apply DF_start. exact Hr. }
    destruct H as [H1 _]. unfold cids. exact H1.
  - (* OpStop *)
    set (ids := match n with Some k => firstn_rev k (t_running s) | None => [] end).
    destruct (do_cancel_DF s ids Hr) as [H1 H2]. cbv zeta in H1, H2.
    destruct H2 as [H2|[e H2]]; rewrite H2.
    + intros u x Hx Hd. change (get_p (do_cancel s ids) u = Some x) in Hx.
      destruct (H1 u x Hx Hd) as [?|[_ Hin]]; auto.
    + intros u x Hx Hd. destruct (H1 u x Hx Hd) as [?|[Hres _]]; auto. congruence.
  - (* OpStopAll *)
    set (ids := firstn_rev (length (t_running s)) (t_running s)).
    destruct (do_cancel_DF s ids Hr) as [H1 H2]. cbv zeta in H1, H2.
    destruct H2 as [H2|[e H2]]; rewrite H2.
    + intros u x Hx Hd. change (get_p (do_cancel s ids) u = Some x) in Hx.
      destruct (H1 u x Hx Hd) as [?|[_ Hin]]; auto.
    + intros u x Hx Hd. destruct (H1 u x Hx Hd) as [?|[Hres _]]; auto. congruence.
  - apply Hl. reflexivity.
  - apply Hl. destruct (0 <? n_gac s); reflexivity.
  - apply Hl. destruct v; reflexivity.
  - apply Hl. cbn [ptasks set_res]. apply ptasks_fold_know.
  - apply Hl. rewrite ptasks_sched. destruct k; reflexivity.
  - destruct (get_p s tid) as [x|] eqn:Hx; [|apply Hl; reflexivity].
    assert (H : DF (P0_of s) [] RNone
                   (sched (put_p s tid (set_p_fin (set_p_fw x (Some FOk)) h)) (HT (TP tid)))).
    { apply DF_sched. eapply DF_put_p; eauto. apply DF_start; auto. }
    destruct H as [H1 _]. intros u x' Hx' Hd. destruct (H1 u x' Hx' Hd) as [?|[]]; auto.
  - destruct (get_p s tid) as [x|] eqn:Hx; [|apply Hl; reflexivity].
    assert (H : DF (P0_of s) [] RNone
                   (sched (put_p s tid (set_p_fw x (Some FOk))) (HT (TP tid)))).
    { apply DF_sched. eapply DF_put_p; eauto. apply DF_start; auto. }
    destruct H as [H1 _]. intros u x' Hx' Hd. destruct (H1 u x' Hx' Hd) as [?|[]]; auto.
Qed.
