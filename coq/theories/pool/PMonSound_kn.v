(** KN: every live group name and the group of every request is known to the observer
    ([known s]) — needed to relate [group_ids] / [all_ids] of an observation to [groups s]. *)
From TP Require Import PInv PInv_P_base.

Definition okg (s : state) (y : mtask) : Prop := In (m_group y) (known s).

Definition KN (s : state) : Prop :=
  (forall g, ghas g (groups s) = true -> In g (known s)) /\
  (forall m y, get_m s m = Some y -> okg s y).

Definition p3 (s : state) := (groups s, known s, mtasks s).

Lemma NC_mt s s' : p3 s' = p3 s -> KN s -> KN s'.
Proof.
  unfold p3. intros E [A B]. injection E as E1 E2 E3. split.
  - rewrite E1, E2. exact A.
  - intros m y. unfold get_m, okg. rewrite E3, E2. apply B.
Qed.

Lemma NC_put_m s m x : KN s -> okg s x -> KN (put_m s m x).
Proof.
  intros [A B] Hx. split; [exact A|].
  intros m' y. unfold get_m, put_m. cbn [mtasks set_mtasks]. rewrite nth_error_upd.
  destruct (Nat.eqb m m').
  - destruct (Nat.ltb _ _); [|discriminate]. intros [= <-]. exact Hx.
  - apply B.
Qed.

Lemma KN_get s m y : KN s -> get_m s m = Some y -> okg s y.
Proof. intros [_ B]. apply B. Qed.

Ltac fr := eapply NC_mt; [reflexivity|].

Lemma mt_sched s h : p3 (sched s h) = p3 s.
Proof. unfold sched. destruct (is_ready s h); reflexivity. Qed.

Lemma NC_sched s h : KN s -> KN (sched s h).
Proof. apply NC_mt, mt_sched. Qed.

Lemma NC_fold {A} (f : state -> A -> state) :
  (forall s a, KN s -> KN (f s a)) ->
  forall l s, KN s -> KN (fold_left f l s).
Proof. intros H l. induction l; simpl; auto. Qed.

Lemma NC_sched_cbs s r : KN s -> KN (sched_cbs s r).
Proof. unfold sched_cbs. apply NC_fold. intros; now apply NC_sched. Qed.

Lemma NC_wake_next s : KN s -> KN (wake_next s).
Proof.
  intros H. unfold wake_next. destruct (first_pending _ _) as [m|]; auto.
  destruct (get_m s m) as [x|] eqn:Ex; auto.
  apply NC_sched, NC_put_m; [now fr|]. exact (KN_get _ _ _ H Ex).
Qed.

Lemma NC_sem_release s : KN s -> KN (sem_release s).
Proof. intros H. unfold sem_release. apply NC_wake_next. now fr. Qed.

Lemma NC_map_release s m : KN s -> KN (map_release s m).
Proof.
  intros H. unfold map_release. destruct (get_m s m) as [x|] eqn:Ex; auto.
  pose proof (KN_get _ _ _ H Ex) as Hx.
  destruct (m_pc x); try (apply NC_put_m; auto);
    destruct (m_fw x) as [[]|]; try (apply NC_put_m; auto).
  apply NC_sched, NC_put_m; auto.
Qed.

Lemma NC_finish_p s t x : KN s -> KN (finish_p s t x).
Proof. intros H. unfold finish_p. fr. apply NC_sched_cbs. now fr. Qed.

Lemma NC_finish_m s m x e : KN s -> okg s x -> KN (finish_m s m x e).
Proof. intros H Hx. unfold finish_m. fr. apply NC_sched_cbs, NC_put_m; auto. Qed.

Lemma NC_suspend_p s t x pc : KN s -> KN (suspend_p s t x pc).
Proof.
  intros H. unfold suspend_p. destruct (p_mc x); fr; [apply NC_sched|]; now fr.
Qed.

Lemma NC_suspend_m s m x pc : KN s -> okg s x -> KN (suspend_m s m x pc).
Proof.
  intros H Hx. unfold suspend_m. destruct (m_mc x); fr; [apply NC_sched|]; apply NC_put_m; auto.
Qed.

Lemma NC_enter_end s t x : KN s -> KN (enter_end s t x).
Proof.
  intros H. unfold enter_end.
  assert (Hm : forall s1, KN s1 ->
     KN (let s2 := set_t_ended s1 (dict_add (t_ended s1) t) in
               let s3 := sem_release s2 in
               let x0 := set_p_nrel x (S (p_nrel x)) in
               let s4 := if p_ismap x0 then map_release s3 (p_req x0) else s3 in
               match p_ecb x0 with
               | CbNone => finish_p s4 t x0
               | _ => set_ctl (emit (put_p s4 t (set_p_pc (set_p_necb x0 (S (p_necb x0))) PUEndCb))
                                    (EvCbBegin KEnd t (classify s4 t))) (CUser (TP t))
               end)).
  { intros s1 H1. cbv zeta.
    assert (H4 : KN (if p_ismap (set_p_nrel x (S (p_nrel x)))
                           then map_release (sem_release (set_t_ended s1 (dict_add (t_ended s1) t)))
                                            (p_req (set_p_nrel x (S (p_nrel x))))
                           else sem_release (set_t_ended s1 (dict_add (t_ended s1) t)))).
    { destruct (p_ismap _); [apply NC_map_release|]; apply NC_sem_release; now fr. }
    destruct (p_ecb _); [now apply NC_finish_p|now fr|now fr]. }
  destruct (mem t (t_running s)); [|destruct (mem t (t_cancelled s))].
  - apply Hm. now fr.
  - apply Hm. now fr.
  - now apply NC_finish_p.
Qed.

Lemma NC_enter_cancel s t x : KN s -> KN (enter_cancel s t x).
Proof.
  intros H. unfold enter_cancel. destruct (mem t (t_running s)).
  - cbv zeta. destruct (p_ccb x); [apply NC_enter_end|..]; now fr.
  - now apply NC_enter_end.
Qed.

Lemma NC_emit s e : KN s -> KN (emit s e).
Proof. intros H. now fr. Qed.

Ltac ncleaf :=
  first [ assumption
        | apply NC_enter_end | apply NC_enter_cancel | apply NC_finish_p | apply NC_suspend_p
        | apply NC_emit | (fr; assumption) ].

Lemma NC_run_p s t : KN s -> KN (run_p s t).
Proof.
  intros H. unfold run_p. cbv zeta.
  repeat (first [assumption | dmatch]); repeat ncleaf.
Qed.

Lemma NC_continue_p s t : KN s -> KN (continue_p s t).
Proof.
  intros H. unfold continue_p.
  repeat (first [assumption | dmatch]); repeat ncleaf.
Qed.

Lemma known_sched s h : known (sched s h) = known s.
Proof. unfold sched. destruct (is_ready s h); reflexivity. Qed.

Lemma known_wake_next s : known (wake_next s) = known s.
Proof.
  unfold wake_next. destruct (first_pending _ _); auto. destruct (get_m s n); auto.
  now rewrite known_sched.
Qed.

Lemma known_sem_release s : known (sem_release s) = known s.
Proof. unfold sem_release. now rewrite known_wake_next. Qed.

(** association lists *)
Lemma geqb_spec a b : reflect (a = b) (gname_eqb a b).
Proof.
  destruct a as [m i|i|i], b as [n j|j|j]; simpl; try (constructor; congruence).
  - destruct (Nat.eqb_spec m n), (Nat.eqb_spec i j); simpl; constructor; congruence.
  - destruct (Nat.eqb_spec i j); constructor; congruence.
  - destruct (Nat.eqb_spec i j); constructor; congruence.
Qed.

Lemma ghas_cons g h v t : ghas g ((h, v) :: t) = if gname_eqb g h then true else ghas g t.
Proof. unfold ghas. simpl. destruct (gname_eqb g h); reflexivity. Qed.

Lemma ghas_gadd g x l g' : ghas g' (gadd g x l) = true -> g' = g \/ ghas g' l = true.
Proof.
  induction l as [|[h w] t IH]; simpl.
  - rewrite ghas_cons. destruct (geqb_spec g' g); auto.
  - destruct (geqb_spec g h) as [->|Hne]; rewrite !ghas_cons.
    + destruct (gname_eqb g' h); auto.
    + destruct (gname_eqb g' h); auto.
Qed.

Lemma ghas_app g l1 l2 : ghas g (l1 ++ l2) = ghas g l1 || ghas g l2.
Proof.
  induction l1 as [|[h w] t IH]; simpl; auto. rewrite !ghas_cons.
  destruct (gname_eqb g h); auto.
Qed.

Lemma ghas_gensure g l g' : ghas g' (gensure g l) = true -> g' = g \/ ghas g' l = true.
Proof.
  unfold gensure. destruct (glookup g l); auto. rewrite ghas_app, ghas_cons.
  destruct (ghas g' l); auto. simpl. destruct (geqb_spec g' g); auto.
Qed.

Lemma ghas_gremove g l g' : ghas g' (gremove g l) = true -> ghas g' l = true.
Proof.
  induction l as [|[h w] t IH]; simpl; auto.
  destruct (gname_eqb g h); rewrite ?ghas_cons.
  - destruct (gname_eqb g' h); auto.
  - destruct (gname_eqb g' h); auto.
Qed.

(** spawners *)
Lemma NC_register s m x : KN s -> okg s x -> KN (register s m x).
Proof.
  intros H Hx. unfold register.
  apply NC_put_m; [|unfold okg; rewrite known_sched; exact Hx]. apply NC_sched.
  destruct H as [A B]. split.
  - intros g. cbn [groups known set_t_running set_ptasks set_num_started set_groups].
    intros Hg. apply ghas_gadd in Hg. destruct Hg as [->|Hg]; auto.
  - exact B.
Qed.

Lemma NC_try_start s m x : KN s -> okg s x -> KN (fst (try_start s m x)).
Proof.
  intros H Hx. unfold try_start. destruct (closed s); [|destruct (sem_locked s)]; cbn [fst].
  - now apply NC_finish_m.
  - apply (NC_suspend_m (set_sem_waiters s (sem_waiters s ++ [m]))); auto.
  - apply (NC_register (set_sem_value s (ninf_pred (sem_value s)))); auto.
Qed.

Lemma known_put_m s m x : known (put_m s m x) = known s.
Proof. reflexivity. Qed.

Lemma NC_apply_loop rem m : forall s, KN s -> KN (apply_loop rem s m).
Proof.
  induction rem as [|r IH]; intros s H; simpl.
  - destruct (get_m s m) as [x|] eqn:Ex; auto. apply NC_finish_m; auto.
    exact (KN_get _ _ _ H Ex).
  - destruct (get_m s m) as [x|] eqn:Ex; auto. pose proof (KN_get _ _ _ H Ex) as Hx.
    destruct (nth (m_idx x) (m_bad x) false).
    + apply IH. apply NC_put_m; auto.
    + pose proof (NC_try_start s m x H Hx) as H1.
      destruct (try_start s m x) as [s' cont]. cbn [fst] in H1. destruct cont; auto.
Qed.

Lemma NC_to_iter s m : KN s -> KN (to_iter s m).
Proof.
  intros H. unfold to_iter. destruct (get_m s m) as [x|] eqn:Ex; auto.
  fr. apply NC_put_m; auto. exact (KN_get _ _ _ H Ex).
Qed.

Lemma NC_spawn_next s m : KN s -> KN (spawn_next s m).
Proof.
  intros H. unfold spawn_next. destruct (get_m s m) as [x|]; auto.
  destruct (m_kind x); auto using NC_apply_loop, NC_to_iter.
Qed.

Lemma NC_start_then_next s m x : KN s -> okg s x -> KN (start_then_next s m x).
Proof.
  intros H Hx. unfold start_then_next. pose proof (NC_try_start s m x H Hx) as H1.
  destruct (try_start s m x) as [s' cont]. cbn [fst] in H1. destruct cont; auto.
  now apply NC_spawn_next.
Qed.

Lemma NC_continue_m s m : KN s -> KN (continue_m s m).
Proof.
  intros H. unfold continue_m. destruct (get_m s m) as [x|] eqn:Ex; auto.
  pose proof (KN_get _ _ _ H Ex) as Hx.
  destruct (m_pc x); auto. destruct (nth_error _ _) as [e|].
  - destruct (e_bad e).
    + apply NC_to_iter, NC_put_m; auto.
    + destruct (m_mapval x).
      * now apply NC_suspend_m.
      * now apply NC_start_then_next.
  - now apply NC_finish_m.
Qed.

Lemma NC_run_m s m : KN s -> KN (run_m s m).
Proof.
  intros H. unfold run_m. destruct (get_m s m) as [x0|] eqn:Ex; auto.
  pose proof (KN_get _ _ _ H Ex) as Hx.
  destruct (m_pc x0); auto.
  - destruct (task_input _ _).
    + apply NC_spawn_next, NC_put_m; auto.
    + now apply NC_finish_m.
    + now apply NC_finish_m.
  - destruct (task_input _ _).
    + now apply NC_start_then_next.
    + apply NC_finish_m; auto.
      destruct (match m_fw x0 with Some FCancelled => true | _ => false end); auto.
    + apply NC_finish_m; auto.
      destruct (match m_fw x0 with Some FCancelled => true | _ => false end); auto.
  - assert (H0 : KN (put_m (set_sem_waiters s (remove1 m (sem_waiters s))) m
                           (set_m_mc (set_m_fw x0 None) false))).
    { apply NC_put_m; auto. }
    cbv zeta.
    destruct (task_input _ _).
    + apply NC_spawn_next.
      destruct (ninf_pos _).
      * apply NC_register; [now apply NC_wake_next|].
        unfold okg. rewrite known_wake_next. exact Hx.
      * apply NC_register; auto.
    + apply NC_finish_m.
      * destruct (match m_fw x0 with Some FCancelled => true | _ => false end); auto.
        now apply NC_sem_release.
      * unfold okg. destruct (m_holds _);
        destruct (match m_fw x0 with Some FCancelled => true | _ => false end);
        rewrite ?known_sem_release; exact Hx.
    + apply NC_finish_m.
      * destruct (match m_fw x0 with Some FCancelled => true | _ => false end); auto.
        now apply NC_sem_release.
      * unfold okg. destruct (m_holds _);
        destruct (match m_fw x0 with Some FCancelled => true | _ => false end);
        rewrite ?known_sem_release; exact Hx.
Qed.

(** drivers: nothing of [p3] is touched *)
Lemma p3_wake_closed ds : forall s, p3 (wake_closed s ds) = p3 s.
Proof.
  induction ds as [|d r IH]; simpl; intros s; auto. rewrite IH.
  destruct (get_d s d); auto. destruct (fut_pending _); auto. now rewrite mt_sched.
Qed.

Lemma p3_after_g2 s d x outer : p3 (after_g2 s d x outer) = p3 s.
Proof.
  unfold after_g2. destruct outer; try reflexivity; destruct (d_kind x); try reflexivity.
  all: match goal with |- p3 (finish_d ?a _ _ _) = _ =>
         transitivity (p3 a); [reflexivity|] end; now rewrite p3_wake_closed.
Qed.

Lemma p3_start_g2 s d x cs re : p3 (start_g2 s d x cs re) = p3 s.
Proof.
  unfold start_g2. destruct (make_gather _ _ _) as [g outer].
  destruct outer; try apply p3_after_g2. reflexivity.
Qed.

Lemma p3_gm s v : p3 (set_gmeta s v) = p3 s.
Proof. reflexivity. Qed.

Lemma p3_after_g1 s d x outer : p3 (after_g1 s d x outer) = p3 s.
Proof.
  unfold after_g1. destruct (d_kind x).
  - destruct outer as [| |e|]; try destruct e; try reflexivity; now rewrite p3_start_g2.
  - destruct (if re then None else _); [reflexivity|]. now rewrite p3_start_g2.
  - reflexivity.
Qed.

Lemma p3_start_g1 s d x cs re : p3 (start_g1 s d x cs re) = p3 s.
Proof.
  unfold start_g1. destruct (make_gather _ _ _) as [g outer].
  destruct outer; try apply p3_after_g1. reflexivity.
Qed.

Lemma p3_run_d s d : p3 (run_d s d) = p3 s.
Proof.
  unfold run_d. destruct (get_d s d) as [x0|]; auto. destruct (d_pc x0); auto.
  - destruct (d_kind (set_d_fw x0 None)).
    + destruct (pop_ended s (gmeta s)) as [gm ended]. now rewrite p3_start_g1.
    + now rewrite p3_start_g1.
    + destruct (closed s); reflexivity.
  - apply p3_after_g1.
  - apply p3_after_g2.
Qed.

Lemma p3_run_g s d c : p3 (run_g s d c) = p3 s.
Proof. unfold run_g. repeat (first [reflexivity | rewrite mt_sched | dmatch]). Qed.

(** operations *)
Lemma p3_cancel_p s t : p3 (cancel_p s t) = p3 s.
Proof. unfold cancel_p. repeat (first [reflexivity | rewrite mt_sched | dmatch]). Qed.

Lemma NC_cancel_m s m : KN s -> KN (cancel_m s m).
Proof.
  intros H. unfold cancel_m. destruct (get_m s m) as [x|] eqn:Ex; auto.
  pose proof (KN_get _ _ _ H Ex) as Hx. destruct (m_final x); auto.
  assert (H1 : KN (if is_current s (TM m) then set_taint_iter s true else s))
    by (destruct (is_current _ _); auto).
  assert (Hx1 : okg (if is_current s (TM m) then set_taint_iter s true else s) x)
    by (destruct (is_current _ _); auto).
  destruct (fut_pending _); [apply NC_sched|]; apply NC_put_m; auto.
Qed.

Lemma NC_cancel_group_metas s g : KN s -> KN (cancel_group_metas s g).
Proof.
  intros H. unfold cancel_group_metas. destruct (glookup _ _); auto.
  fr. apply NC_fold; auto. intros; now apply NC_cancel_m.
Qed.

Lemma NC_mark_dead s g : KN s -> KN (mark_dead s g).
Proof.
  intros [A B]. split; [exact A|].
  intros m y. unfold get_m, mark_dead. cbn [mtasks set_mtasks]. rewrite nth_error_map.
  destruct (nth_error (mtasks s) m) as [x|] eqn:Ex; [|discriminate]. cbn.
  intros [= <-]. pose proof (B m x Ex) as Hx. destruct (gname_eqb _ _); auto.
Qed.

Lemma NC_cancel_group_body s g ids : KN s -> KN (cancel_group_body s g ids).
Proof.
  intros H. unfold cancel_group_body. apply NC_fold.
  - intros s0 t H0. destruct (mem t (t_running s0)); auto. eapply NC_mt; [apply p3_cancel_p|auto].
  - now apply NC_mark_dead, NC_cancel_group_metas.
Qed.

Lemma NC_cancel_all_groups gs : forall s, KN s -> KN (cancel_all_groups s gs).
Proof.
  induction gs as [|[g ids] r IH]; simpl; intros s H; auto.
  apply IH. now apply NC_cancel_group_body.
Qed.

Lemma NC_do_cancel s ids : KN s -> KN (do_cancel s ids).
Proof.
  intros H. unfold do_cancel. destruct (first_lookup_err s ids); auto.
  apply NC_fold; auto. intros s0 a H0. eapply NC_mt; [apply p3_cancel_p|auto].
Qed.

Lemma NC_new_meta s x : KN s -> okg s x -> KN (new_meta s x).
Proof.
  intros [A B] Hx. unfold new_meta. apply NC_sched. split; [exact A|].
  intros m y. unfold get_m. cbn [mtasks set_gmeta set_mtasks]. rewrite nth_error_snoc.
  destruct (Nat.ltb _ _); [apply B|]. destruct (Nat.eqb _ _); [|discriminate].
  intros [= <-]. exact Hx.
Qed.

Lemma NC_stop_res s ids :
  KN s -> KN (match res s with RErr _ => s | _ => set_res s (RIds ids) end).
Proof. intros H. destruct (res s); auto. Qed.

Lemma In_known_know s g : In g (known (know s g)).
Proof.
  unfold know. destruct (existsb (gname_eqb g) (known s)) eqn:E.
  - apply existsb_exists in E. destruct E as (h & Hin & He).
    destruct (geqb_spec g h); [subst; auto|discriminate].
  - cbn. rewrite in_app_iff. simpl. auto.
Qed.

Lemma known_know_mono s g h : In h (known s) -> In h (known (know s g)).
Proof.
  unfold know. destruct (existsb _ _); auto. cbn. rewrite in_app_iff. auto.
Qed.

Lemma NC_know s g : KN s -> KN (know s g).
Proof.
  intros [A B]. split.
  - intros h Hh. apply known_know_mono. apply A.
    unfold know in Hh. destruct (existsb _ _); exact Hh.
  - intros m y Hy. unfold okg. apply known_know_mono. apply (B m y).
    unfold know in Hy. destruct (existsb _ _); exact Hy.
Qed.

(** accepting a request under the name [g] (already made known) *)
Lemma NC_accept s g x gs r :
  KN s -> In g (known s) -> m_group x = g -> gs = gensure g (groups s) ->
  KN (set_res (new_meta (set_groups s gs) x) r).
Proof.
  intros [A B] Hg Hx ->. change (KN (new_meta (set_groups s (gensure g (groups s))) x)).
  apply NC_new_meta.
  - split; [|exact B]. intros h Hh. cbn [groups set_groups] in Hh.
    apply ghas_gensure in Hh. destruct Hh as [->|Hh]; auto.
  - unfold okg. rewrite Hx. exact Hg.
Qed.

Lemma NC_op_apply s num bad noncoro w ecb ccb og :
  KN s -> KN (do_op s (OpApply num bad noncoro w ecb ccb og)).
Proof.
  intros H. unfold do_op.
  assert (H0 : KN (match og with Some g0 => know s g0 | None => s end))
    by (destruct og; auto using NC_know).
  destruct (check_start _ _); [exact H0|].
  destruct (ghas _ _); [exact H0|].
  eapply NC_accept; [apply NC_know; exact H0|apply In_known_know|reflexivity|reflexivity].
Qed.

Lemma NC_op_map s stars els nc noncoro ecb ccb og :
  KN s -> KN (do_op s (OpMap stars els nc noncoro ecb ccb og)).
Proof.
  intros H. unfold do_op.
  assert (H0 : KN (match og with Some g0 => know s g0 | None => s end))
    by (destruct og; auto using NC_know).
  destruct (check_start _ _); [exact H0|].
  destruct (Nat.eqb nc 0) eqn:En; [exact H0|].
  destruct (ghas _ _); [exact H0|].
  eapply NC_accept; [apply NC_know; exact H0|apply In_known_know|reflexivity|reflexivity].
Qed.

Lemma NC_op_start s num : KN s -> KN (do_op s (OpStart num)).
Proof.
  intros H. unfold do_op. destruct (check_start s false); [exact H|].
  eapply NC_accept with (g := GStart (start_calls s));
    [exact (NC_know s (GStart (start_calls s)) H)|apply In_known_know|reflexivity|reflexivity].
Qed.

Lemma NC_do_op s o : KN s -> KN (do_op s o).
Proof.
  intros H. destruct o.
  - now apply NC_op_apply.
  - now apply NC_op_map.
  - now apply NC_op_start.
  - now apply NC_do_cancel.
  - unfold do_op. pose proof (NC_know s g H) as [A B]. destruct (glookup _ _).
    + apply NC_cancel_group_body. split; [|exact B].
      intros h Hh. cbn [groups set_groups] in Hh. apply ghas_gremove in Hh. auto.
    + split; [exact A|exact B].
  - unfold do_op. apply NC_cancel_all_groups. destruct H as [A B]. split; [|exact B].
    intros h Hh. discriminate Hh.
  - unfold do_op. apply NC_stop_res. now apply NC_do_cancel.
  - unfold do_op. apply NC_stop_res. now apply NC_do_cancel.
  - exact H.
  - unfold do_op. destruct (Nat.ltb _ _); exact H.
  - unfold do_op. destruct v; exact H.
  - unfold do_op. change (KN (fold_left know gs s)). apply NC_fold; auto. intros; now apply NC_know.
  - unfold do_op. apply NC_sched. destruct k; exact H.
  - unfold do_op. destruct (get_p s tid); auto. apply NC_sched. exact H.
  - unfold do_op. destruct (get_p s tid); auto. apply NC_sched. exact H.
Qed.

Lemma KN_init c : KN (init c).
Proof.
  split.
  - intros g H. discriminate H.
  - intros m y H. unfold get_m in H. cbn in H. now destruct m.
Qed.

Lemma KN_step s l : KN s -> KN (step s l).
Proof.
  intros H. unfold step.
  assert (H1 : KN (set_res (set_evs s []) RNone)) by exact H.
  destruct (negb _); auto.
  destruct l as [h| |o].
  - assert (H2 : KN (unsched (set_res (set_evs s []) RNone) h)) by exact H.
    destruct h as [[t|m|d]|d c]; cbn [run_handle].
    + now apply NC_run_p.
    + now apply NC_run_m.
    + eapply NC_mt; [apply p3_run_d|auto].
    + eapply NC_mt; [apply p3_run_g|auto].
  - destruct (ctl _) as [|[t|m|d]]; auto.
    + now apply NC_continue_p.
    + now apply NC_continue_m.
  - now apply NC_do_op.
Qed.

Lemma KN_run c tr : KN (fold_left step tr (init c)).
Proof.
  assert (H : forall s, KN s -> KN (fold_left step tr s)).
  { induction tr; simpl; auto. intros s Hs. apply IHtr. now apply KN_step. }
  apply H, KN_init.
Qed.
