(** C12 as a two-run property (non-interference of failures): a run in which user code raises is,
    up to the failures themselves, identical to the same run in which nothing raises —
    [erase_state] is a homomorphism from the one to the other.

    Restrictions (both genuine, see the report / the examples at the end):
    - drivers gather with return_exceptions=True ([re_only]); with False, flush() /
      gather_and_close() raise the task's exception (that is what C12 says) and behave differently;
    - the run is free of self-cancellation from a final segment (ghost [taint_self], open finding
      D11): a worker that cancels itself and then *raises* ends with its exception, one that
      cancels itself and then *returns* ends cancelled (asyncio's Task.__step) — so there the
      outcome of the task does depend on whether it failed.  [taint_self_dependence] below.
    - [clean] (no unlock during gather_and_close) is only needed because the invariants used
      ([WFx_run]) are established for clean runs. *)
From TP Require Import PInv PRun PInv_P PInv_P_tok PWF.
From TP Require Export PNonInt_p PNonInt_m PNonInt_d PNonInt_rd PNonInt_op.

Local Notation E := erase_state.

(** what the step needs of the pool tasks of the pre-state *)
Definition tasks_ok (s : state) : Prop := forall t x, get_p s t = Some x -> ptask_ok x.

Lemma E_reset s : E (set_res (set_evs s []) RNone) = set_res (set_evs (E s) []) RNone.
Proof. reflexivity. Qed.

Theorem erase_step : forall s l,
  re_drivers s -> tasks_ok s -> erase_state (step s l) = step (erase_state s) (erase_label l).
Proof.
  intros s l HR HT. unfold step. rewrite <- E_reset.
  set (s1 := set_res (set_evs s []) RNone).
  assert (HR1 : re_drivers s1) by exact HR.
  assert (HT1 : tasks_ok s1) by exact HT.
  clearbody s1. rewrite E_enabled.
  destruct (negb (enabled s1 l)); [reflexivity|].
  destruct l as [h| |o]; simpl erase_label; cbv beta iota.
  - rewrite <- E_unsched.
    assert (HRu : re_drivers (unsched s1 h)) by exact HR1.
    assert (HTu : tasks_ok (unsched s1 h)) by exact HT1.
    destruct h as [[t|m|d]|d c]; simpl run_handle.
    + apply E_run_p. intros x Hx. apply (HTu t x Hx).
    + apply E_run_m.
    + apply E_run_d; auto.
    + apply E_run_g; auto.
  - rewrite Ep_ctl. destruct (ctl s1) as [|[t|m|d]]; auto.
    + apply E_continue_p. intros x Hx. apply (HT1 t x Hx).
    + apply E_continue_m.
  - apply E_do_op.
Qed.

(** [tasks_ok] follows from the invariant when no worker cancelled itself from a final segment *)
Lemma tasks_ok_of_WF s : WF s -> Extra_P s -> taint_self s = false -> tasks_ok s.
Proof.
  intros W [[_ XT] _] Ht t x Hx.
  destruct (XT Ht t x Hx) as [Hnc Hst].
  pose proof (IH_noint _ (wfh _ W) t x Hx) as Hni.
  pose proof (IH_late _ (wfh _ W) Ht t x Hx) as Hl.
  split.
  - unfold exc_ok. unfold internal_exn in Hni.
    destruct (p_exc x) as [[]|]; try reflexivity; exfalso; auto.
  - unfold not_cancelled_late in Hl. destruct (p_pc x); auto; tauto.
Qed.

(** ** Runs *)
Lemma re_drivers_run c tr : Forall re_only tr -> re_drivers (run c tr).
Proof.
  induction tr as [|l tr IH] using rev_ind; intros H.
  - apply re_drivers_init.
  - apply Forall_app in H. destruct H as [H1 H2]. rewrite run_snoc.
    apply re_drivers_step; auto. inversion H2; auto.
Qed.

Lemma tasks_ok_run c tr : clean (run c tr) -> taint_self (run c tr) = false -> tasks_ok (run c tr).
Proof.
  intros Hc Ht. destruct (WFx_run c tr Hc) as [W XP _ _ _ _ _ _ _ _ _ _].
  apply tasks_ok_of_WF; auto.
Qed.

Lemma E_init c : E (init c) = init (erase_cfg c).
Proof. reflexivity. Qed.

Theorem C12_noninterference : forall c tr,
  Forall re_only tr -> clean (run c tr) -> taint_self (run c tr) = false ->
  erase_state (run c tr) = run (erase_cfg c) (map erase_label tr).
Proof.
  intros c tr. induction tr as [|l tr IH] using rev_ind; intros Hro Hc Ht.
  - apply E_init.
  - rewrite map_app. simpl map. rewrite !run_snoc.
    apply Forall_app in Hro. destruct Hro as [Hro _].
    pose proof (clean_run_prefix c tr [l] Hc) as Hc'.
    pose proof (taint_self_run_prefix c tr [l] Ht) as Ht'.
    rewrite <- IH by auto.
    apply erase_step; [apply re_drivers_run; auto|apply tasks_ok_run; auto].
Qed.

(** ** Observations *)
Lemma E_ctl_obs s : ctl_obs (E s) = ctl_obs s.
Proof.
  unfold ctl_obs. rewrite Ep_ctl. destruct (ctl s) as [|[t|m|d]]; auto.
  rewrite E_get_p. destruct (get_p s t); reflexivity.
Qed.

Lemma E_obs_of s l en : obs_of (E s) (erase_label l) en = erase_obs (obs_of s l en).
Proof.
  unfold obs_of, erase_obs. cbn [o_label o_enabled o_ctl o_nr o_nc o_ne o_full o_locked o_size
    o_ready_empty o_res o_groups o_events].
  rewrite E_ctl_obs, E_sem_locked. reflexivity.
Qed.

Lemma observe_from_erase c : forall tr2 tr1,
  Forall re_only (tr1 ++ tr2) -> clean (run c (tr1 ++ tr2)) ->
  taint_self (run c (tr1 ++ tr2)) = false ->
  map erase_obs (observe_from (run c tr1) tr2) =
  observe_from (E (run c tr1)) (map erase_label tr2).
Proof.
  induction tr2 as [|l t IH]; intros tr1 Hro Hc Ht; [reflexivity|].
  simpl. unfold observe1. cbv zeta.
  change (l :: t) with ([l] ++ t) in Hro, Hc, Ht. rewrite app_assoc in Hro, Hc, Ht.
  assert (Hro1 : Forall re_only tr1).
  { apply Forall_app in Hro. destruct Hro as [Hro _]. apply Forall_app in Hro. tauto. }
  pose proof (clean_run_prefix c (tr1 ++ [l]) t Hc) as Hc1.
  pose proof (taint_self_run_prefix c (tr1 ++ [l]) t Ht) as Ht1.
  pose proof (clean_run_prefix c tr1 [l] Hc1) as Hc0.
  pose proof (taint_self_run_prefix c tr1 [l] Ht1) as Ht0.
  rewrite <- (erase_step (run c tr1) l) by (auto using re_drivers_run, tasks_ok_run).
  rewrite <- E_reset, E_enabled, E_obs_of. simpl map. f_equal.
  rewrite <- run_snoc. apply IH; auto.
Qed.

Corollary C12_same_observations : forall c tr,
  Forall re_only tr -> clean (run c tr) -> taint_self (run c tr) = false ->
  map erase_obs (observe c tr) = observe (erase_cfg c) (map erase_label tr).
Proof.
  intros c tr Hro Hc Ht. unfold observe. rewrite <- E_init.
  apply (observe_from_erase c tr []); auto.
Qed.

(** ** The erasure is not vacuous: a run in which a worker raises and its end callback raises *)
Definition ni_cfg : config :=
  {| cf_size := Fin 2; cf_kind := KTask; cf_bad := []; cf_w := default_w;
     cf_ecb := CbNone; cf_ccb := CbNone |}.

Definition w_raise : wspec := {| w_first := WRaise; w_cancel := WPropagate |}.

Definition ni_tr : list label :=
  [ LOp (OpApply 1 [] false w_raise (CbSync true) CbNone None);
    LRun (HT (TM 0)); LRun (HT (TP 0)); LGo; LGo ].

Example erasure_not_vacuous :
  let s := run ni_cfg ni_tr in
  let s' := run (erase_cfg ni_cfg) (map erase_label ni_tr) in
  (* the task failed (with the end callback's exception) in the one run, succeeded in the other *)
  (exists x, get_p s 0 = Some x /\ p_final x = Some (OExc (EUser 0 SEndCb))) /\
  (exists x', get_p s' 0 = Some x' /\ p_final x' = Some OResult /\ p_exc x' = None) /\
  (* and everything the pool reports is the same *)
  length (t_running s') = length (t_running s) /\
  length (t_cancelled s') = length (t_cancelled s) /\
  length (t_ended s') = length (t_ended s) /\
  sem_value s' = sem_value s /\ sem_locked s' = sem_locked s /\ ready s' = ready s /\
  groups s' = groups s /\
  erase_state s = s'.
Proof.
  vm_compute. split; [eexists; split; reflexivity|].
  split; [eexists; split; [reflexivity|split; reflexivity]|].
  repeat split.
Qed.

(** ** The two restrictions are needed *)
(** a worker cancels itself at its first line and then raises: it ends with its exception; had
    it returned it would have ended cancelled (D11) *)
Definition nt_tr : list label :=
  [ LOp (OpApply 1 [] false w_raise CbNone CbNone None);
    LRun (HT (TM 0)); LRun (HT (TP 0)); LOp (OpCancel [0]); LGo ].

Theorem taint_self_dependence :
  exists c tr, Forall re_only tr /\ clean (run c tr) /\ taint_self (run c tr) = true /\
    erase_state (run c tr) <> run (erase_cfg c) (map erase_label tr) /\
    (exists x x', get_p (run c tr) 0 = Some x /\ p_final x = Some (OExc (EUser 0 SWorker)) /\
                  get_p (run (erase_cfg c) (map erase_label tr)) 0 = Some x' /\
                  p_final x' = Some OCancelled).
Proof.
  exists ni_cfg, nt_tr. split; [repeat constructor|]. split; [vm_compute; reflexivity|].
  split; [vm_compute; reflexivity|]. split.
  - intros H. apply (f_equal (fun s => option_map p_final (get_p s 0))) in H.
    vm_compute in H. discriminate H.
  - vm_compute. eexists. eexists. repeat split.
Qed.

(** flush(return_exceptions=False) raises the failed task's exception and forgets nothing; the
    same flush over a run without failures forgets the ended task *)
Definition nf_tr : list label :=
  [ LOp (OpApply 1 [] false w_raise CbNone CbNone None);
    LRun (HT (TM 0)); LRun (HT (TP 0)); LGo;
    LOp (OpDriver (DFlush false)); LRun (HT (TD 0)) ].

Theorem re_only_needed :
  exists c tr, clean (run c tr) /\ taint_self (run c tr) = false /\
    length (t_ended (run c tr)) = 1 /\
    length (t_ended (run (erase_cfg c) (map erase_label tr))) = 0.
Proof. exists ni_cfg, nf_tr. vm_compute. repeat split. Qed.
