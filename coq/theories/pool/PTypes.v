(** M1 — types of the pool model: identifiers, futures, exceptions, specs of harness-owned user
    code (workers, callbacks, argument iterables), labels and operations. *)
From TP Require Export Base.

(** Pool size / semaphore counter: a natural number or infinity ([math.inf]). *)
Inductive ninf := Fin (n : nat) | Inf.

Definition ninf_pred (v : ninf) : ninf :=
  match v with Fin n => Fin (pred n) | Inf => Inf end.
Definition ninf_succ (v : ninf) : ninf :=
  match v with Fin n => Fin (S n) | Inf => Inf end.
Definition ninf_is0 (v : ninf) : bool :=
  match v with Fin O => true | _ => false end.
Definition ninf_pos (v : ninf) : bool := negb (ninf_is0 v).
Definition ninf_eqb (a b : ninf) : bool :=
  match a, b with
  | Fin x, Fin y => Nat.eqb x y
  | Inf, Inf => true
  | _, _ => false
  end.
(** [n <= v] *)
Definition ninf_geb (v : ninf) (n : nat) : bool :=
  match v with Fin m => Nat.leb n m | Inf => true end.

(** References to asyncio Tasks: pool tasks (by the pool's own id), meta tasks = spawners (by
    request number), driver tasks (one per flush / gather_and_close / until_closed call). *)
Inductive tref := TP (t : nat) | TM (m : nat) | TD (d : nat).

Definition tref_eqb (a b : tref) : bool :=
  match a, b with
  | TP x, TP y | TM x, TM y | TD x, TD y => Nat.eqb x y
  | _, _ => false
  end.

(** Ready handles: a task step / wake-up, or a gather child callback (driver, child). *)
Inductive hid := HT (r : tref) | HG (d : nat) (c : tref).

Definition hid_eqb (a b : hid) : bool :=
  match a, b with
  | HT x, HT y => tref_eqb x y
  | HG d x, HG e y => Nat.eqb d e && tref_eqb x y
  | _, _ => false
  end.

(** Where a user exception was raised. *)
Inductive site := SWorker | SEndCb | SCancelCb.

Inductive exn :=
| EUser (tid : nat) (st : site)     (* raised by harness-owned user code, tagged with its origin *)
| ECancelled                         (* asyncio.CancelledError *)
| EKeyError                          (* internal: registry pop failed *)
| EPoolIsClosed                      (* internal: raised inside a spawner *)
| EPoolIsLocked.

Definition site_eqb (a b : site) : bool :=
  match a, b with
  | SWorker, SWorker | SEndCb, SEndCb | SCancelCb, SCancelCb => true
  | _, _ => false
  end.

Definition exn_eqb (a b : exn) : bool :=
  match a, b with
  | EUser t s, EUser u r => Nat.eqb t u && site_eqb s r
  | ECancelled, ECancelled | EKeyError, EKeyError | EPoolIsClosed, EPoolIsClosed
  | EPoolIsLocked, EPoolIsLocked => true
  | _, _ => false
  end.

(** State of a future some task awaits. *)
Inductive fut := FPending | FOk | FExc (e : exn) | FCancelled.

Definition fut_pending (f : option fut) : bool :=
  match f with Some FPending => true | _ => false end.

Inductive outcome := OResult | OExc (e : exn) | OCancelled.

(** ** Specs of user code (harness-owned) *)
Inductive wfirst := WSuspend | WReturn | WRaise.
Inductive wcancel := WPropagate | WSwallow.
Record wspec := { w_first : wfirst; w_cancel : wcancel }.

Inductive cbspec :=
| CbNone
| CbSync (raises : bool)
| CbAsync (slow raises : bool).

Record elem := { e_bad : bool; e_w : wspec }.

(** ** Group names *)
Inductive gname :=
| GGen (meth : nat) (i : nat)   (* '<method>-work-group-<i>'; meth: 0 apply 1 map 2 starmap 3 doublestarmap *)
| GStart (i : nat)              (* 'start-group-<i>' *)
| GUser (k : nat).              (* 'user-<k>' *)

Definition gname_eqb (a b : gname) : bool :=
  match a, b with
  | GGen m i, GGen n j => Nat.eqb m n && Nat.eqb i j
  | GStart i, GStart j => Nat.eqb i j
  | GUser i, GUser j => Nat.eqb i j
  | _, _ => false
  end.

(** ** Program counters *)
Inductive ppc :=
| PCreated          (* Task created, first step not taken *)
| PUStart           (* user point: first line of the worker *)
| PWaitGate         (* worker suspended on its gate *)
| PUResume          (* user point: worker resumed normally *)
| PUCancelled       (* user point: worker caught CancelledError *)
| PUCancelCb        (* user point: inside the cancel callback *)
| PWaitCcb          (* slow async cancel callback suspended on its gate *)
| PUEndCb           (* user point: inside the end callback *)
| PWaitEcb          (* slow async end callback suspended on its gate *)
| PDone.

Inductive mkind := MApply | MMap (stars : nat) | MStart.

Inductive mpc :=
| MNotStarted
| MLoopHead         (* running (never observed between labels) *)
| MAtIter           (* user point: inside the argument iterator's __next__ *)
| MWaitMap          (* suspended in the per-call semaphore's acquire *)
| MWaitPool         (* suspended in the pool semaphore's acquire *)
| MDone.

Inductive dkind := DFlush (re : bool) | DGatherClose (re : bool) | DUntilClosed.

Inductive dpc := DNotStarted | DWaitG1 | DWaitG2 | DWaitClosed | DDone.

Inductive unstarted := UNone | UPlain | UDeferred.

Inductive control := CIdle | CUser (r : tref).

Inductive pkind := KTask | KSimple.

Inductive fin_how := FinReturn | FinRaise.

(** ** Results of API operations *)
Inductive errclass :=
| ErrNotCoroutineFunction | ErrPoolIsClosed | ErrPoolIsLocked | ErrValueError
| ErrGroupExists | ErrGroupNotFound | ErrTaskNotFound | ErrAlreadyCancelled | ErrAlreadyEnded.

Inductive result :=
| RNone
| RName (g : gname)
| RIds (l : list nat)
| RErr (e : errclass).

(** ** Operations and labels *)
Inductive op :=
| OpApply (num : nat) (bad : list bool) (noncoro : bool) (w : wspec) (ecb ccb : cbspec)
          (g : option gname)   (* invocation i raises at call time iff [nth i bad false] *)
| OpMap (stars : nat) (els : list elem) (nc : nat) (noncoro : bool) (ecb ccb : cbspec)
        (g : option gname)
| OpStart (num : nat)
| OpCancel (ids : list nat)
| OpCancelGroup (g : gname)
| OpCancelAll
| OpStop (n : option nat)         (* None = a negative argument *)
| OpStopAll
| OpLock
| OpUnlock
| OpSetSize (v : option ninf)     (* None = a negative value *)
| OpGetGroupIds (gs : list gname)
| OpDriver (k : dkind)            (* create_task(pool.flush(..)) etc. *)
| OpFinish (tid : nat) (h : fin_how)   (* harness gate: let the worker finish *)
| OpReleaseCb (tid : nat).             (* harness gate: let a slow callback finish *)

Inductive label :=
| LRun (h : hid)
| LGo
| LOp (o : op).

(** ** Events (recorded by harness-owned code; identical in the model) *)
Inductive tclass := ClRunning | ClCancelled | ClEnded | ClUnknown.

Inductive cbkind := KEnd | KCancel.

Inductive event :=
| EvStart (tid : nat) (req : nat) (el : nat)        (* worker's first line; request and element *)
| EvCancelled (tid : nat)                           (* worker observed CancelledError *)
| EvExit (tid : nat)                                (* worker coroutine finished *)
| EvCbBegin (k : cbkind) (tid : nat) (cl : tclass)  (* callback entered; classification of tid *)
| EvCbEnd (k : cbkind) (tid : nat) (raised : bool)
| EvCbInterrupted (k : cbkind) (tid : nat)          (* an async callback was cancelled at its await *)
| EvPull (req : nat) (k : nat)                      (* argument iterator advanced (k-th call) *)
| EvDriverDone (d : nat) (o : outcome).

(** Static configuration of a run. *)
Record config := {
  cf_size : ninf;
  cf_kind : pkind;
  (* SimpleTaskPool: fixed function behaviour; the call fails at invocation index i of EACH
     start() request iff [nth i cf_bad false] *)
  cf_bad : list bool;
  cf_w : wspec;
  cf_ecb : cbspec;
  cf_ccb : cbspec
}.
