(** Per-task leaf facts, part 2. *)
From TP Require Import PInv PInv_P_base PInv_P_view PInv_P_inv PInv_P_tok PInv_P_leaf.

Lemma L_ucancelcb R C E ts t x r :
  tok R C E ts t x -> pfwc x -> p_pc x = PUCancelCb ->
  In t C /\ cond_end ts x /\ cond_end ts (cb_raise x r SCancelCb t).
Proof. intros H H1 H2. destruct (p_fw x) eqn:Ef; destruct r; leaf x. Qed.

Lemma L_ucancelcb_susp R C E ts t x :
  tok R C E ts t x -> pfwc x -> p_pc x = PUCancelCb ->
  tok R C E ts t (suspend_x x PWaitCcb).
Proof. intros H H1 H2. destruct (p_fw x) eqn:Ef; destruct (p_mc x) eqn:Em; leaf x. Qed.

Lemma L_uendcb R C E ts t x r :
  tok R C E ts t x -> pfwc x -> p_pc x = PUEndCb ->
  ~ In t R /\ ~ In t C /\ cond_fin ts x /\ cond_fin ts (cb_raise x r SEndCb t).
Proof. intros H H1 H2. destruct (p_fw x) eqn:Ef; destruct r; leaf x. Qed.

Lemma L_uendcb_susp R C E ts t x :
  tok R C E ts t x -> pfwc x -> p_pc x = PUEndCb ->
  tok R C E ts t (suspend_x x PWaitEcb).
Proof. intros H H1 H2. destruct (p_fw x) eqn:Ef; destruct (p_mc x) eqn:Em; leaf x. Qed.

(** harness gates *)
Lemma L_finish R C E ts t x h :
  tok R C E ts t x -> tok R C E ts t (set_p_fin (set_p_fw x (Some FOk)) h).
Proof. intros H. destruct (p_pc x) eqn:Epc; leaf x. Qed.

Lemma L_release R C E ts t x :
  tok R C E ts t x -> tok R C E ts t (set_p_fw x (Some FOk)).
Proof. intros H. destruct (p_pc x) eqn:Epc; leaf x. Qed.
