(** C12 / C08 — base: the extra invariant [Extra_D], and the frame invariant [K] used for all
    steps that do not run a driver. *)
From TP Require Import PSpecStep.
From Coq Require Import Lia.
Import ListNotations.

(** ** pool tasks: the stored exception *)
Definition site_ok (x : ptask) (st : site) : Prop :=
  match st with
  | SWorker => w_first (p_w x) = WRaise \/ p_fin x = FinRaise
  | SEndCb => cb_raises (p_ecb x) = true
  | SCancelCb => cb_raises (p_ccb x) = true
  end.

Definition exn_shape (t : nat) (x : ptask) (e : exn) : Prop :=
  e = ECancelled \/ internal_exn (Some e) \/ exists st, e = EUser t st /\ site_ok x st.

Definition E2 (t : nat) (x : ptask) : Prop := forall e, p_exc x = Some e -> exn_shape t x e.

Definition pt_ok (t : nat) (x : ptask) : Prop :=
  (running_pc (p_pc x) = true -> p_exc x = None) /\
  E2 t x /\
  (forall o, p_final x = Some o -> exists mc, o = final_of (p_exc x) mc).

Definition PT (s : state) : Prop := forall t x, get_p s t = Some x -> pt_ok t x.

(** a driver's failure comes from the outcome of a pool task *)
Definition tsrc (s : state) (e : exn) : Prop :=
  exists t y, get_p s t = Some y /\
              (p_final y = Some (OExc e) \/ (e = ECancelled /\ p_final y = Some OCancelled)).

Definition kind_re (k : dkind) : option bool :=
  match k with DFlush re | DGatherClose re => Some re | DUntilClosed => None end.

(** ** spawners, once closed *)
Definition Pm (y : mtask) : Prop := m_final y <> None \/ m_dead y = true.
Definition MP (s : state) : Prop := forall m y, get_m s m = Some y -> Pm y.
Definition CM (s : state) : Prop := closed s = true -> MP s.

(** ** drivers *)
Record dt_ok (s : state) (d : nat) (x : dtask) : Prop := {
  dk_wc : d_pc x = DWaitClosed -> d_kind x = DUntilClosed;
  dk_g : d_pc x = DWaitG1 \/ d_pc x = DWaitG2 -> d_kind x <> DUntilClosed;
  df_nc : d_fw x <> Some FCancelled;
  df_some : d_pc x = DWaitG1 \/ d_pc x = DWaitG2 -> d_fw x <> None;
  df_e1 : forall e, d_pc x = DWaitG1 -> d_fw x = Some (FExc e) ->
                    e = ECancelled /\ exists re, d_kind x = DFlush re;
  df_e2 : forall e, d_pc x = DWaitG2 -> d_fw x = Some (FExc e) ->
                    kind_re (d_kind x) = Some false /\ tsrc s e;
  dg_1 : forall g re, d_g1 x = Some g -> d_kind x = DGatherClose re -> g_re g = true;
  dg_2 : forall g, d_g2 x = Some g -> kind_re (d_kind x) = Some (g_re g);
  dfin : forall o, d_final x = Some o ->
                   o = OResult \/
                   (kind_re (d_kind x) = Some false /\
                    exists e, o = final_of (Some e) false /\ tsrc s e);
  dwc : d_pc x = DWaitClosed ->
        In d (closed_waiters s) /\
        ((closed s = false /\ d_fw x = Some FPending) \/ (closed s = true /\ d_fw x = Some FOk));
  dgac : forall re, d_kind x = DGatherClose re -> d_final x = Some OResult -> closed s = true;
  duc : d_kind x = DUntilClosed -> d_pc x = DDone -> closed s = true
}.

Arguments dk_wc {s d x}. Arguments dk_g {s d x}. Arguments df_nc {s d x}.
Arguments df_some {s d x}. Arguments df_e1 {s d x}. Arguments df_e2 {s d x}.
Arguments dg_1 {s d x}. Arguments dg_2 {s d x}. Arguments dfin {s d x}. Arguments dwc {s d x}.
Arguments dgac {s d x}. Arguments duc {s d x}.

Definition DT (s : state) : Prop := forall d x, get_d s d = Some x -> dt_ok s d x.

Definition Extra_D (s : state) : Prop := PT s /\ DT s /\ CM s.

(** ** monotone extension of the task list: finished tasks keep their outcome *)
Definition pext (l l' : list ptask) : Prop :=
  forall t y o, nth_error l t = Some y -> p_final y = Some o ->
                exists y', nth_error l' t = Some y' /\ p_final y' = Some o.

Lemma pext_refl l : pext l l.
Proof. intros t y o H1 H2. eauto. Qed.

Lemma pext_trans l1 l2 l3 : pext l1 l2 -> pext l2 l3 -> pext l1 l3.
Proof.
  intros H12 H23 t y o H1 H2. destruct (H12 t y o H1 H2) as [y' [H3 H4]]. eauto.
Qed.

Lemma tsrc_ext s s' e : pext (ptasks s) (ptasks s') -> tsrc s e -> tsrc s' e.
Proof.
  intros H [t [y [G [F|[E F]]]]]; unfold get_p in G;
    destruct (H t y _ G F) as [y' [G' F']]; exists t, y'; auto.
Qed.

Lemma dt_ok_ext s s' d x :
  closed s' = closed s -> (In d (closed_waiters s) -> In d (closed_waiters s')) ->
  pext (ptasks s) (ptasks s') -> dt_ok s d x -> dt_ok s' d x.
Proof.
  intros Ec Ew Hp H. constructor; try apply H; rewrite ?Ec; try apply H.
  - intros e P F. destruct (df_e2 H e P F). split; auto. eapply tsrc_ext; eauto.
  - intros o F. destruct (dfin H o F) as [|[Hk [e [Ho Hs]]]]; auto.
    right. split; auto. exists e. split; auto. eapply tsrc_ext; eauto.
  - intros P. destruct (dwc H P) as [Hi Hc]. split; auto.
Qed.

(** ** the frame invariant for steps that run no driver *)
Record K (s0 s : state) : Prop := {
  k_d : dtasks s = dtasks s0;
  k_c : closed s = closed s0;
  k_cw : closed_waiters s = closed_waiters s0;
  k_pt : PT s;
  k_ext : pext (ptasks s0) (ptasks s);
  k_cm : CM s
}.

Arguments k_d {s0 s}. Arguments k_c {s0 s}. Arguments k_cw {s0 s}. Arguments k_pt {s0 s}.
Arguments k_ext {s0 s}. Arguments k_cm {s0 s}.

Lemma K_init s : Extra_D s -> K s s.
Proof. intros [H1 [H2 H3]]. constructor; auto. apply pext_refl. Qed.

Lemma Extra_D_of_K s0 s : Extra_D s0 -> K s0 s -> Extra_D s.
Proof.
  intros [H1 [H2 H3]] H. split; [apply (k_pt H)|split; [|apply (k_cm H)]].
  intros d x G. unfold get_d in G. rewrite (k_d H) in G.
  eapply dt_ok_ext; [apply (k_c H)|rewrite (k_cw H); auto|apply (k_ext H)|]. apply H2. exact G.
Qed.

Lemma K_eq s0 s s' :
  ptasks s' = ptasks s -> mtasks s' = mtasks s -> dtasks s' = dtasks s ->
  closed s' = closed s -> closed_waiters s' = closed_waiters s -> K s0 s -> K s0 s'.
Proof.
  intros Ep Em Ed Ec Ew H. constructor.
  - rewrite Ed. apply (k_d H).
  - rewrite Ec. apply (k_c H).
  - rewrite Ew. apply (k_cw H).
  - intros t x G. unfold get_p in G. rewrite Ep in G. apply (k_pt H t x G).
  - rewrite Ep. apply (k_ext H).
  - intros C m y G. rewrite Ec in C. unfold get_m in G. rewrite Em in G. apply (k_cm H C m y G).
Qed.

Lemma K_sched s0 s h : K s0 s -> K s0 (sched s h).
Proof.
  intros H. unfold sched. destruct (is_ready s h); auto.
  apply (K_eq s0 s); auto.
Qed.

Lemma K_know s0 s g : K s0 s -> K s0 (know s g).
Proof.
  intros H. unfold know. destruct (existsb _ _); auto.
  apply (K_eq s0 s); auto.
Qed.

Lemma K_fold_sched s0 l : forall s, K s0 s -> K s0 (fold_left sched l s).
Proof. induction l; simpl; intros; auto. apply IHl, K_sched; auto. Qed.

Lemma K_sched_cbs s0 s r : K s0 s -> K s0 (sched_cbs s r).
Proof. apply K_fold_sched. Qed.

(** peel the frame-only outer layers of the state in a goal [K s0 (...)] *)
Lemma K_set_res s0 s v : K s0 s -> K s0 (set_res s v).
Proof. apply (K_eq s0 s); reflexivity. Qed.
Lemma K_set_evs s0 s v : K s0 s -> K s0 (set_evs s v).
Proof. apply (K_eq s0 s); reflexivity. Qed.
Lemma K_set_ctl s0 s v : K s0 s -> K s0 (set_ctl s v).
Proof. apply (K_eq s0 s); reflexivity. Qed.
Lemma K_set_ready s0 s v : K s0 s -> K s0 (set_ready s v).
Proof. apply (K_eq s0 s); reflexivity. Qed.
Lemma K_set_groups s0 s v : K s0 s -> K s0 (set_groups s v).
Proof. apply (K_eq s0 s); reflexivity. Qed.
Lemma K_set_known s0 s v : K s0 s -> K s0 (set_known s v).
Proof. apply (K_eq s0 s); reflexivity. Qed.
Lemma K_set_gmeta s0 s v : K s0 s -> K s0 (set_gmeta s v).
Proof. apply (K_eq s0 s); reflexivity. Qed.
Lemma K_set_meta_cancelled s0 s v : K s0 s -> K s0 (set_meta_cancelled s v).
Proof. apply (K_eq s0 s); reflexivity. Qed.
Lemma K_set_start_calls s0 s v : K s0 s -> K s0 (set_start_calls s v).
Proof. apply (K_eq s0 s); reflexivity. Qed.
Lemma K_set_locked s0 s v : K s0 s -> K s0 (set_locked s v).
Proof. apply (K_eq s0 s); reflexivity. Qed.
Lemma K_set_n_forgotten s0 s v : K s0 s -> K s0 (set_n_forgotten s v).
Proof. apply (K_eq s0 s); reflexivity. Qed.
Lemma K_set_taint_self s0 s v : K s0 s -> K s0 (set_taint_self s v).
Proof. apply (K_eq s0 s); reflexivity. Qed.
Lemma K_set_taint_iter s0 s v : K s0 s -> K s0 (set_taint_iter s v).
Proof. apply (K_eq s0 s); reflexivity. Qed.
Lemma K_set_taint_unlock s0 s v : K s0 s -> K s0 (set_taint_unlock s v).
Proof. apply (K_eq s0 s); reflexivity. Qed.
Lemma K_set_taint_size s0 s v : K s0 s -> K s0 (set_taint_size s v).
Proof. apply (K_eq s0 s); reflexivity. Qed.
Lemma K_set_n_gac s0 s v : K s0 s -> K s0 (set_n_gac s v).
Proof. apply (K_eq s0 s); reflexivity. Qed.
Lemma K_set_t_running s0 s v : K s0 s -> K s0 (set_t_running s v).
Proof. apply (K_eq s0 s); reflexivity. Qed.
Lemma K_set_t_cancelled s0 s v : K s0 s -> K s0 (set_t_cancelled s v).
Proof. apply (K_eq s0 s); reflexivity. Qed.
Lemma K_set_t_ended s0 s v : K s0 s -> K s0 (set_t_ended s v).
Proof. apply (K_eq s0 s); reflexivity. Qed.
Lemma K_set_sem_value s0 s v : K s0 s -> K s0 (set_sem_value s v).
Proof. apply (K_eq s0 s); reflexivity. Qed.
Lemma K_set_sem_waiters s0 s v : K s0 s -> K s0 (set_sem_waiters s v).
Proof. apply (K_eq s0 s); reflexivity. Qed.
Lemma K_set_cap s0 s v : K s0 s -> K s0 (set_cap s v).
Proof. apply (K_eq s0 s); reflexivity. Qed.
Lemma K_set_num_started s0 s v : K s0 s -> K s0 (set_num_started s v).
Proof. apply (K_eq s0 s); reflexivity. Qed.
Lemma K_emit s0 s e : K s0 s -> K s0 (emit s e).
Proof. apply (K_eq s0 s); reflexivity. Qed.
Lemma K_unsched s0 s h : K s0 s -> K s0 (unsched s h).
Proof. apply (K_eq s0 s); reflexivity. Qed.

Ltac k1 :=
  lazymatch goal with
  | |- K _ (sched _ _) => apply K_sched
  | |- K _ (know _ _) => apply K_know
  | |- K _ (fold_left sched _ _) => apply K_fold_sched
  | |- K _ (sched_cbs _ _) => apply K_sched_cbs
  | |- K _ (emit _ _) => apply K_emit
  | |- K _ (unsched _ _) => apply K_unsched
  | |- K _ (set_res _ _) => apply K_set_res
  | |- K _ (set_evs _ _) => apply K_set_evs
  | |- K _ (set_ctl _ _) => apply K_set_ctl
  | |- K _ (set_ready _ _) => apply K_set_ready
  | |- K _ (set_groups _ _) => apply K_set_groups
  | |- K _ (set_known _ _) => apply K_set_known
  | |- K _ (set_gmeta _ _) => apply K_set_gmeta
  | |- K _ (set_meta_cancelled _ _) => apply K_set_meta_cancelled
  | |- K _ (set_start_calls _ _) => apply K_set_start_calls
  | |- K _ (set_locked _ _) => apply K_set_locked
  | |- K _ (set_n_forgotten _ _) => apply K_set_n_forgotten
  | |- K _ (set_taint_self _ _) => apply K_set_taint_self
  | |- K _ (set_taint_iter _ _) => apply K_set_taint_iter
  | |- K _ (set_taint_unlock _ _) => apply K_set_taint_unlock
  | |- K _ (set_taint_size _ _) => apply K_set_taint_size
  | |- K _ (set_n_gac _ _) => apply K_set_n_gac
  | |- K _ (set_t_running _ _) => apply K_set_t_running
  | |- K _ (set_t_cancelled _ _) => apply K_set_t_cancelled
  | |- K _ (set_t_ended _ _) => apply K_set_t_ended
  | |- K _ (set_sem_value _ _) => apply K_set_sem_value
  | |- K _ (set_sem_waiters _ _) => apply K_set_sem_waiters
  | |- K _ (set_cap _ _) => apply K_set_cap
  | |- K _ (set_num_started _ _) => apply K_set_num_started
  end.
Ltac ks := repeat k1.

(** *** put_p *)
Lemma K_put_p s0 s t x' :
  K s0 s ->
  (forall y, get_p s t = Some y ->
             pt_ok t x' /\ (p_final y = None \/ p_final x' = p_final y)) ->
  K s0 (put_p s t x').
Proof.
  intros H Hy.
  destruct (get_p s t) as [y|] eqn:G.
  2:{ apply (K_eq s0 s); auto. unfold put_p. cbn. apply upd_out. apply nth_error_None. exact G. }
  destruct (Hy y eq_refl) as [Hok Hf].
  assert (Hlt : t < length (ptasks s)) by (apply nth_error_Some; unfold get_p in G; congruence).
  constructor; try apply H.
  - intros u x Gu. unfold get_p, put_p in Gu. cbn in Gu.
    destruct (Nat.eq_dec t u) as [<-|Hne].
    + rewrite nth_error_upd_eq in Gu by auto. inversion Gu; subst. auto.
    + rewrite nth_error_upd_neq in Gu by auto. apply (k_pt H u x Gu).
  - intros u y0 o G0 F0. destruct (k_ext H u y0 o G0 F0) as [y1 [G1 F1]].
    unfold put_p. cbn.
    destruct (Nat.eq_dec t u) as [<-|Hne].
    + rewrite nth_error_upd_eq by auto. exists x'. split; auto.
      unfold get_p in G. rewrite G in G1. inversion G1; subst.
      destruct Hf as [Hf|Hf]; congruence.
    + rewrite nth_error_upd_neq by auto. eauto.
Qed.

(** *** put_m *)
Lemma K_put_m s0 s m x' : K s0 s -> (closed s = true -> Pm x') -> K s0 (put_m s m x').
Proof.
  intros H Hx. constructor; try apply H.
  intros C u y G. unfold get_m, put_m in G. cbn in G. rewrite nth_error_upd in G.
  destruct (Nat.eqb m u).
  - destruct (Nat.ltb m (length (mtasks s))); [|discriminate]. inversion G; subst. auto.
  - apply (k_cm H C u y G).
Qed.

Lemma K_put_m_same s0 s m x x' :
  K s0 s -> get_m s m = Some x -> m_final x' = m_final x -> m_dead x' = m_dead x ->
  K s0 (put_m s m x').
Proof.
  intros H G Ef Ed. apply K_put_m; auto. intros C.
  pose proof (k_cm H C m x G) as P. unfold Pm in *. rewrite Ef, Ed. auto.
Qed.

(** ** pt_ok for modified records *)
Lemma pt_ok_same t x x' :
  p_pc x' = p_pc x -> p_exc x' = p_exc x -> p_final x' = p_final x -> p_w x' = p_w x ->
  p_fin x' = p_fin x -> p_ecb x' = p_ecb x -> p_ccb x' = p_ccb x -> pt_ok t x -> pt_ok t x'.
Proof.
  intros Epc Ee Ef Ew Efi Eec Ecc [H1 [H2 H3]]. unfold pt_ok, E2, exn_shape in *.
  rewrite Epc, Ee, Ef. split; [auto|split; [|auto]].
  intros e He. destruct (H2 e He) as [|[|[st [E S]]]]; auto.
  right; right. exists st. split; auto.
  destruct st; unfold site_ok in *; rewrite ?Ew, ?Efi, ?Eec, ?Ecc; auto.
Qed.

Lemma E2_same t x x' :
  p_exc x' = p_exc x -> p_w x' = p_w x -> p_fin x' = p_fin x -> p_ecb x' = p_ecb x ->
  p_ccb x' = p_ccb x -> E2 t x -> E2 t x'.
Proof.
  intros Ee Ew Efi Eec Ecc H2. unfold E2, exn_shape in *. rewrite Ee.
  intros e He. destruct (H2 e He) as [|[|[st [E S]]]]; auto.
  right; right. exists st. split; auto.
  destruct st; unfold site_ok in *; rewrite ?Ew, ?Efi, ?Eec, ?Ecc; auto.
Qed.

Lemma E2_none t x : p_exc x = None -> E2 t x.
Proof. intros H e He. congruence. Qed.

Lemma E2_set t x e : exn_shape t x e -> E2 t (set_p_exc x (Some e)).
Proof.
  intros H e' He. cbn in He. inversion He; subst.
  destruct H as [|[|[st [E S]]]]; [left|right;left|right;right]; auto.
  exists st. split; auto.
Qed.

Lemma E2_cb_raise t x r st :
  E2 t x -> (r = true -> site_ok x st) -> E2 t (cb_raise x r st t).
Proof.
  intros H Hs. unfold cb_raise. destruct r; auto.
  apply E2_set. right; right. exists st. auto.
Qed.

(** a record leaving the running program counters *)
Lemma pt_ok_move t x pc :
  E2 t x -> p_final x = None -> (running_pc pc = true -> p_exc x = None) ->
  forall x', p_pc x' = pc -> p_exc x' = p_exc x -> p_final x' = None -> p_w x' = p_w x ->
             p_fin x' = p_fin x -> p_ecb x' = p_ecb x -> p_ccb x' = p_ccb x -> pt_ok t x'.
Proof.
  intros H2 Hf Hr x' Epc Ee Ef Ew Efi Eec Ecc. unfold pt_ok. rewrite Epc, Ee, Ef.
  split; [auto|split; [|discriminate]].
  eapply E2_same; eauto.
Qed.

Lemma pt_ok_fin t x :
  E2 t x ->
  pt_ok t (set_p_final (set_p_pc (set_p_mc (set_p_fw x None) false) PDone)
                       (Some (final_of (p_exc x) (p_mc x)))).
Proof.
  intros H2. unfold pt_ok. cbn. split; [discriminate|split].
  - eapply E2_same; [..|exact H2]; reflexivity.
  - intros o E. inversion E. eauto.
Qed.
