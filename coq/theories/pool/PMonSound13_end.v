(** Monitor soundness, C13 (counting clauses) — model side, the registry of ended tasks:
    - in one step [t_ended] either gains one id, or is filtered (by a completing driver), never both;
    - what a flush that completes normally does to it;
    - a driver that starts waiting for its second gather has every ended task in its snapshot. *)
From TP Require Import PInv PInv_R_base PInv_P_base PInv_P_view PInv_P_inv PInv_P_tok PInv_P_tok2
  PInv_P_chain PInv_P_step PInv_P_ed PInv_P PSpecStep
  PStep_C_ev PStep_C_rel PStep_C_run PStep_C_drv PStep_C PTrace_C13
  PMonSound_C13_kd PMonSound_C13_mod PMonSound13_ds.

(** ** shape of the change of [t_ended] in one step *)
Definition eshape (E E' : list nat) : Prop :=
  E' = E \/ (exists t, E' = dict_add E t) \/ (exists snap, E' = filter (not_in snap) E) \/ E' = [].

Definition vEE (v v' : pv) : Prop := vE v' = vE v \/ exists t, vE v' = dict_add (vE v) t.

Lemma vEE_refl v : vEE v v.
Proof. left. reflexivity. Qed.

Lemma vEE_vput v v' t x : vEE v v' -> vEE v (vput v' t x).
Proof. exact (fun H => H). Qed.

Lemma vEE_enter_end v t x : vEE v (enter_end_v v t x).
Proof.
  unfold enter_end_v. destruct (mem t (vR v)); [|destruct (mem t (vC v))].
  - right. exists t. reflexivity.
  - right. exists t. reflexivity.
  - left. reflexivity.
Qed.

Lemma vEE_enter_cancel v t x : vEE v (enter_cancel_v v t x).
Proof.
  unfold enter_cancel_v. destruct (mem t (vR v)); [|apply vEE_enter_end].
  cbv zeta. destruct (p_ccb x); try (left; reflexivity).
  match goal with |- vEE v (enter_end_v ?v1 t x) =>
    change (vE v) with (vE v1); destruct (vEE_enter_end v1 t x) as [H|H]; [left|right]; exact H end.
Qed.

Ltac eeleaf :=
  autorewrite with pv; unfold finish_v, suspend_v;
  auto using vEE_refl, vEE_vput, vEE_enter_end, vEE_enter_cancel.

Lemma vEE_run_p s t : vEE (pview s) (pview (run_p s t)).
Proof.
  unfold run_p. cbv zeta. repeat (first [apply vEE_refl | dmatch]); eeleaf.
Qed.

Lemma vEE_continue_p s t : vEE (pview s) (pview (continue_p s t)).
Proof.
  unfold continue_p. repeat (first [apply vEE_refl | dmatch]); eeleaf.
Qed.

Lemma eshape_vEE s0 s s' : t_ended s = t_ended s0 -> vEE (pview s) (pview s') ->
  eshape (t_ended s0) (t_ended s').
Proof.
  intros E [H|(t & H)]; cbn [vE pview] in H; rewrite E in H; [left|right; left; exists t]; exact H.
Qed.

Lemma eshape_pc s0 s s' : t_ended s = t_ended s0 -> pcore s' = pcore s ->
  eshape (t_ended s0) (t_ended s').
Proof. intros E H. apply pcore_inv in H. left. rewrite <- E. tauto. Qed.

Theorem ended_shape s l : WF s -> Extra_P s -> eshape (t_ended s) (t_ended (step s l)).
Proof.
  intros W EP. unfold step. fold (pre s).
  destruct (negb (enabled (pre s) l)) eqn:En; [left; reflexivity|].
  apply negb_false_iff in En.
  destruct l as [h| |o].
  - apply enabled_run in En.
    destruct h as [[t|m|d]|d c]; cbn [run_handle].
    + apply (eshape_vEE s (unsched (pre s) (HT (TP t)))); [reflexivity|apply vEE_run_p].
    + assert (H : MQ (unsched (pre s) (HT (TM m))) (run_m (unsched (pre s) (HT (TM m))) m)).
      { apply (Q_run_m _ (MQ_Qpv _) (MQ_Qreg _)). apply MQ_refl. }
      destruct H as (_ & H & _). left. exact H.
    + destruct (get_d s d) as [x0|] eqn:Hx.
      * destruct (run_d_shape s d x0 W EP En Hx) as [[_ [Hc _]]|[[Hc _]|(snap & outer & Hf & _)]].
        -- apply (eshape_pc s (unsched (pre s) (HT (TD d)))); [reflexivity|exact Hc].
        -- apply (eshape_pc s (unsched (pre s) (HT (TD d)))); [reflexivity|exact Hc].
        -- destruct Hf as (_ & Hc & _).
           set (s' := run_d (unsched (pre s) (HT (TD d))) d) in *.
           change (t_ended s') with (vE (pcore s')). rewrite Hc.
           change (pview (unsched (pre s) (HT (TD d)))) with (pview s).
           unfold after_g2_v. destruct outer; try (left; reflexivity);
             destruct (d_kind x0); try (left; reflexivity);
             try (right; right; left; exists snap; reflexivity);
             right; right; right; reflexivity.
      * rewrite run_d_none by exact Hx. left. reflexivity.
    + apply (eshape_pc s (unsched (pre s) (HG d c))); [reflexivity|apply pc_run_g].
  - destruct (ctl (pre s)) as [|[t|m|d]]; try (left; reflexivity).
    + apply (eshape_vEE s (pre s)); [reflexivity|apply vEE_continue_p].
    + assert (H : MQ (pre s) (continue_m (pre s) m)).
      { apply (Q_continue_m _ (MQ_Qpv _) (MQ_Qreg _)). apply MQ_refl. }
      destruct H as (_ & H & _). left. exact H.
  - destruct (R3_do_op (pre s) o) as (_ & _ & H). left. exact H.
Qed.

Lemma filter_filter_le {A} (f g : A -> bool) l :
  length (filter f (filter g l)) <= length (filter f l).
Proof.
  induction l as [|a l IH]; simpl; auto.
  destruct (g a); simpl; destruct (f a); simpl; lia.
Qed.

Lemma eshape_count (f : nat -> bool) E E' :
  eshape E E' -> length (filter f E') <= length (filter f E) + (length E' - length E).
Proof.
  intros [->|[(t & ->)|[(snap & ->)| ->]]].
  - lia.
  - unfold dict_add. destruct (mem t E); [lia|].
    rewrite filter_app, !app_length. simpl. destruct (f t); simpl; lia.
  - pose proof (filter_filter_le f (not_in snap) E). lia.
  - simpl. lia.
Qed.

(** the count of ended tasks outside a fixed set grows at most by the (truncated) growth of the
    registry — what the monitor adds to [k_etotal] *)
Theorem ended_count s l snap : WF s -> Extra_P s ->
  length (filter (not_in snap) (t_ended (step s l))) <=
  length (filter (not_in snap) (t_ended s)) + (length (t_ended (step s l)) - length (t_ended s)).
Proof. intros W EP. apply eshape_count, ended_shape; auto. Qed.

(** ** a flush that completes normally *)
Lemma flush_done2 s l d x re :
  WF s -> Extra_P s -> d_pc x <> DWaitClosed -> get_d s d = Some x -> d_kind x = DFlush re ->
  In (EvDriverDone d OResult) (evs (step s l)) ->
  exists snap,
    t_ended (step s l) = filter (not_in snap) (t_ended s) /\
    ((d_pc x = DWaitG2 /\ snap = d_snap x) \/ (forall t, In t (t_ended s) -> In t snap)) /\
    (forall t, In t snap -> exists y, get_p s t = Some y /\ p_final y <> None).
Proof.
  intros W EP Hnw Hx Hk. pose proof (wf1 _ W) as HI1.
  unfold step. fold (pre s). destruct (negb (enabled (pre s) l)) eqn:En; [intros []|].
  apply negb_false_iff in En.
  destruct l as [h| |o].
  - apply enabled_run in En.
    assert (HI2 : I1 (unsched (pre s) h)) by (eapply I1_pv; [|exact HI1]; reflexivity).
    destruct h as [[t0|m|d']|d' c]; cbn [run_handle].
    + intros He. apply (ev_run_p (unsched (pre s) (HT (TP t0))) t0 _ HI2 eq_refl) in He.
      destruct He.
    + intros He. apply op_run_m in He. destruct He as [[]|(m' & k' & He)]. discriminate.
    + destruct (get_d s d') as [x0|] eqn:Hx0.
      * destruct (run_d_shape s d' x0 W EP En Hx0)
          as [[Hpc [_ Hc]]|[[_ Hc]|(snap & outer & Hf & Hcov)]].
        -- intros He. apply Hc in He. destruct He as [[]|(o & He & _)].
           injection He as E1 _. subst d'. assert (x0 = x) by congruence. subst x0.
           contradiction.
        -- intros He. apply Hc in He. destruct He as [[]|(o & He & Hn)].
           injection He as E1 E2. subst d' o. assert (x0 = x) by congruence. subst x0.
           exfalso. eapply (Hn eq_refl). exact Hk.
        -- destruct Hf as (Hp & Hc & He). rewrite He. simpl. intros [Hev|[]].
           injection Hev as E1 Ho. subst d'. assert (x0 = x) by congruence. subst x0.
           apply out_of_result in Ho. destruct Ho as (h1 & h2).
           destruct (Hp h1 h2) as (Hd & _).
           set (s' := run_d (unsched (pre s) (HT (TD d))) d) in *.
           assert (Hreg : t_ended s' = filter (not_in snap) (t_ended s)).
           { change (vE (pcore s') = filter (not_in snap) (vE (pview s))).
             rewrite Hc, Hk. unfold after_g2_v.
             destruct outer as [| |e|];
               [reflexivity|reflexivity|exfalso; eapply h1; reflexivity|exfalso; congruence]. }
           exists snap. split; [exact Hreg|]. split.
           ++ destruct Hcov as [[Hpc ->]|Hcov]; [left; auto|right].
              intros t Ht. eapply Hcov; eauto.
           ++ exact Hd.
      * rewrite run_d_none by exact Hx0. intros [].
    + rewrite ev_run_g. intros [].
  - assert (HI2 : I1 (pre s)) by (eapply I1_pv; [|exact HI1]; reflexivity).
    destruct (ctl (pre s)) as [|[t0|m|d']]; try (intros []).
    + intros He. apply (ev_continue_p (pre s) t0 _ HI2 eq_refl) in He. destruct He.
    + intros He. apply op_continue_m in He. destruct He as [[]|(m' & k' & He)]. discriminate.
  - rewrite ev_do_op. intros [].
Qed.

(** a task inside its end callback is filed as ended and has no outcome yet *)
Lemma endcb_facts s u y :
  WF s -> Extra_P s -> get_p s u = Some y -> endcb_pc (p_pc y) = true ->
  In u (t_ended s) /\ p_final y = None.
Proof.
  intros W EP Hy He. pose proof (PI_of_WF s W EP) as [_ Htok].
  destruct (Htok u y Hy) as ((_ & _ & r3 & _) & (m1 & _) & _). cbn [vE pview] in r3.
  split; [apply r3; exact He|]. apply m1. intros E. rewrite E in He. discriminate.
Qed.

Lemma flush_keeps_endcb s l d x re u y :
  WF s -> Extra_P s -> d_pc x <> DWaitClosed -> get_d s d = Some x -> d_kind x = DFlush re ->
  In (EvDriverDone d OResult) (evs (step s l)) ->
  get_p s u = Some y -> endcb_pc (p_pc y) = true -> In u (t_ended (step s l)).
Proof.
  intros W EP Hnw Hx Hk Hev Hy He.
  destruct (flush_done2 s l d x re W EP Hnw Hx Hk Hev) as (snap & -> & _ & Hd).
  destruct (endcb_facts s u y W EP Hy He) as [Hin Hf].
  apply filter_In. split; [exact Hin|]. unfold not_in.
  destruct (mem u snap) eqn:Em; [|reflexivity]. apply mem_In in Em.
  destruct (Hd u Em) as (y' & Hy' & Hf'). congruence.
Qed.

(** ** a driver that starts waiting for its second gather *)
Definition NW (d : nat) (s' : state) : Prop :=
  forall x', get_d s' d = Some x' -> d_pc x' = DWaitG2 -> incl (t_ended s') (d_snap x').

Lemma NW_finish_d s d x e : d < length (dtasks s) -> NW d (finish_d s d x e).
Proof.
  intros Hlt x' Hx' Hpc. rewrite get_d_finish_d in Hx' by exact Hlt. injection Hx' as <-.
  discriminate Hpc.
Qed.

Lemma NW_after_g2 s d x outer : d < length (dtasks s) -> NW d (after_g2 s d x outer).
Proof.
  intros Hlt. unfold after_g2.
  destruct outer; try (now apply NW_finish_d); destruct (d_kind x); try (now apply NW_finish_d);
    apply NW_finish_d; cbn [dtasks set_n_forgotten set_t_cancelled set_t_ended set_t_running set_closed];
    try exact Hlt;
    (erewrite len_KD; [exact Hlt|apply XC_wake_closed; reflexivity]).
Qed.

Lemma NW_start_g2 s d x cs re :
  d < length (dtasks s) -> incl (t_ended s) cs -> NW d (start_g2 s d x cs re).
Proof.
  intros Hlt Hi. unfold start_g2. destruct (make_gather _ _ _) as [g outer].
  destruct outer; try (now apply NW_after_g2).
  intros x' Hx' _.
  change (get_d (put_d s d (set_d_fw (set_d_pc (set_d_snap (set_d_g2 x (Some g)) cs) DWaitG2)
                                     (Some FPending))) d = Some x') in Hx'.
  rewrite get_d_put_d_eq in Hx' by exact Hlt. injection Hx' as <-. exact Hi.
Qed.

Lemma NW_after_g1 s d x outer : d < length (dtasks s) -> NW d (after_g1 s d x outer).
Proof.
  intros Hlt. unfold after_g1. destruct (d_kind x).
  - assert (Hgo : NW d (start_g2 (set_meta_cancelled s []) d x
                          (dict_merge (t_ended (set_meta_cancelled s []))
                                      (t_cancelled (set_meta_cancelled s []))) re)).
    { apply NW_start_g2; [exact Hlt|]. intros t Ht. apply In_dict_merge. left. exact Ht. }
    destruct outer as [| |e|]; auto. destruct e; auto using NW_finish_d.
  - destruct (if re then None else _); [now apply NW_finish_d|].
    apply NW_start_g2; [exact Hlt|]. intros t Ht. apply in_or_app. left. exact Ht.
  - now apply NW_finish_d.
Qed.

Lemma NW_start_g1 s d x cs re : d < length (dtasks s) -> NW d (start_g1 s d x cs re).
Proof.
  intros Hlt. unfold start_g1. destruct (make_gather _ _ _) as [g outer].
  destruct outer; try (now apply NW_after_g1).
  intros x' Hx' Hpc.
  change (get_d (put_d s d (set_d_fw (set_d_pc (set_d_g1 x (Some g)) DWaitG1) (Some FPending))) d
          = Some x') in Hx'.
  rewrite get_d_put_d_eq in Hx' by exact Hlt. injection Hx' as <-. discriminate Hpc.
Qed.

Lemma NW_run_d s d : NW d (run_d s d).
Proof.
  unfold run_d. destruct (get_d s d) as [x0|] eqn:Ex.
  2:{ intros x' Hx'. congruence. }
  pose proof (get_d_lt _ _ _ Ex) as Hlt.
  destruct (d_pc x0) eqn:Epc.
  - destruct (d_kind (set_d_fw x0 None)) eqn:Ek.
    + destruct (pop_ended s (gmeta s)) as [gm ended]. now apply NW_start_g1.
    + now apply NW_start_g1.
    + destruct (closed s); [now apply NW_finish_d|].
      intros x' Hx' Hpc.
      change (get_d (put_d (set_closed_waiters s (closed_waiters s ++ [d])) d
                (set_d_fw (set_d_pc (set_d_fw x0 None) DWaitClosed) (Some FPending))) d = Some x') in Hx'.
      rewrite get_d_put_d_eq in Hx' by exact Hlt. injection Hx' as <-. discriminate Hpc.
  - now apply NW_after_g1.
  - now apply NW_after_g2.
  - now apply NW_finish_d.
  - intros x' Hx' Hpc. congruence.
Qed.

Lemma label_eq_own l d : l = LRun (HT (TD d)) \/ l <> LRun (HT (TD d)).
Proof.
  destruct l as [[[t|m|d1]|d1 c]| |o]; try (right; discriminate).
  destruct (Nat.eq_dec d1 d) as [->|Hne]; [left; reflexivity|right; congruence].
Qed.

(** after any step, a driver waiting for its second gather either was already waiting (same
    snapshot) or has just taken a snapshot that covers every ended task *)
Theorem g2_step s l d x' :
  get_d (step s l) d = Some x' -> d_pc x' = DWaitG2 ->
  (exists x, get_d s d = Some x /\ d_pc x = DWaitG2 /\ d_snap x = d_snap x') \/
  incl (t_ended (step s l)) (d_snap x').
Proof.
  intros Hx' Hpc.
  destruct (label_eq_own l d) as [->|Hne].
  2:{ left. eapply dsnap_step; eauto. }
  revert Hx'. unfold step. fold (pre s).
  destruct (negb (enabled (pre s) (LRun (HT (TD d))))).
  - intros Hx'. left. exists x'. auto.
  - cbn [run_handle]. intros Hx'. right. eapply NW_run_d; eauto.
Qed.
