(** C06 (cancel is exact and all-or-nothing; a requested cancellation is delivered exactly once)
    and C14 (SimpleTaskPool.stop is LIFO and exact): the one-operation / one-step parts.

    Two statements of PSpecStep.v are not provable as given, because [do_op] is applied to [s]
    directly while [step] first resets the result register: [c06_ok]'s [res s' = RNone] and
    [c14_result] / [c14_neg] / [c14_all] need the result register of [s] to be clear
    ([cancel_p] never writes [res], and [OpStop] tests [res] for an error after [do_cancel]).
    They are proved here under [res s = RNone] (which is what [step] establishes before calling
    [do_op]); [C06_op'] is the unconditional variant with [res s' = res s]. *)
From TP Require Import PSpecStep PInv_R_base PStep_A_inv.

(** ** Classification and the all-or-nothing check *)
Lemma lookup_err_class s t : lookup_err s t = class_error (classify s t).
Proof.
  unfold lookup_err, classify.
  destruct (mem t (t_running s)); [reflexivity|].
  destruct (mem t (t_cancelled s)); [reflexivity|].
  destruct (mem t (t_ended s)); reflexivity.
Qed.

Lemma classify_running s u : classify s u = ClRunning <-> In u (t_running s).
Proof.
  unfold classify. rewrite <- mem_In.
  destruct (mem u (t_running s)); [tauto|].
  destruct (mem u (t_cancelled s)); [split; discriminate|].
  destruct (mem u (t_ended s)); split; discriminate.
Qed.

Lemma first_lookup_err_first s pre t post e :
  (forall u, In u pre -> classify s u = ClRunning) ->
  class_error (classify s t) = Some e ->
  first_lookup_err s (pre ++ t :: post) = Some e.
Proof.
  induction pre as [|a pre IH]; simpl; intros Hpre He.
  - rewrite lookup_err_class, He. reflexivity.
  - rewrite lookup_err_class, (Hpre a) by auto. simpl. apply IH; auto.
Qed.

Lemma first_lookup_err_none s ids :
  (forall u, In u ids -> classify s u = ClRunning) -> first_lookup_err s ids = None.
Proof.
  induction ids as [|a ids IH]; simpl; intros H; auto.
  rewrite lookup_err_class, (H a) by auto. simpl. apply IH; auto.
Qed.

Lemma pool_same_refl s : pool_same s s.
Proof. unfold pool_same. repeat split; reflexivity. Qed.

Lemma pool_same_set_res s r : pool_same s (set_res s r).
Proof. unfold pool_same. repeat split; reflexivity. Qed.

(** ** One [cancel_p] on the record level *)
Definition cp (x : ptask) : ptask :=
  match p_unst x with
  | UNone =>
      match p_final x with
      | Some _ => x
      | None => if fut_pending (p_fw x) then set_p_fw x (Some FCancelled) else set_p_mc x true
      end
  | _ => set_p_unst x UDeferred
  end.

Lemma get_p_put_gen s t x x' u :
  get_p s t = Some x -> get_p (put_p s t x') u = if Nat.eqb t u then Some x' else get_p s u.
Proof.
  intros Hx. unfold get_p, put_p; cbn. rewrite nth_error_upd.
  destruct (Nat.eqb t u); auto.
  assert (Hlt : t < length (ptasks s)) by (apply nth_error_Some; unfold get_p in Hx; congruence).
  apply Nat.ltb_lt in Hlt. rewrite Hlt. reflexivity.
Qed.

Lemma get_p_cancel_p s t u :
  get_p (cancel_p s t) u = if Nat.eqb t u then option_map cp (get_p s t) else get_p s u.
Proof.
  unfold cancel_p. destruct (get_p s t) as [x|] eqn:Hx.
  - unfold cp. simpl option_map.
    destruct (p_unst x); try (apply get_p_put_gen with (x := x); exact Hx).
    destruct (p_final x).
    + destruct (Nat.eqb_spec t u) as [<-|]; auto.
    + set (s1 := if is_current s (TP t) && final_segment x then set_taint_self s true else s).
      assert (Hx1 : get_p s1 t = Some x)
        by (unfold s1; destruct (is_current s (TP t) && final_segment x); exact Hx).
      assert (Hu : get_p s1 u = get_p s u)
        by (unfold s1; destruct (is_current s (TP t) && final_segment x); reflexivity).
      clearbody s1. rewrite <- Hu.
      destruct (fut_pending (p_fw x)).
      * rewrite get_p_sched. apply get_p_put_gen with (x := x); exact Hx1.
      * apply get_p_put_gen with (x := x); exact Hx1.
  - simpl. destruct (Nat.eqb_spec t u) as [<-|]; auto.
Qed.

Lemma iter_shift {A} (f : A -> A) n x : Nat.iter n f (f x) = f (Nat.iter n f x).
Proof. induction n; simpl; congruence. Qed.

Lemma get_p_fold_cancel ids : forall s u,
  get_p (fold_left cancel_p ids s) u =
  option_map (Nat.iter (count (Nat.eqb u) ids) cp) (get_p s u).
Proof.
  induction ids as [|a ids IH]; simpl; intros s u.
  - destruct (get_p s u); reflexivity.
  - rewrite IH, get_p_cancel_p. rewrite (Nat.eqb_sym u a).
    destruct (Nat.eqb_spec a u) as [->|Hne]; simpl.
    + destruct (get_p s u); simpl; auto. rewrite iter_shift. reflexivity.
    + reflexivity.
Qed.

Lemma cp_req x : p_final x = None -> cancel_requested x (cp x).
Proof.
  intros Hf. unfold cp, cancel_requested. rewrite Hf.
  destruct (p_unst x); auto. destruct (fut_pending (p_fw x)); auto.
Qed.

Lemma cp_final x : p_final x = None -> p_final (cp x) = None.
Proof.
  intros Hf. unfold cp. rewrite Hf.
  destruct (p_unst x); auto. destruct (fut_pending (p_fw x)); auto.
Qed.

Lemma cp3 x : cp (cp (cp x)) = cp (cp x).
Proof.
  destruct x as [rq el gr w ecb ccb im pc fw mc exc fin final unst ns ncc nec nr].
  unfold cp; cbn.
  destruct unst; cbn; try reflexivity.
  destruct final; cbn; try reflexivity.
  destruct fw as [[| | |]|]; cbn; reflexivity.
Qed.

Lemma iter_cp n x :
  Nat.iter (S n) cp x = cp x \/ Nat.iter (S n) cp x = cp (cp x).
Proof.
  induction n as [|n IH]; [left; reflexivity|].
  change (Nat.iter (S (S n)) cp x) with (cp (Nat.iter (S n) cp x)).
  destruct IH as [->| ->]; [right; reflexivity|right; apply cp3].
Qed.

Lemma count_In_pos t ids : In t ids -> exists k, count (Nat.eqb t) ids = S k.
Proof.
  induction ids as [|a ids IH]; simpl; [tauto|]. intros [->|Hin].
  - rewrite Nat.eqb_refl. eauto.
  - destruct (IH Hin) as [k ->]. destruct (Nat.eqb t a); simpl; eauto.
Qed.

Lemma count_notIn t ids : ~ In t ids -> count (Nat.eqb t) ids = 0.
Proof.
  induction ids as [|a ids IH]; simpl; auto. intros H.
  destruct (Nat.eqb_spec t a) as [->|]; [tauto|]. apply IH. tauto.
Qed.

(** ** What [cancel_p] leaves alone *)
Definition cframe (s s' : state) : Prop :=
  t_running s' = t_running s /\ t_cancelled s' = t_cancelled s /\ t_ended s' = t_ended s /\
  mtasks s' = mtasks s /\ dtasks s' = dtasks s /\ groups s' = groups s /\
  sem_value s' = sem_value s /\ sem_waiters s' = sem_waiters s /\ res s' = res s.

Lemma cframe_refl s : cframe s s.
Proof. unfold cframe. repeat split; reflexivity. Qed.

Lemma cframe_trans s1 s2 s3 : cframe s1 s2 -> cframe s2 s3 -> cframe s1 s3.
Proof.
  unfold cframe. intros (a1&a2&a3&a4&a5&a6&a7&a8&a9) (b1&b2&b3&b4&b5&b6&b7&b8&b9).
  repeat split; congruence.
Qed.

Lemma cframe_cancel_p s t : cframe s (cancel_p s t).
Proof.
  unfold cancel_p. destruct (get_p s t) as [x|]; [|apply cframe_refl].
  destruct (p_unst x); try (unfold cframe; repeat split; reflexivity).
  destruct (p_final x); [apply cframe_refl|].
  destruct (is_current s (TP t) && final_segment x);
    (destruct (fut_pending (p_fw x));
     [unfold sched; match goal with |- context [is_ready ?a ?b] => destruct (is_ready a b) end|];
     unfold cframe; repeat split; reflexivity).
Qed.

Lemma cframe_fold ids : forall s, cframe s (fold_left cancel_p ids s).
Proof.
  induction ids as [|a ids IH]; simpl; intros s; [apply cframe_refl|].
  eapply cframe_trans; [apply cframe_cancel_p|apply IH].
Qed.

(** ** C06 — the operation *)
Record C06_op' (s : state) (ids : list nat) : Prop := {
  c06_error' : forall pre t post e,
      ids = pre ++ t :: post -> (forall u, In u pre -> classify s u = ClRunning) ->
      class_error (classify s t) = Some e ->
      res (do_op s (OpCancel ids)) = RErr e /\ pool_same s (do_op s (OpCancel ids));
  c06_ok' : (forall u, In u ids -> classify s u = ClRunning) ->
      let s' := do_op s (OpCancel ids) in
      res s' = res s /\
      (forall t, ~ In t ids -> get_p s' t = get_p s t) /\
      (forall t x, In t ids -> get_p s t = Some x -> p_final x = None ->
                   exists x', get_p s' t = Some x' /\
                              (cancel_requested x x' \/
                               exists x0, cancel_requested x x0 /\
                                          (x' = x0 \/ cancel_requested x0 x'))) /\
      t_running s' = t_running s /\ t_cancelled s' = t_cancelled s /\ t_ended s' = t_ended s /\
      mtasks s' = mtasks s /\ dtasks s' = dtasks s /\ groups s' = groups s /\
      sem_value s' = sem_value s /\ sem_waiters s' = sem_waiters s
}.

Theorem C06_op_holds' : forall s ids, C06_op' s ids.
Proof.
  intros s ids. constructor.
  - intros pre t post e -> Hpre He. unfold do_op, do_cancel.
    rewrite (first_lookup_err_first s pre t post e Hpre He).
    split; [reflexivity|apply pool_same_set_res].
  - intros Hall. unfold do_op, do_cancel. rewrite (first_lookup_err_none s ids Hall).
    cbv zeta. destruct (cframe_fold ids s) as (a1&a2&a3&a4&a5&a6&a7&a8&a9).
    split; [exact a9|]. split; [|split].
    + intros t Hnin. rewrite get_p_fold_cancel, (count_notIn t ids Hnin). simpl.
      destruct (get_p s t); reflexivity.
    + intros t x Hin Hx Hfin. rewrite get_p_fold_cancel, Hx.
      destruct (count_In_pos t ids Hin) as [k ->].
      exists (Nat.iter (S k) cp x). split; [reflexivity|].
      destruct (iter_cp k x) as [Hi|Hi]; rewrite Hi.
      * left. apply cp_req; auto.
      * right. exists (cp x). split; [apply cp_req; auto|].
        right. apply cp_req. apply cp_final; auto.
    + repeat split; assumption.
Qed.

Theorem C06_op_holds : forall s ids, res s = RNone -> C06_op s ids.
Proof.
  intros s ids Hres. destruct (C06_op_holds' s ids) as [He Hok]. constructor.
  - exact He.
  - intros Hall. specialize (Hok Hall). cbv zeta in *.
    destruct Hok as (H1 & H2). split; [congruence|exact H2].
Qed.

(** ** C06 — delivery *)
Definition count_ev_cancelled (t : nat) (l : list event) : nat :=
  count (fun e => match e with EvCancelled u => Nat.eqb u t | _ => false end) l.

Lemma cancel_pending_ready s t x :
  WF s -> Extra_A s -> get_p s t = Some x -> cancel_pending x -> In (HT (TP t)) (ready s).
Proof.
  intros W XA Hx [Hpc Hc].
  apply (I5_p s (wf5 s W) t x Hx). right. rewrite Hpc. split; [reflexivity|].
  destruct Hc as [Hc|Hc]; [congruence|]. apply (XA t x Hx Hc).
Qed.

Theorem C06_delivered : forall s t x,
  WF s -> Extra_A s -> get_p s t = Some x -> cancel_pending x ->
  In (HT (TP t)) (ready s) /\
  (ctl s = CIdle ->
   let s' := step s (LRun (HT (TP t))) in
   In (EvCancelled t) (evs s') /\ count_ev_cancelled t (evs s') = 1 /\
   exists x', get_p s' t = Some x' /\ p_pc x' = PUCancelled /\ p_mc x' = false /\
              p_fw x' = None).
Proof.
  intros s t x W XA Hx Hcp.
  pose proof (cancel_pending_ready s t x W XA Hx Hcp) as Hin.
  split; [exact Hin|]. intros Hctl. cbv zeta.
  destruct Hcp as [Hpc Hc].
  set (s0 := set_res (set_evs s []) RNone).
  assert (Hen : enabled s0 (LRun (HT (TP t))) = true).
  { unfold enabled. change (ctl s0) with (ctl s). rewrite Hctl.
    apply is_ready_In. exact Hin. }
  assert (Hstep : step s (LRun (HT (TP t))) = run_p (unsched s0 (HT (TP t))) t).
  { unfold step. fold s0. rewrite Hen. reflexivity. }
  rewrite Hstep. clear Hstep.
  set (s1 := unsched s0 (HT (TP t))).
  assert (Hx1 : get_p s1 t = Some x) by exact Hx.
  assert (Hev : evs s1 = []) by reflexivity.
  clearbody s1.
  assert (Hinp : task_input (p_mc x) (p_fw x) <> InOk).
  { unfold task_input. destruct (p_mc x); [discriminate|].
    destruct Hc as [->|Hc]; discriminate. }
  assert (Hrun : run_p s1 t =
     set_ctl (emit (put_p s1 t (set_p_pc (set_p_mc (set_p_fw x None) false) PUCancelled))
                   (EvCancelled t)) (CUser (TP t))).
  { unfold run_p. rewrite Hx1, Hpc.
    destruct (task_input (p_mc x) (p_fw x)); [congruence|reflexivity|reflexivity]. }
  rewrite Hrun. clear Hrun.
  set (X := set_p_pc (set_p_mc (set_p_fw x None) false) PUCancelled).
  assert (Hevs : evs (set_ctl (emit (put_p s1 t X) (EvCancelled t)) (CUser (TP t)))
                 = [EvCancelled t]).
  { unfold emit, put_p. cbn [evs set_ctl set_evs set_ptasks]. rewrite Hev. reflexivity. }
  rewrite Hevs. split; [left; reflexivity|]. split.
  - unfold count_ev_cancelled. simpl. rewrite Nat.eqb_refl. reflexivity.
  - exists X. split; [|repeat split; reflexivity].
    change (get_p (put_p s1 t X) t = Some X).
    rewrite (get_p_put_gen s1 t x X t Hx1), Nat.eqb_refl. reflexivity.
Qed.

(** ** C14 *)
Lemma In_firstn {A} (x : A) n l : In x (firstn n l) -> In x l.
Proof.
  revert l; induction n as [|n IH]; intros [|a l]; simpl; try tauto.
  intros [->|H]; auto.
Qed.

Lemma do_cancel_running s ids :
  (forall u, In u ids -> In u (t_running s)) -> do_cancel s ids = fold_left cancel_p ids s.
Proof.
  intros H. unfold do_cancel. rewrite first_lookup_err_none; auto.
  intros u Hu. apply classify_running. auto.
Qed.

Lemma firstn_rev_running s n u : In u (firstn_rev n (t_running s)) -> In u (t_running s).
Proof. unfold firstn_rev. intros H. apply In_firstn in H. apply in_rev. exact H. Qed.

Lemma stop_res s ids :
  (forall e, res s <> RErr e) -> (forall u, In u ids -> In u (t_running s)) ->
  res (match res (do_cancel s ids) with
       | RErr _ => do_cancel s ids
       | _ => set_res (do_cancel s ids) (RIds ids)
       end) = RIds ids.
Proof.
  intros Hres Hin. rewrite (do_cancel_running s ids Hin).
  destruct (cframe_fold ids s) as (_&_&_&_&_&_&_&_&a9).
  destruct (res (fold_left cancel_p ids s)) eqn:Hr; try reflexivity.
  exfalso. apply (Hres e). congruence.
Qed.

Theorem C14_op_holds' : forall s n, (forall e, res s <> RErr e) -> C14_op s n.
Proof.
  intros s n Hres. constructor.
  - unfold do_op. cbv zeta. apply (stop_res s (firstn_rev n (t_running s)) Hres).
    intros u. apply firstn_rev_running.
  - rewrite firstn_length, rev_length. reflexivity.
  - intros s1 ->. unfold do_op. cbv zeta. fold (firstn_rev n (t_running s)).
    destruct (res (do_cancel s (firstn_rev n (t_running s))));
      first [apply pool_same_refl|apply pool_same_set_res].
  - unfold do_op, do_cancel. simpl.
    destruct (res s) eqn:Hr; try (split; [reflexivity|apply pool_same_set_res]).
    exfalso. apply (Hres e). reflexivity.
  - unfold do_op. cbv zeta.
    rewrite (stop_res s (firstn_rev (length (t_running s)) (t_running s)) Hres).
    + unfold firstn_rev. rewrite <- (rev_length (t_running s)). rewrite firstn_all. reflexivity.
    + intros u. apply firstn_rev_running.
Qed.

Theorem C14_op_holds : forall s n, res s = RNone -> C14_op s n.
Proof. intros s n Hr. apply C14_op_holds'. intros e. rewrite Hr. discriminate. Qed.

(** ** newest first *)
Lemma SS_snoc_gen {A} (R : A -> A -> Prop) n l :
  StronglySorted R l -> (forall u, In u l -> R u n) -> StronglySorted R (l ++ [n]).
Proof.
  induction 1 as [|h t Hs IH Hf]; simpl; intros Hlt.
  - constructor; constructor.
  - constructor.
    + apply IH. intros u Hu. apply Hlt. auto.
    + rewrite Forall_forall in *. intros y Hy. apply in_app_iff in Hy.
      destruct Hy as [Hy|[<-|[]]]; auto.
Qed.

Lemma SS_rev l : StronglySorted lt l -> StronglySorted (fun a b => b < a) (rev l).
Proof.
  induction 1 as [|h t Hs IH Hf]; simpl; [constructor|].
  apply SS_snoc_gen; auto. intros u Hu. apply in_rev in Hu.
  rewrite Forall_forall in Hf. apply Hf. exact Hu.
Qed.

Lemma SS_firstn {A} (R : A -> A -> Prop) n : forall l,
  StronglySorted R l -> StronglySorted R (firstn n l).
Proof.
  induction n as [|n IH]; intros l H; simpl; [constructor|].
  destruct H as [|h t Hs Hf]; [constructor|]. constructor; auto.
  rewrite Forall_forall in *. intros y Hy. apply Hf. eapply In_firstn; eauto.
Qed.

Lemma SS_app_rel {A} (R : A -> A -> Prop) l1 l2 x y :
  StronglySorted R (l1 ++ l2) -> In x l1 -> In y l2 -> R x y.
Proof.
  induction l1 as [|a l1 IH]; simpl; intros H Hx Hy; [tauto|].
  inversion H as [|? ? Hs Hf]; subst.
  destruct Hx as [->|Hx].
  - rewrite Forall_forall in Hf. apply Hf. apply in_or_app; auto.
  - apply IH; auto.
Qed.

Theorem C14_newest_first : forall s n, running_sorted s ->
  StronglySorted (fun a b => b < a) (firstn n (rev (t_running s))) /\
  (forall t u, In t (firstn n (rev (t_running s))) -> In u (t_running s) ->
               ~ In u (firstn n (rev (t_running s))) -> u < t).
Proof.
  intros s n H. unfold running_sorted in H. apply SS_rev in H.
  split; [apply SS_firstn; exact H|].
  intros t u Ht Hu Hnu.
  rewrite <- (firstn_skipn n (rev (t_running s))) in H.
  apply (SS_app_rel _ _ _ t u H Ht).
  apply in_rev in Hu. rewrite <- (firstn_skipn n (rev (t_running s))) in Hu.
  apply in_app_iff in Hu. destruct Hu; tauto.
Qed.
