(** Monitor soundness for C07 (late starts) — what any computation inside one step does to the
    pool task records, as far as "not yet started, no cancellation deferred" ([p_unst = UPlain])
    is concerned:  [UP7 s0 s]: every task record of [s0] is still there in [s], made for the same
    request, and it is [UPlain] in [s] only if it was [UPlain] in [s0] (records are only appended;
    [p_unst] only ever changes to [UNone] / [UDeferred]). *)
From TP Require Import PInv PInv_R_base PInv_R_tr PInv_Q_frame PInv_Q_wsim PInv_Q_drv PStep_B_inv PStep_B_c07.

Definition prel (x x' : ptask) : Prop :=
  p_req x' = p_req x /\ (p_unst x' = UPlain -> p_unst x = UPlain).

Lemma prel_refl x : prel x x.
Proof. split; auto. Qed.

Lemma prel_trans x y z : prel x y -> prel y z -> prel x z.
Proof. intros [A1 A2] [B1 B2]. split; [congruence|auto]. Qed.

Definition UP7l (l0 l : list ptask) : Prop :=
  forall t x, nth_error l0 t = Some x -> exists x', nth_error l t = Some x' /\ prel x x'.

Definition UP7 (s0 s : state) : Prop := UP7l (ptasks s0) (ptasks s).

(** the record [x] (about to be stored at [t]) descends from the record at [t] in [s0] *)
Definition parg (s0 : state) (t : nat) (x : ptask) : Prop :=
  forall xb, get_p s0 t = Some xb -> prel xb x.

Lemma UP7_refl s : UP7 s s.
Proof. intros t x H. exists x. split; auto. apply prel_refl. Qed.

Lemma UP7_eq s0 s s' : ptasks s' = ptasks s -> UP7 s0 s -> UP7 s0 s'.
Proof. unfold UP7. intros ->. auto. Qed.

Lemma UP7_trans s0 s1 s2 : UP7 s0 s1 -> UP7 s1 s2 -> UP7 s0 s2.
Proof.
  intros H1 H2 t x Hx. destruct (H1 t x Hx) as (x1 & Hx1 & R1).
  destruct (H2 t x1 Hx1) as (x2 & Hx2 & R2). exists x2. split; auto.
  eapply prel_trans; eauto.
Qed.

Lemma UP7_sched s0 s h : UP7 s0 s -> UP7 s0 (sched s h).
Proof. apply UP7_eq, ptasks_sched. Qed.

Lemma UP7_fold {A} (f : state -> A -> state) s0 :
  (forall s x, UP7 s0 s -> UP7 s0 (f s x)) -> forall l s, UP7 s0 s -> UP7 s0 (fold_left f l s).
Proof. intros Hf. induction l as [|x l IH]; simpl; intros s H; auto. Qed.

Lemma UP7_sched_cbs s0 s r : UP7 s0 s -> UP7 s0 (sched_cbs s r).
Proof. apply UP7_eq, ptasks_sched_cbs. Qed.

Lemma parg_cur s0 s t x : UP7 s0 s -> get_p s t = Some x -> parg s0 t x.
Proof.
  intros H Hx xb Hb. destruct (H t xb Hb) as (x' & Hx' & R). unfold get_p in Hx.
  replace x with x' by congruence. exact R.
Qed.

Lemma parg_set s0 t x x' :
  parg s0 t x -> p_req x' = p_req x -> (p_unst x' = UPlain -> p_unst x = UPlain) -> parg s0 t x'.
Proof.
  intros H A B xb Hb. destruct (H xb Hb) as [R1 R2]. split; [congruence|auto].
Qed.

Lemma UP7_put_p s0 s t x : UP7 s0 s -> parg s0 t x -> UP7 s0 (put_p s t x).
Proof.
  intros H Ha u xb Hb. destruct (H u xb Hb) as (x' & Hx' & R).
  change (nth_error (ptasks (put_p s t x)) u) with (get_p (put_p s t x) u).
  destruct (Nat.eq_dec t u) as [->|Ne].
  - rewrite get_p_put_p_eq by (apply nth_error_Some; congruence).
    exists x. split; auto.
  - rewrite get_p_put_p_neq by auto. exists x'. split; auto.
Qed.

Lemma UP7_put_cur s0 s t x x' :
  UP7 s0 s -> get_p s t = Some x -> prel x x' -> UP7 s0 (put_p s t x').
Proof.
  intros H Hx R. apply UP7_put_p; auto. intros xb Hb.
  eapply prel_trans; [apply (parg_cur s0 s t x H Hx xb Hb)|exact R].
Qed.

Ltac pset H :=
  first [ exact H
        | eapply parg_set; [exact H|reflexivity|cbn; auto; try discriminate] ].

(** ** semaphore *)
Lemma UP7_wake_next s0 s : UP7 s0 s -> UP7 s0 (wake_next s).
Proof. apply UP7_eq, wake_next_ptasks. Qed.

Lemma UP7_sem_release s0 s : UP7 s0 s -> UP7 s0 (sem_release s).
Proof. apply UP7_eq, sem_release_ptasks. Qed.

Lemma UP7_map_release s0 s m : UP7 s0 s -> UP7 s0 (map_release s m).
Proof. apply UP7_eq, map_release_ptasks. Qed.

(** ** pool tasks *)
Lemma UP7_finish_p s0 s t x : UP7 s0 s -> parg s0 t x -> UP7 s0 (finish_p s t x).
Proof.
  intros H Ha. unfold finish_p.
  match goal with |- UP7 s0 (set_ctl ?a _) => change (UP7 s0 a) end.
  apply UP7_sched_cbs, UP7_put_p; [exact H|pset Ha].
Qed.

Lemma UP7_suspend_p s0 s t x pc : UP7 s0 s -> parg s0 t x -> UP7 s0 (suspend_p s t x pc).
Proof.
  intros H Ha. unfold suspend_p. destruct (p_mc x).
  - match goal with |- UP7 s0 (set_ctl ?a _) => change (UP7 s0 a) end.
    apply UP7_sched, UP7_put_p; [exact H|pset Ha].
  - match goal with |- UP7 s0 (set_ctl ?a _) => change (UP7 s0 a) end.
    apply UP7_put_p; [exact H|pset Ha].
Qed.

Lemma UP7_moved s0 s1 t x :
  UP7 s0 s1 -> parg s0 t x ->
  UP7 s0 (let s2 := set_t_ended s1 (dict_add (t_ended s1) t) in
     let s3 := sem_release s2 in
     let x := set_p_nrel x (S (p_nrel x)) in
     let s4 := if p_ismap x then map_release s3 (p_req x) else s3 in
     match p_ecb x with
     | CbNone => finish_p s4 t x
     | _ =>
        set_ctl (emit (put_p s4 t (set_p_pc (set_p_necb x (S (p_necb x))) PUEndCb))
                      (EvCbBegin KEnd t (classify s4 t)))
                (CUser (TP t))
     end).
Proof.
  intros H Ha. cbv zeta.
  set (s3 := sem_release (set_t_ended s1 (dict_add (t_ended s1) t))).
  assert (H3 : UP7 s0 s3) by (apply UP7_sem_release; exact H).
  set (x1 := set_p_nrel x (S (p_nrel x))).
  assert (Ha1 : parg s0 t x1) by (unfold x1; pset Ha).
  set (s4 := if p_ismap x1 then map_release s3 (p_req x1) else s3).
  assert (H4 : UP7 s0 s4).
  { unfold s4. destruct (p_ismap x1); auto. apply UP7_map_release; auto. }
  clearbody s4. clear H3. clearbody s3. clearbody x1.
  destruct (p_ecb x1).
  - apply UP7_finish_p; auto.
  - match goal with |- UP7 s0 (set_ctl (emit ?a _) _) => change (UP7 s0 a) end.
    apply UP7_put_p; [exact H4|pset Ha1].
  - match goal with |- UP7 s0 (set_ctl (emit ?a _) _) => change (UP7 s0 a) end.
    apply UP7_put_p; [exact H4|pset Ha1].
Qed.

Lemma UP7_enter_end s0 s t x : UP7 s0 s -> parg s0 t x -> UP7 s0 (enter_end s t x).
Proof.
  intros H Ha. unfold enter_end.
  destruct (mem t (t_running s)); [|destruct (mem t (t_cancelled s))].
  - apply UP7_moved; auto.
  - apply UP7_moved; auto.
  - apply UP7_finish_p; [exact H|pset Ha].
Qed.

Lemma UP7_enter_cancel s0 s t x : UP7 s0 s -> parg s0 t x -> UP7 s0 (enter_cancel s t x).
Proof.
  intros H Ha. unfold enter_cancel.
  destruct (mem t (t_running s)).
  - destruct (p_ccb x).
    + apply UP7_enter_end; auto.
    + match goal with |- UP7 s0 (set_ctl (emit ?a _) _) => change (UP7 s0 a) end.
      apply UP7_put_p; [exact H|]. pset Ha.
    + match goal with |- UP7 s0 (set_ctl (emit ?a _) _) => change (UP7 s0 a) end.
      apply UP7_put_p; [exact H|]. pset Ha.
  - apply UP7_enter_end; [exact H|pset Ha].
Qed.

Lemma parg_cb_raise s0 t x r st u : parg s0 t x -> parg s0 t (cb_raise x r st u).
Proof. intros Ha. unfold cb_raise. destruct r; pset Ha. Qed.

Lemma UP7_continue_p s0 s t : UP7 s0 s -> UP7 s0 (continue_p s t).
Proof.
  intros H. unfold continue_p.
  destruct (get_p s t) as [x|] eqn:Hx; auto.
  pose proof (parg_cur s0 s t x H Hx) as Ha.
  destruct (p_pc x); auto.
  - destruct (w_first (p_w x)).
    + apply UP7_suspend_p; auto.
    + apply UP7_enter_end; auto.
    + apply UP7_enter_end; [exact H|]. pset Ha.
  - destruct (p_fin x); apply UP7_enter_end; try exact H; pset Ha.
  - destruct (w_cancel (p_w x)); [apply UP7_enter_cancel|apply UP7_enter_end]; try exact H; auto.
  - destruct (p_ccb x) as [|r|slow r].
    + apply UP7_enter_end; auto.
    + apply UP7_enter_end; [exact H|]. apply parg_cb_raise; auto.
    + destruct slow.
      * apply UP7_suspend_p; auto.
      * apply UP7_enter_end; [exact H|]. apply parg_cb_raise; auto.
  - destruct (p_ecb x) as [|r|slow r].
    + apply UP7_finish_p; auto.
    + apply UP7_finish_p; [exact H|]. apply parg_cb_raise; auto.
    + destruct slow.
      * apply UP7_suspend_p; auto.
      * apply UP7_finish_p; [exact H|]. apply parg_cb_raise; auto.
Qed.

Lemma UP7_run_p s0 s t : UP7 s0 s -> UP7 s0 (run_p s t).
Proof.
  intros H. unfold run_p.
  destruct (get_p s t) as [x0|] eqn:Hx; auto.
  pose proof (parg_cur s0 s t x0 H Hx) as Ha0.
  set (x := set_p_mc (set_p_fw x0 None) false).
  assert (Ha : parg s0 t x) by (unfold x; pset Ha0).
  clearbody x.
  destruct (p_pc x0); auto.
  - destruct (task_input (p_mc x0) (p_fw x0)).
    + destruct (p_unst x) eqn:Hu.
      * match goal with |- UP7 s0 (set_ctl (emit ?a _) _) => change (UP7 s0 a) end.
        apply UP7_put_p; [exact H|]. pset Ha.
      * match goal with |- UP7 s0 (set_ctl (emit ?a _) _) => change (UP7 s0 a) end.
        apply UP7_put_p; [exact H|]. pset Ha.
      * apply UP7_enter_cancel; [exact H|pset Ha].
    + apply UP7_finish_p; [exact H|pset Ha].
    + apply UP7_finish_p; [exact H|pset Ha].
  - destruct (task_input (p_mc x0) (p_fw x0)).
    + match goal with |- UP7 s0 (set_ctl ?a _) => change (UP7 s0 a) end.
      apply UP7_put_p; [exact H|]. pset Ha.
    + match goal with |- UP7 s0 (set_ctl (emit ?a _) _) => change (UP7 s0 a) end.
      apply UP7_put_p; [exact H|]. pset Ha.
    + match goal with |- UP7 s0 (set_ctl (emit ?a _) _) => change (UP7 s0 a) end.
      apply UP7_put_p; [exact H|]. pset Ha.
  - destruct (task_input (p_mc x0) (p_fw x0)); apply UP7_enter_end; try exact H;
      try (apply parg_cb_raise; auto); pset Ha.
  - destruct (task_input (p_mc x0) (p_fw x0)); apply UP7_finish_p; try exact H;
      try (apply parg_cb_raise; auto); pset Ha.
Qed.

(** ** spawners *)
Lemma UP7_put_m s0 s m x : UP7 s0 s -> UP7 s0 (put_m s m x).
Proof. exact (fun H => H). Qed.

Lemma UP7_finish_m s0 s m x e : UP7 s0 s -> UP7 s0 (finish_m s m x e).
Proof.
  intros H. unfold finish_m.
  match goal with |- UP7 s0 (set_ctl ?a _) => change (UP7 s0 a) end.
  apply UP7_sched_cbs, UP7_put_m. exact H.
Qed.

Lemma UP7_suspend_m s0 s m x pc : UP7 s0 s -> UP7 s0 (suspend_m s m x pc).
Proof.
  intros H. unfold suspend_m. destruct (m_mc x).
  - match goal with |- UP7 s0 (set_ctl ?a _) => change (UP7 s0 a) end.
    apply UP7_sched, UP7_put_m. exact H.
  - exact H.
Qed.

Lemma UP7_to_iter s0 s m : UP7 s0 s -> UP7 s0 (to_iter s m).
Proof. intros H. unfold to_iter. destruct (get_m s m); exact H. Qed.

Lemma UP7l_app l0 l a : UP7l l0 l -> UP7l l0 (l ++ a).
Proof.
  intros H t x Hx. destruct (H t x Hx) as (x' & Hx' & R). exists x'. split; auto.
  rewrite nth_error_app1; auto. apply nth_error_Some. congruence.
Qed.

Lemma UP7_register s0 s m x : UP7 s0 s -> UP7 s0 (register s m x).
Proof.
  intros H. unfold register. cbv zeta.
  match goal with |- UP7 s0 (put_m ?a _ _) => change (UP7 s0 a) end.
  apply UP7_sched. unfold UP7. cbn [ptasks set_t_running set_ptasks].
  apply UP7l_app. exact H.
Qed.

Lemma UP7_apply_loop s0 rem : forall s m, UP7 s0 s -> UP7 s0 (apply_loop rem s m).
Proof.
  induction rem as [|r IH]; intros s m H; simpl.
  - destruct (get_m s m); auto. apply UP7_finish_m; auto.
  - destruct (get_m s m) as [x|]; auto.
    destruct (nth (m_idx x) (m_bad x) false).
    + apply IH. exact H.
    + unfold try_start. destruct (closed s).
      * apply UP7_finish_m; auto.
      * destruct (sem_locked s).
        -- apply UP7_suspend_m. exact H.
        -- apply IH. apply UP7_register. exact H.
Qed.

Lemma UP7_spawn_next s0 s m : UP7 s0 s -> UP7 s0 (spawn_next s m).
Proof.
  intros H. unfold spawn_next. destruct (get_m s m) as [x|]; auto.
  destruct (m_kind x); [apply UP7_apply_loop|apply UP7_to_iter|apply UP7_apply_loop]; auto.
Qed.

Lemma UP7_start_then_next s0 s m x : UP7 s0 s -> UP7 s0 (start_then_next s m x).
Proof.
  intros H. unfold start_then_next, try_start.
  destruct (closed s).
  - apply UP7_finish_m; auto.
  - destruct (sem_locked s).
    + apply UP7_suspend_m. exact H.
    + apply UP7_spawn_next, UP7_register. exact H.
Qed.

Lemma UP7_continue_m s0 s m : UP7 s0 s -> UP7 s0 (continue_m s m).
Proof.
  intros H. unfold continue_m. destruct (get_m s m) as [x|]; auto.
  destruct (m_pc x); auto.
  destruct (nth_error (m_els x) (m_idx x)) as [e|].
  - destruct (e_bad e).
    + apply UP7_to_iter. exact H.
    + destruct (m_mapval x).
      * apply UP7_suspend_m; auto.
      * apply UP7_start_then_next; auto.
  - apply UP7_finish_m; auto.
Qed.

Lemma UP7_run_m s0 s m : UP7 s0 s -> UP7 s0 (run_m s m).
Proof.
  intros H. unfold run_m. destruct (get_m s m) as [x0|]; auto.
  destruct (m_pc x0); auto.
  - destruct (task_input (m_mc x0) (m_fw x0)).
    + apply UP7_spawn_next. exact H.
    + apply UP7_finish_m; auto.
    + apply UP7_finish_m; auto.
  - destruct (task_input (m_mc x0) (m_fw x0)).
    + apply UP7_start_then_next; auto.
    + apply UP7_finish_m; auto.
    + apply UP7_finish_m; auto.
  - set (x := set_m_mc (set_m_fw x0 None) false).
    set (s1 := put_m (set_sem_waiters s (remove1 m (sem_waiters s))) m x).
    assert (H1 : UP7 s0 s1) by exact H.
    clearbody s1.
    destruct (task_input (m_mc x0) (m_fw x0)).
    + apply UP7_spawn_next, UP7_register.
      destruct (ninf_pos (sem_value s1)); auto. apply UP7_wake_next; auto.
    + apply UP7_finish_m.
      destruct (match m_fw x0 with Some FCancelled => true | _ => false end); auto.
      apply UP7_sem_release; auto.
    + apply UP7_finish_m.
      destruct (match m_fw x0 with Some FCancelled => true | _ => false end); auto.
      apply UP7_sem_release; auto.
Qed.

(** ** drivers *)
Lemma UP7_run_d s0 s d : UP7 s0 s -> UP7 s0 (run_d s d).
Proof. apply UP7_eq, run_d_ptasks. Qed.

Lemma UP7_run_g s0 s d c : UP7 s0 s -> UP7 s0 (run_g s d c).
Proof. apply UP7_eq, run_g_ptasks. Qed.

(** ** operations *)
Lemma UP7_know s0 s g : UP7 s0 s -> UP7 s0 (know s g).
Proof. apply UP7_eq, know_ptasks. Qed.

Lemma UP7_cancel_m s0 s m : UP7 s0 s -> UP7 s0 (cancel_m s m).
Proof. apply UP7_eq, ptasks_cancel_m. Qed.

Lemma UP7_cancel_p s0 s t : UP7 s0 s -> UP7 s0 (cancel_p s t).
Proof.
  intros H. unfold cancel_p. destruct (get_p s t) as [x|] eqn:Hx; auto.
  destruct (p_unst x) eqn:Hu;
    try (eapply UP7_put_cur; eauto; split; [reflexivity|cbn; discriminate]).
  destruct (p_final x); auto.
  set (s1 := if is_current s (TP t) && final_segment x then set_taint_self s true else s).
  assert (H1 : UP7 s0 s1)
    by (unfold s1; destruct (is_current s (TP t) && final_segment x); exact H).
  assert (Hx1 : get_p s1 t = Some x)
    by (unfold s1; destruct (is_current s (TP t) && final_segment x); exact Hx).
  clearbody s1.
  destruct (fut_pending (p_fw x)); [apply UP7_sched|];
    (eapply UP7_put_cur; eauto; split; [reflexivity|cbn; auto]).
Qed.

Lemma UP7_cancel_running s0 s t : UP7 s0 s -> UP7 s0 (cancel_running s t).
Proof.
  intros H. unfold cancel_running. destruct (mem t (t_running s)); auto. apply UP7_cancel_p; auto.
Qed.

Lemma UP7_do_cancel s0 s ids : UP7 s0 s -> UP7 s0 (do_cancel s ids).
Proof.
  intros H. unfold do_cancel. destruct (first_lookup_err s ids); [exact H|].
  apply UP7_fold; auto. intros; apply UP7_cancel_p; auto.
Qed.

Lemma UP7_cancel_group_body s0 s g ids : UP7 s0 s -> UP7 s0 (cancel_group_body s g ids).
Proof.
  intros H. rewrite cancel_group_body_eq. apply UP7_fold.
  - intros s' t H'. apply UP7_cancel_running; auto.
  - change (UP7 s0 (cancel_group_metas s g)). eapply UP7_eq; [apply ptasks_cancel_group_metas|exact H].
Qed.

Lemma UP7_cancel_all_groups s0 gs : forall s, UP7 s0 s -> UP7 s0 (cancel_all_groups s gs).
Proof.
  induction gs as [|[g ids] gs IH]; simpl; intros s H; auto.
  apply IH. apply UP7_cancel_group_body; auto.
Qed.

Lemma UP7_set_res s0 s r : UP7 s0 s -> UP7 s0 (set_res s r).
Proof. exact (fun H => H). Qed.
Lemma UP7_set_groups s0 s r : UP7 s0 s -> UP7 s0 (set_groups s r).
Proof. exact (fun H => H). Qed.
Lemma UP7_set_start_calls s0 s r : UP7 s0 s -> UP7 s0 (set_start_calls s r).
Proof. exact (fun H => H). Qed.

Lemma UP7_new_meta s0 s x : UP7 s0 s -> UP7 s0 (new_meta s x).
Proof. intros H. unfold new_meta. apply UP7_sched. exact H. Qed.

Lemma UP7_do_op s0 s o : UP7 s0 s -> UP7 s0 (do_op s o).
Proof.
  intros H. destruct o; unfold do_op; cbv zeta.
  - set (s1 := match g with Some g0 => know s g0 | None => s end).
    assert (H1 : UP7 s0 s1) by (unfold s1; destruct g; [apply UP7_know|]; exact H).
    clearbody s1.
    destruct (check_start s1 noncoro); [exact H1|].
    match goal with |- UP7 s0 (if ?c then _ else _) => destruct c end; [exact H1|].
    apply UP7_set_res, UP7_new_meta, UP7_set_groups, UP7_know; exact H1.
  - set (s1 := match g with Some g0 => know s g0 | None => s end).
    assert (H1 : UP7 s0 s1) by (unfold s1; destruct g; [apply UP7_know|]; exact H).
    clearbody s1.
    destruct (check_start s1 noncoro); [exact H1|].
    destruct (nc =? 0); [exact H1|].
    match goal with |- UP7 s0 (if ?c then _ else _) => destruct c end; [exact H1|].
    apply UP7_set_res, UP7_new_meta, UP7_set_groups, UP7_know; exact H1.
  - destruct (check_start s false); [exact H|].
    apply UP7_set_res, UP7_new_meta, UP7_set_groups, UP7_set_start_calls, UP7_know; exact H.
  - apply UP7_do_cancel; auto.
  - pose proof (UP7_know s0 s g H) as H1.
    destruct (glookup g (groups (know s g))); [|exact H1].
    apply UP7_cancel_group_body. exact H1.
  - apply UP7_cancel_all_groups. exact H.
  - match goal with |- UP7 s0 (match res ?s' with _ => _ end) =>
      assert (H1 : UP7 s0 s') by (apply UP7_do_cancel; exact H); destruct (res s'); exact H1 end.
  - match goal with |- UP7 s0 (match res ?s' with _ => _ end) =>
      assert (H1 : UP7 s0 s') by (apply UP7_do_cancel; exact H); destruct (res s'); exact H1 end.
  - exact H.
  - destruct (0 <? n_gac s); exact H.
  - destruct v as [v|]; exact H.
  - match goal with |- UP7 s0 (set_res ?s' _) => change (UP7 s0 s') end.
    apply UP7_fold; auto. intros; apply UP7_know; auto.
  - apply UP7_sched. destruct k; exact H.
  - destruct (get_p s tid) as [x|] eqn:Hx; [|exact H]. apply UP7_sched.
    eapply UP7_put_cur; eauto. split; [reflexivity|cbn; auto].
  - destruct (get_p s tid) as [x|] eqn:Hx; [|exact H]. apply UP7_sched.
    eapply UP7_put_cur; eauto. split; [reflexivity|cbn; auto].
Qed.

Theorem UP7_step s l : UP7 s (step s l).
Proof.
  pose proof (UP7_refl s) as H0. revert H0. generalize s at 1 3 as s0. intros s0 H0.
  unfold step.
  set (s1 := set_res (set_evs s []) RNone).
  assert (H : UP7 s0 s1) by exact H0.
  clearbody s1. clear H0.
  destruct (negb (enabled s1 l)); [exact H|].
  destruct l as [h| |o].
  - assert (H2 : UP7 s0 (unsched s1 h)) by exact H.
    destruct h as [[t|m|d]|d c]; simpl run_handle.
    + apply UP7_run_p; auto.
    + apply UP7_run_m; auto.
    + apply UP7_run_d; auto.
    + apply UP7_run_g; auto.
  - destruct (ctl s1) as [|[t|m|d]]; auto.
    + apply UP7_continue_p; auto.
    + apply UP7_continue_m; auto.
  - apply UP7_do_op; auto.
Qed.

(** ** consequences *)
Lemma UP7_step_get s l t x :
  get_p s t = Some x -> exists x', get_p (step s l) t = Some x' /\ prel x x'.
Proof. intros H. exact (UP7_step s l t x H). Qed.

Lemma UP7_step_back s l t x' :
  get_p (step s l) t = Some x' -> t < length (ptasks s) ->
  exists x, get_p s t = Some x /\ prel x x'.
Proof.
  intros Hx' Hlt. destruct (lt_get_p s t Hlt) as [x Hx].
  destruct (UP7_step_get s l t x Hx) as (x2 & Hx2 & R). exists x. split; auto.
  replace x' with x2 by congruence. exact R.
Qed.
