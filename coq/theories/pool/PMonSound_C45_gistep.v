(** [GI] is preserved by every step of an untainted run. *)
From TP Require Import PInv_Q PRun PWF PStep_B_inv PMonSound_C45_sc PMonSound_C45_grp PMonSound_C45_grpm.
Set Implicit Arguments. Unset Strict Implicit.

Lemma F2_pimm_psim2 l l' : Forall2 pimm l l' -> Forall2 psim2 l l'.
Proof. apply Forall2_impl. intros x y (A & _ & C & _). split; auto. Qed.

Lemma F2_psim_psim2 l l' : Forall2 psim l l' -> Forall2 psim2 l l'.
Proof. apply Forall2_impl. intros x y [(A & _ & C & _) _]. split; auto. Qed.

Lemma F2_qsim_gsim l l' : Forall2 qsim l l' -> Forall2 gsim l l'.
Proof. apply Forall2_impl. intros x y ((_ & G & _) & _ & _ & _ & _ & D & _). split; auto. Qed.

Lemma GI_of_wsim_PQ K s s' :
  GI K s -> wsim s s' -> PQ s s' -> start_calls s' = start_calls s -> GI K s'.
Proof.
  intros G W P Es. eapply GI_quiet; [exact G| | | |].
  - apply F2_pimm_psim2. apply (ws_p W).
  - apply F2_qsim_gsim. apply (pq_m P).
  - apply (ws_g W).
  - lia.
Qed.

Lemma GI_same K s s' :
  GI K s -> ptasks s' = ptasks s -> mtasks s' = mtasks s -> groups s' = groups s ->
  start_calls s' = start_calls s -> GI K s'.
Proof.
  intros G A B C D. eapply GI_quiet; [exact G| | | |]; rewrite ?A, ?B; auto.
  - apply Forall2_refl. intros x; split; auto.
  - apply Forall2_refl. intros x; split; auto.
  - lia.
Qed.

Lemma not_cancelled_inok mc fw :
  task_input mc fw = InOk -> mc = false /\ fw <> Some FCancelled.
Proof.
  unfold task_input. destruct mc; [discriminate|]. intros H. split; auto.
  intros ->. discriminate.
Qed.

Definition dexact (g : gname) (y y' : mtask) : Prop :=
  m_group y' = m_group y /\ (m_dead y' = true <-> m_dead y = true \/ m_group y = g).

Lemma cgm_base s g :
  length (mtasks (cancel_group_metas s g)) = length (mtasks s) /\
  forall k y y', get_m s k = Some y -> get_m (cancel_group_metas s g) k = Some y' ->
                 m_group y' = m_group y /\ m_dead y' = m_dead y.
Proof.
  unfold cancel_group_metas. destruct (glookup g (gmeta s)) as [ms|].
  - destruct (fold_cancel_m_PT ms (set_gmeta s (gremove g (gmeta s)))) as [[L P] _].
    split; [exact L|]. intros k y y' Hy Hy'.
    destruct (P k y y' Hy Hy') as [[(_ & G & _) (_ & _ & _ & _ & D)] _]. auto.
  - split; auto. intros k y y' A B. assert (y' = y) by congruence. subst. auto.
Qed.

Lemma cgb_exact s g ids :
  length (mtasks (cancel_group_body s g ids)) = length (mtasks s) /\
  forall k y y', get_m s k = Some y -> get_m (cancel_group_body s g ids) k = Some y' ->
                 dexact g y y'.
Proof.
  unfold cancel_group_body.
  destruct (cgm_base s g) as [L1 B1].
  set (s1 := cancel_group_metas s g) in *.
  set (s2 := mark_dead s1 g).
  assert (Hpq : PQ s2 (fold_left (fun s t => if mem t (t_running s) then cancel_p s t else s) ids s2)).
  { apply PQ_fold; [|apply PQ_refl]. intros sa sb t Hab.
    destruct (mem t (t_running sb)); auto. apply PQ_cancel_p; auto. }
  set (s3 := fold_left _ ids s2) in *.
  pose proof (pq_m Hpq) as F.
  assert (L2 : length (mtasks s2) = length (mtasks s1)) by (unfold s2, mark_dead; cbn; apply map_length).
  split.
  - rewrite <- (F2_length F). congruence.
  - intros k y y3 Hy Hy3. unfold get_m in Hy3.
    destruct (Forall2_nth_r F Hy3) as [y2 [Hy2 ((_ & G3 & _) & _ & _ & _ & _ & D3 & _)]].
    destruct (mark_dead_get Hy2) as [y1 [Hy1 ->]].
    destruct (B1 _ _ _ Hy Hy1) as [G1 D1].
    unfold dexact. rewrite G3, D3.
    destruct (gname_eqb_spec g (m_group y1)) as [E|Ne]; cbn.
    + split; [congruence|]. split; auto. intros _. right. congruence.
    + split; [congruence|]. rewrite D1. split; auto. intros [H|H]; auto. congruence.
Qed.

Lemma GI_op_cancel_group K s g : IGr s -> GI K s -> GI K (do_op s (OpCancelGroup g)).
Proof.
  intros HGr G. cbn [do_op]. rewrite know_groups.
  assert (G1 : GI K (know s g)) by (eapply GI_same; [exact G|autorewrite with fr; auto ..]; apply sc_know).
  destruct (glookup g (groups s)) as [ids|].
  - set (s2 := set_groups (know s g) (gremove g (groups s))).
    pose proof (cancel_group_body_ssim s2 g ids) as Hs.
    destruct (cgb_exact s2 g ids) as [L E].
    eapply GI_remove with (s := s) (g := g); [exact G|exact HGr| | | | | ].
    + apply F2_psim_psim2. pose proof (ss_p Hs) as F. unfold s2 in F at 1. cbn in F.
      rewrite know_ptasks in F. exact F.
    + rewrite L. unfold s2. cbn. rewrite know_mtasks. reflexivity.
    + intros k y y' Hy Hy'. apply (E k y y'); auto.
      unfold get_m, s2. cbn. rewrite know_mtasks. exact Hy.
    + rewrite (ss_g Hs). reflexivity.
    + rewrite sc_cancel_group_body. unfold s2. cbn. apply sc_know.
  - eapply GI_same; [exact G1|reflexivity ..].
Qed.

Lemma GI_op_cancel_all K s : GI K s -> GI K (do_op s OpCancelAll).
Proof.
  intros G. cbn [do_op].
  pose proof (cancel_all_groups_ssim (rev (groups s)) (set_groups s [])) as Hs.
  eapply GI_clear with (s := s); [exact G| | | | | ].
  - apply F2_psim_psim2. exact (ss_p Hs).
  - symmetry. exact (F2_length (ss_m Hs)).
  - intros k y y' Hy Hy'.
    destruct (ssim_get_m Hs Hy') as [y0 [Hy0 [(_ & G2 & _) (_ & _ & _ & _ & _ & _ & D)]]].
    change (get_m s k = Some y0) in Hy0. assert (y0 = y) by congruence. subst y0.
    split; [exact G2|]. split; [exact D|].
    intros Hg. apply ghas_true in Hg. destruct Hg as [v Hl]. apply glookup_In in Hl.
    assert (Hin : In (m_group y) (map fst (rev (groups s)))).
    { rewrite map_rev. apply -> in_rev. apply (in_map fst) in Hl. exact Hl. }
    pose proof (@cancel_all_groups_dead (rev (groups s)) (set_groups s []) (m_group y) Hin) as Hd.
    apply (Hd k y' Hy'). exact G2.
  - rewrite (ss_g Hs). reflexivity.
  - rewrite sc_cancel_all_groups. reflexivity.
Qed.

Lemma GI_new_meta K s s0 x r :
  GI K s -> IR s -> ghas (m_group x) (groups s) = false -> m_dead x = false ->
  ptasks s0 = ptasks s -> mtasks s0 = mtasks s ->
  groups s0 = gensure (m_group x) (groups s) -> start_calls s <= start_calls s0 ->
  (K -> m_group x = GStart (start_calls s) /\ start_calls s < start_calls s0) ->
  GI K (set_res (new_meta s0 x) r).
Proof.
  intros G HIR Hf Hd A B C D E.
  destruct (new_meta_fields s0 x) as (F1 & F2 & F3 & _).
  eapply GI_new with (s := s) (x := x); eauto.
  - intros t xt Hxt. eapply req_in_range; eauto.
  - cbn [ptasks set_res]. congruence.
  - cbn [mtasks set_res]. congruence.
  - cbn [groups set_res]. congruence.
  - cbn [start_calls set_res]. rewrite sc_new_meta. exact D.
  - intros HK. destruct (E HK) as [E1 E2]. split; auto.
    cbn [start_calls set_res]. rewrite sc_new_meta. exact E2.
Qed.

Lemma know_opt_all s (og : option gname) :
  let s1 := match og with Some g => know s g | None => s end in
  ptasks s1 = ptasks s /\ mtasks s1 = mtasks s /\ groups s1 = groups s /\
  start_calls s1 = start_calls s.
Proof. destruct og; cbn; autorewrite with fr; auto. Qed.

Lemma GI_op_apply K s num bad noncoro w ecb ccb og :
  GI K s -> IR s -> ~ K -> GI K (do_op s (OpApply num bad noncoro w ecb ccb og)).
Proof.
  intros G HIR HK. cbn [do_op].
  destruct (know_opt_all s og) as (A & B & C & D). cbv zeta in A, B, C, D.
  set (s1 := match og with Some g => know s g | None => s end) in *. clearbody s1.
  assert (G1 : GI K s1) by (eapply GI_same; eauto).
  destruct (check_start s1 noncoro); [eapply GI_same; [exact G1|reflexivity ..]|].
  set (g := match og with Some g => g | None => gen_name s1 0 end). clearbody g.
  destruct (ghas g (groups s1)) eqn:Hg; [eapply GI_same; [exact G1|reflexivity ..]|].
  eapply GI_new_meta with (s := s); eauto; cbn; autorewrite with fr; cbn; try congruence;
    try lia; try tauto.
Qed.

Lemma GI_op_map K s stars els nc noncoro ecb ccb og :
  GI K s -> IR s -> ~ K -> GI K (do_op s (OpMap stars els nc noncoro ecb ccb og)).
Proof.
  intros G HIR HK. cbn [do_op].
  destruct (know_opt_all s og) as (A & B & C & D). cbv zeta in A, B, C, D.
  set (s1 := match og with Some g => know s g | None => s end) in *. clearbody s1.
  assert (G1 : GI K s1) by (eapply GI_same; eauto).
  set (g := match og with Some g => g | None => gen_name s1 (meth_of_stars stars) end). clearbody g.
  destruct (check_start s1 noncoro); [eapply GI_same; [exact G1|reflexivity ..]|].
  destruct (nc =? 0); [eapply GI_same; [exact G1|reflexivity ..]|].
  destruct (ghas g (groups s1)) eqn:Hg; [eapply GI_same; [exact G1|reflexivity ..]|].
  eapply GI_new_meta with (s := s); eauto; cbn; autorewrite with fr; cbn; try congruence;
    try lia; try tauto.
Qed.

Lemma GI_op_start K s num :
  GI K s -> IR s -> K -> GI K (do_op s (OpStart num)).
Proof.
  intros G HIR HK. cbn [do_op].
  destruct (check_start s false); [eapply GI_same; [exact G|reflexivity ..]|].
  assert (Hf : ghas (GStart (start_calls s)) (groups s) = false).
  { destruct (ghas (GStart (start_calls s)) (groups s)) eqn:E; auto.
    destruct (gi_ks G HK) as [K1 _]. destruct (K1 _ E) as [k [Ek Lk]]. inversion Ek. lia. }
  eapply GI_new_meta with (s := s); eauto; cbn; autorewrite with fr; cbn; auto.
Qed.

Lemma GI_do_op K s o :
  IR s -> IGr s -> GI K s -> (K <-> cf_kind (cfg s) = KSimple) -> op_enabled s o = true ->
  GI K (do_op s o).
Proof.
  intros HIR HGr G HK Hen.
  destruct (simple_op o) eqn:E.
  - pose proof (@do_op_simple s o E) as Hs.
    assert (Hd : (exists k, o = OpDriver k) \/ (forall k, o <> OpDriver k)).
    { destruct o; try (right; discriminate). left. eauto. }
    destruct Hd as [[k ->]|Hd].
    + eapply GI_same; [exact G|cbn [do_op]; autorewrite with fr; cbn; destruct k; reflexivity ..].
    + pose proof (@PQ_do_op_simple s o E Hd) as Hq.
      eapply GI_quiet; [exact G| | | |].
      * apply F2_psim_psim2. apply (ss_p Hs).
      * apply F2_qsim_gsim. apply (pq_m Hq).
      * apply (ss_g Hs).
      * rewrite sc_do_op; [lia|]. destruct o; auto; discriminate.
  - destruct o; try discriminate.
    + apply GI_op_apply; auto. cbn in Hen. rewrite HK. destruct (cf_kind (cfg s)); congruence.
    + apply GI_op_map; auto. cbn in Hen. rewrite HK. destruct (cf_kind (cfg s)); congruence.
    + apply GI_op_start; auto. cbn in Hen. apply HK. destruct (cf_kind (cfg s)); congruence.
    + apply GI_op_cancel_group; auto.
    + apply GI_op_cancel_all; auto.
Qed.

Lemma GI_init K c : GI K (init c).
Proof.
  constructor.
  - intros t x y Hx. rewrite get_p_init in Hx. discriminate.
  - intros g ids t x y Hl. discriminate.
  - intros m1 m2 y1 y2 H1. rewrite get_m_init in H1. discriminate.
  - intros m y Hy. rewrite get_m_init in Hy. discriminate.
  - intros _. split.
    + intros g Hg. discriminate.
    + intros m y Hy. rewrite get_m_init in Hy. discriminate.
Qed.

Theorem GI_step K s l :
  WFx s -> GI K s -> (K <-> cf_kind (cfg s) = KSimple) -> taint_iter (step s l) = false ->
  GI K (step s l).
Proof.
  intros X G HK Ht. pose proof (x_wf _ X) as W. pose proof (x_ir _ X) as HX.
  pose proof (taint_iter_step_inv _ _ Ht) as Ht0.
  unfold step. pose proof (eqf_reset s) as He.
  set (sa := set_res (set_evs s []) RNone) in *.
  assert (Ga : GI K sa) by (eapply GI_same; [exact G|reflexivity ..]).
  destruct (negb (enabled sa l)) eqn:Hen; [exact Ga|]. apply negb_false_iff in Hen.
  destruct l as [h| |o].
  - cbn in Hen. destruct (ctl s) eqn:Hctl; [|discriminate].
    apply is_ready_In in Hen. cbn in Hen.
    pose proof (eqf_unsched h He) as Hb. set (sb := unsched sa h) in *.
    assert (Gb : GI K sb) by (eapply GI_same; [exact G|apply Hb ..|reflexivity]).
    pose proof (SP_of_WF W Hb) as HSPb.
    destruct h as [[t|m|d]|d c]; cbn [run_handle].
    + assert (good2 sb (run_p sb t)) as [_ Hw].
      { apply run_p_good; [apply HSPb|eapply waiters_pool_of_WF; eauto|eapply counts_all_of_WF; eauto]. }
      eapply GI_of_wsim_PQ; [exact Gb|exact Hw|apply PQ_run_p, PQ_refl|apply sc_run_p].
    + apply C_run_m; [split; [exact Gb|apply HSPb]|].
      intros x0 Hx0 Hpc Hin. rewrite (eqf_get_m m Hb) in Hx0.
      destruct (not_cancelled_inok Hin) as [Hmc Hfw].
      destruct (m_dead x0) eqn:Hd; auto. exfalso.
      assert (Hf : m_final x0 = None).
      { eapply live_of_pc; eauto. intros E. rewrite E in Hpc. intuition discriminate. }
      destruct (X_dead HX Hx0 Hf Hd) as [H|H]; congruence.
    + eapply GI_same; [exact Gb|autorewrite with fr; reflexivity ..|apply sc_run_d].
    + eapply GI_same; [exact Gb|autorewrite with fr; reflexivity ..|apply sc_run_g].
  - change (ctl sa) with (ctl s).
    destruct (ctl s) as [|[t|m|d]] eqn:Hctl; auto.
    + assert (good2 sa (continue_p sa t)) as [_ Hw].
      { apply continue_p_good; [apply (SP_of_WF W He)|eapply waiters_pool_of_WF; eauto
                               |eapply counts_all_of_WF; eauto]. }
      eapply GI_of_wsim_PQ; [exact Ga|exact Hw|apply PQ_continue_p|apply sc_continue_p].
    + apply C_continue_m; [split; [exact Ga|apply (SP_of_WF W He)]|].
      intros x Hx Hpc. rewrite (eqf_get_m m He) in Hx.
      destruct (m_dead x) eqn:Hd; auto. exfalso.
      apply (x_diter _ X Ht0 m x Hx Hd Hpc).
  - pose proof (SP_of_WF W He) as [A B _]. apply GI_do_op; auto.
Qed.

Theorem GI_run c tr :
  clean (run c tr) -> taint_iter (run c tr) = false -> GI (cf_kind c = KSimple) (run c tr).
Proof.
  induction tr as [|l tr IH] using rev_ind; intros Hc Ht.
  - apply GI_init.
  - rewrite run_snoc in *.
    assert (Hc0 : clean (run c tr)) by (eapply clean_step_inv'; eauto).
    assert (Ht0 : taint_iter (run c tr) = false) by (eapply taint_iter_step_inv; eauto).
    apply GI_step; auto.
    + apply WFx_run; auto.
    + rewrite cfg_run. tauto.
Qed.
