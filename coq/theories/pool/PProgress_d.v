(** Progress — drivers and gather callbacks: [run_d] and [run_g] never increase the measure. *)
From TP Require Export PProgress_m.

Unset Implicit Arguments.

(** ** frames *)
Lemma frv_finish_d s d x e : frv (finish_d s d x e) = frv s.
Proof. unfold finish_d. cbv zeta. frs. Qed.

Lemma frv_after_g2 s d x outer : frv (after_g2 s d x outer) = frv s.
Proof.
  unfold after_g2. cbv zeta.
  repeat first [ reflexivity | rewrite frv_finish_d | rewrite frv_wake_closed | dmatch ].
Qed.

Lemma frv_start_g2 s d x cs re : frv (start_g2 s d x cs re) = frv s.
Proof.
  unfold start_g2. destruct (make_gather _ _ _) as [g outer].
  destruct outer; rewrite ?frv_after_g2; frs.
Qed.

Lemma frv_after_g1 s d x outer : frv (after_g1 s d x outer) = frv s.
Proof.
  unfold after_g1. cbv zeta.
  repeat first [ reflexivity | rewrite frv_finish_d | rewrite frv_start_g2 | dmatch ].
Qed.

Lemma frv_start_g1 s d x cs re : frv (start_g1 s d x cs re) = frv s.
Proof.
  unfold start_g1. destruct (make_gather _ _ _) as [g outer].
  destruct outer; rewrite ?frv_after_g1; frs.
Qed.

Lemma frv_run_d s d : frv (run_d s d) = frv s.
Proof.
  unfold run_d. cbv zeta.
  repeat first [ reflexivity | rewrite frv_finish_d | rewrite frv_start_g1 | rewrite frv_after_g1
               | rewrite frv_after_g2 | rewrite frv_set_ctl | rewrite frv_put_d | dmatch ].
Qed.

Lemma frv_run_g s d c : frv (run_g s d c) = frv s.
Proof.
  unfold run_g.
  repeat first [ reflexivity | rewrite frv_sched | rewrite frv_put_d | dmatch ].
Qed.

(** ** the measure *)
Lemma mu_finish_d D s d x e : muD D (finish_d s d x e) <= muD D s.
Proof.
  unfold finish_d. cbv zeta. rewrite mu_set_ctl, mu_emit.
  apply mu_put_d_zero. reflexivity.
Qed.

Lemma mu_after_g2 D s d x outer : muD D (after_g2 s d x outer) <= muD D s.
Proof.
  unfold after_g2. destruct outer; try apply mu_finish_d.
  - destruct (d_kind x); cbv zeta.
    + match goal with |- muD D (finish_d ?s' _ _ _) <= _ =>
        pose proof (mu_finish_d D s' d x None); assert (muD D s' = muD D s) by reflexivity end.
      lia.
    + match goal with |- muD D (finish_d (wake_closed ?s' ?l) _ _ _) <= _ =>
        pose proof (mu_finish_d D (wake_closed s' l) d x None);
        pose proof (mu_wake_closed D l s'); assert (muD D s' = muD D s) by reflexivity end.
      lia.
    + apply mu_finish_d.
  - destruct (d_kind x); cbv zeta.
    + match goal with |- muD D (finish_d ?s' _ _ _) <= _ =>
        pose proof (mu_finish_d D s' d x None); assert (muD D s' = muD D s) by reflexivity end.
      lia.
    + match goal with |- muD D (finish_d (wake_closed ?s' ?l) _ _ _) <= _ =>
        pose proof (mu_finish_d D (wake_closed s' l) d x None);
        pose proof (mu_wake_closed D l s'); assert (muD D s' = muD D s) by reflexivity end.
      lia.
    + apply mu_finish_d.
Qed.

Lemma mu_start_g2 D s d x cs re xs :
  get_d s d = Some xs -> 3 <= phi_d xs -> muD D (start_g2 s d x cs re) <= muD D s.
Proof.
  intros G H3. unfold start_g2. destruct (make_gather _ _ _) as [g outer].
  destruct outer; try apply mu_after_g2.
  rewrite mu_set_ctl.
  match goal with |- context [put_d s d ?y] =>
    pose proof (mu_put_d D s d y G) as H; assert (phi_d y = 3) by reflexivity end.
  lia.
Qed.

Lemma mu_after_g1 D s d x outer xs :
  get_d s d = Some xs -> 3 <= phi_d xs -> muD D (after_g1 s d x outer) <= muD D s.
Proof.
  intros G H3. unfold after_g1. destruct (d_kind x) as [re|re|]; cbv zeta.
  - assert (Hgo : muD D (start_g2 (set_meta_cancelled s []) d x
                    (dict_merge (t_ended (set_meta_cancelled s []))
                                (t_cancelled (set_meta_cancelled s []))) re) <= muD D s).
    { apply (mu_start_g2 D (set_meta_cancelled s []) d x _ re xs G H3). }
    destruct outer as [| |[]|]; try exact Hgo; apply mu_finish_d.
  - destruct (if re then None else first_exception s _).
    + apply mu_finish_d.
    + apply (mu_start_g2 D (set_gmeta (set_meta_cancelled s []) []) d x _ re xs G H3).
  - apply mu_finish_d.
Qed.

Lemma mu_start_g1 D s d x cs re xs :
  get_d s d = Some xs -> 4 <= phi_d xs -> muD D (start_g1 s d x cs re) <= muD D s.
Proof.
  intros G H4. unfold start_g1. destruct (make_gather _ _ _) as [g outer].
  assert (H3 : 3 <= phi_d xs) by lia.
  destruct outer; try apply (mu_after_g1 D s d _ _ xs G H3).
  rewrite mu_set_ctl.
  match goal with |- context [put_d s d ?y] =>
    pose proof (mu_put_d D s d y G) as H; assert (phi_d y = 4) by reflexivity end.
  lia.
Qed.

(** Running the ready handle of a driver never increases the measure. *)
Lemma mu_run_d D s d : muD D (run_d s d) <= muD D s.
Proof.
  unfold run_d. destruct (get_d s d) as [x0|] eqn:G; [|lia]. cbv zeta.
  assert (HP : phi_d x0 = pend (d_fw x0) + phi_dc (d_pc x0)) by reflexivity.
  destruct (d_pc x0) eqn:Epc; try lia; cbn [phi_dc] in HP.
  - assert (H4 : 4 <= phi_d x0) by lia.
    destruct (d_kind (set_d_fw x0 None)) as [re|re|].
    + destruct (pop_ended s (gmeta s)) as [gm ended].
      apply (mu_start_g1 D (set_gmeta s gm) d _ _ re x0 G H4).
    + apply (mu_start_g1 D (set_locked s true) d _ _ true x0 G H4).
    + destruct (closed s); [apply mu_finish_d|].
      rewrite mu_set_ctl.
      match goal with |- context [put_d ?s' d ?y] =>
        pose proof (mu_put_d D s' d y G) as H; assert (phi_d y = 2) by reflexivity;
        assert (muD D s' = muD D s) by reflexivity end.
      lia.
  - apply (mu_after_g1 D s d _ _ x0 G). lia.
  - apply mu_after_g2.
  - match goal with |- muD D (finish_d ?s' _ _ _) <= _ =>
      pose proof (mu_finish_d D s' d (set_d_fw x0 None) None);
      assert (muD D s' = muD D s) by reflexivity end.
    lia.
Qed.

Lemma phi_d_g x (b : bool) g' : phi_d (if b then set_d_g1 x g' else set_d_g2 x g') = phi_d x.
Proof. destruct b; reflexivity. Qed.

Lemma d_fw_g x (b : bool) g' : d_fw (if b then set_d_g1 x g' else set_d_g2 x g') = d_fw x.
Proof. destruct b; reflexivity. Qed.

(** A gather callback never increases the measure: when it completes the outer future, the ready
    handle of the driver is paid for by the driver's pending unit. *)
Lemma mu_run_g D s d c : muD D (run_g s d c) <= muD D s.
Proof.
  unfold run_g. destruct (get_d s d) as [x|] eqn:G; [|lia].
  destruct (tref_final s c) as [o|]; [|lia]. cbv zeta.
  set (phase1 := match c with TM _ => true | _ => false end).
  match goal with |- context [if ?a then d_fw x else None] => set (active := a) end.
  destruct (if phase1 then d_g1 x else d_g2 x) as [g|]; [|lia].
  assert (Hother : forall g', muD D (put_d s d (if phase1 then set_d_g1 x g' else set_d_g2 x g'))
                              <= muD D s).
  { intros g'. pose proof (mu_put_d D s d (if phase1 then set_d_g1 x g' else set_d_g2 x g') G).
    pose proof (phi_d_g x phase1 g'). lia. }
  destruct (if active then d_fw x else None) as [[| | |]|] eqn:EF; try apply Hother.
  assert (F : d_fw x = Some FPending) by (destruct active; [exact EF|discriminate]).
  destruct (gather_cb (g_re g) (length (g_children g)) o (g_nfin g) FPending) as [nfin outer].
  set (x1 := if phase1 then set_d_g1 x (Some (set_g_nfin g nfin))
             else set_d_g2 x (Some (set_g_nfin g nfin))).
  assert (F1 : fut_pending (d_fw x1) = true) by (unfold x1; rewrite d_fw_g, F; reflexivity).
  assert (P1 : phi_d x1 = phi_d x) by apply phi_d_g.
  assert (Hw : forall f, fut_pending (Some f) = false ->
               muD D (sched (put_d s d (set_d_fw x1 (Some f))) (HT (TD d))) <= muD D s).
  { intros f Hf.
    pose proof (mu_sched D (put_d s d (set_d_fw x1 (Some f))) (HT (TD d))).
    pose proof (mu_put_d D s d (set_d_fw x1 (Some f)) G).
    pose proof (phi_d_wake x1 (Some f) F1 Hf). lia. }
  destruct outer.
  - apply Hother.
  - apply Hw. reflexivity.
  - apply Hw. reflexivity.
  - apply Hw. reflexivity.
Qed.
