(** Only consumers of map requests emit EvPull. *)
From TP Require Import PMon PInv_R_base PStep_C_ev PStep_B_mr.
From TP Require Import PInv_Q_runm PMonSound_C45_pull.

Lemma ev_spawn_next_nonmap s m :
  (forall x, get_m s m = Some x -> is_map x = false) -> evs (spawn_next s m) = evs s.
Proof.
  intros H. unfold spawn_next. destruct (get_m s m) as [x|] eqn:Hx; auto.
  specialize (H x eq_refl). unfold is_map in H.
  destruct (m_kind x); try discriminate; apply ev_apply_loop.
Qed.

Lemma ev_start_then_next_nonmap s m x :
  is_map x = false -> evs (start_then_next s m x) = evs s.
Proof.
  intros Hk. unfold start_then_next, try_start.
  destruct (closed s); [apply ev_finish_m|]. destruct (sem_locked s); [rewrite ev_suspend_m; reflexivity|].
  rewrite ev_spawn_next_nonmap; [rewrite ev_register; reflexivity|].
  intros x' Hx'. destruct (register_fields (set_sem_value s (ninf_pred (sem_value s))) m x) as (_ & R2 & _).
  rewrite (get_m_upd_self _ _ _ _ _ R2 Hx'). exact Hk.
Qed.

Lemma ev_run_m_nonmap s m y :
  get_m s m = Some y -> is_map y = false -> evs (run_m s m) = evs s.
Proof.
  intros Hy Hk. rewrite (run_m_eq Hy). cbv zeta.
  destruct (m_pc y); auto.
  - destruct (task_input _ _); try apply ev_finish_m.
    rewrite ev_spawn_next_nonmap; [reflexivity|].
    intros x' Hx'. assert (x' = set_m_pc (clr y) MLoopHead).
    { eapply (get_m_upd_self s (put_m s m (set_m_pc (clr y) MLoopHead)) m); [reflexivity|exact Hx']. }
    subst x'. exact Hk.
  - destruct (task_input _ _); try apply ev_finish_m.
    apply ev_start_then_next_nonmap. exact Hk.
  - destruct (task_input _ _).
    + rewrite ev_spawn_next_nonmap.
      * rewrite ev_register. destruct (ninf_pos _); [rewrite ev_wake_next|]; reflexivity.
      * intros x' Hx'.
        match goal with Hx' : get_m (register ?s1 m ?x) m = Some x' |- _ =>
          destruct (register_fields s1 m x) as (_ & R2 & _);
          rewrite (get_m_upd_self _ _ _ _ _ R2 Hx') end. exact Hk.
    + rewrite ev_finish_m.
      destruct (match m_fw y with Some FCancelled => true | _ => false end);
        [|rewrite ev_sem_release]; reflexivity.
    + rewrite ev_finish_m.
      destruct (match m_fw y with Some FCancelled => true | _ => false end);
        [|rewrite ev_sem_release]; reflexivity.
Qed.

Lemma ev_continue_m_notiter s m y :
  get_m s m = Some y -> m_pc y <> MAtIter -> continue_m s m = s.
Proof. intros Hy Hpc. unfold continue_m. rewrite Hy. destruct (m_pc y); auto. congruence. Qed.

Lemma pull_owner_map s l r n :
  In (EvPull r n) (evs (step s l)) ->
  exists y, get_m s r = Some y /\ (is_map y = true \/ m_pc y = MAtIter).
Proof.
  unfold step. set (sa := set_res (set_evs s []) RNone).
  assert (Hea : evs sa = []) by reflexivity.
  destruct (negb (enabled sa l)); [rewrite Hea; intros []|].
  destruct l as [h| |o].
  - destruct h as [[t|m|d]|d c]; simpl run_handle; intros Hin.
    + exfalso. pose proof (MR_evs _ _ _ _ (MR_run_p None false sa (unsched sa (HT (TP t))) t
                 (MR_unsched _ _ _ _ _ (MR_refl None false sa)) (le_n _)) _ Hin) as [H|H].
      * rewrite Hea in H. destruct H.
      * simpl in H. discriminate.
    + set (sb := unsched sa (HT (TM m))) in *.
      assert (Hr : r = m).
      { destruct (op_run_m sb m _ Hin) as [H|(m' & k & E)]; [destruct H|].
        pose proof (MR_evs _ _ _ _ (MR_run_m m sa sb (MR_unsched _ _ _ _ _ (MR_refl (Some m) false sa))) _ Hin)
          as [H|H]; [rewrite Hea in H; destruct H|]. simpl in H. congruence. }
      subst r. destruct (get_m sb m) as [y|] eqn:Hy.
      * exists y. split; [exact Hy|].
        destruct (is_map y) eqn:Hk; auto. exfalso.
        rewrite (ev_run_m_nonmap sb m y Hy Hk) in Hin. destruct Hin.
      * exfalso. unfold run_m in Hin. rewrite Hy in Hin. destruct Hin.
    + exfalso. pose proof (MR_evs _ _ _ _ (MR_run_d None false sa (unsched sa (HT (TD d))) d
                 (MR_unsched _ _ _ _ _ (MR_refl None false sa))) _ Hin) as [H|H].
      * rewrite Hea in H. destruct H.
      * simpl in H. discriminate.
    + exfalso. rewrite ev_run_g in Hin. destruct Hin.
  - change (ctl sa) with (ctl s). destruct (ctl s) as [|[t|m|d]]; intros Hin;
      try (rewrite Hea in Hin; destruct Hin).
    + exfalso. pose proof (MR_evs _ _ _ _ (MR_continue_p None false sa sa t (MR_refl None false sa)) _ Hin)
        as [H|H]; [rewrite Hea in H; destruct H|]. simpl in H. discriminate.
    + assert (Hr : r = m).
      { pose proof (MR_evs _ _ _ _ (MR_continue_m m sa sa (MR_refl (Some m) false sa)) _ Hin)
          as [H|H]; [rewrite Hea in H; destruct H|]. simpl in H. congruence. }
      subst r. destruct (get_m sa m) as [y|] eqn:Hy.
      * exists y. split; [exact Hy|]. right.
        destruct (m_pc y) eqn:Hpc; auto; exfalso;
          rewrite (ev_continue_m_notiter sa m y Hy) in Hin by congruence; destruct Hin.
      * exfalso. unfold continue_m in Hin. rewrite Hy in Hin. destruct Hin.
  - intros Hin. exfalso. rewrite ev_do_op in Hin. destruct Hin.
Qed.
