(** Per-task invariant, part 2: cancel_p, after_g2. *)
From TP Require Import PInv PInv_P_base PInv_P_view PInv_P_inv PInv_P_tok.

(** ** cancel_p *)
Lemma cancel_x_pc x : p_pc (cancel_x x) = p_pc x.
Proof. unfold cancel_x. destruct (fut_pending _); reflexivity. Qed.
Lemma cancel_x_final x : p_final (cancel_x x) = p_final x.
Proof. unfold cancel_x. destruct (fut_pending _); reflexivity. Qed.
Lemma cancel_x_unst x : p_unst (cancel_x x) = p_unst x.
Proof. unfold cancel_x. destruct (fut_pending _); reflexivity. Qed.
Lemma cancel_x_exc x : p_exc (cancel_x x) = p_exc x.
Proof. unfold cancel_x. destruct (fut_pending _); reflexivity. Qed.
Lemma cancel_x_w x : p_w (cancel_x x) = p_w x.
Proof. unfold cancel_x. destruct (fut_pending _); reflexivity. Qed.
Lemma cancel_x_counts x : counts_ok (cancel_x x) <-> counts_ok x.
Proof. unfold cancel_x. destruct (fut_pending _); reflexivity. Qed.

Lemma tok_cancel_x R C E ts t x (cur : bool) :
  tok R C E ts t x -> In t R -> p_unst x = UNone -> p_final x = None ->
  (p_user (p_pc x) = true -> cur = true) ->
  tok R C E (if cur && final_segment x then true else ts) t (cancel_x x).
Proof.
  intros (r & mi & la) Hin hu hf hc.
  destruct mi as (m1 & m2 & m3 & m4 & m5 & m6).
  assert (Hnc : p_pc x <> PCreated) by (apply m2; auto).
  split; [|split].
  - rewrite cancel_x_pc. exact r.
  - unfold tmisc. rewrite cancel_x_pc, cancel_x_final, cancel_x_unst, cancel_x_exc, cancel_x_counts.
    repeat split; try tauto; try apply m4.
    intros e. unfold cancel_x. destruct (fut_pending _); cbn; [discriminate|apply m6].
  - unfold tlate. rewrite cancel_x_pc, cancel_x_exc, cancel_x_w.
    destruct r as (r1 & _). apply r1 in Hin.
    unfold final_segment.
    destruct (p_pc x) eqn:Epc; try discriminate; try congruence; cbn in hc;
      try (rewrite hc by reflexivity; cbn [andb]; discriminate).
    + (* PUStart *) rewrite hc by reflexivity. cbn [andb].
      destruct (w_first (p_w x)) eqn:Ew; try discriminate.
      intros Hts. destruct (la Hts) as (l1 & l2 & l3).
      unfold not_cancelled_late. rewrite cancel_x_pc, Epc. repeat split; auto. congruence.
    + (* PWaitGate *) rewrite andb_false_r. intros Hts. destruct (la Hts) as (l1 & l2 & l3).
      unfold not_cancelled_late. rewrite cancel_x_pc, Epc. repeat split; auto. discriminate.
Qed.

Lemma TOK_cancel_p v cur t :
  TOKv v -> In t (vR v) ->
  (forall x, vget v t = Some x -> p_user (p_pc x) = true -> cur = true) ->
  TOKv (cancel_p_v v cur t).
Proof.
  intros Hk Hin Hc. unfold cancel_p_v. destruct (vget v t) as [x|] eqn:Ex; auto.
  pose proof (Hk t x Ex) as Ht. specialize (Hc x eq_refl).
  destruct (p_unst x) eqn:Eu.
  - destruct (p_final x) eqn:Ef; auto.
    apply TOK_vput.
    + eapply TOKex_ext; [apply TOKv_ex, Hk|reflexivity|cbn; tauto|].
      cbn. destruct (cur && final_segment x); auto. discriminate.
    + cbn [vR vC vE vts]. apply tok_cancel_x; auto.
  - apply TOK_vput; [apply TOKv_ex, Hk|]. dx x. cbn in Eu. subst. tsolve.
  - apply TOK_vput; [apply TOKv_ex, Hk|]. dx x. cbn in Eu. subst. tsolve.
Qed.

(** ** after_g2 *)
Lemma treg_regs R C E u pc : treg R C E u pc -> pc <> PDone -> In u (R ++ C ++ E).
Proof.
  intros (a & b & c & d) Hn. rewrite !in_app_iff.
  destruct pc; cbn in *; try tauto; try (left; apply a; reflexivity);
    try (right; left; apply b; reflexivity); try (right; right; apply c; reflexivity).
Qed.

Lemma treg_done R C E R' C' E' u :
  (In u R' -> In u R) -> (In u C' -> In u C) ->
  treg R C E u PDone -> treg R' C' E' u PDone.
Proof.
  unfold treg. cbn. intros h1 h2 (a & b & c & d). repeat split; intros; try discriminate; auto.
  - apply a, h1; auto.
  - apply b, h2; auto.
Qed.

Definition ag2pre (v : pv) (k : dkind) (snap : list nat) (outer : fut) : Prop :=
  (forall e, outer <> FExc e) -> outer <> FCancelled ->
  (forall t, In t snap -> exists x, vget v t = Some x /\ p_final x <> None) /\
  (forall re, k = DGatherClose re -> forall t, In t (vregs v) -> In t snap).

Lemma TOK_flush v snap nf :
  TOKv v -> (forall t, In t snap -> exists x, vget v t = Some x /\ p_final x <> None) ->
  TOKv (mkpv (vR v) (filter (not_in snap) (vC v)) (filter (not_in snap) (vE v)) (vns v) (vpts v)
             nf (vts v) (vds v) (vtu v)).
Proof.
  intros Hk Hd u x Hx. change (vget v u = Some x) in Hx. destruct (Hk u x Hx) as (r & mi & la).
  cbn [vR vC vE vts]. split; [|split]; auto.
  destruct (mem u snap) eqn:Em.
  - apply mem_In in Em. destruct (Hd u Em) as (x' & Hx' & Hf).
    assert (x' = x) by congruence. subst x'.
    assert (Hf' : p_pc x = PDone).
    { destruct (ppc_eq_dec (p_pc x) PDone); auto. exfalso. apply Hf. apply mi. auto. }
    rewrite Hf' in *.
    eapply treg_done; [| |exact r]; [tauto|rewrite filter_In; tauto].
  - eapply treg_ext; [| | |exact r]; try tauto;
      rewrite filter_In; unfold not_in; rewrite Em; cbn; tauto.
Qed.

Lemma TOK_gac v snap nf :
  TOKv v -> (forall t, In t snap -> exists x, vget v t = Some x /\ p_final x <> None) ->
  (forall t, In t (vregs v) -> In t snap) ->
  TOKv (mkpv [] [] [] (vns v) (vpts v) nf (vts v) (vds v) (vtu v)).
Proof.
  intros Hk Hd Hg u x Hx. change (vget v u = Some x) in Hx. destruct (Hk u x Hx) as (r & mi & la).
  cbn [vR vC vE vts]. split; [|split]; auto.
  assert (Hpc : p_pc x = PDone).
  { destruct (ppc_eq_dec (p_pc x) PDone) as [|Hn]; auto. exfalso.
    pose proof (treg_regs _ _ _ _ _ r Hn) as Hi. apply Hg in Hi.
    destruct (Hd u Hi) as (x' & Hx' & Hf). assert (x' = x) by congruence. subst x'.
    apply Hf. apply mi. auto. }
  rewrite Hpc in *. eapply treg_done; [| |exact r]; intros [].
Qed.

Lemma TOK_after_g2 v k snap outer :
  TOKv v -> ag2pre v k snap outer -> TOKv (after_g2_v v k snap outer).
Proof.
  intros Hk Hp. unfold after_g2_v.
  destruct outer as [| |e|]; auto.
  - destruct Hp as (Hd & Hg); try congruence. destruct k; auto.
    + apply TOK_flush; auto.
    + apply TOK_gac with (snap := snap); auto. eapply Hg; eauto.
  - destruct Hp as (Hd & Hg); try congruence. destruct k; auto.
    + apply TOK_flush; auto.
    + apply TOK_gac with (snap := snap); auto. eapply Hg; eauto.
Qed.
