(** Monitor soundness for C08: the relation between the model state and the tracker, one step.
    Every clause of property 8 except [C08_returns_normally] is excluded here; that one is reduced
    to [ret_case] (a gather_and_close() that ends abnormally although the tracker has seen no
    user exception), excluded in PMonSound8_C08.v. *)
From TP Require Import PInv_P PSpec PSpecStep PMon PRun PWF PStep_D_base PStep_D.
From TP Require Import PMonSound_trk PMonSound_gen PMonSound_C45_trk PMonSound_C45_ev
  PMonSound_C45_mir PMonSound_C45_prs PMonSound_C45
  PMonSound_C13_kd PMonSound_C13_trk PMonSound8_trk PMonSound8_mod PMonSound8_spec.

(** the tracker's driver table mirrors the model's driver records; [k_closed] is [closed] *)
Definition DR8 (s : state) (k : trk) : Prop :=
  map v_kind (k_drvs k) = map d_kind (dtasks s) /\
  map v_done (k_drvs k) = fin_of s /\
  k_closed k = closed s.

Definition RR8 (c : config) (s : state) (k : trk) : Prop := RR45 c s k /\ DR8 s k.

Lemma RR8_init c : RR8 c (init c) (trk_init c).
Proof. split; [apply RR45_init|]. repeat split. Qed.

Lemma map2_nth {A B C} (f : A -> C) (g : B -> C) l l' i a :
  map f l = map g l' -> nth_error l i = Some a ->
  exists b, nth_error l' i = Some b /\ f a = g b.
Proof.
  intros E Ha.
  assert (H : nth_error (map g l') i = Some (f a)) by (rewrite <- E, nth_error_map, Ha; reflexivity).
  rewrite nth_error_map in H. destruct (nth_error l' i) as [b|]; [|discriminate].
  simpl in H. injection H as H. eauto.
Qed.

Lemma DR8_drv s k d x :
  DR8 s k -> get_d s d = Some x ->
  exists v, nth_error (k_drvs k) d = Some v /\ v_kind v = d_kind x /\ v_done v = d_final x.
Proof.
  intros (HK & HF & _) Hx. unfold get_d in Hx.
  destruct (map2_nth d_kind v_kind _ _ d x (eq_sym HK) Hx) as (v & Hv & E1).
  destruct (map2_nth v_done d_final _ _ d v HF Hv) as (x' & Hx' & E2).
  assert (x' = x) by congruence. subst x'. eauto.
Qed.

Lemma DR8_trk s k i v :
  DR8 s k -> nth_error (k_drvs k) i = Some v ->
  exists x, get_d s i = Some x /\ v_kind v = d_kind x /\ v_done v = d_final x.
Proof.
  intros (HK & HF & _) Hv.
  destruct (map2_nth v_kind d_kind _ _ i v HK Hv) as (x & Hx & E1).
  destruct (map2_nth v_done d_final _ _ i v HF Hv) as (x' & Hx' & E2).
  assert (x' = x) by congruence. subst x'. exists x. auto.
Qed.

Lemma upd_same {A} (l : list A) d a : nth_error l d = Some a -> upd l d a = l.
Proof.
  revert d. induction l as [|h t IH]; intros [|d] H; simpl in *; try discriminate.
  - congruence.
  - f_equal. auto.
Qed.

Lemma fin_upd_get s s' d oc x :
  get_d s d = Some x -> fin_of s' = upd (fin_of s) d (Some oc) ->
  map d_kind (dtasks s') = map d_kind (dtasks s) ->
  exists x', get_d s' d = Some x' /\ d_final x' = Some oc /\ d_kind x' = d_kind x.
Proof.
  intros Hx Hf Hk. unfold get_d in *.
  assert (Hlt : d < length (fin_of s))
    by (unfold fin_of; rewrite map_length; apply nth_error_Some; congruence).
  assert (H1 : nth_error (fin_of s') d = Some (Some oc)) by (rewrite Hf; apply nth_error_upd_eq; exact Hlt).
  unfold fin_of in H1. rewrite nth_error_map in H1.
  destruct (nth_error (dtasks s') d) as [x'|] eqn:Hx'; [|discriminate].
  simpl in H1. injection H1 as H1. exists x'. split; [reflexivity|]. split; [exact H1|].
  destruct (map2_nth d_kind d_kind _ _ d x' Hk Hx') as (x2 & Hx2 & E). congruence.
Qed.

(** the tracker's requests and live workers in a step that only logs a driver completion *)
Lemma mon_step_run_done c k o h d oc :
  o_label o = LRun h -> o_events o = [EvDriverDone d oc] ->
  k_reqs (fst (mon_step c k o)) = k_reqs k /\ k_live (fst (mon_step c k o)) = k_live k.
Proof.
  intros Hl Hev. destruct (mon_step_45 c k o) as (kk & _ & Hr1 & Hrk & Hvk & Hr' & Hv').
  cbv zeta in *. split.
  - rewrite Hr', Hrk, Hr1, Hev. cbn [fold_left rq_ev]. unfold lab_reqs. rewrite Hl.
    destruct (negb (o_enabled o)); reflexivity.
  - change (k_live (fst (mon_step c k o))) with (v_live (tview5 (fst (mon_step c k o)))).
    rewrite Hv', Hvk, Hev. reflexivity.
Qed.

Lemma outcome_eq_res (oc : outcome) : oc = OResult \/ oc <> OResult.
Proof. destruct oc; [left; reflexivity|right; discriminate|right; discriminate]. Qed.

(** what is left over for PMonSound8_C08.v *)
Definition ret_case (s : state) (k : trk) (l : label) : Prop :=
  k_raised k = [] /\
  exists d x oc, l = LRun (HT (TD d)) /\ get_d s d = Some x /\ is_gac (d_kind x) = true /\
                 evs (step s l) = [EvDriverDone d oc] /\ oc <> OResult.

Lemma quiet_ready8 kq s l en : PMon.quiet kq (obs_of s l en) = true -> ready s = [].
Proof.
  unfold PMon.quiet. cbn [o_ctl o_ready_empty obs_of]. destruct (ctl_obs s); [|discriminate].
  intros H. apply andb_true_iff in H. destruct H as [H _]. destruct (ready s); [reflexivity|discriminate].
Qed.

Lemma mon_step_sound8 c s k l :
  RR8 c s k -> clean (step s l) -> taint_iter (step s l) = false ->
  let o := obs_of (step s l) l (enabled (set_res (set_evs s []) RNone) l) in
  (forall cl, In cl (fp 8 (snd (mon_step c k o))) ->
     cl = C08_returns_normally /\ ret_case s k l) /\
  RR8 c (step s l) (fst (mon_step c k o)).
Proof.
  intros [R45 HD] Hc Ht o. pose proof HD as (HK & HF & HC).
  pose proof R45 as ((tr0 & Hs) & _).
  destruct (mon_step_sound45 c s k l R45 Hc Ht) as [_ R45']. cbv zeta in R45'. fold o in R45'.
  assert (Hrun : step s l = run c (tr0 ++ [l])) by (rewrite run_snoc, Hs; reflexivity).
  assert (Hc0 : clean s) by (eapply clean_step_inv'; eauto).
  assert (X : WFx s) by (rewrite Hs; apply WFx_run; rewrite <- Hs; exact Hc0).
  assert (X' : WFx (step s l)) by (rewrite Hrun; apply WFx_run; rewrite <- Hrun; exact Hc).
  pose proof (step_drv8 s l (x_wf _ X) (x_p _ X) (x_d _ X)) as SD. cbv zeta in SD.
  pose proof (KD_step s l) as KS.
  destruct (mon_step_8 c k o) as (kq & Hfp & Hq & Hkf & (L1 & L2 & L3)). cbv zeta in *.
  change (o_events o) with (evs (step s l)) in *.
  change (o_label o) with l in *.
  change (o_enabled o) with (enabled (pre s) l) in *.
  set (k1 := fst (on_label c k o)) in *.
  set (k2 := fst (on_events k1 o (evs (step s l)))) in *.
  (* the label *)
  assert (Hl8 : lcl8 k o = []).
  { unfold lcl8. change (o_enabled o) with (enabled (pre s) l). change (o_label o) with l.
    destruct (negb (enabled (pre s) l)); auto. destruct (spawn_lab l) eqn:Hsp; auto.
    change (o_res o) with (res (step s l)). destruct (res (step s l)) eqn:Hres; auto.
    destruct (k_closed k) eqn:Hkc; [|reflexivity]. exfalso. rewrite HC in Hkc.
    eapply spawn_closed_rejected; eauto. }
  (* the events *)
  assert (Hev : (forall cl, In cl (fp 8 (snd (on_events k1 o (evs (step s l))))) ->
                   cl = C08_returns_normally /\ ret_case s k l) /\ DR8 (step s l) k2).
  { destruct SD as [(Hnd & Hfin & Hcl)|(d & oc & x & El & Hevs & Hx & Hfin & Hcl)].
    - destruct (on_events_8_none (evs (step s l)) k1 o Hnd) as [E1 E2].
      split; [rewrite E1; intros cl []|].
      fold k2 in E2. unfold d8 in E2. injection E2 as E2a E2b. unfold DR8. rewrite E2a, E2b.
      split; [rewrite L1, HK, KS; reflexivity|]. split; [rewrite L2, HF, Hfin; reflexivity|].
      rewrite L3, HC, Hcl. reflexivity.
    - assert (Hk1 : k1 = k) by (unfold k1; rewrite (on_label_run c k o (HT (TD d))); [reflexivity|exact El]).
      assert (KS' : map d_kind (dtasks (step s l)) = map d_kind (dtasks s)).
      { rewrite KS, El. cbn [drv_kinds]. apply app_nil_r. }
      destruct (fin_upd_get s (step s l) d oc x Hx Hfin KS') as (x' & Hx' & Hf' & Hk').
      destruct (DR8_drv s k d x HD Hx) as (v & Hv & Ekv & Edv).
      destruct (on_event_8_done k o d oc v Hv) as (F1 & F2 & F3).
      unfold k2. rewrite Hk1, Hevs, on_events_single. cbn [fst snd]. rewrite app_nil_r.
      rewrite F1, Ekv. split.
      + (* the clauses *)
        intros cl Hin. unfold dcl8 in Hin.
        destruct (d_kind x) as [re|re|] eqn:Ekx.
        * destruct Hin.
        * destruct (outcome_eq_res oc) as [->|Hne].
          -- exfalso.
             destruct (gac_done_model (step s l) d x' re X' Hx' Hk' Hf') as [Hcl' Hregs].
             destruct (mon_step_run_done c k o (HT (TD d)) d OResult El Hevs) as [Er El'].
             destruct R45' as (_ & HI' & HM' & HP' & _).
             rewrite Er in HI', HM', HP'.
             pose proof (no_live_model _ _ _ X' Hregs HI') as Hnl.
             change (v_live (tview5 (fst (mon_step c k o)))) with (k_live (fst (mon_step c k o))) in Hnl.
             rewrite El' in Hnl. rewrite Hnl in Hin.
             destruct (regs_nil _ Hregs) as (R1 & R2 & R3).
             assert (Hem : Nat.eqb (o_nr o + o_nc o + o_ne o) 0 = true).
             { unfold o. cbn [o_nr o_nc o_ne obs_of]. rewrite R1, R2, R3. reflexivity. }
             rewrite Hem in Hin.
             assert (Hco : forallb (complete8 o) (k_reqs k) = true).
             { unfold o. revert HM' HP' Hx' Hk' Hf' Hc Ht. rewrite Hrun. intros HM' HP' Hx' Hk' Hf' Hc Ht.
               eapply complete_model; eauto. }
             rewrite Hco in Hin. destruct Hin.
          -- assert (Hin' : In cl (fails (match k_raised k with [] => false | _ => true end)
                                         C08_returns_normally)) by (destruct oc; auto; congruence).
             apply In_fails in Hin'. destruct Hin' as [Hb ->]. split; [reflexivity|].
             split; [destruct (k_raised k); [reflexivity|discriminate]|].
             exists d, x, oc. rewrite Ekx. auto 10.
        * exfalso. assert (Hcs : closed s = true).
          { assert (Hcs' : closed (step s l) = true).
            { apply (until_done_model (step s l) d x' X' Hx'); [congruence|]. rewrite Hf'. discriminate. }
            destruct Hcl as [E|(_ & E & _)]; [congruence|]. discriminate E. }
          rewrite HC, Hcs in Hin. destruct oc; destruct Hin.
      + (* the relation *)
        unfold DR8. rewrite F2, F3, !map_upd8. cbn [set_done v_kind v_done].
        split; [|split].
        * rewrite upd_same by (rewrite nth_error_map, Hv; reflexivity). rewrite HK, KS'. reflexivity.
        * rewrite HF, Hfin. reflexivity.
        * rewrite HC, Ekv.
          destruct Hcl as [E|(E1 & E2 & ->)].
          -- rewrite E. destruct (is_gac (d_kind x) && isres oc) eqn:Eg; [|apply orb_false_r].
             apply andb_true_iff in Eg. destruct Eg as [Eg1 Eg2].
             destruct (d_kind x) as [re|re|] eqn:Ekx; try discriminate.
             destruct oc; try discriminate.
             destruct (gac_done_model (step s l) d x' re X' Hx' Hk' Hf') as [Hcl' _].
             rewrite <- E, Hcl'. apply orb_true_r.
          -- rewrite E1, E2. apply orb_true_r. }
  destruct Hev as [Hev HD2]. pose proof HD2 as (HK2 & HF2 & HC2).
  unfold d8 in Hq, Hkf. injection Hq as Hq1 Hq2. injection Hkf as Hk1' Hk2'.
  (* the state clause *)
  assert (Hu8 : ucl8 kq o = []).
  { unfold ucl8. destruct (PMon.quiet kq o) eqn:Hqu; [|reflexivity]. cbn [negb orb].
    rewrite Hq1, Hq2. destruct (k_closed k2) eqn:Hkc; [|reflexivity]. cbn [negb orb].
    assert (Hall : forallb until_ok (k_drvs k2) = true); [|rewrite Hall; reflexivity].
    apply forallb_forall. intros v Hin. apply In_nth_error in Hin. destruct Hin as [i Hv].
    destruct (DR8_trk _ _ i v HD2 Hv) as (x & Hx & E1 & E2).
    unfold until_ok. destruct (v_kind v) eqn:Ekv; auto. destruct (v_done v) eqn:Edv; auto.
    exfalso. apply (until_released_model (step s l) i x X'); auto; try congruence.
    eapply quiet_ready8; eauto. }
  split.
  - intros cl Hin. rewrite Hfp, Hl8, Hu8, app_nil_r in Hin. apply Hev. exact Hin.
  - split; [exact R45'|]. unfold DR8. rewrite Hk1', Hk2'. exact HD2.
Qed.
