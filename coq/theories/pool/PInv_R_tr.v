(** Layer I5 — transformers: fold of [sched], [sched_cbs], appends, [wake_next], [sem_release],
    [map_release], [register], and the precondition [Pre] for an executing task together with
    the terminal lemmas (finish / suspend / user point). *)
From TP Require Import PInv PInv_R_base.

(** ** fold_left sched *)
Lemma ptasks_fold_sched l s : ptasks (fold_left sched l s) = ptasks s.
Proof. revert s; induction l; simpl; intros; auto. rewrite IHl, ptasks_sched; auto. Qed.
Lemma mtasks_fold_sched l s : mtasks (fold_left sched l s) = mtasks s.
Proof. revert s; induction l; simpl; intros; auto. rewrite IHl, mtasks_sched; auto. Qed.
Lemma dtasks_fold_sched l s : dtasks (fold_left sched l s) = dtasks s.
Proof. revert s; induction l; simpl; intros; auto. rewrite IHl, dtasks_sched; auto. Qed.
Lemma ctl_fold_sched l s : ctl (fold_left sched l s) = ctl s.
Proof. revert s; induction l; simpl; intros; auto. rewrite IHl, ctl_sched; auto. Qed.
Lemma num_started_fold_sched l s : num_started (fold_left sched l s) = num_started s.
Proof. revert s; induction l; simpl; intros; auto. rewrite IHl, num_started_sched; auto. Qed.

Lemma ready_fold_sched_In l s h :
  In h (ready (fold_left sched l s)) <-> In h l \/ In h (ready s).
Proof.
  revert s; induction l; simpl; intros.
  - tauto.
  - rewrite IHl, ready_sched_In. intuition.
Qed.

Lemma hid_in_range_sched s k h : hid_in_range (sched s k) h <-> hid_in_range s h.
Proof.
  unfold hid_in_range. rewrite ptasks_sched, mtasks_sched, dtasks_sched. tauto.
Qed.

Lemma J_fold_sched l s E :
  J s E ->
  (forall h, In h l -> hid_in_range s h /\ forall r, h = HT r -> E r) ->
  J (fold_left sched l s) E.
Proof.
  revert s; induction l as [|a l IH]; simpl; intros s H Hl; auto.
  apply IH.
  - apply J_sched; auto; apply Hl; auto.
  - intros h Hh. rewrite hid_in_range_sched. apply Hl; auto.
Qed.

(** ** sched_cbs *)
Lemma cbs_of_In ds k r h :
  In h (cbs_of ds k r) -> exists d, h = HG d r /\ k <= d < k + length ds.
Proof.
  revert k; induction ds as [|x t IH]; simpl; intros k Hh; [tauto|].
  apply in_app_iff in Hh. destruct Hh as [Hh|Hh].
  - destruct (gather_has_cb (d_g1 x) r || gather_has_cb (d_g2 x) r); simpl in Hh; [|tauto].
    destruct Hh as [<-|[]]. exists k. split; auto. lia.
  - apply IH in Hh. destruct Hh as (d & -> & Hd). exists d. split; auto. lia.
Qed.

Lemma J_sched_cbs s E r : J s E -> J (sched_cbs s r) E.
Proof.
  intros H. unfold sched_cbs. apply J_fold_sched; auto.
  intros h Hh. apply cbs_of_In in Hh. destruct Hh as (d & -> & Hd).
  split; [simpl; lia|]. intros q Hq; discriminate.
Qed.

Lemma ready_sched_cbs_HT s r q : In (HT q) (ready (sched_cbs s r)) <-> In (HT q) (ready s).
Proof.
  unfold sched_cbs. rewrite ready_fold_sched_In. split; auto.
  intros [Hh|]; auto. apply cbs_of_In in Hh. destruct Hh as (d & Hd & _). discriminate.
Qed.

Lemma ptasks_sched_cbs s r : ptasks (sched_cbs s r) = ptasks s.
Proof. apply ptasks_fold_sched. Qed.
Lemma mtasks_sched_cbs s r : mtasks (sched_cbs s r) = mtasks s.
Proof. apply mtasks_fold_sched. Qed.
Lemma dtasks_sched_cbs s r : dtasks (sched_cbs s r) = dtasks s.
Proof. apply dtasks_fold_sched. Qed.
Lemma ctl_sched_cbs s r : ctl (sched_cbs s r) = ctl s.
Proof. apply ctl_fold_sched. Qed.

(** ** The executing task *)
Definition tref_range (s : state) (r : tref) : Prop :=
  match r with
  | TP t => t < length (ptasks s)
  | TM m => m < length (mtasks s)
  | TD d => d < length (dtasks s)
  end.

Definition Pre (s : state) (r : tref) : Prop :=
  J s (E1 r) /\ ~ In (HT r) (ready s) /\ tref_range s r /\ (ctl s = CIdle \/ ctl s = CUser r).

Lemma E1_refl r : E1 r r.
Proof. reflexivity. Qed.
#[export] Hint Resolve E1_refl : core.

Lemma ctl_swap (c c' : control) r q :
  (c = CIdle \/ c = CUser r) -> (c' = CIdle \/ c' = CUser r) -> ~ E1 r q ->
  (c = CUser q <-> c' = CUser q).
Proof.
  unfold E1. intros [->| ->] [->| ->] Hq; split; intros Heq; try discriminate;
    try (injection Heq as <-; exfalso; apply Hq; reflexivity); auto.
Qed.

(** *** pool tasks *)
Lemma T_put_p s t x c :
  Pre s (TP t) -> okp c t False x -> (c = CIdle \/ c = CUser (TP t)) ->
  J (set_ctl (put_p s t x) c) E0.
Proof.
  intros (HJ & Hnr & Hr & Hc) Hok Hc'. simpl in Hr.
  apply J_close with (r := TP t).
  - apply J_set_ctl.
    + apply J_put_p; auto.
    + intros q Hq. apply ctl_swap with (r := TP t); auto.
    + unfold put_p; cbn. rewrite upd_length.
      destruct Hc' as [->| ->]; simpl; auto.
  - simpl. intros y Hy.
    change (get_p (set_ctl (put_p s t x) c) t) with (get_p (put_p s t x) t) in Hy.
    rewrite get_p_put_p_eq in Hy by auto. injection Hy as <-.
    eapply okp_iff; [|exact Hok]. cbn. tauto.
Qed.

Lemma T_sched_p s t x :
  Pre s (TP t) -> okp CIdle t True x ->
  J (set_ctl (sched (put_p s t x) (HT (TP t))) CIdle) E0.
Proof.
  intros (HJ & Hnr & Hr & Hc) Hok. simpl in Hr.
  apply J_close with (r := TP t).
  - apply J_set_ctl.
    + apply J_sched.
      * apply J_put_p; auto.
      * simpl. unfold put_p; cbn. rewrite upd_length; auto.
      * intros r [= <-]; auto.
    + intros q Hq. rewrite ctl_sched. apply ctl_swap with (r := TP t); auto.
    + simpl; auto.
  - simpl. intros y Hy.
    change (get_p (set_ctl (sched (put_p s t x) (HT (TP t))) CIdle) t)
      with (get_p (sched (put_p s t x) (HT (TP t))) t) in Hy.
    rewrite get_p_sched, get_p_put_p_eq in Hy by auto. injection Hy as <-.
    eapply okp_iff; [|exact Hok]. cbn. rewrite ready_sched_In. tauto.
Qed.

Lemma J_finish_p s t x : Pre s (TP t) -> J (finish_p s t x) E0.
Proof.
  intros (HJ & Hnr & Hr & Hc). simpl in Hr. unfold finish_p.
  apply J_close with (r := TP t).
  - apply J_set_ctl.
    + apply J_sched_cbs. apply J_put_p; auto.
    + intros q Hq. rewrite ctl_sched_cbs. apply ctl_swap with (r := TP t); auto.
    + simpl; auto.
  - simpl. intros y Hy. unfold get_p in Hy. cbn [ptasks set_ctl] in Hy.
    rewrite ptasks_sched_cbs in Hy. fold (get_p (put_p s t
      (set_p_final (set_p_pc (set_p_mc (set_p_fw x None) false) PDone)
         (Some (final_of (p_exc x) (p_mc x))))) t) in Hy.
    rewrite get_p_put_p_eq in Hy by auto. injection Hy as <-.
    cbn [ctl ready set_ctl]. eapply okp_iff; [symmetry; apply ready_sched_cbs_HT|].
    unfold okp; cbn. repeat split; try congruence; try tauto.
    intros [?|[? ?]]; discriminate.
Qed.

Lemma J_suspend_p s t x pc :
  Pre s (TP t) -> p_waiting pc = true -> J (suspend_p s t x pc) E0.
Proof.
  intros HP Hpc. unfold suspend_p. destruct (p_mc x).
  - apply T_sched_p; auto. unfold okp; cbn. rewrite Hpc.
    repeat split; try congruence; try tauto.
    + intros _. right. split; congruence.
    + destruct pc; simpl in *; congruence.
  - apply T_put_p; auto. unfold okp; cbn. rewrite Hpc.
    repeat split; try congruence; try tauto.
    + intros [?|[? ?]]; [destruct pc; simpl in *; congruence|congruence].
    + destruct pc; simpl in *; congruence.
Qed.

Lemma J_user_p s t x ev :
  Pre s (TP t) -> p_user (p_pc x) = true -> p_fw x = None ->
  J (set_ctl (emit (put_p s t x) ev) (CUser (TP t))) E0.
Proof.
  intros HP Hpc Hfw.
  change (J (set_ctl (put_p s t x) (CUser (TP t))) E0).
  apply T_put_p; auto. unfold okp. rewrite Hfw, Hpc.
  repeat split; try congruence; try tauto.
  - intros [?|[? ?]]; destruct (p_pc x); simpl in *; congruence.
  - destruct (p_pc x); simpl in *; congruence.
Qed.

(** *** spawners *)
Lemma T_put_m s t x c :
  Pre s (TM t) -> okm c t False x -> (c = CIdle \/ c = CUser (TM t)) ->
  J (set_ctl (put_m s t x) c) E0.
Proof.
  intros (HJ & Hnr & Hr & Hc) Hok Hc'. simpl in Hr.
  apply J_close with (r := TM t).
  - apply J_set_ctl.
    + apply J_put_m; auto.
    + intros q Hq. apply ctl_swap with (r := TM t); auto.
    + unfold put_m; cbn. rewrite upd_length.
      destruct Hc' as [->| ->]; simpl; auto.
  - simpl. intros y Hy.
    change (get_m (set_ctl (put_m s t x) c) t) with (get_m (put_m s t x) t) in Hy.
    rewrite get_m_put_m_eq in Hy by auto. injection Hy as <-.
    eapply okm_iff; [|exact Hok]. cbn. tauto.
Qed.

Lemma T_sched_m s t x :
  Pre s (TM t) -> okm CIdle t True x ->
  J (set_ctl (sched (put_m s t x) (HT (TM t))) CIdle) E0.
Proof.
  intros (HJ & Hnr & Hr & Hc) Hok. simpl in Hr.
  apply J_close with (r := TM t).
  - apply J_set_ctl.
    + apply J_sched.
      * apply J_put_m; auto.
      * simpl. unfold put_m; cbn. rewrite upd_length; auto.
      * intros r [= <-]; auto.
    + intros q Hq. rewrite ctl_sched. apply ctl_swap with (r := TM t); auto.
    + simpl; auto.
  - simpl. intros y Hy.
    change (get_m (set_ctl (sched (put_m s t x) (HT (TM t))) CIdle) t)
      with (get_m (sched (put_m s t x) (HT (TM t))) t) in Hy.
    rewrite get_m_sched, get_m_put_m_eq in Hy by auto. injection Hy as <-.
    eapply okm_iff; [|exact Hok]. cbn. rewrite ready_sched_In. tauto.
Qed.

Lemma J_finish_m s t x e : Pre s (TM t) -> J (finish_m s t x e) E0.
Proof.
  intros (HJ & Hnr & Hr & Hc). simpl in Hr. unfold finish_m.
  apply J_close with (r := TM t).
  - apply J_set_ctl.
    + apply J_sched_cbs. apply J_put_m; auto.
    + intros q Hq. rewrite ctl_sched_cbs. apply ctl_swap with (r := TM t); auto.
    + simpl; auto.
  - simpl. intros y Hy. unfold get_m in Hy. cbn [mtasks set_ctl] in Hy.
    rewrite mtasks_sched_cbs in Hy. fold (get_m (put_m s t
      (set_m_final (set_m_pc (set_m_mc (set_m_fw x None) false) MDone)
         (Some (final_of e (m_mc x))))) t) in Hy.
    rewrite get_m_put_m_eq in Hy by auto. injection Hy as <-.
    cbn [ctl ready set_ctl]. eapply okm_iff; [symmetry; apply ready_sched_cbs_HT|].
    unfold okm; cbn. repeat split; try congruence; try tauto.
    + intros [?|[[?|?] ?]]; discriminate.
    + intros [?|?]; discriminate.
Qed.

Lemma J_suspend_m s t x pc :
  Pre s (TM t) -> m_final x = None -> (pc = MWaitPool \/ pc = MWaitMap) ->
  J (suspend_m s t x pc) E0.
Proof.
  intros HP Hfin Hpc. unfold suspend_m. destruct (m_mc x).
  - apply T_sched_m; auto. unfold okm; cbn. rewrite Hfin.
    repeat split; try congruence; try tauto.
    + intros _. right. split; congruence.
    + destruct Hpc; congruence.
    + destruct Hpc; congruence.
    + destruct Hpc; congruence.
  - apply T_put_m; auto. unfold okm; cbn. rewrite Hfin.
    repeat split; try congruence; try tauto.
    + intros [?|[? ?]]; [destruct Hpc; congruence|congruence].
    + destruct Hpc; congruence.
    + destruct Hpc; congruence.
    + destruct Hpc; congruence.
Qed.

Lemma J_to_iter s m :
  Pre s (TM m) -> (forall x, get_m s m = Some x -> m_fw x = None /\ m_final x = None) ->
  J (to_iter s m) E0.
Proof.
  intros HP Hst. unfold to_iter.
  destruct (get_m s m) as [x|] eqn:Hx.
  - destruct (Hst x eq_refl) as [Hfw Hfin].
    change (J (set_ctl (put_m s m (set_m_pc x MAtIter)) (CUser (TM m))) E0).
    apply T_put_m; auto. unfold okm; cbn. rewrite Hfw, Hfin.
    repeat split; try congruence; try tauto.
    + intros [?|[[?|?] ?]]; discriminate.
    + intros [?|?]; discriminate.
  - destruct HP as (_ & _ & Hr & _). simpl in Hr.
    apply lt_get_m in Hr. destruct Hr as [x Hx']. congruence.
Qed.

(** *** drivers *)
Lemma T_put_d s t x :
  Pre s (TD t) -> okd False x -> J (set_ctl (put_d s t x) CIdle) E0.
Proof.
  intros (HJ & Hnr & Hr & Hc) Hok. simpl in Hr.
  apply J_close with (r := TD t).
  - apply J_set_ctl.
    + apply J_put_d; auto.
    + intros q Hq. apply ctl_swap with (r := TD t); auto.
    + simpl; auto.
  - simpl. intros y Hy.
    change (get_d (set_ctl (put_d s t x) CIdle) t) with (get_d (put_d s t x) t) in Hy.
    rewrite get_d_put_d_eq in Hy by auto. injection Hy as <-.
    eapply okd_iff; [|exact Hok]. cbn. tauto.
Qed.

Lemma J_finish_d s t x e : Pre s (TD t) -> J (finish_d s t x e) E0.
Proof.
  intros HP. unfold finish_d.
  match goal with |- J (set_ctl (emit (put_d s t ?y) _) CIdle) E0 =>
    change (J (set_ctl (put_d s t y) CIdle) E0) end.
  apply T_put_d; auto. unfold okd, dwaiting; cbn.
  repeat split; try congruence; try tauto.
  - intros [?|[[?|[?|?]] ?]]; discriminate.
Qed.

Lemma J_wait_d s t x pc :
  Pre s (TD t) -> d_final x = None -> (pc = DWaitG1 \/ pc = DWaitG2 \/ pc = DWaitClosed) ->
  J (set_ctl (put_d s t (set_d_fw (set_d_pc x pc) (Some FPending))) CIdle) E0.
Proof.
  intros HP Hfin Hpc. apply T_put_d; auto. unfold okd, dwaiting; cbn. rewrite Hfin.
  repeat split; try congruence; try tauto.
  - intros [?|[? ?]]; [|congruence]. destruct Hpc as [?|[?|?]]; congruence.
  - destruct Hpc as [?|[?|?]]; congruence.
Qed.

(** ** Pre is stable under transformers touching other tasks *)
Lemma Pre_put_exempt_m s m x : Pre s (TM m) -> Pre (put_m s m x) (TM m).
Proof.
  intros (HJ & Hnr & Hr & Hc). split; [|split; [|split]]; auto.
  - apply J_put_m; auto.
  - simpl in *. unfold put_m; cbn. rewrite upd_length; auto.
Qed.

Lemma tref_range_put_m s m x r : tref_range (put_m s m x) r <-> tref_range s r.
Proof. destruct r; simpl; unfold put_m; cbn; try rewrite upd_length; tauto. Qed.
Lemma tref_range_put_d s m x r : tref_range (put_d s m x) r <-> tref_range s r.
Proof. destruct r; simpl; unfold put_d; cbn; try rewrite upd_length; tauto. Qed.
Lemma tref_range_sched s h r : tref_range (sched s h) r <-> tref_range s r.
Proof.
  destruct r; simpl; rewrite ?ptasks_sched, ?mtasks_sched, ?dtasks_sched; tauto.
Qed.

Lemma Pre_put_m_same s r m x x' :
  Pre s r -> get_m s m = Some x -> m_pc x' = m_pc x -> m_fw x' = m_fw x ->
  m_final x' = m_final x -> Pre (put_m s m x') r.
Proof.
  intros (HJ & Hnr & Hr & Hc) Hx H1 H2 H3. split; [|split; [|split]]; auto.
  - eapply J_put_m_same; eauto.
  - apply tref_range_put_m; auto.
Qed.

Lemma Pre_put_d_same s r m x x' :
  Pre s r -> get_d s m = Some x -> d_pc x' = d_pc x -> d_fw x' = d_fw x ->
  d_final x' = d_final x -> Pre (put_d s m x') r.
Proof.
  intros (HJ & Hnr & Hr & Hc) Hx H1 H2 H3. split; [|split; [|split]]; auto.
  - eapply J_put_d_same; eauto.
  - apply tref_range_put_d; auto.
Qed.

Lemma Pre_wake_m s r m x x' f :
  Pre s r -> r <> TM m -> get_m s m = Some x -> m_fw x = Some FPending ->
  m_pc x' = m_pc x -> m_fw x' = Some f -> m_final x' = m_final x -> f <> FPending ->
  Pre (sched (put_m s m x') (HT (TM m))) r.
Proof.
  intros (HJ & Hnr & Hr & Hc) Hne Hx H0 H1 H2 H3 Hf. split; [|split; [|split]].
  - eapply J_wake_m; eauto.
  - rewrite ready_sched_In. intros [Heq|Hin]; [congruence|]. apply Hnr. exact Hin.
  - apply tref_range_sched, tref_range_put_m; auto.
  - rewrite ctl_sched. exact Hc.
Qed.

Lemma Pre_wake_d s r m x x' f :
  Pre s r -> r <> TD m -> get_d s m = Some x -> d_fw x = Some FPending ->
  d_pc x' = d_pc x -> d_fw x' = Some f -> d_final x' = d_final x -> f <> FPending ->
  Pre (sched (put_d s m x') (HT (TD m))) r.
Proof.
  intros (HJ & Hnr & Hr & Hc) Hne Hx H0 H1 H2 H3 Hf. split; [|split; [|split]].
  - eapply J_wake_d; eauto.
  - rewrite ready_sched_In. intros [Heq|Hin]; [congruence|]. apply Hnr. exact Hin.
  - apply tref_range_sched, tref_range_put_d; auto.
  - rewrite ctl_sched. exact Hc.
Qed.

(** ** wake_next / sem_release / map_release *)
Lemma first_pending_Some s l m :
  first_pending s l = Some m -> exists x, get_m s m = Some x /\ m_fw x = Some FPending.
Proof.
  induction l as [|a l IH]; simpl; [discriminate|].
  destruct (fut_pending (m_fw_of s a)) eqn:Hp; auto.
  intros [= <-]. unfold m_fw_of in Hp. destruct (get_m s a) as [x|]; [|discriminate].
  exists x. split; auto. destruct (m_fw x) as [[| | |]|]; simpl in Hp; congruence.
Qed.

Lemma wake_next_shape s :
  wake_next s = s \/
  exists m x, get_m s m = Some x /\ m_fw x = Some FPending /\
    wake_next s = sched (put_m (set_sem_value s (ninf_pred (sem_value s))) m
                               (set_m_fw x (Some FOk))) (HT (TM m)).
Proof.
  unfold wake_next. destruct (first_pending s (sem_waiters s)) as [m|] eqn:Hf; auto.
  apply first_pending_Some in Hf. destruct Hf as (x & Hx & Hfw). rewrite Hx.
  right. exists m, x. auto.
Qed.

Lemma J_wake_next s E : J s E -> J (wake_next s) E.
Proof.
  intros H. destruct (wake_next_shape s) as [->|(m & x & Hx & Hfw & ->)]; auto.
  eapply J_wake_m with (x := x) (f := FOk); eauto; try reflexivity. congruence.
Qed.

Lemma Pre_wake_next s r :
  Pre s r -> (forall m x, r = TM m -> get_m s m = Some x -> m_fw x <> Some FPending) ->
  Pre (wake_next s) r.
Proof.
  intros H Hs. destruct (wake_next_shape s) as [->|(m & x & Hx & Hfw & ->)]; auto.
  eapply Pre_wake_m with (x := x) (f := FOk); eauto; try reflexivity; try congruence.
  intros ->. eapply Hs; eauto.
Qed.

Lemma J_sem_release s E : J s E -> J (sem_release s) E.
Proof. intros H. unfold sem_release. apply J_wake_next. exact H. Qed.

Lemma Pre_sem_release s r :
  Pre s r -> (forall m x, r = TM m -> get_m s m = Some x -> m_fw x <> Some FPending) ->
  Pre (sem_release s) r.
Proof. intros H Hs. unfold sem_release. apply Pre_wake_next; auto. Qed.

Lemma J_map_release s E m : J s E -> J (map_release s m) E.
Proof.
  intros H. unfold map_release. destruct (get_m s m) as [x|] eqn:Hx; auto.
  destruct (m_pc x) eqn:Hpc;
    try (eapply J_put_m_same; eauto; reflexivity).
  destruct (m_fw x) as [[| | |]|] eqn:Hfw;
    try (eapply J_put_m_same; eauto; reflexivity).
  eapply J_wake_m with (x := x) (f := FOk); eauto; try reflexivity. congruence.
Qed.

Lemma Pre_map_release s r m : Pre s r -> r <> TM m -> Pre (map_release s m) r.
Proof.
  intros H Hne. unfold map_release. destruct (get_m s m) as [x|] eqn:Hx; auto.
  destruct (m_pc x) eqn:Hpc;
    try (eapply Pre_put_m_same; eauto; reflexivity).
  destruct (m_fw x) as [[| | |]|] eqn:Hfw;
    try (eapply Pre_put_m_same; eauto; reflexivity).
  eapply Pre_wake_m with (x := x) (f := FOk); eauto; try reflexivity. congruence.
Qed.

(** ** Appending a task *)
Lemma hrange_mono np nm nd np' nm' nd' h :
  np <= np' -> nm <= nm' -> nd <= nd' -> hrange np nm nd h -> hrange np' nm' nd' h.
Proof. destruct h as [[?|?|?]|? ?]; simpl; lia. Qed.

Lemma c_ok_mono np nm np' nm' c : np <= np' -> nm <= nm' -> c_ok np nm c -> c_ok np' nm' c.
Proof. destruct c as [|[?|?|?]]; simpl; auto; lia. Qed.

Lemma nth_error_snoc {A} (l : list A) a n x :
  nth_error (l ++ [a]) n = Some x -> n <> length l -> nth_error l n = Some x.
Proof.
  intros H Hn. destruct (Nat.lt_ge_cases n (length l)) as [Hlt|Hge].
  - rewrite nth_error_app1 in H; auto.
  - rewrite nth_error_app2 in H by lia.
    destruct (n - length l) as [|k] eqn:Hk; [lia|].
    simpl in H. destruct k; discriminate.
Qed.

Lemma nth_error_snoc_eq {A} (l : list A) a : nth_error (l ++ [a]) (length l) = Some a.
Proof. rewrite nth_error_app2 by lia. rewrite Nat.sub_diag. reflexivity. Qed.

Lemma J5_app_p rd ps ms ds c E pt :
  J5 rd ps ms ds c E -> J5 rd (ps ++ [pt]) ms ds c (fun q => E q \/ q = TP (length ps)).
Proof.
  intros [Hnd Hrg Hp Hm Hd Hc]. constructor.
  - exact Hnd.
  - intros h Hh. eapply hrange_mono; [| | |apply Hrg; exact Hh]; auto.
    all: try (rewrite app_length; lia).
  - intros t x Hx Hne. apply Hp; [|tauto]. eapply nth_error_snoc; [exact Hx|intros ->; tauto].
  - intros t x Hx Hne. apply Hm; tauto.
  - intros t x Hx Hne. apply Hd; tauto.
  - eapply c_ok_mono; [| |exact Hc]; auto; try (rewrite app_length; lia).
Qed.

Lemma J5_app_m rd ps ms ds c E pt :
  J5 rd ps ms ds c E -> J5 rd ps (ms ++ [pt]) ds c (fun q => E q \/ q = TM (length ms)).
Proof.
  intros [Hnd Hrg Hp Hm Hd Hc]. constructor.
  - exact Hnd.
  - intros h Hh. eapply hrange_mono; [| | |apply Hrg; exact Hh]; auto.
    all: try (rewrite app_length; lia).
  - intros t x Hx Hne. apply Hp; tauto.
  - intros t x Hx Hne. apply Hm; [|tauto]. eapply nth_error_snoc; [exact Hx|intros ->; tauto].
  - intros t x Hx Hne. apply Hd; tauto.
  - eapply c_ok_mono; [| |exact Hc]; auto; try (rewrite app_length; lia).
Qed.

Lemma J5_app_d rd ps ms ds c E pt :
  J5 rd ps ms ds c E -> J5 rd ps ms (ds ++ [pt]) c (fun q => E q \/ q = TD (length ds)).
Proof.
  intros [Hnd Hrg Hp Hm Hd Hc]. constructor.
  - exact Hnd.
  - intros h Hh. eapply hrange_mono; [| | |apply Hrg; exact Hh]; auto.
    all: try (rewrite app_length; lia).
  - intros t x Hx Hne. apply Hp; tauto.
  - intros t x Hx Hne. apply Hm; tauto.
  - intros t x Hx Hne. apply Hd; [|tauto]. eapply nth_error_snoc; [exact Hx|intros ->; tauto].
  - exact Hc.
Qed.

(** ** register *)
Lemma J_register s E m x : J s E -> E (TM m) -> J (register s m x) E.
Proof.
  intros [H Hn] HE. unfold register. apply J_put_m; auto.
  apply J_del with (r := TP (num_started s)).
  - apply J_sched.
    + split; cbn.
      * rewrite Hn. apply J5_app_p. exact H.
      * rewrite app_length. simpl. lia.
    + simpl. rewrite app_length. simpl. lia.
    + intros r [= <-]. auto.
  - intros _ y Hy. rewrite get_p_sched in Hy. unfold get_p in Hy. cbn in Hy.
    rewrite Hn, nth_error_snoc_eq in Hy. injection Hy as <-.
    rewrite ctl_sched. cbn [ctl set_t_running set_ptasks set_num_started set_groups].
    unfold okp; cbn [p_pc p_fw p_waiting p_user]. split; [|split].
    + split; auto. intros _. apply ready_sched_In. auto.
    + split; congruence.
    + split; [discriminate|]. intros Hc. pose proof (J_c H) as Hok.
      rewrite Hc in Hok. simpl in Hok. lia.
Qed.

Lemma Pre_register s m x : Pre s (TM m) -> Pre (register s m x) (TM m).
Proof.
  intros (HJ & Hnr & Hr & Hc). split; [|split; [|split]].
  - apply J_register; auto.
  - unfold register, put_m. cbn [ready set_mtasks]. rewrite ready_sched_In.
    intros [Heq|Hin]; [discriminate|]. apply Hnr. exact Hin.
  - simpl in *. unfold register, put_m. cbn [mtasks set_mtasks]. rewrite upd_length.
    rewrite mtasks_sched. exact Hr.
  - unfold register, put_m. cbn [ctl set_mtasks]. rewrite ctl_sched. exact Hc.
Qed.

Lemma get_m_register s m x :
  m < length (mtasks s) ->
  exists x', get_m (register s m x) m = Some x' /\ m_fw x' = m_fw x /\ m_final x' = m_final x.
Proof.
  intros Hlt. unfold register. eexists. split.
  - apply get_m_put_m_eq. rewrite mtasks_sched. exact Hlt.
  - split; reflexivity.
Qed.
