(** Monitor soundness for C13 (partial): on the model's own observation stream — clean run, no
    self-cancellation from a final segment — the monitor never reports [C13_re_never_raises] or
    [C13_not_forgotten_live]; if it reports a clause of property 13 at all, it is one of the two
    clauses not yet covered here ([C13_forgotten_finished], [C13_inflight_kept]). *)
From TP Require Import PInv PInv_P_base PInv_P PSpec PSpecStep PStep_C_drv PStep_C PMon PRun PWF
  PStep_D PMonSound_trk PMonSound_gen PMonSound_C06 PMonSound_C13_kd PMonSound_C13_mod
  PMonSound_C13_trk.

(* the statement of Thm_C12.C12, re-derived here so that Thm_C12 can itself import the monitor
   soundness files without a dependency cycle *)
Lemma C12 : forall c tr, clean (run c tr) -> C12_spec (run c tr).
Proof. intros c tr Hc. destruct (WFx_run c tr Hc). apply C12_of_WF; assumption. Qed.

Definition allowed13 (cl : clause) : Prop :=
  cl = C13_forgotten_finished \/ cl = C13_inflight_kept.

Definition RR13 (c : config) (s : state) (k : trk) : Prop :=
  (exists tr0, s = run c tr0) /\
  map (fun i => fst (fst i)) (dinfo k) = map d_kind (dtasks s) /\
  prev_rel c s k.

Lemma RR13_init c : RR13 c (init c) (trk_init c).
Proof. split; [exists []; reflexivity|]. split; [reflexivity|left; split; reflexivity]. Qed.

Lemma dnew_kinds k s l :
  let o := obs_of (step s l) l (enabled (set_res (set_evs s []) RNone) l) in
  map (fun i => fst (fst i)) (dnew k o) = drv_kinds l (enabled (set_res (set_evs s []) RNone) l).
Proof.
  cbv zeta. unfold dnew, drv_kinds. cbn [o_enabled o_label obs_of].
  destruct (enabled _ l); cbn [negb]; destruct l as [h| |op]; auto; destruct op; auto.
Qed.

Lemma mon_step_sound13 c s k l :
  RR13 c s k -> clean (step s l) -> taint_self (step s l) = false ->
  let o := obs_of (step s l) l (enabled (set_res (set_evs s []) RNone) l) in
  (forall cl, In cl (fp 13 (snd (mon_step c k o))) -> allowed13 cl) /\
  RR13 c (step s l) (fst (mon_step c k o)).
Proof.
  intros ((tr0 & Hs) & HK & HP) Hc Hts o.
  assert (Hcs : clean s) by (eapply clean_step_inv'; eauto).
  assert (X : WFx s) by (rewrite Hs; apply WFx_run; rewrite <- Hs; exact Hcs).
  pose proof (x_wf _ X) as W. pose proof (x_p _ X) as EP.
  assert (Hrun : step s l = run c (tr0 ++ [l])) by (rewrite run_snoc, Hs; reflexivity).
  destruct (mon_step_13 c k o) as (Hf & (D1 & D2 & D3) & Hv1 & Hd' & _ & Hp' & _).
  cbv zeta in *. change (o_events o) with (evs (step s l)) in *.
  pose proof (on_events_d3 (evs (step s l)) (fst (on_label c k o)) o) as Hd3.
  assert (Hdi : dinfo (fst (mon_step c k o)) = dinfo k ++ dnew k o).
  { rewrite Hd'. unfold d3 in Hd3. injection Hd3 as E1 _ _. now rewrite E1, D1. }
  split.
  - intros cl Hin. rewrite Hf in Hin.
    destruct (existsb is_done (evs (step s l))) eqn:Eex.
    + apply existsb_exists in Eex. destruct Eex as (e0 & Hin0 & He0).
      destruct e0 as [| | | | | | |d oc0]; try discriminate.
      destruct (step_driver_done s l d oc0 W EP Hin0) as (-> & x & x0' & Hx & _).
      assert (Hall : forall e, In e (evs (step s (LRun (HT (TD d))))) -> is_done e = true).
      { intros e He. destruct (step_driver_events s d e W EP He) as (o' & ->). reflexivity. }
      destruct (on_events_13_done _ (fst (on_label c k o)) o Hall) as (Hcl & _).
      rewrite Hcl in Hin. unfold dcls13 in Hin. apply in_flat_map in Hin.
      destruct Hin as (e & He & Hin). destruct (step_driver_events s d e W EP He) as (oc & ->).
      destruct (step_driver_done s _ d oc W EP He) as (_ & x1 & x' & Hx1 & Hx' & Hfin & Hkind).
      assert (x1 = x) by congruence. subst x1.
      assert (Hnew : dnew k o = []).
      { unfold dnew. destruct (negb (o_enabled o)); reflexivity. }
      rewrite D1, Hnew, app_nil_r, D2, D3 in Hin.
      unfold dcl13 in Hin.
      destruct (nth_error (dinfo k) d) as [[[kd q] ne]|] eqn:En; [|destruct Hin].
      assert (Hkd : kd = d_kind x).
      { assert (E : nth_error (map (fun i => fst (fst i)) (dinfo k)) d = Some kd)
          by (rewrite nth_error_map, En; reflexivity).
        rewrite HK, nth_error_map in E. unfold get_d in Hx. rewrite Hx in E. simpl in E. congruence. }
      destruct kd as [re| |]; try (destruct Hin).
      apply in_app_iff in Hin. destruct Hin as [Hin|Hin].
      * (* re never raises *)
        exfalso. apply In_fails in Hin. destruct Hin as [Hb _].
        apply orb_false_iff in Hb. destruct Hb as [Hre Hoc]. apply negb_false_iff in Hre. subst re.
        pose proof (C12 c (tr0 ++ [LRun (HT (TD d))])) as HC12. rewrite <- Hrun in HC12.
        specialize (HC12 Hc).
        destruct (c12_driver_outcome _ HC12 Hts d x' oc Hx' Hfin) as [->|(e & -> & _ & Hn & _)].
        -- discriminate Hoc.
        -- apply Hn. congruence.
      * destruct oc; try (destruct Hin).
        assert (Hfl : t_running (step s (LRun (HT (TD d)))) = t_running s /\
                      t_cancelled (step s (LRun (HT (TD d)))) = t_cancelled s).
        { destruct (flush_done s (LRun (HT (TD d))) d x re W EP) as (a & b & _); auto.
          intros Hpc. pose proof (x_cdrv _ X d x Hx Hpc) as Hk'. congruence. }
        destruct Hfl as [Hr Hcn].
        destruct HP as [[_ ->]|(lp & enp & Hp)].
        { unfold get_d in Hx. cbn in Hx. destruct d; discriminate. }
        rewrite Hp in Hin. cbn [o_nr o_nc o_ne obs_of] in Hin.
        apply in_app_iff in Hin. destruct Hin as [Hin|Hin].
        -- exfalso. apply In_fails in Hin. destruct Hin as [Hb _].
           unfold o in Hb. cbn [o_nr o_nc obs_of] in Hb. rewrite Hr, Hcn, !Nat.eqb_refl in Hb.
           discriminate.
        -- apply in_app_iff in Hin. destruct Hin as [Hin|Hin]; apply In_fails in Hin;
             destruct Hin as [_ ->]; [left|right]; reflexivity.
    + assert (Hnone : forall e, In e (evs (step s l)) -> is_done e = false).
      { intros e He. destruct (is_done e) eqn:Ed; auto.
        assert (existsb is_done (evs (step s l)) = true) by (apply existsb_exists; eauto).
        congruence. }
      destruct (on_events_13_none _ (fst (on_label c k o)) o Hnone) as (Hcl & _).
      rewrite Hcl in Hin. destruct Hin.
  - split; [exists (tr0 ++ [l]); exact Hrun|]. split.
    + rewrite Hdi, map_app, HK, KD_step. f_equal. apply dnew_kinds.
    + right. eexists. eexists. exact Hp'.
Qed.

Lemma mon_run_sound13 c : forall tr s k i,
  RR13 c s k -> clean (fold_left step tr s) -> taint_self (fold_left step tr s) = false ->
  allowed_run c 13 allowed13 k i (observe_from s tr).
Proof.
  induction tr as [|l tr IH]; intros s k i HR Hc Ht j cl; simpl; [discriminate|].
  simpl in Hc, Ht.
  assert (Hc1 : clean (step s l)) by (eapply clean_fold_inv; eauto).
  assert (Ht1 : taint_self (step s l) = false)
    by (eapply (taint_fold_inv taint_self taint_self_step_inv'); eauto).
  destruct (mon_step_sound13 c s k l HR Hc1 Ht1) as [Hf HR'].
  cbv zeta in Hf, HR'.
  destruct (mon_step c k _) as [k' cs]. simpl in Hf, HR'. unfold fp in Hf.
  destruct (filter _ cs) as [|cl0 r] eqn:Ef.
  - apply IH; auto.
  - intros [= <- <-]. apply Hf. left. reflexivity.
Qed.

(** if the monitor reports a violated clause of C13 on a clean, untainted model run, it is one
    of the two clauses not covered yet *)
Theorem mon_C13_sound_partial : forall c tr,
  clean (run c tr) -> taint_self (run c tr) = false ->
  forall j cl, mon_run c 13 (trk_init c) 0 (observe c tr) = Some (j, cl) -> allowed13 cl.
Proof.
  intros c tr Hc Ht. apply (mon_run_sound13 c tr (init c) (trk_init c) 0); auto.
  apply RR13_init.
Qed.

