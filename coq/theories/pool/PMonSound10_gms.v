(** [GMx] (PMonSound10_gmdef.v) holds in every state reachable by a clean run; and where an
    [EvStart] of a step comes from. *)
From TP Require Import PInv_Q PRun PWF.
From TP Require Import PMonSound10_gmdef PMonSound10_gmm PMonSound10_gmp PMonSound10_gmo.

Lemma is_ready_In10 s h : is_ready s h = true -> In h (ready s).
Proof.
  unfold is_ready. intros H. apply existsb_exists in H. destruct H as (h' & Hin & He).
  destruct (PInv_G_Base.hid_eqb_spec h h'); [subst; exact Hin|discriminate].
Qed.

Theorem GMx_step s l : WF s -> GMx s -> GMx (step s l).
Proof.
  intros W G. unfold step. pose proof (eqf_reset s) as He.
  set (sa := set_res (set_evs s []) RNone) in *.
  assert (Ga : GMx sa) by (eapply GMx_same; [exact G|reflexivity ..]).
  destruct (negb (enabled sa l)) eqn:Hen; [exact Ga|]. apply negb_false_iff in Hen.
  destruct l as [h| |o].
  - pose proof (eqf_unsched h He) as Hb. set (sb := unsched sa h) in *.
    assert (Gb : GMx sb) by (eapply GMx_same; [exact G|apply Hb ..]).
    destruct h as [[t|m|d]|d c]; cbn [run_handle].
    + apply (GMx_run_p s sb t W Hb Gb).
    + apply GMx_run_m. exact Gb.
    + eapply GMx_same; [exact Gb|autorewrite with fr; reflexivity ..].
    + eapply GMx_same; [exact Gb|autorewrite with fr; reflexivity ..].
  - change (ctl sa) with (ctl s).
    destruct (ctl s) as [|[t|m|d]] eqn:Hctl; auto.
    + apply (GMx_continue_p s sa t W He Ga).
    + apply GMx_continue_m. exact Ga.
  - apply GMx_do_op; [|exact Ga].
    intros t x Hx Hpc. change (get_p s t = Some x) in Hx. change (In t (t_running s)).
    apply (I2_run _ (wf2 _ W) t x Hx). rewrite Hpc. reflexivity.
Qed.

Theorem GMx_run c tr : clean (run c tr) -> GMx (run c tr).
Proof.
  induction tr as [|l tr IH] using rev_ind; intros Hc.
  - apply GMx_init.
  - rewrite run_snoc in *.
    assert (Hc0 : clean (run c tr)) by (eapply clean_step_inv'; eauto).
    apply GMx_step; auto. apply WF_run. exact Hc0.
Qed.

Print Assumptions GMx_run.
