(** Layer I5 — base calculus: the invariant restated over the projections it depends on ([J]),
    with a set [E] of exempted tasks (the task that is currently executing), and the basic
    transformer lemmas (sched / unsched / put / append / set_ctl). *)
From TP Require Import PInv.

(** ** Decidable equalities *)
Lemma tref_eqb_spec a b : reflect (a = b) (tref_eqb a b).
Proof.
  destruct a as [x|x|x], b as [y|y|y]; simpl; try (constructor; congruence);
    destruct (Nat.eqb_spec x y); constructor; congruence.
Qed.

Lemma hid_eqb_spec a b : reflect (a = b) (hid_eqb a b).
Proof.
  destruct a as [r|d c], b as [r'|d' c']; simpl; try (constructor; congruence).
  - destruct (tref_eqb_spec r r'); constructor; congruence.
  - destruct (Nat.eqb_spec d d'); simpl; [|constructor; congruence].
    destruct (tref_eqb_spec c c'); constructor; congruence.
Qed.

Lemma tref_eq_dec (a b : tref) : a = b \/ a <> b.
Proof. destruct (tref_eqb_spec a b); auto. Qed.

Lemma hid_eq_dec (a b : hid) : a = b \/ a <> b.
Proof. destruct (hid_eqb_spec a b); auto. Qed.

(** ** sched / unsched *)
Lemma is_ready_In s h : is_ready s h = true <-> In h (ready s).
Proof.
  unfold is_ready. rewrite existsb_exists. split.
  - intros [x [Hin Heq]]. destruct (hid_eqb_spec h x); congruence.
  - intros H. exists h. split; auto. destruct (hid_eqb_spec h h); congruence.
Qed.

Lemma is_ready_false s h : is_ready s h = false <-> ~ In h (ready s).
Proof. rewrite <- is_ready_In. destruct (is_ready s h); split; congruence. Qed.

Lemma sched_cases s h :
  (In h (ready s) /\ sched s h = s) \/
  (~ In h (ready s) /\ sched s h = set_ready s (ready s ++ [h])).
Proof.
  unfold sched. destruct (is_ready s h) eqn:Hr.
  - left. split; auto. apply is_ready_In; auto.
  - right. split; auto. apply is_ready_false; auto.
Qed.

Lemma ready_sched_In s k h : In h (ready (sched s k)) <-> h = k \/ In h (ready s).
Proof.
  destruct (sched_cases s k) as [[Hin ->]|[Hnin ->]]; cbn.
  - intuition (subst; auto).
  - rewrite in_app_iff. simpl. intuition.
Qed.

Lemma NoDup_snoc {A} (l : list A) a : NoDup l -> ~ In a l -> NoDup (l ++ [a]).
Proof.
  induction 1 as [|h t Hnin Hnd IH]; simpl; intros Ha.
  - constructor; auto. constructor.
  - constructor.
    + rewrite in_app_iff. simpl. intuition.
    + apply IH. intuition.
Qed.

Lemma ready_sched_nodup s k : NoDup (ready s) -> NoDup (ready (sched s k)).
Proof.
  intros H. destruct (sched_cases s k) as [[Hin ->]|[Hnin ->]]; cbn; auto.
  apply NoDup_snoc; auto.
Qed.

Lemma ready_unsched_In s k h : In h (ready (unsched s k)) <-> h <> k /\ In h (ready s).
Proof.
  unfold unsched; cbn. rewrite filter_In.
  destruct (hid_eqb_spec k h); simpl; intuition congruence.
Qed.

Lemma ready_unsched_nodup s k : NoDup (ready s) -> NoDup (ready (unsched s k)).
Proof. intros H. unfold unsched; cbn. apply NoDup_filter; auto. Qed.

(** [sched] changes nothing but [ready] *)
Lemma ptasks_sched s h : ptasks (sched s h) = ptasks s.
Proof. unfold sched; destruct (is_ready s h); reflexivity. Qed.
Lemma mtasks_sched s h : mtasks (sched s h) = mtasks s.
Proof. unfold sched; destruct (is_ready s h); reflexivity. Qed.
Lemma dtasks_sched s h : dtasks (sched s h) = dtasks s.
Proof. unfold sched; destruct (is_ready s h); reflexivity. Qed.
Lemma ctl_sched s h : ctl (sched s h) = ctl s.
Proof. unfold sched; destruct (is_ready s h); reflexivity. Qed.
Lemma num_started_sched s h : num_started (sched s h) = num_started s.
Proof. unfold sched; destruct (is_ready s h); reflexivity. Qed.
Lemma get_p_sched s h t : get_p (sched s h) t = get_p s t.
Proof. unfold get_p. rewrite ptasks_sched; auto. Qed.
Lemma get_m_sched s h t : get_m (sched s h) t = get_m s t.
Proof. unfold get_m. rewrite mtasks_sched; auto. Qed.
Lemma get_d_sched s h t : get_d (sched s h) t = get_d s t.
Proof. unfold get_d. rewrite dtasks_sched; auto. Qed.

(** ** The per-task clauses *)
Definition okp (c : control) (t : nat) (b : Prop) (x : ptask) : Prop :=
  (b <-> (p_pc x = PCreated \/ (p_waiting (p_pc x) = true /\ p_fw x <> Some FPending))) /\
  (p_waiting (p_pc x) = true <-> p_fw x <> None) /\
  (p_user (p_pc x) = true <-> c = CUser (TP t)).

Definition okm (c : control) (m : nat) (b : Prop) (x : mtask) : Prop :=
  (b <-> (m_pc x = MNotStarted \/
          ((m_pc x = MWaitPool \/ m_pc x = MWaitMap) /\ m_fw x <> Some FPending))) /\
  ((m_pc x = MWaitPool \/ m_pc x = MWaitMap) <-> m_fw x <> None) /\
  (m_pc x = MAtIter <-> c = CUser (TM m)) /\
  m_pc x <> MLoopHead /\
  (m_final x <> None <-> m_pc x = MDone).

Definition dwaiting (x : dtask) : Prop :=
  d_pc x = DWaitG1 \/ d_pc x = DWaitG2 \/ d_pc x = DWaitClosed.

Definition okd (b : Prop) (x : dtask) : Prop :=
  (b <-> (d_pc x = DNotStarted \/ (dwaiting x /\ d_fw x <> Some FPending))) /\
  (d_final x <> None <-> d_pc x = DDone) /\
  (d_fw x = Some FPending -> dwaiting x).

Definition hrange (np nm nd : nat) (h : hid) : Prop :=
  match h with
  | HT (TP t) => t < np
  | HT (TM m) => m < nm
  | HT (TD d) => d < nd
  | HG d _ => d < nd
  end.

Definition c_ok (np nm : nat) (c : control) : Prop :=
  match c with
  | CIdle => True
  | CUser (TP t) => t < np
  | CUser (TM m) => m < nm
  | CUser (TD _) => False
  end.

Record J5 (rd : list hid) (ps : list ptask) (ms : list mtask) (ds : list dtask) (c : control)
          (E : tref -> Prop) : Prop := {
  J_nodup : NoDup rd;
  J_range : forall h, In h rd -> hrange (length ps) (length ms) (length ds) h;
  J_p : forall t x, nth_error ps t = Some x -> ~ E (TP t) -> okp c t (In (HT (TP t)) rd) x;
  J_m : forall m x, nth_error ms m = Some x -> ~ E (TM m) -> okm c m (In (HT (TM m)) rd) x;
  J_d : forall d x, nth_error ds d = Some x -> ~ E (TD d) -> okd (In (HT (TD d)) rd) x;
  J_c : c_ok (length ps) (length ms) c
}.

Arguments J_nodup {rd ps ms ds c E}.
Arguments J_range {rd ps ms ds c E}.
Arguments J_p {rd ps ms ds c E}.
Arguments J_m {rd ps ms ds c E}.
Arguments J_d {rd ps ms ds c E}.
Arguments J_c {rd ps ms ds c E}.

Definition J (s : state) (E : tref -> Prop) : Prop :=
  J5 (ready s) (ptasks s) (mtasks s) (dtasks s) (ctl s) E /\
  num_started s = length (ptasks s).

Definition E0 : tref -> Prop := fun _ => False.
Definition E1 (r : tref) : tref -> Prop := fun q => q = r.

Definition Extra_R (s : state) : Prop :=
  forall d x, get_d s d = Some x -> d_fw x = Some FPending -> dwaiting x.

(** ** J <-> I5 *)
Lemma J_of_I5 s : I5 s -> Extra_R s -> num_started s = length (ptasks s) -> J s E0.
Proof.
  intros H HX Hn. split; auto. destruct H as [I5_nodup0 I5_range0 I5_p0 I5_pfw0 I5_puser0 I5_m0 I5_mfw0 I5_muser0 I5_mpc0 I5_mfinal0 I5_d0 I5_dfinal0 I5_ctl_d0 I5_ctl_p0 I5_ctl_m0]. constructor; auto.
  - intros t x Hx _. unfold okp.
    split; [apply (I5_p0 t x Hx)|split; [apply (I5_pfw0 t x Hx)|apply (I5_puser0 t x Hx)]].
  - intros m x Hx _. unfold okm.
    split; [apply (I5_m0 m x Hx)|split; [apply (I5_mfw0 m x Hx)|split; [apply (I5_muser0 m x Hx)|
    split; [apply (I5_mpc0 m x Hx)|apply (I5_mfinal0 m x Hx)]]]].
  - intros d x Hx _. unfold okd.
    split; [apply (I5_d0 d x Hx)|split; [apply (I5_dfinal0 d x Hx)|apply (HX d x Hx)]].
  - unfold c_ok. destruct (ctl s) as [|[t|m|d]] eqn:Hc; auto.
    exfalso. eapply I5_ctl_d0; eauto.
Qed.

Lemma I5_of_J s : J s E0 -> I5 s.
Proof.
  intros [H _]. destruct H as [J_nodup0 J_range0 J_p0 J_m0 J_d0 J_c0]. unfold E0 in *.
  constructor; auto.
  - intros t x Hx. apply (J_p0 t x Hx); auto.
  - intros t x Hx. apply (J_p0 t x Hx); auto.
  - intros t x Hx. apply (J_p0 t x Hx); auto.
  - intros t x Hx. apply (J_m0 t x Hx); auto.
  - intros t x Hx. apply (J_m0 t x Hx); auto.
  - intros t x Hx. apply (J_m0 t x Hx); auto.
  - intros t x Hx. apply (J_m0 t x Hx); auto.
  - intros t x Hx. apply (J_m0 t x Hx); auto.
  - intros t x Hx. apply (J_d0 t x Hx); auto.
  - intros t x Hx. apply (J_d0 t x Hx); auto.
  - intros d Hc. rewrite Hc in J_c0. exact J_c0.
  - intros t Hc. rewrite Hc in J_c0. exact J_c0.
  - intros t Hc. rewrite Hc in J_c0. exact J_c0.
Qed.

Lemma Extra_of_J s : J s E0 -> Extra_R s.
Proof.
  intros [H _] d x Hx. apply (J_d H d x Hx). unfold E0; auto.
Qed.

(** ** ok-clauses: congruence lemmas *)
Lemma okp_iff c t b b' x : (b <-> b') -> okp c t b x -> okp c t b' x.
Proof. unfold okp. tauto. Qed.
Lemma okm_iff c t b b' x : (b <-> b') -> okm c t b x -> okm c t b' x.
Proof. unfold okm. intros Hb (H1 & H2). split; auto. rewrite <- Hb; auto. Qed.
Lemma okd_iff b b' x : (b <-> b') -> okd b x -> okd b' x.
Proof. unfold okd. tauto. Qed.

Lemma okp_same c t b x x' : p_pc x' = p_pc x -> p_fw x' = p_fw x -> okp c t b x -> okp c t b x'.
Proof. unfold okp. intros -> ->. auto. Qed.
Lemma okm_same c t b x x' :
  m_pc x' = m_pc x -> m_fw x' = m_fw x -> m_final x' = m_final x -> okm c t b x -> okm c t b x'.
Proof. unfold okm. intros -> -> ->. auto. Qed.
Lemma okd_same b x x' :
  d_pc x' = d_pc x -> d_fw x' = d_fw x -> d_final x' = d_final x -> okd b x -> okd b x'.
Proof. unfold okd, dwaiting. intros -> -> ->. auto. Qed.

Lemma okp_ctl c c' t b x :
  (c = CUser (TP t) <-> c' = CUser (TP t)) -> okp c t b x -> okp c' t b x.
Proof. unfold okp. tauto. Qed.
Lemma okm_ctl c c' t b x :
  (c = CUser (TM t) <-> c' = CUser (TM t)) -> okm c t b x -> okm c' t b x.
Proof.
  unfold okm. intros Hc (H1 & H2 & H3 & H4). split; auto. split; auto. split; auto.
  rewrite <- Hc. auto.
Qed.

(** ** Basic calculus *)
Lemma J_mono s (E E' : tref -> Prop) : (forall q, E q -> E' q) -> J s E -> J s E'.
Proof.
  intros HE [H Hn]. split; auto. destruct H as [J_nodup0 J_range0 J_p0 J_m0 J_d0 J_c0]. constructor; auto.
Qed.

Definition ok_at (s : state) (r : tref) : Prop :=
  match r with
  | TP t => forall x, get_p s t = Some x -> okp (ctl s) t (In (HT (TP t)) (ready s)) x
  | TM m => forall x, get_m s m = Some x -> okm (ctl s) m (In (HT (TM m)) (ready s)) x
  | TD d => forall x, get_d s d = Some x -> okd (In (HT (TD d)) (ready s)) x
  end.

Lemma J_del s (E : tref -> Prop) r :
  J s (fun q => E q \/ q = r) -> (~ E r -> ok_at s r) -> J s E.
Proof.
  intros [H Hn] Hok. split; auto. destruct H as [J_nodup0 J_range0 J_p0 J_m0 J_d0 J_c0]. constructor; auto.
  - intros t x Hx Hne. destruct (tref_eq_dec (TP t) r) as [<-|Hd].
    + apply (Hok Hne); auto.
    + apply J_p0; auto. intros [?|?]; auto.
  - intros t x Hx Hne. destruct (tref_eq_dec (TM t) r) as [<-|Hd].
    + apply (Hok Hne); auto.
    + apply J_m0; auto. intros [?|?]; auto.
  - intros t x Hx Hne. destruct (tref_eq_dec (TD t) r) as [<-|Hd].
    + apply (Hok Hne); auto.
    + apply J_d0; auto. intros [?|?]; auto.
Qed.

Lemma J_add s (E : tref -> Prop) r : J s E -> J s (fun q => E q \/ q = r).
Proof. apply J_mono. auto. Qed.

Lemma J_close s r : J s (E1 r) -> ok_at s r -> J s E0.
Proof.
  intros H Hok. apply J_del with (r := r); auto.
  eapply J_mono; [|exact H]. unfold E1. auto.
Qed.

Lemma J_ok_at s E r : J s E -> ~ E r -> ok_at s r.
Proof.
  intros [H _] HE. destruct r; simpl; intros x Hx.
  - apply (J_p H _ _ Hx HE).
  - apply (J_m H _ _ Hx HE).
  - apply (J_d H _ _ Hx HE).
Qed.
Arguments J_ok_at {s E} r.

Lemma J_sched s E h :
  J s E -> hid_in_range s h -> (forall r, h = HT r -> E r) -> J (sched s h) E.
Proof.
  intros [H Hn] Hr HE. unfold J.
  rewrite ptasks_sched, mtasks_sched, dtasks_sched, ctl_sched, num_started_sched.
  split; auto. destruct H as [J_nodup0 J_range0 J_p0 J_m0 J_d0 J_c0]. constructor; auto.
  - apply ready_sched_nodup; auto.
  - intros k Hk. apply ready_sched_In in Hk. destruct Hk as [->|Hk]; auto.
  - intros t x Hx Hne. eapply okp_iff; [|apply (J_p0 t x Hx Hne)].
    rewrite ready_sched_In. split; auto. intros [Heq|?]; auto.
    exfalso. apply Hne, HE. auto.
  - intros t x Hx Hne. eapply okm_iff; [|apply (J_m0 t x Hx Hne)].
    rewrite ready_sched_In. split; auto. intros [Heq|?]; auto.
    exfalso. apply Hne, HE. auto.
  - intros t x Hx Hne. eapply okd_iff; [|apply (J_d0 t x Hx Hne)].
    rewrite ready_sched_In. split; auto. intros [Heq|?]; auto.
    exfalso. apply Hne, HE. auto.
Qed.

Lemma J_unsched s E h :
  J s E -> (forall r, h = HT r -> E r) -> J (unsched s h) E.
Proof.
  intros [H Hn] HE. unfold J.
  change (ptasks (unsched s h)) with (ptasks s).
  change (mtasks (unsched s h)) with (mtasks s).
  change (dtasks (unsched s h)) with (dtasks s).
  change (ctl (unsched s h)) with (ctl s).
  change (num_started (unsched s h)) with (num_started s).
  split; auto. destruct H as [J_nodup0 J_range0 J_p0 J_m0 J_d0 J_c0]. constructor; auto.
  - apply ready_unsched_nodup; auto.
  - intros k Hk. apply ready_unsched_In in Hk. apply J_range0; tauto.
  - intros t x Hx Hne. eapply okp_iff; [|apply (J_p0 t x Hx Hne)].
    rewrite ready_unsched_In. split; [|tauto]. intros Hin. split; auto.
  - intros t x Hx Hne. eapply okm_iff; [|apply (J_m0 t x Hx Hne)].
    rewrite ready_unsched_In. split; [|tauto]. intros Hin. split; auto.
  - intros t x Hx Hne. eapply okd_iff; [|apply (J_d0 t x Hx Hne)].
    rewrite ready_unsched_In. split; [|tauto]. intros Hin. split; auto.
Qed.

Lemma J_put_p s E t x : J s E -> E (TP t) -> J (put_p s t x) E.
Proof.
  intros [H Hn] HE. unfold J, put_p; cbn. rewrite upd_length.
  split; auto. destruct H as [J_nodup0 J_range0 J_p0 J_m0 J_d0 J_c0]. constructor; auto; try rewrite upd_length; auto.
  intros t' x' Hx' Hne. apply J_p0; auto.
  rewrite nth_error_upd_neq in Hx'; auto. intros ->; auto.
Qed.

Lemma J_put_m s E t x : J s E -> E (TM t) -> J (put_m s t x) E.
Proof.
  intros [H Hn] HE. unfold J, put_m; cbn.
  split; auto. destruct H as [J_nodup0 J_range0 J_p0 J_m0 J_d0 J_c0]. constructor; auto; try rewrite upd_length; auto.
  intros t' x' Hx' Hne. apply J_m0; auto.
  rewrite nth_error_upd_neq in Hx'; auto. intros ->; auto.
Qed.

Lemma J_put_d s E t x : J s E -> E (TD t) -> J (put_d s t x) E.
Proof.
  intros [H Hn] HE. unfold J, put_d; cbn.
  split; auto. destruct H as [J_nodup0 J_range0 J_p0 J_m0 J_d0 J_c0]. constructor; auto; try rewrite upd_length; auto.
  intros t' x' Hx' Hne. apply J_d0; auto.
  rewrite nth_error_upd_neq in Hx'; auto. intros ->; auto.
Qed.

Lemma J_set_ctl s E c' :
  J s E ->
  (forall q, ~ E q -> (ctl s = CUser q <-> c' = CUser q)) ->
  c_ok (length (ptasks s)) (length (mtasks s)) c' ->
  J (set_ctl s c') E.
Proof.
  intros [H Hn] Hc Hok. unfold J; cbn. split; auto. destruct H as [J_nodup0 J_range0 J_p0 J_m0 J_d0 J_c0]. constructor; auto.
  - intros t x Hx Hne. eapply okp_ctl; [|apply (J_p0 t x Hx Hne)]. auto.
  - intros t x Hx Hne. eapply okm_ctl; [|apply (J_m0 t x Hx Hne)]. auto.
Qed.

(** get after put *)
Lemma get_p_put_p_eq s t x : t < length (ptasks s) -> get_p (put_p s t x) t = Some x.
Proof. intros. unfold get_p, put_p; cbn. apply nth_error_upd_eq; auto. Qed.
Lemma get_m_put_m_eq s t x : t < length (mtasks s) -> get_m (put_m s t x) t = Some x.
Proof. intros. unfold get_m, put_m; cbn. apply nth_error_upd_eq; auto. Qed.
Lemma get_d_put_d_eq s t x : t < length (dtasks s) -> get_d (put_d s t x) t = Some x.
Proof. intros. unfold get_d, put_d; cbn. apply nth_error_upd_eq; auto. Qed.
Lemma get_p_put_p_neq s t u x : t <> u -> get_p (put_p s t x) u = get_p s u.
Proof. intros. unfold get_p, put_p; cbn. apply nth_error_upd_neq; auto. Qed.
Lemma get_m_put_m_neq s t u x : t <> u -> get_m (put_m s t x) u = get_m s u.
Proof. intros. unfold get_m, put_m; cbn. apply nth_error_upd_neq; auto. Qed.
Lemma get_d_put_d_neq s t u x : t <> u -> get_d (put_d s t x) u = get_d s u.
Proof. intros. unfold get_d, put_d; cbn. apply nth_error_upd_neq; auto. Qed.

Lemma get_p_lt s t x : get_p s t = Some x -> t < length (ptasks s).
Proof. intros H. apply nth_error_Some. unfold get_p in H. congruence. Qed.
Lemma get_m_lt s t x : get_m s t = Some x -> t < length (mtasks s).
Proof. intros H. apply nth_error_Some. unfold get_m in H. congruence. Qed.
Lemma get_d_lt s t x : get_d s t = Some x -> t < length (dtasks s).
Proof. intros H. apply nth_error_Some. unfold get_d in H. congruence. Qed.
Lemma lt_get_p s t : t < length (ptasks s) -> exists x, get_p s t = Some x.
Proof.
  intros H. unfold get_p. destruct (nth_error (ptasks s) t) eqn:Hn; eauto.
  apply nth_error_None in Hn. lia.
Qed.
Lemma lt_get_m s t : t < length (mtasks s) -> exists x, get_m s t = Some x.
Proof.
  intros H. unfold get_m. destruct (nth_error (mtasks s) t) eqn:Hn; eauto.
  apply nth_error_None in Hn. lia.
Qed.
Lemma lt_get_d s t : t < length (dtasks s) -> exists x, get_d s t = Some x.
Proof.
  intros H. unfold get_d. destruct (nth_error (dtasks s) t) eqn:Hn; eauto.
  apply nth_error_None in Hn. lia.
Qed.

(** ** Neutral puts: the new record agrees with the old one on the fields I5 looks at *)
Lemma J_put_p_same s E t x x' :
  J s E -> get_p s t = Some x -> p_pc x' = p_pc x -> p_fw x' = p_fw x -> J (put_p s t x') E.
Proof.
  intros H Hx Hpc Hfw. apply J_del with (r := TP t).
  - apply J_put_p; auto. apply J_add; auto.
  - intros HE y Hy. rewrite get_p_put_p_eq in Hy by (eapply get_p_lt; eauto).
    injection Hy as <-. eapply okp_same; eauto.
    apply (J_ok_at (TP t) H HE); auto.
Qed.

Lemma J_put_m_same s E t x x' :
  J s E -> get_m s t = Some x -> m_pc x' = m_pc x -> m_fw x' = m_fw x ->
  m_final x' = m_final x -> J (put_m s t x') E.
Proof.
  intros H Hx Hpc Hfw Hfin. apply J_del with (r := TM t).
  - apply J_put_m; auto. apply J_add; auto.
  - intros HE y Hy. rewrite get_m_put_m_eq in Hy by (eapply get_m_lt; eauto).
    injection Hy as <-. eapply okm_same; eauto.
    apply (J_ok_at (TM t) H HE); auto.
Qed.

Lemma J_put_d_same s E t x x' :
  J s E -> get_d s t = Some x -> d_pc x' = d_pc x -> d_fw x' = d_fw x ->
  d_final x' = d_final x -> J (put_d s t x') E.
Proof.
  intros H Hx Hpc Hfw Hfin. apply J_del with (r := TD t).
  - apply J_put_d; auto. apply J_add; auto.
  - intros HE y Hy. rewrite get_d_put_d_eq in Hy by (eapply get_d_lt; eauto).
    injection Hy as <-. eapply okd_same; eauto.
    apply (J_ok_at (TD t) H HE); auto.
Qed.

(** ** Wake-ups: a Pending future gets a result and the task is scheduled *)
Lemma J_wake_p s E t x x' f :
  J s E -> get_p s t = Some x -> p_fw x = Some FPending ->
  p_pc x' = p_pc x -> p_fw x' = Some f -> f <> FPending ->
  J (sched (put_p s t x') (HT (TP t))) E.
Proof.
  intros H Hx Hfw Hpc Hfw' Hf. pose proof (get_p_lt _ _ _ Hx) as Hlt.
  apply J_del with (r := TP t).
  - apply J_sched.
    + apply J_put_p; auto. apply J_add; auto.
    + simpl. unfold put_p; cbn. rewrite upd_length; auto.
    + intros r [= <-]. auto.
  - intros HE y Hy. rewrite get_p_sched, get_p_put_p_eq in Hy by auto.
    injection Hy as <-. rewrite ctl_sched.
    change (ctl (put_p s t x')) with (ctl s).
    pose proof (J_ok_at (TP t) H HE _ Hx) as (H1 & H2 & H3).
    unfold okp. rewrite Hpc, Hfw'. split; [|split].
    + split; [intros _; right; split; [apply H2; congruence|congruence]
             |intros _; apply ready_sched_In; auto].
    + split; [congruence|intros _; apply H2; congruence].
    + exact H3.
Qed.

Lemma J_wake_m s E t x x' f :
  J s E -> get_m s t = Some x -> m_fw x = Some FPending ->
  m_pc x' = m_pc x -> m_fw x' = Some f -> m_final x' = m_final x -> f <> FPending ->
  J (sched (put_m s t x') (HT (TM t))) E.
Proof.
  intros H Hx Hfw Hpc Hfw' Hfin Hf. pose proof (get_m_lt _ _ _ Hx) as Hlt.
  apply J_del with (r := TM t).
  - apply J_sched.
    + apply J_put_m; auto. apply J_add; auto.
    + simpl. unfold put_m; cbn. rewrite upd_length; auto.
    + intros r [= <-]. auto.
  - intros HE y Hy. rewrite get_m_sched, get_m_put_m_eq in Hy by auto.
    injection Hy as <-. rewrite ctl_sched.
    change (ctl (put_m s t x')) with (ctl s).
    pose proof (J_ok_at (TM t) H HE _ Hx) as (H1 & H2 & H3 & H4 & H5).
    unfold okm. rewrite Hpc, Hfw', Hfin. split; [|split; [|split; [|split]]]; auto.
    + split; [intros _; right; split; [apply H2; congruence|congruence]
             |intros _; apply ready_sched_In; auto].
    + split; [congruence|intros _; apply H2; congruence].
Qed.

Lemma J_wake_d s E t x x' f :
  J s E -> get_d s t = Some x -> d_fw x = Some FPending ->
  d_pc x' = d_pc x -> d_fw x' = Some f -> d_final x' = d_final x -> f <> FPending ->
  J (sched (put_d s t x') (HT (TD t))) E.
Proof.
  intros H Hx Hfw Hpc Hfw' Hfin Hf. pose proof (get_d_lt _ _ _ Hx) as Hlt.
  apply J_del with (r := TD t).
  - apply J_sched.
    + apply J_put_d; auto. apply J_add; auto.
    + simpl. unfold put_d; cbn. rewrite upd_length; auto.
    + intros r [= <-]. auto.
  - intros HE y Hy. rewrite get_d_sched, get_d_put_d_eq in Hy by auto.
    injection Hy as <-.
    pose proof (J_ok_at (TD t) H HE _ Hx) as (H1 & H2 & H3).
    unfold okd, dwaiting in *. rewrite Hpc, Hfw', Hfin.
    split; [|split; [exact H2|intros Hq; congruence]].
    split; [intros _; right; split; [apply H3; congruence|congruence]
           |intros _; apply ready_sched_In; auto].
Qed.
