(** M1 — the properties C01..C15 stated about states of the pool model (definitions only).
    Each [Cxx_spec] is what the property says at one instant; [Cxx] (Thm_Cxx.v) is
    "for every label sequence, [Cxx_spec (run cfg tr)]" under the stated preconditions, obtained
    from the inductive invariant [WF] (PInv.v).  The monitors of PMon.v check the same facts on
    observation streams of the implementation. *)
From TP Require Export PInv.

(** ** Common notions *)
(** the worker coroutine of the task has begun and not yet finished *)
Definition worker_live (x : ptask) : bool :=
  match p_pc x with PUStart | PWaitGate | PUResume | PUCancelled => true | _ => false end.

Definition live_workers (s : state) : nat := count worker_live (ptasks s).

Definition in_callbacks (x : ptask) : bool := cancel_pc (p_pc x) || endcb_pc (p_pc x).

(** the loop is idle (nothing ready, control with the environment) and no task is in the middle
    of its callbacks *)
Definition quiet (s : state) : Prop :=
  ctl s = CIdle /\ ready s = [] /\
  forall t x, get_p s t = Some x -> in_callbacks x = false.

(** a woken semaphore waiter holds a slot it has not used yet *)
Definition no_woken_waiter (s : state) : Prop :=
  forall m, In m (sem_waiters s) -> m_fw_of s m <> Some FOk.

(** ** C01 — pool size is never exceeded *)
Record C01_spec (s : state) : Prop := {
  c01_running : ninf_geb (cf_size (cfg s)) (length (t_running s)) = true;
  c01_live : ninf_geb (cf_size (cfg s)) (live_workers s) = true;
  c01_inf : cf_size (cfg s) = Inf -> sem_locked s = false;
  c01_full_iff : quiet s ->
                 (sem_locked s = true <-> cf_size (cfg s) = Fin (length (t_running s)))
}.

(** ** C02 — no task and no capacity is ever lost *)
Record C02_spec (s : state) : Prop := {
  (* whenever the loop goes idle the slots in use equal the tasks genuinely in flight: every task
     filed as running is a started worker waiting on its (pending) gate, nothing is filed as
     cancelled, and the free count is the capacity minus exactly those tasks *)
  c02_inflight : quiet s -> forall t, In t (t_running s) ->
                 exists x, get_p s t = Some x /\ p_pc x = PWaitGate /\ p_fw x = Some FPending;
  c02_none_cancelled : quiet s -> t_cancelled s = [];
  c02_slots : quiet s ->
              match sem_value s, cap s with
              | Fin v, Fin c => c = v + length (t_running s)
              | Inf, Inf => True
              | _, _ => False
              end;
  (* every task is accounted for: its slot is handed back exactly once and its end callback
     fires exactly once, however it ended; a finished task is no longer filed as running *)
  c02_release_once : forall t x, get_p s t = Some x ->
                     p_nrel x <= 1 /\
                     (p_pc x = PDone -> p_nrel x = 1 /\ p_necb x = has_cb (p_ecb x));
  c02_left_running : forall t x, get_p s t = Some x -> p_pc x = PDone ->
                     ~ In t (t_running s) /\ ~ In t (t_cancelled s);
  (* once all work is finished the pool can again run [size] tasks at once *)
  c02_capacity : taint_size s = false -> t_running s = [] -> t_cancelled s = [] ->
                 no_woken_waiter s -> sem_value s = cf_size (cfg s)
}.

(** ** C03 — task lifecycle and callbacks are exact and ordered (the per-instant part; the
    transition part is [C03_transitions] in PSpecStep.v) *)
Record C03_spec (s : state) : Prop := {
  c03_partition : NoDup (regs s);
  c03_total : length (t_running s) + length (t_cancelled s) + length (t_ended s)
              + n_forgotten s = num_started s;
  c03_unfinished_filed : forall t x, get_p s t = Some x -> p_pc x <> PDone -> In t (regs s);
  (* each callback at most once, and exactly once by the time the task is done; cancel callback
     strictly before the end callback; slot released before the end callback *)
  c03_counts : forall t x, get_p s t = Some x -> counts_ok x;
  (* while the cancel callback runs the task counts as cancelled; while the end callback runs it
     counts as ended *)
  c03_class_cancel : forall t x, get_p s t = Some x -> cancel_pc (p_pc x) = true ->
                     classify s t = ClCancelled;
  c03_class_end : forall t x, get_p s t = Some x -> endcb_pc (p_pc x) = true ->
                  classify s t = ClEnded;
  (* callbacks are run to completion: no cancellation reaches a task inside its callbacks
     (unless a worker cancelled itself from its final segment, open finding D11) *)
  c03_cb_complete : taint_self s = false ->
                    forall t x, get_p s t = Some x -> not_cancelled_late x
}.

(** ** C04 — apply/start run exactly the requested invocations (per request [m]) *)
Definition is_apply_kind (y : mtask) : bool := negb (is_map y).

(** one task per invocation index below [num] whose call does not raise *)
Definition expected_created (y : mtask) : nat := ngood (m_bad y) (m_num y).

Record C04_spec (s : state) : Prop := {
  c04_at_most : forall m y, get_m s m = Some y -> is_apply_kind y = true ->
                tasks_of s m <= expected_created y;
  (* every invocation is its own task, with the request's function behaviour and callbacks, a
     distinct invocation index below num *)
  c04_args : forall t x, get_p s t = Some x ->
             exists y, get_m s (p_req x) = Some y /\ task_matches_req x y;
  c04_distinct : forall t u x y, get_p s t = Some x -> get_p s u = Some y ->
                 p_req x = p_req y -> p_el x = p_el y -> t = u;
  (* a request whose spawner ended normally, and whose group was not cancelled, is complete *)
  c04_complete : taint_iter s = false ->
                 forall m y, get_m s m = Some y -> is_apply_kind y = true ->
                 m_final y = Some OResult -> m_dead y = false ->
                 tasks_of s m = expected_created y;
  (* it never ends any other way: not by an exception (in particular not PoolIsLocked /
     PoolIsClosed after lock() / gather_and_close()), and cancelled only with its group *)
  c04_no_exception : forall m y e, get_m s m = Some y -> m_final y <> Some (OExc e);
  c04_cancel_only_group : taint_iter s = false ->
                 forall m y, get_m s m = Some y -> m_final y = Some OCancelled -> m_dead y = true;
  (* at a quiet idle point an unfinished request (group not cancelled) is blocked for room *)
  c04_blocked_for_room : quiet s ->
                 forall m y, get_m s m = Some y -> is_apply_kind y = true ->
                 m_final y = None -> m_dead y = false ->
                 m_pc y = MWaitPool /\ m_fw y = Some FPending /\ sem_locked s = true;
  (* in the group whose name was returned *)
  c04_group : forall t x y, get_p s t = Some x -> get_m s (p_req x) = Some y ->
              m_dead y = false ->
              exists ids, glookup (m_group y) (groups s) = Some ids /\ In t ids
}.

(** ** C05 — map family: element-wise, ordered, bounded, lazy *)
Definition live_of (s : state) (m : nat) : nat :=
  count (fun x => Nat.eqb (p_req x) m && worker_live x) (ptasks s).

(** number of elements pulled from the iterator so far *)
Definition pulled (y : mtask) : nat :=
  match m_pc y with
  | MAtIter | MWaitMap => S (m_idx y)
  | MWaitPool => S (m_idx y)
  | _ => m_idx y
  end.

Record C05_spec (s : state) : Prop := {
  (* each task of the call was made from one non-bad element of the iterable, at most one task
     per element, with that element's behaviour *)
  c05_elem : forall t x y, get_p s t = Some x -> get_m s (p_req x) = Some y -> is_map y = true ->
             exists e, nth_error (m_els y) (p_el x) = Some e /\ e_bad e = false /\ p_w x = e_w e;
  c05_once : forall t u x y, get_p s t = Some x -> get_p s u = Some y ->
             p_req x = p_req y -> p_el x = p_el y -> t = u;
  (* in iteration order, nothing skipped or repeated: the elements consumed so far are exactly
     the first [m_idx], of which the bad ones were skipped and every other one became a task *)
  c05_prefix : forall m y, get_m s m = Some y -> is_map y = true ->
               m_idx y <= length (m_els y) /\
               tasks_of s m + count e_bad (firstn (m_idx y) (m_els y)) = m_idx y;
  (* lazy: at most one element beyond those turned into tasks or skipped *)
  c05_lazy : forall m y, get_m s m = Some y -> is_map y = true ->
             pulled y <= S (tasks_of s m + count e_bad (firstn (m_idx y) (m_els y)));
  (* never more than num_concurrent tasks of the call running at once *)
  c05_bound : forall m y, get_m s m = Some y -> is_map y = true -> live_of s m <= m_nc y;
  (* work-conserving: at a quiet idle point, a call that still has elements to turn into tasks
     (its consumer has not finished; group not cancelled) and is not held up by a full pool has
     exactly num_concurrent tasks running *)
  c05_work_conserving : quiet s ->
             forall m y, get_m s m = Some y -> is_map y = true ->
             m_final y = None -> m_dead y = false -> sem_locked s = false ->
             live_of s m = m_nc y
}.

(** needed for work conservation: a consumer waits for its own concurrency slot only when none is
    free (not part of WF; proved inductive separately) *)
Definition Extra_map (s : state) : Prop :=
  forall m y, get_m s m = Some y -> m_pc y = MWaitMap -> m_mapval y = 0 /\ m_holds y = false.

(** ** C10 — groups partition the tasks *)
Record C10_spec (s : state) : Prop := {
  c10_names_unique : NoDup (map fst (groups s));
  c10_disjoint : NoDup (concat (map snd (groups s)));
  c10_ids_of_group : forall g ids t x, glookup g (groups s) = Some ids -> In t ids ->
                     get_p s t = Some x -> p_group x = g;
  c10_member : forall t x y, get_p s t = Some x -> get_m s (p_req x) = Some y ->
               m_dead y = false ->
               p_group x = m_group y /\
               exists ids, glookup (m_group y) (groups s) = Some ids /\ In t ids
}.

(** ** C11 — task ids are dense, ordered, never reused *)
Record C11_spec (s : state) : Prop := {
  (* the tasks created so far are exactly the ids 0 .. num_started-1, the n-th created has id n-1
     (the id of a task is its index in creation order) *)
  c11_dense : num_started s = length (ptasks s);
  c11_known_ids : forall t, In t (regs s) \/ In t (concat (map snd (groups s))) ->
                  t < num_started s
}.
