(** Helpers for PInv_P: list facts, the "P-view" of a state and frame lemmas. *)
From TP Require Import PInv.
From Coq Require Import Permutation.

(** ** Lists *)
Lemma In_dict_add l t u : In u (dict_add l t) <-> In u l \/ u = t.
Proof.
  unfold dict_add. destruct (mem t l) eqn:E.
  - apply mem_In in E. split; [tauto|]. intros [H| ->]; auto.
  - rewrite in_app_iff. simpl. intuition.
Qed.

Lemma dict_add_notin l t : ~ In t l -> dict_add l t = l ++ [t].
Proof. intros H. unfold dict_add. apply mem_false_In in H. now rewrite H. Qed.

Lemma dict_add_in l t : In t l -> dict_add l t = l.
Proof. intros H. unfold dict_add. apply mem_In in H. now rewrite H. Qed.

Lemma In_remove1_iff t u l : NoDup l -> (In u (remove1 t l) <-> In u l /\ u <> t).
Proof.
  intros ND. split.
  - intros H. split; [eapply In_remove1; eauto|]. intros ->.
    eapply NoDup_remove1_notin; eauto.
  - intros [H1 H2]. apply In_remove1_neq; auto.
Qed.

Lemma Perm_remove1 t l : In t l -> Permutation l (t :: remove1 t l).
Proof.
  induction l as [|h r IH]; simpl; [tauto|].
  destruct (Nat.eqb_spec t h) as [->|Hne]; auto.
  intros [H|H]; [congruence|].
  eapply perm_trans; [apply perm_skip, IH, H|]. apply perm_swap.
Qed.

Lemma NoDup_app_l {A} (a b : list A) : NoDup (a ++ b) -> NoDup a.
Proof.
  induction a; simpl; intros H; [constructor|].
  inversion H; subst. constructor; auto. rewrite in_app_iff in *; tauto.
Qed.

Lemma NoDup_app_r {A} (a b : list A) : NoDup (a ++ b) -> NoDup b.
Proof. induction a; simpl; intros H; auto. inversion H; auto. Qed.

Lemma NoDup_app_disj {A} (a b : list A) x : NoDup (a ++ b) -> In x a -> In x b -> False.
Proof.
  induction a; simpl; intros H Ha Hb; [tauto|].
  inversion H; subst. destruct Ha as [->|Ha]; auto.
  apply H2. rewrite in_app_iff; auto.
Qed.

Lemma NoDup_app_intro {A} (a b : list A) :
  NoDup a -> NoDup b -> (forall x, In x a -> In x b -> False) -> NoDup (a ++ b).
Proof.
  induction a; simpl; intros Ha Hb Hd; auto.
  inversion Ha; subst. constructor.
  - rewrite in_app_iff. intros [H|H]; auto. eapply Hd; eauto.
  - apply IHa; auto. intros; eapply Hd; eauto.
Qed.

Lemma NoDup_filter {A} (f : A -> bool) l : NoDup l -> NoDup (filter f l).
Proof.
  induction 1; simpl; [constructor|]. destruct (f x); auto. constructor; auto.
  rewrite filter_In. tauto.
Qed.

Lemma filter_length_le {A} (f : A -> bool) l : length (filter f l) <= length l.
Proof. induction l; simpl; auto. destruct (f a); simpl; lia. Qed.

Lemma nth_error_snoc {A} (l : list A) x u :
  nth_error (l ++ [x]) u =
  if Nat.ltb u (length l) then nth_error l u
  else if Nat.eqb u (length l) then Some x else None.
Proof.
  destruct (Nat.ltb_spec u (length l)).
  - apply nth_error_app1; auto.
  - rewrite nth_error_app2; auto.
    destruct (Nat.eqb_spec u (length l)) as [->|Hne].
    + now rewrite Nat.sub_diag.
    + destruct (u - length l) as [|k] eqn:E; [lia|]. simpl. now destruct k.
Qed.

(** ** The P-view: the fields the layers I1 / I2 / IH depend on *)
Record pv := mkpv {
  vR : list nat; vC : list nat; vE : list nat; vns : nat; vpts : list ptask; vnf : nat;
  vts : bool; vds : list dtask; vtu : bool }.

Definition pview (s : state) : pv :=
  mkpv (t_running s) (t_cancelled s) (t_ended s) (num_started s) (ptasks s) (n_forgotten s)
       (taint_self s) (dtasks s) (taint_unlock s).

(** the view without the drivers and the unlock taint *)
Definition vcore (v : pv) : pv := mkpv (vR v) (vC v) (vE v) (vns v) (vpts v) (vnf v) (vts v) [] false.
Definition pcore (s : state) : pv := vcore (pview s).

Lemma pcore_of_pview s s' : pview s' = pview s -> pcore s' = pcore s.
Proof. unfold pcore. now intros ->. Qed.

Lemma pcore_inv s s' : pcore s' = pcore s ->
  t_running s' = t_running s /\ t_cancelled s' = t_cancelled s /\ t_ended s' = t_ended s /\
  num_started s' = num_started s /\ ptasks s' = ptasks s /\ n_forgotten s' = n_forgotten s /\
  taint_self s' = taint_self s.
Proof. unfold pcore, vcore, pview. cbn. intros H. injection H. intuition. Qed.

Lemma pv_get_p s s' t : pcore s' = pcore s -> get_p s' t = get_p s t.
Proof.
  intros H. apply pcore_inv in H. destruct H as (_ & _ & _ & _ & H & _).
  unfold get_p. now rewrite H.
Qed.

(** Frame lemmas: functions that leave the P-view alone. *)
Lemma pv_emit s e : pview (emit s e) = pview s.
Proof. reflexivity. Qed.
Lemma pv_sched s h : pview (sched s h) = pview s.
Proof. unfold sched. destruct (is_ready s h); reflexivity. Qed.
Lemma pv_unsched s h : pview (unsched s h) = pview s.
Proof. reflexivity. Qed.
Lemma pv_put_m s m x : pview (put_m s m x) = pview s.
Proof. reflexivity. Qed.
Lemma pc_put_d s d x : pcore (put_d s d x) = pcore s.
Proof. reflexivity. Qed.
Lemma pv_know s g : pview (know s g) = pview s.
Proof. unfold know. destruct (existsb _ _); reflexivity. Qed.
Lemma pv_set_ctl s c : pview (set_ctl s c) = pview s.
Proof. reflexivity. Qed.
Lemma pv_set_res s c : pview (set_res s c) = pview s.
Proof. reflexivity. Qed.
Lemma pv_set_evs s c : pview (set_evs s c) = pview s.
Proof. reflexivity. Qed.
Lemma pv_set_sem_value s c : pview (set_sem_value s c) = pview s.
Proof. reflexivity. Qed.
Lemma pv_set_sem_waiters s c : pview (set_sem_waiters s c) = pview s.
Proof. reflexivity. Qed.
Lemma pv_set_groups s c : pview (set_groups s c) = pview s.
Proof. reflexivity. Qed.
Lemma pv_set_gmeta s c : pview (set_gmeta s c) = pview s.
Proof. reflexivity. Qed.
Lemma pv_set_meta_cancelled s c : pview (set_meta_cancelled s c) = pview s.
Proof. reflexivity. Qed.
Lemma pv_set_mtasks s c : pview (set_mtasks s c) = pview s.
Proof. reflexivity. Qed.
Lemma pc_set_dtasks s c : pcore (set_dtasks s c) = pcore s.
Proof. reflexivity. Qed.
Lemma pv_set_closed_waiters s c : pview (set_closed_waiters s c) = pview s.
Proof. reflexivity. Qed.
Lemma pv_set_closed s c : pview (set_closed s c) = pview s.
Proof. reflexivity. Qed.
Lemma pv_set_locked s c : pview (set_locked s c) = pview s.
Proof. reflexivity. Qed.
Lemma pv_set_taint_iter s c : pview (set_taint_iter s c) = pview s.
Proof. reflexivity. Qed.

Lemma pv_fold {A} (f : state -> A -> state) :
  (forall s a, pview (f s a) = pview s) ->
  forall l s, pview (fold_left f l s) = pview s.
Proof. intros H l. induction l; simpl; intros; auto. now rewrite IHl, H. Qed.

Lemma pv_sched_cbs s r : pview (sched_cbs s r) = pview s.
Proof. unfold sched_cbs. apply pv_fold. apply pv_sched. Qed.

Lemma pv_wake_next s : pview (wake_next s) = pview s.
Proof.
  unfold wake_next. destruct (first_pending _ _); auto. destruct (get_m s n); auto.
  now rewrite pv_sched.
Qed.

Lemma pv_sem_release s : pview (sem_release s) = pview s.
Proof. unfold sem_release. now rewrite pv_wake_next. Qed.

Lemma pv_map_release s m : pview (map_release s m) = pview s.
Proof.
  unfold map_release. destruct (get_m s m); auto.
  destruct (m_pc m0); auto; destruct (m_fw m0) as [[]|]; auto; now rewrite pv_sched.
Qed.

Lemma pv_finish_m s m x e : pview (finish_m s m x e) = pview s.
Proof. unfold finish_m. now rewrite pv_set_ctl, pv_sched_cbs. Qed.

Lemma pc_finish_d s d x e : pcore (finish_d s d x e) = pcore s.
Proof. reflexivity. Qed.

Lemma pv_suspend_m s m x pc : pview (suspend_m s m x pc) = pview s.
Proof. unfold suspend_m. destruct (m_mc x); auto. now rewrite pv_set_ctl, pv_sched. Qed.

Lemma pv_cancel_m s m : pview (cancel_m s m) = pview s.
Proof.
  unfold cancel_m. destruct (get_m s m); auto. destruct (m_final m0); auto.
  destruct (fut_pending _); [rewrite pv_sched|]; rewrite pv_put_m;
    destruct (is_current s (TM m)); reflexivity.
Qed.

Lemma pv_cancel_group_metas s g : pview (cancel_group_metas s g) = pview s.
Proof.
  unfold cancel_group_metas. destruct (glookup _ _); auto.
  rewrite pv_set_meta_cancelled, (pv_fold _ pv_cancel_m). reflexivity.
Qed.

Lemma pv_mark_dead s g : pview (mark_dead s g) = pview s.
Proof. reflexivity. Qed.

Lemma pv_new_meta s x : pview (new_meta s x) = pview s.
Proof. unfold new_meta. now rewrite pv_sched. Qed.

Lemma pc_sched s h : pcore (sched s h) = pcore s.
Proof. apply pcore_of_pview, pv_sched. Qed.

Lemma pc_wake_closed ds : forall s, pcore (wake_closed s ds) = pcore s.
Proof.
  induction ds; simpl; intros; auto. rewrite IHds.
  destruct (get_d s a); auto. destruct (fut_pending _); auto. now rewrite pc_sched.
Qed.

Lemma pv_to_iter s m : pview (to_iter s m) = pview s.
Proof. unfold to_iter. destruct (get_m s m); reflexivity. Qed.

Ltac dmatch :=
  match goal with
  | |- context [match ?x with _ => _ end] => destruct x eqn:?
  | |- context [if ?x then _ else _] => destruct x eqn:?
  end.

Lemma pc_run_g s d c : pcore (run_g s d c) = pcore s.
Proof.
  unfold run_g. repeat (first [reflexivity | rewrite pc_sched | dmatch]).
Qed.
