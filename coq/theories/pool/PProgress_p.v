(** Progress — pool tasks: [run_p] never increases the measure, [continue_p] strictly decreases
    it at every user point. *)
From TP Require Import PInv PInv_P_base.
From TP Require Export PProgress_base.

Unset Implicit Arguments.

(** ** trivial frames *)
Lemma frv_set_ctl s c : frv (set_ctl s c) = frv s. Proof. reflexivity. Qed.
Lemma frv_emit s e : frv (emit s e) = frv s. Proof. reflexivity. Qed.
Lemma frv_put_p s t x : frv (put_p s t x) = frv s. Proof. reflexivity. Qed.
Lemma frv_put_m s t x : frv (put_m s t x) = frv s. Proof. reflexivity. Qed.
Lemma mu_set_ctl D s c : muD D (set_ctl s c) = muD D s. Proof. reflexivity. Qed.
Lemma mu_emit D s e : muD D (emit s e) = muD D s. Proof. reflexivity. Qed.

Ltac frs :=
  repeat first
    [ reflexivity
    | rewrite frv_set_ctl | rewrite frv_emit | rewrite frv_put_p | rewrite frv_put_m
    | rewrite frv_put_d | rewrite frv_sched | rewrite frv_sched_cbs | rewrite frv_sem_release
    | rewrite frv_wake_next | rewrite frv_map_release | rewrite frv_wake_closed
    | dmatch ].

Lemma frv_finish_p s t x : frv (finish_p s t x) = frv s.
Proof. unfold finish_p. frs. Qed.

Lemma frv_suspend_p s t x pc : frv (suspend_p s t x pc) = frv s.
Proof. unfold suspend_p. frs. Qed.

Lemma frv_enter_end s t x : frv (enter_end s t x) = frv s.
Proof. unfold enter_end. cbv zeta beta. frs; rewrite ?frv_finish_p; frs. Qed.

Lemma frv_enter_cancel s t x : frv (enter_cancel s t x) = frv s.
Proof. unfold enter_cancel. cbv zeta. frs; rewrite ?frv_enter_end; frs. Qed.

Lemma frv_continue_p s t : frv (continue_p s t) = frv s.
Proof.
  unfold continue_p.
  repeat first [ reflexivity | rewrite frv_enter_end | rewrite frv_enter_cancel
               | rewrite frv_finish_p | rewrite frv_suspend_p | rewrite frv_emit | dmatch ].
Qed.

Lemma frv_run_p s t : frv (run_p s t) = frv s.
Proof.
  unfold run_p. cbv zeta.
  repeat first [ reflexivity | rewrite frv_enter_end | rewrite frv_enter_cancel
               | rewrite frv_finish_p | rewrite frv_set_ctl | rewrite frv_emit | dmatch ].
Qed.

(** ** the measure *)
Lemma mu_finish_p D s t x xs :
  get_p s t = Some xs -> Dn s <= D -> muD D (finish_p s t x) + phi_p D xs <= muD D s + D.
Proof.
  intros G HD. unfold finish_p.
  set (x' := set_p_final _ _).
  rewrite mu_set_ctl.
  pose proof (mu_sched_cbs D (put_p s t x') (TP t)) as H1.
  assert (H0 : Dn (put_p s t x') = Dn s) by reflexivity.
  pose proof (mu_put_p D s t x' G) as H2.
  assert (H3 : phi_p D x' = 0) by reflexivity.
  lia.
Qed.

Lemma mu_suspend_p D s t x pc xs :
  get_p s t = Some xs ->
  muD D (suspend_p s t x pc) + phi_p D xs <= muD D s + phi_pc D pc + 1.
Proof.
  intros G. unfold suspend_p. destruct (p_mc x); rewrite mu_set_ctl.
  - set (x' := set_p_fw _ _).
    pose proof (mu_sched D (put_p s t x') (HT (TP t))) as H1.
    pose proof (mu_put_p D s t x' G) as H2.
    assert (H3 : phi_p D x' = phi_pc D pc) by reflexivity. lia.
  - set (x' := set_p_fw _ _).
    pose proof (mu_put_p D s t x' G) as H2.
    assert (H3 : phi_p D x' = phi_pc D pc) by reflexivity. lia.
Qed.

Lemma ptasks_sem_release s : ptasks (sem_release s) = ptasks s.
Proof. exact (f_equal vpts (pv_sem_release s)). Qed.

Lemma ptasks_map_release s m : ptasks (map_release s m) = ptasks s.
Proof. exact (f_equal vpts (pv_map_release s m)). Qed.

Lemma mu_moved D s1 t x xs :
  get_p s1 t = Some xs -> Dn s1 <= D ->
  muD D (let s2 := set_t_ended s1 (dict_add (t_ended s1) t) in
         let s3 := sem_release s2 in
         let x := set_p_nrel x (S (p_nrel x)) in
         let s4 := if p_ismap x then map_release s3 (p_req x) else s3 in
         match p_ecb x with
         | CbNone => finish_p s4 t x
         | _ =>
            set_ctl (emit (put_p s4 t (set_p_pc (set_p_necb x (S (p_necb x))) PUEndCb))
                          (EvCbBegin KEnd t (classify s4 t)))
                    (CUser (TP t))
         end) + phi_p D xs <= muD D s1 + (D + 3).
Proof.
  intros G HD. cbv zeta.
  set (s2 := set_t_ended s1 (dict_add (t_ended s1) t)).
  set (s3 := sem_release s2).
  set (x1 := set_p_nrel x (S (p_nrel x))).
  set (s4 := if p_ismap x1 then map_release s3 (p_req x1) else s3).
  assert (M3 : muD D s3 <= muD D s1).
  { pose proof (mu_sem_release D s2). assert (muD D s2 = muD D s1) by reflexivity.
    unfold s3. lia. }
  assert (P3 : ptasks s3 = ptasks s1) by (unfold s3; rewrite ptasks_sem_release; reflexivity).
  assert (F3 : frv s3 = frv s1) by (unfold s3; rewrite frv_sem_release; reflexivity).
  assert (M4 : muD D s4 <= muD D s3).
  { unfold s4. destruct (p_ismap x1); [apply mu_map_release|lia]. }
  assert (P4 : ptasks s4 = ptasks s1).
  { unfold s4. destruct (p_ismap x1); [rewrite ptasks_map_release|]; exact P3. }
  assert (F4 : frv s4 = frv s1).
  { unfold s4. destruct (p_ismap x1); [rewrite frv_map_release|]; exact F3. }
  assert (G4 : get_p s4 t = Some xs) by (unfold get_p; rewrite P4; exact G).
  assert (HD4 : Dn s4 <= D) by (rewrite (frv_Dn _ _ F4); exact HD).
  clearbody s4. clear P3 F3 P4 F4. clearbody s3. clearbody s2.
  destruct (p_ecb x1).
  - pose proof (mu_finish_p D s4 t x1 xs G4 HD4). lia.
  - rewrite mu_set_ctl, mu_emit.
    match goal with |- context [put_p s4 t ?y] =>
      pose proof (mu_put_p D s4 t y G4) as H2;
      assert (H3 : phi_p D y = D + 3) by reflexivity end.
    lia.
  - rewrite mu_set_ctl, mu_emit.
    match goal with |- context [put_p s4 t ?y] =>
      pose proof (mu_put_p D s4 t y G4) as H2;
      assert (H3 : phi_p D y = D + 3) by reflexivity end.
    lia.
Qed.

(** [_task_ending]: whatever the stored record was worth, what is left is worth at most D + 3 *)
Lemma mu_enter_end D s t x xs :
  get_p s t = Some xs -> Dn s <= D ->
  muD D (enter_end s t x) + phi_p D xs <= muD D s + (D + 3).
Proof.
  intros G HD. unfold enter_end.
  destruct (mem t (t_running s)); [|destruct (mem t (t_cancelled s))].
  - apply (mu_moved D (set_t_running s (remove1 t (t_running s))) t x xs G HD).
  - apply (mu_moved D (set_t_cancelled s (remove1 t (t_cancelled s))) t x xs G HD).
  - pose proof (mu_finish_p D s t (set_p_exc x (Some EKeyError)) xs G HD). lia.
Qed.

Lemma mu_enter_cancel D s t x xs :
  get_p s t = Some xs -> Dn s <= D ->
  muD D (enter_cancel s t x) + phi_p D xs <= muD D s + (D + 5).
Proof.
  intros G HD. unfold enter_cancel. destruct (mem t (t_running s)).
  - cbv zeta.
    set (s1 := set_t_cancelled (set_t_running s (remove1 t (t_running s)))
                               (dict_add (t_cancelled s) t)).
    assert (G1 : get_p s1 t = Some xs) by exact G.
    assert (HD1 : Dn s1 <= D) by exact HD.
    assert (M1 : muD D s1 = muD D s) by reflexivity.
    clearbody s1.
    destruct (p_ccb x).
    + pose proof (mu_enter_end D s1 t x xs G1 HD1). lia.
    + rewrite mu_set_ctl, mu_emit.
      match goal with |- context [put_p s1 t ?y] =>
        pose proof (mu_put_p D s1 t y G1) as H2;
        assert (H3 : phi_p D y = D + 5) by reflexivity end.
      lia.
    + rewrite mu_set_ctl, mu_emit.
      match goal with |- context [put_p s1 t ?y] =>
        pose proof (mu_put_p D s1 t y G1) as H2;
        assert (H3 : phi_p D y = D + 5) by reflexivity end.
      lia.
  - pose proof (mu_enter_end D s t (set_p_exc x (Some EKeyError)) xs G HD). lia.
Qed.

(** pose the accounting fact for the call at the head of the goal *)
Ltac ppose D xs G HD :=
  match goal with
  | |- context [enter_end (emit ?s ?e) ?t ?x] =>
      pose proof (mu_enter_end D (emit s e) t x xs G HD); rewrite ?mu_emit in *
  | |- context [enter_end ?s ?t ?x] => pose proof (mu_enter_end D s t x xs G HD)
  | |- context [enter_cancel (emit ?s ?e) ?t ?x] =>
      pose proof (mu_enter_cancel D (emit s e) t x xs G HD); rewrite ?mu_emit in *
  | |- context [enter_cancel ?s ?t ?x] => pose proof (mu_enter_cancel D s t x xs G HD)
  | |- context [finish_p (emit ?s ?e) ?t ?x] =>
      pose proof (mu_finish_p D (emit s e) t x xs G HD); rewrite ?mu_emit in *
  | |- context [finish_p ?s ?t ?x] => pose proof (mu_finish_p D s t x xs G HD)
  | |- context [suspend_p ?s ?t ?x ?pc] => pose proof (mu_suspend_p D s t x pc xs G)
  end.

(** A pool task at a user point: continuing strictly decreases the measure. *)
Lemma mu_continue_p D s t xs :
  get_p s t = Some xs -> p_user (p_pc xs) = true -> Dn s <= D ->
  muD D (continue_p s t) < muD D s.
Proof.
  intros G U HD. unfold continue_p. rewrite G.
  assert (HP : phi_p D xs = phi_pc D (p_pc xs)) by reflexivity.
  destruct (p_pc xs) eqn:Epc; try discriminate; cbn [phi_pc] in HP.
  - destruct (w_first (p_w xs)); ppose D xs G HD; cbn [phi_pc] in *; lia.
  - destruct (p_fin xs); ppose D xs G HD; lia.
  - destruct (w_cancel (p_w xs)); ppose D xs G HD; lia.
  - destruct (p_ccb xs) as [|r|[|] r]; ppose D xs G HD; cbn [phi_pc] in *; lia.
  - destruct (p_ecb xs) as [|r|[|] r]; ppose D xs G HD; cbn [phi_pc] in *; lia.
Qed.

(** Running the ready handle of a pool task never increases the measure. *)
Lemma mu_run_p D s t : Dn s <= D -> muD D (run_p s t) <= muD D s.
Proof.
  intros HD. unfold run_p. destruct (get_p s t) as [x0|] eqn:G; [|lia]. cbv zeta.
  assert (HP : phi_p D x0 = phi_pc D (p_pc x0)) by reflexivity.
  set (x := set_p_mc (set_p_fw x0 None) false).
  destruct (p_pc x0) eqn:Epc; try lia; cbn [phi_pc] in HP.
  - destruct (task_input (p_mc x0) (p_fw x0)).
    + destruct (p_unst x).
      * rewrite mu_set_ctl, mu_emit.
        match goal with |- context [put_p s t ?y] =>
          pose proof (mu_put_p D s t y G) as H2;
          assert (H3 : phi_p D y = D + 8) by reflexivity end. lia.
      * rewrite mu_set_ctl, mu_emit.
        match goal with |- context [put_p s t ?y] =>
          pose proof (mu_put_p D s t y G) as H2;
          assert (H3 : phi_p D y = D + 8) by reflexivity end. lia.
      * ppose D x0 G HD. lia.
    + ppose D x0 G HD. lia.
    + ppose D x0 G HD. lia.
  - destruct (task_input (p_mc x0) (p_fw x0)); rewrite mu_set_ctl, ?mu_emit;
      match goal with |- context [put_p s t ?y] =>
        pose proof (mu_put_p D s t y G) as H2;
        assert (H3 : phi_p D y = D + 6) by reflexivity end; lia.
  - destruct (task_input (p_mc x0) (p_fw x0)); ppose D x0 G HD; lia.
  - destruct (task_input (p_mc x0) (p_fw x0)); ppose D x0 G HD; lia.
Qed.
