(** The proof of Thm_C08.C08_requests_complete, in a file of its own so that both Thm_C08 and the
    monitor-soundness development (PMonSound8_spec) can use it without a dependency cycle. *)
From TP Require Import PSpecStep PRun PWF PStep_D PProps_B PProps_B_inv.

Lemma C08_requests_complete_holds : forall c tr d x re, clean (run c tr) -> taint_iter (run c tr) = false ->
  get_d (run c tr) d = Some x -> d_kind x = DGatherClose re -> d_final x = Some OResult ->
  let s := run c tr in
  regs s = [] /\
  forall m y, get_m s m = Some y -> m_dead y = false ->
    m_final y = Some OResult /\
    match m_kind y with
    | MMap _ => m_idx y = length (m_els y)
    | _ => tasks_of s m = ngood (m_bad y) (m_num y)
    end.
Proof.
  intros c tr d x re Hc Hti Hx Hk Hf s. subst s.
  pose proof (WFx_run c tr Hc) as X. destruct X.
  pose proof (C08_of_WF _ x_wf x_d) as S8.
  pose proof (c08_gac_done _ S8 d x re Hx Hk Hf) as Hclosed.
  split; [exact (c08_closed_empty _ S8 Hclosed)|].
  intros m y Hy Hnd.
  destruct (c08_closed_metas _ S8 Hclosed m y Hy) as [Hfin|Hdead]; [|congruence].
  pose proof (IR_final _ (wfr _ x_wf) m y Hy) as HF. unfold req_final_ok in HF.
  pose proof (IR_progress _ (wfr _ x_wf) m y Hy) as HP. unfold req_progress in HP.
  pose proof (IR_ncreated _ (wfr _ x_wf) m y Hy) as HN.
  destruct (m_final y) as [[|e|]|] eqn:E; try congruence.
  - split; [reflexivity|].
    destruct HF as [HF|[HF|HF]]; try congruence.
    destruct (m_kind y); try exact HF.
    + destruct HP as [_ HP]. rewrite <- HN, HP, HF. reflexivity.
    + destruct HP as [_ HP]. rewrite <- HN, HP, HF. reflexivity.
  - destruct HF.
  - destruct HF as [HF|HF]; congruence.
Qed.
