(** C15 — pool_size reports and enforces the configured maximum when changed.
    The full statement is FALSE of the code (open findings D5, D6): two refutations with concrete
    witness runs (replayed on the implementation by the check), and the part that does hold. *)
From TP Require Import PSpecStep PRun PWF PStep_B_c09 PExamples.

(** D5: the getter returns the semaphore's free count, not the configured maximum. *)
Theorem C15_getter_refuted :
  exists c tr, clean (run c tr) /\ taint_size (run c tr) = false /\ sem_value (run c tr) <> cf_size c.
Proof. exact PStep_B_c09.C15_getter_refuted. Qed.

(** D6: assigning a larger size does not let tasks already waiting for room start. *)
Theorem C15_setter_refuted :
  exists c tr, let s := run c tr in
    clean s /\ quiet s /\ (exists m, In m (sem_waiters s) /\ m_fw_of s m = Some FPending) /\
    (exists v, sem_value s = Fin (S v)) /\ length (t_running s) < 5.
Proof. exact PStep_B_c09.C15_setter_refuted. Qed.

(** What holds: a negative value is rejected and nothing changes; the value read on a pool with
    no slot in use is the configured one; an assignment makes [v] the number of free slots and
    disturbs no task. *)
Theorem C15_partial : forall c tr, clean (run c tr) -> C15_partial_spec (run c tr).
Proof. intros c tr Hc. apply C15_partial_holds. apply WF_run. exact Hc. Qed.

Print Assumptions C15_getter_refuted.
Print Assumptions C15_setter_refuted.
Print Assumptions C15_partial.
