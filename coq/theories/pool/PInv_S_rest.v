(** Layer S — pool tasks (enter_end / enter_cancel), drivers (after_g2 ...), API operations. *)
From TP Require Import PInv PInv_S_base PInv_S_sem.
From Coq Require Import Lia.
Import ListNotations.

(** *** map_release *)
Lemma fx_put_m_same o s0 s m x x0 :
  get_m s m = Some x0 -> m_pc x = m_pc x0 -> m_fw x = m_fw x0 ->
  framex o s0 s -> framex o s0 (put_m s m x).
Proof.
  intros G Hp Hf H; destruct H as [? ? ? ? ? ? ? ? fr_mv0 fr_d0]; constructor; unfold put_m; cbn; auto.
  intros m' Hm. rewrite <- fr_mv0 by auto.
  destruct (Nat.eq_dec m m') as [<-|Hne].
  - change (mview (put_m s m x) m = mview s m). rewrite (mview_put_m_eq s m x x0 G).
    unfold mview. rewrite G. congruence.
  - apply (mview_put_m_neq s m m' x Hne).
Qed.

Lemma J_map_release s m k : J s None k -> J (map_release s m) None k.
Proof.
  intros H. unfold map_release. destruct (get_m s m) as [x|] eqn:G; auto.
  assert (B : J (put_m s m (set_m_mapval x (S (m_mapval x)))) None k).
  { eapply J_frame; [|exact H]. eapply fx_put_m_same; eauto. apply framex_refl. }
  destruct (m_pc x) eqn:P; auto.
  destruct (m_fw x) as [[]|] eqn:F; auto.
  assert (Hn : ~ In m (sem_waiters s)).
  { eapply notin_waiters; eauto. apply H. congruence. }
  jframe. apply J_put_done.
  - apply J_add_ex; auto.
  - cbn. congruence.
  - intros _. cbn. right; left; auto.
Qed.

(** *** enter_end *)
Lemma Jw_unfile_running s t e :
  J s None 0 -> In t (t_running s) ->
  Jw (set_t_ended (set_t_running s (remove1 t (t_running s))) e) None 1.
Proof.
  intros [H W] Hin. constructor; try apply H.
  - pose proof (Jsl H) as Hs. unfold slots_k in *.
    cbn [sem_value cap set_t_ended set_t_running].
    assert (in_use s = S (in_use (set_t_ended (set_t_running s (remove1 t (t_running s))) e))).
    { unfold in_use. cbn [t_running t_cancelled sem_waiters set_t_ended set_t_running].
      rewrite <- (remove1_length_In t (t_running s) Hin).
      change (m_fw_of (set_t_ended (set_t_running s (remove1 t (t_running s))) e))
        with (m_fw_of s). lia. }
    destruct (sem_value s), (cap s); auto. lia.
  - cbn. intros u Hu. apply (Jlt H). eapply In_remove1; eauto.
Qed.

Lemma Jw_unfile_cancelled s t e :
  J s None 0 -> In t (t_cancelled s) ->
  Jw (set_t_ended (set_t_cancelled s (remove1 t (t_cancelled s))) e) None 1.
Proof.
  intros [H W] Hin. constructor; try apply H.
  pose proof (Jsl H) as Hs. unfold slots_k in *.
  cbn [sem_value cap set_t_ended set_t_cancelled].
  assert (in_use s = S (in_use (set_t_ended (set_t_cancelled s (remove1 t (t_cancelled s))) e))).
  { unfold in_use. cbn [t_running t_cancelled sem_waiters set_t_ended set_t_cancelled].
    rewrite <- (remove1_length_In t (t_cancelled s) Hin).
    change (m_fw_of (set_t_ended (set_t_cancelled s (remove1 t (t_cancelled s))) e))
      with (m_fw_of s). lia. }
  destruct (sem_value s), (cap s); auto. lia.
Qed.

Lemma J_enter_end s t x : J s None 0 -> J (enter_end s t x) None 0.
Proof.
  intros H. unfold enter_end. cbv zeta beta.
  destruct (mem t (t_running s)) eqn:M1; [|destruct (mem t (t_cancelled s)) eqn:M2].
  - apply mem_In in M1.
    cbn [p_ismap p_ecb p_req set_p_nrel].
    destruct (p_ecb x); jframe;
      (destruct (p_ismap x); [apply J_map_release|]; apply sem_release_J;
       apply Jw_unfile_running; auto).
  - apply mem_In in M2.
    cbn [p_ismap p_ecb p_req set_p_nrel].
    destruct (p_ecb x); jframe;
      (destruct (p_ismap x); [apply J_map_release|]; apply sem_release_J;
       apply Jw_unfile_cancelled; auto).
  - jframe. auto.
Qed.

(** *** enter_cancel *)
Lemma J_refile s t :
  J s None 0 -> In t (t_running s) -> ~ In t (t_cancelled s) ->
  J (set_t_cancelled (set_t_running s (remove1 t (t_running s))) (dict_add (t_cancelled s) t))
    None 0.
Proof.
  intros [H W] Hin Hnin.
  set (s1 := set_t_cancelled (set_t_running s (remove1 t (t_running s)))
                             (dict_add (t_cancelled s) t)).
  split; [|exact W].
  constructor; try apply H.
  - pose proof (Jsl H) as Hs. unfold slots_k in *.
    change (sem_value s1) with (sem_value s). change (cap s1) with (cap s).
    assert (in_use s1 = in_use s).
    { unfold in_use, s1. cbn [t_running t_cancelled sem_waiters set_t_cancelled set_t_running].
      unfold dict_add. apply mem_false_In in Hnin. rewrite Hnin. rewrite app_length. simpl.
      rewrite <- (remove1_length_In t (t_running s) Hin).
      change (m_fw_of (set_t_cancelled (set_t_running s (remove1 t (t_running s)))
                                       (t_cancelled s ++ [t]))) with (m_fw_of s). lia. }
    rewrite H0. auto.
  - cbn. intros u Hu. apply (Jlt H). eapply In_remove1; eauto.
Qed.

Definition disj (s : state) : Prop := forall t, In t (t_running s) -> ~ In t (t_cancelled s).

Lemma J_enter_cancel s t x : J s None 0 -> disj s -> J (enter_cancel s t x) None 0.
Proof.
  intros H D. unfold enter_cancel. cbv zeta.
  destruct (mem t (t_running s)) eqn:M1.
  - apply mem_In in M1.
    pose proof (J_refile s t H M1 (D t M1)) as H1.
    destruct (p_ccb x); [apply J_enter_end; auto|jframe; auto|jframe; auto].
  - apply J_enter_end; auto.
Qed.

Ltac jp H D :=
  first
    [ exact H
    | apply J_enter_end; jp H D
    | apply J_enter_cancel; [jp H D | exact D]
    | progress jframe; jp H D ].

Lemma J_continue_p s t : J s None 0 -> disj s -> J (continue_p s t) None 0.
Proof.
  intros H D. unfold continue_p. destruct (get_p s t) as [x|]; auto.
  destruct (p_pc x); auto.
  - destruct (w_first (p_w x)); jp H D.
  - destruct (p_fin x); jp H D.
  - destruct (w_cancel (p_w x)); jp H D.
  - destruct (p_ccb x) as [|r|sl r]; [jp H D|jp H D|destruct sl; jp H D].
  - destruct (p_ecb x) as [|r|sl r]; [jp H D|jp H D|destruct sl; jp H D].
Qed.

Lemma J_run_p s t : J s None 0 -> disj s -> J (run_p s t) None 0.
Proof.
  intros H D. unfold run_p. destruct (get_p s t) as [x0|]; auto. cbv zeta.
  destruct (p_pc x0); auto; destruct (task_input (p_mc x0) (p_fw x0)); try (jp H D).
  all: cbn [p_unst set_p_mc set_p_fw]; destruct (p_unst x0); jp H D.
Qed.

(** *** gathers *)
Lemma gather_cb_notpending re n o nfin outer :
  outer <> FPending -> snd (gather_cb re n o nfin outer) = outer.
Proof. unfold gather_cb. destruct outer; simpl; congruence. Qed.

Lemma gather_cb_pending re n o nfin :
  exists out, gather_cb re n o nfin FPending = (S nfin, out) /\
              ((exists e, out = FExc e) \/ out = if Nat.eqb (S nfin) n then FOk else FPending).
Proof.
  unfold gather_cb.
  destruct (if re then None else match o with OCancelled => Some ECancelled | OExc e => Some e
                                             | OResult => None end); eauto.
Qed.

Lemma gather_eager_keep s cs re n : forall nfin outer cbs,
  outer <> FPending -> outer <> FOk ->
  snd (fst (gather_eager s cs re n nfin outer cbs)) <> FOk.
Proof.
  induction cs as [|c t IH]; cbn [gather_eager]; intros nfin outer cbs H1 H2; auto.
  destruct (tref_final s c); [|apply IH; auto].
  destruct (gather_cb re n o nfin outer) as [nf' out'] eqn:E.
  assert (out' = outer).
  { rewrite <- (gather_cb_notpending re n o nfin outer H1). rewrite E. auto. }
  subst. apply IH; auto.
Qed.

Lemma gather_eager_short s cs re n : forall nfin cbs,
  nfin + length cs < n ->
  snd (fst (gather_eager s cs re n nfin FPending cbs)) <> FOk.
Proof.
  induction cs as [|c t IH]; cbn [gather_eager length]; intros nfin cbs Hl; [discriminate|].
  destruct (tref_final s c).
  - destruct (gather_cb_pending re n o nfin) as [out [E [[e ->]| ->]]]; rewrite E.
    + apply gather_eager_keep; discriminate.
    + destruct (Nat.eqb_spec (S nfin) n); [lia|]. apply IH. lia.
  - apply IH. lia.
Qed.

Lemma gather_eager_ok s cs re n : forall nfin cbs,
  nfin + length cs = n ->
  snd (fst (gather_eager s cs re n nfin FPending cbs)) = FOk ->
  forall c, In c cs -> tref_final s c <> None.
Proof.
  induction cs as [|c t IH]; cbn [gather_eager length]; intros nfin cbs Hl Hr c' Hc;
    [inversion Hc|].
  destruct (tref_final s c) eqn:F.
  - destruct (gather_cb_pending re n o nfin) as [out [E [[e ->]| ->]]]; rewrite E in Hr.
    + exfalso. revert Hr. apply gather_eager_keep; discriminate.
    + destruct Hc as [<-|Hc]; [congruence|].
      destruct (Nat.eqb_spec (S nfin) n).
      * assert (length t = 0) by lia. destruct t; [inversion Hc|discriminate].
      * eapply IH; eauto. lia.
  - exfalso. revert Hr. apply gather_eager_short. lia.
Qed.

Lemma make_gather_ok s cs re g :
  make_gather s (map TP cs) re = (g, FOk) -> forall t, In t cs -> tref_done s (TP t) = true.
Proof.
  unfold make_gather. destruct cs as [|c0 cs0]; [intros _ t []|].
  set (cs := c0 :: cs0).
  change (map TP (c0 :: cs0)) with (TP c0 :: map TP cs0).
  change (TP c0 :: map TP cs0) with (map TP cs).
  destruct (gather_eager s (map TP cs) re (length (map TP cs)) 0 FPending []) as [[nf out] cb] eqn:E.
  intros X t Ht. inversion X; subst.
  assert (Hr : snd (fst (gather_eager s (map TP cs) re (length (map TP cs)) 0 FPending [])) = FOk).
  { rewrite E. auto. }
  pose proof (gather_eager_ok s (map TP cs) re (length (map TP cs)) 0 [] eq_refl Hr (TP t)
                (in_map TP _ _ Ht)) as Hf.
  unfold tref_done. destruct (tref_final s (TP t)); congruence.
Qed.

Lemma make_gather_outer s cs re g outer :
  make_gather s (map TP cs) re = (g, outer) -> outer <> FPending ->
  (outer = FOk \/ outer = FPending) -> forall t, In t cs -> tref_done s (TP t) = true.
Proof.
  intros E Hn [-> | ->]; [|congruence]. eapply make_gather_ok; eauto.
Qed.

(** *** drivers *)
Definition no_active (s : state) : Prop :=
  forall t, In t (t_running s) \/ In t (t_cancelled s) -> tref_done s (TP t) = false.

Lemma filter_all {A} (f : A -> bool) l : (forall x, In x l -> f x = true) -> filter f l = l.
Proof.
  induction l as [|h t IH]; simpl; intros H; auto.
  rewrite (H h) by auto. f_equal. apply IH. auto.
Qed.

Lemma nil_of_noin {A} (l : list A) : (forall x, ~ In x l) -> l = [].
Proof. destruct l; auto. intros H. exfalso. apply (H a). left; auto. Qed.

Lemma fx_set_t_cancelled_same o s0 s v :
  v = t_cancelled s -> framex o s0 s -> framex o s0 (set_t_cancelled s v).
Proof. intros ->. frx. Qed.

Lemma fx_set_t_running_same o s0 s v :
  v = t_running s -> framex o s0 s -> framex o s0 (set_t_running s v).
Proof. intros ->. frx. Qed.

Lemma J_after_g2 s d x outer :
  J s None 0 -> no_active s ->
  ((outer = FOk \/ outer = FPending) ->
   (forall t, In t (d_snap x) -> tref_done s (TP t) = true) /\
   (forall re, d_kind x = DGatherClose re ->
               forall t, In t (t_running s) \/ In t (t_cancelled s) -> In t (d_snap x))) ->
  J (after_g2 s d x outer) None 0.
Proof.
  intros H NA Hyp. unfold after_g2.
  assert (Main : (outer = FOk \/ outer = FPending) ->
    J (match d_kind x with
       | DFlush _ =>
           let snap := d_snap x in
           let e' := filter (not_in snap) (t_ended s) in
           let c' := filter (not_in snap) (t_cancelled s) in
           let n := (length (t_ended s) - length e') + (length (t_cancelled s) - length c') in
           let s := set_n_forgotten (set_t_cancelled (set_t_ended s e') c') (n_forgotten s + n) in
           finish_d s d x None
       | DGatherClose _ =>
           let n := length (t_ended s) + length (t_cancelled s) + length (t_running s) in
           let s := set_n_forgotten
                      (set_t_running (set_t_cancelled (set_t_ended s []) []) [])
                      (n_forgotten s + n) in
           let s := set_closed s true in
           let s := wake_closed s (closed_waiters s) in
           finish_d s d x None
       | DUntilClosed => finish_d s d x None
       end) None 0).
  { intros Ho. destruct (Hyp Ho) as [HA HC]. cbv zeta.
    destruct (d_kind x) eqn:K.
    - eapply J_frame; [|exact H].
      apply fx_finish_d, fx_set_n_forgotten, fx_set_t_cancelled_same; [|fxs].
      cbn. apply filter_all. intros t Ht. unfold not_in.
      destruct (mem t (d_snap x)) eqn:M; auto. apply mem_In in M.
      pose proof (NA t (or_intror Ht)) as N. rewrite (HA t M) in N. discriminate.
    - assert (Hr : t_running s = []).
      { apply nil_of_noin. intros t Hi.
        pose proof (NA t (or_introl Hi)) as N.
        rewrite (HA t (HC re eq_refl t (or_introl Hi))) in N. discriminate. }
      assert (Hc : t_cancelled s = []).
      { apply nil_of_noin. intros t Hi.
        pose proof (NA t (or_intror Hi)) as N.
        rewrite (HA t (HC re eq_refl t (or_intror Hi))) in N. discriminate. }
      eapply J_frame; [|exact H].
      apply fx_finish_d, fx_wake_closed, fx_set_closed, fx_set_n_forgotten.
      apply fx_set_t_running_same; [cbn; auto|].
      apply fx_set_t_cancelled_same; [cbn; auto|]. fxs.
    - jframe. auto. }
  destruct outer; try (jframe; exact H); apply Main; auto.
Qed.

Lemma J_start_g2 s d x cs re :
  J s None 0 -> no_active s ->
  (forall re', d_kind x = DGatherClose re' ->
               forall t, In t (t_running s) \/ In t (t_cancelled s) -> In t cs) ->
  J (start_g2 s d x cs re) None 0.
Proof.
  intros H NA HC. unfold start_g2.
  destruct (make_gather s (map TP cs) re) as [g outer] eqn:E.
  assert (B : outer <> FPending ->
              J (after_g2 s d (set_d_snap (set_d_g2 x (Some g)) cs) outer) None 0).
  { intros Hn. apply J_after_g2; auto. intros Ho. split.
    - cbn. eapply make_gather_outer; eauto.
    - cbn. auto. }
  destruct outer; try (apply B; discriminate).
  eapply J_frame; [|exact H]. apply fx_set_ctl, fx_put_d; [cbn; discriminate|fxs].
Qed.

Lemma J_after_g1 s d x outer : J s None 0 -> no_active s -> J (after_g1 s d x outer) None 0.
Proof.
  intros H NA. unfold after_g1.
  destruct (d_kind x) eqn:K.
  - assert (B : J (start_g2 (set_meta_cancelled s []) d x
                     (dict_merge (t_ended (set_meta_cancelled s []))
                                 (t_cancelled (set_meta_cancelled s []))) re) None 0).
    { apply J_start_g2.
      - jframe. auto.
      - exact NA.
      - intros re' K'. congruence. }
    cbv zeta beta.
    destruct outer as [| |e|]; auto. destruct e; auto; jframe; auto.
  - destruct (if re then None else first_exception s _); [jframe; auto|].
    cbv zeta. apply J_start_g2.
    + jframe. auto.
    + exact NA.
    + intros re' _ t Ht. cbn. rewrite !in_app_iff. tauto.
  - jframe. auto.
Qed.

Lemma J_start_g1 s d x cs re : J s None 0 -> no_active s -> J (start_g1 s d x cs re) None 0.
Proof.
  intros H NA. unfold start_g1.
  destruct (make_gather s (map TM cs) re) as [g outer].
  destruct outer; try (apply J_after_g1; auto).
  eapply J_frame; [|exact H]. apply fx_set_ctl, fx_put_d; [cbn; discriminate|fxs].
Qed.

Definition g2h (s : state) (d : nat) : Prop :=
  forall x, get_d s d = Some x -> d_pc x = DWaitG2 ->
            (d_fw x = None \/ d_fw x = Some FOk \/ d_fw x = Some FPending) ->
            (forall t, In t (d_snap x) -> tref_done s (TP t) = true) /\
            (forall re, d_kind x = DGatherClose re ->
                        forall t, In t (t_running s) \/ In t (t_cancelled s) -> In t (d_snap x)).

Lemma J_run_d s d : J s None 0 -> no_active s -> g2h s d -> J (run_d s d) None 0.
Proof.
  intros H NA G2. unfold run_d. destruct (get_d s d) as [x0|] eqn:G; auto. cbv zeta.
  destruct (d_pc x0) eqn:P; auto.
  - cbn [d_kind set_d_fw]. destruct (d_kind x0).
    + destruct (pop_ended s (gmeta s)) as [gm ended]. apply J_start_g1; auto. jframe. auto.
    + apply J_start_g1; auto. jframe. auto.
    + destruct (closed s); [jframe; auto|].
      eapply J_frame; [|exact H]. apply fx_set_ctl, fx_put_d; [cbn; discriminate|fxs].
  - apply J_after_g1; auto.
  - apply J_after_g2; auto. intros Ho. cbn [d_snap d_kind set_d_fw].
    apply (G2 x0 G P).
    destruct (d_fw x0) as [f|]; auto. destruct Ho; subst; auto.
  - jframe. auto.
Qed.

Lemma fx_put_d' o s0 s d x x0 :
  get_d s d = Some x0 ->
  (d_pc x = DWaitG2 -> d_fw x <> None \/ (d_pc x0 = DWaitG2 /\ d_fw x = d_fw x0)) ->
  framex o s0 s -> framex o s0 (put_d s d x).
Proof.
  intros G Hx H; destruct H as [? ? ? ? ? ? ? ? fr_mv0 fr_d0]; constructor; unfold put_d; cbn; auto.
  intros Hd. specialize (fr_d0 Hd). unfold dfw_ok, get_d in *. cbn.
  intros d' x'. rewrite nth_error_upd.
  destruct (Nat.eqb_spec d d') as [<-|Hne].
  - destruct (Nat.ltb d (length (dtasks s))); [|discriminate].
    intros E; inversion E; subst. intros P. destruct (Hx P) as [|[P0 F0]]; auto.
    rewrite F0. eapply fr_d0; eauto.
  - apply fr_d0.
Qed.

Lemma J_run_g s d c : J s None 0 -> J (run_g s d c) None 0.
Proof.
  intros H. unfold run_g. destruct (get_d s d) as [x|] eqn:G; auto.
  destruct (tref_final s c) as [o|]; auto. cbv zeta.
  set (phase1 := match c with TM _ => true | _ => false end).
  set (active := match d_pc x, phase1 with
                 | DWaitG1, true | DWaitG2, false => true
                 | _, _ => false end).
  destruct (if phase1 then d_g1 x else d_g2 x) as [g|]; auto.
  assert (B : forall g', J (put_d s d (if phase1 then set_d_g1 x (Some g') else set_d_g2 x (Some g')))
                           None 0).
  { intros g'. eapply J_frame; [|exact H]. eapply fx_put_d'; eauto; [|fxs].
    intros P0. right. destruct phase1; cbn in *; auto. }
  destruct (if active then d_fw x else None) as [[]|] eqn:A; auto.
  destruct (gather_cb (g_re g) (length (g_children g)) o (g_nfin g) FPending) as [nfin outer].
  destruct outer; auto; jframe;
    (eapply J_frame; [|exact H]; apply fx_put_d; [destruct phase1; cbn; discriminate|fxs]).
Qed.

(** *** API operations *)
Lemma J_cancel_m s m : J s None 0 -> J (cancel_m s m) None 0.
Proof.
  intros H. unfold cancel_m. destruct (get_m s m) as [x|] eqn:G; auto.
  destruct (m_final x); auto.
  assert (H' : J (if is_current s (TM m) then set_taint_iter s true else s) None 0).
  { destruct (is_current s (TM m)); auto. jframe. auto. }
  assert (G' : get_m (if is_current s (TM m) then set_taint_iter s true else s) m = Some x).
  { destruct (is_current s (TM m)); auto. }
  revert H' G'. generalize (if is_current s (TM m) then set_taint_iter s true else s).
  clear H G s. intros s H G.
  destruct (fut_pending (m_fw x)) eqn:F.
  2:{ eapply J_frame; [|exact H]. eapply fx_put_m_same; eauto. apply framex_refl. }
  apply fut_pending_true in F. jframe.
  destruct (in_dec Nat.eq_dec m (sem_waiters s)) as [Hin|Hn].
  - (* a pending waiter of the pool semaphore *)
    destruct H as [H W].
    set (x' := set_m_fw x (Some FCancelled)).
    destruct (Ji1 H m Hin) as [_ [f [Hv Hwf]]].
    assert (Hpc : m_pc x = MWaitPool).
    { unfold mview in Hv. rewrite G in Hv. inversion Hv; auto. }
    assert (Hfo : m_fw_of s m = Some FPending).
    { unfold m_fw_of. rewrite G. auto. }
    assert (Hv1 : mview (put_m s m x') m = Some (MWaitPool, Some FCancelled)).
    { rewrite (mview_put_m_eq s m x' x G). cbn. rewrite Hpc. auto. }
    assert (Hv2 : forall m', m <> m' -> mview (put_m s m x') m' = mview s m').
    { intros m' Hne. rewrite mview_put_m_neq; auto. }
    assert (Hf2 : forall m', m <> m' -> m_fw_of (put_m s m x') m' = m_fw_of s m').
    { intros m' Hne. rewrite !m_fw_of_mview, Hv2; auto. }
    split.
    + constructor; try apply H.
      * intros m' Hm'. change (In m' (sem_waiters s)) in Hm'. split; [discriminate|].
        destruct (Nat.eq_dec m m') as [<-|Hne].
        -- exists (Some FCancelled). split; auto. right; right; auto.
        -- rewrite Hv2 by auto. apply (Ji1 H); auto.
      * intros m' f' Hm' Hx. change (In m' (sem_waiters s)).
        destruct (Nat.eq_dec m m') as [<-|Hne]; auto.
        rewrite Hv2 in Hm' by auto. eapply (Ji2 H); eauto.
      * intros m' f' Hm' Hx.
        destruct (Nat.eq_dec m m') as [<-|Hne]; [congruence|].
        rewrite Hv2 in Hm' by auto. eapply (Jmap H); eauto.
      * pose proof (Jsl H) as Hs. unfold slots_k in *.
        change (cap (put_m s m x')) with (cap s).
        change (sem_value (put_m s m x')) with (sem_value s).
        assert (in_use (put_m s m x') = in_use s).
        { unfold in_use. change (t_running (put_m s m x')) with (t_running s).
          change (t_cancelled (put_m s m x')) with (t_cancelled s).
          change (sem_waiters (put_m s m x')) with (sem_waiters s).
          f_equal. apply count_ext. intros y Hy.
          destruct (Nat.eq_dec m y) as [<-|Hne].
          - rewrite (mview_fw _ _ _ _ Hv1), Hfo. auto.
          - rewrite Hf2; auto. }
        rewrite H0. auto.
    + intros Ht m' Hm' Hp.
      change (In m' (sem_waiters s)) in Hm'.
      change (sem_value (put_m s m x')) with (sem_value s).
      destruct (Nat.eq_dec m m') as [<-|Hne].
      { rewrite (mview_fw _ _ _ _ Hv1) in Hp. discriminate. }
      rewrite Hf2 in Hp by auto.
      destruct (W Ht m' Hm' Hp) as [|[w [Hw Hfw]]]; auto.
      right. exists w. split; auto. rewrite Hf2; auto. intro; subst. congruence.
  - apply J_put_done.
    + apply J_add_ex; auto.
    + cbn. intros E. apply Hn. destruct H as [H _]. eapply (Ji2 H).
      * unfold mview. rewrite G, E. reflexivity.
      * discriminate.
    + intros _. cbn. right; right; auto.
Qed.

Lemma J_fold_cancel_m l : forall s, J s None 0 -> J (fold_left cancel_m l s) None 0.
Proof. induction l; simpl; intros; auto. apply IHl, J_cancel_m; auto. Qed.

Lemma fx_mark_dead o s0 s g : framex o s0 s -> framex o s0 (mark_dead s g).
Proof.
  intros H; destruct H as [? ? ? ? ? ? ? ? fr_mv0 fr_d0]; constructor; unfold mark_dead; cbn; auto.
  intros m Hm. rewrite <- fr_mv0 by auto. unfold mview, get_m. cbn.
  rewrite nth_error_map. destruct (nth_error (mtasks s) m) as [y|]; cbn; auto.
  destruct (gname_eqb g (m_group y)); auto.
Qed.

Lemma J_cancel_group_metas s g : J s None 0 -> J (cancel_group_metas s g) None 0.
Proof.
  intros H. unfold cancel_group_metas. destruct (glookup g (gmeta s)); auto.
  jframe. apply J_fold_cancel_m. jframe. auto.
Qed.

Lemma fx_fold_cancel_running o s0 l : forall s,
  framex o s0 s ->
  framex o s0 (fold_left (fun s t => if mem t (t_running s) then cancel_p s t else s) l s).
Proof.
  induction l; simpl; intros; auto. apply IHl.
  destruct (mem a (t_running s)); auto. apply fx_cancel_p; auto.
Qed.

Lemma J_cancel_group_body s g ids : J s None 0 -> J (cancel_group_body s g ids) None 0.
Proof.
  intros H. unfold cancel_group_body.
  eapply J_frame; [apply fx_fold_cancel_running, fx_mark_dead, framex_refl|].
  apply J_cancel_group_metas; auto.
Qed.

Lemma J_cancel_all_groups gs : forall s, J s None 0 -> J (cancel_all_groups s gs) None 0.
Proof.
  induction gs as [|[g ids] t IH]; simpl; intros; auto. apply IH, J_cancel_group_body; auto.
Qed.

Lemma J_do_cancel s ids : J s None 0 -> J (do_cancel s ids) None 0.
Proof.
  intros H. unfold do_cancel. destruct (first_lookup_err s ids); jframe; auto.
Qed.

Lemma fx_new_meta s x : framex (Some (length (mtasks s))) s (new_meta s x).
Proof.
  unfold new_meta. apply fx_sched.
  constructor; cbn; auto.
  intros m Hm. unfold mview, get_m. cbn.
  assert (m <> length (mtasks s)) by congruence.
  destruct (Nat.lt_ge_cases m (length (mtasks s))).
  - rewrite nth_error_app1; auto.
  - assert (E1 : nth_error (mtasks s) m = None) by (apply nth_error_None; lia).
    assert (E2 : nth_error (mtasks s ++ [x]) m = None).
    { apply nth_error_None. rewrite app_length. simpl. lia. }
    rewrite E1, E2. auto.
Qed.

Lemma J_new_meta s x :
  J s None 0 -> m_pc x = MNotStarted -> J (new_meta s x) None 0.
Proof.
  intros H P.
  assert (Hn : ~ In (length (mtasks s)) (sem_waiters s)).
  { intros Hi. destruct H as [H _]. destruct (Ji1 H _ Hi) as [_ [f [Hv _]]].
    unfold mview, get_m in Hv.
    assert (E : nth_error (mtasks s) (length (mtasks s)) = None) by (apply nth_error_None; lia).
    rewrite E in Hv. discriminate. }
  apply J_drop_ex with (m := length (mtasks s)).
  - eapply J_framem; [apply fx_new_meta|]. apply J_add_ex; auto.
  - intros pc f Hv. unfold new_meta in Hv.
    assert (E : mview (new_meta s x) (length (mtasks s)) = Some (m_pc x, m_fw x)).
    { unfold new_meta, sched. destruct (is_ready _ _); unfold mview, get_m; cbn;
        rewrite nth_error_app2, Nat.sub_diag by lia; reflexivity. }
    unfold new_meta in E. rewrite E in Hv. inversion Hv; subst. rewrite P.
    split; discriminate.
Qed.

Lemma J_set_size s v :
  J s None 0 ->
  J (set_taint_size (set_cap (set_sem_value s v) (ninf_add v (in_use s))) true) None 0.
Proof.
  intros [H W]. split.
  - constructor; try apply H; cbn; try discriminate.
    unfold slots_k. cbn [sem_value cap set_taint_size set_cap set_sem_value].
    change (in_use (set_taint_size (set_cap (set_sem_value s v) (ninf_add v (in_use s))) true))
      with (in_use s).
    destruct v; simpl; auto; lia.
  - intros Ht. cbn in Ht. discriminate.
Qed.

Lemma J_do_op s o : J s None 0 -> J (do_op s o) None 0.
Proof.
  intros H. destruct o; unfold do_op; cbv beta iota zeta.
  - (* OpApply *)
    set (s1 := match g with Some g0 => know s g0 | None => s end).
    assert (H1 : J s1 None 0) by (unfold s1; destruct g; auto; jframe; auto).
    clearbody s1.
    destruct (check_start s1 noncoro); [jframe; auto|].
    destruct (ghas _ (groups s1)); [jframe; auto|].
    jframe. apply J_new_meta; auto. jframe. auto.
  - (* OpMap *)
    set (s1 := match g with Some g0 => know s g0 | None => s end).
    assert (H1 : J s1 None 0) by (unfold s1; destruct g; auto; jframe; auto).
    clearbody s1.
    destruct (check_start s1 noncoro); [jframe; auto|].
    destruct (Nat.eqb nc 0); [jframe; auto|].
    destruct (ghas _ (groups s1)); [jframe; auto|].
    jframe. apply J_new_meta; auto. jframe. auto.
  - (* OpStart *)
    destruct (check_start s false); [jframe; auto|].
    jframe. apply J_new_meta; auto. jframe. auto.
  - apply J_do_cancel; auto.
  - (* OpCancelGroup *)
    destruct (glookup g (groups (know s g))); [|jframe; auto].
    apply J_cancel_group_body. jframe. auto.
  - apply J_cancel_all_groups. jframe. auto.
  - (* OpStop *)
    match goal with |- J (match res ?s1 with _ => _ end) _ _ =>
      assert (H1 : J s1 None 0) by (apply J_do_cancel; auto);
      destruct (res s1); auto; jframe; auto end.
  - match goal with |- J (match res ?s1 with _ => _ end) _ _ =>
      assert (H1 : J s1 None 0) by (apply J_do_cancel; auto);
      destruct (res s1); auto; jframe; auto end.
  - jframe. auto.
  - destruct (Nat.ltb 0 (n_gac s)); jframe; auto.
  - destruct v; [apply J_set_size; auto|jframe; auto].
  - (* OpGetGroupIds *)
    jframe.
    assert (B : forall l s0, J s0 None 0 -> J (fold_left know l s0) None 0).
    { induction l; simpl; intros; auto. apply IHl. jframe. auto. }
    apply B; auto.
  - (* OpDriver *)
    apply (J_frame s); auto. apply fx_sched.
    assert (F : framex None s (match k with DGatherClose _ => set_n_gac s (S (n_gac s)) | _ => s end)).
    { destruct k; fxs. }
    revert F. generalize (match k with DGatherClose _ => set_n_gac s (S (n_gac s)) | _ => s end).
    intros s1 F. eapply framex_trans; [exact F|].
    constructor; cbn; auto.
    unfold dfw_ok, get_d. cbn. intros Hd d x Hg.
    destruct (Nat.lt_ge_cases d (length (dtasks s1))).
    + rewrite nth_error_app1 in Hg; auto. eapply Hd; eauto.
    + rewrite nth_error_app2 in Hg; auto.
      destruct (d - length (dtasks s1)) as [|[|]]; simpl in Hg; try discriminate.
      inversion Hg; subst. cbn. discriminate.
  - destruct (get_p s tid); auto. jframe. auto.
  - destruct (get_p s tid); auto. jframe. auto.
Qed.
