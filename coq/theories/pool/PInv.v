(** M1 — the well-formedness invariant of the pool model (definitions only; preservation is proved
    in the PInv_*.v files, assembled in PWF.v).  Every clause is mirrored by an executable check in
    ocaml/pwf.ml which is run on random model traces (a test of the statements, not a proof).

    The invariant is stated for *clean* runs: no [unlock()] was issued once a [gather_and_close()]
    had been requested (precondition P-unlock, DESIGN.md §5) — [gather_and_close] clears all
    registries at its end, so unlocking the pool while it waits lets tasks be created that it
    then forgets. *)
From TP Require Export PModel.

Definition clean (s : state) : Prop := taint_unlock s = false.

(** ** I1 — the three registries *)
Definition regs (s : state) : list nat := t_running s ++ t_cancelled s ++ t_ended s.

Record I1 (s : state) : Prop := {
  I1_nodup : NoDup (regs s);
  I1_lt : forall t, In t (regs s) -> t < num_started s;
  I1_len : num_started s = length (ptasks s);
  (* every id ever issued is filed in exactly one registry unless it was forgotten by
     flush() / gather_and_close() *)
  I1_forgotten : num_started s = length (regs s) + n_forgotten s
}.

(** ** I2 — a pool task's program counter agrees with the registry it is filed in *)
Definition running_pc (p : ppc) : bool :=
  match p with PCreated | PUStart | PWaitGate | PUResume | PUCancelled => true | _ => false end.
Definition cancel_pc (p : ppc) : bool :=
  match p with PUCancelCb | PWaitCcb => true | _ => false end.
Definition endcb_pc (p : ppc) : bool :=
  match p with PUEndCb | PWaitEcb => true | _ => false end.

Record I2 (s : state) : Prop := {
  I2_run : forall t x, get_p s t = Some x -> (running_pc (p_pc x) = true <-> In t (t_running s));
  I2_can : forall t x, get_p s t = Some x -> (cancel_pc (p_pc x) = true <-> In t (t_cancelled s));
  I2_endcb : forall t x, get_p s t = Some x -> endcb_pc (p_pc x) = true -> In t (t_ended s);
  I2_ended : forall t x, get_p s t = Some x -> In t (t_ended s) ->
                         endcb_pc (p_pc x) = true \/ p_pc x = PDone;
  I2_final : forall t x, get_p s t = Some x -> (p_final x <> None <-> p_pc x = PDone);
  I2_unst : forall t x, get_p s t = Some x -> (p_unst x <> UNone <-> p_pc x = PCreated);
  I2_mc : forall t x, get_p s t = Some x -> p_pc x = PCreated -> p_mc x = false
}.

(** ** IH — per-task history counters (ghosts): how often the worker was started, each callback
    was entered and the pool slot was released, as a function of the program counter.  These are
    the exactly-once facts of C02 / C03. *)
Definition has_cb (c : cbspec) : nat := match c with CbNone => 0 | _ => 1 end.

Definition counts_ok (x : ptask) : Prop :=
  p_nstart x <= 1 /\ p_nccb x <= has_cb (p_ccb x) /\ p_necb x <= has_cb (p_ecb x) /\
  p_nrel x <= 1 /\
  match p_pc x with
  | PCreated => p_nstart x = 0 /\ p_nccb x = 0 /\ p_necb x = 0 /\ p_nrel x = 0
  | PUStart | PWaitGate | PUResume | PUCancelled =>
      p_nstart x = 1 /\ p_nccb x = 0 /\ p_necb x = 0 /\ p_nrel x = 0
  | PUCancelCb | PWaitCcb => p_nccb x = 1 /\ p_necb x = 0 /\ p_nrel x = 0
  | PUEndCb | PWaitEcb => p_necb x = 1 /\ p_nrel x = 1
  | PDone => p_necb x = has_cb (p_ecb x) /\ p_nrel x = 1
  end.

Definition internal_exn (e : option exn) : Prop :=
  e = Some EKeyError \/ e = Some EPoolIsClosed \/ e = Some EPoolIsLocked.

(** No cancellation is pending on / delivered to a task that is inside its callbacks or in its
    worker's final segment — unless a worker cancelled itself from a final segment (open finding
    D11, ghost [taint_self]). *)
Definition not_cancelled_late (x : ptask) : Prop :=
  match p_pc x with
  | PUCancelCb | PWaitCcb | PUEndCb | PWaitEcb | PUResume | PUCancelled =>
      p_mc x = false /\ p_fw x <> Some FCancelled
  | PDone => p_exc x <> Some ECancelled /\ p_final x <> Some OCancelled
  | _ => True
  end.

Record IH (s : state) : Prop := {
  IH_counts : forall t x, get_p s t = Some x -> counts_ok x;
  IH_noint : forall t x, get_p s t = Some x -> ~ internal_exn (p_exc x);
  IH_late : taint_self s = false -> forall t x, get_p s t = Some x -> not_cancelled_late x
}.

(** ** I3 — slot conservation: capacity = free slots + slots in use.
    [cap] is a ghost: the configured size, re-based by [pool_size = v] (which overwrites the free
    count, D6).  Slots in use: tasks filed as running or cancelled, plus slots already handed to a
    woken waiter ([in_use], PModel.v). *)
Definition slots_ok (s : state) : Prop :=
  match sem_value s, cap s with
  | Fin v, Fin c => c = v + in_use s
  | Inf, Inf => True
  | _, _ => False
  end.

Record I3 (s : state) : Prop := {
  I3_slots : slots_ok s;
  I3_cap : taint_size s = false -> cap s = cf_size (cfg s);
  I3_inf : taint_size s = false -> sem_value s = Inf -> sem_waiters s = []
}.

(** ** I4 — the semaphore's waiter queue and the spawners *)
Definition waiting_fut (f : option fut) : Prop :=
  f = Some FPending \/ f = Some FOk \/ f = Some FCancelled.

Record I4 (s : state) : Prop := {
  I4_nodup : NoDup (sem_waiters s);
  I4_in : forall m, In m (sem_waiters s) <->
                    exists x, get_m s m = Some x /\ m_pc x = MWaitPool;
  I4_fut : forall m x, get_m s m = Some x -> (m_pc x = MWaitPool \/ m_pc x = MWaitMap) ->
                       waiting_fut (m_fw x);
  (* no lost wake-up: while a waiter is still pending there is no free slot, or a waiter that was
     already handed a slot is about to resume and will pass a free slot on (unless pool_size was
     assigned, D6) *)
  I4_wake : taint_size s = false ->
            forall m, In m (sem_waiters s) -> m_fw_of s m = Some FPending ->
                      sem_value s = Fin 0 \/
                      exists m', In m' (sem_waiters s) /\ m_fw_of s m' = Some FOk
}.

(** ** I5 — ready handles agree with task states; the current task *)
Definition p_waiting (p : ppc) : bool :=
  match p with PWaitGate | PWaitCcb | PWaitEcb => true | _ => false end.
Definition p_user (p : ppc) : bool :=
  match p with PUStart | PUResume | PUCancelled | PUCancelCb | PUEndCb => true | _ => false end.

Definition hid_in_range (s : state) (h : hid) : Prop :=
  match h with
  | HT (TP t) => t < length (ptasks s)
  | HT (TM m) => m < length (mtasks s)
  | HT (TD d) => d < length (dtasks s)
  | HG d _ => d < length (dtasks s)
  end.

Record I5 (s : state) : Prop := {
  I5_nodup : NoDup (ready s);
  I5_range : forall h, In h (ready s) -> hid_in_range s h;
  I5_p : forall t x, get_p s t = Some x ->
           (In (HT (TP t)) (ready s) <->
            (p_pc x = PCreated \/
             (p_waiting (p_pc x) = true /\ p_fw x <> Some FPending)));
  I5_pfw : forall t x, get_p s t = Some x ->
           (p_waiting (p_pc x) = true <-> p_fw x <> None);
  I5_puser : forall t x, get_p s t = Some x ->
           (p_user (p_pc x) = true <-> ctl s = CUser (TP t));
  I5_m : forall m x, get_m s m = Some x ->
           (In (HT (TM m)) (ready s) <->
            (m_pc x = MNotStarted \/
             ((m_pc x = MWaitPool \/ m_pc x = MWaitMap) /\ m_fw x <> Some FPending)));
  I5_mfw : forall m x, get_m s m = Some x ->
           ((m_pc x = MWaitPool \/ m_pc x = MWaitMap) <-> m_fw x <> None);
  I5_muser : forall m x, get_m s m = Some x -> (m_pc x = MAtIter <-> ctl s = CUser (TM m));
  I5_mpc : forall m x, get_m s m = Some x -> m_pc x <> MLoopHead;
  I5_mfinal : forall m x, get_m s m = Some x -> (m_final x <> None <-> m_pc x = MDone);
  I5_d : forall d x, get_d s d = Some x ->
           (In (HT (TD d)) (ready s) <->
            (d_pc x = DNotStarted \/
             ((d_pc x = DWaitG1 \/ d_pc x = DWaitG2 \/ d_pc x = DWaitClosed) /\
              d_fw x <> Some FPending)));
  I5_dfinal : forall d x, get_d s d = Some x -> (d_final x <> None <-> d_pc x = DDone);
  I5_ctl_d : forall d, ctl s <> CUser (TD d);
  I5_ctl_p : forall t, ctl s = CUser (TP t) -> t < length (ptasks s);
  I5_ctl_m : forall m, ctl s = CUser (TM m) -> m < length (mtasks s)
}.

(** ** IM — spawners.  A live spawner whose group was not cancelled is registered under its group
    (so that gather_and_close waits for it); a spawner whose group was cancelled ([m_dead]) has a
    cancellation pending or delivered and will stop at its next step (unless the cancellation came
    from its own argument iterator, ghost [taint_iter]). *)
Definition meta_in_group (s : state) (m : nat) (g : gname) : Prop :=
  exists ms, glookup g (gmeta s) = Some ms /\ In m ms.

Definition fut_cancelled (f : option fut) : Prop := f = Some FCancelled.

Record IM (s : state) : Prop := {
  IM_reg : forall m x, get_m s m = Some x -> m_final x = None -> m_dead x = false ->
                       meta_in_group s m (m_group x);
  IM_lt : forall m, In m (meta_cancelled s ++ concat (map snd (gmeta s))) ->
                    m < length (mtasks s);
  IM_nodup : NoDup (meta_cancelled s ++ concat (map snd (gmeta s)));
  IM_keys : NoDup (map fst (gmeta s));
  IM_dead : taint_iter s = false ->
            forall m x, get_m s m = Some x -> m_dead x = true -> m_final x = None ->
                        m_mc x = true \/ fut_cancelled (m_fw x);
  IM_holds : forall m x, get_m s m = Some x -> m_holds x = true -> m_pc x = MWaitPool
}.

(** ** IG — gathers and drivers.  For a driver suspended on a gather's outer future: the
    callbacks that have run are counted by [g_nfin]; a child callback handle is ready only for a
    finished child; and a gather_and_close driver past its first gather sees a locked pool with
    no live (uncancelled) spawner. *)
Definition tref_done (s : state) (r : tref) : bool :=
  match tref_final s r with Some _ => true | None => false end.

Definition cb_ran (s : state) (d : nat) (c : tref) : bool :=
  tref_done s c && negb (existsb (hid_eqb (HG d c)) (ready s)).

Definition gather_ok (s : state) (d : nat) (g : gather) : Prop :=
  NoDup (g_children g) /\
  (forall c, In c (g_cb g) -> In c (g_children g)) /\
  (forall c, In c (g_children g) -> tref_done s c = false -> In c (g_cb g)) /\
  g_nfin g = count (cb_ran s d) (g_children g).

Record IG (s : state) : Prop := {
  IG_g1 : forall d x g, get_d s d = Some x -> d_pc x = DWaitG1 -> d_fw x = Some FPending ->
                        d_g1 x = Some g -> gather_ok s d g;
  IG_g2 : forall d x g, get_d s d = Some x -> d_pc x = DWaitG2 -> d_fw x = Some FPending ->
                        d_g2 x = Some g -> gather_ok s d g;
  IG_has1 : forall d x, get_d s d = Some x -> d_pc x = DWaitG1 -> d_g1 x <> None;
  IG_has2 : forall d x, get_d s d = Some x -> d_pc x = DWaitG2 ->
                        exists g, d_g2 x = Some g /\ g_children g = map TP (d_snap x);
  (* outer already set to a result: every child is done *)
  IG_ok1 : forall d x g, get_d s d = Some x -> d_pc x = DWaitG1 -> d_fw x = Some FOk ->
                         d_g1 x = Some g -> forall c, In c (g_children g) -> tref_done s c = true;
  IG_ok2 : forall d x g, get_d s d = Some x -> d_pc x = DWaitG2 -> d_fw x = Some FOk ->
                         d_g2 x = Some g -> forall c, In c (g_children g) -> tref_done s c = true;
  IG_hg : forall d c, In (HG d c) (ready s) -> tref_done s c = true;
  (* gather_and_close, waiting for the spawners: locked, and its children include every live
     spawner whose group was not cancelled *)
  IG_gac1 : forall d x re g, get_d s d = Some x -> d_kind x = DGatherClose re ->
                        d_pc x = DWaitG1 -> d_g1 x = Some g ->
                        locked s = true /\
                        (forall m y, get_m s m = Some y -> m_final y = None -> m_dead y = false ->
                                     In (TM m) (g_children g));
  IG_ngac : forall d x re, get_d s d = Some x -> d_kind x = DGatherClose re -> 0 < n_gac s;
  (* gather_and_close, waiting for the tasks: locked, no live uncancelled spawner, children = all
     tasks *)
  IG_gac2 : forall d x re, get_d s d = Some x -> d_kind x = DGatherClose re ->
                        d_pc x = DWaitG2 ->
                        locked s = true /\
                        (forall m y, get_m s m = Some y -> m_final y = None -> m_dead y = true) /\
                        (forall t, In t (regs s) -> In t (d_snap x));
  IG_closed : closed s = true -> regs s = []
}.

(** ** IR — requests.  Every pool task was created for exactly one request and carries that
    request's function behaviour, callbacks and (for the map family) element; a request never
    creates more than it was asked for, skips exactly the invocations whose call raises, and ends
    only when it is complete or its group was cancelled. *)
Definition tasks_of (s : state) (m : nat) : nat :=
  count (fun x => Nat.eqb (p_req x) m) (ptasks s).

Definition unreleased_of (s : state) (m : nat) : nat :=
  count (fun x => Nat.eqb (p_req x) m && Nat.eqb (p_nrel x) 0) (ptasks s).

Definition task_matches_req (x : ptask) (y : mtask) : Prop :=
  p_ecb x = m_ecb y /\ p_ccb x = m_ccb y /\ p_ismap x = is_map y /\ p_el x < m_idx y /\
  match m_kind y with
  | MMap _ => exists e, nth_error (m_els y) (p_el x) = Some e /\ e_bad e = false /\ p_w x = e_w e
  | _ => p_w x = m_w y /\ nth (p_el x) (m_bad y) false = false /\ p_el x < m_num y
  end.

Definition req_progress (s : state) (m : nat) (y : mtask) : Prop :=
  match m_kind y with
  | MMap _ => m_idx y <= length (m_els y) /\
              m_ncreated y + count e_bad (firstn (m_idx y) (m_els y)) = m_idx y
  | _ => m_idx y <= m_num y /\ m_ncreated y = ngood (m_bad y) (m_idx y)
  end.

Definition req_final_ok (s : state) (y : mtask) : Prop :=
  match m_final y with
  | None => True
  | Some OResult => m_dead y = true \/ taint_iter s = true \/
                    match m_kind y with
                    | MMap _ => m_idx y = length (m_els y)
                    | _ => m_idx y = m_num y
                    end
  | Some OCancelled => m_dead y = true \/ taint_iter s = true
  | Some (OExc _) => False
  end.

Definition b2n (b : bool) : nat := if b then 1 else 0.

Definition mapsem_ok (s : state) (m : nat) (y : mtask) : Prop :=
  match m_kind y with
  | MMap _ =>
      m_mapval y + b2n (m_holds y) + unreleased_of s m +
      (match m_pc y, m_fw y with MWaitMap, Some FOk => 1 | _, _ => 0 end) = m_nc y
  | _ => m_mapval y = 0 /\ m_holds y = false /\ m_nc y = 0
  end.

Record IR (s : state) : Prop := {
  IR_req : forall t x, get_p s t = Some x ->
                       exists y, get_m s (p_req x) = Some y /\ task_matches_req x y;
  IR_distinct : forall t u x y, get_p s t = Some x -> get_p s u = Some y ->
                                p_req x = p_req y -> p_el x = p_el y -> t = u;
  IR_ncreated : forall m y, get_m s m = Some y -> m_ncreated y = tasks_of s m;
  IR_progress : forall m y, get_m s m = Some y -> req_progress s m y;
  IR_final : forall m y, get_m s m = Some y -> req_final_ok s y;
  IR_mapsem : forall m y, get_m s m = Some y -> mapsem_ok s m y
}.

(** ** IGr — groups partition the tasks *)
Record IGr (s : state) : Prop := {
  IGr_keys : NoDup (map fst (groups s));
  IGr_disj : NoDup (concat (map snd (groups s)));
  IGr_lt : forall t, In t (concat (map snd (groups s))) -> t < num_started s;
  IGr_ids : forall g ids t x, glookup g (groups s) = Some ids -> In t ids ->
                              get_p s t = Some x -> p_group x = g;
  (* a task is in the register of the group it was created for, unless that group was cancelled *)
  IGr_member : forall t x y, get_p s t = Some x -> get_m s (p_req x) = Some y ->
                             m_dead y = false ->
                             p_group x = m_group y /\
                             exists ids, glookup (m_group y) (groups s) = Some ids /\ In t ids;
  IGr_live : forall m y, get_m s m = Some y -> m_final y = None -> m_dead y = false ->
                         ghas (m_group y) (groups s) = true
}.

(** The invariant. *)
Record WF (s : state) : Prop := {
  wf1 : I1 s; wf2 : I2 s; wfh : IH s; wf3 : I3 s; wf4 : I4 s; wf5 : I5 s; wfm : IM s;
  wfg : IG s; wfr : IR s; wfgr : IGr s
}.
