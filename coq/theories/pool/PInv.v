(** M1 — the well-formedness invariant of the pool model (definitions only; preservation is proved
    in PInvProofs.v).  Everything is stated for *clean* states: no [unlock()] was issued once a
    [gather_and_close()] had been requested (precondition P-unlock, DESIGN.md §5). *)
From TP Require Export PModel.

Definition clean (s : state) : Prop := taint_unlock s = false.

(** ** I1 — the three registries *)
Definition regs (s : state) : list nat := t_running s ++ t_cancelled s ++ t_ended s.

Record I1 (s : state) : Prop := {
  I1_nodup : NoDup (regs s);
  I1_lt : forall t, In t (regs s) -> t < num_started s;
  I1_len : num_started s = length (ptasks s)
}.

(** ** I2 — a pool task's program counter agrees with the registry it is filed in *)
Definition running_pc (p : ppc) : bool :=
  match p with PCreated | PUStart | PWaitGate | PUResume | PUCancelled => true | _ => false end.
Definition cancel_pc (p : ppc) : bool :=
  match p with PUCancelCb | PWaitCcb => true | _ => false end.
Definition endcb_pc (p : ppc) : bool :=
  match p with PUEndCb | PWaitEcb => true | _ => false end.

Record I2 (s : state) : Prop := {
  I2_run : forall t x, get_p s t = Some x -> (running_pc (p_pc x) = true <-> In t (t_running s));
  I2_can : forall t x, get_p s t = Some x -> (cancel_pc (p_pc x) = true <-> In t (t_cancelled s));
  I2_endcb : forall t x, get_p s t = Some x -> endcb_pc (p_pc x) = true -> In t (t_ended s);
  I2_ended : forall t x, get_p s t = Some x -> In t (t_ended s) ->
                         endcb_pc (p_pc x) = true \/ p_pc x = PDone;
  I2_final : forall t x, get_p s t = Some x -> (p_final x <> None <-> p_pc x = PDone);
  I2_unst : forall t x, get_p s t = Some x -> (p_unst x <> UNone <-> p_pc x = PCreated);
  I2_mc : forall t x, get_p s t = Some x -> p_pc x = PCreated -> p_mc x = false
}.

(** ** I3 — slot conservation: capacity = free slots + slots in use.
    [cap] is a ghost: the configured size, re-based by [pool_size = v] (which overwrites the free
    count, D6).  Slots in use: tasks filed as running or cancelled, plus slots already handed to a
    woken waiter. *)
Definition slots_ok (s : state) : Prop :=
  match sem_value s, cap s with
  | Fin v, Fin c => c = v + in_use s
  | Inf, Inf => True
  | _, _ => False
  end.

(** ** I4 — the semaphore's waiter queue and the spawners *)
Definition waiting_fut (f : option fut) : Prop :=
  f = Some FPending \/ f = Some FOk \/ f = Some FCancelled.

Record I4 (s : state) : Prop := {
  I4_nodup : NoDup (sem_waiters s);
  I4_in : forall m, In m (sem_waiters s) <->
                    exists x, get_m s m = Some x /\ m_pc x = MWaitPool;
  I4_fut : forall m x, get_m s m = Some x -> (m_pc x = MWaitPool \/ m_pc x = MWaitMap) ->
                       waiting_fut (m_fw x);
  (* no lost wake-up: while a waiter is still pending there is no free slot, or a waiter that was
     already handed a slot is about to resume and will pass a free slot on (unless pool_size was
     assigned, D6) *)
  I4_wake : taint_size s = false ->
            forall m, In m (sem_waiters s) -> m_fw_of s m = Some FPending ->
                      sem_value s = Fin 0 \/
                      exists m', In m' (sem_waiters s) /\ m_fw_of s m' = Some FOk
}.

(** ** I5 — ready handles agree with task states; the current task *)
Definition p_waiting (p : ppc) : bool :=
  match p with PWaitGate | PWaitCcb | PWaitEcb => true | _ => false end.
Definition p_user (p : ppc) : bool :=
  match p with PUStart | PUResume | PUCancelled | PUCancelCb | PUEndCb => true | _ => false end.

Record I5 (s : state) : Prop := {
  I5_nodup : NoDup (ready s);
  I5_p : forall t x, get_p s t = Some x ->
           (In (HT (TP t)) (ready s) <->
            (p_pc x = PCreated \/
             (p_waiting (p_pc x) = true /\ p_fw x <> Some FPending)));
  I5_pfw : forall t x, get_p s t = Some x ->
           (p_waiting (p_pc x) = true <-> p_fw x <> None);
  I5_puser : forall t x, get_p s t = Some x ->
           (p_user (p_pc x) = true <-> ctl s = CUser (TP t));
  I5_m : forall m x, get_m s m = Some x ->
           (In (HT (TM m)) (ready s) <->
            (m_pc x = MNotStarted \/
             ((m_pc x = MWaitPool \/ m_pc x = MWaitMap) /\ m_fw x <> Some FPending)));
  I5_mfw : forall m x, get_m s m = Some x ->
           ((m_pc x = MWaitPool \/ m_pc x = MWaitMap) <-> m_fw x <> None);
  I5_muser : forall m x, get_m s m = Some x -> (m_pc x = MAtIter <-> ctl s = CUser (TM m));
  I5_mpc : forall m x, get_m s m = Some x -> m_pc x <> MLoopHead;
  I5_mfinal : forall m x, get_m s m = Some x -> (m_final x <> None <-> m_pc x = MDone);
  I5_d : forall d x, get_d s d = Some x ->
           (In (HT (TD d)) (ready s) <->
            (d_pc x = DNotStarted \/
             ((d_pc x = DWaitG1 \/ d_pc x = DWaitG2 \/ d_pc x = DWaitClosed) /\
              d_fw x <> Some FPending)));
  I5_dfinal : forall d x, get_d s d = Some x -> (d_final x <> None <-> d_pc x = DDone);
  I5_ctl_d : forall d, ctl s <> CUser (TD d)
}.

(** ** IM — every spawner that is not done is still registered (so that gather_and_close waits
    for it) *)
Definition meta_registered (s : state) (m : nat) : Prop :=
  In m (meta_cancelled s) \/ exists g ms, In (g, ms) (gmeta s) /\ In m ms.

Record IM (s : state) : Prop := {
  IM_reg : forall m x, get_m s m = Some x -> m_final x = None -> meta_registered s m;
  IM_lt : forall m, meta_registered s m -> m < length (mtasks s);
  IM_nodup : NoDup (meta_cancelled s ++ concat (map snd (gmeta s)))
}.

(** ** IG — gathers.  For a driver suspended on a gather's outer future: the callbacks that have
    run are counted by [g_nfin]; a child callback handle is ready only for a finished child; and a
    gather_and_close driver past its first gather sees a locked pool with no live spawner. *)
Definition tref_done (s : state) (r : tref) : bool :=
  match tref_final s r with Some _ => true | None => false end.

Definition cb_ran (s : state) (d : nat) (c : tref) : bool :=
  tref_done s c && negb (existsb (hid_eqb (HG d c)) (ready s)).

Definition gather_ok (s : state) (d : nat) (g : gather) : Prop :=
  NoDup (g_children g) /\
  (forall c, In c (g_cb g) -> In c (g_children g)) /\
  (forall c, In c (g_children g) -> tref_done s c = false -> In c (g_cb g)) /\
  g_nfin g = count (cb_ran s d) (g_children g).

Record IG (s : state) : Prop := {
  IG_g1 : forall d x g, get_d s d = Some x -> d_pc x = DWaitG1 -> d_fw x = Some FPending ->
                        d_g1 x = Some g -> gather_ok s d g;
  IG_g2 : forall d x g, get_d s d = Some x -> d_pc x = DWaitG2 -> d_fw x = Some FPending ->
                        d_g2 x = Some g -> gather_ok s d g;
  IG_has1 : forall d x, get_d s d = Some x -> d_pc x = DWaitG1 -> d_g1 x <> None;
  IG_has2 : forall d x, get_d s d = Some x -> d_pc x = DWaitG2 ->
                        exists g, d_g2 x = Some g /\ g_children g = map TP (d_snap x);
  (* outer already set to a result: every child is done *)
  IG_ok1 : forall d x g, get_d s d = Some x -> d_pc x = DWaitG1 -> d_fw x = Some FOk ->
                         d_g1 x = Some g -> forall c, In c (g_children g) -> tref_done s c = true;
  IG_ok2 : forall d x g, get_d s d = Some x -> d_pc x = DWaitG2 -> d_fw x = Some FOk ->
                         d_g2 x = Some g -> forall c, In c (g_children g) -> tref_done s c = true;
  IG_hg : forall d c, In (HG d c) (ready s) -> tref_done s c = true;
  (* gather_and_close, waiting for the spawners: locked, and its children are all live spawners *)
  IG_gac1 : forall d x re g, get_d s d = Some x -> d_kind x = DGatherClose re ->
                        d_pc x = DWaitG1 -> d_g1 x = Some g ->
                        locked s = true /\
                        (forall m y, get_m s m = Some y -> m_final y = None ->
                                     In (TM m) (g_children g));
  IG_ngac : forall d x re, get_d s d = Some x -> d_kind x = DGatherClose re -> 0 < n_gac s;
  (* gather_and_close, waiting for the tasks: locked, no live spawner, children = all tasks *)
  IG_gac2 : forall d x re, get_d s d = Some x -> d_kind x = DGatherClose re ->
                        d_pc x = DWaitG2 ->
                        locked s = true /\
                        (forall m y, get_m s m = Some y -> m_final y <> None) /\
                        (forall t, In t (regs s) -> In t (d_snap x))
}.

(** The invariant. *)
Record WF (s : state) : Prop := {
  wf1 : I1 s; wf2 : I2 s; wf3 : slots_ok s; wf4 : I4 s; wf5 : I5 s; wfm : IM s; wfg : IG s
}.
