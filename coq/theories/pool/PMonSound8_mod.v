(** Monitor soundness, C08 — model side: the outcomes recorded in the driver records and the
    [closed] flag change only in the step in which a driver logs [EvDriverDone]. *)
From TP Require Import PInv PInv_P_base PInv_P_view PInv_P_inv PInv_P_tok PInv_P_tok2
  PInv_P_chain PInv_P_step PInv_P_ed PInv_P PSpecStep PInv_R_base
  PStep_C_ev PStep_C_rel PStep_C_run PStep_C_drv PStep_C
  PStep_D_base PStep_D_k PStep_D_drv PStep_D
  PMonSound_C13_kd PMonSound_C13_mod PMonSound_C13_trk PMonSound8_trk.

Definition fin_of (s : state) : list (option outcome) := map d_final (dtasks s).

(** nothing that matters here has happened between [s0] and [s] *)
Definition st8 (s0 s : state) : Prop :=
  evs s = evs s0 /\ fin_of s = fin_of s0 /\ closed s = closed s0.

Definition okF (L : list (option outcome)) (d : nat) (x : dtask) : Prop :=
  forall o, nth_error L d = Some o -> o = d_final x.

(** outcome of the run of driver [d] (of kind [kd]) started in [s0] *)
Definition DX (s0 : state) (d : nat) (kd : dkind) (s' : state) : Prop :=
  st8 s0 s' \/
  exists oc, evs s' = evs s0 ++ [EvDriverDone d oc] /\
             fin_of s' = upd (fin_of s0) d (Some oc) /\
             (closed s' = closed s0 \/ (closed s' = true /\ is_gac kd = true /\ oc = OResult)).

Lemma st8_refl s : st8 s s.
Proof. repeat split. Qed.

Lemma okF_get s d x y : get_d s d = Some y -> d_final x = d_final y -> okF (fin_of s) d x.
Proof.
  intros Hy E o Ho. unfold fin_of in Ho. rewrite nth_error_map in Ho. unfold get_d in Hy.
  rewrite Hy in Ho. simpl in Ho. congruence.
Qed.

Lemma fin_put_d s d x : okF (fin_of s) d x -> fin_of (put_d s d x) = fin_of s.
Proof.
  intros H. unfold fin_of, put_d. cbn [dtasks set_dtasks]. apply map_upd_same.
  intros y Hy. symmetry. apply H. unfold fin_of. rewrite nth_error_map, Hy. reflexivity.
Qed.

Lemma st8_put_d s0 s d x : st8 s0 s -> okF (fin_of s0) d x -> st8 s0 (put_d s d x).
Proof.
  intros (A & B & C) H. split; [exact A|]. split; [|exact C].
  rewrite fin_put_d; [exact B|]. rewrite B. exact H.
Qed.

Lemma DX_finish_d s0 s d x e kd :
  evs s = evs s0 -> fin_of s = fin_of s0 ->
  (closed s = closed s0 \/ (closed s = true /\ is_gac kd = true /\ e = None)) ->
  DX s0 d kd (finish_d s d x e).
Proof.
  intros A B C. right. exists (final_of e false). split; [rewrite ev_finish_d, A; reflexivity|].
  split.
  - unfold fin_of, finish_d. cbn [dtasks set_ctl emit set_evs put_d set_dtasks].
    rewrite map_upd8. cbn [d_final set_d_final]. fold (fin_of s). rewrite B. reflexivity.
  - change (closed (finish_d s d x e)) with (closed s).
    destruct C as [C|(C1 & C2 & ->)]; [left; exact C|right; auto].
Qed.

Lemma fin_wake_closed ds : forall s, fin_of (wake_closed s ds) = fin_of s.
Proof.
  induction ds as [|d r IH]; simpl; intros s; auto. rewrite IH.
  destruct (get_d s d) as [x|] eqn:Ex; auto. destruct (fut_pending _); auto.
  unfold fin_of. rewrite dtasks_sched. fold (fin_of (put_d s d (set_d_fw x (Some FOk)))).
  apply fin_put_d. eapply okF_get; eauto.
Qed.

Lemma closed_wake_closed ds s : closed (wake_closed s ds) = closed s.
Proof. destruct (wake_closed_frame ds s) as (_ & _ & F3 & _). exact F3. Qed.

Lemma DX_after_g2 s0 s d x outer : st8 s0 s -> DX s0 d (d_kind x) (after_g2 s d x outer).
Proof.
  intros H. pose proof H as (A & B & C). unfold after_g2.
  destruct outer; try (apply DX_finish_d; auto; fail);
    destruct (d_kind x) eqn:Ek; try (apply DX_finish_d; auto; fail).
  - apply DX_finish_d.
    + rewrite ev_wake_closed. exact A.
    + rewrite fin_wake_closed. exact B.
    + right. rewrite closed_wake_closed. auto.
  - apply DX_finish_d.
    + rewrite ev_wake_closed. exact A.
    + rewrite fin_wake_closed. exact B.
    + right. rewrite closed_wake_closed. auto.
Qed.

Lemma DX_start_g2 s0 s d x cs re :
  st8 s0 s -> okF (fin_of s0) d x -> DX s0 d (d_kind x) (start_g2 s d x cs re).
Proof.
  intros H Hx. unfold start_g2. destruct (make_gather _ _ _) as [g outer].
  destruct outer; try (apply (DX_after_g2 s0 s d (set_d_snap (set_d_g2 x (Some g)) cs)); exact H).
  left. apply (st8_put_d s0 s); auto.
Qed.

Lemma DX_after_g1 s0 s d x outer :
  st8 s0 s -> okF (fin_of s0) d x -> DX s0 d (d_kind x) (after_g1 s d x outer).
Proof.
  intros H Hx. pose proof H as (A & B & C). unfold after_g1. destruct (d_kind x) eqn:Ek; rewrite <- Ek.
  - assert (Hgo : forall cs, DX s0 d (d_kind x) (start_g2 (set_meta_cancelled s []) d x cs re))
      by (intros cs; apply (DX_start_g2 s0 (set_meta_cancelled s []) d x cs re); [exact H|exact Hx]).
    destruct outer as [| |e|]; auto. destruct e; auto; apply DX_finish_d; auto.
  - destruct (if re then None else _); [apply DX_finish_d; auto|].
    apply (DX_start_g2 s0 (set_gmeta (set_meta_cancelled s []) []) d x _ re); [exact H|exact Hx].
  - apply DX_finish_d; auto.
Qed.

Lemma DX_start_g1 s0 s d x cs re :
  st8 s0 s -> okF (fin_of s0) d x -> DX s0 d (d_kind x) (start_g1 s d x cs re).
Proof.
  intros H Hx. unfold start_g1. destruct (make_gather _ _ _) as [g outer].
  destruct outer; try (apply (DX_after_g1 s0 s d (set_d_g1 x (Some g))); [exact H|exact Hx]).
  left. apply (st8_put_d s0 s); auto.
Qed.

Lemma DX_run_d s d x0 : get_d s d = Some x0 -> DX s d (d_kind x0) (run_d s d).
Proof.
  intros Hx. pose proof (st8_refl s) as H.
  assert (Hok : okF (fin_of s) d (set_d_fw x0 None)) by (eapply okF_get; eauto).
  unfold run_d. rewrite Hx. destruct (d_pc x0).
  - change (d_kind x0) with (d_kind (set_d_fw x0 None)).
    destruct (d_kind (set_d_fw x0 None)) eqn:Ek; rewrite <- Ek.
    + destruct (pop_ended s (gmeta s)) as [gm ended].
      apply (DX_start_g1 s (set_gmeta s gm) d (set_d_fw x0 None)); [exact H|exact Hok].
    + apply (DX_start_g1 s (set_locked s true) d (set_d_fw x0 None)); [exact H|exact Hok].
    + destruct (closed s); [apply DX_finish_d; auto|].
      left. apply (st8_put_d s (set_closed_waiters s (closed_waiters s ++ [d]))); [exact H|].
      eapply okF_get; eauto.
  - apply (DX_after_g1 s s d (set_d_fw x0 None)); auto.
  - apply (DX_after_g2 s s d (set_d_fw x0 None)); auto.
  - apply (DX_finish_d s (set_closed_waiters s (remove1 d (closed_waiters s))) d (set_d_fw x0 None));
      auto.
  - left. exact H.
Qed.

(** ** steps that run no driver *)
Definition drv_label (l : label) : bool :=
  match l with
  | LRun (HT (TD _)) | LRun (HG _ _) | LOp (OpDriver _) => true
  | _ => false
  end.

Lemma K_step_nodrv s l : WF s -> Extra_D s -> drv_label l = false -> K s (step s l).
Proof.
  intros W ED Hl. pose proof (K_init s ED) as K0.
  assert (Hnd : forall t y, get_p s t = Some y -> p_pc y <> PDone -> p_final y = None).
  { intros t y G Hp. destruct (p_final y) eqn:F; auto. exfalso. apply Hp.
    apply (I2_final _ (wf2 _ W) t y G). congruence. }
  unfold step. cbv zeta.
  set (s' := set_res (set_evs s []) RNone).
  assert (K' : K s s') by (unfold s'; ks; exact K0).
  destruct (negb (enabled s' l)) eqn:En; [exact K'|].
  apply negb_false_iff in En.
  destruct l as [h| |o].
  - assert (KU : K s (unsched s' h)) by (ks; exact K').
    destruct h as [[t|m|d]|d c]; simpl run_handle; try discriminate.
    + apply K_run_p; auto. exact (Hnd t).
    + apply K_run_m; auto.
  - change (ctl s') with (ctl s). destruct (ctl s) as [|[t|m|d]]; auto.
    + apply K_continue_p; auto. exact (Hnd t).
    + apply K_continue_m; auto.
  - simpl in En. apply K_do_op; auto. destruct o; try exact I. discriminate.
Qed.

Lemma step_no_done s l e :
  WF s -> Extra_P s -> (forall d, l <> LRun (HT (TD d))) -> In e (evs (step s l)) ->
  is_done e = false.
Proof.
  intros W EP Hl Hin. destruct e as [| | | | | | |d oc]; try reflexivity.
  destruct (step_driver_done s l d oc W EP Hin) as (E & _). exfalso. eapply Hl; eauto.
Qed.

Lemma fin_run_g s d c : fin_of (run_g s d c) = fin_of s /\ closed (run_g s d c) = closed s.
Proof.
  unfold run_g. destruct (get_d s d) as [x|] eqn:Ex; auto. destruct (tref_final s c); auto.
  assert (P : forall x', d_final x' = d_final x ->
            fin_of (put_d s d x') = fin_of s /\ closed (put_d s d x') = closed s).
  { intros x' E. split; [|reflexivity]. apply fin_put_d. eapply okF_get; eauto. }
  assert (Q : forall x' h, d_final x' = d_final x ->
            fin_of (sched (put_d s d x') h) = fin_of s /\ closed (sched (put_d s d x') h) = closed s).
  { intros x' h E. destruct (P x' E) as [P1 P2]. unfold fin_of in *. rewrite dtasks_sched.
    split; [exact P1|]. unfold sched. destruct (is_ready _ _); exact P2. }
  repeat (first [split; reflexivity | apply Q; reflexivity | apply P; reflexivity | dmatch]).
Qed.

(** ** every step *)
Theorem step_drv8 s l :
  WF s -> Extra_P s -> Extra_D s ->
  let s' := step s l in
  let en := enabled (pre s) l in
  ((forall e, In e (evs s') -> is_done e = false) /\
   fin_of s' = fin_of s ++ map (fun _ => None) (new_drv l en) /\ closed s' = closed s) \/
  (exists d oc x, l = LRun (HT (TD d)) /\ evs s' = [EvDriverDone d oc] /\ get_d s d = Some x /\
     fin_of s' = upd (fin_of s) d (Some oc) /\
     (closed s' = closed s \/ (closed s' = true /\ is_gac (d_kind x) = true /\ oc = OResult))).
Proof.
  intros W EP ED. cbv zeta.
  destruct (drv_label l) eqn:Hl.
  - destruct l as [[[t|m|d]|d c]| |o]; try discriminate.
    + (* a driver runs *)
      unfold step. fold (pre s).
      destruct (enabled (pre s) (LRun (HT (TD d)))) eqn:En; cbn [negb].
      2:{ left. cbn [new_drv map]. rewrite app_nil_r. repeat split. intros e []. }
      cbn [run_handle].
      destruct (get_d s d) as [x0|] eqn:Hx0.
      2:{ left. rewrite run_d_none by exact Hx0. cbn [new_drv map]. rewrite app_nil_r.
          repeat split. intros e []. }
      destruct (DX_run_d (unsched (pre s) (HT (TD d))) d x0 Hx0) as [(A & B & C)|(oc & A & B & C)].
      * left. cbn [new_drv map]. rewrite app_nil_r. split; [rewrite A; intros e []|].
        split; [exact B|exact C].
      * right. exists d, oc, x0. split; [reflexivity|]. split; [exact A|]. split; [exact Hx0|].
        split; [exact B|exact C].
    + (* a gather callback *)
      left. split; [intros e; apply step_no_done; auto; discriminate|].
      cbn [new_drv map]. rewrite app_nil_r.
      unfold step. fold (pre s). destruct (negb (enabled (pre s) (LRun (HG d c)))); [split; reflexivity|].
      cbn [run_handle]. apply (fin_run_g (unsched (pre s) (HG d c)) d c).
    + (* a driver is requested *)
      destruct o; try discriminate.
      left. split; [intros e; apply step_no_done; auto; discriminate|].
      unfold step. fold (pre s). change (enabled (pre s) (LOp (OpDriver k))) with true.
      cbn [negb new_drv map]. unfold do_op.
      set (s1 := match k with DGatherClose _ => set_n_gac (pre s) (S (n_gac (pre s))) | _ => pre s end).
      assert (E1 : dtasks s1 = dtasks s /\ closed s1 = closed s) by (unfold s1; destruct k; split; reflexivity).
      destruct E1 as [E1 E2]. unfold fin_of. rewrite dtasks_sched. cbn [dtasks set_dtasks].
      rewrite map_app, E1. split; [reflexivity|]. unfold sched. destruct (is_ready _ _); exact E2.
  - pose proof (K_step_nodrv s l W ED Hl) as HK.
    left. split; [intros e; apply step_no_done; auto; intros d ->; discriminate|].
    replace (new_drv l (enabled (pre s) l)) with (@nil dkind).
    2:{ destruct l as [| |[]]; try reflexivity. discriminate. }
    cbn [map]. rewrite app_nil_r. unfold fin_of. rewrite (k_d HK). split; [reflexivity|apply (k_c HK)].
Qed.
