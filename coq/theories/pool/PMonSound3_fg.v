(** Monitor soundness for C03 — "forget only by flush": in one step the number of tasks filed in
    the registries drops only if the step emits an [EvDriverDone] event. *)
From TP Require Import PInv PInv_R_base PInv_R_tr PTrace_C13_fr.

Definition DD (es : list event) : Prop := exists d o, In (EvDriverDone d o) es.

Definition FG (n0 : nat) (s : state) : Prop :=
  (NoDup (regs s) /\ n0 <= length (regs s) /\ (forall u, In u (regs s) -> u < num_started s))
  \/ DD (evs s).

Lemma FG_eq n0 s s' :
  t_running s' = t_running s -> t_cancelled s' = t_cancelled s -> t_ended s' = t_ended s ->
  evs s' = evs s -> num_started s' = num_started s -> FG n0 s -> FG n0 s'.
Proof. unfold FG, regs. intros -> -> -> -> ->. auto. Qed.

Lemma FG_sched n0 s h : FG n0 s -> FG n0 (sched s h).
Proof. apply FG_eq; unfold sched; destruct (is_ready s h); reflexivity. Qed.

Lemma FG_fold {A} (f : state -> A -> state) n0 :
  (forall s x, FG n0 s -> FG n0 (f s x)) -> forall l s, FG n0 s -> FG n0 (fold_left f l s).
Proof. intros Hf. induction l as [|x l IH]; simpl; intros s H; auto. Qed.

Lemma FG_sched_cbs n0 s r : FG n0 s -> FG n0 (sched_cbs s r).
Proof. intros H. unfold sched_cbs. apply FG_fold; auto. intros; apply FG_sched; auto. Qed.

Lemma FG_emit n0 s e : FG n0 s -> FG n0 (emit s e).
Proof.
  intros [H|(d & o & H)]; [left; exact H|right].
  exists d, o. unfold emit; cbn. apply in_or_app. auto.
Qed.

Lemma FG_emit_dd n0 s d o : FG n0 (emit s (EvDriverDone d o)).
Proof. right. exists d, o. unfold emit; cbn. apply in_or_app. right. left. reflexivity. Qed.

(** ** list facts *)
Lemma nodup_app {A} (a b : list A) :
  NoDup (a ++ b) <-> NoDup a /\ NoDup b /\ (forall x, In x a -> ~ In x b).
Proof.
  induction a as [|h a IH]; simpl.
  - split; [intros H; repeat split; auto; constructor|tauto].
  - split.
    + intros H. inversion H as [|? ? Hn Hd]; subst. apply IH in Hd. destruct Hd as (D1 & D2 & D3).
      split; [constructor; auto; intros Hi; apply Hn; apply in_or_app; auto|].
      split; auto. intros x [<-|Hx]; auto. intros Hb. apply Hn. apply in_or_app; auto.
    + intros (D1 & D2 & D3). inversion D1 as [|? ? Hn Hd]; subst. constructor.
      * intros Hi. apply in_app_iff in Hi. destruct Hi as [Hi|Hi]; auto. apply (D3 h); auto.
      * apply IH. repeat split; auto.
Qed.

Lemma In_remove1_iff t l u : NoDup l -> (In u (remove1 t l) <-> In u l /\ u <> t).
Proof.
  intros Hnd. split.
  - intros H. split; [eapply In_remove1; eauto|]. intros ->.
    apply (NoDup_remove1_notin t Hnd). exact H.
  - intros [H1 H2]. apply In_remove1_neq; auto.
Qed.

(** moving [t] from one registry to the end of a later one *)
Lemma move_nodup (a b : list nat) t :
  NoDup (a ++ b) -> In t a -> NoDup (remove1 t a ++ (b ++ [t])) /\
  length (remove1 t a ++ (b ++ [t])) = length (a ++ b).
Proof.
  intros H Hin. apply nodup_app in H. destruct H as (Da & Db & Dab). split.
  - apply nodup_app. split; [apply NoDup_remove1; auto|]. split.
    + apply NoDup_snoc; auto.
    + intros x Hx. apply In_remove1_iff in Hx; auto. destruct Hx as [Hx Hne].
      rewrite in_app_iff. simpl. intros [Hb|[Hb|[]]]; [apply (Dab x); auto|congruence].
  - rewrite !app_length. simpl. pose proof (remove1_length_In t a Hin). lia.
Qed.

Lemma dict_add_new l t : ~ In t l -> dict_add l t = l ++ [t].
Proof. intros H. unfold dict_add. apply mem_false_In in H. rewrite H. reflexivity. Qed.

(** ** registries *)
Lemma FG_move_re n0 s t :
  FG n0 s -> In t (t_running s) ->
  FG n0 (set_t_ended (set_t_running s (remove1 t (t_running s)))
                     (dict_add (t_ended s) t)).
Proof.
  intros [(Hnd & Hn & Hb)|H] Hin; [left|right; exact H].
  assert (Hne : ~ In t (t_ended s)).
  { unfold regs in Hnd. apply nodup_app in Hnd. destruct Hnd as (_ & _ & D). intros He.
    apply (D t Hin). apply in_or_app. auto. }
  assert (Hsub : forall u, In u (regs (set_t_ended (set_t_running s (remove1 t (t_running s)))
                                              (dict_add (t_ended s) t))) -> In u (regs s)).
  { intros u. rewrite !In_regs. cbn. rewrite In_dict_add. intros [Hu|[Hu|[Hu| ->]]]; auto.
    left. eapply In_remove1; eauto. }
  split; [|split; [|intros u Hu; apply Hb, Hsub, Hu]]; unfold regs in *; cbn;
    rewrite (dict_add_new _ _ Hne);
    destruct (move_nodup (t_running s) (t_cancelled s ++ t_ended s) t Hnd Hin) as [A B];
    rewrite <- (app_assoc (t_cancelled s) (t_ended s) [t]) in A, B.
  - exact A.
  - rewrite B. exact Hn.
Qed.

Lemma FG_move_ce n0 s t :
  FG n0 s -> In t (t_cancelled s) ->
  FG n0 (set_t_ended (set_t_cancelled s (remove1 t (t_cancelled s)))
                     (dict_add (t_ended s) t)).
Proof.
  intros [(Hnd & Hn & Hb)|H] Hin; [left|right; exact H].
  assert (Hsub : forall u, In u (regs (set_t_ended (set_t_cancelled s (remove1 t (t_cancelled s)))
                                              (dict_add (t_ended s) t))) -> In u (regs s)).
  { intros u. rewrite !In_regs. cbn. rewrite In_dict_add. intros [Hu|[Hu|[Hu| ->]]]; auto.
    right; left. eapply In_remove1; eauto. }
  split; [|split; [|intros u Hu; apply Hb, Hsub, Hu]].
  - unfold regs in *. cbn.
    apply nodup_app in Hnd. destruct Hnd as (Dr & Dce & Drce).
    assert (Hne : ~ In t (t_ended s)).
    { apply nodup_app in Dce. destruct Dce as (_ & _ & D). apply D. exact Hin. }
    rewrite (dict_add_new _ _ Hne).
    destruct (move_nodup (t_cancelled s) (t_ended s) t Dce Hin) as [A B].
    apply nodup_app. split; [exact Dr|]. split; [exact A|].
    intros x Hx Hx'. apply (Drce x Hx). rewrite in_app_iff in *. simpl in Hx'.
    destruct Hx' as [Hx'|Hx'].
    + left. eapply In_remove1; eauto.
    + rewrite in_app_iff in Hx'. simpl in Hx'. destruct Hx' as [Hx'|[<-|[]]]; auto.
  - unfold regs in *. cbn.
    apply nodup_app in Hnd. destruct Hnd as (Dr & Dce & Drce).
    assert (Hne : ~ In t (t_ended s)).
    { apply nodup_app in Dce. destruct Dce as (_ & _ & D). apply D. exact Hin. }
    rewrite (dict_add_new _ _ Hne).
    destruct (move_nodup (t_cancelled s) (t_ended s) t Dce Hin) as [A B].
    rewrite app_length. rewrite app_length in Hn. rewrite B. exact Hn.
Qed.

Lemma FG_move_rc n0 s t :
  FG n0 s -> In t (t_running s) ->
  FG n0 (set_t_cancelled (set_t_running s (remove1 t (t_running s)))
                         (dict_add (t_cancelled s) t)).
Proof.
  intros [(Hnd & Hn & Hb)|H] Hin; [left|right; exact H].
  assert (Hsub : forall u, In u (regs (set_t_cancelled (set_t_running s (remove1 t (t_running s)))
                                              (dict_add (t_cancelled s) t))) -> In u (regs s)).
  { intros u. rewrite !In_regs. cbn. rewrite In_dict_add. intros [Hu|[[Hu| ->]|Hu]]; auto.
    left. eapply In_remove1; eauto. }
  split; [|split; [|intros u Hu; apply Hb, Hsub, Hu]]; unfold regs in *; cbn;
    apply nodup_app in Hnd; destruct Hnd as (Dr & Dce & Drce);
    assert (Hnc : ~ In t (t_cancelled s)) by (intros Hc; apply (Drce t Hin); apply in_or_app; auto);
    rewrite (dict_add_new _ _ Hnc);
    apply nodup_app in Dce; destruct Dce as (Dc & De & Dcex).
  - apply nodup_app. split; [apply NoDup_remove1; auto|]. split.
    + apply nodup_app. split; [apply NoDup_snoc; auto|]. split; [exact De|].
      intros x Hx. apply in_app_iff in Hx. simpl in Hx. destruct Hx as [Hx|[<-|[]]]; auto.
      intros He. apply (Drce t Hin). apply in_or_app. auto.
    + intros x Hx. apply In_remove1_iff in Hx; auto. destruct Hx as [Hx Hne'].
      rewrite !in_app_iff. simpl. intros [[Hb'|[Hb'|[]]]|Hb'].
      * apply (Drce x Hx). apply in_or_app. auto.
      * congruence.
      * apply (Drce x Hx). apply in_or_app. auto.
  - rewrite !app_length in *. simpl. pose proof (remove1_length_In t _ Hin). lia.
Qed.

Lemma FG_register_regs n0 s :
  FG n0 s ->
  FG n0 (set_t_running (set_num_started s (S (num_started s)))
                       (dict_add (t_running s) (num_started s))).
Proof.
  intros [(Hnd & Hn & Hb)|H]; [left|right; exact H].
  assert (Hnr : ~ In (num_started s) (regs s)) by (intros Hi; apply Hb in Hi; lia).
  assert (Hm : ~ In (num_started s) (t_running s))
    by (intros Hi; apply Hnr; apply In_regs; auto).
  unfold regs in *. cbn. rewrite (dict_add_new _ _ Hm).
  split; [|split].
  - rewrite <- app_assoc. simpl.
    apply nodup_app in Hnd. destruct Hnd as (Dr & Dce & Drce).
    apply nodup_app. split; [exact Dr|]. split.
    + constructor; auto. intros Hi. apply Hnr. apply in_or_app. auto.
    + intros x Hx [<-|Hx']; [contradiction|]. apply (Drce x Hx Hx').
  - rewrite !app_length in *. simpl. lia.
  - intros u Hu. rewrite <- app_assoc in Hu. apply in_app_iff in Hu. simpl in Hu.
    destruct Hu as [Hu|[<-|Hu]]; [| lia |].
    + assert (u < num_started s) by (apply Hb; apply in_or_app; auto). lia.
    + assert (u < num_started s) by (apply Hb; apply in_or_app; auto). lia.
Qed.

(** ** the pass *)
Lemma FG_set_ctl n0 s c : FG n0 s -> FG n0 (set_ctl s c).
Proof. exact (fun H => H). Qed.
Lemma FG_put_p n0 s t x : FG n0 s -> FG n0 (put_p s t x).
Proof. exact (fun H => H). Qed.
Lemma FG_put_m n0 s t x : FG n0 s -> FG n0 (put_m s t x).
Proof. exact (fun H => H). Qed.
Lemma FG_put_d n0 s t x : FG n0 s -> FG n0 (put_d s t x).
Proof. exact (fun H => H). Qed.
Lemma FG_set_res n0 s r : FG n0 s -> FG n0 (set_res s r).
Proof. exact (fun H => H). Qed.
Lemma FG_set_groups n0 s r : FG n0 s -> FG n0 (set_groups s r).
Proof. exact (fun H => H). Qed.
Lemma FG_set_start_calls n0 s r : FG n0 s -> FG n0 (set_start_calls s r).
Proof. exact (fun H => H). Qed.

Lemma FG_wake_next n0 s : FG n0 s -> FG n0 (wake_next s).
Proof.
  intros H. unfold wake_next. destruct (first_pending s (sem_waiters s)); auto.
  destruct (get_m s n); auto. apply FG_sched. exact H.
Qed.

Lemma FG_sem_release n0 s : FG n0 s -> FG n0 (sem_release s).
Proof. intros H. unfold sem_release. apply FG_wake_next. exact H. Qed.

Lemma FG_map_release n0 s m : FG n0 s -> FG n0 (map_release s m).
Proof.
  intros H. unfold map_release. destruct (get_m s m) as [x|]; auto.
  destruct (m_pc x); try exact H. destruct (m_fw x) as [[| | |]|]; try exact H.
  apply FG_sched. exact H.
Qed.

Lemma FG_finish_p n0 s t x : FG n0 s -> FG n0 (finish_p s t x).
Proof. intros H. unfold finish_p. apply FG_set_ctl, FG_sched_cbs, FG_put_p. exact H. Qed.

Lemma FG_suspend_p n0 s t x pc : FG n0 s -> FG n0 (suspend_p s t x pc).
Proof.
  intros H. unfold suspend_p. destruct (p_mc x).
  - apply FG_set_ctl, FG_sched, FG_put_p. exact H.
  - exact H.
Qed.

Lemma FG_moved_tail n0 s2 t x :
  FG n0 s2 ->
  FG n0 (let s3 := sem_release s2 in
     let x := set_p_nrel x (S (p_nrel x)) in
     let s4 := if p_ismap x then map_release s3 (p_req x) else s3 in
     match p_ecb x with
     | CbNone => finish_p s4 t x
     | _ =>
        set_ctl (emit (put_p s4 t (set_p_pc (set_p_necb x (S (p_necb x))) PUEndCb))
                      (EvCbBegin KEnd t (classify s4 t)))
                (CUser (TP t))
     end).
Proof.
  intros H. cbv zeta.
  set (s3 := sem_release s2).
  assert (H3 : FG n0 s3) by (apply FG_sem_release; exact H).
  set (x1 := set_p_nrel x (S (p_nrel x))).
  set (s4 := if p_ismap x1 then map_release s3 (p_req x1) else s3).
  assert (H4 : FG n0 s4).
  { unfold s4. destruct (p_ismap x1); auto. apply FG_map_release; auto. }
  clearbody s4. clear H3. clearbody s3.
  destruct (p_ecb x1).
  - apply FG_finish_p; auto.
  - apply FG_set_ctl, FG_emit, FG_put_p; auto.
  - apply FG_set_ctl, FG_emit, FG_put_p; auto.
Qed.

Lemma FG_enter_end n0 s t x : FG n0 s -> FG n0 (enter_end s t x).
Proof.
  intros H. unfold enter_end.
  destruct (mem t (t_running s)) eqn:Hr; [|destruct (mem t (t_cancelled s)) eqn:Hc].
  - apply (FG_moved_tail n0 (set_t_ended (set_t_running s (remove1 t (t_running s)))
                                         (dict_add (t_ended s) t)) t x).
    apply FG_move_re; auto. apply mem_In; auto.
  - apply (FG_moved_tail n0 (set_t_ended (set_t_cancelled s (remove1 t (t_cancelled s)))
                                         (dict_add (t_ended s) t)) t x).
    apply FG_move_ce; auto. apply mem_In; auto.
  - apply FG_finish_p; auto.
Qed.

Lemma FG_enter_cancel n0 s t x : FG n0 s -> FG n0 (enter_cancel s t x).
Proof.
  intros H. unfold enter_cancel.
  destruct (mem t (t_running s)) eqn:Hr.
  - assert (H1 : FG n0 (set_t_cancelled (set_t_running s (remove1 t (t_running s)))
                                         (dict_add (t_cancelled s) t)))
      by (apply FG_move_rc; auto; apply mem_In; auto).
    destruct (p_ccb x).
    + apply FG_enter_end. exact H1.
    + apply FG_set_ctl, FG_emit, FG_put_p. exact H1.
    + apply FG_set_ctl, FG_emit, FG_put_p. exact H1.
  - apply FG_enter_end; auto.
Qed.

Lemma FG_continue_p n0 s t : FG n0 s -> FG n0 (continue_p s t).
Proof.
  intros H. unfold continue_p.
  destruct (get_p s t) as [x|]; auto.
  destruct (p_pc x); auto.
  - destruct (w_first (p_w x)).
    + apply FG_suspend_p; auto.
    + apply FG_enter_end, FG_emit. exact H.
    + apply FG_enter_end, FG_emit. exact H.
  - destruct (p_fin x); apply FG_enter_end, FG_emit; exact H.
  - destruct (w_cancel (p_w x)); [apply FG_enter_cancel|apply FG_enter_end]; apply FG_emit; exact H.
  - destruct (p_ccb x) as [|r|slow r].
    + apply FG_enter_end; auto.
    + apply FG_enter_end, FG_emit; exact H.
    + destruct slow.
      * apply FG_suspend_p; auto.
      * apply FG_enter_end, FG_emit; exact H.
  - destruct (p_ecb x) as [|r|slow r].
    + apply FG_finish_p; auto.
    + apply FG_finish_p, FG_emit; exact H.
    + destruct slow.
      * apply FG_suspend_p; auto.
      * apply FG_finish_p, FG_emit; exact H.
Qed.

Lemma FG_run_p n0 s t : FG n0 s -> FG n0 (run_p s t).
Proof.
  intros H. unfold run_p.
  destruct (get_p s t) as [x0|]; auto.
  set (x := set_p_mc (set_p_fw x0 None) false).
  destruct (p_pc x0); auto.
  - destruct (task_input (p_mc x0) (p_fw x0)).
    + destruct (p_unst x).
      * apply FG_set_ctl, FG_emit, FG_put_p. exact H.
      * apply FG_set_ctl, FG_emit, FG_put_p. exact H.
      * apply FG_enter_cancel; auto.
    + apply FG_finish_p; auto.
    + apply FG_finish_p; auto.
  - destruct (task_input (p_mc x0) (p_fw x0)).
    + exact H.
    + apply FG_set_ctl, FG_emit, FG_put_p. exact H.
    + apply FG_set_ctl, FG_emit, FG_put_p. exact H.
  - destruct (task_input (p_mc x0) (p_fw x0)); apply FG_enter_end, FG_emit; exact H.
  - destruct (task_input (p_mc x0) (p_fw x0)); apply FG_finish_p, FG_emit; exact H.
Qed.

Lemma FG_finish_m n0 s m x e : FG n0 s -> FG n0 (finish_m s m x e).
Proof. intros H. unfold finish_m. apply FG_set_ctl, FG_sched_cbs, FG_put_m. exact H. Qed.

Lemma FG_suspend_m n0 s m x pc : FG n0 s -> FG n0 (suspend_m s m x pc).
Proof.
  intros H. unfold suspend_m. destruct (m_mc x).
  - apply FG_set_ctl, FG_sched, FG_put_m. exact H.
  - exact H.
Qed.

Lemma FG_to_iter n0 s m : FG n0 s -> FG n0 (to_iter s m).
Proof.
  intros H. unfold to_iter. destruct (get_m s m); [|exact H].
  apply FG_set_ctl, FG_emit, FG_put_m. exact H.
Qed.

Lemma FG_register n0 s m x : FG n0 s -> FG n0 (register s m x).
Proof.
  intros H. unfold register. apply FG_put_m, FG_sched.
  exact (FG_register_regs n0 s H).
Qed.

Lemma FG_apply_loop n0 rem : forall s m, FG n0 s -> FG n0 (apply_loop rem s m).
Proof.
  induction rem as [|r IH]; intros s m H; simpl.
  - destruct (get_m s m); auto. apply FG_finish_m; auto.
  - destruct (get_m s m) as [x|]; auto.
    destruct (nth (m_idx x) (m_bad x) false).
    + apply IH. exact H.
    + unfold try_start. destruct (closed s).
      * apply FG_finish_m; auto.
      * destruct (sem_locked s).
        -- apply FG_suspend_m. exact H.
        -- apply IH. apply FG_register. exact H.
Qed.

Lemma FG_spawn_next n0 s m : FG n0 s -> FG n0 (spawn_next s m).
Proof.
  intros H. unfold spawn_next. destruct (get_m s m) as [x|]; auto.
  destruct (m_kind x); [apply FG_apply_loop|apply FG_to_iter|apply FG_apply_loop]; auto.
Qed.

Lemma FG_start_then_next n0 s m x : FG n0 s -> FG n0 (start_then_next s m x).
Proof.
  intros H. unfold start_then_next, try_start.
  destruct (closed s).
  - apply FG_finish_m; auto.
  - destruct (sem_locked s).
    + apply FG_suspend_m. exact H.
    + apply FG_spawn_next, FG_register. exact H.
Qed.

Lemma FG_continue_m n0 s m : FG n0 s -> FG n0 (continue_m s m).
Proof.
  intros H. unfold continue_m. destruct (get_m s m) as [x|]; auto.
  destruct (m_pc x); auto.
  destruct (nth_error (m_els x) (m_idx x)) as [e|].
  - destruct (e_bad e).
    + apply FG_to_iter. exact H.
    + destruct (m_mapval x).
      * apply FG_suspend_m; auto.
      * apply FG_start_then_next; auto.
  - apply FG_finish_m; auto.
Qed.

Lemma FG_run_m n0 s m : FG n0 s -> FG n0 (run_m s m).
Proof.
  intros H. unfold run_m. destruct (get_m s m) as [x0|]; auto.
  destruct (m_pc x0); auto.
  - destruct (task_input (m_mc x0) (m_fw x0)).
    + apply FG_spawn_next. exact H.
    + apply FG_finish_m; auto.
    + apply FG_finish_m; auto.
  - destruct (task_input (m_mc x0) (m_fw x0)).
    + apply FG_start_then_next; auto.
    + apply FG_finish_m; auto.
    + apply FG_finish_m; auto.
  - set (x := set_m_mc (set_m_fw x0 None) false).
    set (s1 := put_m (set_sem_waiters s (remove1 m (sem_waiters s))) m x).
    assert (H1 : FG n0 s1) by exact H.
    clearbody s1.
    destruct (task_input (m_mc x0) (m_fw x0)).
    + apply FG_spawn_next, FG_register.
      destruct (ninf_pos (sem_value s1)); auto. apply FG_wake_next; auto.
    + apply FG_finish_m.
      destruct (match m_fw x0 with Some FCancelled => true | _ => false end); auto.
      apply FG_sem_release; auto.
    + apply FG_finish_m.
      destruct (match m_fw x0 with Some FCancelled => true | _ => false end); auto.
      apply FG_sem_release; auto.
Qed.

(** drivers: every completion emits [EvDriverDone] *)
Lemma FG_finish_d n0 s d x e : FG n0 (finish_d s d x e).
Proof. unfold finish_d. apply FG_set_ctl. apply (FG_emit_dd n0 (put_d s d _)). Qed.

Lemma FG_after_g2 n0 s d x outer : FG n0 (after_g2 s d x outer).
Proof.
  unfold after_g2. destruct outer; try apply FG_finish_d; destruct (d_kind x); apply FG_finish_d.
Qed.

Lemma FG_start_g2 n0 s d x cs re : FG n0 s -> FG n0 (start_g2 s d x cs re).
Proof.
  intros H. unfold start_g2. destruct (make_gather s (map TP cs) re) as [g outer].
  destruct outer; try apply FG_after_g2. exact H.
Qed.

Lemma FG_after_g1 n0 s d x outer : FG n0 s -> FG n0 (after_g1 s d x outer).
Proof.
  intros H. unfold after_g1. destruct (d_kind x) as [re|re|].
  - destruct outer as [| |[]|]; try apply FG_finish_d; apply FG_start_g2; exact H.
  - destruct (if re then None else first_exception s
        (match d_g1 x with Some g => g_children g | None => [] end)).
    + apply FG_finish_d.
    + apply FG_start_g2; exact H.
  - apply FG_finish_d.
Qed.

Lemma FG_start_g1 n0 s d x cs re : FG n0 s -> FG n0 (start_g1 s d x cs re).
Proof.
  intros H. unfold start_g1. destruct (make_gather s (map TM cs) re) as [g outer].
  destruct outer; try (apply FG_after_g1; exact H). exact H.
Qed.

Lemma FG_run_d n0 s d : FG n0 s -> FG n0 (run_d s d).
Proof.
  intros H. unfold run_d. destruct (get_d s d) as [x0|]; auto.
  destruct (d_pc x0); auto.
  - cbn [d_kind set_d_fw]. destruct (d_kind x0) as [re|re|].
    + destruct (pop_ended s (gmeta s)) as [gm ended]. apply FG_start_g1. exact H.
    + apply FG_start_g1. exact H.
    + destruct (closed s); [apply FG_finish_d|exact H].
  - apply FG_after_g1; auto.
  - apply FG_after_g2; auto.
  - apply FG_finish_d.
Qed.

Lemma FG_run_g n0 s d c : FG n0 s -> FG n0 (run_g s d c).
Proof.
  intros H. unfold run_g. destruct (get_d s d) as [x|]; auto.
  destruct (tref_final s c) as [o|]; auto.
  destruct (match c with TM _ => true | _ => false end);
    (match goal with |- FG _ (match ?g with Some _ => _ | None => _ end) =>
       destruct g as [g0|]; auto end;
     match goal with |- FG _ (match ?f with Some _ => _ | None => _ end) =>
       destruct f as [[| | |]|]; try exact H end;
     match goal with |- FG _ (let '(_, _) := ?p in _) => destruct p as [nfin outer] end;
     destruct outer; try exact H; apply FG_sched; exact H).
Qed.

(** operations *)
Lemma FG_know n0 s g : FG n0 s -> FG n0 (know s g).
Proof. intros H. unfold know. destruct (existsb (gname_eqb g) (known s)); exact H. Qed.

Lemma FG_cancel_m n0 s m : FG n0 s -> FG n0 (cancel_m s m).
Proof.
  intros H. unfold cancel_m. destruct (get_m s m) as [x|]; auto.
  destruct (m_final x); auto.
  destruct (is_current s (TM m)); (destruct (fut_pending (m_fw x)); [apply FG_sched|]; exact H).
Qed.

Lemma FG_cancel_p n0 s t : FG n0 s -> FG n0 (cancel_p s t).
Proof.
  intros H. unfold cancel_p. destruct (get_p s t) as [x|]; auto.
  destruct (p_unst x); try exact H.
  destruct (p_final x); auto.
  destruct (is_current s (TP t) && final_segment x);
    (destruct (fut_pending (p_fw x)); [apply FG_sched|]; exact H).
Qed.

Lemma FG_do_cancel n0 s ids : FG n0 s -> FG n0 (do_cancel s ids).
Proof.
  intros H. unfold do_cancel. destruct (first_lookup_err s ids); [exact H|].
  apply FG_fold; auto. intros; apply FG_cancel_p; auto.
Qed.

Lemma FG_cancel_group_metas n0 s g : FG n0 s -> FG n0 (cancel_group_metas s g).
Proof.
  intros H. unfold cancel_group_metas. destruct (glookup g (gmeta s)) as [ms|]; auto.
  match goal with |- FG _ (set_meta_cancelled ?s' _) => change (FG n0 s') end.
  apply FG_fold; [intros; apply FG_cancel_m; auto|]. exact H.
Qed.

Lemma FG_cancel_group_body n0 s g ids : FG n0 s -> FG n0 (cancel_group_body s g ids).
Proof.
  intros H. unfold cancel_group_body. apply FG_fold.
  - intros s' t H'. destruct (mem t (t_running s')); auto. apply FG_cancel_p; auto.
  - change (FG n0 (cancel_group_metas s g)). apply FG_cancel_group_metas; auto.
Qed.

Lemma FG_cancel_all_groups n0 gs : forall s, FG n0 s -> FG n0 (cancel_all_groups s gs).
Proof.
  induction gs as [|[g ids] gs IH]; simpl; intros s H; auto.
  apply IH. apply FG_cancel_group_body; auto.
Qed.

Lemma FG_new_meta n0 s x : FG n0 s -> FG n0 (new_meta s x).
Proof. intros H. unfold new_meta. apply FG_sched. exact H. Qed.

Lemma FG_do_op n0 s o : FG n0 s -> FG n0 (do_op s o).
Proof.
  intros H. destruct o; unfold do_op; cbv zeta.
  - set (s1 := match g with Some g0 => know s g0 | None => s end).
    assert (H1 : FG n0 s1) by (unfold s1; destruct g; [apply FG_know|]; exact H).
    clearbody s1.
    destruct (check_start s1 noncoro); [exact H1|].
    match goal with |- FG _ (if ?c then _ else _) => destruct c end; [exact H1|].
    apply FG_set_res, FG_new_meta, FG_set_groups, FG_know; exact H1.
  - set (s1 := match g with Some g0 => know s g0 | None => s end).
    assert (H1 : FG n0 s1) by (unfold s1; destruct g; [apply FG_know|]; exact H).
    clearbody s1.
    destruct (check_start s1 noncoro); [exact H1|].
    destruct (nc =? 0); [exact H1|].
    match goal with |- FG _ (if ?c then _ else _) => destruct c end; [exact H1|].
    apply FG_set_res, FG_new_meta, FG_set_groups, FG_know; exact H1.
  - destruct (check_start s false); [exact H|].
    apply FG_set_res, FG_new_meta, FG_set_groups, FG_set_start_calls, FG_know; exact H.
  - apply FG_do_cancel; auto.
  - pose proof (FG_know n0 s g H) as H1.
    destruct (glookup g (groups (know s g))); [|exact H1].
    apply FG_cancel_group_body. exact H1.
  - apply FG_cancel_all_groups. exact H.
  - match goal with |- FG _ (match res ?s' with _ => _ end) =>
      assert (H1 : FG n0 s') by (apply FG_do_cancel; exact H); destruct (res s'); exact H1 end.
  - match goal with |- FG _ (match res ?s' with _ => _ end) =>
      assert (H1 : FG n0 s') by (apply FG_do_cancel; exact H); destruct (res s'); exact H1 end.
  - exact H.
  - destruct (0 <? n_gac s); exact H.
  - destruct v; exact H.
  - match goal with |- FG _ (set_res ?s' _) => change (FG n0 s') end.
    apply FG_fold; auto. intros; apply FG_know; auto.
  - apply FG_sched. destruct k; exact H.
  - destruct (get_p s tid) as [x|]; [|exact H]. apply FG_sched. exact H.
  - destruct (get_p s tid) as [x|]; [|exact H]. apply FG_sched. exact H.
Qed.

Theorem forget_step s l :
  I1 s ->
  length (regs s) <= length (regs (step s l)) \/
  exists d o, In (EvDriverDone d o) (evs (step s l)).
Proof.
  intros [Hnd Hlt _ _].
  assert (H0 : FG (length (regs s)) (step s l)).
  { unfold step.
    set (s1 := set_res (set_evs s []) RNone).
    assert (H : FG (length (regs s)) s1) by (left; repeat split; auto).
    clearbody s1.
    destruct (negb (enabled s1 l)); [exact H|].
    destruct l as [h| |o].
    - assert (H2 : FG (length (regs s)) (unsched s1 h)) by exact H.
      destruct h as [[t|m|d]|d c]; simpl run_handle.
      + apply FG_run_p; auto.
      + apply FG_run_m; auto.
      + apply FG_run_d; auto.
      + apply FG_run_g; auto.
    - destruct (ctl s1) as [|[t|m|d]]; auto.
      + apply FG_continue_p; auto.
      + apply FG_continue_m; auto.
    - apply FG_do_op; auto. }
  destruct H0 as [(_ & H & _)|H]; auto.
Qed.
