(** Events emitted by the model functions (frame lemmas for [evs]). *)
From TP Require Import PInv PInv_P_base PInv_P_view PInv_P_inv PSpecStep.

Lemma ev_sched s h : evs (sched s h) = evs s.
Proof. unfold sched. destruct (is_ready s h); reflexivity. Qed.

Lemma ev_fold {A} (f : state -> A -> state) :
  (forall s a, evs (f s a) = evs s) -> forall l s, evs (fold_left f l s) = evs s.
Proof. intros H l. induction l; simpl; intros; auto. now rewrite IHl, H. Qed.

Lemma ev_know s g : evs (know s g) = evs s.
Proof. unfold know. destruct (existsb _ _); reflexivity. Qed.

Lemma ev_sched_cbs s r : evs (sched_cbs s r) = evs s.
Proof. unfold sched_cbs. apply ev_fold, ev_sched. Qed.

Lemma ev_wake_next s : evs (wake_next s) = evs s.
Proof.
  unfold wake_next. destruct (first_pending _ _); auto. destruct (get_m s n); auto.
  now rewrite ev_sched.
Qed.

Lemma ev_sem_release s : evs (sem_release s) = evs s.
Proof. unfold sem_release. now rewrite ev_wake_next. Qed.

Lemma ev_map_release s m : evs (map_release s m) = evs s.
Proof.
  unfold map_release. destruct (get_m s m); auto.
  destruct (m_pc m0); auto; destruct (m_fw m0) as [[]|]; auto; now rewrite ev_sched.
Qed.

Lemma ev_finish_p s t x : evs (finish_p s t x) = evs s.
Proof. unfold finish_p. cbn [evs set_ctl]. now rewrite ev_sched_cbs. Qed.

Lemma ev_finish_m s m x e : evs (finish_m s m x e) = evs s.
Proof. unfold finish_m. cbn [evs set_ctl]. now rewrite ev_sched_cbs. Qed.

Lemma ev_suspend_p s t x pc : evs (suspend_p s t x pc) = evs s.
Proof. unfold suspend_p. destruct (p_mc x); cbn [evs set_ctl]; [now rewrite ev_sched|reflexivity]. Qed.

Lemma ev_suspend_m s m x pc : evs (suspend_m s m x pc) = evs s.
Proof. unfold suspend_m. destruct (m_mc x); cbn [evs set_ctl]; [now rewrite ev_sched|reflexivity]. Qed.

Lemma ev_cancel_m s m : evs (cancel_m s m) = evs s.
Proof.
  unfold cancel_m. repeat (first [reflexivity | rewrite ev_sched | dmatch]).
Qed.

Lemma ev_cancel_p s t : evs (cancel_p s t) = evs s.
Proof.
  unfold cancel_p. repeat (first [reflexivity | rewrite ev_sched | dmatch]).
Qed.

Lemma ev_cancel_group_metas s g : evs (cancel_group_metas s g) = evs s.
Proof.
  unfold cancel_group_metas. destruct (glookup _ _); auto.
  cbn [evs set_meta_cancelled]. now rewrite (ev_fold _ ev_cancel_m).
Qed.

Lemma ev_cancel_group_body s g ids : evs (cancel_group_body s g ids) = evs s.
Proof.
  unfold cancel_group_body. rewrite ev_fold.
  - cbn [evs mark_dead set_mtasks]. apply ev_cancel_group_metas.
  - intros s0 t. destruct (mem t (t_running s0)); auto using ev_cancel_p.
Qed.

Lemma ev_cancel_all_groups gs : forall s, evs (cancel_all_groups s gs) = evs s.
Proof.
  induction gs as [|[g ids] r IH]; simpl; intros; auto. now rewrite IH, ev_cancel_group_body.
Qed.

Lemma ev_do_cancel s ids : evs (do_cancel s ids) = evs s.
Proof.
  unfold do_cancel. destruct (first_lookup_err s ids); [reflexivity|].
  apply ev_fold, ev_cancel_p.
Qed.

Lemma ev_new_meta s x : evs (new_meta s x) = evs s.
Proof. unfold new_meta. now rewrite ev_sched. Qed.

Lemma ev_set_res s r : evs (set_res s r) = evs s.
Proof. reflexivity. Qed.
Lemma ev_set_groups s r : evs (set_groups s r) = evs s.
Proof. reflexivity. Qed.
Lemma ev_set_start_calls s r : evs (set_start_calls s r) = evs s.
Proof. reflexivity. Qed.

Lemma ev_op_apply s num bad noncoro w ecb ccb og :
  evs (do_op s (OpApply num bad noncoro w ecb ccb og)) = evs s.
Proof.
  unfold do_op.
  assert (H0 : evs (match og with Some g => know s g | None => s end) = evs s)
    by (destruct og; [apply ev_know|reflexivity]).
  destruct (check_start _ _); [now rewrite ev_set_res|].
  destruct (ghas _ _); [now rewrite ev_set_res|].
  now rewrite ev_set_res, ev_new_meta, ev_set_groups, ev_know.
Qed.

Lemma ev_op_map s stars els nc noncoro ecb ccb og :
  evs (do_op s (OpMap stars els nc noncoro ecb ccb og)) = evs s.
Proof.
  unfold do_op.
  assert (H0 : evs (match og with Some g => know s g | None => s end) = evs s)
    by (destruct og; [apply ev_know|reflexivity]).
  destruct (check_start _ _); [now rewrite ev_set_res|].
  destruct (Nat.eqb nc 0); [now rewrite ev_set_res|].
  destruct (ghas _ _); [now rewrite ev_set_res|].
  now rewrite ev_set_res, ev_new_meta, ev_set_groups, ev_know.
Qed.

Lemma ev_op_stop s ids :
  evs (match res (do_cancel s ids) with
       | RErr _ => do_cancel s ids | _ => set_res (do_cancel s ids) (RIds ids) end) = evs s.
Proof. destruct (res _); rewrite ?ev_set_res; apply ev_do_cancel. Qed.

Lemma ev_do_op s o : evs (do_op s o) = evs s.
Proof.
  destruct o.
  - apply ev_op_apply.
  - apply ev_op_map.
  - unfold do_op. destruct (check_start s false); [reflexivity|].
    now rewrite ev_set_res, ev_new_meta, ev_set_groups, ev_set_start_calls, ev_know.
  - apply ev_do_cancel.
  - unfold do_op. destruct (glookup _ _).
    + now rewrite ev_cancel_group_body, ev_set_groups, ev_know.
    + now rewrite ev_set_res, ev_know.
  - unfold do_op. now rewrite ev_cancel_all_groups.
  - apply ev_op_stop.
  - apply ev_op_stop.
  - reflexivity.
  - unfold do_op. destruct (Nat.ltb _ _); reflexivity.
  - unfold do_op. destruct v; reflexivity.
  - unfold do_op. rewrite ev_set_res. apply ev_fold, ev_know.
  - unfold do_op. rewrite ev_sched. destruct k; reflexivity.
  - unfold do_op. destruct (get_p s tid); auto. now rewrite ev_sched.
  - unfold do_op. destruct (get_p s tid); auto. now rewrite ev_sched.
Qed.

Lemma ev_run_g s d c : evs (run_g s d c) = evs s.
Proof. unfold run_g. repeat (first [reflexivity | rewrite ev_sched | dmatch]). Qed.

(** ** the spawner chain emits EvPull only *)
Definition only_pull (s s' : state) : Prop :=
  forall e, In e (evs s') -> In e (evs s) \/ exists m k, e = EvPull m k.

Lemma op_refl s s' : evs s' = evs s -> only_pull s s'.
Proof. intros E e. rewrite E. auto. Qed.

Lemma op_trans s1 s2 s3 : only_pull s1 s2 -> only_pull s2 s3 -> only_pull s1 s3.
Proof. intros H1 H2 e H. apply H2 in H. destruct H; auto. Qed.

Lemma ev_register s m x : evs (register s m x) = evs s.
Proof. unfold register. cbn [evs put_m set_mtasks]. now rewrite ev_sched. Qed.

Lemma ev_try_start s m x : evs (fst (try_start s m x)) = evs s.
Proof.
  unfold try_start. destruct (closed s); [|destruct (sem_locked s)]; cbn [fst].
  - apply ev_finish_m.
  - now rewrite ev_suspend_m.
  - now rewrite ev_register.
Qed.

Lemma ev_apply_loop rem m : forall s, evs (apply_loop rem s m) = evs s.
Proof.
  induction rem as [|r IH]; intros s; simpl.
  - destruct (get_m s m); auto. apply ev_finish_m.
  - destruct (get_m s m) as [x|]; auto. destruct (nth (m_idx x) (m_bad x) false).
    + now rewrite IH.
    + pose proof (ev_try_start s m x) as H1.
      destruct (try_start s m x) as [s' cont]. cbn [fst] in H1. destruct cont; auto.
      now rewrite IH.
Qed.

Lemma op_to_iter s m : only_pull s (to_iter s m).
Proof.
  unfold to_iter. destruct (get_m s m) as [x|]; [|now apply op_refl].
  intros e. cbn [evs set_ctl emit set_evs put_m set_mtasks]. rewrite in_app_iff. simpl.
  intros [H|[<-|[]]]; eauto.
Qed.

Lemma op_spawn_next s m : only_pull s (spawn_next s m).
Proof.
  unfold spawn_next. destruct (get_m s m) as [x|]; [|now apply op_refl].
  destruct (m_kind x); try (apply op_refl, ev_apply_loop). apply op_to_iter.
Qed.

Lemma op_start_then_next s m x : only_pull s (start_then_next s m x).
Proof.
  unfold start_then_next. pose proof (ev_try_start s m x) as H1.
  destruct (try_start s m x) as [s' cont]. cbn [fst] in H1. destruct cont.
  - eapply op_trans; [apply op_refl, H1|apply op_spawn_next].
  - now apply op_refl.
Qed.

Lemma op_continue_m s m : only_pull s (continue_m s m).
Proof.
  unfold continue_m. destruct (get_m s m) as [x|]; [|now apply op_refl].
  destruct (m_pc x); try (now apply op_refl). destruct (nth_error _ _) as [e|].
  - destruct (e_bad e).
    + eapply op_trans; [|apply op_to_iter]. now apply op_refl.
    + destruct (m_mapval x).
      * apply op_refl, ev_suspend_m.
      * apply op_start_then_next.
  - apply op_refl, ev_finish_m.
Qed.

Lemma op_run_m s m : only_pull s (run_m s m).
Proof.
  unfold run_m. destruct (get_m s m) as [x0|]; [|now apply op_refl].
  destruct (m_pc x0); try (now apply op_refl).
  - destruct (task_input _ _); try (apply op_refl, ev_finish_m).
    eapply op_trans; [|apply op_spawn_next]. now apply op_refl.
  - destruct (task_input _ _); try (apply op_refl, ev_finish_m).
    apply op_start_then_next.
  - cbv zeta. destruct (task_input _ _).
    + eapply op_trans; [|apply op_spawn_next]. apply op_refl. rewrite ev_register.
      destruct (ninf_pos _); [rewrite ev_wake_next|]; reflexivity.
    + apply op_refl. rewrite ev_finish_m.
      destruct (match m_fw x0 with Some FCancelled => true | _ => false end);
        [|rewrite ev_sem_release]; reflexivity.
    + apply op_refl. rewrite ev_finish_m.
      destruct (match m_fw x0 with Some FCancelled => true | _ => false end);
        [|rewrite ev_sem_release]; reflexivity.
Qed.
