(** Monitor soundness, C06 — the tracker side: how [k_target], [k_expect], [k_prev] evolve and
    which clauses of property 6 one monitor step produces. *)
From TP Require Import PMon PMonSound_trk.

Definition f6 (l : list clause) : list clause :=
  filter (fun cl => Nat.eqb (clause_prop cl) 6) l.

Definition NC6 (l : list clause) : Prop := Forall (fun cl => clause_prop cl <> 6) l.

Lemma NC6_nil : NC6 [].
Proof. constructor. Qed.
Lemma NC6_app a b : NC6 a -> NC6 b -> NC6 (a ++ b).
Proof. intros. apply Forall_app. auto. Qed.
Lemma NC6_fails b c : clause_prop c <> 6 -> NC6 (fails b c).
Proof. intros H. unfold fails. destruct b; constructor; auto. Qed.
Lemma NC6_one c : clause_prop c <> 6 -> NC6 [c].
Proof. intros H. constructor; auto. Qed.
Lemma NC6_filter f l : NC6 l -> NC6 (filter f l).
Proof.
  unfold NC6. rewrite !Forall_forall. intros H x Hx. apply filter_In in Hx. apply H. tauto.
Qed.
Lemma NC6_flat_map {A} (f : A -> list clause) l : (forall a, NC6 (f a)) -> NC6 (flat_map f l).
Proof. intros H. induction l as [|a l IH]; simpl; [apply NC6_nil|]. apply NC6_app; auto. Qed.
Lemma NC6_f6 l : NC6 l -> f6 l = [].
Proof.
  induction 1 as [|c l Hc Hl IH]; simpl; auto.
  destruct (Nat.eqb_spec (clause_prop c) 6); [tauto|exact IH].
Qed.
Lemma f6_app a b : f6 (a ++ b) = f6 a ++ f6 b.
Proof. apply filter_app. Qed.
Lemma f6_fails b c : clause_prop c = 6 -> f6 (fails b c) = fails b c.
Proof. intros H. unfold fails, f6. destruct b; simpl; auto. rewrite H. reflexivity. Qed.

Ltac nc6 :=
  repeat first
    [ apply NC6_nil
    | apply NC6_app
    | apply NC6_fails; discriminate
    | apply NC6_one; discriminate
    | apply NC6_filter ].

(** ** events *)
Definition ex6 (E : list nat) (e : event) : list nat :=
  match e with EvCancelled t | EvExit t => removeall t E | _ => E end.

Definition cl6 (T E : list nat) (e : event) : list clause :=
  match e with
  | EvCancelled t => fails (mem t T) C06_no_spurious
  | EvExit t => fails (negb (mem t E)) C06_delivered
  | _ => []
  end.

Fixpoint cls6 (T E : list nat) (es : list event) : list clause :=
  match es with
  | [] => []
  | e :: r => cl6 T E e ++ cls6 T (ex6 E e) r
  end.

Lemma on_event_6 k o e :
  k_target (fst (on_event k o e)) = k_target k /\
  k_expect (fst (on_event k o e)) = ex6 (k_expect k) e /\
  k_prev (fst (on_event k o e)) = k_prev k /\
  f6 (snd (on_event k o e)) = cl6 (k_target k) (k_expect k) e.
Proof.
  destruct e as [t r el|t|t|kd t cl|kd t raised|kd t|r n|d oc]; unfold on_event, ex6, cl6.
  - destruct (nth_error (k_reqs k) r) as [x|]; cbn [fst snd]; repeat split; auto;
      apply NC6_f6; try (destruct (is_map_kind (r_kind x))); nc6.
  - cbn [fst snd]. repeat split; auto. now apply f6_fails.
  - cbn [fst snd]. repeat split; auto. now apply f6_fails.
  - destruct kd; cbn [fst snd]; repeat split; auto; apply NC6_f6; nc6.
  - cbn [fst snd]. repeat split; auto. apply NC6_f6. nc6.
  - cbn [fst snd]. repeat split; auto.
  - destruct (nth_error (k_reqs k) r) as [x|]; cbn [fst snd]; repeat split; auto;
      apply NC6_f6; nc6.
  - destruct (nth_error (k_drvs k) d) as [v|]; cbn [fst snd]; [|repeat split; auto].
    destruct (v_kind v); destruct oc; cbn [fst snd];
      try (destruct (k_prev k) as [p|] eqn:Ep; cbn [fst snd]);
      repeat split; auto; try exact Ep; apply NC6_f6; nc6.
Qed.

Lemma on_events_6 es : forall k o,
  k_target (fst (on_events k o es)) = k_target k /\
  k_expect (fst (on_events k o es)) = fold_left ex6 es (k_expect k) /\
  k_prev (fst (on_events k o es)) = k_prev k /\
  f6 (snd (on_events k o es)) = cls6 (k_target k) (k_expect k) es.
Proof.
  induction es as [|e es IH]; intros k o; simpl; auto.
  pose proof (on_event_6 k o e) as (A1 & A2 & A3 & A4).
  destruct (on_event k o e) as [k1 c1]. simpl in *.
  pose proof (IH k1 o) as (B1 & B2 & B3 & B4).
  destruct (on_events k1 o es) as [k2 c2]. simpl in *.
  rewrite f6_app, B1, B2, B3, B4, A1, A2, A3, A4. auto.
Qed.

Lemma note_raising_6 es : forall k,
  k_target (note_raising_starts k es) = k_target k /\
  k_expect (note_raising_starts k es) = k_expect k /\
  k_prev (note_raising_starts k es) = k_prev k.
Proof.
  unfold note_raising_starts.
  induction es as [|e es IH]; intros k; simpl; auto.
  match goal with |- context [fold_left ?f es ?k1] =>
    destruct (IH k1) as (A & B & C); rewrite A, B, C end.
  destruct e; auto.
  destruct (req_of k tid) as [[[r0 el0] x0]|]; auto.
  destruct (w_first _); auto.
Qed.

(** ** labels *)
Definition tids (k : trk) (o : obs) : list nat :=
  if negb (o_enabled o) then [] else
  match o_label o with
  | LOp (OpCancel ids) => match o_res o with RNone => ids | _ => [] end
  | LOp (OpCancelGroup g) =>
      match o_res o with
      | RNone => match group_ids (prev_or k o) g with Some l => l | None => [] end
      | _ => []
      end
  | LOp OpCancelAll => all_ids (prev_or k o)
  | LOp (OpStop _) | LOp OpStopAll => match o_res o with RIds ids => ids | _ => [] end
  | _ => []
  end.

Definition lcl6 (k : trk) (o : obs) : list clause :=
  if negb (o_enabled o) then [] else
  match o_label o with
  | LOp (OpCancel ids) =>
      match o_res o with
      | RNone => []
      | RErr e =>
          fails (negb (forallb (fun t => mem t (k_live k)) ids)
                 || match ids with [] => true | _ => false end) C06_error_class
          ++ fails (if match k_prev k with None => true | Some _ => false end then true
                    else same_public (prev_or k o) o) C06_nothing_on_error
      | _ => [C06_error_class]
      end
  | _ => []
  end.

Definition tgt_ok (k k1 : trk) (ids : list nat) : Prop :=
  k_target k1 = ids ++ k_target k /\
  k_expect k1 = filter (fun t => mem t (k_live k)) ids ++ k_expect k /\
  k_prev k1 = k_prev k.

Lemma tgt_ok_nil k : tgt_ok k k [].
Proof. repeat split. Qed.

Lemma tgt_ok_target k ids : tgt_ok k (target k ids) ids.
Proof. repeat split. Qed.

Lemma on_spawn_6 k o first noncoro nc_bad g meth mk :
  (forall n, tgt_ok k (mk n) []) ->
  tgt_ok k (fst (on_spawn k o first noncoro nc_bad g meth mk)) [] /\
  NC6 (snd (on_spawn k o first noncoro nc_bad g meth mk)).
Proof.
  intros Hmk. unfold on_spawn. destruct (o_res o); cbn [fst snd]; split;
    auto using tgt_ok_nil; nc6.
Qed.

Lemma new_req_6 k kind num bad els nc w ecb ccb g :
  tgt_ok k (new_req k kind num bad els nc w ecb ccb g) [].
Proof. repeat split. Qed.

Lemma on_label_6 c k o :
  tgt_ok k (fst (on_label c k o)) (tids k o) /\ f6 (snd (on_label c k o)) = lcl6 k o.
Proof.
  unfold on_label, tids, lcl6. destruct (negb (o_enabled o)); [split; [apply tgt_ok_nil|reflexivity]|].
  destruct (o_label o) as [h| |op]; try (split; [apply tgt_ok_nil|reflexivity]).
  destruct op.
  - match goal with |- context [on_spawn ?a ?b ?c ?d ?e ?f ?g ?h] =>
      destruct (on_spawn_6 a b c d e f g h) as [A B]; [intros; apply new_req_6|] end.
    split; [exact A|apply NC6_f6, B].
  - match goal with |- context [on_spawn ?a ?b ?c ?d ?e ?f ?g ?h] =>
      destruct (on_spawn_6 a b c d e f g h) as [A B]; [intros; apply new_req_6|] end.
    split; [exact A|apply NC6_f6, B].
  - match goal with |- context [on_spawn ?a ?b ?c ?d ?e ?f ?g ?h] =>
      destruct (on_spawn_6 a b c d e f g h) as [A B]; [intros; apply new_req_6|];
      destruct (on_spawn a b c d e f g h) as [k1 cs] end.
    cbn [fst snd] in A, B. destruct (o_res o); cbn [fst snd]; split; auto;
      try (apply NC6_f6; exact B).
    apply NC6_f6. nc6. exact B.
  - destruct (o_res o); cbn [fst snd]; split;
      auto using tgt_ok_nil, tgt_ok_target.
    rewrite f6_app, !f6_fails by reflexivity. reflexivity.
  - destruct (o_res o); cbn [fst snd]; split; auto using tgt_ok_nil;
      try (apply NC6_f6; nc6).
    repeat split.
  - cbn [fst snd]. split; [repeat split|apply NC6_f6; nc6].
  - destruct (o_res o); cbn [fst snd]; split; auto using tgt_ok_nil, tgt_ok_target;
      apply NC6_f6; nc6.
  - destruct (o_res o); cbn [fst snd]; split; auto using tgt_ok_nil, tgt_ok_target;
      apply NC6_f6; nc6.
  - cbn [fst snd]. split; [apply tgt_ok_nil|apply NC6_f6; nc6].
  - cbn [fst snd]. split; [apply tgt_ok_nil|apply NC6_f6; nc6].
  - destruct v; cbn [fst snd]; split; try (repeat split; fail); apply NC6_f6; nc6.
  - cbn [fst snd]. split; [apply tgt_ok_nil|apply NC6_f6; nc6].
  - destruct k0; cbn [fst snd]; split; try (repeat split; fail); reflexivity.
  - destruct h; cbn [fst snd]; split; try (repeat split; fail); reflexivity.
  - split; [apply tgt_ok_nil|reflexivity].
Qed.

(** ** state clauses *)
Definition isnil {A} (l : list A) : bool := match l with [] => true | _ => false end.

Lemma state_clauses_6 c k o :
  f6 (state_clauses c k o) = fails (negb (PMon.quiet k o) || isnil (k_expect k)) C06_delivered.
Proof.
  unfold state_clauses. cbv zeta.
  repeat (rewrite f6_app).
  repeat match goal with
  | |- context [f6 (fails ?b ?c)] =>
      first [ rewrite (NC6_f6 (fails b c)) by (apply NC6_fails; discriminate)
            | rewrite (f6_fails b c) by reflexivity ]
  end.
  rewrite (NC6_f6 (if negb (k_setsize k) then _ else _)) by (destruct (negb (k_setsize k)); nc6).
  rewrite (NC6_f6 (flat_map _ _)).
  2:{ apply NC6_flat_map. intros [r x]. destruct (r_kind x); nc6;
      try (destruct (group_ids o (r_group x)); nc6; destruct (r_dead x); nc6). }
  rewrite (NC6_f6 (if k_setsize k then _ else _)) by (destruct (k_setsize k); nc6).
  cbn [app]. rewrite app_nil_r. reflexivity.
Qed.

(** ** one monitor step *)
Lemma mon_step_C06 c k o :
  let T1 := tids k o ++ k_target k in
  let E1 := filter (fun t => mem t (k_live k)) (tids k o) ++ k_expect k in
  let k1 := fst (on_label c k o) in
  let k' := fst (mon_step c k o) in
  exists kk,
    f6 (snd (mon_step c k o)) =
      lcl6 k o ++ cls6 T1 E1 (o_events o)
      ++ fails (negb (PMon.quiet kk o) || isnil (k_expect kk)) C06_delivered /\
    tview kk = fold_left (vev (length (k_reqs k1))) (o_events o) (tview k) /\
    k_target kk = T1 /\ k_expect kk = fold_left ex6 (o_events o) E1 /\
    tview k' = tview kk /\ k_target k' = T1 /\ k_expect k' = k_expect kk /\
    k_prev k' = Some o.
Proof.
  cbv zeta. unfold mon_step.
  pose proof (on_label_view c k o) as (L1 & _).
  pose proof (on_label_6 c k o) as ((L2 & L3 & L4) & L5).
  destruct (on_label c k o) as [k1 c1]. simpl fst in *. simpl snd in *.
  pose proof (on_events_view (o_events o) k1 o) as (E1 & _ & _).
  pose proof (on_events_6 (o_events o) k1 o) as (E2 & E3 & E4 & E5).
  destruct (on_events k1 o (o_events o)) as [k2 c2]. simpl fst in *. simpl snd in *.
  destruct (note_raising_same (o_events o) k2) as (N1 & _).
  destruct (note_raising_6 (o_events o) k2) as (N2 & N3 & N4).
  set (k3 := note_raising_starts k2 (o_events o)) in *.
  exists (set_k_nids k3 (k_nids k)).
  cbn [snd fst]. rewrite !f6_app, L5, E5, state_clauses_6, L2, L3.
  split; [reflexivity|].
  split; [change (tview k3 = fold_left (vev (length (k_reqs k1))) (o_events o) (tview k));
          rewrite N1, E1, L1; reflexivity|].
  split; [change (k_target k3 = tids k o ++ k_target k); rewrite N2, E2, L2; reflexivity|].
  split; [change (k_expect k3 = fold_left ex6 (o_events o)
                    (filter (fun t => mem t (k_live k)) (tids k o) ++ k_expect k));
          rewrite N3, E3, L3; reflexivity|].
  split; [reflexivity|].
  split; [change (k_target k3 = tids k o ++ k_target k); rewrite N2, E2, L2; reflexivity|].
  split; reflexivity.
Qed.
