(** C10 monitor soundness, model side — the invariant [GM]: a pool task that was created but has
    neither started nor been cancelled ([stb]) is listed in the register of the group its
    request carries, and that group is live.  (Holds in every reachable clean state, also when
    [taint_iter] is set: a spawner whose group was cancelled from inside its own iterator
    re-creates the group when it registers its next task.)

    This file: definitions and the basic transfer lemmas. *)
From TP Require Import PInv PInv_Q.

Definition stb (x : ptask) : bool :=
  match p_pc x, p_unst x with PCreated, UPlain => true | _, _ => false end.

Definition GM (s : state) : Prop :=
  forall t x, get_p s t = Some x -> stb x = true ->
  exists y ids, get_m s (p_req x) = Some y /\ glookup (m_group y) (groups s) = Some ids /\
                In t ids.

Definition GMx (s : state) : Prop := GM s /\ num_started s = length (ptasks s).

(** how a task record may change without disturbing [GM] *)
Definition keeps10 (x x' : ptask) : Prop :=
  p_req x' = p_req x /\ (stb x' = true -> stb x = true).

Definition gsame (y y' : mtask) : Prop := m_group y' = m_group y.

Lemma keeps10_refl x : keeps10 x x.
Proof. split; auto. Qed.

Lemma keeps10_trans a b c : keeps10 a b -> keeps10 b c -> keeps10 a c.
Proof. intros [A1 A2] [B1 B2]. split; [congruence|auto]. Qed.

Lemma keeps10_nstb x x' : p_req x' = p_req x -> stb x' = false -> keeps10 x x'.
Proof. intros A B. split; auto. congruence. Qed.

Lemma gsame_refl y : gsame y y.
Proof. reflexivity. Qed.

(** ** the generic transfer lemma: nothing is created, no group changes *)
Lemma GMx_quiet s s' :
  GMx s ->
  (forall u x', get_p s' u = Some x' -> exists x, get_p s u = Some x /\ keeps10 x x') ->
  (forall m y, get_m s m = Some y -> exists y', get_m s' m = Some y' /\ gsame y y') ->
  groups s' = groups s -> num_started s' = num_started s ->
  length (ptasks s') = length (ptasks s) ->
  GMx s'.
Proof.
  intros [G L] Hp Hm Eg En El. split; [|congruence].
  intros t x' Hx' Hs. destruct (Hp _ _ Hx') as (x & Hx & Er & Hk).
  destruct (G t x Hx (Hk Hs)) as (y & ids & Hy & Hl & Hi).
  destruct (Hm _ _ Hy) as (y' & Hy' & Eg').
  exists y', ids. rewrite Er, Eg, Eg'. auto.
Qed.

Lemma GMx_same s s' :
  GMx s -> ptasks s' = ptasks s -> mtasks s' = mtasks s -> groups s' = groups s ->
  num_started s' = num_started s -> GMx s'.
Proof.
  intros H Ep Em Eg En. eapply GMx_quiet; eauto.
  - intros u x' Hx'. exists x'. unfold get_p in *. rewrite Ep in Hx'. split; auto using keeps10_refl.
  - intros m y Hy. exists y. unfold get_m in *. rewrite Em. split; auto using gsame_refl.
  - congruence.
Qed.

(** from list-level similarity *)
Lemma GMx_F2 s s' :
  GMx s -> Forall2 keeps10 (ptasks s) (ptasks s') -> Forall2 gsame (mtasks s) (mtasks s') ->
  groups s' = groups s -> num_started s' = num_started s -> GMx s'.
Proof.
  intros H Fp Fm Eg En. eapply GMx_quiet; eauto.
  - intros u x' Hx'. eapply Forall2_nth_r; eauto.
  - intros m y Hy. eapply Forall2_nth_l; eauto.
  - symmetry. eapply F2_length; eauto.
Qed.

Lemma GMx_init c : GMx (init c).
Proof.
  split; [|reflexivity]. intros t x Hx. unfold get_p in Hx. cbn in Hx. destruct t; discriminate.
Qed.
