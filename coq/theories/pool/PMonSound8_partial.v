(** Monitor soundness for C08, first part: on the model's own observation stream (clean run, no
    cancellation of a request from inside its own argument iterator) the monitor never reports
    [C08_no_live], [C08_empty], [C08_requests_complete], [C08_until_not_early],
    [C08_until_released] or [C08_closed_after]; if it reports a clause of property 8 at all it is
    [C08_returns_normally] (excluded in PMonSound8_C08.v under P-self). *)
From TP Require Import PInv PMon PRun PMonSound_gen PMonSound_C45 PMonSound8_step.

Definition allowed08 (cl : clause) : Prop := cl = C08_returns_normally.

Lemma mon_run_sound8_partial c : forall tr s k i,
  RR8 c s k -> clean (fold_left step tr s) -> taint_iter (fold_left step tr s) = false ->
  allowed_run c 8 allowed08 k i (observe_from s tr).
Proof.
  induction tr as [|l tr IH]; intros s k i HR Hc Ht j cl; simpl; [discriminate|].
  simpl in Hc, Ht.
  assert (Hc1 : clean (step s l)) by (eapply clean_fold_inv; eauto).
  assert (Ht1 : taint_iter (step s l) = false)
    by (eapply (taint_fold_inv taint_iter taint_iter_step_inv); eauto).
  destruct (mon_step_sound8 c s k l HR Hc1 Ht1) as [Hf HR'].
  cbv zeta in Hf, HR'.
  destruct (mon_step c k _) as [k' cs]. simpl in Hf, HR'. unfold fp in Hf.
  destruct (filter _ cs) as [|cl0 r] eqn:Ef.
  - apply IH; auto.
  - intros [= <- <-]. apply Hf. left. reflexivity.
Qed.

Theorem mon_C08_sound_partial : forall c tr,
  clean (run c tr) -> taint_iter (run c tr) = false ->
  forall j cl, mon_run c 8 (trk_init c) 0 (observe c tr) = Some (j, cl) -> allowed08 cl.
Proof.
  intros c tr Hc Ht. apply (mon_run_sound8_partial c tr (init c) (trk_init c) 0); auto.
  apply RR8_init.
Qed.

Print Assumptions mon_C08_sound_partial.
