(** C04, the per-invocation clause: a complete apply()/start() request has skipped exactly the
    invocations whose call raises.  State-level statement from the IR layer of [WF]; the property
    theorem is [Thm_C04.C04_skips_exactly_failing]. *)
From Coq Require Import Permutation.
From TP Require Import PSpec.

(** the invocation indices of the tasks created for request [m], in creation order *)
Definition indices_of (s : state) (m : nat) : list nat :=
  map p_el (filter (fun x => Nat.eqb (p_req x) m) (ptasks s)).

Lemma indices_of_length s m : length (indices_of s m) = tasks_of s m.
Proof.
  unfold indices_of, tasks_of. rewrite map_length.
  induction (ptasks s) as [|h t IH]; simpl; auto.
  destruct (Nat.eqb (p_req h) m); simpl; lia.
Qed.

Lemma indices_of_In s m i :
  In i (indices_of s m) <-> exists t x, get_p s t = Some x /\ p_req x = m /\ p_el x = i.
Proof.
  unfold indices_of, get_p. rewrite in_map_iff. split.
  - intros (x & Hel & Hin). apply filter_In in Hin. destruct Hin as [Hin Hreq].
    apply Nat.eqb_eq in Hreq. apply In_nth_error in Hin. destruct Hin as [t Ht]. eauto.
  - intros (t & x & Ht & Hreq & Hel). exists x. split; auto.
    apply filter_In. split; [eapply nth_error_In; eauto|]. apply Nat.eqb_eq; auto.
Qed.

Lemma NoDup_map_filter_idx {A} (f : A -> nat) (p : A -> bool) (l : list A) :
  (forall t u x z, nth_error l t = Some x -> nth_error l u = Some z ->
                   p x = true -> p z = true -> f x = f z -> t = u) ->
  NoDup (map f (filter p l)).
Proof.
  induction l as [|h r IH]; intros Hinj; simpl; [constructor|].
  assert (Hr : NoDup (map f (filter p r))).
  { apply IH. intros t u x z Ht Hu Hpx Hpz Hf.
    assert (E : S t = S u) by (eapply Hinj; eauto). congruence. }
  destruct (p h) eqn:Hph; [|exact Hr].
  simpl. constructor; [|exact Hr].
  intros Hin. apply in_map_iff in Hin. destruct Hin as (z & Hfz & Hin).
  apply filter_In in Hin. destruct Hin as [Hin Hpz].
  apply In_nth_error in Hin. destruct Hin as [u Hu].
  assert (E : 0 = S u) by (eapply (Hinj 0 (S u) h z); simpl; eauto). discriminate.
Qed.

Lemma indices_of_NoDup s m : IR s -> NoDup (indices_of s m).
Proof.
  intros HIR. unfold indices_of. apply NoDup_map_filter_idx.
  intros t u x z Ht Hu Hpx Hpz Hf. apply Nat.eqb_eq in Hpx, Hpz.
  eapply (IR_distinct _ HIR); eauto. congruence.
Qed.

(** every task of an apply/start request was made for a non-failing invocation index below num *)
Lemma indices_of_good s m y i :
  IR s -> get_m s m = Some y -> is_apply_kind y = true -> In i (indices_of s m) ->
  i < m_num y /\ nth i (m_bad y) false = false.
Proof.
  intros HIR Hy Hk Hin. apply indices_of_In in Hin. destruct Hin as (t & x & Ht & Hreq & Hel).
  destruct (IR_req _ HIR t x Ht) as (y' & Hy' & _ & _ & _ & _ & Hm).
  rewrite Hreq, Hy in Hy'. inversion Hy'; subst y'. subst i.
  unfold is_apply_kind, is_map in Hk.
  destruct (m_kind y); try discriminate; tauto.
Qed.

(** A request that made as many tasks as it has non-failing invocation indices below [num] made
    exactly those: every task has a non-failing index below [num]; every such index has a task;
    no index has two. *)
Theorem skips_exactly_failing s m y :
  WF s -> get_m s m = Some y -> is_apply_kind y = true ->
  tasks_of s m = expected_created y ->
  (forall t x, get_p s t = Some x -> p_req x = m ->
               p_el x < m_num y /\ nth (p_el x) (m_bad y) false = false) /\
  (forall i, i < m_num y -> nth i (m_bad y) false = false ->
             exists t x, get_p s t = Some x /\ p_req x = m /\ p_el x = i) /\
  (forall t u x z, get_p s t = Some x -> get_p s u = Some z -> p_req x = m -> p_req z = m ->
                   p_el x = p_el z -> t = u).
Proof.
  intros W Hy Hk Hcnt. pose proof (wfr _ W) as HIR. unfold expected_created in Hcnt.
  split; [|split].
  - intros t x Ht Hreq. apply (indices_of_good s m y (p_el x)); auto.
    apply indices_of_In. eauto.
  - intros i Hi Hg. apply indices_of_In.
    apply (good_indices_covered (m_bad y) (m_num y)); auto.
    + apply indices_of_NoDup; auto.
    + intros j Hj. eapply indices_of_good; eauto.
    + rewrite indices_of_length. exact Hcnt.
  - intros t u x z Ht Hu Hx Hz Hel. eapply (IR_distinct _ HIR); eauto. congruence.
Qed.

(** The same as one statement about lists: the invocation indices of the request's tasks are a
    permutation of the non-failing indices below [num] (each exactly once, no other). *)
Corollary indices_exactly_good s m y :
  WF s -> get_m s m = Some y -> is_apply_kind y = true ->
  tasks_of s m = expected_created y ->
  Permutation (indices_of s m) (good_indices (m_bad y) (m_num y)).
Proof.
  intros W Hy Hk Hcnt. pose proof (wfr _ W) as HIR.
  destruct (skips_exactly_failing s m y W Hy Hk Hcnt) as (Hsound & Hcompl & _).
  apply NoDup_Permutation.
  - apply indices_of_NoDup; auto.
  - apply good_indices_NoDup.
  - intros i. rewrite good_indices_In. split.
    + intros Hin. eapply indices_of_good; eauto.
    + intros [Hi Hg]. apply indices_of_In. auto.
Qed.
