(** Layer I5 — the handle-running and continue transitions. *)
From TP Require Import PInv PInv_R_base PInv_R_tr.

(** ** Pool tasks *)
Lemma J_user_p' s t x :
  Pre s (TP t) -> p_user (p_pc x) = true -> p_fw x = None ->
  J (set_ctl (put_p s t x) (CUser (TP t))) E0.
Proof. intros. apply (J_user_p s t x (EvExit 0)); auto. Qed.

Lemma p_fw_cb_raise x r st t : p_fw (cb_raise x r st t) = p_fw x.
Proof. unfold cb_raise. destruct r; reflexivity. Qed.

Lemma J_moved s1 t x :
  Pre s1 (TP t) -> p_fw x = None ->
  J (let s2 := set_t_ended s1 (dict_add (t_ended s1) t) in
     let s3 := sem_release s2 in
     let x := set_p_nrel x (S (p_nrel x)) in
     let s4 := if p_ismap x then map_release s3 (p_req x) else s3 in
     match p_ecb x with
     | CbNone => finish_p s4 t x
     | _ =>
        set_ctl (emit (put_p s4 t (set_p_pc (set_p_necb x (S (p_necb x))) PUEndCb))
                      (EvCbBegin KEnd t (classify s4 t)))
                (CUser (TP t))
     end) E0.
Proof.
  intros HP Hfw. cbv zeta.
  set (s3 := sem_release (set_t_ended s1 (dict_add (t_ended s1) t))).
  assert (H3 : Pre s3 (TP t)).
  { apply Pre_sem_release; [exact HP|]. intros; discriminate. }
  set (x1 := set_p_nrel x (S (p_nrel x))).
  set (s4 := if p_ismap x1 then map_release s3 (p_req x1) else s3).
  assert (H4 : Pre s4 (TP t)).
  { unfold s4. destruct (p_ismap x1); auto. apply Pre_map_release; auto. discriminate. }
  clearbody s4. clear H3. clearbody s3.
  destruct (p_ecb x1).
  - apply J_finish_p; auto.
  - apply J_user_p; auto.
  - apply J_user_p; auto.
Qed.

Lemma J_enter_end s t x : Pre s (TP t) -> p_fw x = None -> J (enter_end s t x) E0.
Proof.
  intros HP Hfw. unfold enter_end.
  destruct (mem t (t_running s)); [|destruct (mem t (t_cancelled s))].
  - apply J_moved; auto.
  - apply J_moved; auto.
  - apply J_finish_p; auto.
Qed.

Lemma J_enter_cancel s t x : Pre s (TP t) -> p_fw x = None -> J (enter_cancel s t x) E0.
Proof.
  intros HP Hfw. unfold enter_cancel.
  destruct (mem t (t_running s)).
  - destruct (p_ccb x).
    + apply J_enter_end; auto.
    + apply J_user_p; auto.
    + apply J_user_p; auto.
  - apply J_enter_end; auto.
Qed.

Lemma J_continue_p s t :
  Pre s (TP t) -> (forall x, get_p s t = Some x -> p_fw x = None) -> J s E0 ->
  J (continue_p s t) E0.
Proof.
  intros HP Hst H0. unfold continue_p.
  destruct (get_p s t) as [x|] eqn:Hx; auto.
  pose proof (Hst x eq_refl) as Hfw.
  destruct (p_pc x) eqn:Hpc; auto.
  - destruct (w_first (p_w x)).
    + apply J_suspend_p; auto.
    + apply J_enter_end; auto.
    + apply J_enter_end; auto.
  - destruct (p_fin x); apply J_enter_end; auto.
  - destruct (w_cancel (p_w x)); [apply J_enter_cancel|apply J_enter_end]; auto.
  - destruct (p_ccb x) as [|r|slow r].
    + apply J_enter_end; auto.
    + apply J_enter_end; auto. rewrite p_fw_cb_raise; auto.
    + destruct slow.
      * apply J_suspend_p; auto.
      * apply J_enter_end; auto. rewrite p_fw_cb_raise; auto.
  - destruct (p_ecb x) as [|r|slow r].
    + apply J_finish_p; auto.
    + apply J_finish_p; auto.
    + destruct slow.
      * apply J_suspend_p; auto.
      * apply J_finish_p; auto.
Qed.

Lemma J_run_p s t :
  Pre s (TP t) ->
  (forall x, get_p s t = Some x -> p_pc x = PCreated \/ p_waiting (p_pc x) = true) ->
  J (run_p s t) E0.
Proof.
  intros HP Hst. unfold run_p.
  destruct (get_p s t) as [x0|] eqn:Hx.
  2:{ destruct HP as (_ & _ & Hr & _). simpl in Hr. apply lt_get_p in Hr.
      destruct Hr as [y Hy]. congruence. }
  pose proof (Hst x0 eq_refl) as Hpc0.
  destruct (p_pc x0) eqn:Hpc; simpl in Hpc0;
    try (exfalso; destruct Hpc0; discriminate).
  - (* PCreated *)
    destruct (task_input (p_mc x0) (p_fw x0)).
    + cbn [p_unst set_p_mc set_p_fw].
      destruct (p_unst x0).
      * apply J_user_p; auto.
      * apply J_user_p; auto.
      * apply J_enter_cancel; auto.
    + apply J_finish_p; auto.
    + apply J_finish_p; auto.
  - (* PWaitGate *)
    destruct (task_input (p_mc x0) (p_fw x0)).
    + apply J_user_p'; auto.
    + apply J_user_p; auto.
    + apply J_user_p; auto.
  - (* PWaitCcb *)
    destruct (task_input (p_mc x0) (p_fw x0)).
    + apply J_enter_end; auto. rewrite p_fw_cb_raise; auto.
    + apply J_enter_end; auto.
    + apply J_enter_end; auto.
  - (* PWaitEcb *)
    destruct (task_input (p_mc x0) (p_fw x0)); apply J_finish_p; auto.
Qed.

(** ** Spawners *)
Definition stale_m (s : state) (m : nat) : Prop :=
  forall x, get_m s m = Some x -> m_fw x = None /\ m_final x = None.

Lemma stale_m_put s m x :
  m_fw x = None -> m_final x = None -> stale_m (put_m s m x) m.
Proof.
  intros H1 H2 y Hy. unfold get_m, put_m in Hy; cbn in Hy.
  rewrite nth_error_upd in Hy. rewrite Nat.eqb_refl in Hy.
  destruct (m <? length (mtasks s)); [|discriminate]. injection Hy as <-. auto.
Qed.

Lemma stale_m_register s m x :
  m < length (mtasks s) -> m_fw x = None -> m_final x = None -> stale_m (register s m x) m.
Proof.
  intros Hlt H1 H2 y Hy. destruct (get_m_register s m x Hlt) as (x' & Hx' & Ha & Hb).
  rewrite Hx' in Hy. injection Hy as <-. split; congruence.
Qed.

Lemma Pre_m_lt s m : Pre s (TM m) -> m < length (mtasks s).
Proof. intros (_ & _ & Hr & _). exact Hr. Qed.

Lemma Pre_get_m s m : Pre s (TM m) -> exists x, get_m s m = Some x.
Proof. intros H. apply lt_get_m. apply Pre_m_lt; auto. Qed.

Lemma J_apply_loop rem : forall s m,
  Pre s (TM m) -> stale_m s m -> J (apply_loop rem s m) E0.
Proof.
  induction rem as [|r IH]; intros s m HP Hst; simpl.
  - destruct (get_m s m) as [x|] eqn:Hx.
    + apply J_finish_m; auto.
    + destruct (Pre_get_m _ _ HP); congruence.
  - destruct (get_m s m) as [x|] eqn:Hx.
    2:{ destruct (Pre_get_m _ _ HP); congruence. }
    destruct (Hst x Hx) as [Hfw Hfin].
    destruct (nth (m_idx x) (m_bad x) false).
    + apply IH.
      * apply Pre_put_exempt_m; auto.
      * apply stale_m_put; auto.
    + unfold try_start. destruct (closed s).
      * apply J_finish_m; auto.
      * destruct (sem_locked s).
        -- apply J_suspend_m; auto.
        -- apply IH.
           ++ apply Pre_register. exact HP.
           ++ apply stale_m_register; auto. apply (Pre_m_lt _ _ HP).
Qed.

Lemma J_spawn_next s m : Pre s (TM m) -> stale_m s m -> J (spawn_next s m) E0.
Proof.
  intros HP Hst. unfold spawn_next.
  destruct (get_m s m) as [x|] eqn:Hx.
  2:{ destruct (Pre_get_m _ _ HP); congruence. }
  destruct (m_kind x).
  - apply J_apply_loop; auto.
  - apply J_to_iter; auto.
  - apply J_apply_loop; auto.
Qed.

Lemma J_start_then_next s m x :
  Pre s (TM m) -> m_fw x = None -> m_final x = None -> J (start_then_next s m x) E0.
Proof.
  intros HP Hfw Hfin. unfold start_then_next, try_start.
  destruct (closed s).
  - apply J_finish_m; auto.
  - destruct (sem_locked s).
    + apply J_suspend_m; auto.
    + apply J_spawn_next.
      * apply Pre_register. exact HP.
      * apply stale_m_register; auto. apply (Pre_m_lt _ _ HP).
Qed.

Lemma J_continue_m s m :
  Pre s (TM m) -> stale_m s m -> J s E0 -> J (continue_m s m) E0.
Proof.
  intros HP Hst H0. unfold continue_m.
  destruct (get_m s m) as [x|] eqn:Hx; auto.
  destruct (Hst x Hx) as [Hfw Hfin].
  destruct (m_pc x) eqn:Hpc; auto.
  destruct (nth_error (m_els x) (m_idx x)) as [e|].
  - destruct (e_bad e).
    + apply J_to_iter.
      * apply Pre_put_exempt_m; auto.
      * apply stale_m_put; auto.
    + destruct (m_mapval x).
      * apply J_suspend_m; auto.
      * apply J_start_then_next; auto.
  - apply J_finish_m; auto.
Qed.

Lemma J_run_m s m :
  Pre s (TM m) ->
  (forall x, get_m s m = Some x ->
     (m_pc x = MNotStarted \/ m_pc x = MWaitPool \/ m_pc x = MWaitMap) /\ m_final x = None) ->
  J (run_m s m) E0.
Proof.
  intros HP Hst. unfold run_m.
  destruct (get_m s m) as [x0|] eqn:Hx.
  2:{ destruct (Pre_get_m _ _ HP); congruence. }
  destruct (Hst x0 eq_refl) as [Hpc0 Hfin].
  destruct (m_pc x0) eqn:Hpc;
    try (exfalso; destruct Hpc0 as [?|[?|?]]; discriminate).
  - (* MNotStarted *)
    destruct (task_input (m_mc x0) (m_fw x0)).
    + apply J_spawn_next.
      * apply Pre_put_exempt_m; auto.
      * apply stale_m_put; auto.
    + apply J_finish_m; auto.
    + apply J_finish_m; auto.
  - (* MWaitMap *)
    destruct (task_input (m_mc x0) (m_fw x0)).
    + apply J_start_then_next; auto.
    + apply J_finish_m; auto.
    + apply J_finish_m; auto.
  - (* MWaitPool *)
    set (x := set_m_mc (set_m_fw x0 None) false).
    set (s1 := put_m (set_sem_waiters s (remove1 m (sem_waiters s))) m x).
    assert (H1 : Pre s1 (TM m)).
    { unfold s1. apply Pre_put_exempt_m. exact HP. }
    assert (Hs1 : forall m' y, TM m = TM m' -> get_m s1 m' = Some y -> m_fw y <> Some FPending).
    { intros m' y [= <-] Hy. apply (stale_m_put (set_sem_waiters s (remove1 m (sem_waiters s))) m x)
        in Hy; auto. destruct Hy as [-> _]. discriminate. }
    clearbody s1.
    destruct (task_input (m_mc x0) (m_fw x0)).
    + set (s2 := if ninf_pos (sem_value s1) then wake_next s1 else s1).
      assert (H2 : Pre s2 (TM m)).
      { unfold s2. destruct (ninf_pos (sem_value s1)); auto. apply Pre_wake_next; auto. }
      clearbody s2.
      apply J_spawn_next.
      * apply Pre_register; auto.
      * apply stale_m_register; auto. apply (Pre_m_lt _ _ H2).
    + apply J_finish_m.
      destruct (match m_fw x0 with Some FCancelled => true | _ => false end); auto.
      apply Pre_sem_release; auto.
    + apply J_finish_m.
      destruct (match m_fw x0 with Some FCancelled => true | _ => false end); auto.
      apply Pre_sem_release; auto.
Qed.

(** ** Drivers *)
Definition stale_d (s : state) (d : nat) : Prop :=
  forall y, get_d s d = Some y -> d_fw y <> Some FPending.

Lemma Pre_wake_closed l : forall s d,
  Pre s (TD d) -> stale_d s d -> Pre (wake_closed s l) (TD d).
Proof.
  induction l as [|a l IH]; intros s d HP Hst; simpl; auto.
  destruct (get_d s a) as [x|] eqn:Hx; [|apply IH; auto].
  destruct (fut_pending (d_fw x)) eqn:Hp; [|apply IH; auto].
  assert (Hfw : d_fw x = Some FPending).
  { destruct (d_fw x) as [[| | |]|]; simpl in Hp; congruence. }
  assert (Hne : a <> d).
  { intros ->. apply (Hst x Hx). exact Hfw. }
  apply IH.
  - eapply Pre_wake_d with (x := x) (f := FOk); eauto; try reflexivity; congruence.
  - intros y Hy. rewrite get_d_sched, get_d_put_d_neq in Hy by auto. apply (Hst y Hy).
Qed.

Lemma J_after_g2 s d x outer :
  Pre s (TD d) -> stale_d s d -> J (after_g2 s d x outer) E0.
Proof.
  intros HP Hst. unfold after_g2.
  destruct outer; try (apply J_finish_d; exact HP);
    (destruct (d_kind x); [apply J_finish_d; exact HP| |apply J_finish_d; exact HP]);
    apply J_finish_d; apply Pre_wake_closed; auto.
Qed.

Lemma J_start_g2 s d x cs re :
  Pre s (TD d) -> stale_d s d -> d_final x = None -> J (start_g2 s d x cs re) E0.
Proof.
  intros HP Hst Hfin. unfold start_g2.
  destruct (make_gather s (map TP cs) re) as [g outer].
  destruct outer; try (apply J_after_g2; auto).
  apply J_wait_d; auto.
Qed.

Lemma J_after_g1 s d x outer :
  Pre s (TD d) -> stale_d s d -> d_final x = None -> J (after_g1 s d x outer) E0.
Proof.
  intros HP Hst Hfin. unfold after_g1.
  destruct (d_kind x) as [re|re|].
  - destruct outer as [| |[]|]; try (apply J_finish_d; exact HP);
      apply J_start_g2; auto.
  - destruct (if re then None else first_exception s
        (match d_g1 x with Some g => g_children g | None => [] end)).
    + apply J_finish_d; exact HP.
    + apply J_start_g2; auto.
  - apply J_finish_d; exact HP.
Qed.

Lemma J_start_g1 s d x cs re :
  Pre s (TD d) -> stale_d s d -> d_final x = None -> J (start_g1 s d x cs re) E0.
Proof.
  intros HP Hst Hfin. unfold start_g1.
  destruct (make_gather s (map TM cs) re) as [g outer].
  destruct outer; try (apply J_after_g1; auto).
  apply J_wait_d; auto.
Qed.

Lemma J_run_d s d :
  Pre s (TD d) ->
  (forall x, get_d s d = Some x ->
     (d_pc x = DNotStarted \/ dwaiting x) /\ d_fw x <> Some FPending /\ d_final x = None) ->
  J (run_d s d) E0.
Proof.
  intros HP Hst. unfold run_d.
  destruct (get_d s d) as [x0|] eqn:Hx.
  2:{ destruct HP as (_ & _ & Hr & _). simpl in Hr. apply lt_get_d in Hr.
      destruct Hr as [y Hy]. congruence. }
  destruct (Hst x0 eq_refl) as (Hpc0 & Hfw0 & Hfin).
  assert (Hsd : stale_d s d).
  { intros y Hy. assert (y = x0) by congruence. subst y. exact Hfw0. }
  destruct (d_pc x0) eqn:Hpc.
  - (* DNotStarted *)
    cbn [d_kind set_d_fw].
    destruct (d_kind x0) as [re|re|].
    + destruct (pop_ended s (gmeta s)) as [gm ended].
      apply J_start_g1; auto.
    + apply J_start_g1; auto.
    + destruct (closed s).
      * apply J_finish_d; exact HP.
      * apply J_wait_d; auto.
  - apply J_after_g1; auto.
  - apply J_after_g2; auto.
  - apply J_finish_d; exact HP.
  - exfalso. unfold dwaiting in Hpc0. destruct Hpc0 as [?|[?|[?|?]]]; congruence.
Qed.

(** ** Gather callbacks *)
Lemma J_run_g s E d c : J s E -> J (run_g s d c) E.
Proof.
  intros H. unfold run_g.
  destruct (get_d s d) as [x|] eqn:Hx; auto.
  destruct (tref_final s c) as [o|]; auto.
  set (phase1 := match c with TM _ => true | _ => false end).
  set (active := match d_pc x, phase1 with
                 | DWaitG1, true | DWaitG2, false => true
                 | _, _ => false end).
  destruct (if phase1 then d_g1 x else d_g2 x) as [g|]; auto.
  destruct (if active then d_fw x else None) as [[| | |]|] eqn:Hfw;
    try (eapply J_put_d_same; eauto; destruct phase1; reflexivity).
  assert (Hfw' : d_fw x = Some FPending).
  { destruct active; [auto|discriminate]. }
  destruct (gather_cb (g_re g) (length (g_children g)) o (g_nfin g) FPending) as [nfin outer].
  destruct outer;
    try (eapply J_put_d_same; eauto; destruct phase1; reflexivity);
    (eapply J_wake_d with (x := x); eauto; try (destruct phase1; reflexivity); congruence).
Qed.
