(** Monitor soundness for C03 — every group name of the pool, and the group of every request, is
    known to the observer (the names listed in [known] are those whose ids an observation
    reports).  Inductive on its own. *)
From TP Require Import PInv PInv_R_base PInv_R_tr.

Definition KN (s : state) : Prop :=
  (forall g, ghas g (groups s) = true -> In g (known s)) /\
  (forall m y, get_m s m = Some y -> In (m_group y) (known s)).

Lemma gname_eqb_eq a b : gname_eqb a b = true <-> a = b.
Proof.
  destruct a, b; simpl; try (split; [discriminate|congruence]).
  - rewrite andb_true_iff, !Nat.eqb_eq. split; [intros [-> ->]; auto|intros [= -> ->]; auto].
  - rewrite Nat.eqb_eq. split; congruence.
  - rewrite Nat.eqb_eq. split; congruence.
Qed.

Lemma gname_eqb_refl a : gname_eqb a a = true.
Proof. apply gname_eqb_eq. reflexivity. Qed.

Lemma ghas_gadd g g' x l : ghas g' (gadd g x l) = true -> g' = g \/ ghas g' l = true.
Proof.
  unfold ghas. induction l as [|[h v] l IH]; simpl.
  - destruct (gname_eqb g' g) eqn:E; [apply gname_eqb_eq in E; auto|discriminate].
  - destruct (gname_eqb g h) eqn:E1; simpl.
    + destruct (gname_eqb g' h); auto.
    + destruct (gname_eqb g' h); auto.
Qed.

Lemma ghas_gensure g g' l : ghas g' (gensure g l) = true -> g' = g \/ ghas g' l = true.
Proof.
  unfold gensure. destruct (glookup g l) eqn:E; auto.
  unfold ghas. induction l as [|[h v] l IH]; simpl.
  - destruct (gname_eqb g' g) eqn:E'; [apply gname_eqb_eq in E'; auto|discriminate].
  - simpl in E. destruct (gname_eqb g h); [discriminate|].
    destruct (gname_eqb g' h); auto.
Qed.

Lemma ghas_gremove g g' l : ghas g' (gremove g l) = true -> ghas g' l = true.
Proof.
  unfold ghas. induction l as [|[h v] l IH]; simpl; auto.
  destruct (gname_eqb g h) eqn:E1; simpl.
  - destruct (gname_eqb g' h); auto.
  - destruct (gname_eqb g' h); auto.
Qed.

Lemma In_known_know s g g' : In g' (known s) -> In g' (known (know s g)).
Proof.
  intros H. unfold know. destruct (existsb (gname_eqb g) (known s)); auto.
  cbn. apply in_or_app. auto.
Qed.

Lemma In_know_self s g : In g (known (know s g)).
Proof.
  unfold know. destruct (existsb (gname_eqb g) (known s)) eqn:E.
  - apply existsb_exists in E. destruct E as (x & Hin & He). apply gname_eqb_eq in He. subst. auto.
  - cbn. apply in_or_app. right. left. reflexivity.
Qed.

Lemma KN_eq s s' :
  groups s' = groups s -> mtasks s' = mtasks s -> known s' = known s -> KN s -> KN s'.
Proof. unfold KN, get_m. intros -> -> ->. auto. Qed.

Lemma KN_sched s h : KN s -> KN (sched s h).
Proof. apply KN_eq; unfold sched; destruct (is_ready s h); reflexivity. Qed.

Lemma known_sched s h : known (sched s h) = known s.
Proof. unfold sched; destruct (is_ready s h); reflexivity. Qed.

Lemma KN_fold {A} (f : state -> A -> state) :
  (forall s x, KN s -> KN (f s x)) -> forall l s, KN s -> KN (fold_left f l s).
Proof. intros Hf. induction l as [|x l IH]; simpl; intros s H; auto. Qed.

Lemma KN_sched_cbs s r : KN s -> KN (sched_cbs s r).
Proof. intros H. unfold sched_cbs. apply KN_fold; auto. intros; apply KN_sched; auto. Qed.

Lemma KN_set_ctl s c : KN s -> KN (set_ctl s c).
Proof. exact (fun H => H). Qed.
Lemma KN_put_p s t x : KN s -> KN (put_p s t x).
Proof. exact (fun H => H). Qed.
Lemma KN_put_d s t x : KN s -> KN (put_d s t x).
Proof. exact (fun H => H). Qed.
Lemma KN_emit s e : KN s -> KN (emit s e).
Proof. exact (fun H => H). Qed.
Lemma KN_set_res s r : KN s -> KN (set_res s r).
Proof. exact (fun H => H). Qed.

Lemma KN_put_m s m x : KN s -> In (m_group x) (known s) -> KN (put_m s m x).
Proof.
  intros [H1 H2] Hx. split; [exact H1|]. intros m' y Hy.
  unfold get_m, put_m in Hy; cbn in Hy. rewrite nth_error_upd in Hy.
  destruct (Nat.eqb m m').
  - destruct (Nat.ltb m (length (mtasks s))); [|discriminate]. injection Hy as <-. exact Hx.
  - apply (H2 m' y Hy).
Qed.

Lemma gk_get s m x : KN s -> get_m s m = Some x -> In (m_group x) (known s).
Proof. intros [_ H2] Hx. apply (H2 m x Hx). Qed.

Lemma KN_know s g : KN s -> KN (know s g).
Proof.
  intros [H1 H2]. split.
  - intros g' Hg. apply In_known_know. apply H1.
    unfold know in Hg. destruct (existsb (gname_eqb g) (known s)); exact Hg.
  - intros m y Hy. apply In_known_know. apply (H2 m y).
    unfold know in Hy. destruct (existsb (gname_eqb g) (known s)); exact Hy.
Qed.

Lemma KN_wake_next s : KN s -> KN (wake_next s).
Proof.
  intros H. unfold wake_next. destruct (first_pending s (sem_waiters s)); auto.
  destruct (get_m s n) as [x|] eqn:Hx; auto. apply KN_sched.
  apply KN_put_m; [exact H|]. exact (gk_get s n x H Hx).
Qed.

Lemma KN_sem_release s : KN s -> KN (sem_release s).
Proof. intros H. unfold sem_release. apply KN_wake_next. exact H. Qed.

Lemma KN_map_release s m : KN s -> KN (map_release s m).
Proof.
  intros H. unfold map_release. destruct (get_m s m) as [x|] eqn:Hx; auto.
  pose proof (gk_get s m x H Hx) as Hg.
  destruct (m_pc x); try (apply KN_put_m; [exact H|exact Hg]).
  destruct (m_fw x) as [[| | |]|]; try (apply KN_put_m; [exact H|exact Hg]).
  apply KN_sched. apply KN_put_m; [exact H|exact Hg].
Qed.

Lemma KN_finish_p s t x : KN s -> KN (finish_p s t x).
Proof. intros H. unfold finish_p. apply KN_set_ctl, KN_sched_cbs, KN_put_p. exact H. Qed.

Lemma KN_suspend_p s t x pc : KN s -> KN (suspend_p s t x pc).
Proof.
  intros H. unfold suspend_p. destruct (p_mc x).
  - apply KN_set_ctl, KN_sched, KN_put_p. exact H.
  - exact H.
Qed.

Lemma KN_moved s1 t x :
  KN s1 ->
  KN (let s2 := set_t_ended s1 (dict_add (t_ended s1) t) in
     let s3 := sem_release s2 in
     let x := set_p_nrel x (S (p_nrel x)) in
     let s4 := if p_ismap x then map_release s3 (p_req x) else s3 in
     match p_ecb x with
     | CbNone => finish_p s4 t x
     | _ =>
        set_ctl (emit (put_p s4 t (set_p_pc (set_p_necb x (S (p_necb x))) PUEndCb))
                      (EvCbBegin KEnd t (classify s4 t)))
                (CUser (TP t))
     end).
Proof.
  intros H. cbv zeta.
  set (s3 := sem_release (set_t_ended s1 (dict_add (t_ended s1) t))).
  assert (H3 : KN s3) by (apply KN_sem_release; exact H).
  set (x1 := set_p_nrel x (S (p_nrel x))).
  set (s4 := if p_ismap x1 then map_release s3 (p_req x1) else s3).
  assert (H4 : KN s4).
  { unfold s4. destruct (p_ismap x1); auto. apply KN_map_release; auto. }
  clearbody s4. clear H3. clearbody s3.
  destruct (p_ecb x1); [apply KN_finish_p; auto|exact H4|exact H4].
Qed.

Lemma KN_enter_end s t x : KN s -> KN (enter_end s t x).
Proof.
  intros H. unfold enter_end.
  destruct (mem t (t_running s)); [|destruct (mem t (t_cancelled s))].
  - apply KN_moved. exact H.
  - apply KN_moved. exact H.
  - apply KN_finish_p; auto.
Qed.

Lemma KN_enter_cancel s t x : KN s -> KN (enter_cancel s t x).
Proof.
  intros H. unfold enter_cancel.
  destruct (mem t (t_running s)).
  - destruct (p_ccb x); [apply KN_enter_end; exact H|exact H|exact H].
  - apply KN_enter_end; auto.
Qed.

Lemma KN_continue_p s t : KN s -> KN (continue_p s t).
Proof.
  intros H. unfold continue_p.
  destruct (get_p s t) as [x|]; auto.
  destruct (p_pc x); auto.
  - destruct (w_first (p_w x)); [apply KN_suspend_p|apply KN_enter_end|apply KN_enter_end]; exact H.
  - destruct (p_fin x); apply KN_enter_end; exact H.
  - destruct (w_cancel (p_w x)); [apply KN_enter_cancel|apply KN_enter_end]; exact H.
  - destruct (p_ccb x) as [|r|slow r]; try (apply KN_enter_end; exact H).
    destruct slow; [apply KN_suspend_p|apply KN_enter_end]; exact H.
  - destruct (p_ecb x) as [|r|slow r]; try (apply KN_finish_p; exact H).
    destruct slow; [apply KN_suspend_p|apply KN_finish_p]; exact H.
Qed.

Lemma KN_run_p s t : KN s -> KN (run_p s t).
Proof.
  intros H. unfold run_p.
  destruct (get_p s t) as [x0|]; auto.
  set (x := set_p_mc (set_p_fw x0 None) false).
  destruct (p_pc x0); auto.
  - destruct (task_input (p_mc x0) (p_fw x0)); try (apply KN_finish_p; exact H).
    destruct (p_unst x); [exact H|exact H|apply KN_enter_cancel; exact H].
  - destruct (task_input (p_mc x0) (p_fw x0)); exact H.
  - destruct (task_input (p_mc x0) (p_fw x0)); apply KN_enter_end; exact H.
  - destruct (task_input (p_mc x0) (p_fw x0)); apply KN_finish_p; exact H.
Qed.

Lemma KN_finish_m s m x e : KN s -> In (m_group x) (known s) -> KN (finish_m s m x e).
Proof.
  intros H Hg. unfold finish_m.
  apply KN_set_ctl, KN_sched_cbs, KN_put_m; auto.
Qed.

Lemma KN_suspend_m s m x pc : KN s -> In (m_group x) (known s) -> KN (suspend_m s m x pc).
Proof.
  intros H Hg. unfold suspend_m. destruct (m_mc x).
  - apply KN_set_ctl, KN_sched, KN_put_m; auto.
  - apply KN_set_ctl, KN_put_m; auto.
Qed.

Lemma KN_to_iter s m : KN s -> KN (to_iter s m).
Proof.
  intros H. unfold to_iter. destruct (get_m s m) as [x|] eqn:Hx; [|exact H].
  apply KN_set_ctl, KN_emit, KN_put_m; auto. exact (gk_get s m x H Hx).
Qed.

Lemma KN_register s m x : KN s -> In (m_group x) (known s) -> KN (register s m x).
Proof.
  intros [H1 H2] Hg. unfold register. apply KN_put_m.
  - apply KN_sched. split.
    + intros g Hgh. cbn in Hgh. apply ghas_gadd in Hgh. destruct Hgh as [->|Hgh]; auto.
    + exact H2.
  - rewrite known_sched. exact Hg.
Qed.

Lemma known_wake_next s : known (wake_next s) = known s.
Proof.
  unfold wake_next. destruct (first_pending s (sem_waiters s)); auto.
  destruct (get_m s n); auto. rewrite known_sched. reflexivity.
Qed.

Lemma known_sem_release s : known (sem_release s) = known s.
Proof. unfold sem_release. rewrite known_wake_next. reflexivity. Qed.

Lemma gk_register s m x :
  m < length (mtasks s) -> In (m_group x) (known s) ->
  forall y, get_m (register s m x) m = Some y -> In (m_group y) (known (register s m x)).
Proof.
  intros Hlt Hg y Hy. unfold register in *.
  rewrite get_m_put_m_eq in Hy by (rewrite mtasks_sched; exact Hlt). injection Hy as <-.
  unfold put_m. cbn [known set_mtasks]. rewrite known_sched. exact Hg.
Qed.

Lemma KN_apply_loop rem : forall s m, KN s -> KN (apply_loop rem s m).
Proof.
  induction rem as [|r IH]; intros s m H; simpl.
  - destruct (get_m s m) as [x|] eqn:Hx; auto. apply KN_finish_m; auto. exact (gk_get s m x H Hx).
  - destruct (get_m s m) as [x|] eqn:Hx; auto.
    pose proof (gk_get s m x H Hx) as Hg.
    destruct (nth (m_idx x) (m_bad x) false).
    + apply IH. apply KN_put_m; auto.
    + unfold try_start. destruct (closed s).
      * apply KN_finish_m; auto.
      * destruct (sem_locked s).
        -- apply KN_suspend_m; auto.
        -- apply IH. apply KN_register; auto.
Qed.

Lemma KN_spawn_next s m : KN s -> KN (spawn_next s m).
Proof.
  intros H. unfold spawn_next. destruct (get_m s m) as [x|]; auto.
  destruct (m_kind x); [apply KN_apply_loop|apply KN_to_iter|apply KN_apply_loop]; auto.
Qed.

Lemma KN_start_then_next s m x : KN s -> In (m_group x) (known s) -> KN (start_then_next s m x).
Proof.
  intros H Hg. unfold start_then_next, try_start.
  destruct (closed s).
  - apply KN_finish_m; auto.
  - destruct (sem_locked s).
    + apply KN_suspend_m; auto.
    + apply KN_spawn_next, KN_register; auto.
Qed.

Lemma KN_continue_m s m : KN s -> KN (continue_m s m).
Proof.
  intros H. unfold continue_m. destruct (get_m s m) as [x|] eqn:Hx; auto.
  pose proof (gk_get s m x H Hx) as Hg.
  destruct (m_pc x); auto.
  destruct (nth_error (m_els x) (m_idx x)) as [e|].
  - destruct (e_bad e).
    + apply KN_to_iter. apply KN_put_m; auto.
    + destruct (m_mapval x).
      * apply KN_suspend_m; auto.
      * apply KN_start_then_next; auto.
  - apply KN_finish_m; auto.
Qed.

Lemma KN_run_m s m : KN s -> KN (run_m s m).
Proof.
  intros H. unfold run_m. destruct (get_m s m) as [x0|] eqn:Hx; auto.
  pose proof (gk_get s m x0 H Hx) as Hg.
  destruct (m_pc x0); auto.
  - destruct (task_input (m_mc x0) (m_fw x0)).
    + apply KN_spawn_next. apply KN_put_m; auto.
    + apply KN_finish_m; auto.
    + apply KN_finish_m; auto.
  - destruct (task_input (m_mc x0) (m_fw x0)).
    + apply KN_start_then_next; auto.
    + apply KN_finish_m; [exact H|].
      destruct (match m_fw x0 with Some FCancelled => true | _ => false end); exact Hg.
    + apply KN_finish_m; [exact H|].
      destruct (match m_fw x0 with Some FCancelled => true | _ => false end); exact Hg.
  - set (x := set_m_mc (set_m_fw x0 None) false).
    set (s1 := put_m (set_sem_waiters s (remove1 m (sem_waiters s))) m x).
    assert (H1 : KN s1) by (unfold s1; apply KN_put_m; [exact H|exact Hg]).
    assert (Hg1 : In (m_group x) (known s1)) by exact Hg.
    clearbody s1.
    destruct (task_input (m_mc x0) (m_fw x0)).
    + apply KN_spawn_next.
      destruct (ninf_pos (sem_value s1)).
      * apply KN_register; [apply KN_wake_next; auto|].
        rewrite known_wake_next. exact Hg1.
      * apply KN_register; auto.
    + apply KN_finish_m.
      * destruct (match m_fw x0 with Some FCancelled => true | _ => false end); auto.
        apply KN_sem_release; auto.
      * assert (Hk : forall s', known s' = known s1 ->
                  In (m_group (if m_holds x then set_m_holds (set_m_mapval x (S (m_mapval x))) false
                               else x)) (known s'))
          by (intros s' ->; destruct (m_holds x); exact Hg1).
        apply Hk. destruct (match m_fw x0 with Some FCancelled => true | _ => false end); auto.
        apply known_sem_release.
    + apply KN_finish_m.
      * destruct (match m_fw x0 with Some FCancelled => true | _ => false end); auto.
        apply KN_sem_release; auto.
      * assert (Hk : forall s', known s' = known s1 ->
                  In (m_group (if m_holds x then set_m_holds (set_m_mapval x (S (m_mapval x))) false
                               else x)) (known s'))
          by (intros s' ->; destruct (m_holds x); exact Hg1).
        apply Hk. destruct (match m_fw x0 with Some FCancelled => true | _ => false end); auto.
        apply known_sem_release.
Qed.

(** drivers and gather callbacks do not touch groups, requests or known names *)
Lemma KN_finish_d s d x e : KN s -> KN (finish_d s d x e).
Proof. exact (fun H => H). Qed.

Lemma KN_wake_closed l : forall s, KN s -> KN (wake_closed s l).
Proof.
  induction l as [|d l IH]; simpl; intros s H; auto.
  apply IH. destruct (get_d s d) as [x|]; auto.
  destruct (fut_pending (d_fw x)); auto. apply KN_sched. exact H.
Qed.

Lemma KN_after_g2 s d x outer : KN s -> KN (after_g2 s d x outer).
Proof.
  intros H. unfold after_g2.
  destruct outer; try exact H; destruct (d_kind x); try exact H;
    apply KN_finish_d, KN_wake_closed; exact H.
Qed.

Lemma KN_start_g2 s d x cs re : KN s -> KN (start_g2 s d x cs re).
Proof.
  intros H. unfold start_g2. destruct (make_gather s (map TP cs) re) as [g outer].
  destruct outer; try (apply KN_after_g2; exact H). exact H.
Qed.

Lemma KN_after_g1 s d x outer : KN s -> KN (after_g1 s d x outer).
Proof.
  intros H. unfold after_g1. destruct (d_kind x) as [re|re|].
  - destruct outer as [| |[]|]; try exact H; apply KN_start_g2; exact H.
  - destruct (if re then None else first_exception s
        (match d_g1 x with Some g => g_children g | None => [] end)).
    + exact H.
    + apply KN_start_g2; exact H.
  - exact H.
Qed.

Lemma KN_start_g1 s d x cs re : KN s -> KN (start_g1 s d x cs re).
Proof.
  intros H. unfold start_g1. destruct (make_gather s (map TM cs) re) as [g outer].
  destruct outer; try (apply KN_after_g1; exact H). exact H.
Qed.

Lemma KN_run_d s d : KN s -> KN (run_d s d).
Proof.
  intros H. unfold run_d. destruct (get_d s d) as [x0|]; auto.
  destruct (d_pc x0); auto.
  - cbn [d_kind set_d_fw]. destruct (d_kind x0) as [re|re|].
    + destruct (pop_ended s (gmeta s)) as [gm ended]. apply KN_start_g1. exact H.
    + apply KN_start_g1. exact H.
    + destruct (closed s); exact H.
  - apply KN_after_g1; auto.
  - apply KN_after_g2; auto.
Qed.

Lemma KN_run_g s d c : KN s -> KN (run_g s d c).
Proof.
  intros H. unfold run_g. destruct (get_d s d) as [x|]; auto.
  destruct (tref_final s c) as [o|]; auto.
  destruct (match c with TM _ => true | _ => false end);
    (match goal with |- KN (match ?g with Some _ => _ | None => _ end) =>
       destruct g as [g0|]; auto end;
     match goal with |- KN (match ?f with Some _ => _ | None => _ end) =>
       destruct f as [[| | |]|]; try exact H end;
     match goal with |- KN (let '(_, _) := ?p in _) => destruct p as [nfin outer] end;
     destruct outer; try exact H; apply KN_sched; exact H).
Qed.

(** operations *)
Lemma KN_cancel_m s m : KN s -> KN (cancel_m s m).
Proof.
  intros H. unfold cancel_m. destruct (get_m s m) as [x|] eqn:Hx; auto.
  pose proof (gk_get s m x H Hx) as Hg.
  destruct (m_final x); auto.
  destruct (is_current s (TM m)); (destruct (fut_pending (m_fw x));
    [apply KN_sched|]; (apply KN_put_m; [exact H|exact Hg])).
Qed.

Lemma KN_cancel_p s t : KN s -> KN (cancel_p s t).
Proof.
  intros H. unfold cancel_p. destruct (get_p s t) as [x|]; auto.
  destruct (p_unst x); try exact H.
  destruct (p_final x); auto.
  destruct (is_current s (TP t) && final_segment x);
    (destruct (fut_pending (p_fw x)); [apply KN_sched|]; exact H).
Qed.

Lemma KN_do_cancel s ids : KN s -> KN (do_cancel s ids).
Proof.
  intros H. unfold do_cancel. destruct (first_lookup_err s ids); [exact H|].
  apply KN_fold; auto. intros; apply KN_cancel_p; auto.
Qed.

Lemma KN_cancel_group_metas s g : KN s -> KN (cancel_group_metas s g).
Proof.
  intros H. unfold cancel_group_metas. destruct (glookup g (gmeta s)) as [ms|]; auto.
  match goal with |- KN (set_meta_cancelled ?s' _) => change (KN s') end.
  apply KN_fold; [intros; apply KN_cancel_m; auto|]. exact H.
Qed.

Lemma KN_mark_dead s g : KN s -> KN (mark_dead s g).
Proof.
  intros [H1 H2]. split; [exact H1|]. intros m y Hy.
  unfold get_m, mark_dead in Hy; cbn in Hy. rewrite nth_error_map in Hy.
  destruct (nth_error (mtasks s) m) as [y0|] eqn:Hy0; [|discriminate]. injection Hy as <-.
  cbn [known set_mtasks]. specialize (H2 m y0 Hy0).
  destruct (gname_eqb g (m_group y0)); exact H2.
Qed.

Lemma KN_cancel_group_body s g ids : KN s -> KN (cancel_group_body s g ids).
Proof.
  intros H. unfold cancel_group_body. apply KN_fold.
  - intros s' t H'. destruct (mem t (t_running s')); auto. apply KN_cancel_p; auto.
  - apply KN_mark_dead, KN_cancel_group_metas; auto.
Qed.

Lemma KN_cancel_all_groups gs : forall s, KN s -> KN (cancel_all_groups s gs).
Proof.
  induction gs as [|[g ids] gs IH]; simpl; intros s H; auto.
  apply IH. apply KN_cancel_group_body; auto.
Qed.

Lemma KN_spawn s g x :
  KN s -> In g (known s) -> m_group x = g ->
  KN (new_meta (set_groups s (gensure g (groups s))) x).
Proof.
  intros [H1 H2] Hg Hx. unfold new_meta. apply KN_sched. split.
  - intros g' Hgh. cbn in Hgh. apply ghas_gensure in Hgh. destruct Hgh as [->|Hgh]; auto.
  - intros m y Hy. unfold get_m in Hy. cbn in Hy. cbn [known set_gmeta set_mtasks set_groups].
    destruct (Nat.eq_dec m (length (mtasks s))) as [->|Hne].
    + rewrite nth_error_snoc_eq in Hy. injection Hy as <-. rewrite Hx. exact Hg.
    + apply nth_error_snoc in Hy; auto. apply (H2 m y Hy).
Qed.

Lemma KN_do_op s o : KN s -> KN (do_op s o).
Proof.
  intros H. destruct o; unfold do_op; cbv zeta.
  - set (s1 := match g with Some g0 => know s g0 | None => s end).
    assert (H1 : KN s1) by (unfold s1; destruct g; [apply KN_know|]; exact H).
    clearbody s1.
    destruct (check_start s1 noncoro); [exact H1|].
    match goal with |- KN (if ghas ?gg _ then _ else _) => set (g1 := gg) end.
    destruct (ghas g1 (groups s1)); [exact H1|].
    apply KN_set_res.
    apply (KN_spawn (know s1 g1) g1); [apply KN_know; exact H1|apply In_know_self|reflexivity].
  - set (s1 := match g with Some g0 => know s g0 | None => s end).
    assert (H1 : KN s1) by (unfold s1; destruct g; [apply KN_know|]; exact H).
    clearbody s1.
    match goal with |- context [ghas ?gg _] => set (g1 := gg) end.
    destruct (check_start s1 noncoro); [exact H1|].
    destruct (nc =? 0); [exact H1|].
    destruct (ghas g1 (groups s1)); [exact H1|].
    apply KN_set_res.
    apply (KN_spawn (know s1 g1) g1); [apply KN_know; exact H1|apply In_know_self|reflexivity].
  - destruct (check_start s false); [exact H|].
    apply KN_set_res.
    match goal with |- KN (new_meta (set_groups (set_start_calls ?s' ?w) ?v) ?x) =>
      change (KN (new_meta (set_groups (set_start_calls s' w)
                 (gensure (GStart (start_calls s)) (groups (set_start_calls s' w)))) x)) end.
    apply (KN_spawn _ (GStart (start_calls s))); [|apply In_know_self|reflexivity].
    apply (KN_know s). exact H.
  - apply KN_do_cancel; auto.
  - pose proof (KN_know s g H) as H1.
    destruct (glookup g (groups (know s g))); [|exact H1].
    apply KN_cancel_group_body.
    destruct H1 as [A B]. split; [|exact B].
    intros g' Hg'. cbn in Hg'. apply ghas_gremove in Hg'. apply A. exact Hg'.
  - apply KN_cancel_all_groups. destruct H as [A B]. split; [|exact B].
    intros g' Hg'. discriminate Hg'.
  - match goal with |- KN (match res ?s' with _ => _ end) =>
      assert (H1 : KN s') by (apply KN_do_cancel; exact H); destruct (res s'); exact H1 end.
  - match goal with |- KN (match res ?s' with _ => _ end) =>
      assert (H1 : KN s') by (apply KN_do_cancel; exact H); destruct (res s'); exact H1 end.
  - exact H.
  - destruct (0 <? n_gac s); exact H.
  - destruct v; exact H.
  - match goal with |- KN (set_res ?s' _) => change (KN s') end.
    apply KN_fold; auto. intros; apply KN_know; auto.
  - apply KN_sched. destruct k; exact H.
  - destruct (get_p s tid) as [x|]; [|exact H]. apply KN_sched. exact H.
  - destruct (get_p s tid) as [x|]; [|exact H]. apply KN_sched. exact H.
Qed.

Theorem KN_step s l : KN s -> KN (step s l).
Proof.
  intros H0. unfold step.
  set (s1 := set_res (set_evs s []) RNone).
  assert (H : KN s1) by exact H0.
  clearbody s1.
  destruct (negb (enabled s1 l)); [exact H|].
  destruct l as [h| |o].
  - assert (H2 : KN (unsched s1 h)) by exact H.
    destruct h as [[t|m|d]|d c]; simpl run_handle.
    + apply KN_run_p; auto.
    + apply KN_run_m; auto.
    + apply KN_run_d; auto.
    + apply KN_run_g; auto.
  - destruct (ctl s1) as [|[t|m|d]]; auto.
    + apply KN_continue_p; auto.
    + apply KN_continue_m; auto.
  - apply KN_do_op; auto.
Qed.

Lemma KN_init c : KN (init c).
Proof.
  split.
  - intros g H. discriminate H.
  - intros m y H. unfold get_m in H. cbn in H. destruct m; discriminate H.
Qed.
