(** Frame facts for the spawner functions. *)
From TP Require Export PInv_G_Pres.

Definition mlike (x0 x : mtask) : Prop :=
  m_group x = m_group x0 /\ m_dead x = m_dead x0 /\ m_final x = m_final x0.

Lemma mlike_refl x : mlike x x.
Proof. unfold mlike; auto. Qed.

Lemma mlike_trans x y z : mlike x y -> mlike y z -> mlike x z.
Proof. unfold mlike. intuition congruence. Qed.

Definition rest_ok (x : mtask) : Prop :=
  (m_dead x = true -> m_final x = None -> m_mc x = true \/ fut_cancelled (m_fw x)) /\
  (m_holds x = true -> m_pc x = MWaitPool).

Definition post (m : nat) (s : state) : Prop := forall x, get_m s m = Some x -> rest_ok x.

Lemma self_ok_post m s : post m s -> self_ok (Some m) s.
Proof. intros P k x E H. inversion E; subst. apply P; auto. Qed.

(** [put_m] on the running spawner *)
Lemma put_m_rel s m x0 x :
  get_m s m = Some x0 -> mlike x0 x -> rel (Some m) s (put_m s m x).
Proof.
  intros H [Lg [Ld Lf]]. constructor; [reflexivity| |].
  - apply gvF_neutral_done; [reflexivity| |intros; reflexivity].
    intros c. rewrite tref_done_put_m. destruct c as [u|u|u]; auto.
    destruct (Nat.eqb_spec m u) as [->|]; auto.
    rewrite (get_m_lt _ _ _ H), Lf. symmetry. apply tref_done_get_m; auto.
  - constructor; [unfold put_m; cbn; apply upd_length|].
    intros k y Hk. rewrite get_m_put_m. destruct (Nat.eqb_spec m k) as [->|].
    + rewrite (get_m_lt _ _ _ H). rewrite H in Hk. inversion Hk; subst y.
      eexists; split; [reflexivity|]. split.
      * unfold mkeep. repeat split; auto.
      * intros Hne. congruence.
    + exists y. split; auto. split; [apply mkeep_refl|intros _; apply mwk_refl].
Qed.

Lemma get_m_set_ready s l m : get_m (set_ready s l) m = get_m s m.
Proof. reflexivity. Qed.

Lemma get_m_sched s h m : get_m (sched s h) m = get_m s m.
Proof. destruct (sched_form s h) as [l E]. rewrite E. reflexivity. Qed.

Lemma get_m_sched_cbs s r m : get_m (sched_cbs s r) m = get_m s m.
Proof. destruct (sched_cbs_form s r) as [l E]. rewrite E. reflexivity. Qed.

Lemma mtasks_sched s h : mtasks (sched s h) = mtasks s.
Proof. destruct (sched_form s h) as [l E]. rewrite E. reflexivity. Qed.

Lemma regs_sched s h : regs (sched s h) = regs s.
Proof. destruct (sched_form s h) as [l E]. rewrite E. reflexivity. Qed.

Lemma regs_sched_cbs s r : regs (sched_cbs s r) = regs s.
Proof. destruct (sched_cbs_form s r) as [l E]. rewrite E. reflexivity. Qed.

Lemma finish_m_B s m x0 x exc :
  get_m s m = Some x0 -> m_final x0 = None -> m_group x = m_group x0 -> m_dead x = m_dead x0 ->
  m_holds x = false ->
  rel (Some m) s (finish_m s m x exc) /\ post m (finish_m s m x exc) /\
  regs (finish_m s m x exc) = regs s /\ ctl (finish_m s m x exc) = CIdle.
Proof.
  intros H F Lg Ld Hh. unfold finish_m. set (x' := set_m_final _ _).
  destruct (sched_cbs_form (put_m s m x') (TM m)) as [l EL].
  split; [|split; [|split]].
  - constructor.
    + rewrite EL. reflexivity.
    + apply finish_gvF; try reflexivity.
      * rewrite (tref_done_get_m _ _ _ H), F. reflexivity.
      * rewrite tref_done_put_m, Nat.eqb_refl, (get_m_lt _ _ _ H). reflexivity.
      * intros c Hne. rewrite tref_done_put_m. destruct c as [u|u|u]; auto.
        destruct (Nat.eqb_spec m u); auto. congruence.
    + rewrite EL. constructor; [cbn; apply upd_length|].
      intros k y Hk. change (get_m (set_ctl (set_ready (put_m s m x') l) CIdle) k)
        with (get_m (put_m s m x') k).
      rewrite get_m_put_m. destruct (Nat.eqb_spec m k) as [->|].
      * rewrite (get_m_lt _ _ _ H). rewrite H in Hk. inversion Hk; subst y.
        eexists; split; [reflexivity|]. split.
        -- unfold mkeep. subst x'. cbn. repeat split; auto. congruence.
        -- congruence.
      * exists y. split; auto. split; [apply mkeep_refl|intros _; apply mwk_refl].
  - intros y. rewrite EL.
    change (get_m (set_ctl (set_ready (put_m s m x') l) CIdle) m) with (get_m (put_m s m x') m).
    rewrite get_m_put_m, Nat.eqb_refl, (get_m_lt _ _ _ H). intros E; inversion E; subst y.
    subst x'. unfold rest_ok. cbn. split; [discriminate|]. congruence.
  - rewrite EL. reflexivity.
  - rewrite EL. reflexivity.
Qed.

Lemma suspend_m_B s m x0 x pc :
  get_m s m = Some x0 -> mlike x0 x ->
  (m_dead x = true -> m_mc x = true) -> (m_holds x = true -> pc = MWaitPool) ->
  rel (Some m) s (suspend_m s m x pc) /\ post m (suspend_m s m x pc) /\
  regs (suspend_m s m x pc) = regs s /\ ctl (suspend_m s m x pc) = CIdle.
Proof.
  intros H L Hd Hh. unfold suspend_m. destruct (m_mc x) eqn:MC.
  - set (x' := set_m_fw _ _).
    destruct (sched_form (put_m s m x') (HT (TM m))) as [l EL]. rewrite EL.
    split; [|split; [|split]]; try reflexivity.
    + assert (L' : mlike x0 x') by (destruct L as [A [B C]]; subst x'; unfold mlike; cbn; auto).
      eapply rel_trans; [apply (put_m_rel s m x0 x' H L')|].
      rewrite <- EL. eapply rel_trans; [apply rel_weaken, (a_rel _ _ (sched_ht_relA _ (TM m)))|].
      apply rel_neutral; reflexivity.
    + intros y.
      change (get_m (set_ctl (set_ready (put_m s m x') l) CIdle) m) with (get_m (put_m s m x') m).
      rewrite get_m_put_m, Nat.eqb_refl, (get_m_lt _ _ _ H). intros E; inversion E; subst y.
      subst x'. unfold rest_ok, fut_cancelled. cbn. split; auto.
  - set (x' := set_m_fw _ _).
    split; [|split; [|split]]; try reflexivity.
    + assert (L' : mlike x0 x') by (destruct L as [A [B C]]; subst x'; unfold mlike; cbn; auto).
      eapply rel_trans; [apply (put_m_rel s m x0 x' H L')|].
      apply rel_neutral; reflexivity.
    + intros y.
      change (get_m (set_ctl (put_m s m x') CIdle) m) with (get_m (put_m s m x') m).
      rewrite get_m_put_m, Nat.eqb_refl, (get_m_lt _ _ _ H). intros E; inversion E; subst y.
      subst x'. unfold rest_ok. cbn. split; auto. intros D. apply Hd in D. congruence.
Qed.

Definition run_ok (x : mtask) : Prop := (m_dead x = true -> m_mc x = true) /\ m_holds x = false.

(** *** register *)
Definition reg_pre (s : state) (m : nat) (x : mtask) : state :=
  let t := num_started s in
  let pt := mk_ptask m (m_idx x) (m_group x) (elem_w x) (m_ecb x) (m_ccb x) (is_map x)
                     PCreated None false None FinReturn None UPlain 0 0 0 0 in
  let s := set_groups s (gadd (m_group x) t (groups s)) in
  let s := set_num_started s (S t) in
  let s := set_ptasks s (ptasks s ++ [pt]) in
  let s := set_t_running s (dict_add (t_running s) t) in
  sched s (HT (TP t)).

Definition reg_x (x : mtask) : mtask :=
  set_m_holds (set_m_ncreated (set_m_idx (set_m_pc x MLoopHead) (S (m_idx x)))
                              (S (m_ncreated x))) false.

Lemma register_unfold s m x : register s m x = put_m (reg_pre s m x) m (reg_x x).
Proof. reflexivity. Qed.

Lemma reg_pre_rel mm s m x : rel mm s (reg_pre s m x).
Proof.
  unfold reg_pre.
  set (pt := mk_ptask _ _ _ _ _ _ _ _ _ _ _ _ _ _ _ _ _ _).
  set (s1 := set_t_running _ _).
  destruct (sched_form s1 (HT (TP (num_started s)))) as [l EL].
  constructor.
  - rewrite EL. reflexivity.
  - apply gvF_neutral_done.
    + rewrite EL. reflexivity.
    + intros c. rewrite EL. destruct c as [u|u|u]; try reflexivity.
      unfold tref_done, tref_final, get_p. subst s1. cbn.
      rewrite nth_error_snoc.
      destruct (Nat.ltb_spec u (length (ptasks s))); auto.
      assert (E : nth_error (ptasks s) u = None) by (apply nth_error_None; lia). rewrite E.
      destruct (Nat.eqb u (length (ptasks s))); reflexivity.
    + intros d c. rewrite sched_ready_In. subst s1. cbn. split; auto.
      intros [H|H]; auto. discriminate.
  - apply mev_same. rewrite EL. reflexivity.
Qed.

Lemma get_m_reg_pre s m x k : get_m (reg_pre s m x) k = get_m s k.
Proof. unfold reg_pre. rewrite get_m_sched. reflexivity. Qed.

Lemma register_rel s m x0 x :
  get_m s m = Some x0 -> mlike x0 x -> rel (Some m) s (register s m x).
Proof.
  intros H L. rewrite register_unfold.
  eapply rel_trans; [apply reg_pre_rel|].
  eapply put_m_rel; [rewrite get_m_reg_pre; exact H|].
  destruct L as [A [B C]]. unfold mlike, reg_x. cbn. auto.
Qed.

Lemma register_get s m x0 x :
  get_m s m = Some x0 -> get_m (register s m x) m = Some (reg_x x).
Proof.
  intros H. rewrite register_unfold, get_m_put_m, Nat.eqb_refl.
  assert (E : mtasks (reg_pre s m x) = mtasks s).
  { unfold reg_pre. rewrite mtasks_sched. reflexivity. }
  rewrite E, (get_m_lt _ _ _ H). reflexivity.
Qed.

(** *** try_start *)
Lemma try_start_B s m x0 x s' cont :
  get_m s m = Some x0 -> m_final x0 = None -> mlike x0 x ->
  (m_dead x = true -> m_mc x = true) -> (closed s = true -> m_holds x = false) ->
  try_start s m x = (s', cont) ->
  rel (Some m) s s' /\
  (if cont then exists x', get_m s' m = Some x' /\ mlike x0 x' /\ run_ok x' else post m s').
Proof.
  intros H F L Hd Hc. unfold try_start. destruct L as [Lg [Ld Lf]].
  destruct (closed s) eqn:C.
  - intros E; inversion E; subst s' cont.
    destruct (finish_m_B s m x0 x (Some EPoolIsClosed) H F Lg Ld (Hc eq_refl)) as [A [B _]]. auto.
  - destruct (sem_locked s).
    + intros E; inversion E; subst s' cont.
      destruct (suspend_m_B (set_sem_waiters s (sem_waiters s ++ [m])) m x0 x MWaitPool H) as [A [B _]];
        auto. { unfold mlike; auto. }
      split; auto. eapply rel_trans; [|exact A]. apply rel_neutral; reflexivity.
    + intros E; inversion E; subst s' cont. split.
      * eapply rel_trans; [|eapply register_rel; [exact H|unfold mlike; auto]].
        apply rel_neutral; reflexivity.
      * exists (reg_x x). split; [eapply register_get; exact H|]. split.
        -- unfold mlike, reg_x. cbn. auto.
        -- unfold run_ok, reg_x. cbn. auto.
Qed.

Definition Bres (m : nat) (s s' : state) : Prop := rel (Some m) s s' /\ post m s'.

Lemma Bres_trans m s1 s2 s3 : rel (Some m) s1 s2 -> Bres m s2 s3 -> Bres m s1 s3.
Proof. intros A [B C]. split; auto. eapply rel_trans; eauto. Qed.

Lemma apply_loop_B m : forall rem s x0,
  get_m s m = Some x0 -> m_final x0 = None -> run_ok x0 -> Bres m s (apply_loop rem s m).
Proof.
  induction rem as [|r IH]; intros s x0 H F [Rd Rh].
  - simpl. rewrite H. destruct (finish_m_B s m x0 x0 None H F eq_refl eq_refl Rh) as [A [B _]].
    split; auto.
  - simpl. rewrite H. destruct (nth (m_idx x0) (m_bad x0) false).
    + eapply Bres_trans; [eapply put_m_rel; [exact H|]|eapply IH].
      * unfold mlike. cbn. auto.
      * rewrite get_m_put_m, Nat.eqb_refl, (get_m_lt _ _ _ H). reflexivity.
      * exact F.
      * split; auto.
    + destruct (try_start s m x0) as [s' cont] eqn:T.
      destruct (try_start_B s m x0 x0 s' cont H F (mlike_refl _) Rd (fun _ => Rh) T) as [A B].
      destruct cont.
      * destruct B as [x' [Hx' [[_ [_ Lf]] R']]].
        eapply Bres_trans; [exact A|]. eapply IH; eauto. congruence.
      * split; auto.
Qed.

Lemma to_iter_B m s x0 :
  get_m s m = Some x0 -> m_final x0 = None -> run_ok x0 -> Bres m s (to_iter s m).
Proof.
  intros H F [Rd Rh]. unfold to_iter. rewrite H. split.
  - eapply rel_trans; [eapply put_m_rel with (x := set_m_pc x0 MAtIter); [exact H|]|].
    + unfold mlike. cbn. auto.
    + apply rel_neutral; reflexivity.
  - intros y.
    change (get_m (set_ctl (emit (put_m s m (set_m_pc x0 MAtIter)) (EvPull m (m_idx x0))) (CUser (TM m))) m)
      with (get_m (put_m s m (set_m_pc x0 MAtIter)) m).
    rewrite get_m_put_m, Nat.eqb_refl, (get_m_lt _ _ _ H). intros E; inversion E; subst y.
    unfold rest_ok. cbn. split; [auto|congruence].
Qed.

Lemma spawn_next_B m s x0 :
  get_m s m = Some x0 -> m_final x0 = None -> run_ok x0 -> Bres m s (spawn_next s m).
Proof.
  intros H F R. unfold spawn_next. rewrite H. destruct (m_kind x0).
  - eapply apply_loop_B; eauto.
  - eapply to_iter_B; eauto.
  - eapply apply_loop_B; eauto.
Qed.

Lemma start_then_next_B m s x0 x :
  get_m s m = Some x0 -> m_final x0 = None -> mlike x0 x ->
  (m_dead x = true -> m_mc x = true) -> (closed s = true -> m_holds x = false) ->
  Bres m s (start_then_next s m x).
Proof.
  intros H F L Hd Hc. unfold start_then_next.
  destruct (try_start s m x) as [s' cont] eqn:T.
  destruct (try_start_B s m x0 x s' cont H F L Hd Hc T) as [A B].
  destruct cont.
  - destruct B as [x' [Hx' [[_ [_ Lf]] R']]].
    eapply Bres_trans; [exact A|]. eapply spawn_next_B; eauto. congruence.
  - split; auto.
Qed.

Lemma continue_m_B m s :
  (forall x, get_m s m = Some x -> m_pc x = MAtIter -> m_final x = None /\ run_ok x) ->
  closed s = false ->
  (forall x, get_m s m = Some x -> rest_ok x) ->
  Bres m s (continue_m s m).
Proof.
  intros HH Hc Hrest. unfold continue_m. destruct (get_m s m) as [x|] eqn:G.
  2:{ split; [apply rel_refl|]. intros y Hy. congruence. }
  destruct (m_pc x) eqn:PC;
    try (split; [apply rel_refl|intros y Hy; apply Hrest; congruence]).
  destruct (HH x eq_refl PC) as [F [Rd Rh]].
  destruct (nth_error (m_els x) (m_idx x)) as [e|].
  - destruct (e_bad e).
    + eapply Bres_trans; [eapply put_m_rel; [exact G|]|eapply to_iter_B].
      * unfold mlike. cbn. auto.
      * rewrite get_m_put_m, Nat.eqb_refl, (get_m_lt _ _ _ G). reflexivity.
      * exact F.
      * split; auto.
    + destruct (m_mapval x).
      * destruct (suspend_m_B s m x x MWaitMap G (mlike_refl _) Rd) as [A [B _]]; [congruence|].
        split; auto.
      * eapply start_then_next_B;
          [exact G|exact F|unfold mlike; cbn; auto|cbn; exact Rd|congruence].
  - destruct (finish_m_B s m x x None G F eq_refl eq_refl Rh) as [A [B _]]. split; auto.
Qed.

Lemma mlike_sym x y : mlike x y -> mlike y x.
Proof. unfold mlike. intuition congruence. Qed.

Lemma relA_get_m s1 s2 m x1 :
  relA s1 s2 -> get_m s1 m = Some x1 -> exists y, get_m s2 m = Some y /\ mlike x1 y.
Proof.
  intros R H. destruct (mev_get _ _ _ (r_m _ _ _ (a_rel _ _ R)) m x1 H) as [y [Hy [_ W]]].
  exists y. split; auto. destruct W as [_ [A [B [C _]]]]; [discriminate|]. unfold mlike. auto.
Qed.

Lemma post_same m s : (forall x, get_m s m = Some x -> rest_ok x) -> Bres m s s.
Proof. intros H. split; [apply rel_refl|exact H]. Qed.

Definition cancel_path (s s' : state) : Prop :=
  regs_sub s s' /\ (ctl s' = CIdle \/ s' = s).

Lemma run_m_B m s :
  (forall x, get_m s m = Some x -> m_pc x <> MDone -> m_final x = None) ->
  (forall x, get_m s m = Some x -> rest_ok x) ->
  (forall x, get_m s m = Some x -> m_final x = None ->
             task_input (m_mc x) (m_fw x) = InOk -> m_dead x = false /\ closed s = false) ->
  Bres m s (run_m s m) /\
  (forall x, get_m s m = Some x -> task_input (m_mc x) (m_fw x) <> InOk ->
             cancel_path s (run_m s m)).
Proof.
  intros H1 H2 H3. unfold run_m. destruct (get_m s m) as [x0|] eqn:G.
  2:{ split; [apply post_same; intros; congruence|]. intros; discriminate. }
  specialize (H1 x0 eq_refl). specialize (H3 x0 eq_refl).
  assert (SAME : cancel_path s s) by (split; [intros t Ht; exact Ht|auto]).
  set (x := set_m_mc (set_m_fw x0 None) false).
  assert (Lx : mlike x0 x) by (unfold mlike; subst x; cbn; auto).
  destruct (m_pc x0) eqn:PC; try (split; [apply post_same; intros y Hy; apply H2; congruence|auto]).
  - (* MNotStarted *)
    assert (F : m_final x0 = None) by (apply H1; discriminate).
    assert (Hh : m_holds x0 = false).
    { destruct (m_holds x0) eqn:E; auto. destruct (H2 x0 eq_refl) as [_ B]. apply B in E. congruence. }
    destruct (task_input (m_mc x0) (m_fw x0)) eqn:TI.
    + destruct (H3 F eq_refl) as [Dd Cl]. split; [|intros y Ey; inversion Ey; subst; congruence].
      eapply Bres_trans; [eapply put_m_rel with (x := set_m_pc x MLoopHead); [exact G|]|].
      * unfold mlike. cbn. auto.
      * eapply spawn_next_B.
        -- rewrite get_m_put_m, Nat.eqb_refl, (get_m_lt _ _ _ G). reflexivity.
        -- cbn. exact F.
        -- unfold run_ok. cbn. split; [congruence|exact Hh].
    + destruct (finish_m_B s m x0 x (Some ECancelled) G F eq_refl eq_refl Hh) as [A [B [C D]]].
      split; [split; auto|]. intros _ _ _. split; [intros t; rewrite C; auto|auto].
    + destruct (finish_m_B s m x0 x (Some ECancelled) G F eq_refl eq_refl Hh) as [A [B [C D]]].
      split; [split; auto|]. intros _ _ _. split; [intros t; rewrite C; auto|auto].
  - (* MWaitMap *)
    assert (F : m_final x0 = None) by (apply H1; discriminate).
    assert (Hh : m_holds x0 = false).
    { destruct (m_holds x0) eqn:E; auto. destruct (H2 x0 eq_refl) as [_ B]. apply B in E. congruence. }
    destruct (task_input (m_mc x0) (m_fw x0)) eqn:TI.
    + destruct (H3 F eq_refl) as [Dd Cl]. split; [|intros y Ey; inversion Ey; subst; congruence].
      eapply start_then_next_B; [exact G|exact F|unfold mlike; cbn; auto|cbn; congruence|congruence].
    + set (x2 := if match m_fw x0 with Some FCancelled => true | _ => false end then x
                 else set_m_mapval x (S (m_mapval x))).
      assert (E2 : m_group x2 = m_group x0 /\ m_dead x2 = m_dead x0 /\ m_holds x2 = false).
      { subst x2. destruct (match m_fw x0 with Some FCancelled => true | _ => false end); cbn; auto. }
      destruct E2 as [Eg [Ed Eh]].
      destruct (finish_m_B s m x0 x2 None G F Eg Ed Eh) as [A [B [C D]]].
      split; [split; auto|]. intros _ _ _. split; [intros t; rewrite C; auto|auto].
    + set (x2 := if match m_fw x0 with Some FCancelled => true | _ => false end then x
                 else set_m_mapval x (S (m_mapval x))).
      assert (E2 : m_group x2 = m_group x0 /\ m_dead x2 = m_dead x0 /\ m_holds x2 = false).
      { subst x2. destruct (match m_fw x0 with Some FCancelled => true | _ => false end); cbn; auto. }
      destruct E2 as [Eg [Ed Eh]].
      destruct (finish_m_B s m x0 x2 None G F Eg Ed Eh) as [A [B [C D]]].
      split; [split; auto|]. intros _ _ _. split; [intros t; rewrite C; auto|auto].
  - (* MWaitPool *)
    assert (F : m_final x0 = None) by (apply H1; discriminate).
    set (s1 := put_m (set_sem_waiters s (remove1 m (sem_waiters s))) m x).
    assert (R1 : rel (Some m) s s1).
    { eapply rel_trans; [|eapply put_m_rel; [exact G|exact Lx]]. apply rel_neutral; reflexivity. }
    assert (G1 : get_m s1 m = Some x).
    { subst s1. rewrite get_m_put_m, Nat.eqb_refl.
      change (length (mtasks (set_sem_waiters s (remove1 m (sem_waiters s))))) with (length (mtasks s)).
      rewrite (get_m_lt _ _ _ G). reflexivity. }
    assert (RG1 : regs s1 = regs s) by reflexivity.
    destruct (task_input (m_mc x0) (m_fw x0)) eqn:TI.
    + destruct (H3 F eq_refl) as [Dd Cl]. split; [|intros y Ey; inversion Ey; subst; congruence].
      set (s2 := if ninf_pos (sem_value s1) then wake_next s1 else s1).
      assert (R2 : relA s1 s2).
      { subst s2. destruct (ninf_pos (sem_value s1)); [apply wake_next_relA|apply relA_refl]. }
      destruct (relA_get_m _ _ m x R2 G1) as [y [Gy Ly]].
      eapply Bres_trans; [exact R1|].
      eapply Bres_trans; [apply rel_weaken, (a_rel _ _ R2)|].
      eapply Bres_trans; [eapply register_rel; [exact Gy|apply mlike_sym; exact Ly]|].
      eapply spawn_next_B.
      * eapply register_get; exact Gy.
      * cbn. exact F.
      * unfold run_ok, reg_x. cbn. split; [congruence|reflexivity].
    + set (s2 := if match m_fw x0 with Some FCancelled => true | _ => false end then s1
                 else sem_release s1).
      assert (R2 : relA s1 s2).
      { subst s2. destruct (match m_fw x0 with Some FCancelled => true | _ => false end);
          [apply relA_refl|apply sem_release_relA]. }
      destruct (relA_get_m _ _ m x R2 G1) as [y [Gy [Lg [Ld Lf]]]].
      set (x2 := if m_holds x then set_m_holds (set_m_mapval x (S (m_mapval x))) false else x).
      assert (E2 : m_group x2 = m_group y /\ m_dead x2 = m_dead y /\ m_holds x2 = false).
      { subst x2. destruct (m_holds x) eqn:EH; cbn; auto. }
      destruct E2 as [Eg [Ed Eh]].
      assert (Fy : m_final y = None) by (rewrite Lf; exact F).
      destruct (finish_m_B s2 m y x2 None Gy Fy Eg Ed Eh) as [A [B [C D]]].
      split.
      * eapply Bres_trans; [exact R1|]. eapply Bres_trans; [apply rel_weaken, (a_rel _ _ R2)|].
        split; auto.
      * intros _ _ _. split; [|auto]. intros t. rewrite C. intros Ht.
        apply (a_regs _ _ R2) in Ht. rewrite RG1 in Ht. exact Ht.
    + set (s2 := if match m_fw x0 with Some FCancelled => true | _ => false end then s1
                 else sem_release s1).
      assert (R2 : relA s1 s2).
      { subst s2. destruct (match m_fw x0 with Some FCancelled => true | _ => false end);
          [apply relA_refl|apply sem_release_relA]. }
      destruct (relA_get_m _ _ m x R2 G1) as [y [Gy [Lg [Ld Lf]]]].
      set (x2 := if m_holds x then set_m_holds (set_m_mapval x (S (m_mapval x))) false else x).
      assert (E2 : m_group x2 = m_group y /\ m_dead x2 = m_dead y /\ m_holds x2 = false).
      { subst x2. destruct (m_holds x) eqn:EH; cbn; auto. }
      destruct E2 as [Eg [Ed Eh]].
      assert (Fy : m_final y = None) by (rewrite Lf; exact F).
      destruct (finish_m_B s2 m y x2 None Gy Fy Eg Ed Eh) as [A [B [C D]]].
      split.
      * eapply Bres_trans; [exact R1|]. eapply Bres_trans; [apply rel_weaken, (a_rel _ _ R2)|].
        split; auto.
      * intros _ _ _. split; [|auto]. intros t. rewrite C. intros Ht.
        apply (a_regs _ _ R2) in Ht. rewrite RG1 in Ht. exact Ht.
Qed.
