(** Monitor soundness, C13 (counting clauses) — tracker side: the end callbacks in flight
    ([k_cbs], kind [KEnd]) are listed without repetition, as long as no clause of property 2
    ([C02_end_cb_once]) is reported. *)
From TP Require Import PMon PMonSound_trk PMonSound_gen PMonSound2_def PMonSound2_trk
  PMonSound2_op PMonSound2_lbl.

Definition isend (p : nat * cbkind) : bool := cbk_eqb (snd p) KEnd.
Definition ecbs (l : list (nat * cbkind)) : list nat := map fst (filter isend l).

Lemma count_ecbs l : count (fun p => cbk_eqb (snd p) KEnd) l = length (ecbs l).
Proof.
  unfold ecbs. induction l as [|p l IH]; simpl; auto.
  unfold isend at 1. destruct (cbk_eqb (snd p) KEnd); simpl; rewrite IH; reflexivity.
Qed.

Lemma In_ecbs l t : In t (ecbs l) <-> In (t, KEnd) l.
Proof.
  unfold ecbs. rewrite in_map_iff. split.
  - intros ([u kd] & E & Hin). apply filter_In in Hin. destruct Hin as [Hin He].
    simpl in E. subst u. unfold isend in He. simpl in He. destruct kd; [exact Hin|discriminate].
  - intros H. exists (t, KEnd). split; [reflexivity|]. apply filter_In. split; auto.
Qed.

Lemma ecbs_filter (g : nat * cbkind -> bool) l :
  NoDup (ecbs l) -> NoDup (ecbs (filter g l)) /\ incl (ecbs (filter g l)) (ecbs l).
Proof.
  induction l as [|p l IH]; intros H.
  - simpl. split; [constructor|apply incl_refl].
  - assert (Hl : NoDup (ecbs l)).
    { unfold ecbs in *. simpl in H. destruct (isend p); [inversion H; auto|exact H]. }
    destruct (IH Hl) as [A B]. simpl filter. destruct (g p).
    + unfold ecbs in *. simpl in *. destruct (isend p); simpl in *.
      * inversion H as [|? ? Hn Hd]; subst. split.
        -- constructor; auto.
        -- intros u [<-|Hu]; [left; reflexivity|right; apply B; exact Hu].
      * split; auto.
    + split; [exact A|]. unfold ecbs in *. simpl. destruct (isend p); simpl.
      * intros u Hu. right. apply B. exact Hu.
      * exact B.
Qed.

Definition CBv (V : aview) : Prop :=
  NoDup (ecbs (a_cbs V)) /\ forall t, In t (ecbs (a_cbs V)) -> In t (a_ecb V).

Lemma CBv_del V t kd V' :
  a_cbs V' = del_cb (a_cbs V) t kd -> a_ecb V' = a_ecb V -> CBv V -> CBv V'.
Proof.
  intros E1 E2 [A B]. unfold CBv. rewrite E1, E2. unfold del_cb.
  destruct (ecbs_filter (fun p => negb (Nat.eqb (fst p) t && cbk_eqb (snd p) kd)) (a_cbs V) A)
    as [A' B'].
  split; [exact A'|]. intros u Hu. apply B, B', Hu.
Qed.

Lemma avev_CB n V e :
  (forall t cl, e = EvCbBegin KEnd t cl -> ~ In t (a_ecb V)) -> CBv V -> CBv (avev n V e).
Proof.
  intros Hne HC. destruct e as [t r el|t|t|kd t cl|kd t raised|kd t|r m|d oc]; cbn [avev];
    try exact HC.
  - destruct (Nat.ltb r n); exact HC.
  - destruct kd.
    + destruct HC as [A B]. split; cbn [a_cbs a_ecb].
      * change (NoDup (t :: ecbs (a_cbs V))). constructor; auto.
        intros Hin. apply (Hne t cl eq_refl). apply B. exact Hin.
      * change (forall u, In u (t :: ecbs (a_cbs V)) -> In u (t :: a_ecb V)).
        intros u [<-|Hu]; [left; reflexivity|right; apply B; exact Hu].
    + exact HC.
  - eapply CBv_del; [| |exact HC]; reflexivity.
  - eapply CBv_del; [| |exact HC]; reflexivity.
Qed.

Lemma on_event_noend k o t cl :
  NCf is_p2 (snd (on_event k o (EvCbBegin KEnd t cl))) -> ~ In t (k_ecb k).
Proof.
  intros H. unfold on_event in H. cbn [snd] in H.
  destruct (mem t (k_ecb k)) eqn:E; [|apply mem_false_In; exact E].
  exfalso. specialize (H C02_end_cb_once).
  assert (Hin : is_p2 C02_end_cb_once = false).
  { apply H. apply in_or_app. right. apply in_or_app. right. apply in_or_app. left.
    simpl. left. reflexivity. }
  discriminate Hin.
Qed.

Lemma on_events_CB es : forall k o,
  NCf is_p2 (snd (on_events k o es)) -> CBv (aview_of k) ->
  CBv (aview_of (fst (on_events k o es))).
Proof.
  induction es as [|e es IH]; intros k o H HC; simpl; auto.
  simpl in H.
  pose proof (on_event_aview k o e) as [A _].
  pose proof (on_event_noend k o) as Hn.
  destruct (on_event k o e) as [k1 c1] eqn:E1. simpl in A.
  specialize (IH k1 o). destruct (on_events k1 o es) as [k2 c2]. cbn [fst snd] in *.
  apply IH.
  - intros cl Hin. apply H. apply in_or_app. right. exact Hin.
  - rewrite A. apply avev_CB; [|exact HC].
    intros t cl ->. apply (Hn t cl). rewrite E1. simpl.
    intros c0 Hin. apply H. apply in_or_app. left. exact Hin.
Qed.

Lemma mon_step_CB c k o :
  filter is_p2 (snd (mon_step c k o)) = [] -> CBv (aview_of k) ->
  CBv (aview_of (fst (mon_step c k o))).
Proof.
  intros Hf HC. apply filter_nil_NCf in Hf. revert Hf. unfold mon_step.
  pose proof (on_label_same c k o) as (A & _).
  destruct (on_label c k o) as [k1 c1]. simpl in A.
  pose proof (on_events_CB (o_events o) k1 o) as E.
  destruct (on_events k1 o (o_events o)) as [k2 c2]. simpl in E.
  destruct (nrs_same (o_events o) k2) as [N _].
  cbn [fst snd]. intros Hf.
  change (CBv (aview_of (note_raising_starts k2 (o_events o)))).
  rewrite N. apply E.
  - intros cl Hin. apply Hf. apply in_or_app. right. apply in_or_app. left. exact Hin.
  - rewrite A. exact HC.
Qed.
