(** Monitor soundness, C10 — the tracker side (pure facts about PMon.v): which clauses of
    property 10 one monitor step produces, and how the parts of the tracker they read evolve
    ([k_prev], [k_nstart], [k_reqs]). *)
From TP Require Import PMon PMonSound_trk PMonSound_gen PMonSound_C45_trk PMonSound_C45_pull
  PMonSound_C45_trk2.

(** ** events: only [EvStart] carries a clause of C10 *)
Definition in_group10 (x : req) (o : obs) (t : nat) : bool :=
  match group_ids o (r_group x) with Some ids => mem t ids | None => true end.

Definition ecl10 (rs : list req) (o : obs) (e : event) : list clause :=
  match e with
  | EvStart t r el =>
      match nth_error rs r with
      | Some x => fails (in_group10 x o t) C10_member
      | None => []
      end
  | _ => []
  end.

Fixpoint ecls10 (rs : list req) (o : obs) (es : list event) : list clause :=
  match es with
  | [] => []
  | e :: t => ecl10 rs o e ++ ecls10 (rq_ev rs e) o t
  end.

Lemma on_event_10 k o e :
  fp 10 (snd (on_event k o e)) = ecl10 (k_reqs k) o e /\
  k_nstart (fst (on_event k o e)) = k_nstart k.
Proof.
  destruct e as [t r el|t|t|kd t cl|kd t raised|kd t|r n|d oc]; unfold on_event, ecl10.
  - destruct (nth_error (k_reqs k) r) as [x|]; cbn [fst snd]; (split; [|reflexivity]).
    + rewrite !fp_app. fold (in_group10 x o t).
      rewrite (fp_fails 10 (in_group10 x o t) C10_member) by reflexivity.
      rewrite !fp_fails_other by (try destruct (is_map_kind (r_kind x)); discriminate).
      rewrite app_nil_r. reflexivity.
    + reflexivity.
  - cbn [fst snd]. split; auto. apply NCp_fp. ncp.
  - cbn [fst snd]. split; auto. apply NCp_fp. ncp.
  - destruct kd; cbn [fst snd]; split; auto; apply NCp_fp; ncp.
  - cbn [fst snd]. split; auto. apply NCp_fp. ncp.
  - cbn [fst snd]. split; auto.
  - destruct (nth_error (k_reqs k) r) as [x|]; cbn [fst snd]; split; auto; apply NCp_fp; ncp.
  - destruct (nth_error (k_drvs k) d) as [v|]; cbn [fst snd]; [|split; auto; apply NCp_fp; ncp].
    destruct (v_kind v); destruct oc; cbn [fst snd];
      try (destruct (k_prev k) as [p|]; cbn [fst snd]); split; auto; apply NCp_fp; ncp.
Qed.

Lemma on_events_10 es : forall k o,
  fp 10 (snd (on_events k o es)) = ecls10 (k_reqs k) o es /\
  k_nstart (fst (on_events k o es)) = k_nstart k.
Proof.
  induction es as [|e es IH]; intros k o; simpl; [split; reflexivity|].
  pose proof (on_event_10 k o e) as (A1 & A2). pose proof (on_event_reqs k o e) as A3.
  destruct (on_event k o e) as [k1 c1]. cbn [fst snd] in A1, A2, A3.
  pose proof (IH k1 o) as (B1 & B2).
  destruct (on_events k1 o es) as [k2 c2]. cbn [fst snd] in *.
  rewrite fp_app, A1, B1, A3, B2, A2. split; reflexivity.
Qed.

(** the group of a request never changes along the events *)
Lemma ecls10_nil o es : forall rs,
  (forall t r el x, In (EvStart t r el) es -> nth_error rs r = Some x -> in_group10 x o t = true) ->
  ecls10 rs o es = [].
Proof.
  induction es as [|e es IH]; intros rs H; simpl; auto.
  rewrite IH.
  - rewrite app_nil_r. destruct e as [t r el|t|t|kd t cl|kd t raised|kd t|r n|d oc]; simpl; auto.
    destruct (nth_error rs r) as [x|] eqn:Hx; auto.
    rewrite (H t r el x (or_introl eq_refl) Hx). reflexivity.
  - intros t r el x' Hin Hx'.
    destruct (rq_ev_nth _ _ _ _ Hx') as (x & Hx & (_ & _ & _ & _ & _ & Eg & _) & _).
    pose proof (H t r el x (or_intror Hin) Hx) as Hg.
    unfold in_group10 in *. rewrite Eg. exact Hg.
Qed.

(** ** state clauses *)
Definition part10 (o : obs) : bool :=
  pairwise_disjoint
    (flat_map (fun p : gname * option (list nat) =>
                 match snd p with Some ids => [ids] | None => [] end) (o_groups o)).

Lemma state_clauses_10 c k o : fp 10 (state_clauses c k o) = fails (part10 o) C10_partition.
Proof.
  unfold state_clauses. cbv zeta. fold (part10 o).
  rewrite fp_app, (NCp_fp 10 (if negb (k_setsize k) then _ else _))
    by (destruct (negb (k_setsize k)); ncp).
  rewrite fp_app, fp_fails_other by discriminate.
  rewrite fp_app, fp_fails_other by discriminate.
  rewrite fp_app, fp_fails_other by discriminate.
  rewrite fp_app, fp_fails_other by discriminate.
  rewrite fp_app, (NCp_fp 10 (flat_map _ _)).
  2:{ apply NCp_flat_map. intros [r x]. destruct (r_kind x); ncp;
        try (destruct (group_ids o (r_group x)); ncp; destruct (r_dead x); ncp). }
  rewrite fp_app, fp_fails_other by discriminate.
  rewrite fp_app, fp_fails_other by discriminate.
  rewrite fp_app, (fp_fails 10 (part10 o) C10_partition) by reflexivity.
  rewrite fp_app, fp_fails_other by discriminate.
  rewrite fp_app, fp_fails_other by discriminate.
  rewrite (NCp_fp 10 (if k_setsize k then _ else _)) by (destruct (k_setsize k); ncp).
  cbn [app]. rewrite app_nil_r. reflexivity.
Qed.

(** ** the label part *)
Definition spawn_cl10 (k : trk) (o : obs) (first noncoro nc_bad : bool) (g : option gname)
           (meth : nat) : list clause :=
  let p := prev_or k o in
  let exp := if first then None else expected_spawn_err k p noncoro nc_bad g in
  match o_res o with
  | RName n =>
      fails (if first then true
             else match exp with Some _ => true | None => negb (group_live p n) end)
            C10_name_fresh
      ++ fails (match g with
                | Some u => gname_eqb u n
                | None =>
                    if first then true
                    else gname_eqb n (GGen meth (least_free p meth (S (length (o_groups p))) 0))
                end) C10_name_fresh
      ++ fails (group_live o n) C10_member
  | _ => []
  end.

Definition start_cl10 (k : trk) (o : obs) : list clause :=
  match o_res o with
  | RName n =>
      fails (group_live o n) C10_member
      ++ fails (gname_eqb n (GStart (k_nstart k))) C10_name_fresh
  | _ => []
  end.

Definition want_ids (o : obs) : list gname -> list nat -> option (list nat) :=
  fix go (l : list gname) (acc : list nat) : option (list nat) :=
    match l with
    | [] => Some acc
    | g :: t => match group_ids o g with
                | Some ids => go t (ids ++ acc)
                | None => None
                end
    end.

Definition getids_ok (o : obs) (gs : list gname) : bool :=
  match want_ids o gs [], o_res o with
  | Some w, RIds ids => forallb (fun t => mem t ids) w && forallb (fun t => mem t w) ids
  | None, RErr ErrGroupNotFound => true
  | _, _ => false
  end.

Definition lcl10 (k : trk) (o : obs) : list clause :=
  if negb (o_enabled o) then [] else
  let first := match k_prev k with None => true | Some _ => false end in
  match o_label o with
  | LOp (OpApply num bad noncoro w ecb ccb g) => spawn_cl10 k o first noncoro false g 0
  | LOp (OpMap stars els nc noncoro ecb ccb g) =>
      spawn_cl10 k o first noncoro (Nat.eqb nc 0) g (S stars)
  | LOp (OpStart num) => start_cl10 k o
  | LOp (OpGetGroupIds gs) => fails (getids_ok o gs) C10_get_ids
  | _ => []
  end.

Definition nstart_lab (k : trk) (o : obs) : nat :=
  if negb (o_enabled o) then k_nstart k else
  match o_label o, o_res o with
  | LOp (OpStart _), RName _ => S (k_nstart k)
  | _, _ => k_nstart k
  end.

Lemma on_spawn_10 k o first noncoro nc_bad g meth mk :
  (forall n, k_nstart (mk n) = k_nstart k) ->
  fp 10 (snd (on_spawn k o first noncoro nc_bad g meth mk)) =
    spawn_cl10 k o first noncoro nc_bad g meth /\
  k_nstart (fst (on_spawn k o first noncoro nc_bad g meth mk)) = k_nstart k.
Proof.
  intros Hmk. unfold on_spawn, spawn_cl10. cbv zeta.
  destruct (o_res o) as [|n|l|e]; cbn [fst snd]; (split; [|auto]).
  - reflexivity.
  - rewrite !fp_app.
    rewrite (fp_fails_other 10 _ C09_error_class) by discriminate.
    rewrite (fp_fails_other 10 _ C08_closed_after) by discriminate.
    rewrite !fp_fails by reflexivity. cbn [app]. rewrite app_nil_r. reflexivity.
  - reflexivity.
  - apply NCp_fp. ncp.
Qed.

Lemma filter_fails f b c : filter f (fails b c) = if f c then fails b c else [].
Proof. unfold fails. destruct b; simpl; destruct (f c); reflexivity. Qed.

Lemma on_label_10 c k o :
  fp 10 (snd (on_label c k o)) = lcl10 k o /\
  k_prev (fst (on_label c k o)) = k_prev k /\
  k_nstart (fst (on_label c k o)) = nstart_lab k o.
Proof.
  unfold on_label, lcl10, nstart_lab.
  destruct (negb (o_enabled o)); [repeat split; reflexivity|]. cbv zeta.
  destruct (o_label o) as [h| |op]; try (repeat split; reflexivity).
  destruct op.
  - match goal with |- context [on_spawn ?a ?b ?c ?d ?e ?f ?g ?h] =>
      destruct (on_spawn_10 a b c d e f g h) as [A B]; [intros; reflexivity|] end.
    split; [exact A|]. split; [|exact B]. unfold on_spawn. destruct (o_res o); reflexivity.
  - match goal with |- context [on_spawn ?a ?b ?c ?d ?e ?f ?g ?h] =>
      destruct (on_spawn_10 a b c d e f g h) as [A B]; [intros; reflexivity|] end.
    split; [exact A|]. split; [|exact B]. unfold on_spawn. destruct (o_res o); reflexivity.
  - (* start *)
    unfold start_cl10, on_spawn. cbv zeta.
    destruct (o_res o) as [|n|l|e]; cbn [fst snd]; repeat split; auto;
      try (apply NCp_fp; ncp).
    rewrite !filter_app, !filter_fails. cbn [app].
    rewrite !fp_app.
    rewrite (fp_fails_other 10 _ C09_error_class) by discriminate.
    rewrite (fp_fails_other 10 _ C08_closed_after) by discriminate.
    rewrite !fp_fails by reflexivity. cbn [fp filter app]. rewrite app_nil_r. reflexivity.
  - destruct (o_res o); cbn [fst snd]; repeat split; auto; apply NCp_fp; ncp.
  - destruct (o_res o); cbn [fst snd]; repeat split; auto; apply NCp_fp; ncp.
  - cbn [fst snd]. repeat split; auto. apply NCp_fp. ncp.
  - destruct (o_res o); cbn [fst snd]; repeat split; auto; apply NCp_fp; ncp.
  - destruct (o_res o); cbn [fst snd]; repeat split; auto; apply NCp_fp; ncp.
  - cbn [fst snd]. repeat split; auto. apply NCp_fp. ncp.
  - cbn [fst snd]. repeat split; auto. apply NCp_fp. ncp.
  - destruct v; cbn [fst snd]; repeat split; auto; apply NCp_fp; ncp.
  - cbn [fst snd]. repeat split; auto. rewrite fp_fails by reflexivity. reflexivity.
  - destruct k0; cbn [fst snd]; repeat split; auto.
  - destruct h; cbn [fst snd]; repeat split; auto.
  - repeat split; reflexivity.
Qed.

Lemma note_raising_nstart es : forall k, k_nstart (note_raising_starts k es) = k_nstart k.
Proof.
  unfold note_raising_starts.
  induction es as [|e es IH]; intros k; simpl; auto.
  rewrite IH. destruct e; auto.
  destruct (req_of k tid) as [[[r0 el0] x0]|]; auto.
  destruct (w_first _); auto.
Qed.

(** ** one monitor step, as far as property 10 is concerned *)
Lemma mon_step_10 c k o :
  let rs1 := lab_reqs c (k_reqs k) (negb (k_gac_req k)) o in
  fp 10 (snd (mon_step c k o)) =
    lcl10 k o ++ ecls10 rs1 o (o_events o) ++ fails (part10 o) C10_partition /\
  k_prev (fst (mon_step c k o)) = Some o /\
  k_nstart (fst (mon_step c k o)) = nstart_lab k o /\
  k_reqs (fst (mon_step c k o)) = fold_left rq_ev (o_events o) rs1.
Proof.
  cbv zeta. unfold mon_step.
  pose proof (on_label_10 c k o) as (L1 & L2 & L3). pose proof (on_label_reqs c k o) as L4.
  destruct (on_label c k o) as [k1 c1]. cbn [fst snd] in L1, L2, L3, L4.
  pose proof (on_events_10 (o_events o) k1 o) as (E1 & E2).
  pose proof (on_events_reqs (o_events o) k1 o) as E3.
  destruct (on_events k1 o (o_events o)) as [k2 c2]. cbn [fst snd] in E1, E2, E3.
  destruct (note_raising_same5 (o_events o) k2) as (_ & N2).
  pose proof (note_raising_nstart (o_events o) k2) as N3.
  cbn [fst snd]. repeat split.
  - rewrite !fp_app, L1, E1, L4, state_clauses_10. reflexivity.
  - cbn [k_nstart set_k_prev set_k_nids k_with]. rewrite N3, E2, L3. reflexivity.
  - cbn [k_reqs set_k_prev set_k_nids k_with]. rewrite N2, E3, L4. reflexivity.
Qed.
