(** M1 — the parts of C03, C06, C07, C08, C09, C12, C13, C14, C15 that speak about what one
    operation or one step does (definitions only; proofs in PStep_*.v).  [s'] is always the state
    after the operation / step. *)
From TP Require Export PSpec.
From Coq Require Export Sorted.

(** ** Frames *)
(** every field of the pool proper is unchanged (the result register, the per-step event list and
    the observer's list of known names are not part of the pool) *)
Definition pool_same (s s' : state) : Prop :=
  cfg s' = cfg s /\ num_started s' = num_started s /\ locked s' = locked s /\
  closed s' = closed s /\ t_running s' = t_running s /\ t_cancelled s' = t_cancelled s /\
  t_ended s' = t_ended s /\ sem_value s' = sem_value s /\ sem_waiters s' = sem_waiters s /\
  groups s' = groups s /\ gmeta s' = gmeta s /\ meta_cancelled s' = meta_cancelled s /\
  start_calls s' = start_calls s /\ ptasks s' = ptasks s /\ mtasks s' = mtasks s /\
  dtasks s' = dtasks s /\ closed_waiters s' = closed_waiters s /\ ready s' = ready s /\
  ctl s' = ctl s /\ cap s' = cap s /\ n_forgotten s' = n_forgotten s.

(** a cancellation has been requested of task record [x'] (and nothing else about it changed
    relative to [x]): it will observe CancelledError at its next step, or — not having started
    yet — will never start its worker and go through the cancellation path *)
Definition cancel_requested (x x' : ptask) : Prop :=
  x' = set_p_unst x UDeferred \/ x' = set_p_fw x (Some FCancelled) \/ x' = set_p_mc x true.

(** ** C06 — cancel(ids) is exact and all-or-nothing *)
Definition class_error (c : tclass) : option errclass :=
  match c with
  | ClRunning => None
  | ClCancelled => Some ErrAlreadyCancelled
  | ClEnded => Some ErrAlreadyEnded
  | ClUnknown => Some ErrTaskNotFound
  end.

Record C06_op (s : state) (ids : list nat) : Prop := {
  (* some id is not running: the error of the first such id, nothing at all is cancelled *)
  c06_error : forall pre t post e,
      ids = pre ++ t :: post -> (forall u, In u pre -> classify s u = ClRunning) ->
      class_error (classify s t) = Some e ->
      res (do_op s (OpCancel ids)) = RErr e /\ pool_same s (do_op s (OpCancel ids));
  (* all ids are running: exactly the named tasks get a cancellation request; every other task
     record, and every field besides the task records and the ready queue, is unchanged *)
  c06_ok : (forall u, In u ids -> classify s u = ClRunning) ->
      let s' := do_op s (OpCancel ids) in
      res s' = RNone /\
      (forall t, ~ In t ids -> get_p s' t = get_p s t) /\
      (forall t x, In t ids -> get_p s t = Some x -> p_final x = None ->
                   exists x', get_p s' t = Some x' /\
                              (cancel_requested x x' \/ (* repeated id: already requested *)
                               exists x0, cancel_requested x x0 /\
                                          (x' = x0 \/ cancel_requested x0 x'))) /\
      t_running s' = t_running s /\ t_cancelled s' = t_cancelled s /\ t_ended s' = t_ended s /\
      mtasks s' = mtasks s /\ dtasks s' = dtasks s /\ groups s' = groups s /\
      sem_value s' = sem_value s /\ sem_waiters s' = sem_waiters s
}.

(** a started task with a cancellation request observes exactly one CancelledError at its next
    step *)
Definition cancel_pending (x : ptask) : Prop :=
  p_pc x = PWaitGate /\ (p_fw x = Some FCancelled \/ p_mc x = true).

(** ** C14 — SimpleTaskPool.stop is LIFO and exact *)
Record C14_op (s : state) (n : nat) : Prop := {
  c14_result : res (do_op s (OpStop (Some n))) = RIds (firstn n (rev (t_running s)));
  c14_count : length (firstn n (rev (t_running s))) = Nat.min n (length (t_running s));
  (* the effect is that of cancel() on exactly those ids *)
  c14_effect : forall s1, s1 = do_op s (OpCancel (firstn n (rev (t_running s)))) ->
               pool_same s1 (do_op s (OpStop (Some n)));
  c14_neg : res (do_op s (OpStop None)) = RIds [] /\ pool_same s (do_op s (OpStop None));
  c14_all : res (do_op s OpStopAll) = RIds (rev (t_running s))
}.

(** the running registry is kept in start order = ascending ids, so "newest first" = descending *)
Definition running_sorted (s : state) : Prop := StronglySorted lt (t_running s).

(** ** C09 — rejected requests leave no trace; lock/unlock *)
Definition spawn_op (o : op) : bool :=
  match o with OpApply _ _ _ _ _ _ _ | OpMap _ _ _ _ _ _ _ | OpStart _ => true | _ => false end.

Record C09_op (s : state) : Prop := {
  c09_no_trace : forall o e, spawn_op o = true -> res (do_op s o) = RErr e ->
                 pool_same s (do_op s o);
  (* order of the checks: type, closed, locked, then value / duplicate name *)
  c09_noncoro : forall num bad w ecb ccb g,
      res (do_op s (OpApply num bad true w ecb ccb g)) = RErr ErrNotCoroutineFunction;
  c09_closed : closed s = true -> forall num bad w ecb ccb g,
      res (do_op s (OpApply num bad false w ecb ccb g)) = RErr ErrPoolIsClosed;
  c09_locked : closed s = false -> locked s = true ->
      (forall num bad w ecb ccb g,
          res (do_op s (OpApply num bad false w ecb ccb g)) = RErr ErrPoolIsLocked) /\
      (forall stars els nc ecb ccb g,
          res (do_op s (OpMap stars els nc false ecb ccb g)) = RErr ErrPoolIsLocked) /\
      (forall num, res (do_op s (OpStart num)) = RErr ErrPoolIsLocked);
  c09_nc : closed s = false -> locked s = false -> forall stars els ecb ccb g,
      res (do_op s (OpMap stars els 0 false ecb ccb g)) = RErr ErrValueError;
  c09_dup : closed s = false -> locked s = false -> forall g, ghas g (groups s) = true ->
      (forall num bad w ecb ccb,
          res (do_op s (OpApply num bad false w ecb ccb (Some g))) = RErr ErrGroupExists) /\
      (forall stars els nc ecb ccb, nc <> 0 ->
          res (do_op s (OpMap stars els nc false ecb ccb (Some g))) = RErr ErrGroupExists);
  c09_negative_size : res (do_op s (OpSetSize None)) = RErr ErrValueError /\
                      pool_same s (do_op s (OpSetSize None));
  c09_lock : locked (do_op s OpLock) = true /\
             do_op (do_op s OpLock) OpLock = do_op s OpLock;
  c09_unlock : locked (do_op s OpUnlock) = false /\
               do_op (do_op s OpUnlock) OpUnlock = do_op s OpUnlock /\
               (closed s = false -> check_start (do_op s OpUnlock) false = None)
}.

(** ** C07 — group cancellation: the operation *)
Record C07_op (s : state) (g : gname) : Prop := {
  c07_unknown : glookup g (groups s) = None ->
      res (do_op s (OpCancelGroup g)) = RErr ErrGroupNotFound /\
      pool_same s (do_op s (OpCancelGroup g));
  c07_known : forall ids, glookup g (groups s) = Some ids ->
      let s' := do_op s (OpCancelGroup g) in
      res s' = RNone /\
      (* the pool forgets g: its ids are no longer reported, the name is free *)
      glookup g (groups s') = None /\
      (forall h, h <> g -> glookup h (groups s') = glookup h (groups s)) /\
      (* every request made for g is dead from now on *)
      (forall m y, get_m s' m = Some y -> m_group y = g -> m_dead y = true) /\
      (* tasks of other groups and spawners of other groups are untouched *)
      (forall t, ~ In t ids -> get_p s' t = get_p s t) /\
      (forall m y, get_m s m = Some y -> m_group y <> g -> get_m s' m = Some y) /\
      (* every unfinished task of g gets a cancellation request *)
      (forall t x, In t ids -> In t (t_running s) -> get_p s t = Some x -> p_final x = None ->
                   exists x', get_p s' t = Some x' /\ cancel_requested x x') /\
      t_running s' = t_running s /\ t_cancelled s' = t_cancelled s /\ t_ended s' = t_ended s /\
      sem_value s' = sem_value s
}.

(** C07, history part: a request whose group was cancelled creates no further task and does not
    advance its iterator again (unless the cancellation came from inside that very iterator) *)
Definition C07_no_late (s s' : state) : Prop :=
  taint_iter s' = false ->
  forall m y y', get_m s m = Some y -> m_dead y = true -> get_m s' m = Some y' ->
                 m_ncreated y' = m_ncreated y /\ m_idx y' = m_idx y /\
                 (forall k, ~ In (EvPull m k) (evs s')) /\
                 (forall t el, ~ In (EvStart t m el) (evs s') \/ t < num_started s).

(** ** C03 — transitions of a task's classification in one step *)
Definition class_succ (s : state) (t : nat) (a b : tclass) : Prop :=
  match a, b with
  | ClRunning, (ClRunning | ClCancelled | ClEnded) => True
  | ClCancelled, (ClCancelled | ClEnded) => True
  | ClEnded, (ClEnded | ClUnknown) => True          (* forgotten by flush / gather_and_close *)
  | ClUnknown, ClUnknown => True
  | ClUnknown, ClRunning => num_started s <= t       (* created in this step *)
  | _, _ => False
  end.

(** ** C13 — flush forgets finished tasks only *)
Definition C13_step (s s' : state) : Prop :=
  (* whatever happens in a step, a task that leaves the registries had finished before *)
  (forall t x, In t (regs s) -> ~ In t (regs s') -> get_p s t = Some x -> p_pc x = PDone) /\
  (* running tasks stay counted and cancellable across a flush: *)
  (forall d x, get_d s d = Some x -> (exists re, d_kind x = DFlush re) ->
               In (EvDriverDone d OResult) (evs s') ->
               t_running s' = t_running s /\ t_cancelled s' = t_cancelled s /\
               (* ... and it forgets every task of its snapshot *)
               (forall t, In t (d_snap x) \/ ~ In t (t_ended s) -> ~ In t (t_ended s'))).

(** ** C12 / C08 / C13 — what drivers and tasks can end with *)
Definition user_exn_of (s : state) (e : exn) : Prop :=
  exists t x st, e = EUser t st /\ get_p s t = Some x /\
    match st with
    | SWorker => w_first (p_w x) = WRaise \/ p_fin x = FinRaise
    | SEndCb => cb_raises (p_ecb x) = true
    | SCancelCb => cb_raises (p_ccb x) = true
    end.

Record C12_spec (s : state) : Prop := {
  (* a task ends with its own user exception or normally — never with an internal error, never
     cancelled (P-self) — and its slot was released whatever the outcome *)
  c12_task_outcome : taint_self s = false -> forall t x o, get_p s t = Some x ->
      p_final x = Some o ->
      p_nrel x = 1 /\
      (o = OResult \/ exists st, o = OExc (EUser t st) /\ user_exn_of s (EUser t st));
  (* spawners never fail *)
  c12_meta_outcome : forall m y e, get_m s m = Some y -> m_final y <> Some (OExc e);
  (* what flush / gather_and_close raise is an exception raised by user code of a pool task,
     never a different one; with return_exceptions=True they do not raise at all *)
  c12_driver_outcome : taint_self s = false -> forall d x o, get_d s d = Some x ->
      d_final x = Some o ->
      o = OResult \/ exists e, o = OExc e /\ user_exn_of s e /\
                               d_kind x <> DFlush true /\ d_kind x <> DGatherClose true /\
                               d_kind x <> DUntilClosed
}.

Record C08_spec (s : state) : Prop := {
  (* once closed: no task is held, every request accepted before is complete or was cancelled,
     and the pool stays closed for new requests *)
  c08_closed_empty : closed s = true -> regs s = [];
  c08_closed_metas : closed s = true -> forall m y, get_m s m = Some y ->
                     m_final y <> None \/ m_dead y = true;
  c08_closed_rejects : closed s = true -> forall noncoro,
                     check_start s noncoro = Some (if noncoro then ErrNotCoroutineFunction
                                                   else ErrPoolIsClosed);
  (* gather_and_close returns normally only with the pool closed *)
  c08_gac_done : forall d x re, get_d s d = Some x -> d_kind x = DGatherClose re ->
                 d_final x = Some OResult -> closed s = true;
  (* until_closed() returns only when the pool is closed — never earlier — and, when it is
     closed, every waiter has been released (is done or has its wake-up scheduled) *)
  c08_until_not_early : forall d x, get_d s d = Some x -> d_kind x = DUntilClosed ->
                        d_pc x = DDone -> closed s = true;
  c08_until_released : closed s = true -> forall d x, get_d s d = Some x ->
                       d_kind x = DUntilClosed -> d_pc x = DWaitClosed -> d_fw x = Some FOk
}.

(** ** C15 — pool_size: what holds (the full statement is refuted, see Thm_C15.v) *)
Record C15_partial_spec (s : state) : Prop := {
  c15_negative : res (do_op s (OpSetSize None)) = RErr ErrValueError /\
                 pool_same s (do_op s (OpSetSize None));
  (* the getter is exact while no slot is in use *)
  c15_getter_idle : taint_size s = false -> in_use s = 0 -> sem_value s = cf_size (cfg s);
  (* an assignment makes [v] the number of FREE slots, disturbing no task *)
  c15_setter : forall v, let s' := do_op s (OpSetSize (Some v)) in
               sem_value s' = v /\ ptasks s' = ptasks s /\ t_running s' = t_running s /\
               ready s' = ready s /\ sem_waiters s' = sem_waiters s
}.
