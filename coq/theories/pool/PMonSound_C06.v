(** Monitor soundness for C06: on the model's own observation stream the executable monitor of
    PMon.v never reports a violated clause of property C06 — for clean runs in which no worker
    cancelled itself from a final segment ([taint_self], open finding D11).

    The hypothesis [taint_self (run c tr) = false] cannot be dropped: see [mon_C06_needs_P_self]
    at the end of this file for a legal clean run on which the monitor reports [C06_delivered]. *)
From TP Require Import PInv PInv_P_base PInv_P_view PInv_P_inv PInv_P_tok PInv_P_tok2 PInv_P_leaf
  PInv_P_chain PInv_P_step PInv_P PSpec PSpecStep PStep_C_ev PStep_C_rel PStep_C_run PStep_C_drv
  PStep_C PStep_C06 PStep_A_inv PMon PRun PWF PInv_R_base
  PMonSound_trk PMonSound_ev PMonSound_C01 PMonSound_kn PMonSound_C06_trk PMonSound_C06_mod.

(** ** small facts *)
Lemma gname_eq_dec (a b : gname) : {a = b} + {a <> b}.
Proof. destruct (geqb_spec a b); auto. Qed.

Lemma glookup_In g gs ids : glookup g gs = Some ids -> In (g, ids) gs.
Proof.
  induction gs as [|[h v] r IH]; simpl; [discriminate|].
  destruct (geqb_spec g h) as [->|Hne]; [intros [= ->]; auto|auto].
Qed.

Lemma In_glookup g gs ids : NoDup (map fst gs) -> In (g, ids) gs -> glookup g gs = Some ids.
Proof.
  induction gs as [|[h v] r IH]; simpl; [tauto|]. intros Hnd Hin. inversion Hnd; subst.
  destruct Hin as [[= -> ->]|Hin].
  - now rewrite geqb_refl.
  - destruct (geqb_spec g h) as [->|Hne]; auto. exfalso. apply H1.
    apply in_map_iff. exists (h, ids). auto.
Qed.

Lemma group_ids_obs s l en g : KN s -> group_ids (obs_of s l en) g = glookup g (groups s).
Proof.
  intros [A _]. unfold group_ids, obs_of. cbn [o_groups].
  destruct (in_dec gname_eq_dec g (known s)) as [Hi|Hn].
  - rewrite (glook_map (fun g => glookup g (groups s)) (known s) g Hi).
    destruct (glookup g (groups s)); reflexivity.
  - rewrite (glook_map_none (fun g => glookup g (groups s)) (known s) g Hn).
    destruct (glookup g (groups s)) eqn:E; auto. exfalso. apply Hn, A. unfold ghas. now rewrite E.
Qed.

Lemma all_ids_obs s l en t :
  KN s -> NoDup (map fst (groups s)) ->
  (In t (all_ids (obs_of s l en)) <-> In t (concat (map snd (groups s)))).
Proof.
  intros [A _] Hnd. unfold all_ids, obs_of. cbn [o_groups]. rewrite in_flat_map, in_concat. split.
  - intros ([g v] & Hin & Ht). apply in_map_iff in Hin. destruct Hin as (g' & [= <- <-] & Hk).
    cbn [snd] in Ht. destruct (glookup g' (groups s)) as [ids|] eqn:E; [|destruct Ht].
    exists ids. split; auto. apply in_map_iff. exists (g', ids). split; auto.
    now apply glookup_In.
  - intros (ids & Hin & Ht). apply in_map_iff in Hin. destruct Hin as ([g v] & <- & Hin).
    cbn [snd] in *. pose proof (In_glookup g (groups s) v Hnd Hin) as E.
    exists (g, Some v). split.
    + apply in_map_iff. exists g. rewrite E. split; auto. apply A. unfold ghas. now rewrite E.
    + exact Ht.
Qed.

Lemma cls_live p : cls p = VLive -> live_pc p.
Proof. unfold live_pc. destruct p; simpl; intros; try discriminate; auto. Qed.

Lemma fold_ex6_In es : forall E t,
  In t (fold_left ex6 es E) ->
  In t E /\ ~ In (EvCancelled t) es /\ ~ In (EvExit t) es.
Proof.
  induction es as [|e r IH]; simpl; intros E t H; [tauto|].
  apply IH in H. destruct H as (H1 & H2 & H3).
  assert (In t E /\ e <> EvCancelled t /\ e <> EvExit t).
  { destruct e; simpl in H1; try (repeat split; auto; discriminate);
      apply In_removeall in H1; destruct H1 as [Hne Hin]; repeat split; auto; try congruence. }
  intuition.
Qed.

Lemma live_fold n es : forall V t,
  In t (fst V) -> ~ In (EvExit t) es -> In t (fst (fold_left (vev n) es V)).
Proof.
  induction es as [|e r IH]; simpl; intros V t Hin Hne; auto.
  apply IH; [|tauto].
  destruct e; simpl; auto.
  - destruct (Nat.ltb _ _); simpl; auto.
  - apply In_removeall. split; auto.
Qed.

Lemma cls6_nil T : forall es E,
  (forall t, In (EvCancelled t) es -> In t T) ->
  (forall t, In (EvExit t) es -> ~ In t E) ->
  cls6 T E es = [].
Proof.
  induction es as [|e r IH]; simpl; intros E H1 H2; auto.
  rewrite IH.
  - rewrite app_nil_r. destruct e; simpl; auto.
    + assert (Hm : mem tid T = true) by (apply mem_In, H1; auto). now rewrite Hm.
    + assert (Hm : mem tid E = false) by (apply mem_false_In, H2; auto). now rewrite Hm.
  - intros t Ht. apply H1. auto.
  - intros t Ht Hin. apply (H2 t); auto.
    destruct e; simpl in Hin; auto; apply In_removeall in Hin; tauto.
Qed.

(** ** who exits in a step *)
Lemma step_exit s l t :
  WF s -> Extra_P s -> In (EvExit t) (evs (step s l)) ->
  l = LGo /\ exists x, get_p s t = Some x /\ exit_pc x.
Proof.
  intros W EP. pose proof (wf1 _ W) as HI1.
  unfold step. fold (pre s). destruct (negb (enabled (pre s) l)) eqn:En; [intros []|].
  apply negb_false_iff in En.
  destruct l as [h| |o].
  - apply enabled_run in En.
    assert (HI2 : I1 (unsched (pre s) h)) by (eapply I1_pv; [|exact HI1]; reflexivity).
    destruct h as [[t0|m|d]|d c]; cbn [run_handle].
    + intros He. exfalso. exact (evx_run_p (unsched (pre s) (HT (TP t0))) t0 t HI2 eq_refl He).
    + intros He. apply op_run_m in He. destruct He as [[]|(m' & k' & He)]. discriminate.
    + destruct (get_d s d) as [x0|] eqn:Hx.
      * destruct (run_d_shape s d x0 W EP En Hx) as [[_ [_ Hc]]|[[_ Hc]|(snap & outer & Hf & _)]].
        -- intros He. apply Hc in He. destruct He as [[]|(o & He & _)]. discriminate.
        -- intros He. apply Hc in He. destruct He as [[]|(o & He & _)]. discriminate.
        -- destruct Hf as (_ & _ & Hc). rewrite Hc. simpl. intros [He|[]]. discriminate.
      * rewrite run_d_none by exact Hx. intros [].
    + rewrite ev_run_g. intros [].
  - assert (HI2 : I1 (pre s)) by (eapply I1_pv; [|exact HI1]; reflexivity).
    split; auto.
    destruct (ctl (pre s)) as [|[t0|m|d]]; try (destruct H as []).
    + apply (evx_continue_p (pre s) t0 t HI2 eq_refl) in H. destruct H as (-> & x & Hx & He).
      exists x. split; auto.
    + apply op_continue_m in H. destruct H as [[]|(m' & k' & He)]. discriminate.
  - rewrite ev_do_op. intros [].
Qed.

Lemma exit_unmarked s t x :
  WF s -> Extra_P s -> taint_self s = false -> get_p s t = Some x -> exit_pc x ->
  ~ cancel_marked x.
Proof.
  intros W [[_ ET] _] Hts Hx He Hm.
  pose proof (IH_late _ (wfh _ W) Hts t x Hx) as Hl. unfold not_cancelled_late in Hl.
  pose proof (I2_unst _ (wf2 _ W) t x Hx) as Hu.
  pose proof (I5_pfw _ (wf5 _ W) t x Hx) as Hf.
  destruct (ET Hts t x Hx) as [_ Hs].
  assert (Hun : p_pc x <> PCreated -> p_unst x = UNone).
  { intros Hn. destruct (p_unst x); auto; exfalso; apply Hn, Hu; discriminate. }
  unfold cancel_marked in Hm.
  destruct He as [Hp|[Hp|[Hp Hw]]]; rewrite Hp in *; cbn in Hf.
  - destruct Hl as [l1 l2]. rewrite Hun in Hm by discriminate. intuition congruence.
  - destruct Hl as [l1 l2]. rewrite Hun in Hm by discriminate. intuition congruence.
  - rewrite Hun in Hm by discriminate. rewrite (Hs eq_refl Hw) in Hm.
    assert (Hfw : p_fw x = None).
    { destruct (p_fw x); auto. exfalso. assert (false = true) by (apply Hf; discriminate).
      discriminate. }
    rewrite Hfw in Hm. intuition discriminate.
Qed.

Lemma mtids_enabled s l t : In t (mtids s l (step s l)) -> enabled (pre s) l = true.
Proof.
  destruct (enabled (pre s) l) eqn:En; auto. rewrite (step_disabled s l En).
  destruct l as [h| |o]; try (intros []). destruct o; try (intros []); try discriminate En;
    cbn [mtids res pre set_res]; intros [].
Qed.

(** ** tracker ids = model ids *)
Definition prev_rel (c : config) (s : state) (k : trk) : Prop :=
  (k_prev k = None /\ s = init c) \/ exists lp enp, k_prev k = Some (obs_of s lp enp).

Lemma tids_iff c s k l t :
  KN s -> NoDup (map fst (groups s)) -> prev_rel c s k ->
  let o := obs_of (step s l) l (enabled (pre s) l) in
  In t (tids k o) <-> In t (mtids s l (step s l)).
Proof.
  intros HK Hnd HP o. split.
  - unfold tids. change (o_enabled o) with (enabled (pre s) l). change (o_label o) with l.
    change (o_res o) with (res (step s l)).
    destruct (enabled (pre s) l) eqn:En; [|intros []]. cbn [negb].
    destruct l as [h| |op]; try (intros []). destruct op; try (intros []); cbn [mtids]; auto.
    + destruct (res (step s (LOp (OpCancelGroup g)))) eqn:Er; auto.
      destruct HP as [[Hp ->]|(lp & enp & Hp)]; unfold prev_or; rewrite Hp.
      * pose proof (cancel_group_shape (init c) g) as Hs. cbn [groups init glookup] in Hs.
        intros _. exfalso. rewrite Hs in Er. discriminate Er.
      * now rewrite group_ids_obs.
    + destruct HP as [[Hp ->]|(lp & enp & Hp)]; unfold prev_or; rewrite Hp.
      * unfold o. cbn. intros [].
      * apply all_ids_obs; auto.
  - intros Hin. pose proof (mtids_enabled s l t Hin) as En.
    unfold tids. change (o_enabled o) with (enabled (pre s) l). change (o_label o) with l.
    change (o_res o) with (res (step s l)). rewrite En. cbn [negb].
    destruct l as [h| |op]; try (destruct Hin as []). destruct op; try (destruct Hin as []);
      cbn [mtids] in Hin; auto.
    + destruct (res (step s (LOp (OpCancelGroup g)))); auto.
      destruct HP as [[Hp ->]|(lp & enp & Hp)]; unfold prev_or; rewrite Hp.
      * cbn in Hin. destruct Hin.
      * now rewrite group_ids_obs.
    + destruct HP as [[Hp ->]|(lp & enp & Hp)]; unfold prev_or; rewrite Hp.
      * cbn in Hin. destruct Hin.
      * apply all_ids_obs; auto.
Qed.

(** ** the relation between the model state and the tracker *)
Definition RR (c : config) (s : state) (k : trk) : Prop :=
  (exists tr0, s = run c tr0) /\
  Inv (tview k) s None /\
  (forall t x, get_p s t = Some x -> cancel_marked x -> In t (k_target k)) /\
  (forall t, In t (k_expect k) ->
             In t (k_live k) /\ forall x, get_p s t = Some x -> cancel_marked x) /\
  prev_rel c s k.

Lemma RR_init c : RR c (init c) (trk_init c).
Proof.
  split; [exists []; reflexivity|]. split; [|split; [|split]].
  - destruct (PMonSound_C01.RR_init c) as (_ & H & _). exact H.
  - intros t x H. unfold get_p in H. cbn in H. destruct t; discriminate.
  - intros t [].
  - left. split; reflexivity.
Qed.

Lemma live_running s k t :
  WF s -> Inv (tview k) s None -> In t (k_live k) ->
  exists x, get_p s t = Some x /\ live_pc (p_pc x) /\ In t (t_running s).
Proof.
  intros W (_ & H2 & _) Hin. specialize (H2 t Hin). unfold cls_at, cls_rec in H2.
  destruct (get_p s t) as [x|] eqn:Hx; [|discriminate]. simpl in H2. injection H2 as H2.
  exists x. split; auto. split; [now apply cls_live|].
  apply (I2_run s (wf2 s W) t x Hx). now apply cls_live_running.
Qed.

Lemma live_LV s t x : WF s -> get_p s t = Some x -> live_pc (p_pc x) -> LV s t.
Proof.
  intros W Hx Hl. exists x. split; auto. split.
  - pose proof (I2_unst _ (wf2 _ W) t x Hx) as Hi. destruct (p_unst x); auto; exfalso;
      assert (p_pc x = PCreated) by (apply Hi; discriminate);
      destruct Hl as [H0|[H0|[H0|H0]]]; congruence.
  - pose proof (I2_final _ (wf2 _ W) t x Hx) as Hi. destruct (p_final x); auto; exfalso;
      assert (p_pc x = PDone) by (apply Hi; discriminate);
      destruct Hl as [H0|[H0|[H0|H0]]]; congruence.
Qed.

(** at a quiet point no live worker carries a mark *)
Lemma quiet_no_mark s t x :
  WF s -> Extra_A s -> PSpec.quiet s -> get_p s t = Some x -> live_pc (p_pc x) ->
  cancel_marked x -> False.
Proof.
  intros W XA (Hc & Hr & _) Hx Hl Hm.
  destruct (live_LV s t x W Hx Hl) as (x' & Hx' & Hu & _). assert (x' = x) by congruence. subst x'.
  unfold cancel_marked in Hm. rewrite Hu in Hm.
  assert (Hpc : p_pc x = PWaitGate).
  { destruct Hl as [H0|[H0|[H0|H0]]]; auto; exfalso;
      assert (Hcu : ctl s = CUser (TP t))
        by (apply (I5_puser _ (wf5 _ W) t x Hx); rewrite H0; reflexivity);
      congruence. }
  assert (Hrd : In (HT (TP t)) (ready s)).
  { apply (I5_p _ (wf5 _ W) t x Hx). right. rewrite Hpc. split; [reflexivity|].
    destruct Hm as [Hm|[Hm|Hm]]; [discriminate|congruence|]. apply (XA t x Hx Hm). }
  rewrite Hr in Hrd. destruct Hrd.
Qed.

(** ** one observation *)
Lemma mon_step_sound c s k l :
  RR c s k -> clean (step s l) -> taint_self (step s l) = false ->
  let o := obs_of (step s l) l (enabled (set_res (set_evs s []) RNone) l) in
  f6 (snd (mon_step c k o)) = [] /\ RR c (step s l) (fst (mon_step c k o)).
Proof.
  intros ((tr0 & Hs) & HI & HM & HE & HP) Hc Hts o.
  assert (Hcs : clean s) by (eapply clean_step_inv'; eauto).
  assert (Hts0 : taint_self s = false) by (eapply taint_self_step_inv'; eauto).
  assert (X : WFx s) by (rewrite Hs; apply WFx_run; rewrite <- Hs; exact Hcs).
  pose proof (x_wf _ X) as W. pose proof (x_p _ X) as EP. pose proof (x_a _ X) as XA.
  assert (Hrun : step s l = run c (tr0 ++ [l])) by (rewrite run_snoc, Hs; reflexivity).
  assert (X' : WFx (step s l)) by (rewrite Hrun; apply WFx_run; rewrite <- Hrun; exact Hc).
  pose proof (x_wf _ X') as W'. pose proof (x_a _ X') as XA'.
  assert (HK : KN s) by (rewrite Hs; apply KN_run).
  pose proof (IGr_keys _ (wfgr _ W)) as Hnd.
  destruct (mon_step_C06 c k o) as (kk & Hf & Hv & HT & HEx & Hv' & HT' & HEx' & HP').
  cbv zeta in *.
  change (o_events o) with (evs (step s l)) in *.
  destruct (Inv_step (length (k_reqs (fst (on_label c k o)))) (tview k) s l HI) as [HI' _].
  rewrite <- Hv in HI'.
  fold (pre s) in o.
  (* the ids targeted by the tracker are those cancelled in the model *)
  pose proof (fun t => tids_iff c s k l t HK Hnd HP) as Hti. cbv zeta in Hti. fold o in Hti.
  (* (M) *)
  assert (HM' : forall t x, get_p (step s l) t = Some x -> cancel_marked x ->
                            In t (tids k o ++ k_target k)).
  { intros t x Hx Hm. rewrite in_app_iff.
    destruct (step_marks s l t x W EP Hc Hx Hm) as [(x0 & Hx0 & Hm0)|Hin].
    - right. eapply HM; eauto.
    - left. now apply Hti. }
  (* (E) *)
  assert (HE' : forall t, In t (k_expect kk) ->
                  In t (fst (tview kk)) /\
                  forall x, get_p (step s l) t = Some x -> cancel_marked x).
  { intros t Ht. rewrite HEx in Ht. apply fold_ex6_In in Ht. destruct Ht as (Ht & Hnc & Hne).
    assert (Hlive : In t (k_live k)).
    { rewrite in_app_iff in Ht. destruct Ht as [Ht|Ht]; [|apply HE, Ht].
      apply filter_In in Ht. destruct Ht as [_ Ht]. now apply mem_In. }
    split.
    - rewrite Hv. apply live_fold; auto.
    - destruct (live_running s k t W HI Hlive) as (x & Hx & Hl & Hr).
      rewrite in_app_iff in Ht. destruct Ht as [Ht|Ht].
      + apply filter_In in Ht. destruct Ht as [Ht _]. apply Hti in Ht.
        intros y. apply ML_get.
        apply step_targets_marked; auto.
        * eapply mtids_enabled; eauto.
        * eapply live_LV; eauto.
      + destruct (HE t Ht) as [_ Hmk].
        apply (step_keeps_mark s l t x W EP XA Hx Hl (Hmk x Hx) Hnc Hne). }
  split.
  - (* no clause of property 6 *)
    rewrite Hf.
    assert (L : lcl6 k o = []).
    { unfold lcl6. change (o_enabled o) with (enabled (pre s) l). change (o_label o) with l.
      change (o_res o) with (res (step s l)).
      destruct (negb (enabled (pre s) l)); auto.
      destruct l as [h| |op]; auto. destruct op; auto.
      destruct (cancel_res s ids) as [Hr|(e & Hr)]; rewrite Hr; auto.
      destruct (cancel_failed s ids e Hr) as [Est (u & Hu & Hnr)].
      assert (B1 : forallb (fun t => mem t (k_live k)) ids = false).
      { destruct (forallb _ ids) eqn:Ef; auto. exfalso.
        rewrite forallb_forall in Ef. specialize (Ef u Hu). apply mem_In in Ef.
        destruct (live_running s k u W HI Ef) as (_ & _ & _ & Hrr). auto. }
      rewrite B1. cbn [negb orb fails app].
      destruct HP as [[Hp _]|(lp & enp & Hp)]; unfold prev_or; rewrite Hp; [reflexivity|].
      unfold o. rewrite Est. rewrite same_public_same; auto. }
    assert (C : cls6 (tids k o ++ k_target k)
                     (filter (fun t => mem t (k_live k)) (tids k o) ++ k_expect k)
                     (evs (step s l)) = []).
    { apply cls6_nil.
      - intros t Ht. destruct (PStep_C06.C06_no_spurious s l t W EP Hc Ht) as (x & Hx & _ & Hm).
        rewrite in_app_iff. right. apply (HM t x Hx). unfold cancel_marked. tauto.
      - intros t Ht Hin. destruct (step_exit s l t W EP Ht) as (-> & x & Hx & Hex).
        assert (Hno : tids k o = []) by (unfold tids; destruct (negb (o_enabled o)); reflexivity). rewrite Hno in Hin. cbn in Hin.
        destruct (HE t Hin) as [_ Hmk].
        exact (exit_unmarked s t x W EP Hts0 Hx Hex (Hmk x Hx)). }
    rewrite L, C. cbn [app].
    destruct (PMon.quiet kk o) eqn:Hq; [|reflexivity]. cbn [negb orb].
    destruct (k_expect kk) as [|t r] eqn:Ee; [reflexivity|]. exfalso.
    pose proof (quiet_sound (step s l) kk l _ HI' Hq) as Hqs.
    destruct (HE' t (or_introl eq_refl)) as [Hlv Hmk].
    destruct HI' as (_ & H2 & _). specialize (H2 t Hlv). unfold cls_at, cls_rec in H2.
    destruct (get_p (step s l) t) as [x|] eqn:Hx; [|discriminate]. simpl in H2.
    injection H2 as H2.
    exact (quiet_no_mark (step s l) t x W' XA' Hqs Hx (cls_live _ H2) (Hmk x eq_refl)).
  - split; [exists (tr0 ++ [l]); exact Hrun|]. split; [rewrite Hv'; exact HI'|].
    split; [rewrite HT'; exact HM'|]. split.
    + intros t Ht. rewrite HEx' in Ht. destruct (HE' t Ht) as [A B]. split; auto.
      change (In t (fst (tview (fst (mon_step c k o))))). rewrite Hv'. exact A.
    + right. eexists. eexists. exact HP'.
Qed.

Lemma mon_run_sound c : forall tr s k i,
  RR c s k -> clean (fold_left step tr s) -> taint_self (fold_left step tr s) = false ->
  mon_run c 6 k i (observe_from s tr) = None.
Proof.
  induction tr as [|l tr IH]; intros s k i HR Hc Ht; simpl; auto.
  simpl in Hc, Ht.
  assert (Hc1 : clean (step s l)) by (eapply clean_fold_inv; eauto).
  assert (Ht1 : taint_self (step s l) = false)
    by (eapply (taint_fold_inv taint_self taint_self_step_inv'); eauto).
  destruct (mon_step_sound c s k l HR Hc1 Ht1) as [Hf HR'].
  cbv zeta in Hf, HR'.
  destruct (mon_step c k _) as [k' cs]. simpl in Hf, HR'. unfold f6 in Hf. rewrite Hf.
  apply IH; auto.
Qed.

Theorem mon_C06_sound : forall c tr,
  clean (run c tr) -> taint_self (run c tr) = false -> PMon.ok_C06 c (observe c tr) = true.
Proof.
  intros c tr Hc Ht. unfold ok_C06, ok_prop, observe.
  rewrite (mon_run_sound c tr (init c) (trk_init c) 0); auto. apply RR_init.
Qed.

(** ** the hypothesis on [taint_self] is necessary (finding D11) *)
Definition cex_c : config :=
  {| cf_size := Inf; cf_kind := KTask; cf_bad := []; cf_w := default_w;
     cf_ecb := CbNone; cf_ccb := CbNone |}.

(** a worker is resumed normally, cancels itself in its final segment, then returns *)
Definition cex_tr : list label :=
  [ LOp (OpApply 1 [] false {| w_first := WSuspend; w_cancel := WPropagate |} CbNone CbNone None);
    LRun (HT (TM 0)); LRun (HT (TP 0)); LGo;
    LOp (OpFinish 0 FinReturn); LRun (HT (TP 0));
    LOp (OpCancel [0]); LGo ].

Example mon_C06_needs_P_self :
  clean (run cex_c cex_tr) /\ taint_self (run cex_c cex_tr) = true /\
  PMon.ok_C06 cex_c (observe cex_c cex_tr) = false /\
  mon_run cex_c 6 (trk_init cex_c) 0 (observe cex_c cex_tr) = Some (7, C06_delivered).
Proof. vm_compute. repeat split. Qed.

