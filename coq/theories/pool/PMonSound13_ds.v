(** Monitor soundness, C13 (counting clauses) — model side, driver records: in a step that is not
    driver [d]'s own, the program counter and the snapshot of driver [d] do not change; records
    are only appended by [OpDriver] (at [DNotStarted]). *)
From TP Require Import PInv PInv_R_base PInv_P_base PInv_P_view PInv_P_inv PInv_P_tok PInv_P_tok2
  PInv_P_chain PInv_P_step PInv_P_ed PSpecStep.

Definition pj (x : dtask) : dpc * list nat := (d_pc x, d_snap x).

(** [PJ d0 L s]: the records of all drivers except [d0] project to [L] *)
Definition PJ (d0 : option nat) (L : list (dpc * list nat)) (s : state) : Prop :=
  length (dtasks s) = length L /\
  forall d x, Some d <> d0 -> get_d s d = Some x -> nth_error L d = Some (pj x).

Definition okP (d0 : option nat) (L : list (dpc * list nat)) (d : nat) (x : dtask) : Prop :=
  Some d = d0 \/ nth_error L d = Some (pj x).

Lemma PJ_dt d0 L s s' : dtasks s' = dtasks s -> PJ d0 L s -> PJ d0 L s'.
Proof. unfold PJ, get_d. intros ->. auto. Qed.

Lemma PJ_pv d0 L s s' : pview s' = pview s -> PJ d0 L s -> PJ d0 L s'.
Proof. intros E. apply PJ_dt. change (vds (pview s') = vds (pview s)). now rewrite E. Qed.

Lemma PJ_Qpv d0 L : Qpv (PJ d0 L).
Proof. intros s s'. apply PJ_pv. Qed.

Lemma PJ_Qreg d0 L : Qreg (PJ d0 L).
Proof.
  intros s m x. apply PJ_dt. change (vds (pview (register s m x)) = vds (pview s)).
  rewrite pv_register. reflexivity.
Qed.

Lemma okP_of_get d0 L s d x : PJ d0 L s -> get_d s d = Some x -> okP d0 L d x.
Proof.
  intros [_ H] Hx. unfold okP. destruct d0 as [e|].
  - destruct (Nat.eq_dec d e) as [->|Hne]; [left; reflexivity|right].
    apply H; auto. congruence.
  - right. apply H; auto. discriminate.
Qed.

Lemma okP_pj d0 L d x x' : pj x' = pj x -> okP d0 L d x -> okP d0 L d x'.
Proof. unfold okP. intros ->. auto. Qed.

Lemma okP_self L d x : okP (Some d) L d x.
Proof. left. reflexivity. Qed.

Lemma PJ_put_d d0 L s d x' : PJ d0 L s -> okP d0 L d x' -> PJ d0 L (put_d s d x').
Proof.
  intros [Hl H] Hx. split.
  - unfold put_d. cbn [dtasks set_dtasks]. rewrite upd_length. exact Hl.
  - intros d1 y Hne Hy. destruct (Nat.eq_dec d d1) as [<-|Hd].
    + assert (Hlt : d < length (dtasks s)).
      { apply get_d_lt in Hy. unfold put_d in Hy. cbn [dtasks set_dtasks] in Hy.
        rewrite upd_length in Hy. exact Hy. }
      rewrite get_d_put_d_eq in Hy by exact Hlt. injection Hy as <-.
      destruct Hx as [Hx|Hx]; [congruence|exact Hx].
    + rewrite get_d_put_d_neq in Hy by exact Hd. apply H; auto.
Qed.

Lemma PJ_do_cancel d0 L s ids : PJ d0 L s -> PJ d0 L (do_cancel s ids).
Proof.
  intros H. unfold do_cancel. destruct (first_lookup_err s ids).
  - eapply PJ_pv; [|exact H]. reflexivity.
  - apply fold_inv; auto. intros s0 a. apply PJ_dt, dt_cancel_p.
Qed.

Lemma PJ_cancel_group_body d0 L s g ids : PJ d0 L s -> PJ d0 L (cancel_group_body s g ids).
Proof.
  intros H. unfold cancel_group_body. apply fold_inv.
  - intros s0 t H0. destruct (mem t (t_running s0)); auto. eapply PJ_dt; [apply dt_cancel_p|auto].
  - eapply PJ_pv; [|exact H]. rewrite pv_mark_dead. apply pv_cancel_group_metas.
Qed.

Lemma PJ_cancel_all_groups d0 L gs : forall s, PJ d0 L s -> PJ d0 L (cancel_all_groups s gs).
Proof.
  induction gs as [|[g ids] r IH]; simpl; intros s H; auto.
  apply IH. now apply PJ_cancel_group_body.
Qed.

Lemma PJ_stop_res d0 L s ids :
  PJ d0 L s -> PJ d0 L (match res s with RErr _ => s | _ => set_res s (RIds ids) end).
Proof. intros H. destruct (res s); auto; (eapply PJ_pv; [|exact H]; reflexivity). Qed.

Lemma PJ_sched d0 L s h : PJ d0 L s -> PJ d0 L (sched s h).
Proof. apply PJ_pv, pv_sched. Qed.

Lemma PJ_finish_d L s d x e : PJ (Some d) L s -> PJ (Some d) L (finish_d s d x e).
Proof.
  intros H. unfold finish_d. eapply PJ_dt with (s := put_d s d _); [reflexivity|].
  apply PJ_put_d; auto. apply okP_self.
Qed.

Lemma PJ_wake_closed d0 L ds : forall s, PJ d0 L s -> PJ d0 L (wake_closed s ds).
Proof.
  induction ds as [|d r IH]; simpl; intros s H; auto. apply IH.
  destruct (get_d s d) as [x|] eqn:Ex; auto. destruct (fut_pending _); auto.
  apply PJ_sched, PJ_put_d; auto. eapply okP_pj; [|eapply okP_of_get; eauto]. reflexivity.
Qed.

Lemma PJ_after_g2 L s d x outer : PJ (Some d) L s -> PJ (Some d) L (after_g2 s d x outer).
Proof.
  intros H. unfold after_g2.
  destruct outer; try (now apply PJ_finish_d); destruct (d_kind x); try (now apply PJ_finish_d);
    apply PJ_finish_d; auto; try apply PJ_wake_closed; (eapply PJ_dt; [|exact H]; reflexivity).
Qed.

Lemma PJ_start_g2 L s d x cs re : PJ (Some d) L s -> PJ (Some d) L (start_g2 s d x cs re).
Proof.
  intros H. unfold start_g2. destruct (make_gather _ _ _) as [g outer].
  destruct outer; try (now apply PJ_after_g2).
  eapply PJ_dt with (s := put_d s d _); [reflexivity|]. apply PJ_put_d; auto. apply okP_self.
Qed.

Lemma PJ_after_g1 L s d x outer : PJ (Some d) L s -> PJ (Some d) L (after_g1 s d x outer).
Proof.
  intros H. unfold after_g1. destruct (d_kind x).
  - assert (Hgo : forall cs, PJ (Some d) L (start_g2 (set_meta_cancelled s []) d x cs re)).
    { intros cs. apply PJ_start_g2; auto. }
    destruct outer as [| |e|]; auto. destruct e; auto using PJ_finish_d.
  - destruct (if re then None else _); [now apply PJ_finish_d|].
    apply PJ_start_g2; auto.
  - now apply PJ_finish_d.
Qed.

Lemma PJ_start_g1 L s d x cs re : PJ (Some d) L s -> PJ (Some d) L (start_g1 s d x cs re).
Proof.
  intros H. unfold start_g1. destruct (make_gather _ _ _) as [g outer].
  destruct outer; try (now apply PJ_after_g1).
  eapply PJ_dt with (s := put_d s d _); [reflexivity|]. apply PJ_put_d; auto. apply okP_self.
Qed.

Lemma PJ_run_d L s d : PJ (Some d) L s -> PJ (Some d) L (run_d s d).
Proof.
  intros H. unfold run_d. destruct (get_d s d) as [x0|] eqn:Ex; auto.
  destruct (d_pc x0); auto.
  - destruct (d_kind (set_d_fw x0 None)) eqn:Ek.
    + destruct (pop_ended s (gmeta s)) as [gm ended]. apply PJ_start_g1; auto.
    + apply PJ_start_g1; auto.
    + destruct (closed s); [now apply PJ_finish_d|].
      eapply PJ_dt with (s := put_d _ d _); [reflexivity|]. apply PJ_put_d; auto. apply okP_self.
  - now apply PJ_after_g1.
  - now apply PJ_after_g2.
  - apply PJ_finish_d; auto.
Qed.

Lemma PJ_weaken L s d : PJ None L s -> PJ (Some d) L s.
Proof. intros [Hl H]. split; auto. intros d1 x _ Hx. apply H; auto. discriminate. Qed.

Lemma PJ_run_g L s d c : PJ None L s -> PJ None L (run_g s d c).
Proof.
  intros H. unfold run_g. destruct (get_d s d) as [x|] eqn:Ex; auto.
  destruct (tref_final s c); auto.
  pose proof (okP_of_get None L s d x H Ex) as Hx.
  repeat (first [assumption | apply PJ_sched | apply PJ_put_d; [assumption|] | dmatch]);
    (eapply okP_pj; [|exact Hx]); reflexivity.
Qed.

Definition drv_new (l : label) (en : bool) : list (dpc * list nat) :=
  match l with LOp (OpDriver kd) => if en then [(DNotStarted, [])] else [] | _ => [] end.

Lemma PJ_do_op L s o :
  PJ None L s -> PJ None (L ++ drv_new (LOp o) true) (do_op s o).
Proof.
  intros H.
  assert (Hnil : forall s', PJ None L s' -> match o with OpDriver _ => True | _ =>
                   PJ None (L ++ drv_new (LOp o) true) s' end).
  { intros s' H'. destruct o; auto; cbn [drv_new]; rewrite app_nil_r; exact H'. }
  destruct (op_other o) eqn:Eo.
  { destruct (op_driver o) eqn:Ed.
    - destruct o; try discriminate; unfold do_op.
      { apply (Hnil (set_locked (if Nat.ltb 0 (n_gac s) then set_taint_unlock s true else s) false)).
        eapply PJ_dt; [|exact H]. destruct (Nat.ltb 0 (n_gac s)); reflexivity. }
      apply PJ_sched. cbn [drv_new].
      set (s0 := match k with DGatherClose _ => set_n_gac s (S (n_gac s)) | _ => s end).
      assert (Hd : dtasks s0 = dtasks s) by (unfold s0; destruct k; reflexivity).
      destruct H as [Hl H]. split.
      + cbn [dtasks set_dtasks]. rewrite Hd, !app_length, Hl. reflexivity.
      + intros d x _ Hx. unfold get_d in Hx. cbn [dtasks set_dtasks] in Hx. rewrite Hd in Hx.
        destruct (Nat.lt_ge_cases d (length (dtasks s))) as [Hlt|Hge].
        * rewrite nth_error_app1 in Hx by exact Hlt. rewrite nth_error_app1 by (rewrite <- Hl; exact Hlt).
          apply H; auto. discriminate.
        * rewrite nth_error_app2 in Hx by exact Hge. rewrite nth_error_app2 by (rewrite <- Hl; exact Hge).
          rewrite <- Hl. destruct (d - length (dtasks s)) as [|j]; simpl in *.
          -- injection Hx as <-. reflexivity.
          -- destruct j; discriminate.
    - specialize (Hnil (do_op s o)). destruct o; try discriminate; apply Hnil;
        (eapply PJ_pv; [apply pv_do_op_other; auto|auto]). }
  destruct o; try discriminate; unfold do_op; cbn [drv_new]; rewrite app_nil_r.
  - now apply PJ_do_cancel.
  - assert (Hk : PJ None L (know s g)) by (eapply PJ_pv; eauto using pv_know).
    destruct (glookup g (groups (know s g))).
    + apply PJ_cancel_group_body. eapply PJ_pv; [|exact Hk]; reflexivity.
    + eapply PJ_pv; [|apply Hk]. reflexivity.
  - apply PJ_cancel_all_groups. eapply PJ_pv; [|exact H]; reflexivity.
  - apply PJ_stop_res. now apply PJ_do_cancel.
  - apply PJ_stop_res. now apply PJ_do_cancel.
  - destruct (get_p s tid) as [x|] eqn:Ex; auto. apply PJ_sched.
    eapply PJ_dt; [|exact H]; reflexivity.
  - destruct (get_p s tid) as [x|] eqn:Ex; auto. apply PJ_sched.
    eapply PJ_dt; [|exact H]; reflexivity.
Qed.

Definition own (l : label) : option nat :=
  match l with LRun (HT (TD d)) => Some d | _ => None end.

Lemma PJ_step s l :
  PJ (own l) (map pj (dtasks s) ++ drv_new l (enabled (set_res (set_evs s []) RNone) l)) (step s l).
Proof.
  assert (H : PJ None (map pj (dtasks s)) s).
  { split; [now rewrite map_length|]. intros d x _ Hx. unfold get_d in Hx.
    rewrite nth_error_map, Hx. reflexivity. }
  set (L := map pj (dtasks s)) in *.
  assert (H1 : PJ None L (set_res (set_evs s []) RNone)) by (eapply PJ_dt; [|exact H]; reflexivity).
  unfold step. destruct (enabled _ l) eqn:En; cbn [negb].
  2:{ replace (drv_new l false) with (@nil (dpc * list nat)) by (destruct l as [| |[]]; reflexivity).
      rewrite app_nil_r. destruct (own l); [apply PJ_weaken|]; exact H1. }
  destruct l as [h| |o].
  - cbn [drv_new]. rewrite app_nil_r.
    assert (H2 : PJ None L (unsched (set_res (set_evs s []) RNone) h))
      by (eapply PJ_dt; [|exact H1]; reflexivity).
    destruct h as [[t|m|d]|d c]; cbn [run_handle own].
    + eapply PJ_dt; [apply dt_run_p|auto].
    + apply (Q_run_m (PJ None L) (PJ_Qpv None L) (PJ_Qreg None L)); auto.
    + apply PJ_run_d. now apply PJ_weaken.
    + now apply PJ_run_g.
  - cbn [drv_new own]. rewrite app_nil_r. destruct (ctl _) as [|[t|m|d]]; auto.
    + eapply PJ_dt; [apply dt_continue_p|auto].
    + apply (Q_continue_m (PJ None L) (PJ_Qpv None L) (PJ_Qreg None L)); auto.
  - now apply PJ_do_op.
Qed.

(** a driver found waiting for its second gather after a step that is not its own was already
    waiting before the step, with the same snapshot *)
Lemma dsnap_step s l d x' :
  l <> LRun (HT (TD d)) -> get_d (step s l) d = Some x' -> d_pc x' = DWaitG2 ->
  exists x, get_d s d = Some x /\ d_pc x = DWaitG2 /\ d_snap x = d_snap x'.
Proof.
  intros Hl Hx' Hpc. destruct (PJ_step s l) as [_ H].
  assert (Hne : Some d <> own l).
  { destruct l as [[[t|m|d1]|d1 c]| |o]; cbn; try discriminate. intros [= ->]. apply Hl. reflexivity. }
  specialize (H d x' Hne Hx').
  destruct (Nat.lt_ge_cases d (length (dtasks s))) as [Hlt|Hge].
  - rewrite nth_error_app1 in H by (rewrite map_length; exact Hlt).
    rewrite nth_error_map in H. unfold get_d.
    destruct (nth_error (dtasks s) d) as [x|]; [|discriminate]. simpl in H.
    injection H as H1 H2. exists x. split; auto. split; congruence.
  - rewrite nth_error_app2 in H by (rewrite map_length; exact Hge). rewrite map_length in H.
    unfold drv_new in H. destruct l as [| |[]]; try (destruct (d - _); discriminate).
    destruct (enabled _ _); [|destruct (d - _); discriminate].
    destruct (d - length (dtasks s)) as [|[|j]]; simpl in H; try discriminate.
    injection H as H1 _. congruence.
Qed.
