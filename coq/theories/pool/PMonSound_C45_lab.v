(** What one step does to the spawner records and to the result register, label by label
    (model side of the tracker's [on_label]). *)
From TP Require Import PInv_Q PRun PWF PStep_B_inv PMonSound_C45_sc PMonSound_C45_grp PMonSound_C45_gistep.
Set Implicit Arguments. Unset Strict Implicit.

(** ** result register of the group-cancelling operation *)
Lemma res_sched s h : res (sched s h) = res s.
Proof. unfold sched. destruct (is_ready s h); reflexivity. Qed.

Lemma res_cancel_p s t : res (cancel_p s t) = res s.
Proof.
  unfold cancel_p, put_p. destruct (get_p s t) as [x|]; auto.
  destruct (p_unst x); auto. destruct (p_final x); auto.
  destruct (is_current s (TP t) && final_segment x); destruct (fut_pending (p_fw x));
    rewrite ?res_sched; reflexivity.
Qed.

Lemma res_cancel_m s m : res (cancel_m s m) = res s.
Proof.
  unfold cancel_m, put_m. destruct (get_m s m) as [x|]; auto. destruct (m_final x); auto.
  destruct (is_current s (TM m)); destruct (fut_pending (m_fw x)); rewrite ?res_sched; reflexivity.
Qed.

Lemma res_fold {A} (f : state -> A -> state) :
  (forall s a, res (f s a) = res s) -> forall l s, res (fold_left f l s) = res s.
Proof. intros H l. induction l; simpl; intros; auto. rewrite IHl. apply H. Qed.

Lemma res_cancel_group_body s g ids : res (cancel_group_body s g ids) = res s.
Proof.
  unfold cancel_group_body. rewrite res_fold.
  - cbn [res mark_dead set_mtasks]. unfold cancel_group_metas.
    destruct (glookup g (gmeta s)); auto. cbn [res set_meta_cancelled].
    rewrite (@res_fold _ _ res_cancel_m). reflexivity.
  - intros s0 t. destruct (mem t (t_running s0)); auto using res_cancel_p.
Qed.

(** ** "nothing happens to the spawner records except quiet changes" *)
Definition mt_same (s s' : state) : Prop :=
  length (mtasks s') = length (mtasks s) /\
  forall k y y', get_m s k = Some y -> get_m s' k = Some y' -> mimm y y' /\ m_dead y' = m_dead y.

Lemma mt_same_eq s s' : mtasks s' = mtasks s -> mt_same s s'.
Proof.
  intros E. split; [congruence|]. intros k y y' A B. unfold get_m in *. rewrite E in B.
  assert (y' = y) by congruence. subst. split; auto. apply mimm_refl.
Qed.

Lemma mt_same_PQ s s' : PQ s s' -> mt_same s s'.
Proof.
  intros P. pose proof (pq_m P) as F. split; [symmetry; apply (F2_length F)|].
  intros k y y' A B. unfold get_m in *. destruct (Forall2_nth_l F A) as [z [Hz Q]].
  assert (z = y') by congruence. subst z. destruct Q as (M & _ & _ & _ & _ & D & _). auto.
Qed.

Lemma mt_same_trans s1 s2 s3 : mt_same s1 s2 -> mt_same s2 s3 -> mt_same s1 s3.
Proof.
  intros [L1 H1] [L2 H2]. split; [congruence|]. intros k y y'' A C.
  destruct (@get_m_ex s2 k) as [y' B]; [rewrite L1; eapply get_m_len; eauto|].
  destruct (H1 _ _ _ A B) as [M1 D1]. destruct (H2 _ _ _ B C) as [M2 D2].
  split; [eapply mimm_trans; eauto|congruence].
Qed.

(** the spawner steps, as [G] (PInv_Q_x5) *)
Lemma G_run_m_step s sb m :
  WF s -> Extra_IR s -> eqf s sb -> In (HT (TM m)) (ready s) -> G m sb (run_m sb m).
Proof.
  intros HW HX He Hr.
  assert (HXb : Extra_IR sb) by (eapply Extra_PQ; eauto; apply PQ_eqf; auto).
  apply T_run_m.
  - intros x0 Hx0 Hpc. rewrite (eqf_get_m m He) in Hx0. split.
    + eapply RunPre_of_WF; eauto.
    + intros Hd. apply (X_dead HX Hx0); auto.
      eapply live_of_pc; eauto. intros E. rewrite E in Hpc. intuition discriminate.
  - intros x0 Hx0. apply (XS_of_Extra HXb Hx0).
Qed.

Lemma G_continue_m_step s sa m :
  WF s -> Extra_IR s -> eqf s sa -> ctl s = CUser (TM m) -> G m sa (continue_m sa m).
Proof.
  intros HW HX He Hctl.
  assert (HXa : Extra_IR sa) by (eapply Extra_PQ; eauto; apply PQ_eqf; auto).
  destruct (get_m sa m) as [x|] eqn:Hx.
  2:{ unfold continue_m. rewrite Hx. apply G_none; [apply MQ_refl|exact Hx]. }
  pose proof Hx as Hx0. rewrite (eqf_get_m m He) in Hx0.
  assert (Hpc : m_pc x = MAtIter) by (apply (I5_muser _ (wf5 _ HW) _ _ Hx0); auto).
  assert (Hlive : m_final x = None) by (eapply live_of_pc; eauto; congruence).
  assert (Hfw : m_fw x = None).
  { destruct (m_fw x) eqn:E; auto. exfalso.
    assert (m_pc x = MWaitPool \/ m_pc x = MWaitMap) as [H|H]
      by (apply (I5_mfw _ (wf5 _ HW) _ _ Hx0); congruence); congruence. }
  eapply T_continue_m with (x := x); auto.
  - destruct (X_pc HX Hx0) as [P1 _]. auto.
  - intros Hmc. rewrite (ef_t He). apply (X_canc HX Hx0 Hlive). left; auto.
  - intros Hd. destruct (X_dead HX Hx0 Hlive Hd) as [H|H]; auto. congruence.
  - destruct (m_holds x) eqn:E; auto.
    pose proof (IM_holds _ (wfm _ HW) _ _ Hx0 E). congruence.
  - rewrite (ef_c He). destruct (closed s) eqn:Ec; auto.
    destruct (X_closed HX Ec Hx0 Hlive). contradiction.
Qed.

Lemma MQ_mimm m s s' k y y' :
  MQ m s s' -> get_m s k = Some y -> get_m s' k = Some y' -> mimm y y'.
Proof.
  intros H A B. destruct (Nat.eq_dec k m) as [->|Ne].
  - eapply (mq_own H); eauto.
  - destruct (mq_oth H Ne A B) as [M _]. exact M.
Qed.

From TP Require Import PStep_B_mr.

Lemma step_dead_same s l k y y' :
  spawn_l l = false -> kill_l l = false ->
  get_m s k = Some y -> get_m (step s l) k = Some y' -> m_dead y' = m_dead y.
Proof.
  intros Hs Hk Hy Hy'. pose proof (MR_step s l Hs) as M. rewrite Hk in M.
  destruct (MR_rec _ _ _ _ M k y Hy) as (z & Hz & _ & D & _).
  assert (z = y') by congruence. subst z. apply D. reflexivity.
Qed.

Lemma step_len_nospawn s l : spawn_l l = false -> length (mtasks (step s l)) = length (mtasks s).
Proof. intros Hs. apply (MR_len _ _ _ _ (MR_step s l Hs)). Qed.

(** run / go labels *)
Lemma mt_same_step_run s l :
  WFx s -> (forall o, l <> LOp o) -> mt_same s (step s l).
Proof.
  intros X Hl. pose proof (x_wf _ X) as W. pose proof (x_ir _ X) as HX.
  assert (Hs : spawn_l l = false) by (destruct l; auto; exfalso; eapply Hl; eauto).
  assert (Hk : kill_l l = false) by (destruct l; auto; exfalso; eapply Hl; eauto).
  split; [apply step_len_nospawn; auto|].
  intros k y y' Hy Hy'. split; [|eapply step_dead_same; eauto].
  revert Hy'. unfold step. pose proof (eqf_reset s) as He.
  set (sa := set_res (set_evs s []) RNone) in *.
  destruct (negb (enabled sa l)) eqn:Hen.
  { intros Hy'. change (get_m s k = Some y') in Hy'. replace y' with y by congruence. apply mimm_refl. }
  apply negb_false_iff in Hen.
  destruct l as [h| |o]; [| |exfalso; eapply Hl; eauto].
  - cbn in Hen. destruct (ctl s) eqn:Hctl; [|discriminate].
    apply is_ready_In in Hen. cbn in Hen.
    pose proof (eqf_unsched h He) as Hb. set (sb := unsched sa h) in *.
    assert (Hyb : get_m sb k = Some y) by (rewrite (eqf_get_m k Hb); exact Hy).
    destruct h as [[t|m|d]|d c]; cbn [run_handle]; intros Hy'.
    + destruct (mt_same_PQ (PQ_run_p t (PQ_refl sb))) as [_ H]. apply (H _ _ _ Hyb Hy').
    + destruct (G_run_m_step W HX Hb Hen) as [HM _]. eapply MQ_mimm; eauto.
    + unfold get_m in Hy'. rewrite run_d_mtasks in Hy'. fold (get_m sb k) in Hy'.
      replace y' with y by congruence. apply mimm_refl.
    + unfold get_m in Hy'. rewrite run_g_mtasks in Hy'. fold (get_m sb k) in Hy'.
      replace y' with y by congruence. apply mimm_refl.
  - change (ctl sa) with (ctl s).
    assert (Hya : get_m sa k = Some y) by exact Hy.
    destruct (ctl s) as [|[t|m|d]] eqn:Hctl; intros Hy';
      try (replace y' with y by congruence; apply mimm_refl).
    + destruct (mt_same_PQ (PQ_continue_p sa t)) as [_ H]. apply (H _ _ _ Hya Hy').
    + destruct (G_continue_m_step W HX He Hctl) as [HM _]. eapply MQ_mimm; eauto.
Qed.

(** ** operations *)
Definition spawned (s s' : state) (x : gname -> mtask) : Prop :=
  (exists g, res s' = RName g /\ mtasks s' = mtasks s ++ [x g]) \/
  ((forall g, res s' <> RName g) /\ mtasks s' = mtasks s).

Lemma know_opt_mt s (og : option gname) :
  mtasks (match og with Some g => know s g | None => s end) = mtasks s.
Proof. destruct og; autorewrite with fr; reflexivity. Qed.

Lemma new_meta_mt s x : mtasks (new_meta s x) = mtasks s ++ [x].
Proof. apply new_meta_fields. Qed.

Lemma spawned_apply s num bad noncoro w ecb ccb og :
  spawned s (do_op s (OpApply num bad noncoro w ecb ccb og))
    (fun g => mk_mtask MApply g num bad [] w ecb ccb MNotStarted 0 None false None 0 false 0 false 0).
Proof.
  cbn [do_op]. pose proof (know_opt_mt s og) as E.
  set (s1 := match og with Some g => know s g | None => s end) in *. clearbody s1.
  destruct (check_start s1 noncoro); [right; split; [discriminate|exact E]|].
  set (g := match og with Some g => g | None => gen_name s1 0 end). clearbody g.
  destruct (ghas g (groups s1)); [right; split; [discriminate|exact E]|].
  left. exists g. split; [reflexivity|].
  cbn [mtasks set_res]. rewrite new_meta_mt. cbn [mtasks set_groups]. autorewrite with fr.
  rewrite E. reflexivity.
Qed.

Lemma spawned_map s stars els nc noncoro ecb ccb og :
  spawned s (do_op s (OpMap stars els nc noncoro ecb ccb og))
    (fun g => mk_mtask (MMap stars) g 0 [] els default_w ecb ccb MNotStarted 0 None
                       false None nc false 0 false nc).
Proof.
  cbn [do_op]. pose proof (know_opt_mt s og) as E.
  set (s1 := match og with Some g => know s g | None => s end) in *. clearbody s1.
  set (g := match og with Some g => g | None => gen_name s1 (meth_of_stars stars) end). clearbody g.
  destruct (check_start s1 noncoro); [right; split; [discriminate|exact E]|].
  destruct (nc =? 0); [right; split; [discriminate|exact E]|].
  destruct (ghas g (groups s1)); [right; split; [discriminate|exact E]|].
  left. exists g. split; [reflexivity|].
  cbn [mtasks set_res]. rewrite new_meta_mt. cbn [mtasks set_groups]. autorewrite with fr.
  rewrite E. reflexivity.
Qed.

Lemma spawned_start s num :
  spawned s (do_op s (OpStart num))
    (fun g => mk_mtask MStart g num (cf_bad (cfg s)) [] (cf_w (cfg s)) (cf_ecb (cfg s))
                       (cf_ccb (cfg s)) MNotStarted 0 None false None 0 false 0 false 0).
Proof.
  cbn [do_op]. destruct (check_start s false); [right; split; [discriminate|reflexivity]|].
  left. eexists. split; [reflexivity|].
  cbn [mtasks set_res]. rewrite new_meta_mt. cbn [mtasks set_groups set_start_calls cfg].
  autorewrite with fr. unfold know. destruct (existsb _ _); reflexivity.
Qed.

Definition mt_kill (g : gname) (s s' : state) : Prop :=
  length (mtasks s') = length (mtasks s) /\
  forall k y y', get_m s k = Some y -> get_m s' k = Some y' -> mimm y y' /\ dexact g y y'.

Lemma cancel_group_cases s g :
  let s' := do_op s (OpCancelGroup g) in
  (res s' = res (know s g) /\ mt_kill g s s') \/ ((exists e, res s' = RErr e) /\ mtasks s' = mtasks s).
Proof.
  cbn [do_op]. rewrite know_groups. destruct (glookup g (groups s)) as [ids|].
  - left. set (s2 := set_groups (know s g) (gremove g (groups s))).
    split; [rewrite res_cancel_group_body; reflexivity|].
    destruct (cgb_exact s2 g ids) as [L E].
    pose proof (cancel_group_body_ssim s2 g ids) as Hs.
    assert (Em : mtasks s2 = mtasks s) by (unfold s2; cbn; apply know_mtasks).
    split; [rewrite L, Em; reflexivity|].
    intros k y y' Hy Hy'.
    assert (Hy2 : get_m s2 k = Some y) by (unfold get_m; rewrite Em; exact Hy).
    split; [|apply (E _ _ _ Hy2 Hy')].
    destruct (ssim_get_m Hs Hy') as [z [Hz [M _]]]. replace z with y in M by congruence. exact M.
  - right. split; [eexists; reflexivity|]. cbn. apply know_mtasks.
Qed.

Lemma cancel_all_cases s :
  let s' := do_op s OpCancelAll in
  length (mtasks s') = length (mtasks s) /\
  forall k y y', get_m s k = Some y -> get_m s' k = Some y' -> mimm y y'.
Proof.
  cbn [do_op]. pose proof (cancel_all_groups_ssim (rev (groups s)) (set_groups s [])) as Hs.
  split; [symmetry; apply (F2_length (ss_m Hs))|].
  intros k y y' Hy Hy'. destruct (ssim_get_m Hs Hy') as [z [Hz [M _]]].
  change (get_m s k = Some z) in Hz. replace z with y in M by congruence. exact M.
Qed.

Lemma simple_op_mt_same s o : simple_op o = true -> mt_same s (do_op s o).
Proof.
  intros E.
  assert (Hd : (exists k, o = OpDriver k) \/ (forall k, o <> OpDriver k)).
  { destruct o; try (right; discriminate). left. eauto. }
  destruct Hd as [[k ->]|Hd].
  - apply mt_same_eq. cbn [do_op]. autorewrite with fr. cbn. destruct k; reflexivity.
  - apply mt_same_PQ. apply PQ_do_op_simple; auto.
Qed.
