(** The pulls counters of the tracker along one step. *)
From TP Require Import PMon PMonSound_trk PMonSound_C45_trk PMonSound_C45_pull.
From TP Require Import PInv_Q PRun PWF PStep_C_ev PStep_B_mr PStep_B_inv.
From TP Require Import PMonSound_C45_gistep PMonSound_C45_lab PMonSound_C45_mir.

Definition PRall (rs : list req) (s : state) : Prop :=
  forall r x y, nth_error rs r = Some x -> get_m s r = Some y -> is_map y = true ->
                PRv (r_pulls x) y.

Lemma nopull r es :
  (forall n, ~ In (EvPull r n) es) -> npulls r es = 0 /\ forall p, pseq p r es.
Proof.
  induction es as [|e es IH]; intros H; simpl; [split; auto|].
  destruct IH as [A B]; [intros n Hn; apply (H n); right; exact Hn|].
  unfold npulls in *. simpl. destruct e; simpl; auto.
  destruct (Nat.eqb_spec req r) as [->|Ne]; simpl; auto.
  exfalso. apply (H k). left. reflexivity.
Qed.

Lemma PRv_passive p y y' : passive y y' -> PRv p y -> PRv p y'.
Proof. intros (A & B & C & _). unfold PRv. rewrite A, B, C. auto. Qed.

Lemma is_map_kind y y' : m_kind y' = m_kind y -> is_map y' = is_map y.
Proof. unfold is_map. intros ->. reflexivity. Qed.

(** events of one step: only the executing spawner pulls *)
Lemma step_pull_owner s l r n :
  spawn_l l = false -> In (EvPull r n) (evs (step s l)) -> act l s = Some r.
Proof.
  intros Hs Hin. destruct (MR_evs _ _ _ _ (MR_step s l Hs) _ Hin) as [H|H].
  - destruct H.
  - exact H.
Qed.

Lemma evs_step_spawn s l : spawn_l l = true -> evs (step s l) = [].
Proof. intros Hs. destruct (step_spawn s l Hs) as (E & _). exact E. Qed.

Lemma option_nat_dec (o : option nat) (r : nat) : o = Some r \/ o <> Some r.
Proof.
  destruct o as [k|]; [|right; discriminate].
  destruct (Nat.eq_dec k r) as [->|Ne]; [left; auto|right; congruence].
Qed.

Definition OUT2 (p r : nat) (s' : state) (y' : mtask) : Prop :=
  ((forall n, ~ In (EvPull r n) (evs s')) /\ PRv p y') \/
  (evs s' = [EvPull r p] /\ m_pc y' = MAtIter /\ m_idx y' = p).

Lemma OUT_OUT2 p r s' y' : OUT p r s' y' -> OUT2 p r s' y'.
Proof.
  intros [[E Hv]|H]; [left|right; exact H]. split; auto. rewrite E. intros n [].
Qed.

Lemma PR_exec s l a p y y' :
  act l s = Some a -> get_m s a = Some y -> is_map y = true -> PRv p y ->
  get_m (step s l) a = Some y' -> is_map y' = true -> OUT p a (step s l) y'.
Proof.
  intros Ha Hy Hk Hv. unfold step. set (sa := set_res (set_evs s []) RNone).
  assert (Hya : get_m sa a = Some y) by exact Hy.
  assert (Hea : evs sa = []) by reflexivity.
  destruct (negb (enabled sa l)).
  { intros Hy' _. left. split; auto. replace y' with y by congruence. exact Hv. }
  destruct l as [h| |o]; try discriminate Ha.
  - destruct h as [[t|m|d]|d c]; try discriminate Ha. injection Ha as ->. cbn [run_handle].
    intros Hy' Hk'. apply (B_run_m p a (unsched sa (HT (TM a))) y Hya Hk Hea Hv y' Hy' Hk').
  - simpl in Ha. change (ctl sa) with (ctl s). destruct (ctl s) as [|[t|m|d]]; try discriminate Ha.
    injection Ha as ->. intros Hy' Hk'.
    apply (B_continue_m p a sa y Hya Hk Hea Hv y' Hy' Hk').
Qed.

Lemma spawn_new_rec s l y' :
  spawn_l l = true -> get_m (step s l) (length (mtasks s)) = Some y' ->
  m_pc y' = MNotStarted /\ m_idx y' = 0.
Proof.
  intros Hs. unfold step. set (sa := set_res (set_evs s []) RNone).
  assert (Hnone : get_m sa (length (mtasks s)) = None) by (apply nth_error_None; apply le_n).
  destruct (negb (enabled sa l)); [intros H; congruence|].
  destruct l as [h| |o]; try discriminate Hs.
  assert (Hgen : forall xm, spawned sa (do_op sa o) xm ->
            (forall g, m_pc (xm g) = MNotStarted /\ m_idx (xm g) = 0) ->
            get_m (do_op sa o) (length (mtasks s)) = Some y' ->
            m_pc y' = MNotStarted /\ m_idx y' = 0).
  { intros xm [(g & _ & Em)|(_ & Em)] Hx H; unfold get_m in H; rewrite Em in H.
    - change (mtasks sa) with (mtasks s) in H.
      rewrite nth_error_app2, Nat.sub_diag in H by apply le_n. simpl in H.
      inversion H; subst. apply Hx.
    - unfold get_m in Hnone. congruence. }
  destruct o; try discriminate Hs.
  - eapply Hgen; [apply spawned_apply|]. intros g0; split; reflexivity.
  - eapply Hgen; [apply spawned_map|]. intros g0; split; reflexivity.
  - eapply Hgen; [apply spawned_start|]. intros g0; split; reflexivity.
Qed.

Lemma spawn_old_rec s l r y :
  spawn_l l = true -> get_m s r = Some y -> get_m (step s l) r = Some y.
Proof.
  intros Hs Hy. destruct (step_spawn s l Hs) as (_ & _ & [[Em _]|(x & Em & _)]);
    unfold get_m in *; rewrite Em; cbn [mtasks reset set_res set_evs].
  - exact Hy.
  - apply nth_error_snoc_l. exact Hy.
Qed.

Theorem PR_step rs s l b :
  WFx s -> MIR rs s -> PRall rs s ->
  let s' := step s l in
  let rs1 := lab_reqs (cfg s) rs b (obs_of s' l (enabled (set_res (set_evs s []) RNone) l)) in
  forall r x1 y', nth_error rs1 r = Some x1 -> get_m s' r = Some y' -> is_map y' = true ->
    OUT2 (r_pulls x1) r s' y'.
Proof.
  intros X HM HP. cbv zeta. intros r x1 y' Hx1 Hy' Hk'.
  pose proof (MIR_label (cfg s) s l rs b X eq_refl HM) as HM1.
  set (s' := step s l) in *.
  set (rs1 := lab_reqs (cfg s) rs b (obs_of s' l (enabled (set_res (set_evs s []) RNone) l))) in *.
  assert (Hk1 : r_kind x1 = m_kind y') by (apply (proj2 HM1 r x1 y' Hx1 Hy')).
  destruct HM as [HL HMr].
  assert (Hold : forall x, nth_error rs r = Some x -> exists y, get_m s r = Some y /\ r_kind x = m_kind y).
  { intros x Hx. destruct (@get_m_ex s r) as [y Hy]; [rewrite <- HL; apply nth_error_Some; congruence|].
    exists y. split; auto. apply (HMr _ _ _ Hx Hy). }
  destruct (spawn_l l) eqn:Hsp.
  - (* an apply / map / start request *)
    left. split; [unfold s'; rewrite (evs_step_spawn s l Hsp); intros n []|].
    destruct (lab_reqs_inv _ _ _ _ _ _ Hx1) as [(x & Hx & Ek & Ep & _)|(Er & Ep & _)].
    + destruct (Hold _ Hx) as (y & Hy & Eky).
      pose proof (spawn_old_rec s l r y Hsp Hy) as Hy2. fold s' in Hy2.
      replace y' with y in * by congruence. rewrite Ep. apply (HP _ _ _ Hx Hy Hk').
    + rewrite Ep. subst r. rewrite HL in Hy'.
      destruct (spawn_new_rec s l y' Hsp Hy') as [A B]. unfold PRv. rewrite A. auto.
  - (* every other label: the table keeps its pulls counters *)
    destruct (lab_reqs_inv _ _ _ _ _ _ Hx1) as [(x & Hx & Ek & Ep & _)|(Er & _)].
    2:{ exfalso. subst r. rewrite HL in Hy'. apply get_m_len in Hy'.
        unfold s' in Hy'. rewrite (@step_len_nospawn s l Hsp) in Hy'. lia. }
    destruct (Hold _ Hx) as (y & Hy & Eky).
    assert (Hky : is_map y = true).
    { rewrite <- Hk'. symmetry. apply is_map_kind. congruence. }
    pose proof (HP _ _ _ Hx Hy Hky) as Hv. rewrite Ep.
    destruct (MR_rec _ _ _ _ (MR_step s l Hsp) r y Hy) as (z & Hz & _ & _ & Hpas).
    fold s' in Hz. replace z with y' in * by congruence.
    destruct (option_nat_dec (act l s) r) as [Ha|Ha].
    + apply OUT_OUT2. apply (PR_exec s l r (r_pulls x) y y' Ha Hy Hky Hv Hy' Hk').
    + assert (Hno : forall n, ~ In (EvPull r n) (evs s')).
      { intros n Hin. apply Ha. eapply step_pull_owner; eauto. }
      left. split; auto.
      eapply PRv_passive; [apply Hpas; exact Ha|exact Hv].
Qed.
