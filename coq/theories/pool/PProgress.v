(** PROGRESS (no livelock) of the task-pool model.

    Without new operations of the environment the pool always settles after finitely many
    internal steps, whatever order the scheduler picks ready handles in:

      - [progress_bounded]: from a state reached by a clean run, every internal run (labels
        [LRun _] / [LGo] only, each enabled where it fires) has length at most [mu s];
      - [progress_settles]: there is an internal run to a quiet state (loop idle, nothing ready);
      - [progress_settles_any]: every internal run can be extended to one ending in a quiet
        state, by at most [mu] further steps ([progress_fifo]: running the first ready handle
        each time does it);
      - [progress_maximal_quiet]: an internal run that cannot be extended ends in a quiet state.

    The only precondition is [clean] (P-unlock), needed to have the invariant; none of the other
    taint flags ([taint_self], [taint_iter], [taint_size]) matters.  The measure [mu] is defined
    in PProgress_def.v; the key lemma is [step_decr] (PProgress_step.v). *)
From TP Require Import PInv PRun PWF PExamples.
From TP Require Export PProgress_step.

Unset Implicit Arguments.

(** ** internal runs: the two presentations agree *)
Lemma internal_run_irun tr : forall s, internal_run s tr <-> irun s tr.
Proof.
  induction tr as [|l tr IH]; intros s; simpl.
  - split; auto. intros _ [|k] l H; discriminate.
  - split.
    + intros H. destruct (H 0 l eq_refl) as [Hi He]. repeat split; auto.
      apply IH. intros k l' Hk. exact (H (S k) l' Hk).
    + intros (Hi & He & Hr) [|k] l' Hk.
      * injection Hk as <-. auto.
      * apply IH in Hr. exact (Hr k l' Hk).
Qed.

Lemma irun_app tr1 : forall s tr2,
  irun s (tr1 ++ tr2) <-> irun s tr1 /\ irun (fold_left step tr1 s) tr2.
Proof.
  induction tr1 as [|l tr1 IH]; intros s tr2; simpl; [tauto|].
  rewrite IH. tauto.
Qed.

(** ** along an internal run the invariant holds and the measure pays one unit per step *)
Lemma irun_measure tr : forall s,
  WFx s -> clean s -> irun s tr ->
  WFx (fold_left step tr s) /\ clean (fold_left step tr s) /\
  mu (fold_left step tr s) + length tr <= mu s.
Proof.
  induction tr as [|l tr IH]; intros s X Hc Hr; simpl.
  - split; [exact X|split; [exact Hc|lia]].
  - destruct Hr as (Hi & He & Hr).
    pose proof (wf5 _ (x_wf _ X)) as W5.
    pose proof (step_decr s l W5 He Hi) as Hd.
    pose proof (step_internal_clean s l W5 He Hi Hc) as Hc'.
    pose proof (WFx_step s l X Hc') as X'.
    destruct (IH (step s l) X' Hc' Hr) as (A & B & C).
    split; [exact A|split; [exact B|lia]].
Qed.

(** ** a scheduler: continue user code, else run the first ready handle *)
Definition next_label (s : state) : option label :=
  match ctl s with
  | CUser _ => Some LGo
  | CIdle => match ready s with h :: _ => Some (LRun h) | [] => None end
  end.

Fixpoint fifo_run (n : nat) (s : state) : list label :=
  match n with
  | O => []
  | S k => match next_label s with
           | None => []
           | Some l => l :: fifo_run k (step s l)
           end
  end.

Lemma hid_eqb_refl h : hid_eqb h h = true.
Proof. destruct h as [[t|m|d]|d [t|m|e]]; simpl; rewrite ?Nat.eqb_refl; reflexivity. Qed.

Lemma next_label_none s : next_label s = None -> quiet s.
Proof.
  unfold next_label, quiet. destruct (ctl s); [|discriminate].
  destruct (ready s); [auto|discriminate].
Qed.

Lemma next_label_some s l : next_label s = Some l -> internal l = true /\ enabled s l = true.
Proof.
  unfold next_label. destruct (ctl s) eqn:C.
  - destruct (ready s) as [|h r] eqn:R; [discriminate|].
    intros H. injection H as <-. split; auto.
    simpl. rewrite C. unfold is_ready. rewrite R. simpl. rewrite hid_eqb_refl. reflexivity.
  - intros H. injection H as <-. split; auto. simpl. rewrite C. reflexivity.
Qed.

(** if the state is not quiet some internal label is enabled *)
Lemma not_quiet_enabled s : quiet s \/ exists l, internal l = true /\ enabled s l = true.
Proof.
  destruct (next_label s) as [l|] eqn:E.
  - right. exists l. apply next_label_some. exact E.
  - left. apply next_label_none. exact E.
Qed.

Lemma fifo_settles n : forall s,
  WFx s -> clean s -> mu s <= n ->
  irun s (fifo_run n s) /\ quiet (fold_left step (fifo_run n s) s).
Proof.
  induction n as [|n IH]; intros s X Hc Hn; simpl.
  - destruct (next_label s) as [l|] eqn:E.
    + exfalso. destruct (next_label_some s l E) as [Hi He].
      pose proof (step_decr s l (wf5 _ (x_wf _ X)) He Hi). lia.
    + split; auto. apply next_label_none. exact E.
  - destruct (next_label s) as [l|] eqn:E.
    + destruct (next_label_some s l E) as [Hi He].
      pose proof (wf5 _ (x_wf _ X)) as W5.
      pose proof (step_decr s l W5 He Hi) as Hd.
      pose proof (step_internal_clean s l W5 He Hi Hc) as Hc'.
      pose proof (WFx_step s l X Hc') as X'.
      assert (Hn' : mu (step s l) <= n) by lia.
      destruct (IH (step s l) X' Hc' Hn') as [A B].
      split; [simpl; split; [exact Hi|split; [exact He|exact A]]|exact B].
    + split; simpl; auto. apply next_label_none. exact E.
Qed.

(** ** The theorems *)

(** the key lemma in the form of the task statement *)
Lemma step_decr_WFx s l :
  enabled s l = true -> internal l = true -> WFx s -> mu (step s l) < mu s.
Proof. intros He Hi X. exact (step_decr s l (wf5 _ (x_wf _ X)) He Hi). Qed.

(** (1) every internal run from a reachable clean state is at most [mu] steps long *)
Theorem progress_bounded_mu : forall c tr0, clean (run c tr0) ->
  forall tr, internal_run (run c tr0) tr -> length tr <= mu (run c tr0).
Proof.
  intros c tr0 Hc tr Hr. apply internal_run_irun in Hr.
  destruct (irun_measure tr (run c tr0) (WFx_run c tr0 Hc) Hc Hr) as (_ & _ & H). lia.
Qed.

Theorem progress_bounded : forall c tr0, clean (run c tr0) ->
  exists N, forall tr, internal_run (run c tr0) tr -> length tr <= N.
Proof.
  intros c tr0 Hc. exists (mu (run c tr0)). apply progress_bounded_mu. exact Hc.
Qed.

(** the measure drops by at least the length of the run *)
Theorem progress_measure : forall c tr0, clean (run c tr0) ->
  forall tr, internal_run (run c tr0) tr ->
  mu (run c (tr0 ++ tr)) + length tr <= mu (run c tr0).
Proof.
  intros c tr0 Hc tr Hr. apply internal_run_irun in Hr. rewrite run_app.
  destruct (irun_measure tr (run c tr0) (WFx_run c tr0 Hc) Hc Hr) as (_ & _ & H). exact H.
Qed.

(** the first-ready-handle scheduler settles the pool within [mu] steps *)
Theorem progress_fifo : forall c tr0, clean (run c tr0) ->
  let s := run c tr0 in
  internal_run s (fifo_run (mu s) s) /\ quiet (fold_left step (fifo_run (mu s) s) s).
Proof.
  intros c tr0 Hc s.
  destruct (fifo_settles (mu s) s (WFx_run c tr0 Hc) Hc (le_n _)) as [A B].
  split; auto. apply internal_run_irun. exact A.
Qed.

(** (2) some internal run leads to a quiet state *)
Theorem progress_settles : forall c tr0, clean (run c tr0) ->
  exists tr, internal_run (run c tr0) tr /\ quiet (fold_left step tr (run c tr0)).
Proof.
  intros c tr0 Hc. exists (fifo_run (mu (run c tr0)) (run c tr0)).
  exact (progress_fifo c tr0 Hc).
Qed.

(** every internal run can be extended to a quiet state *)
Theorem progress_settles_any : forall c tr0, clean (run c tr0) ->
  forall tr, internal_run (run c tr0) tr ->
  exists tr', internal_run (run c tr0) (tr ++ tr') /\
              quiet (fold_left step (tr ++ tr') (run c tr0)) /\
              length (tr ++ tr') <= mu (run c tr0).
Proof.
  intros c tr0 Hc tr Hr. apply internal_run_irun in Hr.
  destruct (irun_measure tr (run c tr0) (WFx_run c tr0 Hc) Hc Hr) as (X & Hc' & Hm).
  set (s' := fold_left step tr (run c tr0)) in *.
  destruct (fifo_settles (mu s') s' X Hc' (le_n _)) as [A B].
  exists (fifo_run (mu s') s'). split; [|split].
  - apply internal_run_irun. apply irun_app. split; auto.
  - rewrite fold_left_app. exact B.
  - apply progress_bounded_mu; auto. apply internal_run_irun. apply irun_app. split; auto.
Qed.

(** an internal run that cannot be extended ends in a quiet state *)
Theorem progress_maximal_quiet : forall c tr0, clean (run c tr0) ->
  forall tr, internal_run (run c tr0) tr ->
  (forall l, ~ internal_run (run c tr0) (tr ++ [l])) ->
  quiet (fold_left step tr (run c tr0)).
Proof.
  intros c tr0 Hc tr Hr Hmax.
  destruct (not_quiet_enabled (fold_left step tr (run c tr0))) as [Q|[l [Hi He]]]; auto.
  exfalso. apply (Hmax l). apply internal_run_irun. apply irun_app.
  split; [apply internal_run_irun; exact Hr|]. simpl. auto.
Qed.

(** ** Non-vacuity *)

(** the values of the measure along a run *)
Fixpoint mus (tr : list label) (s : state) : list nat :=
  match tr with
  | [] => [mu s]
  | l :: t => mu s :: mus t (step s l)
  end.

(** apply(num=3) on a size-2 pool, the spawner has run: two new tasks are ready, the spawner waits
    for room.  Both orders of the two ready handles settle, in 4 steps (the measure drops from
    33 to 27: what is left is the price of the work that only the environment can release). *)
Definition tr_two : list label :=
  [ LOp (OpApply 3 [] false w_sp (CbSync false) (CbAsync true false) None); LRun (HT (TM 0)) ].

Example progress_two :
  let s := run cfg2 tr_two in
  let ra := [LRun (HT (TP 0)); LGo; LRun (HT (TP 1)); LGo] in
  let rb := [LRun (HT (TP 1)); LGo; LRun (HT (TP 0)); LGo] in
  clean s /\ ready s = [HT (TP 0); HT (TP 1)] /\ mu s = 33 /\
  irun s ra /\ quiet (fold_left step ra s) /\
  irun s rb /\ quiet (fold_left step rb s) /\
  mu (fold_left step ra s) = 27 /\ mu (fold_left step rb s) = 27 /\
  fifo_run (mu s) s = ra.
Proof. vm_compute. repeat split; reflexivity. Qed.

(** A busier state: the pool is full (tasks 0 and 1 at their gates, the spawner waiting for room
    for the third), gather_and_close() waits for the spawner, an until_closed() driver was just
    created, and both workers were let go.  Three handles are ready (a driver and two tasks).
    Every schedule settles within [mu s = 46] steps; two different ones are shown, both take 12
    steps (task endings with their end callbacks, the semaphore hand-off to the spawner, the
    creation and first run of task 2, the gather callback and the wake-up of the driver) and end
    in the same measure 13, strictly decreasing on the way. *)
Definition tr_busy : list label :=
  tr_full ++
  [ LOp (OpDriver (DGatherClose false)); LRun (HT (TD 0)); LOp (OpDriver DUntilClosed);
    LOp (OpFinish 0 FinReturn); LOp (OpFinish 1 FinReturn) ].

Example progress_busy :
  let s := run cfg2 tr_busy in
  let ra := [LRun (HT (TD 1)); LRun (HT (TP 0)); LGo; LGo; LRun (HT (TP 1)); LGo; LGo;
             LRun (HT (TM 0)); LRun (HT (TP 2)); LGo; LRun (HG 0 (TM 0)); LRun (HT (TD 0))] in
  let rb := [LRun (HT (TP 1)); LGo; LGo; LRun (HT (TP 0)); LGo; LGo; LRun (HT (TM 0));
             LRun (HG 0 (TM 0)); LRun (HT (TP 2)); LGo; LRun (HT (TD 0)); LRun (HT (TD 1))] in
  clean s /\ ctl s = CIdle /\ ready s = [HT (TD 1); HT (TP 0); HT (TP 1)] /\ mu s = 46 /\
  fifo_run (mu s) s = ra /\
  irun s ra /\ quiet (fold_left step ra s) /\
  mus ra s = [46; 43; 42; 39; 34; 33; 30; 25; 18; 17; 15; 14; 13] /\
  irun s rb /\ quiet (fold_left step rb s) /\
  mus rb s = [46; 45; 42; 37; 36; 33; 28; 21; 20; 19; 17; 16; 13].
Proof. vm_compute. repeat split; reflexivity. Qed.

(** the theorems instantiated on that state *)
Example progress_busy_thm :
  let s := run cfg2 tr_busy in
  (forall tr, internal_run s tr -> length tr <= 46) /\
  (exists tr, internal_run s tr /\ quiet (fold_left step tr s)).
Proof.
  assert (Hc : clean (run cfg2 tr_busy)) by (vm_compute; reflexivity).
  assert (Hm : mu (run cfg2 tr_busy) = 46) by (vm_compute; reflexivity).
  split.
  - intros tr Hr. rewrite <- Hm. apply progress_bounded_mu; auto.
  - apply progress_settles; auto.
Qed.
