(** Monitor soundness for C02 / C03 — API operations on the model side: no event, the monitor
    relevant part of every task record is unchanged (only [p_unst] may become [UDeferred]), and
    the immutable part of the requests is unchanged except that an accepted spawn request appends
    one. *)
From TP Require Import PInv PMon PInv_R_base PInv_R_tr PMonSound2_def PStep_C_ev.

Definition core_of (x : ptask) :=
  (ph_of (p_pc x), p_nstart x, p_nccb x, p_necb x, (p_req x, p_el x, p_w x, p_ecb x, p_ccb x)).

Definition OP (CL : list _) (IM : list rimm) (s : state) : Prop :=
  map core_of (ptasks s) = CL /\ map imm_m (mtasks s) = IM.

Lemma OP_eq CL IM s s' :
  ptasks s' = ptasks s -> mtasks s' = mtasks s -> OP CL IM s -> OP CL IM s'.
Proof. unfold OP. intros -> ->. auto. Qed.

Lemma OP_sched CL IM s h : OP CL IM s -> OP CL IM (sched s h).
Proof. apply OP_eq; [apply ptasks_sched|apply mtasks_sched]. Qed.

Lemma OP_fold {A} (f : state -> A -> state) CL IM :
  (forall s x, OP CL IM s -> OP CL IM (f s x)) -> forall l s, OP CL IM s -> OP CL IM (fold_left f l s).
Proof. intros Hf. induction l as [|x l IH]; simpl; intros s H; auto. Qed.

Lemma map_upd_gen2 {A B} (f : A -> B) l n y :
  (forall x, nth_error l n = Some x -> f y = f x) -> map f (upd l n y) = map f l.
Proof.
  revert n. induction l as [|a l IH]; intros [|n]; simpl; intros H; auto.
  - rewrite (H a); auto.
  - f_equal. apply IH; auto.
Qed.

Lemma OP_put_p CL IM s t x x' :
  OP CL IM s -> get_p s t = Some x -> core_of x' = core_of x -> OP CL IM (put_p s t x').
Proof.
  intros [H1 H2] Hx Hc. split; [|exact H2]. unfold put_p; cbn. rewrite <- H1.
  apply map_upd_gen2. intros y Hy. unfold get_p in Hx. congruence.
Qed.

Lemma OP_put_m CL IM s m x x' :
  OP CL IM s -> get_m s m = Some x -> imm_m x' = imm_m x -> OP CL IM (put_m s m x').
Proof.
  intros [H1 H2] Hx Hc. split; [exact H1|]. unfold put_m; cbn. rewrite <- H2.
  apply map_upd_gen2. intros y Hy. unfold get_m in Hx. congruence.
Qed.

Lemma OP_know CL IM s g : OP CL IM s -> OP CL IM (know s g).
Proof. intros H. unfold know. destruct (existsb (gname_eqb g) (known s)); exact H. Qed.

Lemma OP_cancel_m CL IM s m : OP CL IM s -> OP CL IM (cancel_m s m).
Proof.
  intros H. unfold cancel_m. destruct (get_m s m) as [x|] eqn:Hx; auto.
  destruct (m_final x); auto.
  set (s1 := if is_current s (TM m) then set_taint_iter s true else s).
  assert (H1 : OP CL IM s1) by (unfold s1; destruct (is_current s (TM m)); exact H).
  assert (Hx1 : get_m s1 m = Some x) by (unfold s1; destruct (is_current s (TM m)); exact Hx).
  clearbody s1.
  destruct (fut_pending (m_fw x)).
  - apply OP_sched. eapply OP_put_m; eauto.
  - eapply OP_put_m; eauto.
Qed.

Lemma OP_cancel_p CL IM s t : OP CL IM s -> OP CL IM (cancel_p s t).
Proof.
  intros H. unfold cancel_p. destruct (get_p s t) as [x|] eqn:Hx; auto.
  destruct (p_unst x); try (eapply OP_put_p; eauto; reflexivity).
  destruct (p_final x); auto.
  set (s1 := if is_current s (TP t) && final_segment x then set_taint_self s true else s).
  assert (H1 : OP CL IM s1)
    by (unfold s1; destruct (is_current s (TP t) && final_segment x); exact H).
  assert (Hx1 : get_p s1 t = Some x)
    by (unfold s1; destruct (is_current s (TP t) && final_segment x); exact Hx).
  clearbody s1.
  destruct (fut_pending (p_fw x)).
  - apply OP_sched. eapply OP_put_p; eauto.
  - eapply OP_put_p; eauto.
Qed.

Lemma OP_do_cancel CL IM s ids : OP CL IM s -> OP CL IM (do_cancel s ids).
Proof.
  intros H. unfold do_cancel. destruct (first_lookup_err s ids); [exact H|].
  apply OP_fold; auto. intros; apply OP_cancel_p; auto.
Qed.

Lemma OP_cancel_group_metas CL IM s g : OP CL IM s -> OP CL IM (cancel_group_metas s g).
Proof.
  intros H. unfold cancel_group_metas. destruct (glookup g (gmeta s)) as [ms|]; auto.
  match goal with |- OP _ _ (set_meta_cancelled ?s' _) => change (OP CL IM s') end.
  apply OP_fold; [intros; apply OP_cancel_m; auto|]. exact H.
Qed.

Lemma OP_mark_dead CL IM s g : OP CL IM s -> OP CL IM (mark_dead s g).
Proof.
  intros [H1 H2]. split; [exact H1|]. unfold mark_dead; cbn. rewrite <- H2.
  rewrite map_map. apply map_ext. intros x. destruct (gname_eqb g (m_group x)); reflexivity.
Qed.

Lemma OP_cancel_group_body CL IM s g ids : OP CL IM s -> OP CL IM (cancel_group_body s g ids).
Proof.
  intros H. unfold cancel_group_body. apply OP_fold.
  - intros s' t H'. destruct (mem t (t_running s')); auto. apply OP_cancel_p; auto.
  - apply OP_mark_dead, OP_cancel_group_metas; auto.
Qed.

Lemma OP_cancel_all_groups CL IM gs : forall s, OP CL IM s -> OP CL IM (cancel_all_groups s gs).
Proof.
  induction gs as [|[g ids] gs IH]; simpl; intros s H; auto.
  apply IH. apply OP_cancel_group_body; auto.
Qed.

Lemma OP_set_res CL IM s r : OP CL IM s -> OP CL IM (set_res s r).
Proof. exact (fun H => H). Qed.

(** ** spawn requests *)
Definition spawn_imm (c : config) (o : op) : option rimm :=
  match o with
  | OpApply num bad noncoro w ecb ccb g =>
      Some {| i_kind := MApply; i_els := []; i_w := w; i_ecb := ecb; i_ccb := ccb |}
  | OpMap stars els nc noncoro ecb ccb g =>
      Some {| i_kind := MMap stars; i_els := els; i_w := default_w; i_ecb := ecb; i_ccb := ccb |}
  | OpStart num =>
      Some {| i_kind := MStart; i_els := []; i_w := cf_w c; i_ecb := cf_ecb c; i_ccb := cf_ccb c |}
  | _ => None
  end.

Definition is_rname (r : result) : bool := match r with RName _ => true | _ => false end.

Definition extra_imm (c : config) (o : op) (r : result) : list rimm :=
  match spawn_imm c o with
  | Some i => if is_rname r then [i] else []
  | None => []
  end.

Lemma OP_new_meta CL IM s x :
  OP CL IM s -> OP CL (IM ++ [imm_m x]) (new_meta s x).
Proof.
  intros [H1 H2]. unfold new_meta. split.
  - rewrite ptasks_sched. exact H1.
  - rewrite mtasks_sched. cbn. rewrite map_app, H2. reflexivity.
Qed.

Lemma OP_do_op CL IM s o :
  res s = RNone -> OP CL IM s ->
  OP CL (IM ++ extra_imm (cfg s) o (res (do_op s o))) (do_op s o).
Proof.
  intros Hres H.
  assert (Hnil : forall s', OP CL IM s' -> OP CL (IM ++ []) s') by (intros; rewrite app_nil_r; auto).
  destruct o; unfold do_op; cbv zeta.
  - set (s1 := match g with Some g0 => know s g0 | None => s end).
    assert (H1 : OP CL IM s1) by (unfold s1; destruct g; [apply OP_know|]; exact H).
    assert (Hc : cfg s1 = cfg s)
      by (unfold s1; destruct g; auto; unfold know; destruct (existsb _ _); reflexivity).
    clearbody s1.
    destruct (check_start s1 noncoro); [apply Hnil; exact H1|].
    match goal with |- context [if ?c then _ else _] => destruct c end; [apply Hnil; exact H1|].
    unfold extra_imm. cbn [spawn_imm res set_res is_rname].
    apply OP_set_res.
    match goal with |- OP _ _ (new_meta ?s' ?x) => apply (OP_new_meta CL IM s' x) end.
    apply (OP_know CL IM s1). exact H1.
  - set (s1 := match g with Some g0 => know s g0 | None => s end).
    assert (H1 : OP CL IM s1) by (unfold s1; destruct g; [apply OP_know|]; exact H).
    clearbody s1.
    destruct (check_start s1 noncoro); [apply Hnil; exact H1|].
    destruct (nc =? 0); [apply Hnil; exact H1|].
    match goal with |- context [if ?c then _ else _] => destruct c end; [apply Hnil; exact H1|].
    unfold extra_imm. cbn [spawn_imm res set_res is_rname].
    apply OP_set_res.
    match goal with |- OP _ _ (new_meta ?s' ?x) => apply (OP_new_meta CL IM s' x) end.
    apply (OP_know CL IM s1). exact H1.
  - destruct (check_start s false); [apply Hnil; exact H|].
    unfold extra_imm. cbn [spawn_imm res set_res is_rname].
    assert (Hc : cfg (know s (GStart (start_calls s))) = cfg s)
      by (unfold know; destruct (existsb _ _); reflexivity).
    rewrite <- Hc. apply OP_set_res.
    match goal with |- OP _ _ (new_meta ?s' ?x) => apply (OP_new_meta CL IM s' x) end.
    apply (OP_know CL IM s). exact H.
  - apply Hnil. apply OP_do_cancel; auto.
  - apply Hnil. pose proof (OP_know CL IM s g H) as H1.
    destruct (glookup g (groups (know s g))); [|exact H1].
    apply OP_cancel_group_body. exact H1.
  - apply Hnil. apply OP_cancel_all_groups. exact H.
  - apply Hnil.
    match goal with |- OP _ _ (match res ?s' with _ => _ end) =>
      assert (H1 : OP CL IM s') by (apply OP_do_cancel; exact H); destruct (res s'); exact H1 end.
  - apply Hnil.
    match goal with |- OP _ _ (match res ?s' with _ => _ end) =>
      assert (H1 : OP CL IM s') by (apply OP_do_cancel; exact H); destruct (res s'); exact H1 end.
  - apply Hnil. exact H.
  - apply Hnil. destruct (0 <? n_gac s); exact H.
  - apply Hnil. destruct v; exact H.
  - apply Hnil. match goal with |- OP _ _ (set_res ?s' _) => change (OP CL IM s') end.
    apply OP_fold; auto. intros; apply OP_know; auto.
  - apply Hnil. apply OP_sched. destruct k; exact H.
  - apply Hnil. destruct (get_p s tid) as [x|] eqn:Hx; [|exact H].
    apply OP_sched. eapply OP_put_p; eauto.
  - apply Hnil. destruct (get_p s tid) as [x|] eqn:Hx; [|exact H].
    apply OP_sched. eapply OP_put_p; eauto.
Qed.

(** the whole step for an operation label *)
Lemma step_op_shape s o :
  step s (LOp o) = (let s1 := set_res (set_evs s []) RNone in
                    if op_enabled s1 o then do_op s1 o else s1).
Proof. unfold step. cbn [enabled]. destruct (op_enabled _ o); reflexivity. Qed.

Theorem step_op_summary s o :
  let s' := step s (LOp o) in
  evs s' = [] /\
  map core_of (ptasks s') = map core_of (ptasks s) /\
  map imm_m (mtasks s') =
  map imm_m (mtasks s) ++
  (if enabled (set_res (set_evs s []) RNone) (LOp o) then extra_imm (cfg s) o (res s') else []).
Proof.
  cbv zeta. rewrite step_op_shape. cbv zeta. cbn [enabled].
  set (s1 := set_res (set_evs s []) RNone).
  destruct (op_enabled s1 o).
  - split; [rewrite ev_do_op; reflexivity|].
    assert (H : OP (map core_of (ptasks s)) (map imm_m (mtasks s)) s1) by (split; reflexivity).
    apply (OP_do_op _ _ s1 o eq_refl) in H. destruct H as [H1 H2]. split; [exact H1|exact H2].
  - split; [reflexivity|]. split; [reflexivity|]. rewrite app_nil_r. reflexivity.
Qed.
