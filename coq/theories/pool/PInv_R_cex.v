(** I5 is not inductive relative to WF alone: a (non-reachable) state that satisfies every clause
    of WF, and a label after which I5_d fails.  This is why [Extra_R] is needed (PInv_R.v).
    Not used by the other files. *)
From TP Require Import PInv.

Definition cex_cfg : config :=
  {| cf_size := Fin 1; cf_kind := KTask; cf_bad := []; cf_w := default_w;
     cf_ecb := CbNone; cf_ccb := CbNone |}.

(* a gather_and_close driver whose second gather is complete, ready to resume *)
Definition cex_d0 : dtask :=
  mk_dtask (DGatherClose true) DWaitG2 (Some FOk) None
           (Some (mk_gather [] true 0 [])) (Some (mk_gather [] true 0 [])) [].
(* a finished until_closed driver with a stale Pending [d_fw], still listed in closed_waiters *)
Definition cex_d1 : dtask :=
  mk_dtask DUntilClosed DDone (Some FPending) (Some OResult) None None [].

Definition cex_s : state :=
  mk_state cex_cfg 0 true false [] [] [] (Fin 1) [] [] [] [] 0 [] [] [cex_d0; cex_d1] [1]
           [HT (TD 0)] CIdle [] RNone [] (Fin 1) 0 false false false false 1.

Definition cex_l : label := LRun (HT (TD 0)).

Ltac no_p := let t := fresh in let x := fresh in let H := fresh in
  intros t x H; destruct t; discriminate H.
Ltac dcases d x H :=
  destruct d as [|[|[|d]]]; try discriminate H;
  [injection H as <-|injection H as <-].

Lemma cex_WF : WF cex_s.
Proof.
  constructor.
  - (* I1 *) constructor; cbn; auto; try constructor; try (intros t []).
  - (* I2 *) constructor; no_p.
  - (* IH *) constructor; try no_p. intros _. no_p.
  - (* I3 *) constructor; cbn; auto; try discriminate.
  - (* I4 *) constructor; cbn.
    + constructor.
    + intros m. split; [intros []|]. intros (x & Hx & _). destruct m; discriminate Hx.
    + no_p.
    + intros _ m [].
  - (* I5 *) constructor; try no_p.
    + cbn. constructor; [intros []|constructor].
    + intros h [<-|[]]. cbn. lia.
    + intros d x H. dcases d x H; cbn.
      * split; auto. intros _. right. split; auto. discriminate.
      * split.
        -- intros [Hq|[]]. discriminate Hq.
        -- intros [Hq|[[Hq|[Hq|Hq]] _]]; discriminate Hq.
    + intros d x H. dcases d x H; cbn.
      * split; [congruence|discriminate].
      * split; [auto|discriminate].
    + intros d; cbn; discriminate.
    + intros t; cbn; discriminate.
    + intros t; cbn; discriminate.
  - (* IM *) constructor; try no_p; cbn.
    + intros m [].
    + constructor.
    + constructor.
    + intros _. no_p.
  - (* IG *) constructor.
    + intros d x g H. dcases d x H; cbn; discriminate.
    + intros d x g H. dcases d x H; cbn; discriminate.
    + intros d x H. dcases d x H; cbn; discriminate.
    + intros d x H. dcases d x H; cbn; [|discriminate].
      intros _. eexists. split; reflexivity.
    + intros d x g H. dcases d x H; cbn; discriminate.
    + intros d x g H. dcases d x H; cbn; try discriminate.
      intros _ _ [= <-] c [].
    + cbn. intros d c [Hq|[]]. discriminate Hq.
    + intros d x re g H. dcases d x H; cbn; discriminate.
    + intros d x re H. cbn. lia.
    + intros d x re H. dcases d x H; cbn; [|discriminate].
      intros _ _. split; auto. split; [no_p|intros t []].
    + cbn. discriminate.
  - (* IR *) constructor; try no_p.
    intros t u x y H. destruct t; discriminate H.
  - (* IGr *) constructor; try no_p; cbn.
    + constructor.
    + constructor.
    + intros t [].
    + intros g ids t x H. discriminate H.
    + intros t x y H. destruct t; discriminate H.
Qed.

Lemma cex_clean : clean (step cex_s cex_l).
Proof. reflexivity. Qed.

Lemma cex_not_I5 : ~ I5 (step cex_s cex_l).
Proof.
  intros H.
  assert (Hx : exists x, get_d (step cex_s cex_l) 1 = Some x /\ d_pc x = DDone /\
                         In (HT (TD 1)) (ready (step cex_s cex_l))).
  { eexists. split; [vm_compute; reflexivity|]. split; [reflexivity|].
    vm_compute. auto. }
  destruct Hx as (x & Hx & Hpc & Hin).
  apply (I5_d _ H 1 x Hx) in Hin. rewrite Hpc in Hin.
  destruct Hin as [Hq|[[Hq|[Hq|Hq]] _]]; discriminate Hq.
Qed.

Theorem I5_not_inductive :
  exists s l, WF s /\ clean (step s l) /\ ~ I5 (step s l).
Proof. exists cex_s, cex_l. split; [apply cex_WF|split; [apply cex_clean|apply cex_not_I5]]. Qed.
