(** The tracker's request table mirrors the model's spawner records. *)
From TP Require Import PMon PMonSound_trk PMonSound_C45_trk.
From TP Require Import PInv_Q PRun PWF PStep_B_mr PMonSound_C45_gistep PMonSound_C45_lab.

Definition rq_match (x : req) (y : mtask) : Prop :=
  r_kind x = m_kind y /\ r_num x = m_num y /\ r_bad x = m_bad y /\ r_els x = m_els y /\
  r_nc x = m_nc y /\ r_group x = m_group y /\ (m_dead y = true -> r_dead x = true).

Definition MIR (rs : list req) (s : state) : Prop :=
  length rs = length (mtasks s) /\
  forall r x y, nth_error rs r = Some x -> get_m s r = Some y -> rq_match x y.

Lemma rq_match_mimm x y y' :
  rq_match x y -> mimm y y' -> (m_dead y' = true -> r_dead x = true) -> rq_match x y'.
Proof.
  intros (A1 & A2 & A3 & A4 & A5 & A6 & A7) (M1 & M2 & M3 & M4 & M5 & _ & _ & _ & M9) D.
  unfold rq_match. rewrite M1, M2, M3, M4, M5, M9. repeat split; auto.
Qed.

Lemma MIR_mt_same rs s s' : MIR rs s -> mt_same s s' -> MIR rs s'.
Proof.
  intros [L H] [L' H']. split; [congruence|].
  intros r x y' Hx Hy'.
  destruct (@get_m_ex s r) as [y Hy]; [rewrite <- L; apply nth_error_Some; congruence|].
  destruct (H' _ _ _ Hy Hy') as [M D].
  eapply rq_match_mimm; eauto. rewrite D. apply (H _ _ _ Hx Hy).
Qed.

Lemma MIR_eq rs s s' : mtasks s' = mtasks s -> MIR rs s -> MIR rs s'.
Proof. intros E H. eapply MIR_mt_same; eauto. apply mt_same_eq; auto. Qed.

Lemma MIR_app rs s s' x y :
  MIR rs s -> mtasks s' = mtasks s ++ [y] -> rq_match x y -> MIR (rs ++ [x]) s'.
Proof.
  intros [L H] E Hm. split; [rewrite E, !app_length; simpl; lia|].
  intros r x' y' Hx' Hy'. unfold get_m in Hy'. rewrite E in Hy'.
  apply nth_error_snoc_inv in Hx'. apply nth_error_snoc_inv in Hy'.
  destruct Hx' as [Hx'|[-> ->]]; destruct Hy' as [Hy'|[E2 ->]].
  - eapply H; eauto.
  - exfalso. assert (r < length rs) by (apply nth_error_Some; congruence). lia.
  - exfalso. assert (length rs < length (mtasks s)) by (apply nth_error_Some; congruence). lia.
  - exact Hm.
Qed.

Lemma rq_ev_match rs e : forall s, MIR rs s -> MIR (rq_ev rs e) s.
Proof.
  intros s [L H].
  assert (Hupd : forall r x x', nth_error rs r = Some x ->
            (forall y, rq_match x y -> rq_match x' y) -> MIR (upd rs r x') s).
  { intros r x x' Hx Hxx'. split; [rewrite upd_length; exact L|].
    intros r' x1 y Hx1 Hy. rewrite nth_error_upd in Hx1.
    destruct (Nat.eqb_spec r r') as [->|Ne].
    - destruct (Nat.ltb r' (length rs)); [|discriminate]. inversion Hx1; subst x1.
      apply Hxx'. eapply H; eauto.
    - eapply H; eauto. }
  destruct e as [t r el|t|t|kd t cl|kd t raised|kd t|r n|d oc]; simpl; try exact (conj L H).
  - destruct (nth_error rs r) as [x|] eqn:Hx; [|exact (conj L H)].
    eapply Hupd; eauto.
  - destruct (nth_error rs r) as [x|] eqn:Hx; [|exact (conj L H)].
    eapply Hupd; eauto.
Qed.

Lemma MIR_events es : forall rs s, MIR rs s -> MIR (fold_left rq_ev es rs) s.
Proof. induction es as [|e es IH]; intros rs s H; simpl; auto. apply IH. apply rq_ev_match. exact H. Qed.

Lemma MIR_kill_if rs s s' g :
  MIR rs s -> mt_kill g s s' ->
  MIR (map (fun x => if gname_eqb g (r_group x) then req_kill x else x) rs) s'.
Proof.
  intros [L H] [L' H']. split; [rewrite map_length; congruence|].
  intros r x' y' Hx' Hy'. rewrite nth_error_map in Hx'.
  destruct (nth_error rs r) as [x|] eqn:Hx; [|discriminate]. simpl in Hx'. inversion Hx'; subst x'.
  destruct (@get_m_ex s r) as [y Hy]; [rewrite <- L; apply nth_error_Some; congruence|].
  destruct (H' _ _ _ Hy Hy') as [M [G D]].
  pose proof (H _ _ _ Hx Hy) as Hm.
  assert (Hg : r_group x = m_group y) by apply Hm.
  destruct (gname_eqb_spec g (r_group x)) as [E|Ne].
  - eapply rq_match_mimm with (y := y); [|exact M|intros _; reflexivity].
    destruct Hm as (A1 & A2 & A3 & A4 & A5 & A6 & A7). repeat split; auto.
  - eapply rq_match_mimm; [exact Hm|exact M|].
    intros Hd. apply D in Hd. destruct Hd as [Hd|Hd]; [apply Hm; exact Hd|]. congruence.
Qed.

Lemma MIR_kill_all rs s s' :
  MIR rs s -> length (mtasks s') = length (mtasks s) ->
  (forall k y y', get_m s k = Some y -> get_m s' k = Some y' -> mimm y y') ->
  MIR (map req_kill rs) s'.
Proof.
  intros [L H] L' H'. split; [rewrite map_length; congruence|].
  intros r x' y' Hx' Hy'. rewrite nth_error_map in Hx'.
  destruct (nth_error rs r) as [x|] eqn:Hx; [|discriminate]. simpl in Hx'. inversion Hx'; subst x'.
  destruct (@get_m_ex s r) as [y Hy]; [rewrite <- L; apply nth_error_Some; congruence|].
  pose proof (H _ _ _ Hx Hy) as Hm.
  eapply rq_match_mimm with (y := y); [|eapply H'; eauto|intros _; reflexivity].
  destruct Hm as (A1 & A2 & A3 & A4 & A5 & A6 & A7). repeat split; auto.
Qed.

Lemma res_know s g : res (know s g) = res s.
Proof. unfold know. destruct (existsb _ _); reflexivity. Qed.

Lemma MIR_spawned rs s s' (xm : gname -> mtask) (xr : gname -> req) :
  MIR rs s -> spawned s s' xm -> (forall g, rq_match (xr g) (xm g)) ->
  MIR (match res s' with RName n => rs ++ [xr n] | _ => rs end) s'.
Proof.
  intros HM [(g & Hr & Em)|(Hr & Em)] Hx.
  - rewrite Hr. eapply MIR_app; eauto.
  - destruct (res s') eqn:E; try (eapply MIR_eq; eauto). exfalso. eapply Hr; eauto.
Qed.

Theorem MIR_label c s l rs b :
  WFx s -> cfg s = c -> MIR rs s ->
  MIR (lab_reqs c rs b (obs_of (step s l) l (enabled (set_res (set_evs s []) RNone) l))) (step s l).
Proof.
  intros X Hc HM. unfold lab_reqs. cbn [o_enabled o_label o_res obs_of].
  set (sa := set_res (set_evs s []) RNone).
  destruct (enabled sa l) eqn:Hen; cbn [negb].
  2:{ unfold step. fold sa. rewrite Hen. cbn [negb]. eapply MIR_eq; eauto. }
  assert (Hrun : (forall o, l <> LOp o) -> MIR rs (step s l)).
  { intros. eapply MIR_mt_same; [exact HM|]. apply mt_same_step_run; auto. }
  destruct l as [h| |o]; try (apply Hrun; intros; discriminate).
  assert (Hst : step s (LOp o) = do_op sa o) by (unfold step; fold sa; rewrite Hen; reflexivity).
  assert (HMa : MIR rs sa) by (eapply MIR_eq; [|exact HM]; reflexivity).
  rewrite Hst.
  destruct o; try (eapply MIR_mt_same; [exact HMa|apply simple_op_mt_same; reflexivity]).
  - apply (MIR_spawned rs sa _ _ (fun n => mk_req MApply num bad [] 0 w ecb ccb n b) HMa
             (spawned_apply sa num bad noncoro w ecb ccb g)).
    intros n. unfold rq_match; cbn. repeat split; auto; discriminate.
  - apply (MIR_spawned rs sa _ _ (fun n => mk_req (MMap stars) 0 [] els nc default_w ecb ccb n b)
             HMa (spawned_map sa stars els nc noncoro ecb ccb g)).
    intros n. unfold rq_match; cbn. repeat split; auto; discriminate.
  - subst c.
    apply (MIR_spawned rs sa _ _
             (fun n => mk_req MStart num (cf_bad (cfg s)) [] 0 (cf_w (cfg s)) (cf_ecb (cfg s)) (cf_ccb (cfg s)) n b)
             HMa (spawned_start sa num)).
    intros n. unfold rq_match; cbn. repeat split; auto; discriminate.
  - destruct (cancel_group_cases sa g) as [[Hr Hk]|[[e Hr] Em]]; cbv zeta in *.
    + rewrite Hr, res_know. cbn [res sa set_res]. apply (MIR_kill_if rs sa _ g HMa Hk).
    + rewrite Hr. eapply MIR_eq; eauto.
  - destruct (cancel_all_cases sa) as [L H]. cbv zeta in *. apply (MIR_kill_all rs sa _ HMa L H).
Qed.
