(** Progress — the key lemma: every enabled internal label strictly decreases the measure (and
    preserves the number of drivers and the unlock taint).  Of the invariant only the clauses of
    [I5] about the current task are used: at a user point the current task exists and its program
    counter is a user point. *)
From TP Require Import PInv.
From TP Require Export PProgress_d.

Unset Implicit Arguments.

Lemma step_decr_D s l :
  I5 s -> enabled s l = true -> internal l = true ->
  frv (step s l) = frv s /\ muD (Dn s) (step s l) < muD (Dn s) s.
Proof.
  intros W Hen Hint. unfold step.
  set (s1 := set_res (set_evs s []) RNone).
  assert (E1 : enabled s1 l = true) by (destruct l; exact Hen).
  rewrite E1. cbn [negb].
  assert (M1 : muD (Dn s) s1 = muD (Dn s) s) by reflexivity.
  assert (F1 : frv s1 = frv s) by reflexivity.
  destruct l as [h| |o]; [| |discriminate].
  - (* LRun h *)
    assert (Hr : is_ready s1 h = true).
    { cbn in Hen. destruct (ctl s); [exact Hen|discriminate]. }
    pose proof (mu_unsched (Dn s) s1 h Hr) as H1.
    assert (F2 : frv (unsched s1 h) = frv s) by reflexivity.
    assert (HD : Dn (unsched s1 h) <= Dn s) by (rewrite (frv_Dn _ _ F2); lia).
    destruct h as [[t|m|d]|d c]; cbn [run_handle].
    + split; [rewrite frv_run_p; exact F2|].
      pose proof (mu_run_p (Dn s) (unsched s1 (HT (TP t))) t HD). lia.
    + split; [rewrite frv_run_m; exact F2|].
      pose proof (mu_run_m (Dn s) (unsched s1 (HT (TM m))) m HD). lia.
    + split; [rewrite frv_run_d; exact F2|].
      pose proof (mu_run_d (Dn s) (unsched s1 (HT (TD d))) d). lia.
    + split; [rewrite frv_run_g; exact F2|].
      pose proof (mu_run_g (Dn s) (unsched s1 (HG d c)) d c). lia.
  - (* LGo *)
    change (ctl s1) with (ctl s).
    destruct (ctl s) as [|[t|m|d]] eqn:C.
    + cbn in Hen. rewrite C in Hen. discriminate.
    + pose proof (I5_ctl_p _ W t C) as Hlt.
      destruct (get_p s t) as [x|] eqn:G.
      2:{ apply nth_error_None in G. lia. }
      assert (U : p_user (p_pc x) = true) by (apply (I5_puser _ W t x G); exact C).
      split; [rewrite frv_continue_p; exact F1|].
      pose proof (mu_continue_p (Dn s) s1 t x G U (le_n _)). lia.
    + pose proof (I5_ctl_m _ W m C) as Hlt.
      destruct (get_m s m) as [x|] eqn:G.
      2:{ apply nth_error_None in G. lia. }
      assert (U : m_pc x = MAtIter) by (apply (I5_muser _ W m x G); exact C).
      split; [rewrite frv_continue_m; exact F1|].
      pose proof (mu_continue_m (Dn s) s1 m x G U (le_n _)). lia.
    + exfalso. exact (I5_ctl_d _ W d C).
Qed.

(** The key lemma. *)
Lemma step_decr s l :
  I5 s -> enabled s l = true -> internal l = true -> mu (step s l) < mu s.
Proof.
  intros W Hen Hint. destruct (step_decr_D s l W Hen Hint) as [F H].
  unfold mu. rewrite (frv_Dn _ _ F). exact H.
Qed.

Lemma step_internal_clean s l :
  I5 s -> enabled s l = true -> internal l = true -> clean s -> clean (step s l).
Proof.
  intros W Hen Hint Hc. destruct (step_decr_D s l W Hen Hint) as [F _].
  unfold clean. rewrite (frv_tu _ _ F). exact Hc.
Qed.
