(** Monitor soundness for C02 / C03 — the tracker side. *)
From TP Require Import PMon PMonSound_trk PMonSound2_def.

(** ** clause filters *)
Definition is_p2 (cl : clause) : bool := Nat.eqb (clause_prop cl) 2.
Definition is_p3 (cl : clause) : bool := Nat.eqb (clause_prop cl) 3.
Definition is_cls (cl : clause) : bool :=
  match cl with C03_cancel_counts | C03_end_counts => true | _ => false end.
(** property 3 without the two class clauses *)
Definition is_p3' (cl : clause) : bool := is_p3 cl && negb (is_cls cl).

Definition NCf (f : clause -> bool) (l : list clause) : Prop := forall cl, In cl l -> f cl = false.

Lemma NCf_nil f : NCf f [].
Proof. intros cl []. Qed.

Lemma NCf_app f a b : NCf f a -> NCf f b -> NCf f (a ++ b).
Proof. intros Ha Hb cl H. apply in_app_iff in H. destruct H; auto. Qed.

Lemma NCf_fails f b c : (f c = true -> b = true) -> NCf f (fails b c).
Proof.
  intros H cl Hin. unfold fails in Hin. destruct b; [destruct Hin|].
  destruct Hin as [<-|[]]. destruct (f c); auto. discriminate (H eq_refl).
Qed.

Lemma NCf_one f c : f c = false -> NCf f [c].
Proof. intros H cl [<-|[]]. exact H. Qed.

Lemma NCf_filter_sub f g l : NCf f l -> NCf f (filter g l).
Proof. intros H cl Hin. apply filter_In in Hin. apply H. tauto. Qed.

Lemma NCf_flat_map {A} f (g : A -> list clause) l : (forall a, NCf f (g a)) -> NCf f (flat_map g l).
Proof.
  intros H. induction l as [|a l IH]; simpl; [apply NCf_nil|]. apply NCf_app; auto.
Qed.

Lemma NCf_filter_nil f l : NCf f l -> filter f l = [].
Proof.
  induction l as [|c l IH]; simpl; intros H; auto.
  rewrite (H c) by (left; auto). apply IH. intros cl Hc. apply H. right; auto.
Qed.

Lemma filter_nil_NCf f l : filter f l = [] -> NCf f l.
Proof.
  induction l as [|c l IH]; simpl; intros H cl Hin; [destruct Hin|].
  destruct (f c) eqn:Hc; [discriminate|]. destruct Hin as [<-|Hin]; [exact Hc|].
  apply IH; auto.
Qed.

(** discharge [NCf f l] when no clause of [l] is selected by [f] syntactically *)
Ltac ncf :=
  repeat first
    [ apply NCf_nil
    | apply NCf_app
    | apply NCf_fails; intros Hf; discriminate Hf
    | apply NCf_one; reflexivity
    | apply NCf_filter_sub ].

(** ** one event *)
Lemma map_upd_same {A B} (f : A -> B) l n x y :
  nth_error l n = Some x -> f y = f x -> map f (upd l n y) = map f l.
Proof.
  revert n. induction l as [|a l IH]; intros [|n]; simpl; intros H Hf; try discriminate.
  - injection H as ->. congruence.
  - f_equal. apply IH; auto.
Qed.

Definition same_rest (k k' : trk) : Prop :=
  map imm_req (k_reqs k') = map imm_req (k_reqs k) /\ k_target k' = k_target k /\
  k_prev k' = k_prev k.

Lemma same_rest_refl k : same_rest k k.
Proof. unfold same_rest. auto. Qed.

Lemma same_rest_trans a b c : same_rest a b -> same_rest b c -> same_rest a c.
Proof. unfold same_rest. intros (A1 & A2 & A3) (B1 & B2 & B3). repeat split; congruence. Qed.

Ltac sr := split; [reflexivity|unfold same_rest; cbn; auto].

Lemma on_event_aview k o e :
  aview_of (fst (on_event k o e)) = avev (length (k_reqs k)) (aview_of k) e /\
  same_rest k (fst (on_event k o e)).
Proof.
  destruct e as [t r el|t|t|kd t cl|kd t raised|kd t|r n|d oc]; unfold on_event, aview_of, avev.
  - pose proof (nth_error_ltb (k_reqs k) r) as Hl.
    destruct (nth_error (k_reqs k) r) as [x|] eqn:Hx; rewrite Hl; cbn.
    + split; [reflexivity|]. unfold same_rest; cbn. split; [|auto].
      eapply map_upd_same; eauto.
    + sr.
  - cbn. sr.
  - cbn. sr.
  - destruct kd; cbn; sr.
  - destruct kd; cbn; sr.
  - cbn. sr.
  - destruct (nth_error (k_reqs k) r) as [x|] eqn:Hx; cbn.
    + split; [reflexivity|]. unfold same_rest; cbn. split; [|auto].
      eapply map_upd_same; eauto.
    + sr.
  - destruct (nth_error (k_drvs k) d) as [v|]; cbn; [|sr].
    destruct (v_kind v); destruct oc; cbn;
      try (destruct (k_prev k) as [p|]; cbn); sr.
Qed.

(** the tracker's request lookup, in terms of the immutable parts *)
Lemma nth_imm k r :
  nth_error (map imm_req (k_reqs k)) r = option_map imm_req (nth_error (k_reqs k) r).
Proof. apply nth_error_map. Qed.

Lemma on_event_p2 k o e : chk2 (aview_of k) e = true -> NCf is_p2 (snd (on_event k o e)).
Proof.
  intros H.
  destruct e as [t r el|t|t|kd t cl|kd t raised|kd t|r n|d oc]; unfold on_event.
  - destruct (nth_error (k_reqs k) r) as [x|]; cbn [snd]; [|ncf].
    destruct (is_map_kind (r_kind x)); ncf.
  - cbn [snd]. ncf.
  - cbn [snd]. ncf.
  - destruct kd; cbn [snd]; ncf.
    apply NCf_fails. intros _. exact H.
  - cbn [snd]. ncf.
  - cbn [snd]. ncf.
  - destruct (nth_error (k_reqs k) r) as [x|]; cbn [snd]; ncf.
  - destruct (nth_error (k_drvs k) d) as [v|]; cbn [snd]; [|ncf].
    destruct (v_kind v); destruct oc; cbn [snd]; try (destruct (k_prev k) as [p|]; cbn [snd]); ncf.
Qed.

Lemma on_event_p3 k o e :
  chk3 (map imm_req (k_reqs k)) (k_target k) (aview_of k) e = true ->
  NCf is_p3' (snd (on_event k o e)).
Proof.
  intros H.
  destruct e as [t r el|t|t|kd t cl|kd t raised|kd t|r n|d oc]; unfold on_event.
  - destruct (nth_error (k_reqs k) r) as [x|]; cbn [snd]; [|ncf].
    destruct (is_map_kind (r_kind x)); ncf.
  - cbn [snd]. ncf.
  - cbn [snd]. ncf.
  - destruct kd; cbn [snd]; simpl chk3 in H; cbn [a_ccb a_ecb a_live a_task a_cancelled a_cbs a_ccd aview_of] in H;
      rewrite !andb_true_iff in H.
    + (* KEnd *)
      destruct H as [[[H1 H2] H3] H4].
      ncf.
      * apply NCf_fails. intros _. exact H1.
      * apply NCf_fails. intros _. exact H2.
      * apply NCf_fails. intros _. exact H3.
      * apply NCf_fails. intros _.
        unfold req_of. destruct (assoc t (k_task k)) as [[r el]|]; [|exact H4].
        rewrite nth_imm in H4. destruct (nth_error (k_reqs k) r) as [x|]; [|exact H4].
        exact H4.
    + (* KCancel *)
      destruct H as [[[H1 H2] H3] H4].
      ncf.
      * apply NCf_fails. intros _. exact H1.
      * apply NCf_fails. intros _. exact H2.
      * apply NCf_fails. intros _. exact H3.
      * apply NCf_fails. intros _.
        unfold req_of. destruct (assoc t (k_task k)) as [[r el]|]; [|exact H4].
        rewrite nth_imm in H4. destruct (nth_error (k_reqs k) r) as [x|]; exact H4.
  - cbn [snd]. ncf.
  - discriminate H.
  - destruct (nth_error (k_reqs k) r) as [x|]; cbn [snd]; ncf.
  - destruct (nth_error (k_drvs k) d) as [v|]; cbn [snd]; [|ncf].
    destruct (v_kind v); destruct oc; cbn [snd]; try (destruct (k_prev k) as [p|]; cbn [snd]); ncf.
Qed.

Definition class_ok (e : event) : Prop :=
  match e with
  | EvCbBegin KCancel _ cl => cl = ClCancelled
  | EvCbBegin KEnd _ cl => cl = ClEnded
  | _ => True
  end.

Lemma on_event_cls k o e : class_ok e -> NCf is_cls (snd (on_event k o e)).
Proof.
  intros H.
  destruct e as [t r el|t|t|kd t cl|kd t raised|kd t|r n|d oc]; unfold on_event.
  - destruct (nth_error (k_reqs k) r) as [x|]; cbn [snd]; [|ncf].
    destruct (is_map_kind (r_kind x)); ncf.
  - cbn [snd]. ncf.
  - cbn [snd]. ncf.
  - destruct kd; cbn [snd]; simpl in H; subst cl; ncf.
  - cbn [snd]. ncf.
  - cbn [snd]. ncf.
  - destruct (nth_error (k_reqs k) r) as [x|]; cbn [snd]; ncf.
  - destruct (nth_error (k_drvs k) d) as [v|]; cbn [snd]; [|ncf].
    destruct (v_kind v); destruct oc; cbn [snd]; try (destruct (k_prev k) as [p|]; cbn [snd]); ncf.
Qed.

(** ** all events of an observation *)
Lemma imm_length k k' : same_rest k k' -> length (k_reqs k') = length (k_reqs k).
Proof.
  intros (H & _). rewrite <- (map_length imm_req (k_reqs k')), H. apply map_length.
Qed.

Lemma on_events_sound es : forall k o,
  let RI := map imm_req (k_reqs k) in
  let r := avrun RI (k_target k) es (aview_of k) in
  aview_of (fst (on_events k o es)) = fst (fst r) /\
  same_rest k (fst (on_events k o es)) /\
  (snd (fst r) = true -> NCf is_p2 (snd (on_events k o es))) /\
  (snd r = true -> NCf is_p3' (snd (on_events k o es))) /\
  (Forall class_ok es -> NCf is_cls (snd (on_events k o es))).
Proof.
  induction es as [|e es IH]; intros k o; cbv zeta.
  - simpl. split; [reflexivity|]. split; [apply same_rest_refl|].
    repeat split; intros; apply NCf_nil.
  - simpl on_events. simpl avrun.
    pose proof (on_event_aview k o e) as [A1 A2].
    pose proof (on_event_p2 k o e) as A3. pose proof (on_event_p3 k o e) as A4.
    pose proof (on_event_cls k o e) as A5.
    destruct (on_event k o e) as [k1 c1]. simpl fst in *. simpl snd in *.
    specialize (IH k1 o). cbv zeta in IH. destruct IH as (B1 & B2 & B3 & B4 & B5).
    destruct (on_events k1 o es) as [k2 c2]. simpl fst in *. simpl snd in *.
    destruct A2 as (A21 & A22 & A23).
    rewrite A21, A22, A1 in *. rewrite map_length in *.
    destruct (avrun (map imm_req (k_reqs k)) (k_target k) es
                    (avev (length (k_reqs k)) (aview_of k) e)) as [[V' a] b].
    simpl fst in *. simpl snd in *.
    split; [exact B1|]. split.
    { eapply same_rest_trans; [|exact B2]. unfold same_rest. auto. }
    split; [|split].
    + intros H. apply andb_true_iff in H. destruct H as [H1 H2]. apply NCf_app; auto.
    + intros H. apply andb_true_iff in H. destruct H as [H1 H2]. apply NCf_app; auto.
    + intros H. inversion H; subst. apply NCf_app; auto.
Qed.
