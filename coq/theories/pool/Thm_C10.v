(** C10 — Groups partition the tasks; names are unique.  Property theorem only.  (Freshness of
    generated names: a request whose name is live is rejected, C09_op.c09_dup, and do_op re-checks
    the generated name the same way.) *)
From TP Require Import PSpec PRun PWF PProps_B PExamples.

Theorem C10 : forall c tr, clean (run c tr) -> C10_spec (run c tr).
Proof. intros c tr Hc. apply C10_of_WF. apply WF_run. exact Hc. Qed.

Example C10_example :
  let s := run cfg2 tr_cancel in clean s /\ groups s = [(GGen 0 0, [0; 1; 2])].
Proof. vm_compute. repeat split; reflexivity. Qed.

(** Monitor soundness: the extracted monitor for C10 (all four clauses) never rejects a stream of the model. *)
From TP Require PMonSound10_C10 PObs PMon.
Theorem mon_sound : forall c tr, clean (run c tr) -> PMon.ok_C10 c (PObs.observe c tr) = true.
Proof. exact PMonSound10_C10.mon_C10_sound. Qed.

Print Assumptions C10.
Print Assumptions mon_sound.
