(** Similarity of states w.r.t. the fields read by IR / IGr; transfer lemmas. *)
From TP Require Export PInv_Q_frame.
Set Implicit Arguments. Unset Strict Implicit.

Definition pimm (x x' : ptask) : Prop :=
  p_req x' = p_req x /\ p_el x' = p_el x /\ p_group x' = p_group x /\ p_w x' = p_w x /\
  p_ecb x' = p_ecb x /\ p_ccb x' = p_ccb x /\ p_ismap x' = p_ismap x.

Definition psim (x x' : ptask) : Prop := pimm x x' /\ p_nrel x' = p_nrel x.

Definition mimm (y y' : mtask) : Prop :=
  m_kind y' = m_kind y /\ m_group y' = m_group y /\ m_num y' = m_num y /\ m_bad y' = m_bad y /\
  m_els y' = m_els y /\ m_w y' = m_w y /\ m_ecb y' = m_ecb y /\ m_ccb y' = m_ccb y /\
  m_nc y' = m_nc y.

Definition mterm (y : mtask) : nat :=
  match m_pc y, m_fw y with MWaitMap, Some FOk => 1 | _, _ => 0 end.

Definition msim (y y' : mtask) : Prop :=
  mimm y y' /\ m_idx y' = m_idx y /\ m_ncreated y' = m_ncreated y /\ m_final y' = m_final y /\
  m_mapval y' = m_mapval y /\ m_holds y' = m_holds y /\ mterm y' = mterm y /\
  (m_dead y = true -> m_dead y' = true).

Lemma pimm_refl x : pimm x x. Proof. unfold pimm; tauto. Qed.
Lemma psim_refl x : psim x x. Proof. split; auto using pimm_refl. Qed.
Lemma mimm_refl y : mimm y y. Proof. unfold mimm; tauto. Qed.
Lemma msim_refl y : msim y y. Proof. unfold msim; auto 10 using mimm_refl. Qed.

Lemma pimm_trans x y z : pimm x y -> pimm y z -> pimm x z.
Proof. unfold pimm; intuition congruence. Qed.
Lemma psim_trans x y z : psim x y -> psim y z -> psim x z.
Proof. unfold psim; intros [A B] [C D]; split; [eapply pimm_trans; eauto|congruence]. Qed.
Lemma mimm_trans x y z : mimm x y -> mimm y z -> mimm x z.
Proof. unfold mimm; intuition congruence. Qed.
Lemma msim_trans x y z : msim x y -> msim y z -> msim x z.
Proof.
  unfold msim; intros [A B] [C D]; split; [eapply mimm_trans; eauto|].
  intuition congruence.
Qed.

Record ssim (s s' : state) : Prop := {
  ss_p : Forall2 psim (ptasks s) (ptasks s');
  ss_m : Forall2 msim (mtasks s) (mtasks s');
  ss_g : groups s' = groups s;
  ss_n : num_started s' = num_started s;
  ss_t : taint_iter s = true -> taint_iter s' = true
}.

Lemma ssim_refl s : ssim s s.
Proof.
  constructor; auto; apply Forall2_refl; auto using psim_refl, msim_refl.
Qed.

Lemma ssim_trans s1 s2 s3 : ssim s1 s2 -> ssim s2 s3 -> ssim s1 s3.
Proof.
  intros [] []; constructor; try congruence; auto.
  - eapply Forall2_trans; eauto using psim_trans.
  - eapply Forall2_trans; eauto using msim_trans.
Qed.

Lemma ssim_get_p s s' t x' :
  ssim s s' -> get_p s' t = Some x' -> exists x, get_p s t = Some x /\ psim x x'.
Proof. intros [] H. eapply Forall2_nth_r; eauto. Qed.

Lemma ssim_get_m s s' m y' :
  ssim s s' -> get_m s' m = Some y' -> exists y, get_m s m = Some y /\ msim y y'.
Proof. intros [] H. eapply Forall2_nth_r; eauto. Qed.

Lemma ssim_get_m_l s s' m y :
  ssim s s' -> get_m s m = Some y -> exists y', get_m s' m = Some y' /\ msim y y'.
Proof. intros [] H. eapply Forall2_nth_l; eauto. Qed.

Lemma ssim_tasks_of s s' m : ssim s s' -> tasks_of s' m = tasks_of s m.
Proof.
  intros []. unfold tasks_of. symmetry. eapply count_Forall2; eauto.
  intros x y [[E _] _]. simpl. rewrite E. auto.
Qed.

Lemma ssim_unreleased_of s s' m : ssim s s' -> unreleased_of s' m = unreleased_of s m.
Proof.
  intros []. unfold unreleased_of. symmetry. eapply count_Forall2; eauto.
  intros x y [[E _] F]. simpl. rewrite E, F. auto.
Qed.

Lemma is_map_imm y y' : mimm y y' -> is_map y' = is_map y.
Proof. intros [E _]. unfold is_map. rewrite E. auto. Qed.

Lemma matches_transfer x x' y y' :
  pimm x x' -> mimm y y' -> m_idx y <= m_idx y' ->
  task_matches_req x y -> task_matches_req x' y'.
Proof.
  intros [P1 [P2 [P3 [P4 [P5 [P6 P7]]]]]] Hm Hi [A [B [C [D E]]]].
  pose proof (is_map_imm Hm) as Him.
  destruct Hm as [M1 [M2 [M3 [M4 [M5 [M6 [M7 [M8 M9]]]]]]]].
  unfold task_matches_req. rewrite P5, P6, P7, P2, P4, M7, M8, Him, M1, M5, M6, M4, M3.
  repeat split; auto; try lia.
Qed.

Lemma mapsem_transfer s s' m y y' :
  msim y y' -> unreleased_of s' m = unreleased_of s m -> mapsem_ok s m y -> mapsem_ok s' m y'.
Proof.
  intros [[M1 [M2 [M3 [M4 [M5 [M6 [M7 [M8 M9]]]]]]]] [I [N [F [V [H [T D]]]]]]] U.
  unfold mapsem_ok. unfold mterm in T. rewrite M1, V, H, U, M9, T. auto.
Qed.

Lemma final_transfer s s' y y' :
  msim y y' -> (taint_iter s = true -> taint_iter s' = true) ->
  req_final_ok s y -> req_final_ok s' y'.
Proof.
  intros [[M1 [M2 [M3 [M4 [M5 [M6 [M7 [M8 M9]]]]]]]] [I [N [F [V [H [T D]]]]]]] Ht.
  unfold req_final_ok. rewrite F, M1, I, M5, M3.
  destruct (m_final y) as [[| |]|]; auto; intuition.
Qed.

Lemma progress_transfer s s' m y y' :
  mimm y y' -> m_idx y' = m_idx y -> m_ncreated y' = m_ncreated y ->
  req_progress s m y -> req_progress s' m y'.
Proof.
  intros [M1 [M2 [M3 [M4 [M5 [M6 [M7 [M8 M9]]]]]]]] I N.
  unfold req_progress. rewrite M1, I, N, M5, M3, M4. auto.
Qed.

Lemma ssim_IR s s' : ssim s s' -> IR s -> IR s'.
Proof.
  intros Hs [R1 R2 R3 R4 R5 R6]. constructor.
  - intros t x' Hx'. destruct (ssim_get_p Hs Hx') as [x [Hx Px]].
    destruct (R1 _ _ Hx) as [y [Hy My]].
    destruct (ssim_get_m_l Hs Hy) as [y' [Hy' Sy]].
    exists y'. destruct Px as [Px Pn]. pose proof Px as [E _]. rewrite E. split; auto.
    destruct Sy as [Sy [Si _]].
    eapply matches_transfer; eauto. lia.
  - intros t u x y Hx Hy E1 E2.
    destruct (ssim_get_p Hs Hx) as [x0 [Hx0 [[A1 [A2 _]] _]]].
    destruct (ssim_get_p Hs Hy) as [y0 [Hy0 [[B1 [B2 _]] _]]].
    eapply R2; eauto; congruence.
  - intros m y' Hy'. destruct (ssim_get_m Hs Hy') as [y [Hy Sy]].
    rewrite (ssim_tasks_of m Hs). rewrite <- (R3 _ _ Hy). apply Sy.
  - intros m y' Hy'. destruct (ssim_get_m Hs Hy') as [y [Hy Sy]].
    eapply progress_transfer; try apply Sy; eauto.
  - intros m y' Hy'. destruct (ssim_get_m Hs Hy') as [y [Hy Sy]].
    eapply final_transfer; [exact Sy | exact (ss_t Hs) | eauto].
  - intros m y' Hy'. destruct (ssim_get_m Hs Hy') as [y [Hy Sy]].
    eapply mapsem_transfer; [exact Sy | apply ssim_unreleased_of; exact Hs | eauto].
Qed.

Lemma ssim_IGr s s' : ssim s s' -> IGr s -> IGr s'.
Proof.
  intros Hs [G1 G2 G3 G4 G5 G6]. pose proof (ss_g Hs) as Eg. pose proof (ss_n Hs) as En.
  constructor; rewrite ?Eg, ?En; auto.
  - intros g ids t x' Hl Hi Hx'. destruct (ssim_get_p Hs Hx') as [x [Hx [[_ [_ [E _]]] _]]].
    rewrite E. eapply G4; eauto.
  - intros t x' y' Hx' Hy' Hd.
    destruct (ssim_get_p Hs Hx') as [x [Hx [[E1 [_ [E3 _]]] _]]].
    rewrite E1 in Hy'. destruct (ssim_get_m Hs Hy') as [y [Hy [[_ [M2 _]] [_ [_ [_ [_ [_ [_ D]]]]]]]]].
    rewrite E3, M2. apply G5; auto. destruct (m_dead y); auto. rewrite D in Hd; auto.
  - intros m y' Hy' Hf Hd.
    destruct (ssim_get_m Hs Hy') as [y [Hy [[_ [M2 _]] [_ [_ [F [_ [_ [_ D]]]]]]]]].
    rewrite M2. eapply G6; eauto; try congruence.
    destruct (m_dead y); auto. rewrite D in Hd; auto.
Qed.
