(** Monitor soundness for C14 — the tracker side: the clauses of property 14 produced by one
    monitor step are exactly those of the label part for stop / stop_all. *)
From TP Require Import PMon PMonSound_trk PMonSound_gen.

(** the C14 part of [on_label] *)
Definition lcl14 (k : trk) (o : obs) : list clause :=
  if negb (o_enabled o) then [] else
  let first := match k_prev k with None => true | Some _ => false end in
  let p := prev_or k o in
  match o_label o with
  | LOp (OpStop n) =>
      match o_res o with
      | RIds ids =>
          let want := match n with Some v => Nat.min v (o_nr p) | None => 0 end in
          fails (first || Nat.eqb (length ids) want) C14_count
          ++ fails (decreasing ids) C14_lifo
          ++ fails (forallb (fun t => mem t ids ||
                               forallb (fun i => Nat.ltb t i) ids) (k_live k))
                   C14_most_recent
      | _ => [C14_count]
      end
  | LOp OpStopAll =>
      match o_res o with
      | RIds ids =>
          fails (first || Nat.eqb (length ids) (o_nr p)) C14_count
          ++ fails (decreasing ids) C14_lifo
          ++ fails (forallb (fun t => mem t ids) (k_live k)) C14_most_recent
      | _ => [C14_count]
      end
  | _ => []
  end.

Lemma on_spawn_NC14 k o first noncoro nc_bad g meth mk :
  NCp 14 (snd (on_spawn k o first noncoro nc_bad g meth mk)).
Proof. apply on_spawn_NCp; discriminate. Qed.

Lemma on_label_14 c k o : fp 14 (snd (on_label c k o)) = lcl14 k o.
Proof.
  unfold on_label, lcl14. destruct (negb (o_enabled o)); [reflexivity|]. cbv zeta.
  destruct (o_label o) as [h| |op]; try reflexivity.
  destruct op.
  - apply NCp_fp, on_spawn_NC14.
  - apply NCp_fp, on_spawn_NC14.
  - match goal with |- context [on_spawn ?a ?b ?c ?d ?e ?f ?g ?h] =>
      pose proof (on_spawn_NC14 a b c d e f g h) as B;
      destruct (on_spawn a b c d e f g h) as [k1 cs] end.
    cbn [fst snd] in B. destruct (o_res o); cbn [fst snd]; try (apply NCp_fp; exact B).
    apply NCp_fp. ncp. exact B.
  - destruct (o_res o); cbn [fst snd]; apply NCp_fp; ncp.
  - destruct (o_res o); cbn [fst snd]; apply NCp_fp; ncp.
  - cbn [fst snd]. apply NCp_fp. ncp.
  - destruct (o_res o); cbn [fst snd]; try reflexivity.
    rewrite !fp_app, !fp_fails by reflexivity. reflexivity.
  - destruct (o_res o); cbn [fst snd]; try reflexivity.
    rewrite !fp_app, !fp_fails by reflexivity. reflexivity.
  - cbn [fst snd]. apply NCp_fp. ncp.
  - cbn [fst snd]. apply NCp_fp. ncp.
  - destruct v; cbn [fst snd]; apply NCp_fp; ncp.
  - cbn [fst snd]. apply NCp_fp. ncp.
  - destruct k0; cbn [fst snd]; reflexivity.
  - destruct h; cbn [fst snd]; reflexivity.
  - reflexivity.
Qed.

(** ** events and state clauses produce no clause of property 14 *)
Lemma NC14_on_event k o e : NCp 14 (snd (on_event k o e)).
Proof.
  destruct e as [t r el|t|t|kd t cl|kd t raised|kd t|r n|d oc]; unfold on_event.
  - destruct (nth_error (k_reqs k) r) as [x|]; cbn [snd]; [|ncp].
    destruct (is_map_kind (r_kind x)); ncp.
  - cbn [snd]. ncp.
  - cbn [snd]. ncp.
  - destruct kd; cbn [snd]; ncp.
  - cbn [snd]. ncp.
  - cbn [snd]. ncp.
  - destruct (nth_error (k_reqs k) r) as [x|]; cbn [snd]; ncp.
  - destruct (nth_error (k_drvs k) d) as [v|]; cbn [snd]; [|ncp].
    destruct (v_kind v); destruct oc; cbn [snd]; try (destruct (k_prev k) as [p|]; cbn [snd]); ncp.
Qed.

Lemma NC14_on_events es : forall k o, NCp 14 (snd (on_events k o es)).
Proof.
  induction es as [|e es IH]; intros k o; simpl; [apply NCp_nil|].
  pose proof (NC14_on_event k o e) as H1. destruct (on_event k o e) as [k1 c1].
  pose proof (IH k1 o) as H2. destruct (on_events k1 o es) as [k2 c2].
  simpl in *. apply NCp_app; auto.
Qed.

Lemma NC14_state_clauses c k o : NCp 14 (state_clauses c k o).
Proof.
  unfold state_clauses. cbv zeta. ncp.
  - destruct (negb (k_setsize k)); ncp.
  - apply NCp_flat_map. intros [r x]. destruct (r_kind x); ncp;
      try (destruct (group_ids o (r_group x)); ncp; destruct (r_dead x); ncp).
  - destruct (k_setsize k); ncp.
Qed.

(** ** one monitor step, as far as property 14 is concerned *)
Lemma mon_step_14 c k o : fp 14 (snd (mon_step c k o)) = lcl14 k o.
Proof.
  unfold mon_step.
  pose proof (on_label_14 c k o) as L1.
  destruct (on_label c k o) as [k1 c1]. simpl snd in L1.
  pose proof (NC14_on_events (o_events o) k1 o) as E1.
  destruct (on_events k1 o (o_events o)) as [k2 c2]. simpl snd in E1.
  cbn [fst snd]. rewrite !fp_app, L1, (NCp_fp 14 c2 E1), (NCp_fp 14 _ (NC14_state_clauses _ _ _)).
  rewrite !app_nil_r. reflexivity.
Qed.
