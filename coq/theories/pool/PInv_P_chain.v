(** Generic preservation along the spawner chain (run_m / continue_m) and the driver chain
    (run_d), for any predicate closed under the relevant primitive steps. *)
From TP Require Import PInv PInv_P_base PInv_P_view.

Definition Qpv (Q : state -> Prop) : Prop := forall s s', pview s' = pview s -> Q s -> Q s'.
Definition Qpc (Q : state -> Prop) : Prop := forall s s', pcore s' = pcore s -> Q s -> Q s'.
Definition Qreg (Q : state -> Prop) : Prop := forall s m x, Q s -> Q (register s m x).

Lemma Qpc_Qpv Q : Qpc Q -> Qpv Q.
Proof. intros H s s' E. apply H. now apply pcore_of_pview. Qed.


  Lemma Q_try_start (Q : state -> Prop) (Hpv : Qpv Q) (Hreg : Qreg Q) s m x : Q s -> Q (fst (try_start s m x)).
  Proof.
    intros H. unfold try_start. destruct (closed s); [|destruct (sem_locked s)]; cbn [fst].
    - eapply Hpv; [apply pv_finish_m|auto].
    - eapply Hpv; [apply pv_suspend_m|]. eapply Hpv; [apply pv_set_sem_waiters|auto].
    - apply Hreg. eapply Hpv; [apply pv_set_sem_value|auto].
  Qed.

  Lemma Q_apply_loop (Q : state -> Prop) (Hpv : Qpv Q) (Hreg : Qreg Q) rem m : forall s, Q s -> Q (apply_loop rem s m).
  Proof.
    induction rem as [|r IH]; intros s H; simpl.
    - destruct (get_m s m); auto. eapply Hpv; [apply pv_finish_m|auto].
    - destruct (get_m s m) as [x|]; auto. destruct (nth (m_idx x) (m_bad x) false).
      + apply IH. eapply Hpv; [apply pv_put_m|auto].
      + pose proof (Q_try_start Q Hpv Hreg s m x H) as H1.
        destruct (try_start s m x) as [s' cont]. cbn [fst] in H1. destruct cont; auto.
  Qed.

  Lemma Q_to_iter (Q : state -> Prop) (Hpv : Qpv Q) (Hreg : Qreg Q) s m : Q s -> Q (to_iter s m).
  Proof. intros H. eapply Hpv; [apply pv_to_iter|auto]. Qed.

  Lemma Q_spawn_next (Q : state -> Prop) (Hpv : Qpv Q) (Hreg : Qreg Q) s m : Q s -> Q (spawn_next s m).
  Proof.
    intros H. unfold spawn_next. destruct (get_m s m) as [x|]; auto.
    destruct (m_kind x); auto using (Q_apply_loop Q Hpv Hreg), (Q_to_iter Q Hpv Hreg).
  Qed.

  Lemma Q_start_then_next (Q : state -> Prop) (Hpv : Qpv Q) (Hreg : Qreg Q) s m x : Q s -> Q (start_then_next s m x).
  Proof.
    intros H. unfold start_then_next. pose proof (Q_try_start Q Hpv Hreg s m x H) as H1.
    destruct (try_start s m x) as [s' cont]. cbn [fst] in H1. destruct cont; auto.
    now apply (Q_spawn_next Q Hpv Hreg).
  Qed.

  Lemma Q_continue_m (Q : state -> Prop) (Hpv : Qpv Q) (Hreg : Qreg Q) s m : Q s -> Q (continue_m s m).
  Proof.
    intros H. unfold continue_m. destruct (get_m s m) as [x|]; auto.
    destruct (m_pc x); auto. destruct (nth_error _ _) as [e|].
    - destruct (e_bad e).
      + apply (Q_to_iter Q Hpv Hreg). eapply Hpv; [apply pv_put_m|auto].
      + destruct (m_mapval x).
        * eapply Hpv; [apply pv_suspend_m|auto].
        * now apply (Q_start_then_next Q Hpv Hreg).
    - eapply Hpv; [apply pv_finish_m|auto].
  Qed.

  Lemma Q_run_m (Q : state -> Prop) (Hpv : Qpv Q) (Hreg : Qreg Q) s m : Q s -> Q (run_m s m).
  Proof.
    intros H. unfold run_m. destruct (get_m s m) as [x0|]; auto.
    destruct (m_pc x0); auto.
    - destruct (task_input _ _).
      + apply (Q_spawn_next Q Hpv Hreg). eapply Hpv; [apply pv_put_m|auto].
      + eapply Hpv; [apply pv_finish_m|auto].
      + eapply Hpv; [apply pv_finish_m|auto].
    - destruct (task_input _ _).
      + now apply (Q_start_then_next Q Hpv Hreg).
      + eapply Hpv; [apply pv_finish_m|auto].
      + eapply Hpv; [apply pv_finish_m|auto].
    - assert (H0 : Q (put_m (set_sem_waiters s (remove1 m (sem_waiters s))) m
                            (set_m_mc (set_m_fw x0 None) false))).
      { eapply Hpv; [apply pv_put_m|]. eapply Hpv; [apply pv_set_sem_waiters|auto]. }
      cbv zeta.
      destruct (task_input _ _).
      + apply (Q_spawn_next Q Hpv Hreg). apply Hreg.
        destruct (ninf_pos _); auto. eapply Hpv; [apply pv_wake_next|auto].
      + eapply Hpv; [apply pv_finish_m|].
        destruct (match m_fw x0 with Some FCancelled => true | _ => false end); auto.
        eapply Hpv; [apply pv_sem_release|auto].
      + eapply Hpv; [apply pv_finish_m|].
        destruct (match m_fw x0 with Some FCancelled => true | _ => false end); auto.
        eapply Hpv; [apply pv_sem_release|auto].
  Qed.


(** ** gather: an eager result FOk means every child is done *)
Lemma gather_cb_notpending re n o nfin outer :
  outer <> FPending -> snd (gather_cb re n o nfin outer) = outer.
Proof. destruct outer; cbn; congruence. Qed.

Local Arguments gather_cb : simpl never.

Lemma gather_eager_stuck s cs re n : forall nfin outer cbs,
  outer <> FPending -> snd (fst (gather_eager s cs re n nfin outer cbs)) = outer.
Proof.
  induction cs as [|c t IH]; intros; simpl; auto.
  destruct (tref_final s c); auto.
  pose proof (gather_cb_notpending re n o nfin outer H) as H1.
  destruct (gather_cb re n o nfin outer) as [nfin' outer']. cbn in H1. subst. auto.
Qed.

Lemma gather_cb_pending re n o nfin :
  let r := gather_cb re n o nfin FPending in
  fst r = S nfin /\
  ((exists e, snd r = FExc e) \/ (snd r = FOk /\ S nfin = n) \/ (snd r = FPending /\ S nfin <> n)).
Proof.
  unfold gather_cb. destruct (if re then None else _) as [e|]; cbn [fst snd]; split; auto.
  - left; eauto.
  - destruct (Nat.eqb (S nfin) n) eqn:E; [apply Nat.eqb_eq in E|apply Nat.eqb_neq in E]; auto.
Qed.

Lemma gather_eager_lt s cs re n : forall nfin cbs,
  nfin + length cs < n -> snd (fst (gather_eager s cs re n nfin FPending cbs)) <> FOk.
Proof.
  induction cs as [|c t IH]; intros nfin cbs Hlt; simpl in *; [discriminate|].
  destruct (tref_final s c).
  - destruct (gather_cb_pending re n o nfin) as (h1 & h2).
    destruct (gather_cb re n o nfin FPending) as [nfin' outer']. cbn in h1, h2. subst.
    destruct h2 as [[e ->]|[[-> h]|[-> h]]].
    + rewrite gather_eager_stuck; discriminate.
    + lia.
    + apply IH. lia.
  - apply IH. lia.
Qed.

Lemma gather_eager_ok s cs re n : forall nfin cbs,
  nfin + length cs = n -> snd (fst (gather_eager s cs re n nfin FPending cbs)) = FOk ->
  forall c, In c cs -> tref_final s c <> None.
Proof.
  induction cs as [|c t IH]; intros nfin cbs Heq Hok c' Hin; simpl in *; [tauto|].
  destruct (tref_final s c) eqn:Ec.
  - destruct (gather_cb_pending re n o nfin) as (h1 & h2).
    destruct (gather_cb re n o nfin FPending) as [nfin' outer']. cbn in h1, h2. subst nfin'.
    destruct Hin as [<-|Hin]; [congruence|].
    destruct h2 as [[e ->]|[[-> h]|[-> h]]].
    + rewrite gather_eager_stuck in Hok; discriminate.
    + destruct t; [destruct Hin|simpl in Heq; lia].
    + eapply IH; eauto. lia.
  - exfalso. eapply gather_eager_lt; [|exact Hok]. lia.
Qed.

Lemma make_gather_ok s cs re g :
  make_gather s cs re = (g, FOk) -> forall c, In c cs -> tref_final s c <> None.
Proof.
  unfold make_gather. destruct cs as [|c0 t]; [intros _ c []|].
  intros H. pose proof (gather_eager_ok s (c0 :: t) re (length (c0 :: t)) 0 [] eq_refl) as H1.
  destruct (gather_eager s (c0 :: t) re (length (c0 :: t)) 0 FPending []) as [[nfin outer] cbs].
  injection H as _ ->. apply H1. reflexivity.
Qed.

(** ** The driver chain *)
Definition ag2pre_s (s : state) (x : dtask) (outer : fut) : Prop :=
  (forall e, outer <> FExc e) -> outer <> FCancelled ->
  (forall t, In t (d_snap x) -> exists y, get_p s t = Some y /\ p_final y <> None) /\
  (forall re, d_kind x = DGatherClose re -> forall t, In t (regs s) -> In t (d_snap x)).

Definition Qag2 (Q : state -> Prop) : Prop :=
  forall s d x outer, Q s -> ag2pre_s s x outer -> Q (after_g2 s d x outer).

Lemma pc_ctl_put_d s d x c : pcore (set_ctl (put_d s d x) c) = pcore s.
Proof. reflexivity. Qed.


  Lemma Q_finish_d (Q : state -> Prop) (Hpc : Qpc Q) (Hag2 : Qag2 Q) s d x e : Q s -> Q (finish_d s d x e).
  Proof. intros H. eapply Hpc; [apply pc_finish_d|auto]. Qed.

  Lemma Q_start_g2 (Q : state -> Prop) (Hpc : Qpc Q) (Hag2 : Qag2 Q) s d x cs re :
    Q s -> (forall re', d_kind x = DGatherClose re' -> forall t, In t (regs s) -> In t cs) ->
    Q (start_g2 s d x cs re).
  Proof.
    intros H Hg. unfold start_g2.
    destruct (make_gather s (map TP cs) re) as [g outer] eqn:E.
    destruct outer.
    - eapply Hpc; [apply pc_ctl_put_d|auto].
    - apply Hag2; auto. intros _ _. split.
      + cbn [d_snap set_d_snap]. intros t Ht.
        pose proof (make_gather_ok _ _ _ _ E (TP t) (in_map TP _ _ Ht)) as Hf.
        cbn in Hf. destruct (get_p s t) as [y|]; [eauto|congruence].
      + exact Hg.
    - apply Hag2; auto. intros h _. exfalso. eapply h; reflexivity.
    - apply Hag2; auto. intros _ h. congruence.
  Qed.

  Lemma Q_after_g1 (Q : state -> Prop) (Hpc : Qpc Q) (Hag2 : Qag2 Q) s d x outer : Q s -> Q (after_g1 s d x outer).
  Proof.
    intros H. unfold after_g1. destruct (d_kind x) eqn:Ek.
    - assert (Hgo : Q (start_g2 (set_meta_cancelled s []) d x
                         (dict_merge (t_ended (set_meta_cancelled s []))
                                     (t_cancelled (set_meta_cancelled s []))) re)).
      { apply (Q_start_g2 Q Hpc Hag2).
        - eapply Hpc; [apply pcore_of_pview, pv_set_meta_cancelled|auto].
        - intros re'. rewrite Ek. discriminate. }
      destruct outer as [| |e|]; auto. destruct e; auto using (Q_finish_d Q Hpc Hag2).
    - destruct (if re then None else _); [now apply (Q_finish_d Q Hpc Hag2)|].
      apply (Q_start_g2 Q Hpc Hag2).
      + eapply Hpc; [|exact H]. reflexivity.
      + intros _ _ t. unfold regs. cbn. rewrite !in_app_iff. tauto.
    - now apply (Q_finish_d Q Hpc Hag2).
  Qed.

  Lemma Q_start_g1 (Q : state -> Prop) (Hpc : Qpc Q) (Hag2 : Qag2 Q) s d x cs re : Q s -> Q (start_g1 s d x cs re).
  Proof.
    intros H. unfold start_g1. destruct (make_gather s (map TM cs) re) as [g outer].
    destruct outer; try (now apply (Q_after_g1 Q Hpc Hag2)).
    eapply Hpc; [apply pc_ctl_put_d|auto].
  Qed.

  Lemma Q_run_d (Q : state -> Prop) (Hpc : Qpc Q) (Hag2 : Qag2 Q) s d :
    Q s ->
    (forall x0, get_d s d = Some x0 -> d_pc x0 = DWaitG2 ->
                Q (after_g2 s d (set_d_fw x0 None)
                            (match d_fw x0 with Some f => f | None => FOk end))) ->
    Q (run_d s d).
  Proof.
    intros H Hp. unfold run_d. destruct (get_d s d) as [x0|] eqn:Ex; auto.
    destruct (d_pc x0) eqn:Epc; auto.
    - destruct (d_kind (set_d_fw x0 None)).
      + destruct (pop_ended s (gmeta s)) as [gm ended]. apply (Q_start_g1 Q Hpc Hag2).
        eapply Hpc; [|exact H]. reflexivity.
      + apply (Q_start_g1 Q Hpc Hag2). eapply Hpc; [|exact H]. reflexivity.
      + destruct (closed s); [now apply (Q_finish_d Q Hpc Hag2)|].
        eapply Hpc; [|exact H]. reflexivity.
    - now apply (Q_after_g1 Q Hpc Hag2).
    - apply (Q_finish_d Q Hpc Hag2). eapply Hpc; [|exact H]. reflexivity.
  Qed.

