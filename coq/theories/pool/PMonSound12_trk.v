(** Monitor soundness, C12 — tracker side (pure facts about PMon.v): how [k_raised] evolves,
    and which clauses of property 12 one monitor step can produce. *)
From TP Require Import PMon PMonSound_trk PMonSound_gen PMonSound_C45_trk PMonSound_C13_trk.

(** ** [k_raised] under [on_label] *)
Definition lab_raised (R : list (nat * site)) (o : obs) : list (nat * site) :=
  if negb (o_enabled o) then R else
  match o_label o with
  | LOp (OpFinish t FinRaise) => (t, SWorker) :: R
  | _ => R
  end.

Lemma on_label_raised c k o : k_raised (fst (on_label c k o)) = lab_raised (k_raised k) o.
Proof.
  unfold on_label, lab_raised. destruct (negb (o_enabled o)); [reflexivity|].
  destruct (o_label o) as [h| |op]; try reflexivity.
  destruct op; try reflexivity;
    try (unfold on_spawn; destruct (o_res o); reflexivity).
  - destruct v; reflexivity.
  - destruct k0; reflexivity.
  - destruct h; reflexivity.
Qed.

Lemma lab_raised_incl R o p : In p R -> In p (lab_raised R o).
Proof.
  unfold lab_raised. destruct (negb (o_enabled o)); auto.
  destruct (o_label o) as [h| |op]; auto. destruct op; auto. destruct h; auto. right; auto.
Qed.

(** ** [k_raised] under [on_events] *)
Definition rz_ev (R : list (nat * site)) (e : event) : list (nat * site) :=
  match e with
  | EvCbEnd kd t true => (t, site_of kd) :: R
  | _ => R
  end.

Lemma on_event_raised k o e : k_raised (fst (on_event k o e)) = rz_ev (k_raised k) e.
Proof.
  destruct e as [t r el|t|t|kd t cl|kd t raised|kd t|r n|d oc]; unfold on_event, rz_ev;
    try reflexivity.
  - destruct (nth_error (k_reqs k) r) as [x|]; reflexivity.
  - destruct kd; reflexivity.
  - destruct (nth_error (k_reqs k) r) as [x|]; reflexivity.
  - destruct (nth_error (k_drvs k) d) as [v|]; [|reflexivity].
    destruct (v_kind v); destruct oc; try reflexivity;
      destruct (k_prev k) as [p|]; reflexivity.
Qed.

Lemma on_events_raised es : forall k o,
  k_raised (fst (on_events k o es)) = fold_left rz_ev es (k_raised k).
Proof.
  induction es as [|e es IH]; intros k o; simpl; auto.
  pose proof (on_event_raised k o e) as A. destruct (on_event k o e) as [k1 c1]. simpl in A.
  pose proof (IH k1 o) as B. destruct (on_events k1 o es) as [k2 c2]. simpl in *.
  rewrite B, A. reflexivity.
Qed.

Lemma rz_fold_incl es : forall R p, In p R -> In p (fold_left rz_ev es R).
Proof.
  induction es as [|e es IH]; intros R p H; simpl; auto. apply IH.
  destruct e; simpl; auto. destruct raised; simpl; auto.
Qed.

Lemma rz_fold_cbend es : forall R kd t,
  In (EvCbEnd kd t true) es -> In (t, site_of kd) (fold_left rz_ev es R).
Proof.
  induction es as [|e es IH]; intros R kd t H; simpl; [destruct H|].
  destruct H as [->|H]; [|apply IH; exact H].
  apply rz_fold_incl. simpl. left. reflexivity.
Qed.

(** ** [k_raised] under [note_raising_starts] *)
Definition wsel (x : req) (el : nat) : wspec :=
  match r_kind x with
  | MMap _ => match nth_error (r_els x) el with Some e => e_w e | None => r_w x end
  | _ => r_w x
  end.

Definition raises_at_start (k : trk) (t : nat) : bool :=
  match req_of k t with
  | Some (_, el, x) => match w_first (wsel x el) with WRaise => true | _ => false end
  | None => false
  end.

Definition nrs (k : trk) (e : event) : trk :=
  match e with
  | EvStart t _ _ =>
      match req_of k t with
      | Some (_, el, x) =>
          let w := match r_kind x with
                   | MMap _ => match nth_error (r_els x) el with Some e => e_w e | None => r_w x end
                   | _ => r_w x end in
          match w_first w with
          | WRaise => set_k_raised k ((t, SWorker) :: k_raised k)
          | _ => k
          end
      | None => k
      end
  | _ => k
  end.

Lemma note_raising_fold k es : note_raising_starts k es = fold_left nrs es k.
Proof. reflexivity. Qed.

Lemma nrs_req_of k e t : req_of (nrs k e) t = req_of k t.
Proof.
  unfold nrs. destruct e; auto. destruct (req_of k tid) as [[[r0 el0] x0]|]; auto.
  destruct (w_first _); auto.
Qed.

Lemma nrs_ras k e t : raises_at_start (nrs k e) t = raises_at_start k t.
Proof. unfold raises_at_start. rewrite nrs_req_of. reflexivity. Qed.

Lemma nrs_incl k e p : In p (k_raised k) -> In p (k_raised (nrs k e)).
Proof.
  unfold nrs. destruct e; auto. destruct (req_of k tid) as [[[r0 el0] x0]|]; auto.
  destruct (w_first _); auto. intros H. right. exact H.
Qed.

Lemma nrs_fold_incl es : forall k p, In p (k_raised k) -> In p (k_raised (fold_left nrs es k)).
Proof. induction es as [|e es IH]; intros k p H; simpl; auto. apply IH, nrs_incl, H. Qed.

Lemma nrs_fold_start es : forall k t r el,
  In (EvStart t r el) es -> raises_at_start k t = true ->
  In (t, SWorker) (k_raised (fold_left nrs es k)).
Proof.
  induction es as [|e es IH]; intros k t r el H Hr; simpl; [destruct H|].
  destruct H as [->|H].
  - apply nrs_fold_incl. unfold raises_at_start in Hr. unfold nrs, wsel in *.
    destruct (req_of k t) as [[[r0 el0] x0]|]; [|discriminate].
    destruct (w_first _); try discriminate. left. reflexivity.
  - eapply IH; eauto. rewrite nrs_ras. exact Hr.
Qed.

Lemma ras_ext k k' t :
  k_task k' = k_task k -> k_reqs k' = k_reqs k -> raises_at_start k' t = raises_at_start k t.
Proof. intros E1 E2. unfold raises_at_start, req_of. rewrite E1, E2. reflexivity. Qed.

(** ** the clauses of property 12 *)
Definition prov12 (R : list (nat * site)) (oc : outcome) : bool :=
  match oc with
  | OExc (EUser t st) => existsb (fun p => Nat.eqb (fst p) t && site_eqb (snd p) st) R
  | OExc _ => false
  | _ => true
  end.

Definition dcl12 (I : list (dkind * bool * nat)) (R : list (nat * site)) (d : nat) (oc : outcome)
  : list clause :=
  match nth_error I d with
  | None => [C12_provenance]
  | Some (kd, _, _) =>
      fails (prov12 R oc) C12_provenance
      ++ fails (match oc with OCancelled => false | _ => true end) C12_no_cancelled_driver
      ++ match kd with
         | DFlush _ => []
         | DGatherClose re => fails (negb re || isres oc) C12_re_never_raises
         | DUntilClosed => []
         end
  end.

Lemma on_event_12_done k o d oc :
  fp 12 (snd (on_event k o (EvDriverDone d oc))) = dcl12 (dinfo k) (k_raised k) d oc.
Proof.
  unfold on_event, dcl12, dinfo, prov12. rewrite nth_error_map.
  destruct (nth_error (k_drvs k) d) as [v|] eqn:Ev; cbn [option_map fst snd]; [|reflexivity].
  destruct (v_kind v) eqn:Ek; destruct oc; cbn [fst snd isres negb orb];
    try (destruct (k_prev k) as [p|] eqn:Ep; cbn [fst snd]);
    fpsimp; try reflexivity; rewrite ?orb_false_r; reflexivity.
Qed.

Lemma on_event_12_other k o e : is_done e = false -> fp 12 (snd (on_event k o e)) = [].
Proof.
  destruct e as [t r el|t|t|kd t cl|kd t raised|kd t|r n|d oc]; try discriminate; intros _;
    unfold on_event.
  - destruct (nth_error (k_reqs k) r) as [x|]; cbn [fst snd];
      apply NCp_fp; try (destruct (is_map_kind (r_kind x))); ncp.
  - cbn [fst snd]. apply NCp_fp. ncp.
  - cbn [fst snd]. apply NCp_fp. ncp.
  - destruct kd; cbn [fst snd]; apply NCp_fp; ncp.
  - cbn [fst snd]. apply NCp_fp. ncp.
  - cbn [fst snd]. apply NCp_fp. ncp.
  - destruct (nth_error (k_reqs k) r) as [x|]; cbn [fst snd]; apply NCp_fp; ncp.
Qed.

Lemma on_events_12_none es : forall k o,
  (forall e, In e es -> is_done e = false) -> fp 12 (snd (on_events k o es)) = [].
Proof.
  induction es as [|e es IH]; intros k o H; simpl; auto.
  pose proof (on_event_12_other k o e (H e (or_introl eq_refl))) as A1.
  destruct (on_event k o e) as [k1 c1]. simpl in *.
  pose proof (IH k1 o (fun e' He' => H e' (or_intror He'))) as B1.
  destruct (on_events k1 o es) as [k2 c2]. simpl in *.
  rewrite fp_app, A1, B1. reflexivity.
Qed.

Definition dcls12 (k : trk) (es : list event) : list clause :=
  flat_map (fun e => match e with
                     | EvDriverDone d oc => dcl12 (dinfo k) (k_raised k) d oc
                     | _ => [] end) es.

Lemma on_events_12_done es : forall k o,
  (forall e, In e es -> is_done e = true) -> fp 12 (snd (on_events k o es)) = dcls12 k es.
Proof.
  induction es as [|e es IH]; intros k o H; simpl; auto.
  pose proof (H e (or_introl eq_refl)) as He. destruct e; try discriminate.
  pose proof (on_event_12_done k o d o0) as A1.
  pose proof (on_event_d3 k o (EvDriverDone d o0)) as A2.
  pose proof (on_event_raised k o (EvDriverDone d o0)) as A3.
  destruct (on_event k o (EvDriverDone d o0)) as [k1 c1]. simpl in *.
  pose proof (IH k1 o (fun e' He' => H e' (or_intror He'))) as B1.
  destruct (on_events k1 o es) as [k2 c2]. simpl in *.
  rewrite fp_app, A1, B1. f_equal. unfold dcls12. unfold d3 in A2. injection A2 as E1 _ _.
  rewrite E1, A3. reflexivity.
Qed.

(** ** labels and state clauses produce no clause of property 12 *)
Lemma on_label_12 c k o : NCp 12 (snd (on_label c k o)).
Proof.
  unfold on_label. destruct (negb (o_enabled o)); [apply NCp_nil|].
  destruct (o_label o) as [h| |op]; try apply NCp_nil.
  destruct op; try (cbn [snd]; ncp; fail).
  - apply on_spawn_NCp; discriminate.
  - apply on_spawn_NCp; discriminate.
  - match goal with |- context [on_spawn ?a ?b ?c ?d ?e ?f ?g ?h] =>
      pose proof (on_spawn_NCp 12 a b c d e f g h) as Hs;
      destruct (on_spawn a b c d e f g h) as [k1 cs] end.
    simpl in Hs. specialize (Hs ltac:(discriminate) ltac:(discriminate) ltac:(discriminate)).
    destruct (o_res o); cbn [snd]; auto. ncp. exact Hs.
  - destruct (o_res o); cbn [snd]; ncp.
  - destruct (o_res o); cbn [snd]; ncp.
  - destruct (o_res o); cbn [snd]; ncp.
  - destruct (o_res o); cbn [snd]; ncp.
  - destruct v; cbn [snd]; ncp.
Qed.

Lemma state_clauses_12 c k o : NCp 12 (state_clauses c k o).
Proof.
  unfold state_clauses. cbv zeta. ncp.
  - destruct (negb (k_setsize k)); ncp.
  - apply NCp_flat_map. intros [r x]. destruct (r_kind x); ncp;
      try (destruct (group_ids o (r_group x)); ncp; destruct (r_dead x); ncp).
  - destruct (k_setsize k); ncp.
Qed.

(** ** one monitor step *)
Lemma mon_step_12 c k o :
  let k1 := fst (on_label c k o) in
  let k2 := fst (on_events k1 o (o_events o)) in
  let k' := fst (mon_step c k o) in
  fp 12 (snd (mon_step c k o)) = fp 12 (snd (on_events k1 o (o_events o))) /\
  (k_reqs k1 = lab_reqs c (k_reqs k) (negb (k_gac_req k)) o /\ tview5 k1 = tview5 k /\
   k_raised k1 = lab_raised (k_raised k) o /\ dinfo k1 = dinfo k ++ dnew k o) /\
  (k_reqs k2 = fold_left rq_ev (o_events o) (k_reqs k1) /\
   tview5 k2 = fold_left (vev5 (length (k_reqs k1))) (o_events o) (tview5 k1) /\
   k_raised k2 = fold_left rz_ev (o_events o) (k_raised k1) /\ dinfo k2 = dinfo k1) /\
  (k_reqs k' = k_reqs k2 /\ tview5 k' = tview5 k2 /\ dinfo k' = dinfo k2 /\
   k_raised k' = k_raised (fold_left nrs (o_events o) k2)).
Proof.
  cbv zeta. unfold mon_step.
  pose proof (on_label_view5 c k o) as L1. pose proof (on_label_reqs c k o) as L2.
  pose proof (on_label_raised c k o) as L3. pose proof (on_label_13 c k o) as ((L4 & _) & _).
  pose proof (on_label_12 c k o) as L5.
  destruct (on_label c k o) as [k1 c1]. simpl fst in *. simpl snd in *.
  pose proof (on_events_view5 (o_events o) k1 o) as (E1 & _).
  pose proof (on_events_reqs (o_events o) k1 o) as E2.
  pose proof (on_events_raised (o_events o) k1 o) as E3.
  pose proof (on_events_d3 (o_events o) k1 o) as E4.
  destruct (on_events k1 o (o_events o)) as [k2 c2]. simpl fst in *. simpl snd in *.
  destruct (note_raising_same5 (o_events o) k2) as (N1 & N2).
  destruct (note_raising_13 (o_events o) k2) as (N3 & _).
  rewrite note_raising_fold in *.
  set (k3 := fold_left nrs (o_events o) k2) in *.
  cbn [snd fst]. rewrite !fp_app, (NCp_fp 12 _ L5), (NCp_fp 12 _ (state_clauses_12 c _ o)).
  cbn [app]. rewrite app_nil_r.
  unfold d3 in E4, N3. injection E4 as E4 _ _. injection N3 as N3 _ _.
  split; [reflexivity|]. split; [auto|]. split; [auto|].
  split; [exact N2|]. split; [exact N1|]. split; [exact N3|]. reflexivity.
Qed.
