(** Extra_nc: a map request was only accepted with num_concurrent >= 1 ([m_kind] and [m_nc] of a
    spawner record never change).  Inductive on its own (no WF needed). *)
From TP Require Import PInv PInv_P_base.

Definition okn (y : mtask) : Prop := is_map y = true -> m_nc y <> 0.

Definition Extra_nc (s : state) : Prop := forall m y, get_m s m = Some y -> okn y.

Lemma NC_mt s s' : mtasks s' = mtasks s -> Extra_nc s -> Extra_nc s'.
Proof. intros E H m y. unfold get_m. rewrite E. apply H. Qed.

Lemma NC_put_m s m x : Extra_nc s -> okn x -> Extra_nc (put_m s m x).
Proof.
  intros H Hx m' y. unfold get_m, put_m. cbn [mtasks set_mtasks]. rewrite nth_error_upd.
  destruct (Nat.eqb m m').
  - destruct (Nat.ltb _ _); [|discriminate]. intros [= <-]. auto.
  - apply H.
Qed.

Ltac fr := eapply NC_mt; [reflexivity|].

Lemma mt_sched s h : mtasks (sched s h) = mtasks s.
Proof. unfold sched. destruct (is_ready s h); reflexivity. Qed.

Lemma NC_sched s h : Extra_nc s -> Extra_nc (sched s h).
Proof. apply NC_mt, mt_sched. Qed.

Lemma NC_fold {A} (f : state -> A -> state) :
  (forall s a, Extra_nc s -> Extra_nc (f s a)) ->
  forall l s, Extra_nc s -> Extra_nc (fold_left f l s).
Proof. intros H l. induction l; simpl; auto. Qed.

Lemma NC_sched_cbs s r : Extra_nc s -> Extra_nc (sched_cbs s r).
Proof. unfold sched_cbs. apply NC_fold. intros; now apply NC_sched. Qed.

Lemma NC_know s g : Extra_nc s -> Extra_nc (know s g).
Proof. unfold know. destruct (existsb _ _); auto. Qed.

Lemma NC_wake_next s : Extra_nc s -> Extra_nc (wake_next s).
Proof.
  intros H. unfold wake_next. destruct (first_pending _ _) as [m|]; auto.
  destruct (get_m s m) as [x|] eqn:Ex; auto.
  apply NC_sched, NC_put_m; [now fr|]. exact (H m x Ex).
Qed.

Lemma NC_sem_release s : Extra_nc s -> Extra_nc (sem_release s).
Proof. intros H. unfold sem_release. apply NC_wake_next. now fr. Qed.

Lemma NC_map_release s m : Extra_nc s -> Extra_nc (map_release s m).
Proof.
  intros H. unfold map_release. destruct (get_m s m) as [x|] eqn:Ex; auto.
  pose proof (H m x Ex) as Hx.
  destruct (m_pc x); try (apply NC_put_m; auto);
    destruct (m_fw x) as [[]|]; try (apply NC_put_m; auto).
  apply NC_sched, NC_put_m; auto.
Qed.

Lemma NC_finish_p s t x : Extra_nc s -> Extra_nc (finish_p s t x).
Proof. intros H. unfold finish_p. fr. apply NC_sched_cbs. now fr. Qed.

Lemma NC_finish_m s m x e : Extra_nc s -> okn x -> Extra_nc (finish_m s m x e).
Proof. intros H Hx. unfold finish_m. fr. apply NC_sched_cbs, NC_put_m; auto. Qed.

Lemma NC_suspend_p s t x pc : Extra_nc s -> Extra_nc (suspend_p s t x pc).
Proof.
  intros H. unfold suspend_p. destruct (p_mc x); fr; [apply NC_sched|]; now fr.
Qed.

Lemma NC_suspend_m s m x pc : Extra_nc s -> okn x -> Extra_nc (suspend_m s m x pc).
Proof.
  intros H Hx. unfold suspend_m. destruct (m_mc x); fr; [apply NC_sched|]; apply NC_put_m; auto.
Qed.

Lemma NC_enter_end s t x : Extra_nc s -> Extra_nc (enter_end s t x).
Proof.
  intros H. unfold enter_end.
  assert (Hm : forall s1, Extra_nc s1 ->
     Extra_nc (let s2 := set_t_ended s1 (dict_add (t_ended s1) t) in
               let s3 := sem_release s2 in
               let x0 := set_p_nrel x (S (p_nrel x)) in
               let s4 := if p_ismap x0 then map_release s3 (p_req x0) else s3 in
               match p_ecb x0 with
               | CbNone => finish_p s4 t x0
               | _ => set_ctl (emit (put_p s4 t (set_p_pc (set_p_necb x0 (S (p_necb x0))) PUEndCb))
                                    (EvCbBegin KEnd t (classify s4 t))) (CUser (TP t))
               end)).
  { intros s1 H1. cbv zeta.
    assert (H4 : Extra_nc (if p_ismap (set_p_nrel x (S (p_nrel x)))
                           then map_release (sem_release (set_t_ended s1 (dict_add (t_ended s1) t)))
                                            (p_req (set_p_nrel x (S (p_nrel x))))
                           else sem_release (set_t_ended s1 (dict_add (t_ended s1) t)))).
    { destruct (p_ismap _); [apply NC_map_release|]; apply NC_sem_release; now fr. }
    destruct (p_ecb _); [now apply NC_finish_p|now fr|now fr]. }
  destruct (mem t (t_running s)); [|destruct (mem t (t_cancelled s))].
  - apply Hm. now fr.
  - apply Hm. now fr.
  - now apply NC_finish_p.
Qed.

Lemma NC_enter_cancel s t x : Extra_nc s -> Extra_nc (enter_cancel s t x).
Proof.
  intros H. unfold enter_cancel. destruct (mem t (t_running s)).
  - cbv zeta. destruct (p_ccb x); [apply NC_enter_end|..]; now fr.
  - now apply NC_enter_end.
Qed.

Lemma NC_emit s e : Extra_nc s -> Extra_nc (emit s e).
Proof. intros H. now fr. Qed.

Ltac ncleaf :=
  first [ assumption
        | apply NC_enter_end | apply NC_enter_cancel | apply NC_finish_p | apply NC_suspend_p
        | apply NC_emit | (fr; assumption) ].

Lemma NC_run_p s t : Extra_nc s -> Extra_nc (run_p s t).
Proof.
  intros H. unfold run_p. cbv zeta.
  repeat (first [assumption | dmatch]); repeat ncleaf.
Qed.

Lemma NC_continue_p s t : Extra_nc s -> Extra_nc (continue_p s t).
Proof.
  intros H. unfold continue_p.
  repeat (first [assumption | dmatch]); repeat ncleaf.
Qed.

(** spawners *)
Lemma NC_register s m x : Extra_nc s -> okn x -> Extra_nc (register s m x).
Proof.
  intros H Hx. unfold register. apply NC_put_m; auto. apply NC_sched. exact H.
Qed.

Lemma NC_try_start s m x : Extra_nc s -> okn x -> Extra_nc (fst (try_start s m x)).
Proof.
  intros H Hx. unfold try_start. destruct (closed s); [|destruct (sem_locked s)]; cbn [fst].
  - now apply NC_finish_m.
  - apply NC_suspend_m; auto.
  - apply NC_register; auto.
Qed.

Lemma NC_apply_loop rem m : forall s, Extra_nc s -> Extra_nc (apply_loop rem s m).
Proof.
  induction rem as [|r IH]; intros s H; simpl.
  - destruct (get_m s m) as [x|] eqn:Ex; auto. apply NC_finish_m; auto. exact (H m x Ex).
  - destruct (get_m s m) as [x|] eqn:Ex; auto. pose proof (H m x Ex) as Hx. destruct (nth (m_idx x) (m_bad x) false).
    + apply IH. apply NC_put_m; auto.
    + pose proof (NC_try_start s m x H Hx) as H1.
      destruct (try_start s m x) as [s' cont]. cbn [fst] in H1. destruct cont; auto.
Qed.

Lemma NC_to_iter s m : Extra_nc s -> Extra_nc (to_iter s m).
Proof.
  intros H. unfold to_iter. destruct (get_m s m) as [x|] eqn:Ex; auto.
  fr. apply NC_put_m; auto. exact (H m x Ex).
Qed.

Lemma NC_spawn_next s m : Extra_nc s -> Extra_nc (spawn_next s m).
Proof.
  intros H. unfold spawn_next. destruct (get_m s m) as [x|]; auto.
  destruct (m_kind x); auto using NC_apply_loop, NC_to_iter.
Qed.

Lemma NC_start_then_next s m x : Extra_nc s -> okn x -> Extra_nc (start_then_next s m x).
Proof.
  intros H Hx. unfold start_then_next. pose proof (NC_try_start s m x H Hx) as H1.
  destruct (try_start s m x) as [s' cont]. cbn [fst] in H1. destruct cont; auto.
  now apply NC_spawn_next.
Qed.

Lemma NC_continue_m s m : Extra_nc s -> Extra_nc (continue_m s m).
Proof.
  intros H. unfold continue_m. destruct (get_m s m) as [x|] eqn:Ex; auto.
  pose proof (H m x Ex) as Hx.
  destruct (m_pc x); auto. destruct (nth_error _ _) as [e|].
  - destruct (e_bad e).
    + apply NC_to_iter, NC_put_m; auto.
    + destruct (m_mapval x).
      * now apply NC_suspend_m.
      * now apply NC_start_then_next.
  - now apply NC_finish_m.
Qed.

Lemma NC_run_m s m : Extra_nc s -> Extra_nc (run_m s m).
Proof.
  intros H. unfold run_m. destruct (get_m s m) as [x0|] eqn:Ex; auto.
  pose proof (H m x0 Ex) as Hx.
  destruct (m_pc x0); auto.
  - destruct (task_input _ _).
    + apply NC_spawn_next, NC_put_m; auto.
    + now apply NC_finish_m.
    + now apply NC_finish_m.
  - destruct (task_input _ _).
    + now apply NC_start_then_next.
    + apply NC_finish_m; auto. destruct (match m_fw x0 with Some FCancelled => true | _ => false end); auto.
    + apply NC_finish_m; auto. destruct (match m_fw x0 with Some FCancelled => true | _ => false end); auto.
  - assert (H0 : Extra_nc (put_m (set_sem_waiters s (remove1 m (sem_waiters s))) m
                                 (set_m_mc (set_m_fw x0 None) false))).
    { apply NC_put_m; auto. }
    cbv zeta.
    destruct (task_input _ _).
    + apply NC_spawn_next, NC_register; auto.
      destruct (ninf_pos _); auto. now apply NC_wake_next.
    + apply NC_finish_m.
      * destruct (match m_fw x0 with Some FCancelled => true | _ => false end); auto.
        now apply NC_sem_release.
      * destruct (m_holds _); auto.
    + apply NC_finish_m.
      * destruct (match m_fw x0 with Some FCancelled => true | _ => false end); auto.
        now apply NC_sem_release.
      * destruct (m_holds _); auto.
Qed.

(** drivers: spawner records are not touched *)
Lemma mt_wake_closed ds : forall s, mtasks (wake_closed s ds) = mtasks s.
Proof.
  induction ds as [|d r IH]; simpl; intros s; auto. rewrite IH.
  destruct (get_d s d); auto. destruct (fut_pending _); auto. now rewrite mt_sched.
Qed.

Lemma mt_after_g2 s d x outer : mtasks (after_g2 s d x outer) = mtasks s.
Proof.
  unfold after_g2. destruct outer; try reflexivity; destruct (d_kind x); try reflexivity.
  all: cbn [mtasks finish_d set_ctl emit put_d set_dtasks set_evs]; now rewrite mt_wake_closed.
Qed.

Lemma mt_start_g2 s d x cs re : mtasks (start_g2 s d x cs re) = mtasks s.
Proof.
  unfold start_g2. destruct (make_gather _ _ _) as [g outer].
  destruct outer; try apply mt_after_g2. reflexivity.
Qed.

Lemma mt_after_g1 s d x outer : mtasks (after_g1 s d x outer) = mtasks s.
Proof.
  unfold after_g1. destruct (d_kind x).
  - destruct outer as [| |e|]; try destruct e; try reflexivity; now rewrite mt_start_g2.
  - destruct (if re then None else _); [reflexivity|]. now rewrite mt_start_g2.
  - reflexivity.
Qed.

Lemma mt_start_g1 s d x cs re : mtasks (start_g1 s d x cs re) = mtasks s.
Proof.
  unfold start_g1. destruct (make_gather _ _ _) as [g outer].
  destruct outer; try apply mt_after_g1. reflexivity.
Qed.

Lemma mt_run_d s d : mtasks (run_d s d) = mtasks s.
Proof.
  unfold run_d. destruct (get_d s d) as [x0|]; auto. destruct (d_pc x0); auto.
  - destruct (d_kind (set_d_fw x0 None)).
    + destruct (pop_ended s (gmeta s)) as [gm ended]. now rewrite mt_start_g1.
    + now rewrite mt_start_g1.
    + destruct (closed s); reflexivity.
  - apply mt_after_g1.
  - apply mt_after_g2.
Qed.

Lemma mt_run_g s d c : mtasks (run_g s d c) = mtasks s.
Proof. unfold run_g. repeat (first [reflexivity | rewrite mt_sched | dmatch]). Qed.

(** operations *)
Lemma mt_cancel_p s t : mtasks (cancel_p s t) = mtasks s.
Proof. unfold cancel_p. repeat (first [reflexivity | rewrite mt_sched | dmatch]). Qed.

Lemma NC_cancel_m s m : Extra_nc s -> Extra_nc (cancel_m s m).
Proof.
  intros H. unfold cancel_m. destruct (get_m s m) as [x|] eqn:Ex; auto.
  pose proof (H m x Ex) as Hx. destruct (m_final x); auto.
  assert (H1 : Extra_nc (if is_current s (TM m) then set_taint_iter s true else s))
    by (destruct (is_current _ _); auto).
  destruct (fut_pending _); [apply NC_sched|]; apply NC_put_m; auto.
Qed.

Lemma NC_cancel_group_metas s g : Extra_nc s -> Extra_nc (cancel_group_metas s g).
Proof.
  intros H. unfold cancel_group_metas. destruct (glookup _ _); auto.
  fr. apply NC_fold; auto. intros; now apply NC_cancel_m.
Qed.

Lemma NC_mark_dead s g : Extra_nc s -> Extra_nc (mark_dead s g).
Proof.
  intros H m y. unfold get_m, mark_dead. cbn [mtasks set_mtasks]. rewrite nth_error_map.
  destruct (nth_error (mtasks s) m) as [x|] eqn:Ex; [|discriminate]. cbn.
  intros [= <-]. pose proof (H m x Ex) as Hx. destruct (gname_eqb _ _); auto.
Qed.

Lemma NC_cancel_group_body s g ids : Extra_nc s -> Extra_nc (cancel_group_body s g ids).
Proof.
  intros H. unfold cancel_group_body. apply NC_fold.
  - intros s0 t H0. destruct (mem t (t_running s0)); auto. eapply NC_mt; [apply mt_cancel_p|auto].
  - now apply NC_mark_dead, NC_cancel_group_metas.
Qed.

Lemma NC_cancel_all_groups gs : forall s, Extra_nc s -> Extra_nc (cancel_all_groups s gs).
Proof.
  induction gs as [|[g ids] r IH]; simpl; intros s H; auto.
  apply IH. now apply NC_cancel_group_body.
Qed.

Lemma NC_do_cancel s ids : Extra_nc s -> Extra_nc (do_cancel s ids).
Proof.
  intros H. unfold do_cancel. destruct (first_lookup_err s ids); auto.
  apply NC_fold; auto. intros s0 a H0. eapply NC_mt; [apply mt_cancel_p|auto].
Qed.

Lemma NC_new_meta s x : Extra_nc s -> okn x -> Extra_nc (new_meta s x).
Proof.
  intros H Hx. unfold new_meta. apply NC_sched.
  intros m y. unfold get_m. cbn [mtasks set_gmeta set_mtasks]. rewrite nth_error_snoc.
  destruct (Nat.ltb _ _); [apply H|]. destruct (Nat.eqb _ _); [|discriminate].
  intros [= <-]. exact Hx.
Qed.

Lemma NC_stop_res s ids :
  Extra_nc s -> Extra_nc (match res s with RErr _ => s | _ => set_res s (RIds ids) end).
Proof. intros H. destruct (res s); auto. Qed.

Lemma NC_set_res s r : Extra_nc s -> Extra_nc (set_res s r).
Proof. intros H. exact H. Qed.
Lemma NC_set_groups s r : Extra_nc s -> Extra_nc (set_groups s r).
Proof. intros H. exact H. Qed.
Lemma NC_set_start_calls s r : Extra_nc s -> Extra_nc (set_start_calls s r).
Proof. intros H. exact H. Qed.

Lemma NC_op_apply s num bad noncoro w ecb ccb og :
  Extra_nc s -> Extra_nc (do_op s (OpApply num bad noncoro w ecb ccb og)).
Proof.
  intros H. unfold do_op.
  assert (H0 : Extra_nc (match og with Some g0 => know s g0 | None => s end))
    by (destruct og; auto using NC_know).
  destruct (check_start _ _); [now apply NC_set_res|].
  destruct (ghas _ _); [now apply NC_set_res|].
  apply NC_set_res, NC_new_meta; [|unfold okn; cbn; discriminate].
  apply NC_set_groups. now apply NC_know.
Qed.

Lemma NC_op_map s stars els nc noncoro ecb ccb og :
  Extra_nc s -> Extra_nc (do_op s (OpMap stars els nc noncoro ecb ccb og)).
Proof.
  intros H. unfold do_op.
  assert (H0 : Extra_nc (match og with Some g0 => know s g0 | None => s end))
    by (destruct og; auto using NC_know).
  destruct (check_start _ _); [now apply NC_set_res|].
  destruct (Nat.eqb nc 0) eqn:En; [now apply NC_set_res|].
  destruct (ghas _ _); [now apply NC_set_res|].
  apply NC_set_res, NC_new_meta.
  - apply NC_set_groups. now apply NC_know.
  - unfold okn. cbn. intros _. now apply Nat.eqb_neq.
Qed.

Lemma NC_op_start s num : Extra_nc s -> Extra_nc (do_op s (OpStart num)).
Proof.
  intros H. unfold do_op. destruct (check_start s false); [now apply NC_set_res|].
  apply NC_set_res, NC_new_meta; [|unfold okn; cbn; discriminate].
  apply NC_set_groups, NC_set_start_calls. now apply NC_know.
Qed.

Lemma NC_do_op s o : Extra_nc s -> Extra_nc (do_op s o).
Proof.
  intros H. destruct o.
  - now apply NC_op_apply.
  - now apply NC_op_map.
  - now apply NC_op_start.
  - now apply NC_do_cancel.
  - unfold do_op. destruct (glookup _ _).
    + apply NC_cancel_group_body, NC_set_groups. now apply NC_know.
    + apply NC_set_res. now apply NC_know.
  - unfold do_op. apply NC_cancel_all_groups. exact H.
  - unfold do_op. apply NC_stop_res. now apply NC_do_cancel.
  - unfold do_op. apply NC_stop_res. now apply NC_do_cancel.
  - exact H.
  - unfold do_op. destruct (Nat.ltb _ _); exact H.
  - unfold do_op. destruct v; exact H.
  - unfold do_op. apply NC_set_res. apply NC_fold; auto. intros; now apply NC_know.
  - unfold do_op. apply NC_sched. destruct k; exact H.
  - unfold do_op. destruct (get_p s tid); auto. apply NC_sched. exact H.
  - unfold do_op. destruct (get_p s tid); auto. apply NC_sched. exact H.
Qed.

Lemma Extra_nc_init c : Extra_nc (init c).
Proof. intros m y H. unfold get_m in H. cbn in H. now destruct m. Qed.

Lemma Extra_nc_step s l : Extra_nc s -> Extra_nc (step s l).
Proof.
  intros H. unfold step.
  assert (H1 : Extra_nc (set_res (set_evs s []) RNone)) by exact H.
  destruct (negb _); auto.
  destruct l as [h| |o].
  - assert (H2 : Extra_nc (unsched (set_res (set_evs s []) RNone) h)) by exact H.
    destruct h as [[t|m|d]|d c]; cbn [run_handle].
    + now apply NC_run_p.
    + now apply NC_run_m.
    + eapply NC_mt; [apply mt_run_d|auto].
    + eapply NC_mt; [apply mt_run_g|auto].
  - destruct (ctl _) as [|[t|m|d]]; auto.
    + now apply NC_continue_p.
    + now apply NC_continue_m.
  - now apply NC_do_op.
Qed.

Lemma Extra_nc_run c tr : Extra_nc (fold_left step tr (init c)).
Proof.
  assert (H : forall s, Extra_nc s -> Extra_nc (fold_left step tr s)).
  { induction tr; simpl; auto. intros s Hs. apply IHtr. now apply Extra_nc_step. }
  apply H, Extra_nc_init.
Qed.
