(** Two small per-spawner invariants that are not part of [WF] and are needed for C04 / C05:

    - [Extra_B]: only a map consumer is ever at the iterator's user point or waiting on the
      per-call semaphore ([MAtIter] / [MWaitMap]);
    - [Extra_map']: a consumer waiting on the per-call semaphore *with a still pending future*
      found no free per-call slot ([m_mapval = 0]) and holds none.

    [Extra_map] of PSpec.v (the same without the premise on the future) is FALSE on reachable
    states: once [map_release] has woken the consumer (future [FOk], pc still [MWaitMap]) a second
    task of the call may end before the consumer runs, and [map_release] then increments
    [m_mapval].  See [Extra_map_not_invariant] in PProps_B.v.

    Each is proved inductive here ([Extra_B_step], [Extra_map'_step]; jointly [Extra_BM_step]), in
    Hoare style, as instances of one record-local predicate [Pm PA PB] whose two clauses are
    switched on by the propositions [PA], [PB].  The only fact taken from [WF] is [IM_holds]. *)
From TP Require Import PInv PInv_R_base PInv_R_tr.

(** [PA], [PB] switch the two clauses on, so that each is also proved inductive on its own. *)
Definition Pm (PA PB : Prop) (y : mtask) : Prop :=
  (PA -> (m_pc y = MAtIter \/ m_pc y = MWaitMap) -> is_map y = true) /\
  (PB -> m_pc y = MWaitMap -> m_fw y = Some FPending -> m_mapval y = 0 /\ m_holds y = false).

Definition Qm (PA PB : Prop) (s : state) : Prop := forall m y, get_m s m = Some y -> Pm PA PB y.

Definition Extra_B (s : state) : Prop :=
  forall m y, get_m s m = Some y -> (m_pc y = MAtIter \/ m_pc y = MWaitMap) -> is_map y = true.

Definition Extra_map' (s : state) : Prop :=
  forall m y, get_m s m = Some y -> m_pc y = MWaitMap -> m_fw y = Some FPending ->
              m_mapval y = 0 /\ m_holds y = false.

Lemma Qm_B s : Qm True False s <-> Extra_B s.
Proof.
  unfold Qm, Extra_B, Pm. split.
  - intros H m y Hy. apply (H m y Hy). exact I.
  - intros H m y Hy. split; [intros _; apply (H m y Hy)|intros []].
Qed.

Lemma Qm_M s : Qm False True s <-> Extra_map' s.
Proof.
  unfold Qm, Extra_map', Pm. split.
  - intros H m y Hy. apply (H m y Hy). exact I.
  - intros H m y Hy. split; [intros []|intros _; apply (H m y Hy)].
Qed.

(** ** Basic transformers *)
Lemma Qm_same {PA PB : Prop} s s' : mtasks s' = mtasks s -> Qm PA PB s -> Qm PA PB s'.
Proof. intros E H m y Hy. apply (H m y). unfold get_m in *. rewrite <- E. exact Hy. Qed.

Lemma Qm_put_m {PA PB : Prop} s m x : Qm PA PB s -> Pm PA PB x -> Qm PA PB (put_m s m x).
Proof.
  intros H Hx k y Hy. unfold get_m, put_m in Hy; cbn in Hy. rewrite nth_error_upd in Hy.
  destruct (Nat.eqb m k).
  - destruct (Nat.ltb m (length (mtasks s))); [injection Hy as <-; auto|discriminate].
  - apply (H k y Hy).
Qed.

Lemma Qm_sched {PA PB : Prop} s h : Qm PA PB s -> Qm PA PB (sched s h).
Proof. apply Qm_same, mtasks_sched. Qed.

Lemma Qm_emit {PA PB : Prop} s e : Qm PA PB s -> Qm PA PB (emit s e).
Proof. apply Qm_same. reflexivity. Qed.

Lemma Qm_put_p {PA PB : Prop} s t x : Qm PA PB s -> Qm PA PB (put_p s t x).
Proof. apply Qm_same. reflexivity. Qed.

Lemma Qm_put_d {PA PB : Prop} s t x : Qm PA PB s -> Qm PA PB (put_d s t x).
Proof. apply Qm_same. reflexivity. Qed.

Lemma Qm_set_ctl {PA PB : Prop} s c : Qm PA PB s -> Qm PA PB (set_ctl s c).
Proof. apply Qm_same. reflexivity. Qed.

Lemma Qm_sched_cbs {PA PB : Prop} s r : Qm PA PB s -> Qm PA PB (sched_cbs s r).
Proof. apply Qm_same, mtasks_sched_cbs. Qed.

(** record-level preservation *)
Lemma Pm_same {PA PB : Prop} x x' :
  m_pc x' = m_pc x -> m_kind x' = m_kind x -> m_mapval x' = m_mapval x ->
  m_holds x' = m_holds x -> (m_fw x' = Some FPending -> m_fw x = Some FPending) ->
  Pm PA PB x -> Pm PA PB x'.
Proof.
  unfold Pm, is_map. intros -> -> -> -> Hf [H1 H2]. split; auto.
Qed.

Lemma Pm_pc {PA PB : Prop} x : m_pc x <> MAtIter -> m_pc x <> MWaitMap -> Pm PA PB x.
Proof. unfold Pm. intros H1 H2. split; [intros _ [?|?]; congruence|intros; congruence]. Qed.

(** ** Semaphores *)
Lemma Qm_wake_next {PA PB : Prop} s : Qm PA PB s -> Qm PA PB (wake_next s).
Proof.
  intros H. unfold wake_next.
  destruct (first_pending s (sem_waiters s)) as [m|]; auto.
  destruct (get_m s m) as [x|] eqn:Hx; auto.
  apply Qm_sched, Qm_put_m.
  - eapply Qm_same; [|exact H]. reflexivity.
  - eapply Pm_same; [..|apply (H m x Hx)]; cbn; auto; congruence.
Qed.

Lemma Qm_sem_release {PA PB : Prop} s : Qm PA PB s -> Qm PA PB (sem_release s).
Proof.
  intros H. unfold sem_release. apply Qm_wake_next.
  eapply Qm_same; [|exact H]. reflexivity.
Qed.

Lemma Qm_map_release {PA PB : Prop} s m : Qm PA PB s -> Qm PA PB (map_release s m).
Proof.
  intros H. unfold map_release.
  destruct (get_m s m) as [x|] eqn:Hx; auto.
  pose proof (H m x Hx) as Px.
  assert (Hok : Pm PA PB (set_m_fw x (Some FOk))).
  { eapply Pm_same; [..|exact Px]; cbn; auto; congruence. }
  assert (Hinc : (m_pc x = MWaitMap -> m_fw x <> Some FPending) ->
                 Qm PA PB (put_m s m (set_m_mapval x (S (m_mapval x))))).
  { intros Hn. apply Qm_put_m; auto. destruct Px as [P1 P2].
    split; cbn; auto. intros _ Hpc Hfw. exfalso. apply (Hn Hpc Hfw). }
  destruct (m_pc x) eqn:Hpc; try (apply Hinc; congruence).
  destruct (m_fw x) as [[| | |]|] eqn:Hfw; try (apply Hinc; congruence).
  apply Qm_sched, Qm_put_m; auto.
Qed.

(** ** Finishing / suspending *)
Lemma Qm_finish_p {PA PB : Prop} s t x : Qm PA PB s -> Qm PA PB (finish_p s t x).
Proof. intros H. unfold finish_p. apply Qm_set_ctl, Qm_sched_cbs, Qm_put_p, H. Qed.

Lemma Qm_finish_m {PA PB : Prop} s m x e : Qm PA PB s -> Qm PA PB (finish_m s m x e).
Proof.
  intros H. unfold finish_m. apply Qm_set_ctl, Qm_sched_cbs, Qm_put_m; auto.
  apply Pm_pc; cbn; congruence.
Qed.

Lemma Qm_finish_d {PA PB : Prop} s d x e : Qm PA PB s -> Qm PA PB (finish_d s d x e).
Proof. intros H. unfold finish_d. apply Qm_set_ctl, Qm_emit, Qm_put_d, H. Qed.

Lemma Qm_suspend_p {PA PB : Prop} s t x pc : Qm PA PB s -> Qm PA PB (suspend_p s t x pc).
Proof.
  intros H. unfold suspend_p. destruct (p_mc x).
  - apply Qm_set_ctl, Qm_sched, Qm_put_p, H.
  - apply Qm_set_ctl, Qm_put_p, H.
Qed.

Lemma Qm_suspend_m_pool {PA PB : Prop} s m x : Qm PA PB s -> Qm PA PB (suspend_m s m x MWaitPool).
Proof.
  intros H. unfold suspend_m. destruct (m_mc x).
  - apply Qm_set_ctl, Qm_sched, Qm_put_m; auto. apply Pm_pc; cbn; congruence.
  - apply Qm_set_ctl, Qm_put_m; auto. apply Pm_pc; cbn; congruence.
Qed.

Lemma Qm_suspend_m_map {PA PB : Prop} s m x :
  Qm PA PB s -> (PA -> is_map x = true) -> m_mapval x = 0 -> m_holds x = false ->
  Qm PA PB (suspend_m s m x MWaitMap).
Proof.
  intros H Hk Hv Hh. unfold suspend_m. destruct (m_mc x).
  - apply Qm_set_ctl, Qm_sched, Qm_put_m; auto. split; cbn; auto.
  - apply Qm_set_ctl, Qm_put_m; auto. split; cbn; auto.
Qed.

(** ** Pool tasks *)
Lemma Qm_moved {PA PB : Prop} s1 t x :
  Qm PA PB s1 ->
  Qm PA PB (let s2 := set_t_ended s1 (dict_add (t_ended s1) t) in
      let s3 := sem_release s2 in
      let x := set_p_nrel x (S (p_nrel x)) in
      let s4 := if p_ismap x then map_release s3 (p_req x) else s3 in
      match p_ecb x with
      | CbNone => finish_p s4 t x
      | _ =>
        set_ctl (emit (put_p s4 t (set_p_pc (set_p_necb x (S (p_necb x))) PUEndCb))
                      (EvCbBegin KEnd t (classify s4 t)))
                (CUser (TP t))
      end).
Proof.
  intros H. cbv zeta.
  set (s3 := sem_release (set_t_ended s1 (dict_add (t_ended s1) t))).
  assert (H3 : Qm PA PB s3).
  { apply Qm_sem_release. eapply Qm_same; [|exact H]. reflexivity. }
  set (x1 := set_p_nrel x (S (p_nrel x))).
  set (s4 := if p_ismap x1 then map_release s3 (p_req x1) else s3).
  assert (H4 : Qm PA PB s4).
  { unfold s4. destruct (p_ismap x1); auto. apply Qm_map_release; auto. }
  clearbody s4.
  destruct (p_ecb x1); try apply Qm_finish_p; auto;
    apply Qm_set_ctl, Qm_emit, Qm_put_p; auto.
Qed.

Lemma Qm_enter_end {PA PB : Prop} s t x : Qm PA PB s -> Qm PA PB (enter_end s t x).
Proof.
  intros H. unfold enter_end.
  destruct (mem t (t_running s)).
  - apply Qm_moved. eapply Qm_same; [|exact H]. reflexivity.
  - destruct (mem t (t_cancelled s)).
    + apply Qm_moved. eapply Qm_same; [|exact H]. reflexivity.
    + apply Qm_finish_p; auto.
Qed.

Lemma Qm_enter_cancel {PA PB : Prop} s t x : Qm PA PB s -> Qm PA PB (enter_cancel s t x).
Proof.
  intros H. unfold enter_cancel.
  destruct (mem t (t_running s)).
  - set (s1 := set_t_cancelled _ _).
    assert (H1 : Qm PA PB s1) by (eapply Qm_same; [|exact H]; reflexivity).
    clearbody s1.
    destruct (p_ccb x); try (apply Qm_enter_end; auto);
      apply Qm_set_ctl, Qm_emit, Qm_put_p; auto.
  - apply Qm_enter_end; auto.
Qed.

Lemma Qm_continue_p {PA PB : Prop} s t : Qm PA PB s -> Qm PA PB (continue_p s t).
Proof.
  intros H. unfold continue_p.
  destruct (get_p s t) as [x|]; auto.
  destruct (p_pc x); auto.
  - destruct (w_first (p_w x)); [apply Qm_suspend_p|apply Qm_enter_end, Qm_emit..]; auto.
  - destruct (p_fin x); apply Qm_enter_end, Qm_emit; auto.
  - destruct (w_cancel (p_w x)); [apply Qm_enter_cancel|apply Qm_enter_end]; apply Qm_emit; auto.
  - destruct (p_ccb x) as [|r|[|] r]; try apply Qm_suspend_p; auto;
      apply Qm_enter_end; try apply Qm_emit; auto.
  - destruct (p_ecb x) as [|r|[|] r]; try apply Qm_suspend_p; auto;
      apply Qm_finish_p; try apply Qm_emit; auto.
Qed.

Lemma Qm_run_p {PA PB : Prop} s t : Qm PA PB s -> Qm PA PB (run_p s t).
Proof.
  intros H. unfold run_p.
  destruct (get_p s t) as [x0|]; auto.
  destruct (p_pc x0); auto; destruct (task_input (p_mc x0) (p_fw x0)).
  all: try (apply Qm_finish_p; try apply Qm_emit; auto; fail).
  all: try (apply Qm_enter_end; try apply Qm_emit; auto; fail).
  all: try (apply Qm_set_ctl; try apply Qm_emit; apply Qm_put_p; auto; fail).
  destruct (p_unst _); try apply Qm_enter_cancel; auto;
    apply Qm_set_ctl, Qm_emit, Qm_put_p; auto.
Qed.

(** ** Spawners *)
Lemma Qm_register {PA PB : Prop} s m x : Qm PA PB s -> Qm PA PB (register s m x).
Proof.
  intros H. unfold register. apply Qm_put_m.
  - apply Qm_sched. eapply Qm_same; [|exact H]. reflexivity.
  - apply Pm_pc; cbn; congruence.
Qed.

Lemma Qm_try_start {PA PB : Prop} s m x : Qm PA PB s -> Qm PA PB (fst (try_start s m x)).
Proof.
  intros H. unfold try_start.
  destruct (closed s); [apply Qm_finish_m; auto|].
  destruct (sem_locked s); cbn [fst].
  - apply Qm_suspend_m_pool. eapply Qm_same; [|exact H]. reflexivity.
  - apply Qm_register. eapply Qm_same; [|exact H]. reflexivity.
Qed.

Lemma Qm_apply_loop {PA PB : Prop} rem : forall s m, Qm PA PB s -> Qm PA PB (apply_loop rem s m).
Proof.
  induction rem as [|r IH]; intros s m H; simpl.
  - destruct (get_m s m) as [x|]; auto. apply Qm_finish_m; auto.
  - destruct (get_m s m) as [x|] eqn:Hx; auto.
    destruct (nth (m_idx x) (m_bad x) false).
    + apply IH. apply Qm_put_m; auto.
      eapply Pm_same; [..|apply (H m x Hx)]; cbn; auto.
    + pose proof (Qm_try_start s m x H) as Ht.
      destruct (try_start s m x) as [s' cont]. cbn [fst] in Ht.
      destruct cont; auto.
Qed.

Lemma Qm_to_iter {PA PB : Prop} s m :
  Qm PA PB s -> (PA -> forall x, get_m s m = Some x -> is_map x = true) ->
  Qm PA PB (to_iter s m).
Proof.
  intros H Hk. unfold to_iter.
  destruct (get_m s m) as [x|] eqn:Hx; auto.
  apply Qm_set_ctl, Qm_emit, Qm_put_m; auto.
  split; cbn; [intros a _; apply (Hk a x eq_refl)|intros; congruence].
Qed.

Lemma Qm_spawn_next {PA PB : Prop} s m : Qm PA PB s -> Qm PA PB (spawn_next s m).
Proof.
  intros H. unfold spawn_next.
  destruct (get_m s m) as [x|] eqn:Hx; auto.
  destruct (m_kind x) eqn:Hk; try (apply Qm_apply_loop; auto).
  apply Qm_to_iter; auto. intros _ y Hy. rewrite Hx in Hy. injection Hy as <-.
  unfold is_map. rewrite Hk. reflexivity.
Qed.

Lemma Qm_start_then_next {PA PB : Prop} s m x : Qm PA PB s -> Qm PA PB (start_then_next s m x).
Proof.
  intros H. unfold start_then_next.
  pose proof (Qm_try_start s m x H) as Ht.
  destruct (try_start s m x) as [s' cont]. cbn [fst] in Ht.
  destruct cont; auto. apply Qm_spawn_next; auto.
Qed.

Lemma Qm_continue_m {PA PB : Prop} s m :
  Qm PA PB s -> (forall x, get_m s m = Some x -> m_holds x = true -> m_pc x = MWaitPool) ->
  Qm PA PB (continue_m s m).
Proof.
  intros H Hh. unfold continue_m.
  destruct (get_m s m) as [x|] eqn:Hx; auto.
  destruct (m_pc x) eqn:Hpc; auto.
  pose proof (H m x Hx) as [P1 P2].
  assert (Hk : PA -> is_map x = true) by (intros a; apply P1; auto).
  destruct (nth_error (m_els x) (m_idx x)) as [e|]; [|apply Qm_finish_m; auto].
  destruct (e_bad e).
  - apply Qm_to_iter.
    + apply Qm_put_m; auto. split; cbn; auto.
    + intros a y Hy. rewrite get_m_put_m_eq in Hy by (eapply get_m_lt; eauto).
      injection Hy as <-. exact (Hk a).
  - destruct (m_mapval x) eqn:Hv.
    + apply Qm_suspend_m_map; auto.
      destruct (m_holds x) eqn:Hho; auto. specialize (Hh x eq_refl Hho). congruence.
    + apply Qm_start_then_next; auto.
Qed.

Lemma Qm_run_m {PA PB : Prop} s m : Qm PA PB s -> Qm PA PB (run_m s m).
Proof.
  intros H. unfold run_m.
  destruct (get_m s m) as [x0|] eqn:Hx; auto.
  destruct (m_pc x0) eqn:Hpc; auto.
  - (* MNotStarted *)
    destruct (task_input (m_mc x0) (m_fw x0)); try (apply Qm_finish_m; auto).
    apply Qm_spawn_next, Qm_put_m; auto. apply Pm_pc; cbn; congruence.
  - (* MWaitMap *)
    destruct (task_input (m_mc x0) (m_fw x0)); try (apply Qm_finish_m; auto).
    apply Qm_start_then_next; auto.
  - (* MWaitPool *)
    set (x := set_m_mc (set_m_fw x0 None) false).
    set (s1 := put_m (set_sem_waiters s (remove1 m (sem_waiters s))) m x).
    assert (H1 : Qm PA PB s1).
    { apply Qm_put_m.
      - eapply Qm_same; [|exact H]. reflexivity.
      - apply Pm_pc; unfold x; cbn; congruence. }
    clearbody s1.
    destruct (task_input (m_mc x0) (m_fw x0)).
    + apply Qm_spawn_next, Qm_register.
      destruct (ninf_pos (sem_value s1)); auto. apply Qm_wake_next; auto.
    + apply Qm_finish_m.
      destruct (m_fw x0) as [[]|]; auto; apply Qm_sem_release; auto.
    + apply Qm_finish_m.
      destruct (m_fw x0) as [[]|]; auto; apply Qm_sem_release; auto.
Qed.

(** ** Drivers *)
Lemma Qm_wake_closed {PA PB : Prop} ds : forall s, Qm PA PB s -> Qm PA PB (wake_closed s ds).
Proof.
  induction ds as [|d t IH]; intros s H; simpl; auto.
  apply IH. destruct (get_d s d) as [x|]; auto.
  destruct (fut_pending (d_fw x)); auto. apply Qm_sched, Qm_put_d; auto.
Qed.

Lemma Qm_after_g2 {PA PB : Prop} s d x outer : Qm PA PB s -> Qm PA PB (after_g2 s d x outer).
Proof.
  intros H. unfold after_g2.
  destruct outer; try (apply Qm_finish_d; auto; fail).
  - destruct (d_kind x); apply Qm_finish_d; auto; try apply Qm_wake_closed;
      (eapply Qm_same; [|exact H]; reflexivity).
  - destruct (d_kind x); apply Qm_finish_d; auto; try apply Qm_wake_closed;
      (eapply Qm_same; [|exact H]; reflexivity).
Qed.

Lemma Qm_start_g2 {PA PB : Prop} s d x cs re : Qm PA PB s -> Qm PA PB (start_g2 s d x cs re).
Proof.
  intros H. unfold start_g2.
  destruct (make_gather s (map TP cs) re) as [g outer].
  destruct outer; try (apply Qm_after_g2; auto).
  apply Qm_set_ctl, Qm_put_d; auto.
Qed.

Lemma Qm_after_g1 {PA PB : Prop} s d x outer : Qm PA PB s -> Qm PA PB (after_g1 s d x outer).
Proof.
  intros H. unfold after_g1.
  destruct (d_kind x).
  - assert (Hgo : Qm PA PB (start_g2 (set_meta_cancelled s []) d x
             (dict_merge (t_ended (set_meta_cancelled s []))
                         (t_cancelled (set_meta_cancelled s []))) re)).
    { apply Qm_start_g2. eapply Qm_same; [|exact H]. reflexivity. }
    destruct outer as [| |e|]; auto.
    destruct e; auto; apply Qm_finish_d; auto.
  - destruct (if re then None else _).
    + apply Qm_finish_d; auto.
    + apply Qm_start_g2. eapply Qm_same; [|exact H]. reflexivity.
  - apply Qm_finish_d; auto.
Qed.

Lemma Qm_start_g1 {PA PB : Prop} s d x cs re : Qm PA PB s -> Qm PA PB (start_g1 s d x cs re).
Proof.
  intros H. unfold start_g1.
  destruct (make_gather s (map TM cs) re) as [g outer].
  destruct outer; try (apply Qm_after_g1; auto).
  apply Qm_set_ctl, Qm_put_d; auto.
Qed.

Lemma Qm_run_d {PA PB : Prop} s d : Qm PA PB s -> Qm PA PB (run_d s d).
Proof.
  intros H. unfold run_d.
  destruct (get_d s d) as [x0|]; auto.
  destruct (d_pc x0); auto;
    try (apply Qm_finish_d; eapply Qm_same; [|exact H]; reflexivity).
  - cbn [d_kind set_d_fw]. destruct (d_kind x0).
    + destruct (pop_ended s (gmeta s)) as [gm ended].
      apply Qm_start_g1. eapply Qm_same; [|exact H]. reflexivity.
    + apply Qm_start_g1. eapply Qm_same; [|exact H]. reflexivity.
    + destruct (closed s); [apply Qm_finish_d; auto|].
      apply Qm_set_ctl, Qm_put_d. eapply Qm_same; [|exact H]. reflexivity.
  - apply Qm_after_g1; auto.
  - apply Qm_after_g2; auto.
Qed.

Lemma Qm_run_g {PA PB : Prop} s d c : Qm PA PB s -> Qm PA PB (run_g s d c).
Proof.
  intros H. unfold run_g.
  destruct (get_d s d) as [x|]; auto.
  destruct (tref_final s c) as [o|]; auto.
  destruct (if match c with TM _ => true | _ => false end then d_g1 x else d_g2 x) as [g|]; auto.
  destruct (if match d_pc x, match c with TM _ => true | _ => false end with
               | DWaitG1, true | DWaitG2, false => true | _, _ => false end
            then d_fw x else None) as [[| | |]|]; try (apply Qm_put_d; auto).
  destruct (gather_cb _ _ _ _ _) as [nfin outer].
  destruct outer; try (apply Qm_sched); apply Qm_put_d; auto.
Qed.

(** ** Operations *)
Lemma Qm_fold {PA PB : Prop} {T} (f : state -> T -> state) :
  (forall s a, Qm PA PB s -> Qm PA PB (f s a)) -> forall l s, Qm PA PB s -> Qm PA PB (fold_left f l s).
Proof. intros Hf l. induction l as [|a t IH]; intros s H; simpl; auto. Qed.

Lemma Qm_know {PA PB : Prop} s g : Qm PA PB s -> Qm PA PB (know s g).
Proof. intros H. unfold know. destruct (existsb _ _); auto. Qed.

Lemma Qm_cancel_m {PA PB : Prop} s m : Qm PA PB s -> Qm PA PB (cancel_m s m).
Proof.
  intros H. unfold cancel_m.
  destruct (get_m s m) as [x|] eqn:Hx; auto.
  destruct (m_final x); auto.
  set (s1 := if is_current s (TM m) then set_taint_iter s true else s).
  assert (H1 : Qm PA PB s1) by (unfold s1; destruct (is_current s (TM m)); auto).
  clearbody s1.
  destruct (fut_pending (m_fw x)).
  - apply Qm_sched, Qm_put_m; auto.
    eapply Pm_same; [..|apply (H m x Hx)]; cbn; auto; congruence.
  - apply Qm_put_m; auto.
    eapply Pm_same; [..|apply (H m x Hx)]; cbn; auto.
Qed.

Lemma Qm_cancel_p {PA PB : Prop} s t : Qm PA PB s -> Qm PA PB (cancel_p s t).
Proof.
  intros H. unfold cancel_p.
  destruct (get_p s t) as [x|]; auto.
  destruct (p_unst x); try (apply Qm_put_p; auto).
  destruct (p_final x); auto.
  set (s1 := if is_current s (TP t) && final_segment x then set_taint_self s true else s).
  assert (H1 : Qm PA PB s1) by (unfold s1; destruct (is_current s (TP t) && final_segment x); auto).
  clearbody s1.
  destruct (fut_pending (p_fw x)); [apply Qm_sched|]; apply Qm_put_p; auto.
Qed.

Lemma Qm_do_cancel {PA PB : Prop} s ids : Qm PA PB s -> Qm PA PB (do_cancel s ids).
Proof.
  intros H. unfold do_cancel. destruct (first_lookup_err s ids); auto.
  apply Qm_fold; auto. intros; apply Qm_cancel_p; auto.
Qed.

Lemma Qm_cancel_group_metas {PA PB : Prop} s g : Qm PA PB s -> Qm PA PB (cancel_group_metas s g).
Proof.
  intros H. unfold cancel_group_metas. destruct (glookup g (gmeta s)) as [ms|]; auto.
  eapply Qm_same; [reflexivity|].
  apply Qm_fold; [intros; apply Qm_cancel_m; auto|].
  eapply Qm_same; [|exact H]. reflexivity.
Qed.

Lemma Qm_mark_dead {PA PB : Prop} s g : Qm PA PB s -> Qm PA PB (mark_dead s g).
Proof.
  intros H m y Hy. unfold get_m, mark_dead in Hy; cbn in Hy.
  rewrite nth_error_map in Hy.
  destruct (nth_error (mtasks s) m) as [x|] eqn:Hx; [|discriminate].
  injection Hy as <-. pose proof (H m x Hx) as Px.
  destruct (gname_eqb g (m_group x)); auto.
Qed.

Lemma Qm_cancel_group_body {PA PB : Prop} s g ids : Qm PA PB s -> Qm PA PB (cancel_group_body s g ids).
Proof.
  intros H. unfold cancel_group_body. apply Qm_fold.
  - intros s' t H'. destruct (mem t (t_running s')); auto. apply Qm_cancel_p; auto.
  - apply Qm_mark_dead, Qm_cancel_group_metas; auto.
Qed.

Lemma Qm_cancel_all_groups {PA PB : Prop} gs : forall s, Qm PA PB s -> Qm PA PB (cancel_all_groups s gs).
Proof.
  induction gs as [|[g ids] t IH]; intros s H; simpl; auto.
  apply IH, Qm_cancel_group_body; auto.
Qed.

Lemma Qm_new_meta {PA PB : Prop} s x : Qm PA PB s -> m_pc x = MNotStarted -> Qm PA PB (new_meta s x).
Proof.
  intros H Hpc. unfold new_meta. apply Qm_sched.
  intros m y Hy. unfold get_m in Hy; cbn in Hy.
  destruct (Nat.lt_ge_cases m (length (mtasks s))) as [Hlt|Hge].
  - rewrite nth_error_app1 in Hy by auto. apply (H m y Hy).
  - rewrite nth_error_app2 in Hy by auto.
    destruct (m - length (mtasks s)) as [|k]; simpl in Hy.
    + injection Hy as <-. apply Pm_pc; congruence.
    + destruct k; discriminate.
Qed.

Lemma Qm_set_res {PA PB : Prop} s r : Qm PA PB s -> Qm PA PB (set_res s r).
Proof. apply Qm_same. reflexivity. Qed.
Lemma Qm_set_groups {PA PB : Prop} s r : Qm PA PB s -> Qm PA PB (set_groups s r).
Proof. apply Qm_same. reflexivity. Qed.
Lemma Qm_set_start_calls {PA PB : Prop} s r : Qm PA PB s -> Qm PA PB (set_start_calls s r).
Proof. apply Qm_same. reflexivity. Qed.
Lemma Qm_set_locked {PA PB : Prop} s r : Qm PA PB s -> Qm PA PB (set_locked s r).
Proof. apply Qm_same. reflexivity. Qed.
Lemma Qm_set_taint_unlock {PA PB : Prop} s r : Qm PA PB s -> Qm PA PB (set_taint_unlock s r).
Proof. apply Qm_same. reflexivity. Qed.

Lemma Qm_do_op {PA PB : Prop} s o : Qm PA PB s -> Qm PA PB (do_op s o).
Proof.
  intros H. destruct o; unfold do_op.
  - (* OpApply *)
    set (s1 := match g with Some g0 => know s g0 | None => s end).
    assert (H1 : Qm PA PB s1) by (unfold s1; destruct g; auto; apply Qm_know; auto).
    clearbody s1.
    destruct (check_start s1 noncoro); [apply Qm_set_res; auto|].
    destruct (ghas _ (groups s1)); [apply Qm_set_res; auto|].
    apply Qm_set_res, Qm_new_meta; [|reflexivity].
    apply Qm_set_groups, Qm_know; auto.
  - (* OpMap *)
    set (s1 := match g with Some g0 => know s g0 | None => s end).
    assert (H1 : Qm PA PB s1) by (unfold s1; destruct g; auto; apply Qm_know; auto).
    clearbody s1.
    destruct (check_start s1 noncoro); [apply Qm_set_res; auto|].
    destruct (Nat.eqb nc 0); [apply Qm_set_res; auto|].
    destruct (ghas _ (groups s1)); [apply Qm_set_res; auto|].
    apply Qm_set_res, Qm_new_meta; [|reflexivity].
    apply Qm_set_groups, Qm_know; auto.
  - (* OpStart *)
    destruct (check_start s false); [apply Qm_set_res; auto|].
    apply Qm_set_res, Qm_new_meta; [|reflexivity].
    apply Qm_set_groups, Qm_set_start_calls, Qm_know; auto.
  - apply Qm_do_cancel; auto.
  - (* OpCancelGroup *)
    pose proof (Qm_know s g H) as H1.
    destruct (glookup g (groups (know s g))).
    + apply Qm_cancel_group_body, Qm_set_groups; auto.
    + apply Qm_set_res; auto.
  - apply Qm_cancel_all_groups, Qm_set_groups; auto.
  - (* OpStop *)
    pose proof (Qm_do_cancel s
      (match n with Some k => firstn_rev k (t_running s) | None => [] end) H) as H1.
    destruct (res _); auto; apply Qm_set_res; auto.
  - (* OpStopAll *)
    pose proof (Qm_do_cancel s (firstn_rev (length (t_running s)) (t_running s)) H) as H1.
    destruct (res _); auto; apply Qm_set_res; auto.
  - apply Qm_set_locked; auto.
  - apply Qm_set_locked. destruct (Nat.ltb 0 (n_gac s)); auto.
  - destruct v; [|apply Qm_set_res; auto]. eapply Qm_same; [|exact H]. reflexivity.
  - apply Qm_set_res, Qm_fold; auto. intros; apply Qm_know; auto.
  - apply Qm_sched. eapply Qm_same with (s := s); auto. destruct k; reflexivity.
  - destruct (get_p s tid); auto. apply Qm_sched, Qm_put_p; auto.
  - destruct (get_p s tid); auto. apply Qm_sched, Qm_put_p; auto.
Qed.

(** ** The step *)
Lemma Qm_init {PA PB : Prop} c : Qm PA PB (init c).
Proof. intros [|m] y Hy; discriminate. Qed.

Lemma Qm_step {PA PB : Prop} s l :
  (forall m x, get_m s m = Some x -> m_holds x = true -> m_pc x = MWaitPool) ->
  Qm PA PB s -> Qm PA PB (step s l).
Proof.
  intros Hh H0. unfold step.
  set (s1 := set_res (set_evs s []) RNone).
  assert (H : Qm PA PB s1) by exact H0.
  assert (Hh1 : forall m x, get_m s1 m = Some x -> m_holds x = true -> m_pc x = MWaitPool)
    by exact Hh.
  clearbody s1. clear H0 Hh s.
  destruct (negb (enabled s1 l)); [exact H|].
  destruct l as [h| |o].
  - assert (Hu : Qm PA PB (unsched s1 h)) by (eapply Qm_same; [|exact H]; reflexivity).
    destruct h as [[t|m|d]|d c]; simpl run_handle.
    + apply Qm_run_p; auto.
    + apply Qm_run_m; auto.
    + apply Qm_run_d; auto.
    + apply Qm_run_g; auto.
  - destruct (ctl s1) as [|[t|m|d]]; auto.
    + apply Qm_continue_p; auto.
    + apply Qm_continue_m; auto. intros x. apply Hh1.
  - apply Qm_do_op; auto.
Qed.

Lemma Qm_step_WF {PA PB : Prop} s l : WF s -> Qm PA PB s -> Qm PA PB (step s l).
Proof.
  intros W. apply Qm_step. intros m x Hx Hh.
  apply (IM_holds _ (wfm _ W) m x Hx Hh).
Qed.

(** ** Deliverables: each of the two extra invariants is inductive *)
Lemma Extra_B_init : forall c, Extra_B (init c).
Proof. intros c. apply Qm_B, Qm_init. Qed.

Lemma Extra_B_step : forall s l, WF s -> Extra_B s -> clean (step s l) -> Extra_B (step s l).
Proof. intros s l W X _. apply Qm_B, Qm_step_WF; auto. apply Qm_B; auto. Qed.

Lemma Extra_map'_init : forall c, Extra_map' (init c).
Proof. intros c. apply Qm_M, Qm_init. Qed.

Lemma Extra_map'_step :
  forall s l, WF s -> Extra_map' s -> clean (step s l) -> Extra_map' (step s l).
Proof. intros s l W X _. apply Qm_M, Qm_step_WF; auto. apply Qm_M; auto. Qed.

(** Packaged for the final assembly. *)
Definition Extra_BM (s : state) : Prop := Extra_B s /\ Extra_map' s.

Lemma Extra_BM_init : forall c, Extra_BM (init c).
Proof. intros c. split; [apply Extra_B_init|apply Extra_map'_init]. Qed.

Lemma Extra_BM_step : forall s l, WF s -> Extra_BM s -> clean (step s l) -> Extra_BM (step s l).
Proof. intros s l W [X1 X2] C. split; [apply Extra_B_step|apply Extra_map'_step]; auto. Qed.
