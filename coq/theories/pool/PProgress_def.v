(** Progress (no livelock) of the pool model — definitions.

    An *internal* label is a move of the event loop itself ([LRun h]: run a ready handle; [LGo]:
    continue from the current user-code point); [LOp _] labels are moves of the environment.  An
    *internal run* from [s] is a list of internal labels each of which is enabled in the state
    where it fires.  A state is *quiet* when the loop is idle and no handle is ready.

    The termination measure [mu] is a sum of potentials, one per task record, plus the number of
    ready handles:

      - every ready handle counts 1 (running it removes it);
      - a pool task counts [phi_pc D pc], a number that only depends on its program counter and
        strictly decreases along the wrapper's control flow; it pre-pays the at most one
        self-wake-up of each suspension and the at most [D] gather callbacks that the task's
        completion schedules, where [D] is the number of driver records (constant along internal
        runs);
      - a spawner counts a per-iteration cost [D + 20] (which pre-pays a whole pool task) for each
        remaining loop iteration [Rm], an offset for its position inside the current iteration,
        the [D] callbacks of its own completion, and 1 while the future it waits for is pending
        (that unit pays for the ready handle created when somebody else completes the future:
        semaphore hand-off, map-semaphore release);
      - a driver counts a small number decreasing with its program counter, and 1 while the
        future it waits for is pending (paying for the wake-up by a gather callback or by
        [closed]). *)
From TP Require Export PModel.

Unset Implicit Arguments.

Definition internal (l : label) : bool :=
  match l with LRun _ | LGo => true | LOp _ => false end.

(** The k-th label of [tr] is internal and enabled in the state reached by the first k labels. *)
Definition internal_run (s : state) (tr : list label) : Prop :=
  forall k l, nth_error tr k = Some l ->
    internal l = true /\ enabled (fold_left step (firstn k tr) s) l = true.

(** The same, by recursion on the trace (equivalence: [internal_run_irun], PProgress.v). *)
Fixpoint irun (s : state) (tr : list label) : Prop :=
  match tr with
  | [] => True
  | l :: tr' => internal l = true /\ enabled s l = true /\ irun (step s l) tr'
  end.

Definition quiet (s : state) : Prop := ctl s = CIdle /\ ready s = [].

(** ** Potentials *)
Definition pend (f : option fut) : nat := if fut_pending f then 1 else 0.

(** cost of [n] spawner iterations *)
Definition it (D n : nat) : nat := n * (D + 20).

Definition phi_pc (D : nat) (pc : ppc) : nat :=
  match pc with
  | PDone => 0
  | PWaitEcb => D + 1
  | PUEndCb => D + 3
  | PWaitCcb => D + 3
  | PUCancelCb => D + 5
  | PUCancelled | PUResume | PWaitGate => D + 6
  | PUStart | PCreated => D + 8
  end.

Definition phi_p (D : nat) (x : ptask) : nat := phi_pc D (p_pc x).

(** remaining loop iterations of a spawner: [m_num - m_idx] for apply()/start() (where [m_els] is
    empty), the remaining elements for the map family (where [m_num] is 0).  The sum makes the
    bound independent of the request kind, so no invariant is needed to tell them apart. *)
Definition Rm (x : mtask) : nat := (m_num x - m_idx x) + (length (m_els x) - m_idx x).

Definition phi_mc (D : nat) (pc : mpc) (r : nat) : nat :=
  match pc with
  | MDone => 0
  | MNotStarted | MLoopHead => D + 3 + it D r
  | MAtIter => D + 2 + it D r
  | MWaitMap => 2 * D + 16 + it D (r - 1)
  | MWaitPool => 2 * D + 14 + it D (r - 1)
  end.

Definition phi_m (D : nat) (x : mtask) : nat := pend (m_fw x) + phi_mc D (m_pc x) (Rm x).

Definition phi_dc (pc : dpc) : nat :=
  match pc with DNotStarted => 4 | DWaitG1 => 3 | DWaitG2 => 2 | DWaitClosed => 1 | DDone => 0 end.

Definition phi_d (x : dtask) : nat := pend (d_fw x) + phi_dc (d_pc x).

Fixpoint lsum {A} (f : A -> nat) (l : list A) : nat :=
  match l with [] => 0 | x :: t => f x + lsum f t end.

Definition Dn (s : state) : nat := length (dtasks s).

Definition muD (D : nat) (s : state) : nat :=
  length (ready s) + lsum (phi_p D) (ptasks s) + lsum (phi_m D) (mtasks s) + lsum phi_d (dtasks s).

(** The measure. *)
Definition mu (s : state) : nat := muD (Dn s) s.
