(** C12 — A failing task or callback harms only itself.  Property theorems only. *)
From TP Require Import PSpecStep PRun PWF PStep_D PExamples.

(** outcomes: a task ends normally or with its own user exception and its slot is released
    whatever the outcome; spawners never fail; flush()/gather_and_close() end normally or with an
    exception raised by user code of a pool task — never a different one — and never raise with
    return_exceptions=True *)
Theorem C12 : forall c tr, clean (run c tr) -> C12_spec (run c tr).
Proof. intros c tr Hc. destruct (WFx_run c tr Hc). apply C12_of_WF; assumption. Qed.

Example C12_example :
  let s := run cfg2 (tr_full ++ [LOp (OpFinish 0 FinRaise); LRun (HT (TP 0)); LGo; LGo;
                                 LOp (OpDriver (DFlush false)); LRun (HT (TD 0))]) in
  clean s /\ taint_self s = false /\
  map (fun x => (p_final x, p_nrel x)) (firstn 1 (ptasks s)) = [(Some (OExc (EUser 0 SWorker)), 1)] /\
  map d_final (dtasks s) = [Some (OExc (EUser 0 SWorker))] /\ length (t_running s) = 1.
Proof. vm_compute. repeat split; reflexivity. Qed.

(** Non-interference (a two-run property): a run in which workers and callbacks raise is, up to
    the failures themselves, the same run as the one in which nothing raises — same enabledness,
    control points, counters, is_full, is_locked, pool_size, ready queue, results and group ids
    after every label.  Stated for runs whose flush()/gather_and_close() calls use
    return_exceptions=True (with False the call itself raises and then forgets nothing — that is
    C12's own text — witness PNonInt.re_only_needed) and under P-self (witness
    PNonInt.taint_self_dependence: open finding D11). *)
From TP Require PNonInt PNonInt_def PObs.
Theorem C12_noninterference : forall c tr,
  Forall PNonInt_def.re_only tr -> clean (run c tr) -> taint_self (run c tr) = false ->
  PNonInt_def.erase_state (run c tr) = run (PNonInt_def.erase_cfg c) (map PNonInt_def.erase_label tr).
Proof. exact PNonInt.C12_noninterference. Qed.

Theorem C12_same_observations : forall c tr,
  Forall PNonInt_def.re_only tr -> clean (run c tr) -> taint_self (run c tr) = false ->
  map PNonInt_def.erase_obs (PObs.observe c tr)
  = PObs.observe (PNonInt_def.erase_cfg c) (map PNonInt_def.erase_label tr).
Proof. exact PNonInt.C12_same_observations. Qed.

(** Monitor soundness: the extracted monitor for C12 (all three clauses) never rejects a stream of the model (P-self). *)
From TP Require PMonSound12_C12 PObs PMon.
Theorem mon_sound : forall c tr, clean (run c tr) -> taint_self (run c tr) = false -> PMon.ok_C12 c (PObs.observe c tr) = true.
Proof. exact PMonSound12_C12.mon_C12_sound. Qed.

Print Assumptions C12.
Print Assumptions C12_noninterference.
Print Assumptions C12_same_observations.
Print Assumptions mon_sound.
