(** C12 — A failing task or callback harms only itself.  Property theorems only. *)
From TP Require Import PSpecStep PRun PWF PStep_D PExamples.

(** outcomes: a task ends normally or with its own user exception and its slot is released
    whatever the outcome; spawners never fail; flush()/gather_and_close() end normally or with an
    exception raised by user code of a pool task — never a different one — and never raise with
    return_exceptions=True *)
Theorem C12 : forall c tr, clean (run c tr) -> C12_spec (run c tr).
Proof. intros c tr Hc. destruct (WFx_run c tr Hc). apply C12_of_WF; assumption. Qed.

Example C12_example :
  let s := run cfg2 (tr_full ++ [LOp (OpFinish 0 FinRaise); LRun (HT (TP 0)); LGo; LGo;
                                 LOp (OpDriver (DFlush false)); LRun (HT (TD 0))]) in
  clean s /\ taint_self s = false /\
  map (fun x => (p_final x, p_nrel x)) (firstn 1 (ptasks s)) = [(Some (OExc (EUser 0 SWorker)), 1)] /\
  map d_final (dtasks s) = [Some (OExc (EUser 0 SWorker))] /\ length (t_running s) = 1.
Proof. vm_compute. repeat split; reflexivity. Qed.

Print Assumptions C12.
