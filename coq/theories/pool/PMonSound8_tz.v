(** Monitor soundness, C08 — tracker-side invariant: the tracker has noted a user exception as
    soon as its task table lists a task whose request says that the worker raises at once. *)
From TP Require Import PMon PMonSound_trk PMonSound_C45_trk PMonSound_C45_trk2
  PMonSound_C13_kd PMonSound8_trk PMonSound8_rz.

Definition TZ (k : trk) : Prop :=
  forall t r el x, assoc t (k_task k) = Some (r, el) -> nth_error (k_reqs k) r = Some x ->
                   w_first (wof x el) = WRaise -> NE k.

(** the fields of a request that determine [wof] never change *)
Definition wk (x : req) := (r_kind x, r_els x, r_w x).

Lemma wof_wk x x' el : wk x' = wk x -> wof x' el = wof x el.
Proof. unfold wk, wof. intros E. injection E as -> -> ->. reflexivity. Qed.

Lemma wk_rq_ev rs e : map wk (rq_ev rs e) = map wk rs.
Proof.
  destruct e as [t r el|t|t|kd t cl|kd t raised|kd t|r n|d oc]; simpl; auto.
  - destruct (nth_error rs r) as [x|] eqn:Hx; auto. apply map_upd_same. intros y Hy.
    assert (y = x) by congruence. subst y. reflexivity.
  - destruct (nth_error rs r) as [x|] eqn:Hx; auto. apply map_upd_same. intros y Hy.
    assert (y = x) by congruence. subst y. reflexivity.
Qed.

Lemma wk_fold es : forall rs, map wk (fold_left rq_ev es rs) = map wk rs.
Proof. induction es as [|e es IH]; intros rs; simpl; auto. rewrite IH. apply wk_rq_ev. Qed.

Lemma wk_lab c rs b o : exists tl, map wk (lab_reqs c rs b o) = map wk rs ++ tl.
Proof.
  assert (Hsame : exists tl, map wk rs = map wk rs ++ tl) by (exists []; rewrite app_nil_r; reflexivity).
  assert (Happ : forall x, exists tl, map wk (rs ++ [x]) = map wk rs ++ tl)
    by (intros x; exists [wk x]; apply map_app).
  assert (Hmap : forall f, (forall x, wk (f x) = wk x) -> exists tl, map wk (map f rs) = map wk rs ++ tl).
  { intros f Hf. exists []. rewrite app_nil_r, map_map. apply map_ext. exact Hf. }
  unfold lab_reqs. destruct (negb (o_enabled o)); auto.
  destruct (o_label o) as [h| |op]; auto. destruct op; auto; try (destruct (o_res o); auto).
  all: apply Hmap; intros x; try destruct (gname_eqb _ _); reflexivity.
Qed.

Lemma wk_old c rs b o es r x' :
  r < length rs -> nth_error (fold_left rq_ev es (lab_reqs c rs b o)) r = Some x' ->
  exists x, nth_error rs r = Some x /\ wk x' = wk x.
Proof.
  intros Hlt Hx'.
  assert (H : nth_error (map wk (fold_left rq_ev es (lab_reqs c rs b o))) r = Some (wk x'))
    by (rewrite nth_error_map, Hx'; reflexivity).
  rewrite wk_fold in H. destruct (wk_lab c rs b o) as [tl E]. rewrite E in H.
  rewrite nth_error_app1 in H by (rewrite map_length; exact Hlt).
  rewrite nth_error_map in H. destruct (nth_error rs r) as [x|]; [|discriminate].
  simpl in H. exists x. split; [reflexivity|congruence].
Qed.

Lemma assoc_fold n es : forall V t p,
  assoc t (v_task (fold_left (vev5 n) es V)) = Some p ->
  (exists r el, In (EvStart t r el) es) \/ assoc t (v_task V) = Some p.
Proof.
  induction es as [|e es IH]; intros V t p H; simpl in *; auto.
  destruct (IH _ _ _ H) as [(r & el & Hin)|Hold]; [left; eauto|].
  destruct e as [t' r el|t'|t'|kd t' cl|kd t' raised|kd t'|r k|d oc]; simpl in Hold; auto.
  destruct (Nat.ltb r n); auto. unfold v_task in Hold. cbn [snd assoc] in Hold.
  destruct (Nat.eqb_spec t t') as [->|Ne]; [left; eauto|right; exact Hold].
Qed.

Theorem TZ_step c k o :
  TZ k -> (forall t r el, assoc t (k_task k) = Some (r, el) -> r < length (k_reqs k)) ->
  TZ (fst (mon_step c k o)).
Proof.
  intros HT Hlt t r el x' Ha Hx Hw.
  destruct (mon_step_45 c k o) as (kk & _ & Hr1 & Hrk & Hvk & Hr' & Hv'). cbv zeta in *.
  destruct (mon_step_raised c k o) as (X & _ & _ & H4). cbv zeta in *.
  pose proof Ha as Ha'.
  change (k_task (fst (mon_step c k o))) with (v_task (tview5 (fst (mon_step c k o)))) in Ha'.
  rewrite Hv', Hvk in Ha'.
  destruct (assoc_fold _ _ _ _ _ Ha') as [(r0 & el0 & Hin)|Hold].
  - eapply H4; eauto.
  - change (v_task (tview5 k)) with (k_task k) in Hold.
    rewrite Hr', Hrk, Hr1 in Hx.
    destruct (wk_old _ _ _ _ _ _ _ (Hlt _ _ _ Hold) Hx) as (x & Hx0 & Ew).
    eapply ext_NE; [exact X|]. eapply HT; eauto. rewrite <- (wof_wk _ _ _ Ew). exact Hw.
Qed.
