(** Monitor soundness, C01 pilot — the tracker side.
    (1) how [k_live], [k_cbs], [k_setsize] evolve under [on_label], [on_events], ...;
    (2) only [state_clauses] ever produces a clause of property 1. *)
From TP Require Import PMon.

(** ** The view of the tracker that C01 depends on *)
Definition view := (list nat * list (nat * cbkind))%type.

Definition tview (k : trk) : view := (k_live k, k_cbs k).

(** effect of one event on the view; [n] = number of requests the tracker knows *)
Definition vev (n : nat) (V : view) (e : event) : view :=
  match e with
  | EvStart t r _ => if Nat.ltb r n then (t :: fst V, snd V) else V
  | EvExit t => (removeall t (fst V), snd V)
  | EvCbBegin kd t _ => (fst V, (t, kd) :: snd V)
  | EvCbEnd kd t _ => (fst V, del_cb (snd V) t kd)
  | EvCbInterrupted kd t => (fst V, del_cb (snd V) t kd)
  | _ => V
  end.

Lemma nth_error_ltb {A} (l : list A) r :
  match nth_error l r with Some _ => Nat.ltb r (length l) = true | None => Nat.ltb r (length l) = false end.
Proof.
  destruct (nth_error l r) eqn:H.
  - apply Nat.ltb_lt. apply nth_error_Some. congruence.
  - apply Nat.ltb_ge. apply nth_error_None. exact H.
Qed.

Definition same3 (k k' : trk) : Prop :=
  tview k' = tview k /\ length (k_reqs k') = length (k_reqs k) /\ k_setsize k' = k_setsize k.

Lemma on_event_view k o e :
  tview (fst (on_event k o e)) = vev (length (k_reqs k)) (tview k) e /\
  length (k_reqs (fst (on_event k o e))) = length (k_reqs k) /\
  k_setsize (fst (on_event k o e)) = k_setsize k.
Proof.
  destruct e as [t r el|t|t|kd t cl|kd t raised|kd t|r n|d oc]; unfold on_event, tview, vev.
  - pose proof (nth_error_ltb (k_reqs k) r) as Hl.
    destruct (nth_error (k_reqs k) r) as [x|]; rewrite Hl; cbn.
    + rewrite upd_length. auto.
    + auto.
  - cbn. auto.
  - cbn. auto.
  - destruct kd; cbn; auto.
  - cbn. auto.
  - cbn. auto.
  - destruct (nth_error (k_reqs k) r) as [x|]; cbn; auto.
    rewrite upd_length. auto.
  - destruct (nth_error (k_drvs k) d) as [v|]; cbn; auto.
    destruct (v_kind v); destruct oc; cbn; auto;
      try (destruct (k_prev k) as [p|]; cbn; auto).
Qed.

Lemma on_events_view es : forall k o,
  tview (fst (on_events k o es)) = fold_left (vev (length (k_reqs k))) es (tview k) /\
  length (k_reqs (fst (on_events k o es))) = length (k_reqs k) /\
  k_setsize (fst (on_events k o es)) = k_setsize k.
Proof.
  induction es as [|e es IH]; intros k o; simpl; auto.
  destruct (on_event k o e) as [k1 c1] eqn:H1.
  pose proof (on_event_view k o e) as (A1 & A2 & A3). rewrite H1 in A1, A2, A3. simpl in *.
  destruct (on_events k1 o es) as [k2 c2] eqn:H2.
  pose proof (IH k1 o) as (B1 & B2 & B3). rewrite H2 in B1, B2, B3. simpl in *.
  rewrite B1, B2, B3, A1, A2, A3. auto.
Qed.

Lemma note_raising_same es : forall k,
  tview (note_raising_starts k es) = tview k /\
  k_setsize (note_raising_starts k es) = k_setsize k.
Proof.
  unfold note_raising_starts.
  induction es as [|e es IH]; intros k; simpl; auto.
  match goal with |- context [fold_left ?f es ?k1] =>
    destruct (IH k1) as [A B]; unfold tview in *; rewrite A, B end.
  destruct e; auto.
  destruct (req_of k tid) as [[[r0 el0] x0]|]; auto.
  destruct (w_first _); auto.
Qed.

(** ** on_label *)
Lemma on_spawn_same k o first noncoro nc_bad g meth mk :
  (forall n, tview (mk n) = tview k /\ k_setsize (mk n) = k_setsize k) ->
  tview (fst (on_spawn k o first noncoro nc_bad g meth mk)) = tview k /\
  k_setsize (fst (on_spawn k o first noncoro nc_bad g meth mk)) = k_setsize k.
Proof.
  intros Hmk. unfold on_spawn. destruct (o_res o); cbn; auto.
Qed.

Lemma new_req_same k kind num bad els nc w ecb ccb g :
  tview (new_req k kind num bad els nc w ecb ccb g) = tview k /\
  k_setsize (new_req k kind num bad els nc w ecb ccb g) = k_setsize k.
Proof. unfold new_req, tview; cbn. auto. Qed.

Lemma target_same k ids : tview (target k ids) = tview k /\ k_setsize (target k ids) = k_setsize k.
Proof. unfold target, tview; cbn. auto. Qed.

Definition is_setsize (l : label) : bool :=
  match l with LOp (OpSetSize (Some _)) => true | _ => false end.

Lemma on_label_view c k o :
  tview (fst (on_label c k o)) = tview k /\
  k_setsize (fst (on_label c k o)) = k_setsize k || (o_enabled o && is_setsize (o_label o)).
Proof.
  unfold on_label. destruct (o_enabled o); simpl negb; cbv iota.
  2:{ simpl. rewrite orb_false_r. auto. }
  rewrite andb_true_l.
  destruct (o_label o) as [h| |op]; simpl is_setsize; try (rewrite orb_false_r; cbn; auto; fail).
  destruct op; simpl is_setsize; try rewrite orb_false_r; try rewrite orb_true_r;
    try (apply on_spawn_same; intros; apply new_req_same);
    try (destruct (o_res o); cbn; auto; fail);
    try (cbn; auto; fail).
  - match goal with |- context [on_spawn ?a ?b ?c ?d ?e ?f ?g ?h] =>
      pose proof (on_spawn_same a b c d e f g h) as Hs;
      destruct (on_spawn a b c d e f g h) as [k1 cs] end.
    simpl in Hs. destruct Hs as [A B]; [intros; apply new_req_same|].
    destruct (o_res o); cbn; auto.
  - destruct v; simpl is_setsize; try rewrite orb_false_r; try rewrite orb_true_r; cbn; auto.
  - destruct k0; cbn; auto.
  - destruct h; cbn; auto.
Qed.

(** ** No clause of property 1 outside [state_clauses] *)
Definition NC (l : list clause) : Prop := Forall (fun cl => clause_prop cl <> 1) l.

Lemma NC_nil : NC [].
Proof. constructor. Qed.

Lemma NC_app a b : NC a -> NC b -> NC (a ++ b).
Proof. intros. apply Forall_app. auto. Qed.

Lemma NC_fails b c : clause_prop c <> 1 -> NC (fails b c).
Proof. intros H. unfold fails. destruct b; constructor; auto. Qed.

Lemma NC_one c : clause_prop c <> 1 -> NC [c].
Proof. intros H. constructor; auto. Qed.

Lemma NC_filter f l : NC l -> NC (filter f l).
Proof.
  unfold NC. rewrite !Forall_forall. intros H x Hx. apply filter_In in Hx. apply H. tauto.
Qed.

Lemma NC_flat_map {A} (f : A -> list clause) l : (forall a, NC (f a)) -> NC (flat_map f l).
Proof.
  intros H. induction l as [|a l IH]; simpl; [apply NC_nil|]. apply NC_app; auto.
Qed.

Lemma NC_filter_nil l : NC l -> filter (fun cl => Nat.eqb (clause_prop cl) 1) l = [].
Proof.
  induction 1 as [|c l Hc Hl IH]; simpl; auto.
  destruct (Nat.eqb_spec (clause_prop c) 1); [tauto|exact IH].
Qed.

Ltac nc :=
  repeat first
    [ apply NC_nil
    | apply NC_app
    | apply NC_fails; discriminate
    | apply NC_one; discriminate
    | apply NC_filter ].

Lemma NC_on_event k o e : NC (snd (on_event k o e)).
Proof.
  destruct e as [t r el|t|t|kd t cl|kd t raised|kd t|r n|d oc]; unfold on_event.
  - destruct (nth_error (k_reqs k) r) as [x|]; cbn [snd]; [|nc].
    destruct (is_map_kind (r_kind x)); nc.
  - cbn [snd]. nc.
  - cbn [snd]. nc.
  - destruct kd; cbn [snd]; nc.
  - cbn [snd]. nc.
  - cbn [snd]. nc.
  - destruct (nth_error (k_reqs k) r) as [x|]; cbn [snd]; nc.
  - destruct (nth_error (k_drvs k) d) as [v|]; cbn [snd]; [|nc].
    destruct (v_kind v); destruct oc; cbn [snd]; try (destruct (k_prev k) as [p|]; cbn [snd]); nc.
Qed.

Lemma NC_on_events es : forall k o, NC (snd (on_events k o es)).
Proof.
  induction es as [|e es IH]; intros k o; simpl; [apply NC_nil|].
  pose proof (NC_on_event k o e) as H1. destruct (on_event k o e) as [k1 c1].
  pose proof (IH k1 o) as H2. destruct (on_events k1 o es) as [k2 c2].
  simpl in *. apply NC_app; auto.
Qed.

Lemma NC_on_spawn k o first noncoro nc_bad g meth mk :
  NC (snd (on_spawn k o first noncoro nc_bad g meth mk)).
Proof. unfold on_spawn. destruct (o_res o); cbn [snd]; nc. Qed.

Lemma NC_on_label c k o : NC (snd (on_label c k o)).
Proof.
  unfold on_label. destruct (negb (o_enabled o)); [apply NC_nil|].
  destruct (o_label o) as [h| |op]; try apply NC_nil.
  destruct op; try (cbn [snd]; nc; fail).
  - apply NC_on_spawn.
  - apply NC_on_spawn.
  - match goal with |- context [on_spawn ?a ?b ?c ?d ?e ?f ?g ?h] =>
      pose proof (NC_on_spawn a b c d e f g h) as Hs;
      destruct (on_spawn a b c d e f g h) as [k1 cs] end.
    simpl in Hs. destruct (o_res o); cbn [snd]; auto. nc. exact Hs.
  - destruct (o_res o); cbn [snd]; nc.
  - destruct (o_res o); cbn [snd]; nc.
  - destruct (o_res o); cbn [snd]; nc.
  - destruct (o_res o); cbn [snd]; nc.
  - destruct v; cbn [snd]; nc.
Qed.

(** ** state_clauses: the C01 part *)
Definition c01_part (c : config) (k : trk) (o : obs) : list clause :=
  if negb (k_setsize k) then
     fails (ninf_geb (cf_size c) (o_nr o)) C01_bound_running
     ++ fails (ninf_geb (cf_size c) (length (k_live k))) C01_bound_live
     ++ fails (match cf_size c with Inf => negb (o_full o) | _ => true end) C01_inf_not_full
     ++ fails (negb (quiet k o) || Bool.eqb (o_full o) (ninf_eqb (cf_size c) (Fin (o_nr o))))
              C01_full_iff
  else [].

Lemma state_clauses_split c k o :
  exists rest, state_clauses c k o = c01_part c k o ++ rest /\ NC rest.
Proof.
  unfold state_clauses, c01_part. cbv zeta. eexists. split; [reflexivity|].
  nc.
  - apply NC_flat_map. intros [r x]. destruct (r_kind x); nc;
      try (destruct (group_ids o (r_group x)); nc; destruct (r_dead x); nc).
  - destruct (k_setsize k); nc.
Qed.

(** ** one monitor step, as far as property 1 is concerned *)
Lemma mon_step_C01 c k o :
  let k1 := fst (on_label c k o) in
  let k' := fst (mon_step c k o) in
  exists kk,
    filter (fun cl => Nat.eqb (clause_prop cl) 1) (snd (mon_step c k o)) =
    filter (fun cl => Nat.eqb (clause_prop cl) 1) (c01_part c kk o) /\
    tview kk = fold_left (vev (length (k_reqs k1))) (o_events o) (tview k) /\
    k_setsize kk = k_setsize k || (o_enabled o && is_setsize (o_label o)) /\
    tview k' = tview kk /\ k_setsize k' = k_setsize kk.
Proof.
  cbv zeta. unfold mon_step.
  pose proof (on_label_view c k o) as (L1 & L2). pose proof (NC_on_label c k o) as L3.
  destruct (on_label c k o) as [k1 c1]. simpl fst in *. simpl snd in *.
  pose proof (on_events_view (o_events o) k1 o) as (E1 & E2 & E3).
  pose proof (NC_on_events (o_events o) k1 o) as E4.
  destruct (on_events k1 o (o_events o)) as [k2 c2]. simpl fst in *. simpl snd in *.
  destruct (note_raising_same (o_events o) k2) as (N1 & N2).
  set (k3 := note_raising_starts k2 (o_events o)) in *.
  exists (set_k_nids k3 (k_nids k)).
  destruct (state_clauses_split c (set_k_nids k3 (k_nids k)) o) as (rest & Hs & Hr).
  cbn [snd fst]. rewrite Hs. rewrite !filter_app.
  rewrite (NC_filter_nil c1 L3), (NC_filter_nil c2 E4), (NC_filter_nil rest Hr).
  cbn [app]. rewrite app_nil_r.
  split; [reflexivity|]. split; [|split; [|split]].
  - change (tview k3 = fold_left (vev (length (k_reqs k1))) (o_events o) (tview k)).
    rewrite N1, E1, L1. reflexivity.
  - change (k_setsize k3 = k_setsize k || (o_enabled o && is_setsize (o_label o))).
    rewrite N2, E3, L2. reflexivity.
  - reflexivity.
  - reflexivity.
Qed.
